(** Relational form of the from-scratch evaluator of [Engine/MdlSpec.v] ([msev]), its basic
    properties, and oracle evaluations that also record the reads they make ([evr]): an
    oracle evaluation is a function (value AND reads) of the answers to its own reads. *)
From QV Require Import Common.Prelude Engine.Model Engine.Core Engine.CoreSpec Engine.CoreInvBase
  Engine.CoreInvSem Engine.MdlSpec.
Open Scope Z_scope.

Section Sem.
Variable p : program.

Inductive msev (inp : menv) : expr -> Z -> Prop :=
| msev_const : forall z, msev inp (EConst z) z
| msev_input : forall n v, nkind n = KInput -> input_get (fst inp) (nidx n) = Some v -> msev inp (ERead n) v
| msev_ext : forall n v, nkind n = KExternal -> snd inp (nidx n) = Some v -> msev inp (ERead n) v
| msev_exec : forall n b v, is_mexec_kind (nkind n) = true -> alookup p n = Some b -> msev inp b v -> msev inp (ERead n) v
| msev_add : forall a b x y, msev inp a x -> msev inp b y -> msev inp (EAdd a b) (x + y)
| msev_mul : forall a b x y, msev inp a x -> msev inp b y -> msev inp (EMul a b) (x * y)
| msev_lt : forall a b x y, msev inp a x -> msev inp b y -> msev inp (ELt a b) (if x <? y then 1 else 0)
| msev_mod : forall a m x, msev inp a x -> msev inp (EMod a m) (x mod m)
| msev_if : forall c a b x v, msev inp c x -> msev inp (if x =? 0 then b else a) v -> msev inp (EIf c a b) v
| msev_gnil : msev inp (EGroup []) 0
| msev_gcons : forall n ns x y, msev inp (ERead n) x -> msev inp (EGroup ns) y -> msev inp (EGroup (n :: ns)) (x + y).

Definition MSpecI (inp : menv) (n : node) (v : Z) : Prop := msev inp (ERead n) v.

Lemma msev_det : forall inp e v1, msev inp e v1 -> forall v2, msev inp e v2 -> v1 = v2.
Proof.
  intros inp e v1 H. induction H; intros v2 H2; inversion H2; subst; try congruence;
    try (match goal with H1 : nkind ?n = _, H2 : is_mexec_kind (nkind ?n) = true |- _ => rewrite H1 in H2; discriminate end);
    repeat match goal with
    | IH : forall v2, msev _ ?e v2 -> _ = v2, H : msev _ ?e _ |- _ => apply IH in H; subst
    end; try reflexivity.
  match goal with H1 : alookup p n = Some ?b1, H2 : alookup p n = Some ?b2 |- _ =>
    assert (b1 = b2) by congruence; subst end.
  auto.
Qed.

Lemma MSpecI_det : forall inp n v1 v2, MSpecI inp n v1 -> MSpecI inp n v2 -> v1 = v2.
Proof. intros. eapply msev_det; eauto. Qed.

Lemma ev_msev : forall inp (R : node -> Z -> Prop) e v, ev R e v ->
  (forall d x, In d (expr_reads e) -> R d x -> MSpecI inp d x) -> msev inp e v.
Proof.
  intros inp R e v H. induction H; intro HR; cbn [expr_reads] in HR.
  - constructor.
  - apply HR; [left; reflexivity|assumption].
  - constructor; [apply IHev1|apply IHev2]; intros; apply HR; auto; apply in_or_app; auto.
  - constructor; [apply IHev1|apply IHev2]; intros; apply HR; auto; apply in_or_app; auto.
  - constructor; [apply IHev1|apply IHev2]; intros; apply HR; auto; apply in_or_app; auto.
  - constructor. apply IHev. exact HR.
  - econstructor.
    + apply IHev1. intros; apply HR; auto; apply in_or_app; auto.
    + apply IHev2. intros d y Hd. apply HR. apply in_or_app. right. apply in_or_app.
      destruct (x =? 0); auto.
Qed.

(** an oracle evaluation is a function of the oracle *)
Lemma mev_det2 : forall (R1 R2 : node -> Z -> Prop) e v1, ev R1 e v1 -> forall v2, ev R2 e v2 ->
  (forall d x y, In d (expr_reads e) -> R1 d x -> R2 d y -> x = y) -> v1 = v2.
Proof.
  intros R1 R2 e v1 H. induction H; intros v2 H2 HR; inversion H2; subst; cbn [expr_reads] in HR.
  - reflexivity.
  - eapply HR; eauto. left. reflexivity.
  - f_equal; [eapply IHev1|eapply IHev2]; eauto; intros; eapply HR; eauto; apply in_or_app; auto.
  - f_equal; [eapply IHev1|eapply IHev2]; eauto; intros; eapply HR; eauto; apply in_or_app; auto.
  - assert (x = x0) by (eapply IHev1; eauto; intros; eapply HR; eauto; apply in_or_app; auto).
    assert (y = y0) by (eapply IHev2; eauto; intros; eapply HR; eauto; apply in_or_app; auto).
    subst. reflexivity.
  - f_equal. eapply IHev; eauto.
  - assert (x = x0) by (eapply IHev1; eauto; intros; eapply HR; eauto; apply in_or_app; auto).
    subst x0. eapply IHev2; eauto. intros d u w Hd. eapply HR. apply in_or_app. right. apply in_or_app.
    destruct (x =? 0); auto.
Qed.

(** ** equivalence with the fuelled evaluator *)
Lemma mxexpr_mono : forall f inp e v, mxexpr f p inp e = Some v ->
  forall f', (f <= f')%nat -> mxexpr f' p inp e = Some v.
Proof.
  induction f as [|f IH]; intros inp e v H f' Hle; [discriminate|].
  destruct f' as [|f']; [lia|]. assert (Hle' : (f <= f')%nat) by lia.
  cbn [mxexpr] in *. destruct e.
  - exact H.
  - destruct (nkind n); try exact H; (destruct (alookup p n) as [b|]; [|discriminate]); eapply IH; eauto.
  - destruct (mxexpr f p inp e1) as [x|] eqn:E1; [|discriminate]. rewrite (IH _ _ _ E1 _ Hle').
    destruct (mxexpr f p inp e2) as [y|] eqn:E2; [|discriminate]. rewrite (IH _ _ _ E2 _ Hle'). exact H.
  - destruct (mxexpr f p inp e1) as [x|] eqn:E1; [|discriminate]. rewrite (IH _ _ _ E1 _ Hle').
    destruct (mxexpr f p inp e2) as [y|] eqn:E2; [|discriminate]. rewrite (IH _ _ _ E2 _ Hle'). exact H.
  - destruct (mxexpr f p inp e) as [x|] eqn:E1; [|discriminate]. rewrite (IH _ _ _ E1 _ Hle'). exact H.
  - destruct (mxexpr f p inp e1) as [x|] eqn:E1; [|discriminate]. rewrite (IH _ _ _ E1 _ Hle').
    destruct (mxexpr f p inp e2) as [y|] eqn:E2; [|discriminate]. rewrite (IH _ _ _ E2 _ Hle'). exact H.
  - destruct (mxexpr f p inp e1) as [x|] eqn:E1; [|discriminate]. rewrite (IH _ _ _ E1 _ Hle').
    eapply IH; eauto.
  - destruct ns as [|n ns]; [exact H|].
    destruct (mxexpr f p inp (ERead n)) as [x|] eqn:E1; [|discriminate]. rewrite (IH _ _ _ E1 _ Hle').
    destruct (mxexpr f p inp (EGroup ns)) as [y|] eqn:E2; [|discriminate]. rewrite (IH _ _ _ E2 _ Hle'). exact H.
Qed.

Lemma mxexpr_msev : forall f inp e v, mxexpr f p inp e = Some v -> msev inp e v.
Proof.
  induction f as [|f IH]; intros inp e v H; [discriminate|]. cbn [mxexpr] in H. destruct e.
  - inversion H. constructor.
  - destruct (nkind n) eqn:K; try discriminate.
    + apply msev_input; assumption.
    + destruct (alookup p n) as [b|] eqn:B; [|discriminate]. eapply msev_exec; eauto. rewrite K. reflexivity.
    + destruct (alookup p n) as [b|] eqn:B; [|discriminate]. eapply msev_exec; eauto. rewrite K. reflexivity.
    + destruct (alookup p n) as [b|] eqn:B; [|discriminate]. eapply msev_exec; eauto. rewrite K. reflexivity.
    + apply msev_ext; assumption.
  - destruct (mxexpr f p inp e1) as [x|] eqn:E1; [|discriminate].
    destruct (mxexpr f p inp e2) as [y|] eqn:E2; [|discriminate]. inversion H. constructor; auto.
  - destruct (mxexpr f p inp e1) as [x|] eqn:E1; [|discriminate].
    destruct (mxexpr f p inp e2) as [y|] eqn:E2; [|discriminate]. inversion H. constructor; auto.
  - destruct (mxexpr f p inp e) as [x|] eqn:E1; [|discriminate]. inversion H. constructor; auto.
  - destruct (mxexpr f p inp e1) as [x|] eqn:E1; [|discriminate].
    destruct (mxexpr f p inp e2) as [y|] eqn:E2; [|discriminate]. inversion H. constructor; auto.
  - destruct (mxexpr f p inp e1) as [x|] eqn:E1; [|discriminate]. econstructor; eauto.
  - destruct ns as [|n ns]; [inversion H; constructor|].
    destruct (mxexpr f p inp (ERead n)) as [x|] eqn:E1; [|discriminate].
    destruct (mxexpr f p inp (EGroup ns)) as [y|] eqn:E2; [|discriminate]. inversion H. constructor; auto.
Qed.

Lemma msev_mxexpr : forall inp e v, msev inp e v -> exists f, mxexpr f p inp e = Some v.
Proof.
  intros inp e v H. induction H.
  - exists 1%nat. reflexivity.
  - exists 1%nat. cbn [mxexpr]. rewrite H. exact H0.
  - exists 1%nat. cbn [mxexpr]. rewrite H. exact H0.
  - destruct IHmsev as [f Hf]. exists (S f). cbn [mxexpr]. rewrite H0.
    destruct (nkind n); try discriminate; exact Hf.
  - destruct IHmsev1 as [f1 H1]. destruct IHmsev2 as [f2 H2]. exists (S (f1 + f2)). cbn [mxexpr].
    rewrite (mxexpr_mono _ _ _ _ H1 (f1 + f2)%nat), (mxexpr_mono _ _ _ _ H2 (f1 + f2)%nat) by lia. reflexivity.
  - destruct IHmsev1 as [f1 H1]. destruct IHmsev2 as [f2 H2]. exists (S (f1 + f2)). cbn [mxexpr].
    rewrite (mxexpr_mono _ _ _ _ H1 (f1 + f2)%nat), (mxexpr_mono _ _ _ _ H2 (f1 + f2)%nat) by lia. reflexivity.
  - destruct IHmsev1 as [f1 H1]. destruct IHmsev2 as [f2 H2]. exists (S (f1 + f2)). cbn [mxexpr].
    rewrite (mxexpr_mono _ _ _ _ H1 (f1 + f2)%nat), (mxexpr_mono _ _ _ _ H2 (f1 + f2)%nat) by lia. reflexivity.
  - destruct IHmsev as [f1 H1]. exists (S f1). cbn [mxexpr]. rewrite H1. reflexivity.
  - destruct IHmsev1 as [f1 H1]. destruct IHmsev2 as [f2 H2]. exists (S (f1 + f2)). cbn [mxexpr].
    rewrite (mxexpr_mono _ _ _ _ H1 (f1 + f2)%nat) by lia. apply (mxexpr_mono _ _ _ _ H2). lia.
  - exists 1%nat. reflexivity.
  - destruct IHmsev1 as [f1 H1]. destruct IHmsev2 as [f2 H2]. exists (S (f1 + f2)). cbn [mxexpr].
    rewrite (mxexpr_mono _ _ _ _ H1 (f1 + f2)%nat), (mxexpr_mono _ _ _ _ H2 (f1 + f2)%nat) by lia. reflexivity.
Qed.

Lemma MdlSpecX_MSpecI : forall inp n v, MdlSpecX p inp n v <-> MSpecI inp n v.
Proof.
  intros inp n v. split.
  - intros [f H]. eapply mxexpr_msev; eauto.
  - intro H. apply msev_mxexpr. exact H.
Qed.

Lemma MSpecI_exec : forall inp n b v, is_mexec_kind (nkind n) = true -> alookup p n = Some b -> msev inp b v -> MSpecI inp n v.
Proof. intros. eapply msev_exec; eauto. Qed.
Lemma MSpecI_input : forall inp n v, nkind n = KInput -> input_get (fst inp) (nidx n) = Some v -> MSpecI inp n v.
Proof. intros. eapply msev_input; eauto. Qed.
Lemma MSpecI_input_inv : forall inp n v, nkind n = KInput -> MSpecI inp n v -> input_get (fst inp) (nidx n) = Some v.
Proof. intros inp n v K H. inversion H; subst; [congruence|congruence|]. rewrite K in *. discriminate. Qed.
Lemma MSpecI_ext : forall inp n v, nkind n = KExternal -> snd inp (nidx n) = Some v -> MSpecI inp n v.
Proof. intros. eapply msev_ext; eauto. Qed.

(** the evaluator without external inputs is the one with none of them known *)
Lemma msexpr_mxexpr : forall f inp e, msexpr f p inp e = mxexpr f p (inp, no_ext) e.
Proof.
  induction f as [|f IH]; intros inp e; [reflexivity|]. cbn [msexpr mxexpr fst snd].
  destruct e as [z|n|a b|a b|a m|a b|c a b|ns].
  - reflexivity.
  - destruct (nkind n); try reflexivity; (destruct (alookup p n); [apply IH|reflexivity]).
  - rewrite !IH. reflexivity.
  - rewrite !IH. reflexivity.
  - rewrite !IH. reflexivity.
  - rewrite !IH. reflexivity.
  - rewrite IH. destruct (mxexpr f p (inp, no_ext) c); [apply IH|reflexivity].
  - destruct ns as [|n ns]; [reflexivity|]. rewrite !IH. reflexivity.
Qed.
Lemma MdlSpec_MSpecI : forall inp n v, MdlSpec p inp n v <-> MSpecI (inp, no_ext) n v.
Proof.
  intros inp n v. rewrite <- MdlSpecX_MSpecI. unfold MdlSpec, MdlSpecX. split; intros [f H]; exists f.
  - rewrite <- msexpr_mxexpr. exact H.
  - rewrite msexpr_mxexpr. exact H.
Qed.

(** a program that reads no external input does not look at their values *)
Lemma msev_noext : forall env xe', (forall n b d, alookup p n = Some b -> In d (expr_reads b) -> nkind d <> KExternal) ->
  forall e v, msev env e v -> (forall d, In d (expr_reads e) -> nkind d <> KExternal) -> msev (fst env, xe') e v.
Proof.
  intros env xe' Hp e v H. induction H; intro Hr; cbn [expr_reads] in Hr.
  - constructor.
  - apply msev_input; assumption.
  - exfalso. apply (Hr n); [left; reflexivity|assumption].
  - eapply msev_exec; [eassumption|eassumption|]. apply IHmsev. intros d Hd. eapply Hp; eauto.
  - constructor; [apply IHmsev1|apply IHmsev2]; intros; apply Hr; apply in_or_app; auto.
  - constructor; [apply IHmsev1|apply IHmsev2]; intros; apply Hr; apply in_or_app; auto.
  - constructor; [apply IHmsev1|apply IHmsev2]; intros; apply Hr; apply in_or_app; auto.
  - constructor. apply IHmsev. exact Hr.
  - econstructor.
    + apply IHmsev1. intros; apply Hr; apply in_or_app; auto.
    + apply IHmsev2. intros d Hd. apply Hr. apply in_or_app. right. apply in_or_app. destruct (x =? 0); auto.
  - constructor.
  - constructor; [apply IHmsev1; intros d [<-|[]]; apply Hr; left; reflexivity|].
    apply IHmsev2. intros d Hd. apply Hr. right. exact Hd.
Qed.

(** * oracle evaluations with their reads *)
Inductive evr (R : node -> Z -> Prop) : expr -> Z -> list node -> Prop :=
| evr_const : forall z, evr R (EConst z) z []
| evr_read : forall n v, R n v -> evr R (ERead n) v [n]
| evr_add : forall a b x y l1 l2, evr R a x l1 -> evr R b y l2 -> evr R (EAdd a b) (x + y) (l1 ++ l2)
| evr_mul : forall a b x y l1 l2, evr R a x l1 -> evr R b y l2 -> evr R (EMul a b) (x * y) (l1 ++ l2)
| evr_lt : forall a b x y l1 l2, evr R a x l1 -> evr R b y l2 -> evr R (ELt a b) (if x <? y then 1 else 0) (l1 ++ l2)
| evr_mod : forall a m x l, evr R a x l -> evr R (EMod a m) (x mod m) l
| evr_if : forall c a b x v l1 l2, evr R c x l1 -> evr R (if x =? 0 then b else a) v l2 -> evr R (EIf c a b) v (l1 ++ l2)
| evr_gnil : evr R (EGroup []) 0 []
| evr_gcons : forall n ns x y l, R n x -> evr R (EGroup ns) y l -> evr R (EGroup (n :: ns)) (x + y) (n :: l).

Lemma evr_msev : forall inp (R : node -> Z -> Prop) e v l, evr R e v l ->
  (forall d x, In d l -> R d x -> MSpecI inp d x) -> msev inp e v.
Proof.
  intros inp R e v l H. induction H; intro HR.
  - constructor.
  - apply HR; [left; reflexivity|assumption].
  - constructor; [apply IHevr1|apply IHevr2]; intros; eapply HR; eauto; apply in_or_app; auto.
  - constructor; [apply IHevr1|apply IHevr2]; intros; eapply HR; eauto; apply in_or_app; auto.
  - constructor; [apply IHevr1|apply IHevr2]; intros; eapply HR; eauto; apply in_or_app; auto.
  - constructor. apply IHevr. exact HR.
  - econstructor; [apply IHevr1|apply IHevr2]; intros; eapply HR; eauto; apply in_or_app; auto.
  - constructor.
  - constructor; [apply HR; [left; reflexivity|assumption]|]. apply IHevr. intros d z Hd. apply HR. right. exact Hd.
Qed.

Lemma evr_reads : forall R e v l, evr R e v l -> forall d, In d l -> In d (expr_reads e).
Proof.
  intros R e v l H. induction H; intros d Hd; cbn [expr_reads]; try (destruct Hd; fail); auto;
    try (apply in_app_or in Hd; apply in_or_app; destruct Hd; [left|right]; auto; fail).
  - apply in_app_or in Hd. apply in_or_app. destruct Hd as [Hd|Hd]; [left; auto|right].
    apply in_or_app. apply IHevr2 in Hd. destruct (x =? 0); auto.
  - destruct Hd as [<-|Hd]; [left; reflexivity|right]. apply (IHevr d Hd).
Qed.

Lemma evr_mono : forall (R R' : node -> Z -> Prop) e v l,
  evr R e v l -> (forall d x, In d l -> R d x -> R' d x) -> evr R' e v l.
Proof.
  intros R R' e v l H. induction H; intro HR.
  - constructor.
  - constructor. apply HR; [left; reflexivity|assumption].
  - constructor; [apply IHevr1|apply IHevr2]; intros; apply HR; auto; apply in_or_app; auto.
  - constructor; [apply IHevr1|apply IHevr2]; intros; apply HR; auto; apply in_or_app; auto.
  - constructor; [apply IHevr1|apply IHevr2]; intros; apply HR; auto; apply in_or_app; auto.
  - constructor. apply IHevr. exact HR.
  - econstructor; [apply IHevr1|apply IHevr2]; intros; apply HR; auto; apply in_or_app; auto.
  - constructor.
  - constructor; [apply HR; [left; reflexivity|assumption]|]. apply IHevr. intros d z Hd. apply HR. right. exact Hd.
Qed.

Lemma evr_det : forall (R1 R2 : node -> Z -> Prop) e v1 l1, evr R1 e v1 l1 -> forall v2 l2, evr R2 e v2 l2 ->
  (forall d x y, In d l1 -> R1 d x -> R2 d y -> x = y) -> v1 = v2 /\ l1 = l2.
Proof.
  intros R1 R2 e v1 l1 H.
  induction H as [z|n v Hn|a b x y l1 l2 Ha IHa Hb IHb|a b x y l1 l2 Ha IHa Hb IHb|a b x y l1 l2 Ha IHa Hb IHb
                 |a m x l Ha IHa|c a b x v l1 l2 Hc IHc Ha IHa| |n ns x y l Hn Hg IHg];
    intros v2 l2' H2 HR; inversion H2; subst.
  - auto.
  - split; [|reflexivity]. eapply HR; eauto. left. reflexivity.
  - match goal with A : evr R2 a _ _, B : evr R2 b _ _ |- _ =>
      destruct (IHa _ _ A) as [-> ->]; [intros; eapply HR; eauto; apply in_or_app; auto|];
      destruct (IHb _ _ B) as [-> ->]; [intros; eapply HR; eauto; apply in_or_app; auto|] end. auto.
  - match goal with A : evr R2 a _ _, B : evr R2 b _ _ |- _ =>
      destruct (IHa _ _ A) as [-> ->]; [intros; eapply HR; eauto; apply in_or_app; auto|];
      destruct (IHb _ _ B) as [-> ->]; [intros; eapply HR; eauto; apply in_or_app; auto|] end. auto.
  - match goal with A : evr R2 a _ _, B : evr R2 b _ _ |- _ =>
      destruct (IHa _ _ A) as [-> ->]; [intros; eapply HR; eauto; apply in_or_app; auto|];
      destruct (IHb _ _ B) as [-> ->]; [intros; eapply HR; eauto; apply in_or_app; auto|] end. auto.
  - match goal with A : evr R2 a _ _ |- _ => destruct (IHa _ _ A) as [-> ->]; [exact HR|] end. auto.
  - match goal with A : evr R2 c _ _ |- _ =>
      destruct (IHc _ _ A) as [-> ->]; [intros; eapply HR; eauto; apply in_or_app; auto|] end.
    match goal with B : evr R2 (if _ =? 0 then b else a) _ _ |- _ =>
      destruct (IHa _ _ B) as [-> ->]; [intros; eapply HR; eauto; apply in_or_app; auto|] end. auto.
  - auto.
  - match goal with A : R2 n _, B : evr R2 (EGroup ns) _ _ |- _ =>
      assert (E : x = x0) by (eapply HR; eauto; left; reflexivity); subst;
      destruct (IHg _ _ B) as [-> ->]; [intros; eapply HR; eauto; right; assumption|] end. auto.
Qed.
End Sem.
