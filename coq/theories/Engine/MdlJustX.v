(** C03 "justified" on the full engine model WITH external inputs, for every history: a node
    executed at operation [i] that had been executed before (last at [j]) is
    - an external input re-read by a refreshing session, or
    - a query that, at [j], read some dependency [d] whose from-scratch value is different now;
      the values are taken in the replayed environment of [Engine/MdlSpec.v] ([ext_after]: an
      external input holds what the world answered at the last operation that executed it), so
      for an external [d] this says that its committed value changed. *)
From QV Require Import Common.Prelude Engine.Model Engine.Core Engine.CoreSpec Engine.CoreInvBase
  Engine.CoreInvSem Engine.Fw Engine.FwBase Engine.FwMono Engine.FwOnce Engine.FwInv Engine.FwRun
  Engine.MdlSpec Engine.MdlSem Engine.MdlBase Engine.MdlMono Engine.MdlInv Engine.MdlInvState Engine.MdlInvExec
  Engine.MdlInvClean Engine.MdlRunBase Engine.MdlRun Engine.MdlRunAux Engine.MdlRunAll Engine.MdlCommit
  Engine.MdlWorld Engine.MdlSound Engine.MdlOnce Engine.MdlJust.
Open Scope Z_scope.

(** the dependencies the from-scratch evaluation of [m]'s body requests in the environment [env] *)
Definition MReadsX (p : program) (env : menv) (m d : node) : Prop :=
  exists e v l, alookup p m = Some e /\ evr (fun n x => MdlSpecX p env n x) e v l /\ In d l.

(** the replayed environment after operation [k] of a history with results [rs] *)
Definition xenv_of (ops : list op) (rs : list opres) (k : nat) : menv :=
  (inputs_after (firstn (S k) ops), ext_after (firstn (S k) ops) (firstn (S k) rs)).

Definition justified_x (p : program) (ops : list op) (rs : list opres) (i j : nat) (m : node) : Prop :=
  executed_at rs i m -> (j < i)%nat -> executed_at rs j m ->
  (forall k, (j < k < i)%nat -> ~ executed_at rs k m) ->
  (nkind m = KExternal /\ exists sets, nth_error ops i = Some (OSession sets true)) \/
  (nkind m <> KExternal /\
   exists d, MReadsX p (xenv_of ops rs j) m d /\
     forall v, MdlSpecX p (xenv_of ops rs j) d v -> ~ MdlSpecX p (xenv_of ops rs i) d v).

Definition model_justified_x_statement_f : Prop :=
  forall tord bord pord fuel pfuel p ops i j m, order_ok tord -> order_ok bord -> order_ok pord ->
    wf_model_x p -> msessions_fuelled tord bord pord fuel pfuel p ops i ->
    justified_x p ops (run_history_f tord bord pord fuel pfuel p init_state ops) i j m.
(** the model's own fuel, every order of the parallel tasks and of the dirty propagation *)
Definition model_justified_x_statement_op : Prop :=
  forall tord bord pord p ops i j m, order_ok tord -> order_ok bord -> order_ok pord ->
    wf_model_x p -> model_sessions_fuelled_op tord bord pord p ops i ->
    justified_x p ops (run_history_op tord bord pord p init_state ops) i j m.
Definition model_justified_x_statement_o : Prop :=
  forall tord bord p ops i j m, order_ok tord -> order_ok bord ->
    wf_model_x p -> model_sessions_fuelled_o tord bord p ops i ->
    justified_x p ops (run_history_o tord bord p init_state ops) i j m.
(** the schedule in list order *)
Definition model_justified_x_statement : Prop :=
  forall p ops i j m, wf_model_x p -> model_sessions_fuelled p ops i ->
    justified_x p ops (run_history p init_state ops) i j m.

(** more external inputs known: the same values *)
Lemma msev_ext_mono : forall p env env', fst env' = fst env ->
  (forall k v, snd env k = Some v -> snd env' k = Some v) ->
  forall e v, msev p env e v -> msev p env' e v.
Proof.
  intros p env env' H1 H2 e v H. induction H.
  - constructor.
  - apply msev_input; [assumption|]. etransitivity; [|eassumption]. f_equal. exact H1.
  - apply msev_ext; [assumption|]. apply H2. assumption.
  - eapply msev_exec; eassumption.
  - constructor; assumption.
  - constructor; assumption.
  - constructor; assumption.
  - constructor. assumption.
  - econstructor; eassumption.
  - constructor.
  - constructor; assumption.
Qed.

Lemma refresh_fold_stored : forall l cur batch cur' batch' m,
  fold_left refresh_step l (cur, batch) = (cur', batch') -> In m l \/ get_info cur m <> None -> get_info cur' m <> None.
Proof.
  induction l as [|e r IH]; intros cur batch cur' batch' m H Hm; cbn [fold_left] in H.
  - inversion H. subst. destruct Hm as [[]|Hm]. exact Hm.
  - unfold refresh_step at 2 in H. cbv zeta in H. eapply IH; [exact H|].
    destruct Hm as [[<-|Hm]|Hm]; [right|left; exact Hm|right]; rewrite set_input_get.
    + rewrite node_eqb_refl. discriminate.
    + destruct (node_eqb e m); [discriminate|exact Hm].
Qed.

Section JustX.
Variable p : program.
Variables tord bord pord : state -> node -> list node -> list node.
Variable rk : node -> nat.
Hypothesis Hrk : forall n e d, alookup p n = Some e -> In d (expr_reads e) -> (rk d < rk n)%nat.
Hypothesis Hproj : forall n e d, alookup p n = Some e -> nkind n = KProjection -> In d (expr_reads e) ->
  is_fw_or_proj (nkind d) = true.
Hypothesis Hkeys : forall n e, alookup p n = Some e -> is_mexec_kind (nkind n) = true.
Hypothesis Htord : forall s x l y, In y (tord s x l) <-> In y l.
Hypothesis Hbord : forall s x l y, In y (bord s x l) <-> In y l.
Hypothesis Hpord : forall s x l y, In y (pord s x l) <-> In y l.
Variables fuel pfuel : nat.

(** the observations of a node verified in this epoch are from-scratch values, in every
    environment that agrees with the stored external inputs *)
Lemma verified_obs_respec : forall sA Ex X inp env' s m i d x,
  MInvE p rk sA Ex X inp s -> fst env' = fst inp ->
  (forall k j, get_info s (ext_node k) = Some j -> snd env' k = Some (i_value j)) ->
  sverified s m -> get_info s m = Some i -> obsV i d x -> MSpecI p env' d x.
Proof.
  intros sA Ex X inp env' s m i d x HI He1 He2 Hv Hi [t Ho].
  assert (Hd : In d (old_fwd s m)) by (unfold old_fwd; rewrite Hi; eapply mi_obs_fwd; eauto).
  pose proof (verified_Solid _ _ _ _ _ _ _ _ HI Hv) as [HG HR].
  destruct (HG m (tp_refl s m) d Hd) as (i0 & j & v & t0 & A & B & C & D & _).
  assert (i0 = i) by congruence. subst i0. assert (v = x) by congruence. subst v. subst x.
  destruct (fw_or_thru d) as [Kd|Kd].
  - destruct (HR d (mreach_direct _ _ _ Hd Kd)) as [j' [B' V']]. assert (j' = j) by congruence. subst j'.
    apply (respec p rk Hrk _ _ _ inp env' s HI He1 He2 (S (rk d)) d j); [lia|exact B|left; exists j; auto].
  - apply (respec p rk Hrk _ _ _ inp env' s HI He1 He2 (S (rk d)) d j); [lia|exact B|right].
    eapply MSolid_step; eauto. split; assumption.
Qed.

(** what a session logs: the external inputs it refreshes; they are stored afterwards *)
Lemma session_execs_mem : forall s sets b s' x m,
  step_f tord bord pord fuel pfuel p s (OSession sets b) = (s', x) -> In m (r_execs x) ->
  b = true /\ In m (s_ext s) /\ get_info s' m <> None.
Proof.
  intros s sets b s' x m H Hm. rewrite step_f_session_gen in H. cbv zeta in H.
  destruct (fold_left fsess_step sets (set_ts (set_log s []) (s_ts (set_log s []) + 1)%N, [], []))
    as [[s1 rs] batch] eqn:Ef.
  pose proof (sess_fold_ext _ _ _ _ _ _ _ Ef) as X1. cbn [set_ts set_log s_ext] in X1.
  pose proof (sess_fold_log _ _ _ _ _ _ _ Ef) as L1. cbn [set_ts set_log s_log] in L1.
  destruct (if b then fold_left refresh_step (s_ext s1) (s1, batch) else (s1, batch)) as [s2 batch2] eqn:Er.
  destruct (propagate_o pord pfuel (set_visited (set_stat s2 0%N) []) batch2) as [s4| | |] eqn:Ep;
    inversion H; subst; cbn [r_execs] in Hm; try destruct Hm.
  apply propagate_o_same in Ep. destruct Ep as (N1 & _ & _ & L & _). cbn [set_visited set_stat s_log] in L.
  rewrite L in Hm. apply in_rev in Hm. destruct b.
  - pose proof (refresh_fold_log _ _ _ _ _ Er) as L2. rewrite L2, L1, app_nil_r in Hm. apply in_rev in Hm.
    split; [reflexivity|]. split; [rewrite <- X1; exact Hm|].
    unfold get_info. rewrite N1. cbn [set_visited set_stat s_nodes].
    apply (refresh_fold_stored _ _ _ _ _ m Er). left. exact Hm.
  - inversion Er. subst. rewrite L1 in Hm. destruct Hm.
Qed.

(** ghost state: [L m] is the replayed environment at the last execution of [m]; [acc] is the
    replay of the external inputs ([MdlSpec.ext_step]) *)
Definition GX (L : node -> menv) (env : menv) (acc : xenv * list (N * Z)) (s : state) : Prop :=
  BInv p rk env s /\ RI s acc /\
  (forall k v, fst acc k = Some v -> get_info s (ext_node k) <> None) /\
  (forall m i, get_info s m = Some i -> forall d x, obsV i d x -> MSpecI p (L m) d x).

Lemma step_stored : forall s o s' r m,
  step_f tord bord pord fuel pfuel p s o = (s', r) -> get_info s m <> None -> get_info s' m <> None.
Proof.
  intros s o s' r m H Hm. destruct o as [sets b|n|w v|].
  - rewrite step_f_session_gen in H. cbv zeta in H.
    destruct (fold_left fsess_step sets (set_ts (set_log s []) (s_ts (set_log s []) + 1)%N, [], []))
      as [[s1 rs] batch] eqn:Ef.
    assert (Hs1 : get_info s1 m <> None) by (eapply sess_fold_stored; [exact Ef|exact Hm]).
    destruct (if b then fold_left refresh_step (s_ext s1) (s1, batch) else (s1, batch)) as [s2 batch2] eqn:Er.
    assert (Hs2 : get_info s2 m <> None).
    { destruct b; [eapply refresh_fold_stored; [exact Er|right; exact Hs1]|inversion Er; subst; exact Hs1]. }
    destruct (propagate_o pord pfuel (set_visited (set_stat s2 0%N) []) batch2) as [s4| | |] eqn:Ep;
      inversion H; subst; try exact Hs2.
    apply propagate_o_same in Ep. destruct Ep as (N1 & _). unfold get_info. rewrite N1. exact Hs2.
  - destruct (mstep_query_mono p tord bord pord fuel pfuel _ _ _ _ H) as [[-> _]|[HM _]]; [exact Hm|].
    apply (mr_stored _ _ _ HM). exact Hm.
  - cbn in H. inversion H. subst. exact Hm.
  - cbn in H. inversion H. subst. exact Hm.
Qed.

Lemma step_execs_stored : forall s o s' r m,
  step_f tord bord pord fuel pfuel p s o = (s', r) -> In m (r_execs r) -> get_info s' m <> None.
Proof.
  intros s o s' r m H Hm. destruct o as [sets b|n|w v|].
  - eapply session_execs_mem; eauto.
  - destruct (mstep_query_mono p tord bord pord fuel pfuel _ _ _ _ H) as [[_ E]|[HM E]]; rewrite E in Hm; [destruct Hm|].
    apply in_rev in Hm. destruct (mr_log _ _ _ HM) as [new [L [_ P]]]. cbn [set_log s_log] in L.
    rewrite app_nil_r in L. rewrite L in Hm. destruct (P m Hm) as (_ & _ & [i [Hi _]]). congruence.
  - cbn in H. inversion H. subst. destruct Hm.
  - cbn in H. inversion H. subst. destruct Hm.
Qed.

Lemma GX_step : forall L s o s' r env acc,
  GX L env acc s -> step_f tord bord pord fuel pfuel p s o = (s', r) ->
  (forall sets b, o = OSession sets b -> r_out r <> RFuel) ->
  GX (Lnext L (fst (env_step env s o s'), fst (ext_step acc (o, r))) r) (env_step env s o s') (ext_step acc (o, r)) s'.
Proof.
  intros L s o s' r env acc (HB & HR & HD & HG) H Hfuel.
  pose proof (mstep_inv p tord bord pord rk Hrk Hproj Hkeys Htord Hbord Hpord _ _ _ _ _ _ _ HB H Hfuel) as HB'.
  pose proof (ri_step p tord bord pord rk Hrk Hproj Hkeys Htord Hbord Hpord _ _ _ _ _ _ _ _ HB HR H Hfuel) as HR'.
  split; [exact HB'|]. split; [exact HR'|]. split.
  { intros k v Hk. destruct acc as [xe w]. cbn [ext_step fst] in Hk.
    destruct (nmem (ext_node k) (r_execs r)) eqn:Em.
    - apply nmem_In in Em. eapply step_execs_stored; eauto.
    - eapply step_stored; [exact H|]. eapply HD. exact Hk. }
  set (R' := (fst (env_step env s o s'), fst (ext_step acc (o, r)))).
  destruct o as [sets b|n|w v|].
  - (* a session: the entries of the queries are not touched; it executes external inputs only *)
    intros m i Hi d x Hx.
    destruct (leaf_or_not m) as [Kl|Kl].
    + exfalso. destruct (mi_kind _ _ _ _ _ _ _ HB' m i Hi) as [(_ & _ & K & _)|(K & _)].
      * destruct Hx as [t Hx]. rewrite K in Hx. discriminate.
      * destruct Kl as [Kl|Kl]; rewrite Kl in K; discriminate.
    + unfold Lnext. destruct (nmem m (r_execs r)) eqn:Em.
      * exfalso. apply nmem_In in Em. destruct (session_execs_mem _ _ _ _ _ _ H Em) as (_ & Hx1 & _).
        apply Kl. right. eapply (mi_ext _ _ _ _ _ _ _ HB). exact Hx1.
      * rewrite step_f_session_gen in H. cbv zeta in H.
        destruct (fold_left fsess_step sets (set_ts (set_log s []) (s_ts (set_log s []) + 1)%N, [], []))
          as [[s1 rs] batch] eqn:Ef.
        destruct (if b then fold_left refresh_step (s_ext s1) (s1, batch) else (s1, batch)) as [s2 batch2] eqn:Er.
        destruct (propagate_o pord pfuel (set_visited (set_stat s2 0%N) []) batch2) as [s4| | |] eqn:Ep;
          inversion H; subst; try (exfalso; eapply Hfuel; eauto; reflexivity).
        destruct (session_MSess p rk Hrk Hproj env s sets b s1 rs batch s2 batch2 s HB Ef Er) as [HS2 _].
        rewrite (MSess_other _ _ _ _ _ _ _ m HS2 Ep Kl) in Hi. exact (HG m i Hi d x Hx).
  - unfold step_f in H.
    destruct (query_for_o p None tord bord pord fuel [] CUser None n (set_log s [])) as [[[[o fr] ms] s1]| | |] eqn:Eq.
    + destruct (root_query p tord bord pord rk Hrk Hproj Hkeys Htord Hbord Hpord _ _ _ _ _ _ _ _ HB Eq) as [HI1 _].
      pose proof (proj1 (mmono_all p tord bord pord fuel) _ _ _ _ _ _ _ _ _ Eq) as HM.
      assert (Er : r_execs r = rev (s_log s1) /\ s' = s1) by (destruct o as [[z|]|]; inversion H; subst; auto).
      destruct Er as [Er ->]. intros m i Hi d x Hx. unfold Lnext. rewrite Er.
      destruct (nmem m (rev (s_log s1))) eqn:Em.
      * apply nmem_In in Em. apply in_rev in Em.
        destruct (mr_log _ _ _ HM) as [new [Ln [_ P]]]. cbn [set_log s_log] in Ln. rewrite app_nil_r in Ln.
        rewrite Ln in Em. destruct (P m Em) as (_ & _ & Hv).
        eapply (verified_obs_respec _ _ _ env R' s1 m i d x HI1); eauto.
        intros k j Hj. unfold R'. cbn [snd]. destruct HR' as [_ HR']. apply HR'. exact Hj.
      * apply nmem_false in Em. destruct (mi_O _ _ _ _ _ _ _ HI1 m i Hi) as [K|[i0 [K1 K2]]].
        -- exfalso. apply Em. apply in_rev. rewrite rev_involutive. exact K.
        -- eapply (HG m i0); [exact K1|]. apply K2. exact Hx.
    + inversion H. subst. intros m i Hi. unfold Lnext. cbn [r_execs nmem existsb]. apply HG. exact Hi.
    + inversion H. subst. intros m i Hi. unfold Lnext. cbn [r_execs nmem existsb]. apply HG. exact Hi.
    + inversion H. subst. intros m i Hi. unfold Lnext. cbn [r_execs nmem existsb]. apply HG. exact Hi.
  - cbn in H. inversion H. subst. intros m i Hi. unfold Lnext. cbn [r_execs nmem existsb]. apply HG. exact Hi.
  - cbn in H. inversion H. subst. intros m i Hi. unfold Lnext. cbn [r_execs nmem existsb]. apply HG. exact Hi.
Qed.

Definition XReadsX (env : menv) (m d : node) : Prop :=
  exists e v l, alookup p m = Some e /\ evr (MSpecI p env) e v l /\ In d l.

(** the replayed environment after an operation is part of the (total) environment of the
    invariant during a query *)
Lemma replay_sub_query : forall env acc s n r s1 o fr ms,
  BInv p rk env s -> RI s acc ->
  (forall k v, fst acc k = Some v -> get_info s (ext_node k) <> None) ->
  query_for_o p None tord bord pord fuel [] CUser None n (set_log s []) = Ok (o, fr, ms, s1) ->
  r_execs r = rev (s_log s1) ->
  forall k v, fst (ext_step acc (OQuery n, r)) k = Some v -> snd env k = Some v.
Proof.
  intros env [xe w] s n r s1 o fr ms HB [Rw Rx] HD Eq Er k v Hk. cbn [fst snd] in *.
  destruct (root_query p tord bord pord rk Hrk Hproj Hkeys Htord Hbord Hpord _ _ _ _ _ _ _ _ HB Eq) as [HI1 _].
  cbn [ext_step fst world_op] in Hk. destruct (nmem (ext_node k) (r_execs r)) eqn:Em.
  - apply nmem_In in Em. rewrite Er in Em. apply in_rev in Em. inversion Hk. subst v.
    destruct (mi_J _ _ _ _ _ _ _ HI1 _ Em) as [J|(i0 & cal & x & J1 & J2 & _)].
    + rewrite (mi_W _ _ _ _ _ _ _ HB k J). f_equal. apply world_get_val. exact Rw.
    + exfalso. destruct (mi_kind _ _ _ _ _ _ _ HB _ i0 J1) as [(_ & _ & K & _)|(K & _)].
      * destruct J2 as [t J2]. rewrite K in J2. discriminate.
      * discriminate.
  - destruct (get_info s (ext_node k)) as [i|] eqn:Ei; [|exfalso; eapply HD; eauto].
    rewrite (Rx k i Ei) in Hk. inversion Hk. subst v.
    destruct (mi_kind _ _ _ _ _ _ _ HB (ext_node k) i Ei) as [(_ & _ & _ & _ & K)|(K & _)]; [exact K|discriminate].
Qed.

(** [m] was last executed in the replayed environment [I0], is not executed during the first
    [i] operations and is executed at operation [i] *)
Lemma just_later_x : forall ops s env acc L i m I0,
  GX L env acc s ->
  (forall k sets b rk0, (k < i)%nat -> nth_error ops k = Some (OSession sets b) ->
     nth_error (run_history_f tord bord pord fuel pfuel p s ops) k = Some rk0 -> r_out rk0 <> RFuel) ->
  get_info s m <> None -> L m = I0 ->
  (forall k, (k < i)%nat -> ~ executed_at (run_history_f tord bord pord fuel pfuel p s ops) k m) ->
  executed_at (run_history_f tord bord pord fuel pfuel p s ops) i m ->
  (nkind m = KExternal /\ exists sets, nth_error ops i = Some (OSession sets true)) \/
  (nkind m <> KExternal /\ exists d, XReadsX I0 m d /\
    forall v, MSpecI p I0 d v ->
      ~ MSpecI p (fold_left apply_op (firstn (S i) ops) (fst env),
                  fst (fold_left ext_step (combine (firstn (S i) ops)
                         (firstn (S i) (run_history_f tord bord pord fuel pfuel p s ops))) acc)) d v).
Proof.
  induction ops as [|o rest IH]; intros s env acc L i m I0 HGI Hfuel Hst HL Hno [r [Hr Hm]].
  - destruct i; discriminate.
  - cbn [run_history_f] in Hr, Hfuel, Hno |- *. destruct (step_f tord bord pord fuel pfuel p s o) as [s' x] eqn:Es.
    destruct i as [|i].
    + (* executed now *)
      cbn in Hr. inversion Hr. subst x. clear Hr. cbn [firstn fold_left combine nth_error].
      destruct o as [sets b|n|w v|].
      * left. destruct (session_execs_mem _ _ _ _ _ _ Es Hm) as (-> & Hx & _). destruct HGI as (HB & _).
        split; [eapply (mi_ext _ _ _ _ _ _ _ HB); exact Hx|]. exists sets. reflexivity.
      * right. destruct HGI as (HB & HR & HD & HG). cbn [apply_op]. unfold step_f in Es.
        destruct (query_for_o p None tord bord pord fuel [] CUser None n (set_log s [])) as [[[[o fr] ms] s1]| | |] eqn:Eq;
          try (inversion Es; subst; destruct Hm).
        destruct (root_query p tord bord pord rk Hrk Hproj Hkeys Htord Hbord Hpord _ _ _ _ _ _ _ _ HB Eq) as [HI1 _].
        assert (Er : r_execs r = rev (s_log s1)) by (destruct o as [[z|]|]; inversion Es; subst; auto).
        pose proof Hm as Hm0. rewrite Er in Hm. apply in_rev in Hm.
        destruct (mi_J _ _ _ _ _ _ _ HI1 m Hm) as [J|(i0 & cal & x & J1 & J2 & J3)]; [exfalso; apply Hst; exact J|].
        assert (Hi0 : get_info s m = Some i0) by exact J1.
        destruct (mi_kind _ _ _ _ _ _ _ HB m i0 Hi0) as [(_ & _ & K & _)|(Kk & e & l & He & Hev & Hl)].
        { destruct J2 as [t J2]. rewrite K in J2. discriminate. }
        split; [intro K; rewrite K in Kk; discriminate|].
        exists cal. split.
        -- exists e, (i_value i0), l. split; [exact He|]. split.
           ++ eapply evr_mono; [exact Hev|]. intros d y _ Hy. rewrite <- HL. exact (HG m i0 Hi0 d y Hy).
           ++ apply Hl. destruct J2 as [t J2]. eapply (mi_obs_fwd _ _ _ _ _ _ _ HB m i0 cal); eauto.
        -- intros v Hv Hv2.
           assert (Hx : MSpecI p I0 cal x) by (rewrite <- HL; exact (HG m i0 Hi0 cal x J2)).
           assert (v = x) by (exact (MSpecI_det p I0 cal v x Hv Hx)). subst v. apply J3.
           eapply (msev_ext_mono p _ env); [| |exact Hv2]; [reflexivity|].
           cbn [snd]. eapply replay_sub_query; eauto.
      * cbn in Es. inversion Es. subst. destruct Hm.
      * cbn in Es. inversion Es. subst. destruct Hm.
    + (* later *)
      cbn [nth_error] in Hr. cbn [firstn fold_left combine nth_error].
      assert (Hf0 : forall sets b, o = OSession sets b -> r_out x <> RFuel).
      { intros sets b ->. apply (Hfuel 0%nat sets b x); [lia|reflexivity|reflexivity]. }
      pose proof (GX_step L s o s' x env acc HGI Es Hf0) as HG'.
      assert (Hnm : ~ In m (r_execs x)).
      { intro K. apply (Hno 0%nat); [lia|]. exists x. split; [reflexivity|exact K]. }
      rewrite <- (env_step_inputs env s o s').
      eapply (IH s' (env_step env s o s') (ext_step acc (o, x)) _ i m I0 HG'); eauto.
      * intros k sets b rk0 Hk Hk1 Hk2. apply (Hfuel (S k) sets b rk0); [lia|exact Hk1|exact Hk2].
      * eapply step_stored; eauto.
      * unfold Lnext. destruct (nmem m (r_execs x)) eqn:Em; [apply nmem_In in Em; contradiction|exact HL].
      * intros k Hk [rk0 [K1 K2]]. apply (Hno (S k)); [lia|]. exists rk0. split; [exact K1|exact K2].
      * exists r. split; [exact Hr|exact Hm].
Qed.

Lemma just_main_x : forall ops s env acc L i j m,
  GX L env acc s ->
  (forall k sets b rk0, (k < i)%nat -> nth_error ops k = Some (OSession sets b) ->
     nth_error (run_history_f tord bord pord fuel pfuel p s ops) k = Some rk0 -> r_out rk0 <> RFuel) ->
  executed_at (run_history_f tord bord pord fuel pfuel p s ops) i m -> (j < i)%nat ->
  executed_at (run_history_f tord bord pord fuel pfuel p s ops) j m ->
  (forall k, (j < k < i)%nat -> ~ executed_at (run_history_f tord bord pord fuel pfuel p s ops) k m) ->
  let R k := (fold_left apply_op (firstn (S k) ops) (fst env),
              fst (fold_left ext_step (combine (firstn (S k) ops)
                     (firstn (S k) (run_history_f tord bord pord fuel pfuel p s ops))) acc)) in
  (nkind m = KExternal /\ exists sets, nth_error ops i = Some (OSession sets true)) \/
  (nkind m <> KExternal /\ exists d, XReadsX (R j) m d /\
    forall v, MSpecI p (R j) d v -> ~ MSpecI p (R i) d v).
Proof.
  induction ops as [|o rest IH]; intros s env acc L i j m HGI Hfuel Hi Hji Hj Hno; cbv zeta.
  - destruct Hj as [r [Hr _]]. destruct j; discriminate.
  - destruct Hi as [ri [Hri Hmi]]. destruct Hj as [rj [Hrj Hmj]].
    cbn [run_history_f] in Hri, Hrj, Hfuel, Hno |- *. destruct (step_f tord bord pord fuel pfuel p s o) as [s' x] eqn:Es.
    destruct i as [|i]; [lia|]. cbn [nth_error] in Hri.
    assert (Hf0 : forall sets b, o = OSession sets b -> r_out x <> RFuel).
    { intros sets b ->. apply (Hfuel 0%nat sets b x); [lia|reflexivity|reflexivity]. }
    pose proof (GX_step L s o s' x env acc HGI Es Hf0) as HG'.
    assert (Hfuel' : forall k sets b rk0, (k < i)%nat -> nth_error rest k = Some (OSession sets b) ->
              nth_error (run_history_f tord bord pord fuel pfuel p s' rest) k = Some rk0 -> r_out rk0 <> RFuel).
    { intros k sets b rk0 Hk Hk1 Hk2. apply (Hfuel (S k) sets b rk0); [lia|exact Hk1|exact Hk2]. }
    cbn [firstn fold_left combine nth_error]. rewrite <- !(env_step_inputs env s o s').
    set (env1 := env_step env s o s') in *. set (acc1 := ext_step acc (o, x)) in *.
    destruct j as [|j].
    + cbn in Hrj. inversion Hrj. subst x. clear Hrj. cbn [firstn fold_left combine].
      assert (HL : Lnext L (fst env1, fst acc1) rj m = (fst env1, fst acc1)).
      { unfold Lnext. destruct (nmem m (r_execs rj)) eqn:Em; [reflexivity|]. apply nmem_false in Em. contradiction. }
      assert (Hst : get_info s' m <> None) by (eapply step_execs_stored; eauto).
      destruct i as [|i].
      * eapply (just_later_x rest s' env1 acc1 _ 0%nat m (fst env1, fst acc1) HG'); eauto.
        -- intros k Hk. lia.
        -- exists ri. auto.
      * eapply (just_later_x rest s' env1 acc1 _ (S i) m (fst env1, fst acc1) HG'); eauto.
        -- intros k Hk [rk0 [K1 K2]]. apply (Hno (S k)); [lia|]. exists rk0. split; [exact K1|exact K2].
        -- exists ri. auto.
    + cbn [nth_error] in Hrj.
      destruct i as [|i]; [lia|].
      eapply (IH s' env1 acc1 _ (S i) j m HG'); eauto.
      * exists ri. auto.
      * lia.
      * exists rj. auto.
      * intros k Hk [rk0 [K1 K2]]. apply (Hno (S k)); [lia|]. exists rk0. split; [exact K1|exact K2].
Qed.
End JustX.

Theorem model_justified_x_f : model_justified_x_statement_f.
Proof.
  intros tord bord pord fuel pfuel p ops i j m Ht Hb Hp Hwf Hfuel. intros Hi Hji Hj Hno.
  destruct (wf_model_x_facts p Hwf) as (rk & Hrk & Hproj & Hkeys).
  assert (HG0 : GX p rk (fun _ => init_env) init_env (no_ext, []) init_state).
  { split; [apply (MInv_init p rk noE)|]. split; [split; [reflexivity|intros k j0 Hj0; discriminate]|].
    split; [intros k v Hk; discriminate|intros m0 i0 Hi0; discriminate]. }
  destruct (just_main_x p tord bord pord rk Hrk Hproj Hkeys (order_ok_In _ Ht) (order_ok_In _ Hb) (order_ok_In _ Hp)
              fuel pfuel ops init_state init_env (no_ext, []) _ i j m HG0 Hfuel Hi Hji Hj Hno)
    as [Q|(Hk & d & HR & Hne)]; [left; exact Q|right].
  split; [exact Hk|]. exists d. unfold xenv_of, inputs_after, ext_after. cbn [fst init_env] in HR, Hne. split.
  - destruct HR as (e & v & l & He & Hev & Hd). exists e, v, l. split; [exact He|]. split; [|exact Hd].
    eapply evr_mono; [exact Hev|]. intros y x _ Hx. apply MdlSpecX_MSpecI. exact Hx.
  - intros v Hv Hv2. apply MdlSpecX_MSpecI in Hv. apply MdlSpecX_MSpecI in Hv2. exact (Hne v Hv Hv2).
Qed.

Theorem model_justified_x_op : model_justified_x_statement_op.
Proof.
  intros tord bord pord p ops i j m Ht Hb Hp Hwf Hfuel. rewrite run_history_op_is_f.
  apply (model_justified_x_f tord bord pord fuel0 4000%nat); auto.
  intros k sets b rk0 Hk Hk1 Hk2. rewrite <- run_history_op_is_f in Hk2. eapply Hfuel; eauto.
Qed.
Theorem model_justified_x_o : model_justified_x_statement_o.
Proof.
  intros tord bord p ops i j m Ht Hb Hwf Hfuel.
  exact (model_justified_x_op tord bord ord_id p ops i j m Ht Hb ord_id_ok Hwf Hfuel).
Qed.
Theorem model_justified_x : model_justified_x_statement.
Proof.
  intros p ops i j m Hwf Hfuel.
  exact (model_justified_x_o ord_id ord_id p ops i j m ord_id_ok ord_id_ok Hwf Hfuel).
Qed.

(** example ([MdlSound.mexx_hist]): the external input X0 is executed by the query at operation 3
    and again by the refreshing session at operation 9; the firewall F0 = X0 + I0 is executed at
    3 and at 10, and the committed value of X0 it read changed from 5 to 6 in between *)
Example mexx_justified :
  let rs := run_history mexx_prog init_state mexx_hist in
  executed_at rs 3 (mex_X 0) /\ executed_at rs 9 (mex_X 0) /\ nth_error mexx_hist 9 = Some (OSession [] true) /\
  executed_at rs 3 (mex_F 0) /\ executed_at rs 10 (mex_F 0) /\
  MdlSpecX mexx_prog (xenv_of mexx_hist rs 3) (mex_X 0) 5 /\
  MdlSpecX mexx_prog (xenv_of mexx_hist rs 10) (mex_X 0) 6.
Proof.
  cbv zeta. repeat split; try (eexists; split; [vm_compute; reflexivity|vm_compute; tauto]);
    try (exists 3%nat; vm_compute; reflexivity).
Qed.

Print Assumptions model_justified_x_f.
Print Assumptions model_justified_x_op.
Print Assumptions model_justified_x.
