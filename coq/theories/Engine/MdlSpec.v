(** Specification side for the FULL engine model ([Engine/Model.v]) on programs with inputs,
    Normal, Firewall and PROJECTION queries: the from-scratch evaluator (firewalls and
    projections are semantically transparent), well-formed acyclic programs, a fuel-parametric
    copy of [step] (equal to [step] at the fuel the model fixes, by reflexivity), and the
    statement of C01 for the full model.  Proofs: [Engine/MdlSound.v]. *)
From QV Require Import Common.Prelude Engine.Model Engine.Core Engine.CoreSpec.
From Coq Require Import Permutation.
Open Scope Z_scope.

Definition is_mexec_kind (k : kind) : bool :=
  match k with KNormal | KFirewall | KProjection => true | _ => false end.

(** from-scratch evaluation, by fuel *)
Fixpoint msexpr (fuel : nat) (p : program) (inp : inputs) (e : expr) {struct fuel} : option Z :=
  match fuel with
  | O => None
  | S f =>
    match e with
    | EConst z => Some z
    | ERead n =>
        match nkind n with
        | KInput => input_get inp (nidx n)
        | KNormal | KFirewall | KProjection => do b <- alookup p n; msexpr f p inp b
        | _ => None
        end
    | EAdd a b => do x <- msexpr f p inp a; do y <- msexpr f p inp b; Some (x + y)
    | EMul a b => do x <- msexpr f p inp a; do y <- msexpr f p inp b; Some (x * y)
    | ELt a b => do x <- msexpr f p inp a; do y <- msexpr f p inp b; Some (if x <? y then 1 else 0)
    | EMod a m => do x <- msexpr f p inp a; Some (x mod m)
    | EIf c a b => do x <- msexpr f p inp c; msexpr f p inp (if x =? 0 then b else a)
    | EGroup [] => Some 0
    | EGroup (n :: ns) => do x <- msexpr f p inp (ERead n); do y <- msexpr f p inp (EGroup ns); Some (x + y)
    end
  end.
Definition MdlSpec (p : program) (inp : inputs) (n : node) (v : Z) : Prop :=
  exists fuel, msexpr fuel p inp (ERead n) = Some v.

(** well-formed programs: executable nodes are Normal, Firewall or Projection queries without
    unordered groups; every read is an input or a declared node; a projection reads only
    firewalls and projections (the model answers [Panic 3] otherwise); a rank strictly
    decreasing along every possible read between executable nodes excludes cycles *)
Record wf_model (p : program) : Prop := {
  wfm_keys : forall n e, In (n, e) p -> is_mexec_kind (nkind n) = true /\ no_group e = true;
  wfm_targets : forall n e d, In (n, e) p -> In d (expr_reads e) ->
                 nkind d = KInput \/ (is_mexec_kind (nkind d) = true /\ alookup p d <> None);
  wfm_proj : forall n e d, In (n, e) p -> nkind n = KProjection -> In d (expr_reads e) ->
                 is_fw_or_proj (nkind d) = true;
  wfm_rank : exists rank : node -> nat, forall n e d, In (n, e) p -> In d (expr_reads e) ->
                 is_mexec_kind (nkind d) = true -> (rank d < rank n)%nat;
}.

(** the same with unordered groups allowed (the value of a group is the sum of its members) *)
Record wf_model_g (p : program) : Prop := {
  wfg_keys : forall n e, In (n, e) p -> is_mexec_kind (nkind n) = true;
  wfg_targets : forall n e d, In (n, e) p -> In d (expr_reads e) ->
                 nkind d = KInput \/ (is_mexec_kind (nkind d) = true /\ alookup p d <> None);
  wfg_proj : forall n e d, In (n, e) p -> nkind n = KProjection -> In d (expr_reads e) ->
                 is_fw_or_proj (nkind d) = true;
  wfg_rank : exists rank : node -> nat, forall n e d, In (n, e) p -> In d (expr_reads e) ->
                 is_mexec_kind (nkind d) = true -> (rank d < rank n)%nat;
}.
Lemma wf_model_g_of : forall p, wf_model p -> wf_model_g p.
Proof. intros p [A B C D]. split; auto. intros n e H. apply (A n e H). Qed.

(** histories in scope: input sessions without refresh, queries (not of external inputs), restarts *)
Definition op_in_scope (o : op) : Prop :=
  match o with
  | OSession _ refresh => refresh = false
  | OQuery n => nkind n <> KExternal
  | ORestart => True
  | OSetWorld _ _ => False
  end.

(** [step] with the two fuel constants abstracted: [fuel] for a request, [pfuel] for the dirty
    propagation of a session *)
(** the order oracles of [Model.step_o]; the theorems assume that an oracle permutes its argument *)
Definition oracle : Type := state -> node -> list node -> list node.
Definition order_ok (ord : oracle) : Prop := forall s x l, Permutation l (ord s x l).
Lemma ord_id_ok : order_ok ord_id.
Proof. intros s x l. apply Permutation_refl. Qed.
Lemma order_ok_In : forall ord, order_ok ord -> forall s x l y, In y (ord s x l) <-> In y l.
Proof.
  intros ord H s x l y. split; intro K.
  - eapply Permutation_in; [apply Permutation_sym; apply H|exact K].
  - eapply Permutation_in; [apply H|exact K].
Qed.

Definition step_f (tord bord pord : oracle) (fuel pfuel : nat) (p : program) (s : state) (o : op) : state * opres :=
  let s := set_log s [] in
  match o with
  | OSetWorld i v =>
      (set_world s ((i, v) :: filter (fun '(k, _) => negb (k =? i)%N) (s_world s)), mkRes RUnit [] None)
  | ORestart => (restart s, mkRes RUnit [] None)
  | OQuery n =>
      match query_for_o p None tord bord pord fuel [] CUser None n s with
      | Ok (QValue (Some z), _, _, s') => (s', mkRes (RValue z) (rev (s_log s')) (Some (s_stat s')))
      | Ok (_, _, _, s') => (s', mkRes RPanic (rev (s_log s')) (Some (s_stat s')))
      | Panic _ => (s, mkRes RPanic [] None)
      | OutOfFuel => (s, mkRes RFuel [] None)
      | Stuck => (s, mkRes RStuck [] None)
      end
  | OSession sets refresh =>
      let s0 := set_ts s (s_ts s + 1)%N in
      let '(s1, rs, batch) :=
        fold_left (fun '(s, rs, batch) '(v, x) =>
                     let n := mkNode KInput v in
                     let r := match get_info s n with
                              | None => SFresh
                              | Some i => if i_value i =? x then SUnchanged else SUpdated end in
                     (set_computed_input s n x, rs ++ [r],
                      match r with SUpdated => batch ++ [n] | _ => batch end))
                  sets (s0, [], []) in
      let '(s2, batch2) :=
        if refresh then
          fold_left (fun '(s, batch) e =>
                       let v := world_get s (nidx e) in
                       let changed := match get_info s e with Some i => negb (i_value i =? v) | None => false end in
                       (set_computed_input (set_log s (e :: s_log s)) e v, if changed then batch ++ [e] else batch))
                    (s_ext s1) (s1, batch)
        else (s1, batch) in
      let s3 := set_visited (set_stat s2 0%N) [] in
      match propagate_o pord pfuel s3 batch2 with
      | Ok s4 => (s4, mkRes (RSession rs) (rev (s_log s4)) None)
      | _ => (s3, mkRes RFuel [] None)
      end
  end.
Fixpoint run_history_f (tord bord pord : oracle) (fuel pfuel : nat) (p : program) (s : state) (ops : list op) : list opres :=
  match ops with
  | [] => []
  | o :: r => let '(s', x) := step_f tord bord pord fuel pfuel p s o in x :: run_history_f tord bord pord fuel pfuel p s' r
  end.

Lemma step_op_is_step_f : forall tord bord pord p s o, step_op tord bord pord p s o = step_f tord bord pord fuel0 4000 p s o.
Proof. reflexivity. Qed.
Lemma step_is_step_f : forall p s o, step p s o = step_f ord_id ord_id ord_id fuel0 4000 p s o.
Proof. reflexivity. Qed.
Lemma run_history_op_is_f : forall tord bord pord p ops s,
  run_history_op tord bord pord p s ops = run_history_f tord bord pord fuel0 4000 p s ops.
Proof. intros tord bord pord p ops. induction ops as [|o r IH]; intro s; cbn [run_history_op run_history_f]; [reflexivity|].
  rewrite step_op_is_step_f. destruct (step_f tord bord pord fuel0 4000 p s o). rewrite IH. reflexivity. Qed.
Lemma run_history_is_f : forall p ops s, run_history p s ops = run_history_f ord_id ord_id ord_id fuel0 4000 p s ops.
Proof. intros. unfold run_history, run_history_o. apply run_history_op_is_f. Qed.

(** no session before operation [i] ran out of fuel (see [CoreSpec.sessions_fuelled]) *)
Definition msessions_fuelled (tord bord pord : oracle) (fuel pfuel : nat) (p : program) (ops : list op) (i : nat) : Prop :=
  forall k sets b rk, (k < i)%nat -> nth_error ops k = Some (OSession sets b) ->
    nth_error (run_history_f tord bord pord fuel pfuel p init_state ops) k = Some rk -> r_out rk <> RFuel.

(** C01 on the full model *)
Definition model_sound_statement_f : Prop :=
  forall tord bord pord fuel pfuel p ops i n r z, order_ok tord -> order_ok bord -> order_ok pord -> wf_model p -> Forall op_in_scope ops ->
    msessions_fuelled tord bord pord fuel pfuel p ops i ->
    nth_error ops i = Some (OQuery n) ->
    nth_error (run_history_f tord bord pord fuel pfuel p init_state ops) i = Some r ->
    r_out r = RValue z ->
    MdlSpec p (inputs_after (firstn i ops)) n z.

(** the same about the model's own [run_history] *)
Definition model_sessions_fuelled (p : program) (ops : list op) (i : nat) : Prop :=
  forall k sets b rk, (k < i)%nat -> nth_error ops k = Some (OSession sets b) ->
    nth_error (run_history p init_state ops) k = Some rk -> r_out rk <> RFuel.
Definition model_sound_statement : Prop :=
  forall p ops i n r z, wf_model p -> Forall op_in_scope ops ->
    model_sessions_fuelled p ops i ->
    nth_error ops i = Some (OQuery n) ->
    nth_error (run_history p init_state ops) i = Some r ->
    r_out r = RValue z ->
    MdlSpec p (inputs_after (firstn i ops)) n z.

(** the same for programs with unordered groups *)
Definition model_sound_g_statement_f : Prop :=
  forall tord bord pord fuel pfuel p ops i n r z, order_ok tord -> order_ok bord -> order_ok pord -> wf_model_g p -> Forall op_in_scope ops ->
    msessions_fuelled tord bord pord fuel pfuel p ops i ->
    nth_error ops i = Some (OQuery n) ->
    nth_error (run_history_f tord bord pord fuel pfuel p init_state ops) i = Some r ->
    r_out r = RValue z ->
    MdlSpec p (inputs_after (firstn i ops)) n z.
Definition model_sound_g_statement : Prop :=
  forall p ops i n r z, wf_model_g p -> Forall op_in_scope ops ->
    model_sessions_fuelled p ops i ->
    nth_error ops i = Some (OQuery n) ->
    nth_error (run_history p init_state ops) i = Some r ->
    r_out r = RValue z ->
    MdlSpec p (inputs_after (firstn i ops)) n z.

(** * external inputs
    An external input is executed on first demand (its value is what the world answers then) and
    afterwards only by a refreshing session.  Which request demands it first depends on the
    engine's own bookkeeping (a stale dependency re-run by a repair walk may demand an external
    input the from-scratch evaluation of the root would not read), so its committed value is
    specified by REPLAY: the value of external input [k] after operation [i] is what the world
    answered at the last operation [j <= i] whose execution list ([r_execs], the executor
    invocations the correspondence check compares) contains it. *)
Definition xenv := N -> option Z.
Definition menv := (inputs * xenv)%type.
Definition no_ext : xenv := fun _ => None.

Fixpoint mxexpr (fuel : nat) (p : program) (env : menv) (e : expr) {struct fuel} : option Z :=
  match fuel with
  | O => None
  | S f =>
    match e with
    | EConst z => Some z
    | ERead n =>
        match nkind n with
        | KInput => input_get (fst env) (nidx n)
        | KExternal => snd env (nidx n)
        | KNormal | KFirewall | KProjection => do b <- alookup p n; mxexpr f p env b
        end
    | EAdd a b => do x <- mxexpr f p env a; do y <- mxexpr f p env b; Some (x + y)
    | EMul a b => do x <- mxexpr f p env a; do y <- mxexpr f p env b; Some (x * y)
    | ELt a b => do x <- mxexpr f p env a; do y <- mxexpr f p env b; Some (if x <? y then 1 else 0)
    | EMod a m => do x <- mxexpr f p env a; Some (x mod m)
    | EIf c a b => do x <- mxexpr f p env c; mxexpr f p env (if x =? 0 then b else a)
    | EGroup [] => Some 0
    | EGroup (n :: ns) => do x <- mxexpr f p env (ERead n); do y <- mxexpr f p env (EGroup ns); Some (x + y)
    end
  end.
Definition MdlSpecX (p : program) (env : menv) (n : node) (v : Z) : Prop :=
  exists fuel, mxexpr fuel p env (ERead n) = Some v.

(** programs that may read external inputs (which have no body); a projection still reads only
    firewalls and projections *)
Definition is_mtarget_kind (k : kind) : bool :=
  match k with KInput | KExternal => true | _ => false end.
Record wf_model_x (p : program) : Prop := {
  wfx_keys : forall n e, In (n, e) p -> is_mexec_kind (nkind n) = true;
  wfx_targets : forall n e d, In (n, e) p -> In d (expr_reads e) ->
                 is_mtarget_kind (nkind d) = true \/ (is_mexec_kind (nkind d) = true /\ alookup p d <> None);
  wfx_proj : forall n e d, In (n, e) p -> nkind n = KProjection -> In d (expr_reads e) ->
                 is_fw_or_proj (nkind d) = true;
  wfx_rank : exists rank : node -> nat, forall n e d, In (n, e) p -> In d (expr_reads e) ->
                 is_mexec_kind (nkind d) = true -> (rank d < rank n)%nat;
}.
Lemma wf_model_x_of : forall p, wf_model_g p -> wf_model_x p.
Proof.
  intros p [A B C D]. split; auto. intros n e d H Hd. destruct (B n e d H Hd) as [K|K]; [left; rewrite K; reflexivity|right; exact K].
Qed.

(** the world after a history *)
Definition world_set (w : list (N * Z)) (i : N) (v : Z) : list (N * Z) :=
  (i, v) :: filter (fun '(k, _) => negb (k =? i)%N) w.
Definition world_val (w : list (N * Z)) (i : N) : Z :=
  match find (fun '(k, _) => (k =? i)%N) w with Some (_, v) => v | None => 0 end.
Definition world_op (w : list (N * Z)) (o : op) : list (N * Z) :=
  match o with OSetWorld i v => world_set w i v | _ => w end.
Definition world_after (ops : list op) : list (N * Z) := fold_left world_op ops [].

(** replay: the values of the external inputs after the operations [ops] with results [rs] *)
Definition ext_node (k : N) : node := mkNode KExternal k.
Definition ext_step (acc : xenv * list (N * Z)) (or : op * opres) : xenv * list (N * Z) :=
  let '(xe, w) := acc in
  let '(o, r) := or in
  let w' := world_op w o in
  ((fun k => if nmem (ext_node k) (r_execs r) then Some (world_val w' k) else xe k), w').
Definition ext_after (ops : list op) (rs : list opres) : xenv :=
  fst (fold_left ext_step (combine ops rs) (no_ext, [])).

(** C01 with external inputs: every history *)
Definition model_sessions_fuelled_x := model_sessions_fuelled.
Definition model_sound_x_statement_f : Prop :=
  forall tord bord pord fuel pfuel p ops i n r z, order_ok tord -> order_ok bord -> order_ok pord -> wf_model_x p ->
    msessions_fuelled tord bord pord fuel pfuel p ops i ->
    nth_error ops i = Some (OQuery n) ->
    nth_error (run_history_f tord bord pord fuel pfuel p init_state ops) i = Some r ->
    r_out r = RValue z ->
    MdlSpecX p (inputs_after (firstn i ops),
                ext_after (firstn (S i) ops) (firstn (S i) (run_history_f tord bord pord fuel pfuel p init_state ops))) n z.
(** the same about [Model.run_history_o], for every order of the parallel tasks *)
Definition model_sessions_fuelled_op (tord bord pord : oracle) (p : program) (ops : list op) (i : nat) : Prop :=
  forall k sets b rk, (k < i)%nat -> nth_error ops k = Some (OSession sets b) ->
    nth_error (run_history_op tord bord pord p init_state ops) k = Some rk -> r_out rk <> RFuel.
Definition model_sound_x_statement_op : Prop :=
  forall tord bord pord p ops i n r z, order_ok tord -> order_ok bord -> order_ok pord -> wf_model_x p ->
    model_sessions_fuelled_op tord bord pord p ops i ->
    nth_error ops i = Some (OQuery n) ->
    nth_error (run_history_op tord bord pord p init_state ops) i = Some r ->
    r_out r = RValue z ->
    MdlSpecX p (inputs_after (firstn i ops),
                ext_after (firstn (S i) ops) (firstn (S i) (run_history_op tord bord pord p init_state ops))) n z.
(** the dirty propagation in list order *)
Definition model_sessions_fuelled_o (tord bord : oracle) (p : program) (ops : list op) (i : nat) : Prop :=
  forall k sets b rk, (k < i)%nat -> nth_error ops k = Some (OSession sets b) ->
    nth_error (run_history_o tord bord p init_state ops) k = Some rk -> r_out rk <> RFuel.
Definition model_sound_x_statement_o : Prop :=
  forall tord bord p ops i n r z, order_ok tord -> order_ok bord -> wf_model_x p ->
    model_sessions_fuelled_o tord bord p ops i ->
    nth_error ops i = Some (OQuery n) ->
    nth_error (run_history_o tord bord p init_state ops) i = Some r ->
    r_out r = RValue z ->
    MdlSpecX p (inputs_after (firstn i ops),
                ext_after (firstn (S i) ops) (firstn (S i) (run_history_o tord bord p init_state ops))) n z.
Definition model_sound_x_statement : Prop :=
  forall p ops i n r z, wf_model_x p ->
    model_sessions_fuelled p ops i ->
    nth_error ops i = Some (OQuery n) ->
    nth_error (run_history p init_state ops) i = Some r ->
    r_out r = RValue z ->
    MdlSpecX p (inputs_after (firstn i ops),
                ext_after (firstn (S i) ops) (firstn (S i) (run_history p init_state ops))) n z.
