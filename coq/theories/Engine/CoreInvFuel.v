(** Fuel adequacy of the dirty propagation: [cpropagate] cannot run out of fuel when the fuel
    exceeds the length of the work list plus the number of backward edges of the nodes not
    yet visited; hence a session answers [RFuel] only if [fuel * 10] is at most the number
    of writes plus the number of backward edges.  This discharges [sessions_fuelled]. *)
From QV Require Import Common.Prelude Engine.Model Engine.Core Engine.CoreSpec
  Engine.CoreInvBase Engine.CoreInvSem Engine.CoreInvState Engine.CoreInvCommit.
Open Scope Z_scope.

Fixpoint pcost (s : cstate) (vis keys : list node) : nat :=
  match keys with
  | [] => O
  | k :: ks => ((if nmem k vis then O else length (ccallers s k)) + pcost s vis ks)%nat
  end.
(** number of backward edges *)
Definition total_bwd (s : cstate) : nat := pcost s [] (map fst (cs_bwd s)).

Lemma pcost_ext : forall s s' vis keys, cs_bwd s' = cs_bwd s -> pcost s' vis keys = pcost s vis keys.
Proof.
  intros s s' vis keys E. induction keys as [|k ks IH]; cbn [pcost]; [reflexivity|].
  rewrite IH. unfold ccallers. rewrite E. reflexivity.
Qed.

Lemma nmem_cons : forall k x vis, nmem k (x :: vis) = node_eqb k x || nmem k vis.
Proof. reflexivity. Qed.

Lemma pcost_mono_vis : forall s x vis keys, (pcost s (x :: vis) keys <= pcost s vis keys)%nat.
Proof.
  intros s x vis keys. induction keys as [|k ks IH]; cbn [pcost]; [lia|].
  rewrite nmem_cons. destruct (node_eqb k x); destruct (nmem k vis); cbn [orb]; lia.
Qed.

Lemma pcost_visit : forall s x vis keys, nmem x vis = false -> In x keys ->
  (pcost s (x :: vis) keys + length (ccallers s x) <= pcost s vis keys)%nat.
Proof.
  intros s x vis keys Hx. induction keys as [|k ks IH]; intro Hin; [destruct Hin|]. cbn [pcost].
  rewrite nmem_cons. destruct (node_eqb_spec k x) as [->|Hne].
  - cbn [orb]. rewrite Hx. pose proof (pcost_mono_vis s x vis ks). lia.
  - cbn [orb]. destruct Hin as [E|Hin]; [congruence|]. specialize (IH Hin). destruct (nmem k vis); lia.
Qed.

Lemma ccallers_nokey : forall s x, ~ In x (map fst (cs_bwd s)) -> ccallers s x = [].
Proof.
  intros s x H. unfold ccallers. destruct (alookup (cs_bwd s) x) as [l|] eqn:E; [|reflexivity].
  exfalso. apply H. eapply alookup_keys. exact E.
Qed.

Lemma cpropagate_enough : forall fuel s work,
  (length work + pcost s (cs_visited s) (map fst (cs_bwd s)) < fuel)%nat ->
  exists s', cpropagate fuel s work = Ok s'.
Proof.
  induction fuel as [|f IH]; intros s work H; [lia|]. cbn [cpropagate].
  destruct work as [|x r]; [eauto|]. cbn [length] in H.
  destruct (nmem x (cs_visited s)) eqn:Ev.
  - apply IH. lia.
  - destruct (cmark (cset_visited s (x :: cs_visited s)) x (ccallers (cset_visited s (x :: cs_visited s)) x) r)
      as [s2 work'] eqn:Em.
    apply cmark_spec in Em. destruct Em as (A & _ & C & _ & E & _).
    cbn [cset_visited cs_bwd cs_visited] in *.
    apply IH. rewrite A, E, C, app_length. rewrite (pcost_ext s s2) by exact C.
    change (ccallers (cset_visited s (x :: cs_visited s)) x) with (ccallers s x).
    destruct (in_dec node_eq_dec x (map fst (cs_bwd s))) as [Hin|Hin].
    + pose proof (pcost_visit s x (cs_visited s) _ Ev Hin). lia.
    + rewrite (ccallers_nokey s x Hin). pose proof (pcost_mono_vis s x (cs_visited s) (map fst (cs_bwd s))).
      cbn [length]. lia.
Qed.

Lemma sess_fold_batch_len : forall sets cur rs batch cur' rs' batch',
  fold_left sess_step sets (cur, rs, batch) = (cur', rs', batch') ->
  (length batch' <= length batch + length sets)%nat.
Proof.
  induction sets as [|[v x] r IH]; intros cur rs batch cur' rs' batch' H; cbn [fold_left] in H.
  - inversion H. cbn. lia.
  - rewrite sess_step_eq in H. apply IH in H. cbn [length].
    match type of H with (_ <= length ?b + _)%nat =>
      assert (length b <= S (length batch))%nat end.
    { destruct (cget cur (mkNode KInput v)) as [i|]; [destruct (c_value i =? x)|];
        rewrite ?app_length; cbn [length]; lia. }
    lia.
Qed.

(** a session of a state satisfying the invariant does not answer [RFuel] when there is
    enough fuel for its writes and the backward edges *)
Theorem session_fuel_enough : forall p inp fuel s sets b s' r,
  CInv p inp s ->
  (length sets + total_bwd s < fuel * 10)%nat ->
  cstep_f fuel p s (OSession sets b) = (s', r) -> r_out r <> RFuel.
Proof.
  intros p inp fuel s sets b s' r HI Hf H. rewrite cstep_session in H. cbv zeta in H.
  destruct (fold_left sess_step sets (cset_ts (cset_log s []) (cs_ts (cset_log s []) + 1)%N, [], []))
    as [[s1 rs] batch] eqn:Ef.
  pose proof (sess_fold_batch_len _ _ _ _ _ _ _ Ef) as Hlen. cbn [length] in Hlen.
  pose proof (sess_fold_inv _ _ _ _ _ _ _ _ _ (SessInv_init p inp (cset_log s []) (CInv_log p inp s [] HI)) Ef) as HS.
  destruct (cpropagate_enough (fuel * 10) (cset_visited (cset_stat s1 0%N) []) batch) as [s4 E4].
  - rewrite (pcost_ext s (cset_visited (cset_stat s1 0%N) []))
      by (cbn [cset_visited cset_stat cs_bwd]; rewrite (si_bwd _ _ _ _ HS); reflexivity).
    cbn [cset_visited cset_stat cs_visited cs_bwd].
    rewrite (si_bwd _ _ _ _ HS). cbn [cset_log cset_ts cs_bwd]. unfold total_bwd in Hf. lia.
  - rewrite E4 in H. inversion H. subst. discriminate.
Qed.
