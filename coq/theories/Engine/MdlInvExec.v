(** [MKeeps] composes; frames of running executors; preservation of the invariant by
    [set_computed], including the opening of a window (the projections that still hold the old
    value of a changed firewall / projection whose backward projections are about to run). *)
From QV Require Import Common.Prelude Engine.Model Engine.Core Engine.CoreSpec Engine.CoreInvBase
  Engine.CoreInvSem Engine.Fw Engine.FwBase Engine.FwMono Engine.FwInv Engine.FwInvExec Engine.MdlSpec Engine.MdlSem
  Engine.MdlBase Engine.MdlInv Engine.MdlInvState.
Open Scope Z_scope.

Section Exec.
Variable p : program.
Variable rk : node -> nat.
Variable s0 : state.
Hypothesis Hrk : forall n e d, alookup p n = Some e -> In d (expr_reads e) -> (rk d < rk n)%nat.
Hypothesis Hproj : forall n e d, alookup p n = Some e -> nkind n = KProjection -> In d (expr_reads e) ->
  is_fw_or_proj (nkind d) = true.

(** * [MKeeps] *)
Lemma MSolid_keep : forall Ex X inp stk s s' d,
  MInvE p rk s0 Ex X inp s -> MonoR stk s s' -> MKeeps s s' -> get_info s d <> None -> MSolid s d -> MSolid s' d.
Proof.
  intros Ex X inp stk s s' d HI HM HK Hd HS.
  assert (Hf : forall y, tpath s d y -> old_fwd s' y = old_fwd s y).
  { intros y Hy. pose proof (MSolid_path _ _ _ HS Hy) as Sy.
    pose proof (tpath_stored _ _ _ _ _ _ _ _ _ HI Hd Hy) as Hys.
    unfold old_fwd. destruct (get_info s y) as [i|] eqn:Hi; [|congruence].
    destruct (HK y i Hi Sy) as [i' [Hi' (_ & F & _)]]. rewrite Hi', F. reflexivity. }
  destruct HS as [HG HR]. split.
  - eapply MGood_frame; eauto. intros y z Hy Hz (i & j & v & t & A & B & C & D & E).
    pose proof (MSolid_path _ _ _ (conj HG HR) Hy) as Sy.
    destruct (HK y i A Sy) as [i' [Hi' (V' & F' & O' & T')]].
    assert (Hz' : exists j', get_info s' z = Some j' /\ i_value j' = i_value j /\ (nkind z <> KFirewall -> i_tfc j' = i_tfc j)).
    { destruct (fw_or_thru z) as [Kz|Kz].
      - assert (Vz : sverified s z) by (apply HR; exists y; auto).
        destruct Vz as [j0 [J1 J2]]. assert (j0 = j) by congruence. subst j0.
        destruct (mr_ver _ _ _ HM z j B J2) as [j' [Hj' (_ & Q2 & _)]]. exists j'. split; [exact Hj'|].
        split; [exact Q2|]. intro K. contradiction.
      - assert (Sz : MSolid s z) by (eapply MSolid_step; eauto).
        destruct (HK z j B Sz) as [j' [Hj' (Q1 & _ & _ & Q4)]]. exists j'. auto. }
    destruct Hz' as [j' (Z1 & Z2 & Z3)].
    exists i', j', v, t. split; [exact Hi'|]. split; [exact Z1|]. split; [rewrite O'; exact C|].
    split; [congruence|]. intro K. rewrite (Z3 K). apply E. exact K.
  - intros F HF. eapply sverified_mono; [exact HM|]. apply HR. eapply mreach_frame_inv; eauto.
Qed.

Lemma MKeeps_trans : forall Ex X inp stk s s1 s2,
  MInvE p rk s0 Ex X inp s -> MonoR stk s s1 -> MKeeps s s1 -> MKeeps s1 s2 -> MKeeps s s2.
Proof.
  intros Ex X inp stk s s1 s2 HI HM K1 K2 d i Hi HS.
  destruct (K1 d i Hi HS) as [i1 [Hi1 (A1 & A2 & A3 & A4)]].
  assert (S1 : MSolid s1 d) by (eapply MSolid_keep; eauto; congruence).
  destruct (K2 d i1 Hi1 S1) as [i2 [Hi2 (B1 & B2 & B3 & B4)]].
  exists i2. split; [exact Hi2|]. repeat split; congruence.
Qed.

(** * frames *)
Record MFrOk (s : state) (n : node) (fr : frame) : Prop := {
  mo_scc : fr_scc fr = false;
  mo_unord : fr_unordered fr = true -> exists o g, fr_order fr = o ++ [DUnordered g];
  mo_order : all_callees (fr_order fr) = map fst (fr_callees fr);
  mo_all : forall x o, In (x, o) (fr_callees fr) -> o <> None;
  mo_entry : forall d, In d (map fst (fr_callees fr)) ->
     exists i, alookup (fr_callees fr) d = Some (Some (i_value i, i_tfc i)) /\
               get_info s d = Some i /\ i_verified i = s_ts s;
  mo_tfc : forall d i, In d (map fst (fr_callees fr)) -> get_info s d = Some i ->
     (nkind d = KFirewall -> In d (fr_tfc fr)) /\
     (tkind d -> forall F, In F (i_tfc i) -> In F (fr_tfc fr));
  mo_tfc_ex : forall F, In F (fr_tfc fr) ->
     exists d i, In d (map fst (fr_callees fr)) /\ get_info s d = Some i /\ In F (tfc_contribution d i);
  mo_tfc_rk : forall F, In F (fr_tfc fr) -> (rk F < rk n)%nat;
  mo_tfc_fw : forall F, In F (fr_tfc fr) -> nkind F = KFirewall;
}.

Lemma MFrOk_mono : forall stk s s' n fr, MonoR stk s s' -> MFrOk s n fr -> MFrOk s' n fr.
Proof.
  intros stk s s' n fr HM [A B C D E F G H H9]. split; auto.
  - intros d Hd. destruct (E d Hd) as [i (E1 & E2 & E3)].
    destruct (mr_ver _ _ _ HM d i E2 E3) as [i' [Hi' (Q1 & Q2 & Q3 & _)]].
    exists i'. rewrite Q2, Q3. split; [exact E1|]. split; [exact Hi'|]. rewrite Q1, (mr_ts _ _ _ HM). exact E3.
  - intros d i' Hd Hi'. destruct (E d Hd) as [i (E1 & E2 & E3)].
    destruct (mr_ver _ _ _ HM d i E2 E3) as [i2 [Hi2 (Q1 & Q2 & Q3 & _)]].
    assert (i2 = i') by congruence. subst i2. rewrite Q3. apply F; assumption.
  - intros T HT. destruct (G T HT) as [d [i (G1 & G2 & G3)]]. destruct (E d G1) as [i0 (E1 & E2 & E3)].
    assert (i0 = i) by congruence. subst i0.
    destruct (mr_ver _ _ _ HM d i E2 E3) as [i2 [Hi2 (Q1 & Q2 & Q3 & _)]].
    exists d, i2. split; [exact G1|]. split; [exact Hi2|]. unfold tfc_contribution in *. rewrite Q3. exact G3.
Qed.

Lemma MFrOk_obs : forall s n fr d, MFrOk s n fr ->
  alookup (fr_observations fr) d = match alookup (fr_callees fr) d with Some (Some o) => Some o | _ => None end.
Proof. intros s n fr d H. unfold fr_observations. apply observations_lookup. apply (mo_all _ _ _ H). Qed.
Lemma MFrOk_callees : forall s n fr, MFrOk s n fr -> all_callees (fr_order fr) = map fst (fr_callees fr).
Proof. intros s n fr H. apply (mo_order _ _ _ H). Qed.

(** * [set_computed] *)
(** the re-execution reproduced the value and (for a node that hands them up) the transitive
    firewall callees recorded before *)
Definition Unch (s : state) (n : node) (v : Z) (tf : list node) : Prop :=
  exists i, get_info s n = Some i /\ i_value i = v /\ (thru n -> forall F, In F (i_tfc i) <-> In F tf).
Lemma Unch_dec : forall s n v tf, Unch s n v tf \/ ~ Unch s n v tf.
Proof.
  intros s n v tf. unfold Unch. destruct (get_info s n) as [i|]; [|right; intros [i [K _]]; discriminate].
  destruct (Z.eq_dec (i_value i) v) as [Ev|Ev].
  2:{ right. intros [j (A & B & _)]. inversion A. subst. contradiction. }
  destruct (thru_dec n) as [Ht|Ht].
  - destruct (nset_eqb (i_tfc i) tf) eqn:Et.
    + left. exists i. split; [reflexivity|]. split; [exact Ev|]. intros _. apply nset_eqb_In. exact Et.
    + right. intros [j (A & B & C)]. inversion A. subst j.
      assert (K : nset_eqb (i_tfc i) tf = true) by (apply nset_eqb_In; apply C; exact Ht). congruence.
  - left. exists i. split; [reflexivity|]. split; [exact Ev|]. intro K. contradiction.
Qed.

Lemma set_computed_world : forall s n v fr bp rc, s_world (set_computed s n v fr bp rc) = s_world s.
Proof.
  intros. unfold set_computed.
  match goal with |- s_world (if ?b then set_ext ?x ?y else ?x) = _ =>
    assert (E : s_world (if b then set_ext x y else x) = s_world x) by (destruct b; reflexivity); rewrite E; clear E end.
  rewrite (sg_world _ _ (wire_sbg _ _ _)). unfold put_info. cbn [set_nodes s_world].
  destruct (get_info s n); [apply (sg_world _ _ (unwire_sbg _ _ _ _))|reflexivity].
Qed.
Lemma set_computed_ext_In : forall s n v fr bp rc e,
  In e (s_ext (set_computed s n v fr bp rc)) -> In e (s_ext s) \/ (e = n /\ nkind n = KExternal).
Proof.
  intros s n v fr bp rc e. unfold set_computed.
  assert (Hx : forall s1, s_ext (wire (put_info (match get_info s n with Some i => unwire s n (i_fwd i) rc | None => s end) n s1) n (fr_order fr)) = s_ext s).
  { intro s1. rewrite (sg_ext _ _ (wire_sbg _ _ _)). unfold put_info. cbn [set_nodes s_ext].
    destruct (get_info s n); [apply (sg_ext _ _ (unwire_sbg _ _ _ _))|reflexivity]. }
  destruct (kind_eqb (nkind n) KExternal) eqn:K.
  - cbn [set_ext s_ext]. rewrite Hx. intro H. apply nadd_In in H. destruct H as [->|H]; [right; split; [reflexivity|apply kind_eqb_eq; exact K]|left; exact H].
  - rewrite Hx. auto.
Qed.

Lemma nadd_NoDup : forall n l, NoDup l -> NoDup (nadd n l).
Proof.
  intros n l H. unfold nadd. destruct (nmem n l) eqn:E; [exact H|].
  apply nmem_false in E. apply NoDup_app_intro; [exact H|constructor; [intros []|constructor]|].
  intros x Hx [<-|[]]. contradiction.
Qed.
Lemma set_computed_ext_NoDup : forall s n v fr bp rc, NoDup (s_ext s) -> NoDup (s_ext (set_computed s n v fr bp rc)).
Proof.
  intros s n v fr bp rc H. unfold set_computed.
  assert (Hx : forall s1, s_ext (wire (put_info (match get_info s n with Some i => unwire s n (i_fwd i) rc | None => s end) n s1) n (fr_order fr)) = s_ext s).
  { intro s1. rewrite (sg_ext _ _ (wire_sbg _ _ _)). unfold put_info. cbn [set_nodes s_ext].
    destruct (get_info s n); [apply (sg_ext _ _ (unwire_sbg _ _ _ _))|reflexivity]. }
  destruct (kind_eqb (nkind n) KExternal).
  - cbn [set_ext s_ext]. rewrite Hx. apply nadd_NoDup. exact H.
  - rewrite Hx. exact H.
Qed.

(** what is stored for [n]: an external input (the world's answer) or an executed body *)
Definition NewKind (inp : menv) (n : node) (v : Z) (fr : frame) : Prop :=
  (nkind n = KExternal /\ fr_order fr = [] /\ fr_callees fr = [] /\ fr_tfc fr = [] /\ snd inp (nidx n) = Some v) \/
  (is_mexec_kind (nkind n) = true /\ exists e l, alookup p n = Some e /\
     evr (frR fr) e v l /\ (forall d, In d (map fst (fr_callees fr)) <-> In d l)).

Lemma MInv_set_computed : forall Ex X Y inp s n v fr bp rc,
  MInvE p rk s0 Ex X inp s -> (forall x, Ex x -> x = n) ->
  NewKind inp n v fr ->
  MFrOk s n fr -> ~ sverified s n -> In n (s_log s) ->
  ((rc = true /\ get_info s n <> None) \/ (rc = false /\ get_info s n = None)) ->
  (get_info s n <> None -> MSolid s n -> Unch s n v (fr_tfc fr)) ->
  (~ Unch s n v (fr_tfc fr) ->
     (forall c, In n (old_fwd s c) -> sdirty s c n) /\
     (forall b x a, tpath s b x -> In n (old_fwd s x) -> ~ In x (X ++ Y) -> thru b -> In b (old_fwd s a) -> sdirty s a b)) ->
  (forall y, In y Y -> nkind y = KProjection /\ y <> n /\
     exists i ov t, get_info s y = Some i /\ alookup (i_obs i) n = Some (ov, t) /\ ov <> v) ->
  MInv p rk s0 (X ++ Y) inp (set_computed s n v fr bp rc) /\
  (~ MSolid s n \/ get_info s n = None -> MKeeps s (set_computed s n v fr bp rc)).
Proof.
  intros Ex X Y inp s n v fr bp rc HI HEx Hnk Hfr Hnv Hlogn Hrc Hsame Hdirt HY.
  set (s' := set_computed s n v fr bp rc).
  set (keys := map fst (fr_callees fr)) in *.
  set (ni := sc_info s n v fr bp).
  assert (Hget : forall m, get_info s' m = if node_eqb n m then Some ni else get_info s m)
    by (intro m; apply set_computed_get).
  assert (Hgetne : forall m, m <> n -> get_info s' m = get_info s m).
  { intros m Hm. rewrite Hget. destruct (node_eqb_spec n m); [congruence|reflexivity]. }
  assert (Hgetn : get_info s' n = Some ni) by (rewrite Hget, node_eqb_refl; reflexivity).
  assert (Hts : s_ts s' = s_ts s) by apply set_computed_ts.
  assert (Hd : forall a b, sdirty s' a b <-> sdirty s a b /\ ~ (rc = true /\ a = n /\ In b (old_fwd s n)))
    by (intros; apply set_computed_dirty).
  assert (Hcs : all_callees (fr_order fr) = keys) by (eapply MFrOk_callees; eauto).
  assert (Hfwdn : old_fwd s' n = keys) by (unfold old_fwd; rewrite Hgetn; exact Hcs).
  assert (Hfwdne : forall m, m <> n -> old_fwd s' m = old_fwd s m).
  { intros m Hm. unfold old_fwd. rewrite (Hgetne m Hm). reflexivity. }
  assert (Hcal : forall x y, In x (callers_of s' y) <->
            (In x (callers_of s y) /\ ~ (x = n /\ In y (old_fwd s n))) \/ (x = n /\ In y keys)).
  { intros x y. unfold s'. rewrite set_computed_callers, Hcs. reflexivity. }
  assert (Hkrk : forall d, In d keys -> (rk d < rk n)%nat).
  { intros d Hd0. destruct Hnk as [(_ & _ & Kc & _)|(_ & e & l & He & Hev & Hkl)].
    - unfold keys in Hd0. rewrite Kc in Hd0. destruct Hd0.
    - eapply Hrk; eauto. eapply evr_reads; eauto. apply Hkl. exact Hd0. }
  assert (Hself : ~ In n keys) by (intro K; apply Hkrk in K; lia).
  assert (Hnd : forall b, ~ sdirty s' n b).
  { intros b K. apply Hd in K. destruct K as [K1 K2]. pose proof (mi_dirty_edge _ _ _ _ _ _ _ HI _ _ K1) as Hb.
    destruct Hrc as [[-> _]|[_ Hn]]; [apply K2; auto|]. unfold old_fwd in Hb. rewrite Hn in Hb. destruct Hb. }
  assert (Hdne : forall a b, a <> n -> (sdirty s' a b <-> sdirty s a b)).
  { intros a b Hne. rewrite Hd. split; [tauto|]. intro K. split; [exact K|]. intros (_ & K1 & _). contradiction. }
  assert (Hcaller_stored : forall a, In n (old_fwd s a) -> get_info s n <> None).
  { intros a Ha. eapply (mi_target _ _ _ _ _ _ _ HI); eauto. }
  assert (Hver : forall m, m <> n -> (sverified s' m <-> sverified s m)).
  { intros m Hm. unfold sverified. rewrite (Hgetne m Hm), Hts. reflexivity. }
  assert (Hvern : sverified s' n).
  { exists ni. split; [exact Hgetn|]. unfold ni, sc_info. cbn [i_verified]. rewrite Hts. reflexivity. }
  assert (Hver1 : forall m, sverified s m -> sverified s' m).
  { intros m Hm. destruct (node_eq_dec m n) as [->|Hne]; [exact Hvern|]. apply Hver; assumption. }
  assert (Hfrk : forall a b, In b (old_fwd s a) -> (rk b < rk a)%nat) by (intros; eapply mfwd_rk; eauto).
  (* nodes of smaller rank than n: nothing changes below them *)
  assert (Hlow : forall d y, (rk d < rk n)%nat -> tpath s d y -> y <> n).
  { intros d y Hr Hp ->. pose proof (tpath_rk _ _ Hrk _ _ _ _ _ _ _ HI Hp). lia. }
  assert (Hlow_path : forall d y, (rk d < rk n)%nat -> (tpath s' d y <-> tpath s d y)).
  { intros d y Hr. split; intro K.
    - eapply tpath_frame_inv; [exact K|]. intros z Hz. apply Hfwdne. eapply Hlow; eauto.
    - eapply tpath_frame; [exact K|]. intros z Hz. apply Hfwdne. eapply Hlow; eauto. }
  assert (Hlow_edge : forall y z, y <> n -> z <> n -> edgeok s y z -> edgeok s' y z).
  { intros y z Hy Hz (i & j & v0 & t & A & B & C). exists i, j, v0, t. rewrite (Hgetne y Hy), (Hgetne z Hz). auto. }
  assert (Hlow_good : forall d, (rk d < rk n)%nat -> MGood s d -> MGood s' d).
  { intros d Hr HG. eapply MGood_frame; [exact HG| |].
    - intros y Hy. apply Hfwdne. eapply Hlow; eauto.
    - intros y z Hy Hz Hyz. apply Hlow_edge; [eapply Hlow; eauto| |exact Hyz].
      intros ->. pose proof (tpath_rk _ _ Hrk _ _ _ _ _ _ _ HI Hy). pose proof (Hfrk _ _ Hz). lia. }
  (* the new edges of n *)
  assert (Hentry : forall d, In d keys -> exists j, get_info s d = Some j /\ i_verified j = s_ts s /\
                     alookup (i_obs ni) d = Some (i_value j, i_tfc j) /\ d <> n).
  { intros d Hdk. destruct (mo_entry _ _ _ Hfr d Hdk) as [j (A & B & C)]. exists j.
    split; [exact B|]. split; [exact C|]. split.
    - unfold ni, sc_info. cbn [i_obs]. rewrite (MFrOk_obs _ _ _ d Hfr), A. reflexivity.
    - intro E. subst. contradiction. }
  assert (Hnew : forall d, In d keys -> edgeok s' n d /\ (thru d -> MGood s' d)).
  { intros d Hdk. destruct (Hentry d Hdk) as [j (A & B & C & D)]. split.
    - exists ni, j, (i_value j), (i_tfc j). split; [exact Hgetn|]. split; [rewrite (Hgetne d D); exact A|].
      split; [exact C|]. split; [reflexivity|]. intros _ x. reflexivity.
    - intros _. apply Hlow_good; [apply Hkrk; exact Hdk|]. apply (mi_G _ _ _ _ _ _ _ HI). exists j. auto. }
  assert (HGn : MGood s' n).
  { apply MGood_intro. intros d Hdn. rewrite Hfwdn in Hdn. apply Hnew. exact Hdn. }
  (* a path of the new state from a node other than n is a path of the old state, possibly
     continued below n *)
  assert (Hsplit : forall b x, tpath s' b x -> b <> n -> tpath s b x \/ (tpath s b n /\ tpath s' n x)).
  { intros b x Hp. induction Hp as [b|b d x Hd0 Htd Hp IH]; intro Hb; [left; constructor|].
    rewrite (Hfwdne b Hb) in Hd0. destruct (node_eq_dec d n) as [->|Hdn].
    - right. split; [econstructor; [exact Hd0|exact Htd|constructor]|exact Hp].
    - destruct (IH Hdn) as [K|[K1 K2]].
      + left. econstructor; eauto.
      + right. split; [econstructor; eauto|exact K2]. }
  (* an edge into n that was consistent stays so when n reproduced what it recorded *)
  assert (Hinto : forall y, y <> n -> edgeok s y n -> Unch s n v (fr_tfc fr) -> edgeok s' y n).
  { intros y Hy (i & j & v0 & t & A & B & C & D & E) [j0 (U1 & U2 & U3)].
    assert (j0 = j) by congruence. subst j0.
    exists i, ni, v0, t. split; [rewrite (Hgetne y Hy); exact A|]. split; [exact Hgetn|]. split; [exact C|].
    split; [unfold ni, sc_info; cbn [i_value]; congruence|].
    intros Kn x. unfold ni, sc_info. cbn [i_tfc]. rewrite <- (U3 Kn x). apply E. exact Kn. }
  (* no verified node sits above n unless n reproduced what it recorded *)
  assert (Habove : forall b x, sverified s b -> tpath s b x -> In n (old_fwd s x) -> Unch s n v (fr_tfc fr)).
  { intros b x Hb Hp Hx. pose proof (verified_Solid _ _ _ _ _ _ _ _ HI Hb) as Sb.
    pose proof (MSolid_path _ _ _ Sb Hp) as Sx.
    destruct (fw_or_thru n) as [Kn|Kn].
    - exfalso. apply Hnv. apply (proj2 Sx). apply mreach_direct; assumption.
    - apply Hsame; [eapply Hcaller_stored; eauto|]. eapply MSolid_step; eauto. }
  (* edges of an old-state node in the new state *)
  assert (Hedges : forall y, y <> n -> (forall d, In d (old_fwd s y) -> edgeok s y d) ->
            (In n (old_fwd s y) -> Unch s n v (fr_tfc fr)) ->
            forall d, In d (old_fwd s' y) -> edgeok s' y d).
  { intros y Hy Hall Hun d Hd0. rewrite (Hfwdne y Hy) in Hd0. destruct (node_eq_dec d n) as [->|Hdn].
    - apply Hinto; auto.
    - apply Hlow_edge; auto. }
  assert (HfrS : forall d x, frR fr d x -> MSpecI p inp d x).
  { intros d x [t Hx]. destruct (mo_entry _ _ _ Hfr d (alookup_keys _ _ _ Hx)) as [j (A & B & C)].
    assert (E : x = i_value j) by congruence. rewrite E. eapply mi_V; eauto. }
  (* consistency, with excuses, is kept below a node whose in-edge is clean *)
  assert (HGX : forall a b, a <> n -> b <> n -> In b (old_fwd s a) -> ~ sdirty s a b -> thru b ->
            MGoodX X s b -> MGoodX (X ++ Y) s' b).
  { intros a b Ha Hb Hab Hcl Htb GX x Hx. destruct (Hsplit b x Hx Hb) as [K|[K1 K2]].
    - destruct (node_eq_dec x n) as [->|Hxn]; [right; apply (HGn n (tp_refl _ _))|].
      destruct (GX x K) as [G|G]; [left; apply in_or_app; left; exact G|].
      destruct (in_dec node_eq_dec x (X ++ Y)) as [Hin|Hin]; [left; exact Hin|right].
      apply Hedges; [exact Hxn|exact G|]. intro Hxc.
      destruct (Unch_dec s n v (fr_tfc fr)) as [U|U]; [exact U|]. exfalso. apply Hcl.
      apply (proj2 (Hdirt U) b x a K Hxc Hin Htb Hab).
    - right. apply HGn. exact K2. }
  split.
  { split.
  - (* mi_kind *)
    intros m i Hi. rewrite Hget in Hi. destruct (node_eqb_spec n m) as [<-|Hne].
    + inversion Hi. subst i. destruct Hnk as [(Kx & Ko & Kc & Kt & Kv)|(Hk & e & l & He & Hev & Hkl)].
      * left. split; [right; exact Kx|]. unfold ni, sc_info. cbn [i_fwd i_obs i_tfc i_value].
        unfold fr_observations. rewrite Ko, Kc, Kt. cbn [flat_map]. repeat (split; [reflexivity|]).
        unfold leaf_val. rewrite Kx. exact Kv.
      * right. split; [exact Hk|]. exists e, l. split; [exact He|]. split.
        -- eapply evr_mono; [exact Hev|]. intros d x _ [t Hx]. exists t. unfold ni, sc_info. cbn [i_obs].
           rewrite (MFrOk_obs _ _ _ d Hfr), Hx. reflexivity.
        -- unfold ni, sc_info. cbn [i_fwd]. rewrite Hcs. exact Hkl.
    + eapply mi_kind; eauto.
  - (* mi_obs *)
    intros m i d Hi Hdm. rewrite Hget in Hi. destruct (node_eqb_spec n m) as [<-|Hne].
    + inversion Hi. subst i. unfold ni, sc_info in Hdm. cbn [i_fwd] in Hdm. rewrite Hcs in Hdm.
      destruct (Hentry d Hdm) as [j (_ & _ & C & _)]. eexists. exact C.
    + eapply mi_obs; eauto.
  - (* mi_obs_fwd *)
    intros m i d o Hi Ho. rewrite Hget in Hi. destruct (node_eqb_spec n m) as [<-|Hne].
    + inversion Hi. subst i. unfold ni, sc_info in *. cbn [i_fwd i_obs] in *. rewrite Hcs.
      rewrite (MFrOk_obs _ _ _ d Hfr) in Ho. destruct (alookup (fr_callees fr) d) as [[o'|]|] eqn:Ec; try discriminate.
      eapply alookup_keys. exact Ec.
    + eapply mi_obs_fwd; eauto.
  - (* mi_target *)
    intros m d Hdm. rewrite Hget. destruct (node_eqb n d); [discriminate|].
    destruct (node_eq_dec m n) as [->|Hne].
    + rewrite Hfwdn in Hdm. destruct (Hentry d Hdm) as [j (A & _)]. congruence.
    + rewrite (Hfwdne m Hne) in Hdm. eapply mi_target; eauto.
  - (* mi_bwd *)
    intros m d. rewrite Hcal. destruct (node_eq_dec m n) as [->|Hne].
    + rewrite Hfwdn. split.
      * intros [[K1 K2]|[_ K]]; [|exact K]. exfalso. apply K2. split; [reflexivity|].
        apply (mi_bwd _ _ _ _ _ _ _ HI). exact K1.
      * intro K. right. auto.
    + rewrite (Hfwdne m Hne), (mi_bwd _ _ _ _ _ _ _ HI). split.
      * intros [[K _]|[K _]]; [exact K|contradiction].
      * intro K. left. split; [exact K|]. intros [K1 _]. contradiction.
  - (* mi_dirty_edge *)
    intros a b K. destruct (node_eq_dec a n) as [->|Hne]; [exfalso; eapply Hnd; eauto|].
    rewrite (Hfwdne a Hne). apply Hdne in K; [|exact Hne]. eapply mi_dirty_edge; eauto.
  - (* mi_ts *)
    intros m i Hi. rewrite Hget in Hi. rewrite Hts. destruct (node_eqb_spec n m) as [<-|Hne].
    + inversion Hi. unfold ni, sc_info. cbn [i_verified]. lia.
    + eapply mi_ts; eauto.
  - (* mi_tfc *)
    intros m i d v0 t Hi Ho. rewrite Hget in Hi. destruct (node_eqb_spec n m) as [<-|Hne].
    + inversion Hi. subst i. unfold ni, sc_info in *. cbn [i_obs i_tfc] in *.
      rewrite (MFrOk_obs _ _ _ d Hfr) in Ho. destruct (alookup (fr_callees fr) d) as [[o'|]|] eqn:Ec; try discriminate.
      inversion Ho. subst o'. pose proof (alookup_keys _ _ _ Ec) as Hdk.
      destruct (mo_entry _ _ _ Hfr d Hdk) as [j (A & B & C)].
      assert (Et : t = i_tfc j) by congruence. subst t.
      destruct (mo_tfc _ _ _ Hfr d j Hdk B) as [T1 T2]. split; [exact T1|exact T2].
    + eapply mi_tfc; eauto.
  - (* mi_tfc_ex *)
    intros m i F Hi HF. rewrite Hget in Hi. destruct (node_eqb_spec n m) as [<-|Hne].
    + inversion Hi. subst i. unfold ni, sc_info in *. cbn [i_obs i_tfc] in *.
      destruct (mo_tfc_ex _ _ _ Hfr F HF) as [d [j (G1 & G2 & G3)]].
      destruct (mo_entry _ _ _ Hfr d G1) as [j0 (A & B & C)]. assert (j0 = j) by congruence. subst j0.
      exists d, (i_value j), (i_tfc j). split; [rewrite (MFrOk_obs _ _ _ d Hfr), A; reflexivity|].
      unfold tfc_contribution in G3. unfold tkind. destruct (nkind d); try destruct G3 as [<-|[]]; try destruct G3; auto.
    + eapply mi_tfc_ex; eauto.
  - (* mi_tfc_rk *)
    intros m i F Hi HF. rewrite Hget in Hi. destruct (node_eqb_spec n m) as [<-|Hne].
    + inversion Hi. subst i. unfold ni, sc_info in HF. cbn [i_tfc] in HF. apply (mo_tfc_rk _ _ _ Hfr). exact HF.
    + eapply mi_tfc_rk; eauto.
  - (* mi_tfc_fw *)
    intros m i F Hi HF. rewrite Hget in Hi. destruct (node_eqb_spec n m) as [<-|Hne].
    + inversion Hi. subst i. unfold ni, sc_info in HF. cbn [i_tfc] in HF. apply (mo_tfc_fw _ _ _ Hfr). exact HF.
    + eapply mi_tfc_fw; eauto.
  - (* mi_C *)
    intros a b Hab Hclean. destruct (node_eq_dec a n) as [->|Hne].
    + rewrite Hfwdn in Hab. destruct (Hnew b Hab) as [A B]. split; [exact A|]. intro K. apply MGood_GoodX. auto.
    + rewrite (Hfwdne a Hne) in Hab.
      assert (Hcl : ~ sdirty s a b) by (intro K; apply Hclean; apply Hdne; assumption).
      destruct (mi_C _ _ _ _ _ _ _ HI a b Hab Hcl) as [Eab Gb].
      destruct (node_eq_dec b n) as [->|Hbn].
      * split; [|intros _; apply MGood_GoodX; exact HGn].
        apply Hinto; [exact Hne|exact Eab|].
        destruct (Unch_dec s n v (fr_tfc fr)) as [U|U]; [exact U|]. exfalso. apply Hcl. apply (proj1 (Hdirt U)). exact Hab.
      * split; [|intro K; apply (HGX a b Hne Hbn Hab Hcl K (Gb K))].
        apply Hlow_edge; auto.
  - (* mi_G *)
    intros x Hx. destruct (node_eq_dec x n) as [->|Hne]; [exact HGn|].
    apply Hver in Hx; [|exact Hne]. pose proof (mi_G _ _ _ _ _ _ _ HI x Hx) as Gx.
    intros y Hy. destruct (Hsplit x y Hy Hne) as [K|[K1 K2]].
    + destruct (node_eq_dec y n) as [->|Hyn]; [apply (HGn n (tp_refl _ _))|].
      apply Hedges; [exact Hyn|apply Gx; exact K|]. intro Hyc. eapply Habove; eauto.
    + apply HGn. exact K2.
  - (* mi_T *)
    assert (HTn : forall y F, tpath s' n y -> In F (old_fwd s' y) -> nkind F = KFirewall -> sverified s' F).
    { intros y F Hp HF KF. inversion Hp; subst.
      - rewrite Hfwdn in HF. destruct (Hentry F HF) as [j (J1 & J2 & _)]. apply Hver1. exists j. auto.
      - rewrite Hfwdn in H. destruct (Hentry d H) as [j (J1 & J2 & _ & J4)].
        pose proof (Hkrk d H) as Hr. apply (Hlow_path d y Hr) in H1.
        rewrite (Hfwdne y (Hlow d y Hr H1)) in HF. apply Hver1.
        eapply (mi_T _ _ _ _ _ _ _ HI); [exists j; eauto|]. exists y. auto. }
    intros x F Hx [y (A & B & C)]. destruct (node_eq_dec x n) as [->|Hne]; [eapply HTn; eauto|].
    apply Hver in Hx; [|exact Hne]. destruct (Hsplit x y A Hne) as [K|[K1 K2]].
    + destruct (node_eq_dec y n) as [->|Hyn]; [eapply HTn; eauto; constructor|].
      rewrite (Hfwdne y Hyn) in B. apply Hver1. eapply (mi_T _ _ _ _ _ _ _ HI); [exact Hx|]. exists y. auto.
    + eapply HTn; eauto.
  - (* mi_V *)
    intros m i Hi Hv. rewrite Hget in Hi. destruct (node_eqb_spec n m) as [<-|Hne].
    + inversion Hi. subst i. unfold ni, sc_info. cbn [i_value].
      destruct Hnk as [(Kx & _ & _ & _ & Kv)|(Hk & e & l & He & Hev & Hkl)]; [apply MSpecI_ext; assumption|].
      eapply MSpecI_exec; eauto.
      eapply evr_msev; [exact Hev|]. intros d x _ Hx. apply HfrS. exact Hx.
    + eapply mi_V; eauto. congruence.
  - (* mi_PV *)
    intros x Hx. unfold s' in Hx. rewrite set_computed_visited in Hx. right.
    destruct (node_eq_dec x n) as [->|Hne]; [left; exact Hvern|].
    destruct (mi_PV _ _ _ _ _ _ _ HI x Hx) as [K|[K|[Kin K]]]; [exfalso; apply Hne; apply HEx; exact K|left; apply Hver1; exact K|].
    destruct (in_dec node_eq_dec x keys) as [Hk0|Hk0].
    + left. destruct (Hentry x Hk0) as [j (J1 & J2 & _)]. apply Hver1. exists j. auto.
    + right. split; [exact Kin|]. intros c Hc. apply Hcal in Hc. destruct Hc as [[Hc Hc2]|[_ Hc]]; [|contradiction].
      destruct (K c Hc) as [K1 K2]. split.
      * apply Hd. split; [exact K1|]. intros (_ & -> & K3). apply Hc2. auto.
      * intro Hn. unfold s'. rewrite set_computed_visited. auto.
  - (* mi_X *)
    intros x Hx. apply in_app_or in Hx. destruct Hx as [Hx|Hx].
    + destruct (mi_X _ _ _ _ _ _ _ HI x Hx) as [K1 K2]. split; [exact K1|].
      destruct (node_eq_dec x n) as [->|Hne]; [left; exact Hvern|].
      destruct K2 as [K2|(cal & i & ci & v0 & t & A & B & C & D & E)]; [left; apply Hver1; exact K2|right].
      assert (Hcn : cal <> n) by (intros ->; apply Hnv; exists ci; auto).
      exists cal, i, ci, v0, t. rewrite (Hgetne x Hne), (Hgetne cal Hcn), Hts. auto.
    + destruct (HY x Hx) as (K1 & K2 & i & ov & t & A & B & C). split; [exact K1|right].
      exists n, i, ni, ov, t. rewrite (Hgetne x K2), Hgetn, Hts. split; [exact A|]. split; [exact B|].
      split; [reflexivity|]. split; [reflexivity|]. unfold ni, sc_info. cbn [i_value]. congruence.
  - (* mi_J *)
    intros m Hm. unfold s' in Hm. rewrite set_computed_log in Hm. eapply mi_J; eauto.
  - (* mi_U *)
    intro m. destruct (node_eq_dec m n) as [->|Hne]; [left; exact Hvern|].
    rewrite (Hgetne m Hne). destruct (mi_U _ _ _ _ _ _ _ HI m) as [K|K]; [left; apply Hver1; exact K|right; exact K].
  - (* mi_O *)
    intros m i Hi. unfold s'. rewrite set_computed_log. destruct (node_eq_dec m n) as [->|Hne]; [left; exact Hlogn|].
    rewrite (Hgetne m Hne) in Hi. eapply mi_O; eauto.
  - (* mi_W *)
    intros k Hk0. unfold s' in *. unfold world_get. rewrite set_computed_world.
    apply (mi_W _ _ _ _ _ _ _ HI). rewrite Hget in Hk0. destruct (node_eqb n (ext_node k)); [discriminate|exact Hk0].
  - (* mi_ext *)
    intros e He0. unfold s' in He0. apply set_computed_ext_In in He0. destruct He0 as [K|[-> K]]; [|exact K].
    eapply mi_ext; eauto. }
  (* MKeeps *)
  intros Hns d i Hi HS. destruct (node_eq_dec d n) as [->|Hne]; [destruct Hns; [contradiction|congruence]|].
  exists i. split; [rewrite (Hgetne d Hne); exact Hi|repeat split].
Qed.
End Exec.
