(** The state invariant of the core engine model and its preservation by the three state
    updates of a request ([cset_computed], [cclean]) -- the commit of an input session is
    in [Engine/CoreInvCommit.v]. *)
From QV Require Import Common.Prelude Engine.Model Engine.Core Engine.CoreSpec
  Engine.CoreInvBase Engine.CoreInvSem.
Open Scope Z_scope.

Section Inv.
Variable p : program.

Definition obsR (i : cinfo) (d : node) (v : Z) : Prop := alookup (c_obs i) d = Some v.
Definition frR (fr : cframe) (d : node) (v : Z) : Prop := alookup fr d = Some (Some v).

Record CInv (inp : inputs) (s : cstate) : Prop := {
  (* stored nodes are inputs holding the committed value, or normal queries whose value is
     the replay of their body against the recorded observations *)
  ci_kind : forall n i, cget s n = Some i ->
     (nkind n = KInput /\ c_fwd i = [] /\ input_get inp (nidx n) = Some (c_value i))
     \/ (nkind n = KNormal /\ exists e, alookup p n = Some e /\ ev (obsR i) e (c_value i) /\
          (forall d, In d (c_fwd i) -> In d (expr_reads e)));
  ci_obs : forall n i d, cget s n = Some i -> In d (c_fwd i) -> exists v, alookup (c_obs i) d = Some v;
  ci_obs_fwd : forall n i d v, cget s n = Some i -> alookup (c_obs i) d = Some v -> In d (c_fwd i);
  ci_target : forall n i d, cget s n = Some i -> In d (c_fwd i) -> cget s d <> None;
  (* backward edges mirror forward edges *)
  ci_bwd : forall n d, In n (ccallers s d) <-> exists i, cget s n = Some i /\ In d (c_fwd i);
  (* dirty marks sit on existing edges, are closed upward, and are absent below verified nodes *)
  ci_dirty_edge : forall a b, dirty s a b -> exists i, cget s a = Some i /\ In b (c_fwd i);
  ci_up : forall n i d d', cget s n = Some i -> In d (c_fwd i) -> dirty s d d' -> dirty s n d;
  ci_ver_clean : forall n x, verified s n -> ~ dirty s n x;
  (* a clean edge carries the from-scratch value of its target *)
  ci_sem : forall n i d, cget s n = Some i -> In d (c_fwd i) -> ~ dirty s n d ->
             exists v, alookup (c_obs i) d = Some v /\ SpecI p inp d v;
  (* a node verified in this epoch holds its from-scratch value *)
  ci_ver_sound : forall n i, cget s n = Some i -> c_verified i = cs_ts s -> SpecI p inp n (c_value i);
  ci_ts : forall n i, cget s n = Some i -> (c_verified i <= cs_ts s)%N;
}.

Lemma CInv_log : forall inp s l, CInv inp s -> CInv inp (cset_log s l).
Proof. intros inp s l H. destruct H. split; assumption. Qed.

Lemma CInv_log_inv : forall inp s l, CInv inp (cset_log s l) -> CInv inp s.
Proof. intros inp s l H. destruct H. split; assumption. Qed.

Lemma CInv_restart : forall inp s, CInv inp s -> CInv inp (crestart s).
Proof. intros inp s H. destruct H. split; assumption. Qed.

Lemma CInv_init : CInv [] cinit.
Proof.
  split; try (intros; discriminate); try (intros; contradiction).
  - intros n d. split; [intros []|]. intros [i [H _]]. discriminate.
  - intros n x [i [H _]]. discriminate.
Qed.

(** replaying a stored normal node against observations that are from-scratch values *)
Lemma replay_sound : forall inp inp' s n i,
  CInv inp s -> cget s n = Some i -> nkind n = KNormal ->
  (forall d, In d (c_fwd i) -> exists v, alookup (c_obs i) d = Some v /\ SpecI p inp' d v) ->
  SpecI p inp' n (c_value i).
Proof.
  intros inp inp' s n i HI Hi Hk Hobs.
  destruct (ci_kind _ _ HI n i Hi) as [[K _]|[_ [e [He [Hev _]]]]]; [congruence|].
  eapply SpecI_normal; eauto. eapply ev_sev; [exact Hev|].
  intros d x _ Hx. unfold obsR in Hx.
  destruct (Hobs d (ci_obs_fwd _ _ HI _ _ _ _ Hi Hx)) as [v [Hv Hs]].
  assert (x = v) by congruence. subst. exact Hs.
Qed.

(** a frame all of whose entries are values of nodes verified in this epoch *)
Definition FrOk (s : cstate) (fr : cframe) : Prop :=
  forall d, In d (map fst fr) ->
    exists x i, alookup fr d = Some (Some x) /\ cget s d = Some i /\
                c_verified i = cs_ts s /\ c_value i = x.

Lemma frR_SpecI : forall inp s fr d x, CInv inp s -> FrOk s fr -> frR fr d x -> SpecI p inp d x.
Proof.
  intros inp s fr d x HI Hfr Hx. unfold frR in Hx.
  destruct (Hfr d (alookup_keys _ _ _ Hx)) as [x' [i (A & B & C & D)]].
  assert (E : x = c_value i) by congruence. rewrite E. eapply ci_ver_sound; eauto.
Qed.

Lemma CInv_set_computed : forall inp s n e v fr rc,
  CInv inp s ->
  nkind n = KNormal -> alookup p n = Some e ->
  ev (frR fr) e v ->
  (forall d, In d (map fst fr) -> In d (expr_reads e)) ->
  FrOk s fr ->
  ~ In n (map fst fr) ->
  (rc = true \/ cget s n = None) ->
  CInv inp (cset_computed s n v fr rc).
Proof.
  intros inp s n e v fr rc HI Hk He Hev Hkeys Hfr Hself Hrc.
  set (s' := cset_computed s n v fr rc).
  assert (Hget : forall m, cget s' m = if node_eqb n m then Some (mkCInfo (cs_ts s) v (map fst fr) (cobserved fr)) else cget s m)
    by (intro m; apply cset_computed_cget).
  assert (Hts : cs_ts s' = cs_ts s) by apply cset_computed_ts.
  assert (Hd : forall a b, dirty s' a b <-> dirty s a b /\ ~ (rc = true /\ a = n /\ In b (old_fwd s n)))
    by (intros; apply cset_computed_dirty).
  assert (Hnd : forall b, ~ dirty s' n b).
  { intros b K. apply Hd in K. destruct K as [K1 K2].
    destruct (ci_dirty_edge _ _ HI _ _ K1) as [i [Hi Hb]].
    destruct Hrc as [->|Hn]; [|congruence]. apply K2. unfold old_fwd. rewrite Hi. auto. }
  assert (Hdne : forall a b, a <> n -> (dirty s' a b <-> dirty s a b)).
  { intros a b Hne. rewrite Hd. split; [tauto|]. intro K. split; [exact K|]. intros (_ & K1 & _). contradiction. }
  assert (HfrS : forall d x, frR fr d x -> SpecI p inp d x).
  { intros d x Hx. unfold frR in Hx. destruct (Hfr d (alookup_keys _ _ _ Hx)) as [x' [i (A & B & C & D)]].
    assert (E : x = c_value i) by congruence. rewrite E. eapply ci_ver_sound; eauto. }
  split.
  - intros m i Hi. rewrite Hget in Hi. destruct (node_eqb_spec n m) as [<-|Hne].
    + inversion Hi. subst i. cbn [c_value c_fwd c_obs]. right. split; [exact Hk|]. exists e.
      split; [exact He|]. split; [|exact Hkeys].
      eapply ev_mono; [exact Hev|]. intros d x _ Hx. unfold obsR. cbn [c_obs].
      apply cobserved_lookup. exact Hx.
    + eapply ci_kind; eauto.
  - intros m i d Hi Hdm. rewrite Hget in Hi. destruct (node_eqb_spec n m) as [<-|Hne].
    + inversion Hi. subst i. cbn [c_fwd c_obs] in *. destruct (Hfr d Hdm) as [x [j (A & _)]].
      exists x. apply cobserved_lookup. exact A.
    + eapply ci_obs; eauto.
  - intros m i d x Hi Hx. rewrite Hget in Hi. destruct (node_eqb_spec n m) as [<-|Hne].
    + inversion Hi. subst i. cbn [c_fwd c_obs] in *. eapply cobserved_keys. exact Hx.
    + eapply ci_obs_fwd; eauto.
  - intros m i d Hi Hdm. rewrite Hget. destruct (node_eqb n d); [congruence|].
    rewrite Hget in Hi. destruct (node_eqb_spec n m) as [<-|Hne].
    + inversion Hi. subst i. cbn [c_fwd] in Hdm. destruct (Hfr d Hdm) as [x [j (_ & B & _)]]. congruence.
    + eapply ci_target; eauto.
  - intros m d. unfold s'. rewrite cset_computed_callers. fold s'.
    destruct (node_eqb_spec n m) as [<-|Hne].
    + split.
      * intros [[K1 K2]|[_ K]].
        -- exfalso. apply K2. split; [reflexivity|]. apply (ci_bwd _ _ HI) in K1.
           destruct K1 as [i [Hi Hdi]]. unfold old_fwd. rewrite Hi. exact Hdi.
        -- eexists. rewrite Hget, node_eqb_refl. split; [reflexivity|]. exact K.
      * intros [i [Hi Hdi]]. rewrite Hget, node_eqb_refl in Hi. inversion Hi. subst i.
        right. split; [reflexivity|exact Hdi].
    + rewrite Hget. apply node_eqb_neq in Hne. rewrite Hne. apply node_eqb_neq in Hne.
      rewrite (ci_bwd _ _ HI). split.
      * intros [[K _]|[K _]]; [exact K|congruence].
      * intro K. left. split; [exact K|]. intros [K1 _]. congruence.
  - intros a b K. destruct (node_eqb_spec n a) as [<-|Hne]; [exfalso; eapply Hnd; eauto|].
    apply Hdne in K; [|auto]. destruct (ci_dirty_edge _ _ HI _ _ K) as [i [Hi Hb]].
    exists i. rewrite Hget. apply node_eqb_neq in Hne. rewrite Hne. auto.
  - intros m i d d' Hi Hdm K. rewrite Hget in Hi. destruct (node_eqb_spec n m) as [<-|Hne].
    + exfalso. inversion Hi. subst i. cbn [c_fwd] in Hdm.
      destruct (Hfr d Hdm) as [x [j (_ & B & C & _)]].
      apply Hd in K. destruct K as [K _]. eapply (ci_ver_clean _ _ HI d d'); [|exact K].
      exists j. auto.
    + apply Hdne; [auto|]. apply Hd in K. destruct K as [K _]. eapply ci_up; eauto.
  - intros m x [i [Hi Hv]] K. destruct (node_eqb_spec n m) as [<-|Hne]; [eapply Hnd; eauto|].
    apply Hdne in K; [|auto]. rewrite Hget in Hi. apply node_eqb_neq in Hne. rewrite Hne in Hi.
    eapply (ci_ver_clean _ _ HI m x); [|exact K]. exists i. split; [exact Hi|congruence].
  - intros m i d Hi Hdm K. rewrite Hget in Hi. destruct (node_eqb_spec n m) as [<-|Hne].
    + inversion Hi. subst i. cbn [c_fwd c_obs] in *. destruct (Hfr d Hdm) as [x [j (A & B & C & D)]].
      exists x. split; [apply cobserved_lookup; exact A|]. apply HfrS. exact A.
    + apply (ci_sem _ _ HI m i d Hi Hdm). intro K'. apply K. apply Hdne; auto.
  - intros m i Hi Hv. rewrite Hget in Hi. destruct (node_eqb_spec n m) as [<-|Hne].
    + inversion Hi. subst i. cbn [c_value]. eapply SpecI_normal; eauto.
      eapply ev_sev; [exact Hev|]. intros d x _ Hx. apply HfrS. exact Hx.
    + eapply ci_ver_sound; eauto. congruence.
  - intros m i Hi. rewrite Hget in Hi. rewrite Hts. destruct (node_eqb_spec n m) as [<-|Hne].
    + inversion Hi. cbn [c_verified]. lia.
    + eapply ci_ts; eauto.
Qed.

Lemma CInv_clean : forall inp s n i cl,
  CInv inp s -> cget s n = Some i ->
  (forall d, dirty s n d -> In d cl) ->
  (forall d, In d cl -> In d (c_fwd i) /\ (forall x, ~ dirty s d x) /\
             exists v, alookup (c_obs i) d = Some v /\ SpecI p inp d v) ->
  CInv inp (cclean s n cl).
Proof.
  intros inp s n i cl HI Hi Hall Hcl.
  set (s' := cclean s n cl).
  assert (Hget : forall m, cget s' m = if node_eqb n m then Some (mkCInfo (cs_ts s) (c_value i) (c_fwd i) (c_obs i)) else cget s m)
    by (intro m; apply cclean_cget; exact Hi).
  assert (Hts : cs_ts s' = cs_ts s) by apply cclean_ts.
  assert (Hd : forall a b, dirty s' a b <-> dirty s a b /\ ~ (a = n /\ In b cl))
    by (intros; eapply cclean_dirty; eauto).
  assert (Hnd : forall b, ~ dirty s' n b).
  { intros b K. apply Hd in K. destruct K as [K1 K2]. apply K2. split; [reflexivity|]. apply Hall. exact K1. }
  (* every stored entry of s' has the forward edges / observations / value of the entry of s *)
  assert (Hsame : forall m j, cget s' m = Some j ->
            exists j0, cget s m = Some j0 /\ c_fwd j = c_fwd j0 /\ c_obs j = c_obs j0 /\ c_value j = c_value j0
                       /\ (m <> n -> j = j0)).
  { intros m j Hj. rewrite Hget in Hj. destruct (node_eqb_spec n m) as [<-|Hne].
    - inversion Hj. exists i. cbn. intuition.
    - exists j. intuition. }
  split.
  - intros m j Hj. destruct (Hsame m j Hj) as [j0 (A & B & C & D & _)].
    destruct (ci_kind _ _ HI m j0 A) as [K|[K1 [e [K2 [K3 K4]]]]].
    + left. rewrite B, D. exact K.
    + right. split; [exact K1|]. exists e. split; [exact K2|]. rewrite B, D. split; [|exact K4].
      eapply ev_mono; [exact K3|]. intros d x _. unfold obsR. rewrite C. auto.
  - intros m j d Hj Hdm. destruct (Hsame m j Hj) as [j0 (A & B & C & D & _)]. rewrite C.
    rewrite B in Hdm. eapply ci_obs; eauto.
  - intros m j d x Hj Hx. destruct (Hsame m j Hj) as [j0 (A & B & C & D & _)]. rewrite B.
    rewrite C in Hx. eapply ci_obs_fwd; eauto.
  - intros m j d Hj Hdm. destruct (Hsame m j Hj) as [j0 (A & B & C & D & _)]. rewrite B in Hdm.
    rewrite Hget. destruct (node_eqb n d); [congruence|]. eapply ci_target; eauto.
  - intros m d. unfold s'. rewrite cclean_callers. fold s'. rewrite (ci_bwd _ _ HI). split.
    + intros [j [Hj Hdj]]. rewrite Hget. destruct (node_eqb_spec n m) as [<-|Hne].
      * eexists. split; [reflexivity|]. cbn [c_fwd]. congruence.
      * exists j. auto.
    + intros [j [Hj Hdj]]. destruct (Hsame m j Hj) as [j0 (A & B & _)]. exists j0. rewrite <- B. auto.
  - intros a b K. apply Hd in K. destruct K as [K _]. destruct (ci_dirty_edge _ _ HI _ _ K) as [j [Hj Hb]].
    rewrite Hget. destruct (node_eqb_spec n a) as [<-|Hne].
    + eexists. split; [reflexivity|]. cbn [c_fwd]. congruence.
    + exists j. auto.
  - intros m j d d' Hj Hdm K. destruct (Hsame m j Hj) as [j0 (A & B & _)]. rewrite B in Hdm.
    apply Hd in K. destruct K as [K _]. apply Hd. split; [eapply ci_up; eauto|].
    intros [-> Hc]. destruct (Hcl d Hc) as (_ & X & _). eapply X; eauto.
  - intros m x [j [Hj Hv]] K. destruct (node_eqb_spec n m) as [<-|Hne]; [eapply Hnd; eauto|].
    apply Hd in K. destruct K as [K _]. rewrite Hget in Hj. apply node_eqb_neq in Hne. rewrite Hne in Hj.
    eapply (ci_ver_clean _ _ HI m x); [|exact K]. exists j. split; [exact Hj|congruence].
  - intros m j d Hj Hdm K. destruct (Hsame m j Hj) as [j0 (A & B & C & _ & E)]. rewrite B in Hdm. rewrite C.
    destruct (node_eqb_spec m n) as [->|Hne].
    + assert (j0 = i) by congruence. subst j0.
      destruct (in_dec node_eq_dec d cl) as [Hc|Hc].
      * apply Hcl. exact Hc.
      * apply (ci_sem _ _ HI n i d Hi Hdm). intro K'. apply K. apply Hd. split; [exact K'|]. intros [_ K2]. contradiction.
    + apply (ci_sem _ _ HI m j0 d A Hdm). intro K'. apply K. apply Hd. split; [exact K'|]. intros [K2 _]. contradiction.
  - intros m j Hj Hv. destruct (Hsame m j Hj) as [j0 (A & B & C & D & E)]. rewrite D.
    destruct (node_eqb_spec m n) as [->|Hne].
    + assert (j0 = i) by congruence. subst j0.
      destruct (ci_kind _ _ HI n i Hi) as [(K1 & K2 & K3)|[K1 _]].
      * apply SpecI_input; assumption.
      * eapply replay_sound; eauto. intros d Hdi.
        destruct (in_dec node_eq_dec d cl) as [Hc|Hc].
        -- apply Hcl. exact Hc.
        -- eapply ci_sem; eauto.
    + rewrite (E Hne) in Hv. eapply ci_ver_sound; eauto. congruence.
  - intros m j Hj. rewrite Hget in Hj. rewrite Hts. destruct (node_eqb_spec n m) as [<-|Hne].
    + inversion Hj. cbn [c_verified]. lia.
    + eapply ci_ts; eauto.
Qed.
End Inv.
