(** Specification side for the core engine model: the from-scratch evaluator, the inputs
    committed by a history, well-formed (acyclic, normal-only) programs, and the statements
    of C01 / C03 for the core fragment.  Proofs are in [Engine/CoreSound.v]. *)
From QV Require Import Common.Prelude Engine.Model Engine.Core.
Open Scope Z_scope.

Definition inputs := list (N * Z).
Definition input_get (inp : inputs) (i : N) : option Z :=
  match find (fun '(k, _) => (k =? i)%N) inp with Some (_, v) => Some v | None => None end.
Definition input_set (inp : inputs) (i : N) (v : Z) : inputs :=
  (i, v) :: filter (fun '(k, _) => negb (k =? i)%N) inp.

(** from-scratch evaluation (the oracle of C01), by fuel *)
Fixpoint sexpr (fuel : nat) (p : program) (inp : inputs) (e : expr) {struct fuel} : option Z :=
  match fuel with
  | O => None
  | S f =>
    match e with
    | EConst z => Some z
    | ERead n =>
        match nkind n with
        | KInput => input_get inp (nidx n)
        | KNormal => do b <- alookup p n; sexpr f p inp b
        | _ => None
        end
    | EAdd a b => do x <- sexpr f p inp a; do y <- sexpr f p inp b; Some (x + y)
    | EMul a b => do x <- sexpr f p inp a; do y <- sexpr f p inp b; Some (x * y)
    | ELt a b => do x <- sexpr f p inp a; do y <- sexpr f p inp b; Some (if x <? y then 1 else 0)
    | EMod a m => do x <- sexpr f p inp a; Some (x mod m)
    | EIf c a b => do x <- sexpr f p inp c; sexpr f p inp (if x =? 0 then b else a)
    | EGroup _ => None
    end
  end.
Definition Spec (p : program) (inp : inputs) (n : node) (v : Z) : Prop :=
  exists fuel, sexpr fuel p inp (ERead n) = Some v.

(** the dependencies the from-scratch evaluation of [e] requests, in order (data-dependent) *)
Fixpoint sreads (fuel : nat) (p : program) (inp : inputs) (e : expr) {struct fuel} : list node :=
  match fuel with
  | O => []
  | S f =>
    match e with
    | EConst _ | EGroup _ => []
    | ERead n => [n]
    | EAdd a b | EMul a b | ELt a b =>
        sreads f p inp a ++ match sexpr f p inp a with Some _ => sreads f p inp b | None => [] end
    | EMod a _ => sreads f p inp a
    | EIf c a b =>
        sreads f p inp c ++
        match sexpr f p inp c with Some x => sreads f p inp (if x =? 0 then b else a) | None => [] end
    end
  end.
Definition Reads (p : program) (inp : inputs) (n : node) (d : node) : Prop :=
  exists fuel b, alookup p n = Some b /\ In d (sreads fuel p inp b).

(** inputs committed by a history *)
Definition apply_op (inp : inputs) (o : op) : inputs :=
  match o with
  | OSession sets _ => fold_left (fun acc '(i, v) => input_set acc i v) sets inp
  | _ => inp
  end.
Definition inputs_after (ops : list op) : inputs := fold_left apply_op ops [].

(** well-formed core programs *)
Fixpoint expr_reads (e : expr) : list node :=
  match e with
  | EConst _ => []
  | ERead n => [n]
  | EAdd a b | EMul a b | ELt a b => expr_reads a ++ expr_reads b
  | EMod a _ => expr_reads a
  | EIf c a b => expr_reads c ++ expr_reads a ++ expr_reads b
  | EGroup ns => ns
  end.
Fixpoint no_group (e : expr) : bool :=
  match e with
  | EConst _ | ERead _ => true
  | EAdd a b | EMul a b | ELt a b => no_group a && no_group b
  | EMod a _ => no_group a
  | EIf c a b => no_group c && no_group a && no_group b
  | EGroup _ => false
  end.
Record wf_core (p : program) : Prop := {
  wf_keys : forall n e, In (n, e) p -> nkind n = KNormal /\ no_group e = true;
  wf_nodup : NoDup (map fst p);
  wf_targets : forall n e d, In (n, e) p -> In d (expr_reads e) ->
                 nkind d = KInput \/ (nkind d = KNormal /\ alookup p d <> None);
  (* acyclic: a rank strictly decreasing along every possible read *)
  wf_rank : exists rank : node -> nat, forall n e d, In (n, e) p -> In d (expr_reads e) ->
                 nkind d = KNormal -> (rank d < rank n)%nat;
}.

(** Fuel is a model artefact (the code has none).  When the dirty propagation of a session
    runs out of fuel the model answers [RFuel] and keeps the inputs WITHOUT the dirt, so
    later answers can be stale; the statements therefore assume that no session before the
    operation of interest answered [RFuel] ([C01_core_statement_unguarded_refuted] in
    [Engine/CoreSound.v] shows the hypothesis is needed). *)
Definition sessions_fuelled (fuel : nat) (p : program) (ops : list op) (i : nat) : Prop :=
  forall k sets b rk, (k < i)%nat -> nth_error ops k = Some (OSession sets b) ->
    nth_error (crun_history_f fuel p cinit ops) k = Some rk -> r_out rk <> RFuel.

(** * C01 on the core fragment: every answer of the engine is the from-scratch value for the
    inputs committed so far, for every program, every history and every amount of fuel *)
Definition C01_core_statement : Prop :=
  forall fuel p ops i n r z, wf_core p -> sessions_fuelled fuel p ops i ->
    nth_error ops i = Some (OQuery n) ->
    nth_error (crun_history_f fuel p cinit ops) i = Some r ->
    r_out r = RValue z ->
    Spec p (inputs_after (firstn i ops)) n z.
Definition C01_core_statement_unguarded : Prop :=
  forall fuel p ops i n r z, wf_core p ->
    nth_error ops i = Some (OQuery n) ->
    nth_error (crun_history_f fuel p cinit ops) i = Some r ->
    r_out r = RValue z ->
    Spec p (inputs_after (firstn i ops)) n z.

(** the engine never panics or gets stuck on well-formed programs once every input the
    program can read has been set (running out of fuel is the only other outcome) *)
Definition inputs_cover (p : program) (inp : inputs) : Prop :=
  forall n e d, In (n, e) p -> In d (expr_reads e) -> nkind d = KInput -> input_get inp (nidx d) <> None.
Definition C01_core_no_panic_statement : Prop :=
  forall fuel p ops i n r, wf_core p ->
    nth_error ops i = Some (OQuery n) -> alookup p n <> None ->
    nth_error (crun_history_f fuel p cinit ops) i = Some r ->
    inputs_cover p (inputs_after (firstn i ops)) ->
    (exists z, r_out r = RValue z) \/ r_out r = RFuel.

(** * C03 on the core fragment *)
(** index of the last operation before [i] whose execution list contains [m] *)
Definition executed_at (rs : list opres) (j : nat) (m : node) : Prop :=
  exists r, nth_error rs j = Some r /\ In m (r_execs r).

(** justification: a node executed at operation [i] that had been executed before (last at
    [j]) read, at that time, some dependency whose from-scratch value is different now *)
Definition C03_core_justified_statement : Prop :=
  forall fuel p ops i j m, wf_core p -> sessions_fuelled fuel p ops i ->
    let rs := crun_history_f fuel p cinit ops in
    executed_at rs i m -> (j < i)%nat -> executed_at rs j m ->
    (forall k, (j < k < i)%nat -> ~ executed_at rs k m) ->
    exists d, Reads p (inputs_after (firstn (S j) ops)) m d /\
              forall v, Spec p (inputs_after (firstn (S j) ops)) d v ->
                        ~ Spec p (inputs_after (firstn (S i) ops)) d v.

Definition C03_core_justified_statement_unguarded : Prop :=
  forall fuel p ops i j m, wf_core p ->
    let rs := crun_history_f fuel p cinit ops in
    executed_at rs i m -> (j < i)%nat -> executed_at rs j m ->
    (forall k, (j < k < i)%nat -> ~ executed_at rs k m) ->
    exists d, Reads p (inputs_after (firstn (S j) ops)) m d /\
              forall v, Spec p (inputs_after (firstn (S j) ops)) d v ->
                        ~ Spec p (inputs_after (firstn (S i) ops)) d v.

(** at most once between two input sessions, and at most once within one request *)
Definition no_session_between (ops : list op) (j i : nat) : Prop :=
  forall k sets b, (j <= k <= i)%nat -> nth_error ops k <> Some (OSession sets b).
Definition C03_core_once_statement : Prop :=
  forall fuel p ops i j m r, wf_core p ->
    let rs := crun_history_f fuel p cinit ops in
    (nth_error rs i = Some r -> NoDup (r_execs r)) /\
    ((j < i)%nat -> executed_at rs i m -> executed_at rs j m -> ~ no_session_between ops j i).
