(** One request of the full engine model does not touch the world ([s_world]): it only reads it
    when an external input is executed. *)
From QV Require Import Common.Prelude Engine.Model Engine.Core Engine.CoreSpec Engine.CoreInvBase Engine.Fw Engine.FwBase
  Engine.FwMono Engine.MdlBase Engine.MdlInvExec Engine.MdlInvClean.
Open Scope Z_scope.

(** ... and it keeps the list of the external inputs computed so far duplicate-free *)
Definition Wd (s s' : state) : Prop := s_world s' = s_world s /\ (NoDup (s_ext s) -> NoDup (s_ext s')).
Lemma Wd_refl : forall s, Wd s s.
Proof. intro s. split; auto. Qed.
Lemma Wd_trans : forall s s1 s2, Wd s s1 -> Wd s1 s2 -> Wd s s2.
Proof. intros s s1 s2 [A1 A2] [B1 B2]. split; [congruence|auto]. Qed.
Lemma Wd_same : forall s s', s_world s' = s_world s -> s_ext s' = s_ext s -> Wd s s'.
Proof. intros s s' A B. split; [exact A|rewrite B; auto]. Qed.

Section World.
Variable p : program.
Variables tord bord pord : state -> node -> list node -> list node.

Notation mquery := (query_for_o p None tord bord pord).
Notation mexecute := (execute_o p None tord bord pord).
Notation meval := (eval_o p None tord bord pord).
Notation mrepair := (repair_o p None tord bord pord).
Notation mbackward := (backward_o p None tord bord pord).

Definition mworld_query (f : nat) : Prop :=
  forall stk c fr n s o fr' m' s', mquery f stk c fr n s = Ok (o, fr', m', s') -> Wd s s'.
Definition mworld_execute (f : nat) : Prop :=
  forall stk c n rc fr0 s m' s', mexecute f stk c n rc fr0 s = Ok (m', s') ->
    Wd s s'.
Definition mworld_eval (f : nat) : Prop :=
  forall stk me e fr s o fr' m' s', meval f stk me e fr s = Ok (o, fr', m', s') -> Wd s s'.
Definition mworld_repair (f : nat) : Prop :=
  forall stk c n s m' s', mrepair f stk c n s = Ok (m', s') ->
    Wd s s'.
Definition mworld_backward (f : nat) : Prop :=
  forall stk n s s', mbackward f stk n s = Ok s' -> Wd s s'.

Lemma mworld_tfc : forall f stk, mworld_query f ->
  forall ts s s', mtfc p tord bord pord f stk ts s = Ok s' -> Wd s s'.
Proof.
  intros f stk IHq. induction ts as [|t r IH]; intros s s' H; cbn [mtfc] in H.
  - inversion H. subst. apply Wd_refl.
  - destruct (mquery f stk CRepairFirewall None t s) as [[[[o fr'] m'] s1]| | |] eqn:Eq; try discriminate.
    apply IHq in Eq. eapply Wd_trans; [exact Eq|]. apply IH. exact H.
Qed.
Lemma mworld_bp : forall f stk, mworld_query f ->
  forall ts s s', mbp p tord bord pord f stk ts s = Ok s' -> Wd s s'.
Proof.
  intros f stk IHq. induction ts as [|t r IH]; intros s s' H; cbn [mbp] in H.
  - inversion H. subst. apply Wd_refl.
  - destruct (mquery f stk CBPP None t s) as [[[[o fr'] m'] s1]| | |] eqn:Eq; try discriminate.
    apply IHq in Eq. eapply Wd_trans; [exact Eq|]. apply IH. exact H.
Qed.

Lemma mworld_walk : forall f n stk pd i, mworld_query f ->
  forall cs rtfc cleaned fr ms s d fr' ms' s1,
    mwalk p tord bord pord f n stk pd i cs rtfc cleaned fr ms s = Ok (d, fr', ms', s1) -> Wd s s1.
Proof.
  intros f n stk pd i IHq. induction cs as [|cal r IH]; intros rtfc cleaned fr ms s d fr' ms' s1 H; cbn [mwalk] in H.
  - inversion H. subst. apply Wd_refl.
  - cbv zeta in H. destruct (negb (emem (n, cal) (s_dirty s)) && negb pd && negb (kind_eqb (nkind n) KProjection)).
    + eapply IH. exact H.
    + destruct (alookup (i_obs i) cal) as [[ov otfc]|] eqn:Eo.
      2:{ inversion H. subst. apply Wd_refl. }
      destruct (kind_eqb (nkind cal) KInput).
      * destruct (get_info s cal) as [ci|]; [|discriminate].
        destruct (negb (i_value ci =? ov)).
        -- inversion H. subst. apply Wd_refl.
        -- eapply IH. exact H.
      * match type of H with context [query_for_o p None tord bord pord f ?a ?b ?c ?d ?e] =>
          destruct (query_for_o p None tord bord pord f a b c d e) as [[[[o fr1] m1] s']| | |] eqn:Eq; try discriminate end.
        apply IHq in Eq.
        destruct (get_info s' cal) as [ci|]; [|discriminate].
        destruct (negb (i_value ci =? ov)).
        -- inversion H. subst. exact Eq.
        -- eapply Wd_trans; [exact Eq|]. eapply IH. exact H.
Qed.

Lemma mworld_all : forall f, mworld_query f /\ mworld_execute f /\ mworld_eval f /\ mworld_repair f /\ mworld_backward f.
Proof.
  induction f as [|f (IHq & IHx & IHe & IHr & IHb)].
  - split; [|split; [|split; [|split]]]; red; intros;
      match goal with H : _ = Ok _ |- _ => cbn in H; discriminate H end.
  - assert (Hq : mworld_query (S f)).
    { red. intros stk c fr n s o fr' m' s' H. rewrite query_for_S in H. cbv zeta in H.
      set (c' := fq_caller c n s) in *.
      destruct (mq_reg c' fr n) as [fr1| | |] eqn:Er; try discriminate.
      destruct (nmem n stk) eqn:Es.
      { destruct c'; inversion H; subst; apply Wd_refl. }
      apply nmem_false in Es.
      destruct (fast_path s c' fr1 n) as [[v|sp] fr2] eqn:Ef.
      { inversion H. subst. apply Wd_refl. }
      pose proof (fast_path_slow _ _ _ _ _ _ Ef) as Hsp.
      destruct (mq_tfc p tord bord pord f stk c' sp n s) as [s1| | |] eqn:Et; try discriminate.
      assert (M1 : Wd s s1).
      { unfold mq_tfc in Et. destruct c'; destruct sp; try (inversion Et; subst; apply Wd_refl);
          (destruct (get_info s n); [|inversion Et; subst; apply Wd_refl]);
          eapply mworld_tfc; eauto. }
      destruct (mq_process p tord bord pord f stk c' sp n s1) as [[marks s2]| | |] eqn:Ep; try discriminate.
      assert (M2 : Wd s1 s2).
      { assert (Hgen : match get_info s1 n with
                       | Some i => if (i_verified i =? s_ts s1)%N then Ok ([], s1) else mrepair f stk c' n s1
                       | None => mexecute f stk c' n false empty_frame s1 end = Ok (marks, s2) -> Wd s1 s2).
        { intro Ep0. destruct (get_info s1 n) as [i|] eqn:Ei.
          + destruct (i_verified i =? s_ts s1)%N eqn:Ev.
            * inversion Ep0. subst. apply Wd_refl.
            * eapply IHr; eauto.
          + eapply IHx; eauto. }
        destruct sp; [apply Hgen; exact Ep|apply Hgen; exact Ep|].
        unfold mq_process in Ep. destruct (get_info s1 n) as [i|] eqn:Ei; [|inversion Ep; subst; apply Wd_refl].
        match type of Ep with (if ?b then _ else _) = _ => destruct b end; [|inversion Ep; subst; apply Wd_refl].
        destruct (mbackward f stk n s1) as [sb| | |] eqn:Eb; try discriminate. inversion Ep. subst.
        eapply IHb; eauto. }
      destruct (fast_path s2 c' fr1 n) as [[v|sp'] fr2'] eqn:Ef2.
      - inversion H. subst. eapply Wd_trans; eauto.
      - destruct (mquery f stk c' fr1 n s2) as [[[[o3 fr3] m3] s3]| | |] eqn:Eq; try discriminate.
        inversion H. subst. apply IHq in Eq. eapply Wd_trans; [|exact Eq]. eapply Wd_trans; eauto. }
    assert (Hx : mworld_execute (S f)).
    { red. intros stk c n rc fr0 s m' s' H. rewrite execute_S in H. cbv zeta in H.
      match type of H with context [match ?X with Ok _ => _ | OutOfFuel => OutOfFuel | Panic c => Panic c | Stuck => Stuck end] =>
        destruct X as [[[[out fr1] marks] s1]| | |] eqn:Ee; try discriminate end.
      assert (M1 : Wd (set_log s (n :: s_log s)) s1).
      { destruct (nkind n); try discriminate;
          try ((destruct (body p n) eqn:Eb; [|discriminate]); eapply IHe; eauto; fail).
        inversion Ee. subst. apply Wd_refl. }
      match type of H with context [if ?b then ?X else ?Y] =>
        destruct (if b then X else Y) as [s2| | |] eqn:Epr; try discriminate end.
      inversion H. subst.
      assert (K : s_world s2 = s_world s1 /\ s_ext s2 = s_ext s1).
      { repeat match type of Epr with (if ?b then _ else _) = _ => destruct b end;
          try (apply propagate_o_we in Epr; tauto); try (apply propagate_t_o_we in Epr; tauto).
        inversion Epr. auto. }
      destruct K as [K1 K2]. destruct M1 as [M1 M2]. split.
      - rewrite set_computed_world, K1. exact M1.
      - intro Hnd. apply set_computed_ext_NoDup. rewrite K2. apply M2. exact Hnd. }
    assert (He : mworld_eval (S f)).
    { assert (Hbin : forall stk me a b op fr s o fr' m' s',
                mbin p tord bord pord f stk me a b op fr s = Ok (o, fr', m', s') -> Wd s s').
      { intros stk me a b op fr s o fr' m' s' H. unfold mbin in H.
        destruct (meval f stk me a fr s) as [[[[x fr1] m1] s1]| | |] eqn:E1; try discriminate.
        apply IHe in E1. destruct x.
        - destruct (meval f stk me b fr1 s1) as [[[[y fr2] m2] s2]| | |] eqn:E2; try discriminate.
          apply IHe in E2. destruct y; inversion H; subst; eapply Wd_trans; eauto.
        - inversion H. subst. exact E1. }
      assert (Hread : forall stk me n fr s o fr' m' s',
                mread p tord bord pord f stk me n fr s = Ok (o, fr', m', s') -> Wd s s').
      { intros stk me n fr s o fr' m' s' H. unfold mread in H.
        destruct (mquery f stk me (Some fr) n s) as [[[[o1 fr1] m1] s1]| | |] eqn:E1; try discriminate.
        apply IHq in E1. destruct o1 as [[z|]|]; inversion H; subst; exact E1. }
      assert (Hgrp : forall stk me ns acc fr ms s o fr' m' s',
                mgroup p tord bord pord f stk me ns acc fr ms s = Ok (o, fr', m', s') -> Wd s s').
      { intros stk me. induction ns as [|n r IHn]; intros acc fr ms s o fr' m' s' H; cbn [mgroup] in H.
        - inversion H. subst. apply Wd_refl.
        - destruct (mread p tord bord pord f stk me n fr s) as [[[[x fr1] m1] s1]| | |] eqn:E1; try discriminate.
          apply Hread in E1. destruct x.
          + eapply Wd_trans; [exact E1|]. eapply IHn; eauto.
          + inversion H. subst. exact E1. }
      red. intros stk me e fr s o fr' m' s' H.
      rewrite (eval_S p tord bord pord f stk me e fr s) in H. destruct e.
      + inversion H. subst. apply Wd_refl.
      + eapply Hread; eauto.
      + eapply Hbin; eauto.
      + eapply Hbin; eauto.
      + destruct (meval f stk me e fr s) as [[[[x fr1] m1] s1]| | |] eqn:E1; try discriminate.
        apply IHe in E1. destruct x; inversion H; subst; exact E1.
      + eapply Hbin; eauto.
      + destruct (meval f stk me e1 fr s) as [[[[x fr1] m1] s1]| | |] eqn:E1; try discriminate.
        apply IHe in E1. destruct x.
        * match type of H with context [eval_o p None tord bord pord f ?a ?b ?c ?d ?e] =>
            destruct (eval_o p None tord bord pord f a b c d e) as [[[[y fr2] m2] s2]| | |] eqn:E2; try discriminate end.
          apply IHe in E2. inversion H. subst. eapply Wd_trans; eauto.
        * inversion H. subst. exact E1.
      + destruct (mgroup p tord bord pord f stk me ns 0 (fr_set_unordered fr true) [] s) as [[[[x fr1] m1] s1]| | |] eqn:E1; try discriminate.
        inversion H. subst. eapply Hgrp; eauto. }
    assert (Hr : mworld_repair (S f)).
    { red. intros stk c n s m' s' H. rewrite repair_S in H.
      destruct (get_info s n) as [i|] eqn:Eg; [|discriminate]. cbv zeta in H.
      destruct (mwalk p tord bord pord f n stk (x_pedantic c) i (all_callees (i_fwd i)) false [] empty_frame [] s)
        as [[[[d fr1] marks] s1]| | |] eqn:Ew; try discriminate.
      apply (mworld_walk _ _ _ _ _ IHq) in Ew.
      destruct d as [|[|] cl].
      - match type of H with context [execute_o p None tord bord pord f ?a ?b ?c ?d ?e ?g] =>
          destruct (execute_o p None tord bord pord f a b c d e g) as [[m2 s2]| | |] eqn:Ex; try discriminate end.
        inversion H. subst. eapply Wd_trans; [exact Ew|]. eapply IHx; eauto.
      - inversion H. subst. eapply Wd_trans; [exact Ew|]. apply Wd_same; [apply clean_query_world|apply clean_query_ext].
      - inversion H. subst. eapply Wd_trans; [exact Ew|]. apply Wd_same; [apply clean_query_world|apply clean_query_ext]. }
    assert (Hb : mworld_backward (S f)).
    { red. intros stk n s s' H. rewrite backward_S in H. cbv zeta in H.
      destruct (mbp p tord bord pord f stk (bord s n (proj_callers s n)) s) as [s1| | |] eqn:Eb; try discriminate.
      inversion H. subst. pose proof (mworld_bp _ _ IHq _ _ _ Eb) as M1.
      eapply Wd_trans; [exact M1|]. unfold clear_pending. destruct (get_info s1 n); apply Wd_same; reflexivity. }
    auto.
Qed.
End World.
