(** C07 on the core fragment: a restart ([crestart]) resets only the volatile items of the
    state; the invariant of [Engine/CoreInvState.v] mentions persisted columns only, so all
    of [Engine/CoreSound.v] covers histories with restarts at arbitrary positions; and a
    query answered before is served again, with no input session in between (restarts
    allowed), without running any executor and with the same value. *)
From QV Require Import Common.Prelude Engine.Model Engine.Core Engine.CoreSpec
  Engine.CoreInvBase Engine.CoreInvMono Engine.CoreInvState Engine.CoreSound.
Open Scope Z_scope.

Theorem C07_core_restart_persisted : forall s,
  cs_nodes (crestart s) = cs_nodes s /\ cs_bwd (crestart s) = cs_bwd s /\
  cs_dirty (crestart s) = cs_dirty s /\ cs_ts (crestart s) = cs_ts s.
Proof. intro s. repeat split. Qed.

Theorem C07_core_restart_volatile : forall s,
  cs_visited (crestart s) = [] /\ cs_stat (crestart s) = 0%N /\ cs_log (crestart s) = [].
Proof. intro s. repeat split. Qed.

(** [CInv] mentions [cs_nodes], [cs_bwd], [cs_dirty], [cs_ts] only *)
Theorem C07_core_restart_inv : forall p inp s, CInv p inp s -> CInv p inp (crestart s).
Proof. exact CInv_restart. Qed.

Theorem C07_core_restart_step : forall fuel p s,
  cstep_f fuel p s ORestart = (crestart s, mkRes RUnit [] None).
Proof. reflexivity. Qed.

Section NoReexec.
Variable p : program.

Lemma verified_after_execute : forall f stk c n rc s s',
  cexecute p f stk c n rc s = Ok s' -> verified s' n.
Proof.
  intros f stk c n rc s s' H. destruct f as [|f]; [discriminate|]. rewrite cexecute_S in H. cbv zeta in H.
  destruct (nkind n); try discriminate. destruct (alookup p n) as [e|]; [|discriminate].
  match type of H with context [ceval p f ?a ?b ?c ?d ?e] =>
    destruct (ceval p f a b c d e) as [[[o fr1] s1]| | |]; try discriminate end.
  inversion H. subst. eexists. rewrite cset_computed_cget, node_eqb_refl. split; [reflexivity|].
  cbn [c_verified]. rewrite cset_computed_ts. reflexivity.
Qed.

Lemma verified_after_repair : forall f stk c n s s',
  crepair p f stk c n s = Ok s' -> verified s' n.
Proof.
  intros f stk c n s s' H. destruct f as [|f]; [discriminate|]. rewrite crepair_S in H.
  destruct (cget s n) as [i|] eqn:Eg; [|discriminate].
  destruct (cwalk p f n stk (cc_pedantic c) i (c_fwd i) [] [] s) as [[[rc cl] s1]| | |] eqn:Ew;
    try discriminate.
  apply (mono_walk p f n stk _ i (proj1 (mono_all p f))) in Ew.
  destruct (mr_stk _ _ _ Ew n (or_introl eq_refl)) as [K1 _]. destruct rc.
  - eapply verified_after_execute; eauto.
  - inversion H. subst. assert (Hi1 : cget s1 n = Some i) by congruence.
    eexists. rewrite (cclean_cget _ _ _ _ _ Hi1), node_eqb_refl. split; [reflexivity|].
    cbn [c_verified]. rewrite cclean_ts. reflexivity.
Qed.

Lemma query_value_verified : forall fuel n s z fr s',
  cquery p fuel [] CCUser None n s = Ok (CValue z, fr, s') ->
  exists i, cget s' n = Some i /\ c_verified i = cs_ts s' /\ c_value i = z.
Proof.
  intros fuel n s z fr s' H. destruct fuel as [|f]; [discriminate|]. rewrite cquery_S in H. cbv zeta in H.
  cbn [nmem existsb cq_caller cq_frame] in H.
  assert (Hmid : forall s1, verified s1 n -> cq_result CCUser None n s1 = Ok (CValue z, fr, s') ->
            exists i, cget s' n = Some i /\ c_verified i = cs_ts s' /\ c_value i = z).
  { intros s1 [i [Hi Hv]] H1. unfold cq_result in H1. rewrite Hi in H1. inversion H1. subst. eauto. }
  destruct (cget s n) as [i|] eqn:Eg.
  - destruct (c_verified i =? cs_ts s)%N eqn:Ev.
    + apply (Hmid s); [|exact H]. exists i. split; [exact Eg|]. apply N.eqb_eq. exact Ev.
    + destruct (crepair p f [] CCUser n s) as [s1| | |] eqn:Er; try discriminate.
      apply (Hmid s1); [|exact H]. eapply verified_after_repair; eauto.
  - destruct (cexecute p f [] CCUser n false s) as [s1| | |] eqn:Er; try discriminate.
    apply (Hmid s1); [|exact H]. eapply verified_after_execute; eauto.
Qed.

Lemma query_hit : forall f n s i,
  cget s n = Some i -> c_verified i = cs_ts s ->
  cquery p (S f) [] CCUser None n s = Ok (CValue (c_value i), None, s).
Proof.
  intros f n s i Hi Hv. rewrite cquery_S. cbv zeta. cbn [nmem existsb cq_caller cq_frame].
  rewrite Hi. apply N.eqb_eq in Hv. rewrite Hv. unfold cq_result. rewrite Hi. reflexivity.
Qed.

Lemma cstep_answer_verified : forall fuel s n s' r z,
  cstep_f fuel p s (OQuery n) = (s', r) -> r_out r = RValue z ->
  fuel <> O /\ exists i, cget s' n = Some i /\ c_verified i = cs_ts s' /\ c_value i = z.
Proof.
  intros fuel s n s' r z H Hz. unfold cstep_f in H.
  destruct (cquery p fuel [] CCUser None n (cset_log s [])) as [[[o fr] s1]| | |] eqn:Eq.
  - destruct o; inversion H; subst; cbn [r_out] in Hz; try discriminate. inversion Hz. subst.
    split; [intro K; subst; discriminate|]. eapply query_value_verified; eauto.
  - inversion H. subst. discriminate.
  - inversion H. subst. discriminate.
  - inversion H. subst. discriminate.
Qed.

Lemma cstep_hit : forall fuel s n i,
  fuel <> O -> cget s n = Some i -> c_verified i = cs_ts s ->
  cstep_f fuel p s (OQuery n) = (cset_log s [], mkRes (RValue (c_value i)) [] (Some (cs_stat s))).
Proof.
  intros fuel s n i Hf Hi Hv. destruct fuel as [|f]; [congruence|]. unfold cstep_f.
  rewrite (query_hit f n (cset_log s []) i Hi Hv). reflexivity.
Qed.

Lemma cstep_keeps_entry : forall fuel s o s' r n i,
  cstep_f fuel p s o = (s', r) -> (forall sets b, o <> OSession sets b) ->
  cget s n = Some i -> c_verified i = cs_ts s ->
  cget s' n = Some i /\ cs_ts s' = cs_ts s.
Proof.
  intros fuel s o s' r n i H Hns Hi Hv. destruct o as [sets b|m|w v|].
  - exfalso. eapply Hns. reflexivity.
  - destruct (cstep_query_mono _ _ _ _ _ _ H) as [[-> _]|[HM _]]; [auto|].
    split; [eapply mr_ver; eauto|apply (mr_ts _ _ _ HM)].
  - cbn in H. inversion H. subst. auto.
  - cbn in H. inversion H. subst. auto.
Qed.

Lemma run_hit_from : forall fuel ops s i n info,
  fuel <> O -> cget s n = Some info -> c_verified info = cs_ts s ->
  (forall k sets b, (k <= i)%nat -> nth_error ops k <> Some (OSession sets b)) ->
  nth_error ops i = Some (OQuery n) ->
  exists ri, nth_error (crun_history_f fuel p s ops) i = Some ri /\
             r_out ri = RValue (c_value info) /\ r_execs ri = [].
Proof.
  intros fuel. induction ops as [|o rest IH]; intros s i n info Hf Hi Hv Hns Hop; [destruct i; discriminate|].
  cbn [crun_history_f]. destruct i as [|i].
  - cbn in Hop. inversion Hop. subst o. rewrite (cstep_hit fuel s n info Hf Hi Hv).
    eexists. split; [reflexivity|]. split; reflexivity.
  - destruct (cstep_f fuel p s o) as [s' x] eqn:Es. cbn [nth_error] in *.
    destruct (cstep_keeps_entry _ _ _ _ _ _ _ Es (fun sets b E => Hns 0%nat sets b ltac:(lia) (f_equal Some E)) Hi Hv)
      as [Hi' Hts].
    apply (IH s' i n info Hf Hi'); [congruence| |exact Hop].
    intros k sets b Hk. apply (Hns (S k) sets b). lia.
Qed.

Lemma run_no_reexecution : forall fuel ops s j i n rj z,
  (j < i)%nat -> nth_error ops j = Some (OQuery n) -> nth_error ops i = Some (OQuery n) ->
  nth_error (crun_history_f fuel p s ops) j = Some rj -> r_out rj = RValue z ->
  no_session_between ops j i ->
  exists ri, nth_error (crun_history_f fuel p s ops) i = Some ri /\ r_out ri = RValue z /\ r_execs ri = [].
Proof.
  intros fuel. induction ops as [|o rest IH]; intros s j i n rj z Hji Hj Hi Hrj Hz Hns; [destruct j; discriminate|].
  cbn [crun_history_f] in *. destruct (cstep_f fuel p s o) as [s' x] eqn:Es.
  destruct i as [|i]; [lia|]. cbn [nth_error] in Hi. destruct j as [|j].
  - cbn in Hj, Hrj. inversion Hj. inversion Hrj. subst o x.
    destruct (cstep_answer_verified _ _ _ _ _ _ Es Hz) as [Hf [info (A & B & C)]]. subst z.
    cbn [nth_error]. apply (run_hit_from fuel rest s' i n info Hf A B); [|exact Hi].
    intros k sets b Hk. apply (Hns (S k) sets b). lia.
  - cbn [nth_error] in *. apply (IH s' j i n rj z); auto; [lia|].
    intros k sets b Hk. apply (Hns (S k) sets b). lia.
Qed.
End NoReexec.

(** results that were up to date are served without running any executor: holds for every
    program, every fuel, restarts (and other queries / world updates) allowed in between *)
Theorem C07_core_no_reexecution : forall fuel p ops i j n rj z,
  (j < i)%nat -> nth_error ops j = Some (OQuery n) -> nth_error ops i = Some (OQuery n) ->
  nth_error (crun_history_f fuel p cinit ops) j = Some rj -> r_out rj = RValue z ->
  no_session_between ops j i ->
  exists ri, nth_error (crun_history_f fuel p cinit ops) i = Some ri /\
             r_out ri = RValue z /\ r_execs ri = [].
Proof. intros. eapply run_no_reexecution; eauto. Qed.

Example ex_restart :
  map (fun r => (r_out r, map nidx (r_execs r)))
      (crun_history ex_prog cinit
         [OSession [(0%N, 1); (1%N, 5); (2%N, 9)] false; OQuery (ex_N 2); ORestart; OQuery (ex_N 2);
          OSession [(1%N, 6)] false; ORestart; OQuery (ex_N 2)]) =
  [ (RSession [SFresh; SFresh; SFresh], []); (RValue 6, [2; 1; 0]%N); (RUnit, []); (RValue 6, []);
    (RSession [SUpdated], []); (RUnit, []); (RValue 9, [0; 1; 2]%N) ].
Proof. vm_compute. reflexivity. Qed.
