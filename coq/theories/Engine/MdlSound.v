(** Soundness of the full engine model [Engine/Model.v] on programs with inputs, Normal,
    Firewall and Projection queries (C01): every answer is the from-scratch value for the
    inputs committed so far, for every well-formed program, every history of sessions (without
    refresh), queries and restarts, and every amount of fuel.  Statements: [Engine/MdlSpec.v]. *)
From QV Require Import Common.Prelude Engine.Model Engine.Core Engine.CoreSpec Engine.CoreInvBase
  Engine.CoreInvSem Engine.Fw Engine.FwBase Engine.FwMono Engine.FwOnce Engine.FwInv Engine.FwRun
  Engine.MdlSpec Engine.MdlSem Engine.MdlBase Engine.MdlMono Engine.MdlInv Engine.MdlInvState Engine.MdlInvExec
  Engine.MdlInvClean Engine.MdlRunBase Engine.MdlRun Engine.MdlRunAux Engine.MdlRunAll Engine.MdlCommit.
Open Scope Z_scope.

Lemma wf_model_g_facts : forall p, wf_model_g p ->
  exists rk : node -> nat,
    (forall n e d, alookup p n = Some e -> In d (expr_reads e) -> (rk d < rk n)%nat) /\
    (forall n e d, alookup p n = Some e -> nkind n = KProjection -> In d (expr_reads e) -> is_fw_or_proj (nkind d) = true) /\
    (forall n e d, alookup p n = Some e -> In d (expr_reads e) -> nkind d <> KExternal) /\
    (forall n e, alookup p n = Some e -> is_mexec_kind (nkind n) = true).
Proof.
  intros p [Hkeys Htargets Hprj [rank Hrank]].
  exists (fun n => if is_mexec_kind (nkind n) then S (rank n) else O).
  split; [|split; [|split]].
  - intros n e d He Hd. apply alookup_In in He. rewrite (Hkeys n e He).
    destruct (Htargets n e d He Hd) as [Kd|[Kd _]].
    + rewrite Kd. cbn. lia.
    + rewrite Kd. specialize (Hrank n e d He Hd Kd). lia.
  - intros n e d He K Hd. apply alookup_In in He. eapply Hprj; eauto.
  - intros n e d He Hd. apply alookup_In in He. destruct (Htargets n e d He Hd) as [Kd|[Kd _]].
    + rewrite Kd. discriminate.
    + intro K. rewrite K in Kd. discriminate.
  - intros n e He. apply alookup_In in He. apply (Hkeys n e He).
Qed.

Lemma step_f_session : forall fuel pfuel p s sets,
  step_f fuel pfuel p s (OSession sets false) =
  let s := set_log s [] in
  let s0 := set_ts s (s_ts s + 1)%N in
  let '(s1, rs, batch) := fold_left fsess_step sets (s0, [], []) in
  let s3 := set_visited (set_stat s1 0%N) [] in
  match propagate pfuel s3 batch with
  | Ok s4 => (s4, mkRes (RSession rs) (rev (s_log s4)) None)
  | _ => (s3, mkRes RFuel [] None)
  end.
Proof.
  intros. unfold step_f, fsess_step. cbv zeta.
  match goal with |- context [fold_left ?F sets ?A] => destruct (fold_left F sets A) as [[s1 rs] batch] end.
  reflexivity.
Qed.

Section Steps.
Variable p : program.
Variable rk : node -> nat.
Hypothesis Hrk : forall n e d, alookup p n = Some e -> In d (expr_reads e) -> (rk d < rk n)%nat.
Hypothesis Hproj : forall n e d, alookup p n = Some e -> nkind n = KProjection -> In d (expr_reads e) ->
  is_fw_or_proj (nkind d) = true.
Hypothesis Htgt : forall n e d, alookup p n = Some e -> In d (expr_reads e) -> nkind d <> KExternal.
Hypothesis Hkeys : forall n e, alookup p n = Some e -> is_mexec_kind (nkind n) = true.

(** the invariant between operations: relative to some operation start *)
Definition BInv (inp : inputs) (s : state) : Prop := exists sA, MInv p rk sA [] inp s.

Lemma BInv_start : forall inp s, BInv inp s -> MInv p rk (set_log s []) [] inp (set_log s []).
Proof. intros inp s [sA HI]. eapply MInv_rebase; [| | | | | |exact HI]; try reflexivity. left. reflexivity. Qed.

Lemma root_query : forall fuel inp s n o fr ms s1,
  BInv inp s -> nkind n <> KExternal ->
  query_for p None fuel [] CUser None n (set_log s []) = Ok (o, fr, ms, s1) ->
  MInv p rk (set_log s []) [] inp s1 /\
  exists i, get_info s1 n = Some i /\ i_verified i = s_ts s1 /\ o = QValue (Some (i_value i)).
Proof.
  intros fuel inp s n o fr ms s1 HB Hk Eq.
  pose proof (BInv_start inp s HB) as HI0.
  destruct (proj1 (msound_all p rk (set_log s []) Hrk Hproj Htgt Hkeys fuel) inp [] [] [] CUser None n _ o fr ms s1
              HI0 (StkOk_nil rk n) (fun _ => eq_refl) Hk I eq_refl eq_refl (or_introl eq_refl) Eq)
    as (HI1 & _ & _ & i & Hi & Hv & Ho).
  split; [exact HI1|]. exists i. auto.
Qed.

(** one operation keeps the invariant (a session must not have run out of fuel) *)
Lemma mstep_inv : forall fuel pfuel s o s' r inp,
  BInv inp s -> op_in_scope o -> step_f fuel pfuel p s o = (s', r) ->
  (forall sets b, o = OSession sets b -> r_out r <> RFuel) ->
  BInv (apply_op inp o) s'.
Proof.
  intros fuel pfuel s o s' r inp HB Hsc H Hfuel. pose proof (BInv_start inp s HB) as HI0. destruct o as [sets b|n|w v|].
  - cbn [op_in_scope] in Hsc. subst b. rewrite step_f_session in H. cbv zeta in H.
    destruct (fold_left fsess_step sets (set_ts (set_log s []) (s_ts (set_log s []) + 1)%N, [], []))
      as [[s1 rs] batch] eqn:Ef.
    destruct (propagate pfuel (set_visited (set_stat s1 0%N) []) batch) as [s4| | |] eqn:Ep;
      inversion H; subst; try (exfalso; eapply Hfuel; eauto; reflexivity).
    cbn [apply_op]. exists s'. eapply (MInv_commit p rk Hrk Hproj _ inp (set_log s [])); eauto.
  - unfold step_f in H. cbn [apply_op]. cbn [op_in_scope] in Hsc.
    destruct (query_for p None fuel [] CUser None n (set_log s [])) as [[[[o fr] ms] s1]| | |] eqn:Eq.
    + destruct (root_query _ _ _ _ _ _ _ _ HB Hsc Eq) as [HI1 _].
      destruct o as [[z|]|]; inversion H; subst; eexists; exact HI1.
    + inversion H. subst. eexists. exact HI0.
    + inversion H. subst. eexists. exact HI0.
    + inversion H. subst. eexists. exact HI0.
  - destruct Hsc.
  - cbn in H. inversion H. subst. cbn [apply_op]. destruct HB as [sA HI]. exists (restart (set_log s [])).
    eapply MInv_rebase; [| | | | | |exact HI]; try reflexivity. right. reflexivity.
Qed.

(** a value answered by a query is the from-scratch value *)
Lemma mstep_query_sound : forall fuel pfuel s n s' r inp z,
  BInv inp s -> nkind n <> KExternal ->
  step_f fuel pfuel p s (OQuery n) = (s', r) -> r_out r = RValue z -> MSpecI p inp n z.
Proof.
  intros fuel pfuel s n s' r inp z HI Hk H Hr. unfold step_f in H.
  destruct (query_for p None fuel [] CUser None n (set_log s [])) as [[[[o fr] ms] s1]| | |] eqn:Eq.
  - destruct (root_query _ _ _ _ _ _ _ _ HI Hk Eq) as (HI1 & i & Hi & Hv & ->).
    inversion H. subst. cbn [r_out] in Hr. inversion Hr. subst.
    eapply mi_V; eauto.
  - inversion H. subst. discriminate.
  - inversion H. subst. discriminate.
  - inversion H. subst. discriminate.
Qed.

Lemma mrun_sound : forall fuel pfuel ops s inp i n r z,
  BInv inp s -> Forall op_in_scope ops ->
  (forall k sets b rk0, (k < i)%nat -> nth_error ops k = Some (OSession sets b) ->
     nth_error (run_history_f fuel pfuel p s ops) k = Some rk0 -> r_out rk0 <> RFuel) ->
  nth_error ops i = Some (OQuery n) ->
  nth_error (run_history_f fuel pfuel p s ops) i = Some r ->
  r_out r = RValue z ->
  MSpecI p (fold_left apply_op (firstn i ops) inp) n z.
Proof.
  intros fuel pfuel. induction ops as [|o rest IH]; intros s inp i n r z HI Hsc Hfuel Hop Hres Hz.
  - destruct i; discriminate.
  - cbn [run_history_f] in Hres, Hfuel. destruct (step_f fuel pfuel p s o) as [s' x] eqn:Es.
    inversion Hsc as [|o0 rest0 Hsc1 Hsc2]. subst.
    destruct i as [|i].
    + cbn in Hop, Hres. inversion Hop. inversion Hres. subst. cbn [firstn fold_left].
      eapply mstep_query_sound; eauto.
    + cbn [nth_error firstn fold_left] in *. eapply IH; eauto.
      * eapply mstep_inv; eauto. intros sets b ->. apply (Hfuel 0%nat sets b x); [lia|reflexivity|reflexivity].
      * intros k sets b rk0 Hk Hk1 Hk2. apply (Hfuel (S k) sets b rk0); [lia|exact Hk1|exact Hk2].
Qed.
End Steps.

(** * C01 on the full model (unordered groups included), for every fuel *)
Theorem model_sound_g_f : model_sound_g_statement_f.
Proof.
  intros fuel pfuel p ops i n r z Hwf Hsc Hfuel Hop Hres Hz.
  destruct (wf_model_g_facts p Hwf) as (rk & Hrk & Hproj & Htgt & Hkeys). apply MdlSpec_MSpecI.
  unfold inputs_after. eapply (mrun_sound p rk Hrk Hproj Htgt Hkeys); eauto. exists init_state. apply MInv_init.
Qed.

(** * C01 about the model's own [step] / [run_history] *)
Theorem model_sound_g : model_sound_g_statement.
Proof.
  intros p ops i n r z Hwf Hsc Hfuel Hop Hres Hz.
  rewrite run_history_is_f in Hres.
  eapply (model_sound_g_f fuel0 4000%nat); eauto.
  intros k sets b rk0 Hk Hk1 Hk2. rewrite <- run_history_is_f in Hk2. eapply Hfuel; eauto.
Qed.

Theorem model_sound_f : model_sound_statement_f.
Proof. intros fuel pfuel p ops i n r z Hwf. apply model_sound_g_f. apply wf_model_g_of. exact Hwf. Qed.
Theorem model_sound : model_sound_statement.
Proof. intros p ops i n r z Hwf. apply model_sound_g. apply wf_model_g_of. exact Hwf. Qed.

(** the hypothesis on fuel is needed, as for the fragments: a session whose dirty propagation
    ran out of the model's fixed fuel keeps the inputs without the dirt *)
Definition model_sound_statement_unguarded : Prop :=
  forall p ops i n r z, wf_model p -> Forall op_in_scope ops ->
    nth_error ops i = Some (OQuery n) ->
    nth_error (run_history p init_state ops) i = Some r ->
    r_out r = RValue z ->
    MdlSpec p (inputs_after (firstn i ops)) n z.

Definition mcex_I0 := mkNode KInput 0.
Definition mcex_F0 := mkNode KFirewall 0.
Definition mcex_prog : program := [(mcex_F0, ERead mcex_I0)].
Fixpoint mcex_alt (k : nat) : list (N * Z) :=
  match k with O => [] | S k' => (0%N, 5) :: (0%N, 2) :: mcex_alt k' end.
Definition mcex_hist : list op :=
  [OSession [(0%N, 1)] false; OQuery mcex_F0; OSession (mcex_alt 2100) false; OQuery mcex_F0].

Lemma mcex_prog_wf : wf_model mcex_prog.
Proof.
  split.
  - intros n e [H|[]]. inversion H. subst. split; reflexivity.
  - intros n e d [H|[]] Hd. inversion H. subst. destruct Hd as [<-|[]]. left. reflexivity.
  - intros n e d [H|[]] K. inversion H. subst. discriminate.
  - exists (fun _ => O). intros n e d [H|[]] Hd K. inversion H. subst. destruct Hd as [<-|[]]. discriminate.
Qed.

Theorem model_sound_unguarded_refuted : ~ model_sound_statement_unguarded.
Proof.
  intro H.
  assert (Hrun : exists r, nth_error (run_history mcex_prog init_state mcex_hist) 3 = Some r /\ r_out r = RValue 1).
  { eexists. split; [vm_compute; reflexivity|reflexivity]. }
  destruct Hrun as [r [Hr Hz]].
  assert (Hsc : Forall op_in_scope mcex_hist).
  { repeat constructor; cbn; discriminate. }
  specialize (H mcex_prog mcex_hist 3%nat mcex_F0 r 1 mcex_prog_wf Hsc eq_refl Hr Hz).
  apply MdlSpec_MSpecI in H.
  assert (H2 : MSpecI mcex_prog (inputs_after (firstn 3 mcex_hist)) mcex_F0 2).
  { apply MdlSpec_MSpecI. exists 5%nat. vm_compute. reflexivity. }
  pose proof (MSpecI_det _ _ _ _ _ H H2). discriminate.
Qed.

(** * example: a projection that switches between firewalls, projections over projections *)
Definition mex_I (k : N) := mkNode KInput k.
Definition mex_N (k : N) := mkNode KNormal k.
Definition mex_F (k : N) := mkNode KFirewall k.
Definition mex_P (k : N) := mkNode KProjection k.
Definition mex_prog : program :=
  [ (mex_F 0, EMod (ERead (mex_I 0)) 3);
    (mex_F 1, EMod (ERead (mex_I 1)) 2);
    (mex_P 0, EIf (ERead (mex_F 1)) (ERead (mex_F 0)) (EConst 7));
    (mex_P 1, EAdd (ERead (mex_P 0)) (ERead (mex_F 1)));
    (mex_N 0, EAdd (ERead (mex_P 1)) (ERead (mex_I 2)));
    (mex_N 1, EAdd (ERead (mex_N 0)) (ERead (mex_P 0))) ].

Ltac mwf_cases H := repeat (destruct H as [H|H]; [inversion H; subst; clear H|]); try destruct H.
Ltac min_cases H := cbn in H; repeat (destruct H as [H|H]; [subst|]); try destruct H.

Example mex_prog_wf : wf_model mex_prog.
Proof.
  split.
  - intros n e H. mwf_cases H; split; reflexivity.
  - intros n e d H Hd. mwf_cases H; min_cases Hd; (left; reflexivity) || (right; split; [reflexivity|discriminate]).
  - intros n e d H K Hd. mwf_cases H; try discriminate K; min_cases Hd; reflexivity.
  - exists (fun n => match nkind n with
                     | KFirewall => 1%nat | KProjection => (2 + N.to_nat (nidx n))%nat
                     | KNormal => (4 + N.to_nat (nidx n))%nat | _ => 0%nat end).
    intros n e d H Hd K. mwf_cases H; min_cases Hd; try discriminate K; cbn; lia.
Qed.

Definition mex_hist : list op :=
  [ OSession [(0%N, 1); (1%N, 1); (2%N, 10)] false; OQuery (mex_N 1); OQuery (mex_N 0);
    OSession [(0%N, 5)] false; OQuery (mex_N 0); OQuery (mex_N 1);
    OSession [(1%N, 2)] false; OQuery (mex_P 1); ORestart; OQuery (mex_N 1);
    OSession [(1%N, 3); (0%N, 4)] false; OQuery (mex_N 1) ].

Example mex_run :
  map r_out (run_history mex_prog init_state mex_hist) =
  [ RSession [SFresh; SFresh; SFresh]; RValue 13; RValue 12;
    RSession [SUpdated]; RValue 13; RValue 15;
    RSession [SUpdated]; RValue 7; RUnit; RValue 24;
    RSession [SUpdated; SUpdated]; RValue 13 ].
Proof. vm_compute. reflexivity. Qed.

(** * example with unordered groups (a projection over a group of firewalls) *)
Definition mexg_prog : program :=
  [ (mex_F 0, EMod (ERead (mex_I 0)) 3);
    (mex_F 1, EMod (ERead (mex_I 1)) 2);
    (mex_P 0, EGroup [mex_F 0; mex_F 1]);
    (mex_N 0, EGroup [mex_F 0; mex_P 0; mex_I 2]);
    (mex_N 1, EAdd (ERead (mex_N 0)) (EGroup [mex_F 1; mex_F 1])) ].
Example mexg_prog_wf : wf_model_g mexg_prog.
Proof.
  split.
  - intros n e H. mwf_cases H; reflexivity.
  - intros n e d H Hd. mwf_cases H; min_cases Hd; (left; reflexivity) || (right; split; [reflexivity|discriminate]).
  - intros n e d H K Hd. mwf_cases H; try discriminate K; min_cases Hd; reflexivity.
  - exists (fun n => match nkind n with
                     | KFirewall => 1%nat | KProjection => (2 + N.to_nat (nidx n))%nat
                     | KNormal => (4 + N.to_nat (nidx n))%nat | _ => 0%nat end).
    intros n e d H Hd K. mwf_cases H; min_cases Hd; try discriminate K; cbn; lia.
Qed.
Definition mexg_hist : list op :=
  [ OSession [(0%N, 4); (1%N, 1); (2%N, 10)] false; OQuery (mex_N 1);
    OSession [(0%N, 5)] false; OQuery (mex_N 0); OQuery (mex_N 1);
    OSession [(1%N, 2); (2%N, 3)] false; OQuery (mex_N 1) ].
Example mexg_run :
  map r_out (run_history mexg_prog init_state mexg_hist) =
  [ RSession [SFresh; SFresh; SFresh]; RValue 15;
    RSession [SUpdated]; RValue 15; RValue 17;
    RSession [SUpdated; SUpdated]; RValue 7 ].
Proof. vm_compute. reflexivity. Qed.

Print Assumptions model_sound_g_f.
Print Assumptions model_sound_g.
Print Assumptions model_sound_f.
Print Assumptions model_sound.
Print Assumptions model_sound_unguarded_refuted.
