(** Soundness of the full engine model [Engine/Model.v] on programs with inputs, Normal,
    Firewall and Projection queries (C01): every answer is the from-scratch value for the
    inputs committed so far, for every well-formed program, every history of sessions (without
    refresh), queries and restarts, and every amount of fuel.  Statements: [Engine/MdlSpec.v]. *)
From QV Require Import Common.Prelude Engine.Model Engine.Core Engine.CoreSpec Engine.CoreInvBase
  Engine.CoreInvSem Engine.Fw Engine.FwBase Engine.FwMono Engine.FwOnce Engine.FwInv Engine.FwRun
  Engine.MdlSpec Engine.MdlSem Engine.MdlBase Engine.MdlMono Engine.MdlInv Engine.MdlInvState Engine.MdlInvExec
  Engine.MdlInvClean Engine.MdlRunBase Engine.MdlRun Engine.MdlRunAux Engine.MdlRunAll Engine.MdlCommit Engine.MdlWorld.
From Coq Require Import Permutation.
Open Scope Z_scope.

Lemma wf_model_x_facts : forall p, wf_model_x p ->
  exists rk : node -> nat,
    (forall n e d, alookup p n = Some e -> In d (expr_reads e) -> (rk d < rk n)%nat) /\
    (forall n e d, alookup p n = Some e -> nkind n = KProjection -> In d (expr_reads e) -> is_fw_or_proj (nkind d) = true) /\
    (forall n e, alookup p n = Some e -> is_mexec_kind (nkind n) = true).
Proof.
  intros p [Hkeys Htargets Hprj [rank Hrank]].
  exists (fun n => if is_mexec_kind (nkind n) then S (rank n) else O).
  split; [|split].
  - intros n e d He Hd. apply alookup_In in He. rewrite (Hkeys n e He).
    destruct (Htargets n e d He Hd) as [Kd|[Kd _]].
    + destruct (nkind d); try discriminate; cbn; lia.
    + rewrite Kd. specialize (Hrank n e d He Hd Kd). lia.
  - intros n e d He K Hd. apply alookup_In in He. eapply Hprj; eauto.
  - intros n e He. apply alookup_In in He. apply (Hkeys n e He).
Qed.

Lemma step_f_session : forall tord bord pord fuel pfuel p s sets,
  step_f tord bord pord fuel pfuel p s (OSession sets false) =
  let s := set_log s [] in
  let s0 := set_ts s (s_ts s + 1)%N in
  let '(s1, rs, batch) := fold_left fsess_step sets (s0, [], []) in
  let s3 := set_visited (set_stat s1 0%N) [] in
  match propagate_o pord pfuel s3 batch with
  | Ok s4 => (s4, mkRes (RSession rs) (rev (s_log s4)) None)
  | _ => (s3, mkRes RFuel [] None)
  end.
Proof.
  intros. unfold step_f, fsess_step. cbv zeta.
  match goal with |- context [fold_left ?F sets ?A] => destruct (fold_left F sets A) as [[s1 rs] batch] end.
  reflexivity.
Qed.
Lemma step_f_session_gen : forall tord bord pord fuel pfuel p s sets refresh,
  step_f tord bord pord fuel pfuel p s (OSession sets refresh) =
  let s := set_log s [] in
  let s0 := set_ts s (s_ts s + 1)%N in
  let '(s1, rs, batch) := fold_left fsess_step sets (s0, [], []) in
  let '(s2, batch2) := if refresh then fold_left refresh_step (s_ext s1) (s1, batch) else (s1, batch) in
  let s3 := set_visited (set_stat s2 0%N) [] in
  match propagate_o pord pfuel s3 batch2 with
  | Ok s4 => (s4, mkRes (RSession rs) (rev (s_log s4)) None)
  | _ => (s3, mkRes RFuel [] None)
  end.
Proof.
  intros. unfold step_f, fsess_step, refresh_step. cbv zeta.
  match goal with |- context [fold_left ?F sets ?A] => destruct (fold_left F sets A) as [[s1 rs] batch] end.
  destruct refresh; reflexivity.
Qed.

(** the environment after an operation *)
Definition env_step (env : menv) (s : state) (o : op) (s' : state) : menv :=
  match o with
  | OSession sets refresh =>
      (fold_left (fun a '(i, v) => input_set a i v) sets (fst env),
       if refresh then xref (set_log s []) (s_ext s) (snd env) else snd env)
  | OSetWorld i v =>
      (fst env, fun k => match get_info s (ext_node k) with Some _ => snd env k | None => Some (world_get s' k) end)
  | _ => env
  end.
Lemma env_step_inputs : forall env s o s', fst (env_step env s o s') = apply_op (fst env) o.
Proof. intros env s o s'. destruct o; reflexivity. Qed.

Section Steps.
Variable p : program.
Variables tord bord pord : state -> node -> list node -> list node.
Variable rk : node -> nat.
Hypothesis Hrk : forall n e d, alookup p n = Some e -> In d (expr_reads e) -> (rk d < rk n)%nat.
Hypothesis Hproj : forall n e d, alookup p n = Some e -> nkind n = KProjection -> In d (expr_reads e) ->
  is_fw_or_proj (nkind d) = true.
Hypothesis Hkeys : forall n e, alookup p n = Some e -> is_mexec_kind (nkind n) = true.
Hypothesis Htord : forall s x l y, In y (tord s x l) <-> In y l.
Hypothesis Hbord : forall s x l y, In y (bord s x l) <-> In y l.
Hypothesis Hpord : forall s x l y, In y (pord s x l) <-> In y l.

(** the invariant between operations: every operation starts by emptying the log *)
Definition BInv (env : menv) (s : state) : Prop := MInv p rk (set_log s []) [] env (set_log s []).

Lemma root_query : forall fuel env s n o fr ms s1,
  BInv env s ->
  query_for_o p None tord bord pord fuel [] CUser None n (set_log s []) = Ok (o, fr, ms, s1) ->
  MInv p rk (set_log s []) [] env s1 /\
  exists i, get_info s1 n = Some i /\ i_verified i = s_ts s1 /\ o = QValue (Some (i_value i)).
Proof.
  intros fuel env s n o fr ms s1 HI0 Eq.
  destruct (proj1 (msound_all p tord bord pord rk (set_log s []) Hrk Hproj Hkeys Htord Hbord Hpord fuel) env [] [] [] CUser None n _ o fr ms s1
              HI0 (StkR_nil p n) (fun _ => eq_refl) I eq_refl (or_introl eq_refl) Eq)
    as (HI1 & _ & _ & i & Hi & Hv & Ho).
  split; [exact HI1|]. exists i. split; [exact Hi|]. split; [exact Hv|]. exact (Ho eq_refl).
Qed.

Lemma BInv_of : forall sA env s, MInv p rk sA [] env s -> BInv env s.
Proof. intros sA env s HI. eapply MInv_rebase; [| | | | | | | |exact HI]; try reflexivity. left. reflexivity. Qed.

Lemma session_MSess : forall (env : menv) (s : state) sets (b : bool) s1 (rs : list sres) batch s2 batch2 (s' : state),
  BInv env s ->
  fold_left fsess_step sets (set_ts (set_log s []) (s_ts (set_log s []) + 1)%N, [], []) = (s1, rs, batch) ->
  (if b then fold_left refresh_step (s_ext s1) (s1, batch) else (s1, batch)) = (s2, batch2) ->
  MSess (set_log s []) s2 (env_step env s (OSession sets b) s') batch2 /\ s_ext s1 = s_ext s.
Proof.
  intros env s sets b s1 rs batch s2 batch2 s' HI0 Ef Er.
  pose proof (sess_fold_MSess p rk Hrk Hproj _ _ _ _ _ _ _ _ _ (MSess_init p rk Hrk Hproj _ _ _ HI0) Ef) as HS1.
  assert (Ex : s_ext s1 = s_ext s) by (rewrite (ms_ext _ _ _ _ HS1); reflexivity).
  split; [|exact Ex]. cbn [env_step]. destruct b.
  - pose proof (refresh_fold_MSess p rk Hrk Hproj _ (s_ext s1) _ _ _ s2 batch2 HS1) as Q. cbn [fst snd] in Q.
    rewrite <- Ex. apply Q; [|exact Er].
    intros e He. rewrite Ex in He. eapply (mi_ext _ _ _ _ _ _ _ HI0). exact He.
  - inversion Er. subst. exact HS1.
Qed.

(** one operation keeps the invariant (a session must not have run out of fuel) *)
Lemma mstep_inv : forall fuel pfuel s o s' r env,
  BInv env s -> step_f tord bord pord fuel pfuel p s o = (s', r) ->
  (forall sets b, o = OSession sets b -> r_out r <> RFuel) ->
  BInv (env_step env s o s') s'.
Proof.
  intros fuel pfuel s o s' r env HI0 H Hfuel. destruct o as [sets b|n|w v|].
  - rewrite step_f_session_gen in H. cbv zeta in H.
    destruct (fold_left fsess_step sets (set_ts (set_log s []) (s_ts (set_log s []) + 1)%N, [], []))
      as [[s1 rs] batch] eqn:Ef.
    destruct (if b then fold_left refresh_step (s_ext s1) (s1, batch) else (s1, batch)) as [s2 batch2] eqn:Er.
    destruct (session_MSess _ _ _ _ _ _ _ _ _ s' HI0 Ef Er) as [HS2 _].
    destruct (propagate_o pord pfuel (set_visited (set_stat s2 0%N) []) batch2) as [s4| | |] eqn:Ep;
      inversion H; subst; try (exfalso; eapply Hfuel; eauto; reflexivity).
    eapply (MInv_of_MSess p rk Hrk Hproj pord Hpord _ env); eauto.
  - unfold step_f in H. cbn [env_step].
    destruct (query_for_o p None tord bord pord fuel [] CUser None n (set_log s [])) as [[[[o fr] ms] s1]| | |] eqn:Eq.
    + destruct (root_query _ _ _ _ _ _ _ _ HI0 Eq) as [HI1 _].
      destruct o as [[z|]|]; inversion H; subst; eapply BInv_of; exact HI1.
    + inversion H. subst. eapply BInv_of; exact HI0.
    + inversion H. subst. eapply BInv_of; exact HI0.
    + inversion H. subst. eapply BInv_of; exact HI0.
  - cbn in H. inversion H. subst s' r. clear H. cbn [env_step]. unfold BInv.
    set (s1 := set_log s []) in *.
    set (t := set_log (set_world s1 ((w, v) :: filter (fun '(k, _) => negb (k =? w)%N) (s_world s1))) []).
    set (env' := (fst env, fun k => match get_info s (ext_node k) with
                                    | Some _ => snd env k
                                    | None => Some (world_get (set_world s1 ((w, v) :: filter (fun '(k, _) => negb (k =? w)%N) (s_world s1))) k) end)).
    apply (MInv_same3 p rk s1 t noE [] env env' s1 t); try reflexivity; [left; reflexivity| | | | | | |exact HI0].
    + intros n i Hi Hl. unfold leaf_val, env'. cbn [fst snd]. destruct (nkind n) eqn:Kn; try reflexivity.
      change (get_info s (ext_node (nidx n))) with (get_info s1 (ext_node (nidx n))).
      rewrite <- (node_ext_eta n Kn), Hi. reflexivity.
    + intros n i Hi Hv. eapply (respec p rk Hrk _ _ _ env env' s1 HI0 eq_refl) with (k0 := S (rk n)); [|lia|exact Hi|left; exists i; auto].
      intros k j Hj. unfold env'. cbn [snd]. change (get_info s (ext_node k)) with (get_info s1 (ext_node k)). rewrite Hj.
      destruct (mi_kind _ _ _ _ _ _ _ HI0 (ext_node k) j Hj) as [(_ & _ & _ & _ & K5)|(K & _)]; [exact K5|discriminate].
    + intros k Hk. unfold env'. cbn [snd]. change (get_info s (ext_node k)) with (get_info s1 (ext_node k)). rewrite Hk. reflexivity.
    + intros m [].
    + intro m. right. reflexivity.
    + intros m i Hi. right. exists i. split; [exact Hi|]. intros. reflexivity.
  - cbn in H. inversion H. subst. cbn [env_step]. unfold BInv.
    eapply MInv_rebase; [| | | | | | | |exact HI0]; try reflexivity. right. reflexivity.
Qed.

(** ** the replay of the external inputs follows the state *)
Definition RI (s : state) (acc : xenv * list (N * Z)) : Prop :=
  s_world s = snd acc /\ forall k i, get_info s (ext_node k) = Some i -> fst acc k = Some (i_value i).

Lemma world_get_val : forall s w k, s_world s = w -> world_get s k = world_val w k.
Proof. intros s w k <-. reflexivity. Qed.

Lemma refresh_fold_log : forall l cur batch cur' batch',
  fold_left refresh_step l (cur, batch) = (cur', batch') -> s_log cur' = rev l ++ s_log cur.
Proof.
  induction l as [|e r IH]; intros cur batch cur' batch' H; cbn [fold_left] in H.
  - inversion H. reflexivity.
  - unfold refresh_step at 2 in H. cbv zeta in H. apply IH in H. rewrite H, set_input_log. cbn [set_log s_log rev].
    rewrite <- app_assoc. reflexivity.
Qed.
Lemma refresh_fold_get : forall l cur batch cur' batch' m,
  fold_left refresh_step l (cur, batch) = (cur', batch') -> ~ In m l -> get_info cur' m = get_info cur m.
Proof.
  induction l as [|e r IH]; intros cur batch cur' batch' m H Hm; cbn [fold_left] in H.
  - inversion H. reflexivity.
  - unfold refresh_step at 2 in H. cbv zeta in H. rewrite (IH _ _ _ _ m H); [|intro K; apply Hm; right; exact K].
    rewrite set_input_get. destruct (node_eqb_spec e m) as [->|Hne]; [exfalso; apply Hm; left; reflexivity|reflexivity].
Qed.
Lemma sess_fold_get : forall sets cur rs batch cur' rs' batch' m,
  fold_left fsess_step sets (cur, rs, batch) = (cur', rs', batch') -> nkind m <> KInput -> get_info cur' m = get_info cur m.
Proof.
  induction sets as [|[v x] r IH]; intros cur rs batch cur' rs' batch' m H Hk; cbn [fold_left] in H.
  - inversion H. reflexivity.
  - rewrite fsess_step_eq in H. rewrite (IH _ _ _ _ _ _ m H Hk). rewrite set_input_get.
    destruct (node_eqb_spec (mkNode KInput v) m) as [<-|Hne]; [exfalso; apply Hk; reflexivity|reflexivity].
Qed.
Lemma xref_In : forall s l xe e, In e l -> xref s l xe (nidx e) = Some (world_get s (nidx e)).
Proof.
  intros s l. unfold xref. induction l as [|a r IH] using rev_ind; intros xe e He; [destruct He|].
  rewrite fold_left_app. cbn [fold_left]. apply in_app_or in He. destruct (N.eqb_spec (nidx e) (nidx a)) as [Ev|Ev].
  - rewrite Ev. reflexivity.
  - destruct He as [He|[->|[]]]; [apply IH; exact He|congruence].
Qed.
Lemma xref_notIn : forall s l xe k, (forall e, In e l -> nidx e <> k) -> xref s l xe k = xe k.
Proof.
  intros s l. unfold xref. induction l as [|a r IH] using rev_ind; intros xe k Hk; [reflexivity|].
  rewrite fold_left_app. cbn [fold_left]. destruct (N.eqb_spec k (nidx a)) as [Ev|Ev].
  - exfalso. apply (Hk a); [apply in_or_app; right; left; reflexivity|congruence].
  - apply IH. intros e He. apply Hk. apply in_or_app. left. exact He.
Qed.

Lemma ri_step : forall fuel pfuel s o s' r env acc,
  BInv env s -> RI s acc -> step_f tord bord pord fuel pfuel p s o = (s', r) ->
  (forall sets b, o = OSession sets b -> r_out r <> RFuel) ->
  RI s' (ext_step acc (o, r)).
Proof.
  intros fuel pfuel s o s' r env [xe w] HI0 [Rw Rx] H Hfuel. cbn [fst snd] in Rw, Rx. unfold ext_step.
  destruct o as [sets b|n|wi wv|].
  - rewrite step_f_session_gen in H. cbv zeta in H.
    destruct (fold_left fsess_step sets (set_ts (set_log s []) (s_ts (set_log s []) + 1)%N, [], []))
      as [[s1 rs] batch] eqn:Ef.
    destruct (if b then fold_left refresh_step (s_ext s1) (s1, batch) else (s1, batch)) as [s2 batch2] eqn:Er.
    destruct (session_MSess _ _ _ _ _ _ _ _ _ s' HI0 Ef Er) as [HS2 Ex].
    destruct (propagate_o pord pfuel (set_visited (set_stat s2 0%N) []) batch2) as [s4| | |] eqn:Ep;
      inversion H; subst s' r; try (exfalso; eapply (Hfuel sets b); reflexivity).
    destruct (propagate_o_we _ _ _ _ _ Ep) as [Nw _]. pose proof (propagate_o_same _ _ _ _ _ Ep) as (N1 & _ & _ & N4 & _).
    cbn [set_visited set_stat s_world s_nodes s_log] in Nw, N1, N4.
    assert (Hl1 : s_log s1 = []).
    { rewrite (sess_fold_log _ _ _ _ _ _ _ Ef). reflexivity. }
    split.
    + cbn [fst snd world_op]. rewrite Nw, (ms_world _ _ _ _ HS2). exact Rw.
    + cbn [fst snd r_execs world_op]. intros k i Hi. unfold get_info in Hi. rewrite N1 in Hi. change (get_info s2 (ext_node k) = Some i) in Hi.
      destruct (ms_leaf _ _ _ _ HS2 (ext_node k) i (or_intror eq_refl) Hi) as (_ & _ & _ & Hv & _).
      unfold leaf_val in Hv. cbn [ext_node nkind nidx env_step snd] in Hv.
      destruct b.
      * rewrite N4, (refresh_fold_log _ _ _ _ _ Er), Hl1, app_nil_r, rev_involutive, Ex.
        destruct (nmem (ext_node k) (s_ext s)) eqn:Em.
        -- apply nmem_In in Em. rewrite (xref_In _ _ _ (ext_node k) Em) in Hv. cbn [ext_node nidx] in Hv.
           rewrite <- Hv. f_equal. symmetry. apply world_get_val. exact Rw.
        -- apply nmem_false in Em. rewrite xref_notIn in Hv.
           2:{ intros e He Hk. apply Em. assert (Ke : nkind e = KExternal) by (eapply (mi_ext _ _ _ _ _ _ _ HI0); exact He).
               rewrite (node_ext_eta e Ke) in He. rewrite Hk in He. exact He. }
           assert (Hi0 : get_info s (ext_node k) = Some i).
           { rewrite <- Hi. symmetry. rewrite (refresh_fold_get _ _ _ _ _ (ext_node k) Er); [|rewrite Ex; exact Em].
             rewrite (sess_fold_get _ _ _ _ _ _ _ (ext_node k) Ef); [reflexivity|discriminate]. }
           apply Rx. exact Hi0.
      * inversion Er. subst s2 batch2. rewrite N4, Hl1. cbn [rev nmem existsb].
        apply Rx. rewrite <- Hi. symmetry. rewrite (sess_fold_get _ _ _ _ _ _ _ (ext_node k) Ef); [reflexivity|discriminate].
  - cbn [world_op]. unfold step_f in H.
    destruct (query_for_o p None tord bord pord fuel [] CUser None n (set_log s [])) as [[[[o fr] ms] s1]| | |] eqn:Eq.
    + destruct (root_query _ _ _ _ _ _ _ _ HI0 Eq) as [HI1 _].
      pose proof (proj1 (mworld_all p tord bord pord fuel) _ _ _ _ _ _ _ _ _ Eq) as [HW _]. cbn [set_log s_world] in HW.
      assert (Er : r_execs r = rev (s_log s1) /\ s' = s1) by (destruct o as [[z|]|]; inversion H; subst; auto).
      destruct Er as [Er Es']. subst s'. split; [cbn [snd]; congruence|].
      cbn [fst]. intros k i Hi. rewrite Er.
      destruct (mi_kind _ _ _ _ _ _ _ HI1 (ext_node k) i Hi) as [(_ & _ & Ko & _ & K5)|(K & _)]; [|discriminate].
      unfold leaf_val in K5. cbn [ext_node nkind nidx] in K5.
      destruct (nmem (ext_node k) (rev (s_log s1))) eqn:Em.
      * apply nmem_In in Em. apply in_rev in Em.
        destruct (mi_J _ _ _ _ _ _ _ HI1 _ Em) as [J|(i0 & cal & x & J1 & [t J2] & _)].
        -- change (get_info s (ext_node k) = None) in J. pose proof (mi_W _ _ _ _ _ _ _ HI0 k J) as Wk.
           rewrite Wk in K5. inversion K5. f_equal. symmetry. apply world_get_val. exact Rw.
        -- exfalso. change (get_info s (ext_node k) = Some i0) in J1.
           destruct (mi_kind _ _ _ _ _ _ _ HI0 (ext_node k) i0 J1) as [(_ & _ & K3 & _)|(K & _)]; [|discriminate].
           rewrite K3 in J2. discriminate.
      * apply nmem_false in Em. destruct (mi_O _ _ _ _ _ _ _ HI1 _ _ Hi) as [K|[i0 [K1 _]]].
        -- exfalso. apply Em. apply in_rev. rewrite rev_involutive. exact K.
        -- change (get_info s (ext_node k) = Some i0) in K1. rewrite (Rx k i0 K1).
           destruct (mi_kind _ _ _ _ _ _ _ HI0 (ext_node k) i0 K1) as [(_ & _ & _ & _ & K6)|(K & _)]; [|discriminate].
           unfold leaf_val in K6. cbn [ext_node nkind nidx] in K6. congruence.
    + inversion H. subst s' r. split; [exact Rw|]. cbn [fst r_execs nmem existsb]. exact Rx.
    + inversion H. subst s' r. split; [exact Rw|]. cbn [fst r_execs nmem existsb]. exact Rx.
    + inversion H. subst s' r. split; [exact Rw|]. cbn [fst r_execs nmem existsb]. exact Rx.
  - cbn in H. inversion H. subst s' r. split.
    + cbn [snd set_world s_world set_log world_op world_set]. rewrite <- Rw. reflexivity.
    + cbn [fst r_execs nmem existsb]. intros k i Hi. apply Rx. exact Hi.
  - cbn in H. inversion H. subst s' r. split; [exact Rw|]. cbn [fst r_execs nmem existsb]. exact Rx.
Qed.

Lemma mrun_sound_x : forall fuel pfuel ops s env acc i n r z,
  BInv env s -> RI s acc ->
  (forall k sets b rk0, (k < i)%nat -> nth_error ops k = Some (OSession sets b) ->
     nth_error (run_history_f tord bord pord fuel pfuel p s ops) k = Some rk0 -> r_out rk0 <> RFuel) ->
  nth_error ops i = Some (OQuery n) ->
  nth_error (run_history_f tord bord pord fuel pfuel p s ops) i = Some r ->
  r_out r = RValue z ->
  MSpecI p (fold_left apply_op (firstn i ops) (fst env),
            fst (fold_left ext_step (combine (firstn (S i) ops) (firstn (S i) (run_history_f tord bord pord fuel pfuel p s ops))) acc)) n z.
Proof.
  intros fuel pfuel. induction ops as [|o rest IH]; intros s env acc i n r z HI HR Hfuel Hop Hres Hz.
  - destruct i; discriminate.
  - cbn [run_history_f] in Hres, Hfuel |- *. destruct (step_f tord bord pord fuel pfuel p s o) as [s' x] eqn:Es.
    destruct i as [|i].
    + cbn in Hop, Hres. inversion Hop. inversion Hres. subst o x. cbn [firstn fold_left combine].
      assert (Hf0 : forall sets b, OQuery n = OSession sets b -> r_out r <> RFuel) by (intros; discriminate).
      pose proof (ri_step _ _ _ _ _ _ _ _ HI HR Es Hf0) as [_ HR'].
      unfold step_f in Es.
      destruct (query_for_o p None tord bord pord fuel [] CUser None n (set_log s [])) as [[[[o fr] ms] s1]| | |] eqn:Eq;
        try (inversion Es; subst; discriminate).
      destruct (root_query _ _ _ _ _ _ _ _ HI Eq) as (HI1 & i0 & Hi0 & Hv0 & ->).
      inversion Es. subst s' r. cbn [r_out] in Hz. inversion Hz. subst z.
      cbn [r_out] in HR'.
      match goal with |- MSpecI p (?a, ?b) _ _ => set (env' := (a, b)) end.
      apply (respec p rk Hrk _ _ _ env env' s1 HI1 eq_refl) with (k0 := S (rk n)); [|lia|exact Hi0|left; exists i0; auto].
      intros k j Hj. unfold env'. cbn [snd]. apply HR'. exact Hj.
    + cbn [nth_error firstn fold_left combine] in *.
      assert (Hf0 : forall sets b, o = OSession sets b -> r_out x <> RFuel).
      { intros sets b ->. apply (Hfuel 0%nat sets b x); [lia|reflexivity|reflexivity]. }
      pose proof (mstep_inv _ _ _ _ _ _ _ HI Es Hf0) as HI'.
      pose proof (ri_step _ _ _ _ _ _ _ _ HI HR Es Hf0) as HR'.
      rewrite <- (env_step_inputs env s o s').
      eapply (IH s' (env_step env s o s') (ext_step acc (o, x)) i n r z HI' HR'); eauto.
      intros k sets b rk0 Hk Hk1 Hk2. apply (Hfuel (S k) sets b rk0); [lia|exact Hk1|exact Hk2].
Qed.
End Steps.


(** * C01 on the full model with external inputs, for every history and every fuel *)
Theorem model_sound_x_f : model_sound_x_statement_f.
Proof.
  intros tord bord pord fuel pfuel p ops i n r z Ht Hb Hp Hwf Hfuel Hop Hres Hz.
  destruct (wf_model_x_facts p Hwf) as (rk & Hrk & Hproj & Hkeys). apply MdlSpecX_MSpecI.
  unfold inputs_after, ext_after.
  apply (mrun_sound_x p tord bord pord rk Hrk Hproj Hkeys (order_ok_In _ Ht) (order_ok_In _ Hb) (order_ok_In _ Hp)
           fuel pfuel ops init_state init_env (no_ext, []) i n r z); auto.
  - apply (MInv_init p rk noE).
  - split; [reflexivity|]. intros k j Hj. discriminate.
Qed.
Theorem model_sound_x_op : model_sound_x_statement_op.
Proof.
  intros tord bord pord p ops i n r z Ht Hb Hp Hwf Hfuel Hop Hres Hz.
  rewrite run_history_op_is_f in Hres. rewrite run_history_op_is_f.
  eapply (model_sound_x_f tord bord pord fuel0 4000%nat); eauto.
  intros k sets b rk0 Hk Hk1 Hk2. rewrite <- run_history_op_is_f in Hk2. eapply Hfuel; eauto.
Qed.
(** the dirty propagation in list order *)
Theorem model_sound_x_o : model_sound_x_statement_o.
Proof.
  intros tord bord p ops i n r z Ht Hb Hwf Hfuel Hop Hres Hz.
  exact (model_sound_x_op tord bord ord_id p ops i n r z Ht Hb ord_id_ok Hwf Hfuel Hop Hres Hz).
Qed.
(** the schedule in list order *)
Theorem model_sound_x : model_sound_x_statement.
Proof.
  intros p ops i n r z Hwf Hfuel Hop Hres Hz.
  exact (model_sound_x_o ord_id ord_id p ops i n r z ord_id_ok ord_id_ok Hwf Hfuel Hop Hres Hz).
Qed.

(** without external inputs the replayed values are not looked at *)
Lemma wf_model_g_noext : forall p, wf_model_g p ->
  forall n b d, alookup p n = Some b -> In d (expr_reads b) -> nkind d <> KExternal.
Proof.
  intros p [_ Ht _ _] n b d He Hd. apply alookup_In in He. destruct (Ht n b d He Hd) as [K|[K _]].
  - rewrite K. discriminate.
  - intro Kx. rewrite Kx in K. discriminate.
Qed.

Theorem model_sound_g_f : model_sound_g_statement_f.
Proof.
  intros tord bord pord fuel pfuel p ops i n r z Ht Hb Hp Hwf Hsc Hfuel Hop Hres Hz.
  pose proof (model_sound_x_f tord bord pord fuel pfuel p ops i n r z Ht Hb Hp (wf_model_x_of p Hwf) Hfuel Hop Hres Hz) as H.
  apply MdlSpecX_MSpecI in H. apply MdlSpec_MSpecI.
  apply (msev_noext p _ no_ext (wf_model_g_noext p Hwf)) in H; [exact H|].
  intros d [<-|[]]. assert (Hn : op_in_scope (OQuery n)).
  { rewrite Forall_forall in Hsc. apply Hsc. eapply nth_error_In; eauto. }
  exact Hn.
Qed.
Theorem model_sound_g : model_sound_g_statement.
Proof.
  intros p ops i n r z Hwf Hsc Hfuel Hop Hres Hz.
  rewrite run_history_is_f in Hres.
  eapply (model_sound_g_f ord_id ord_id ord_id fuel0 4000%nat); eauto using ord_id_ok.
  intros k sets b rk0 Hk Hk1 Hk2. rewrite <- run_history_is_f in Hk2. eapply Hfuel; eauto.
Qed.

Theorem model_sound_f : model_sound_statement_f.
Proof. intros tord bord pord fuel pfuel p ops i n r z Ht Hb Hp Hwf. apply model_sound_g_f; auto. apply wf_model_g_of. exact Hwf. Qed.
Theorem model_sound : model_sound_statement.
Proof. intros p ops i n r z Hwf. apply model_sound_g. apply wf_model_g_of. exact Hwf. Qed.

(** the hypothesis on fuel is needed, as for the fragments: a session whose dirty propagation
    ran out of the model's fixed fuel keeps the inputs without the dirt *)
Definition model_sound_statement_unguarded : Prop :=
  forall p ops i n r z, wf_model p -> Forall op_in_scope ops ->
    nth_error ops i = Some (OQuery n) ->
    nth_error (run_history p init_state ops) i = Some r ->
    r_out r = RValue z ->
    MdlSpec p (inputs_after (firstn i ops)) n z.

Definition mcex_I0 := mkNode KInput 0.
Definition mcex_F0 := mkNode KFirewall 0.
Definition mcex_prog : program := [(mcex_F0, ERead mcex_I0)].
Fixpoint mcex_alt (k : nat) : list (N * Z) :=
  match k with O => [] | S k' => (0%N, 5) :: (0%N, 2) :: mcex_alt k' end.
Definition mcex_hist : list op :=
  [OSession [(0%N, 1)] false; OQuery mcex_F0; OSession (mcex_alt 2100) false; OQuery mcex_F0].

Lemma mcex_prog_wf : wf_model mcex_prog.
Proof.
  split.
  - intros n e [H|[]]. inversion H. subst. split; reflexivity.
  - intros n e d [H|[]] Hd. inversion H. subst. destruct Hd as [<-|[]]. left. reflexivity.
  - intros n e d [H|[]] K. inversion H. subst. discriminate.
  - exists (fun _ => O). intros n e d [H|[]] Hd K. inversion H. subst. destruct Hd as [<-|[]]. discriminate.
Qed.

Theorem model_sound_unguarded_refuted : ~ model_sound_statement_unguarded.
Proof.
  intro H.
  assert (Hrun : exists r, nth_error (run_history mcex_prog init_state mcex_hist) 3 = Some r /\ r_out r = RValue 1).
  { eexists. split; [vm_compute; reflexivity|reflexivity]. }
  destruct Hrun as [r [Hr Hz]].
  assert (Hsc : Forall op_in_scope mcex_hist).
  { repeat constructor; cbn; discriminate. }
  specialize (H mcex_prog mcex_hist 3%nat mcex_F0 r 1 mcex_prog_wf Hsc eq_refl Hr Hz).
  apply MdlSpec_MSpecI in H.
  assert (H2 : MSpecI mcex_prog (inputs_after (firstn 3 mcex_hist), no_ext) mcex_F0 2).
  { apply MdlSpec_MSpecI. exists 5%nat. vm_compute. reflexivity. }
  pose proof (MSpecI_det _ _ _ _ _ H H2). discriminate.
Qed.

(** * example: a projection that switches between firewalls, projections over projections *)
Definition mex_I (k : N) := mkNode KInput k.
Definition mex_N (k : N) := mkNode KNormal k.
Definition mex_F (k : N) := mkNode KFirewall k.
Definition mex_P (k : N) := mkNode KProjection k.
Definition mex_prog : program :=
  [ (mex_F 0, EMod (ERead (mex_I 0)) 3);
    (mex_F 1, EMod (ERead (mex_I 1)) 2);
    (mex_P 0, EIf (ERead (mex_F 1)) (ERead (mex_F 0)) (EConst 7));
    (mex_P 1, EAdd (ERead (mex_P 0)) (ERead (mex_F 1)));
    (mex_N 0, EAdd (ERead (mex_P 1)) (ERead (mex_I 2)));
    (mex_N 1, EAdd (ERead (mex_N 0)) (ERead (mex_P 0))) ].

Ltac mwf_cases H := repeat (destruct H as [H|H]; [inversion H; subst; clear H|]); try destruct H.
Ltac min_cases H := cbn in H; repeat (destruct H as [H|H]; [subst|]); try destruct H.

Example mex_prog_wf : wf_model mex_prog.
Proof.
  split.
  - intros n e H. mwf_cases H; split; reflexivity.
  - intros n e d H Hd. mwf_cases H; min_cases Hd; (left; reflexivity) || (right; split; [reflexivity|discriminate]).
  - intros n e d H K Hd. mwf_cases H; try discriminate K; min_cases Hd; reflexivity.
  - exists (fun n => match nkind n with
                     | KFirewall => 1%nat | KProjection => (2 + N.to_nat (nidx n))%nat
                     | KNormal => (4 + N.to_nat (nidx n))%nat | _ => 0%nat end).
    intros n e d H Hd K. mwf_cases H; min_cases Hd; try discriminate K; cbn; lia.
Qed.

Definition mex_hist : list op :=
  [ OSession [(0%N, 1); (1%N, 1); (2%N, 10)] false; OQuery (mex_N 1); OQuery (mex_N 0);
    OSession [(0%N, 5)] false; OQuery (mex_N 0); OQuery (mex_N 1);
    OSession [(1%N, 2)] false; OQuery (mex_P 1); ORestart; OQuery (mex_N 1);
    OSession [(1%N, 3); (0%N, 4)] false; OQuery (mex_N 1) ].

Example mex_run :
  map r_out (run_history mex_prog init_state mex_hist) =
  [ RSession [SFresh; SFresh; SFresh]; RValue 13; RValue 12;
    RSession [SUpdated]; RValue 13; RValue 15;
    RSession [SUpdated]; RValue 7; RUnit; RValue 24;
    RSession [SUpdated; SUpdated]; RValue 13 ].
Proof. vm_compute. reflexivity. Qed.

(** the same history under the reversed schedule of the parallel tasks: same answers (the
    executor invocations of one operation may come in another order) *)
Definition ord_rev : oracle := fun _ _ l => rev l.
Lemma ord_rev_ok : order_ok ord_rev.
Proof. intros s x l. apply Permutation_rev. Qed.
Definition mex_hist2 : list op :=
  [ OSession [(0%N, 1); (1%N, 1); (2%N, 10)] false; OQuery (mex_N 1);
    OSession [(1%N, 3); (0%N, 4)] false; OQuery (mex_N 1) ].
Example mex_run_rev :
  map r_out (run_history_op ord_rev ord_rev ord_rev mex_prog init_state mex_hist) =
  map r_out (run_history mex_prog init_state mex_hist) /\
  map r_out (run_history_op ord_rev ord_rev ord_rev mex_prog init_state mex_hist2) =
  map r_out (run_history mex_prog init_state mex_hist2) /\
  map r_execs (run_history_o ord_rev ord_rev mex_prog init_state mex_hist2) <>
  map r_execs (run_history mex_prog init_state mex_hist2).
Proof. split; [vm_compute; reflexivity|]. split; [vm_compute; reflexivity|vm_compute; discriminate]. Qed.
(** the hypothesis on the oracles is needed: an oracle that drops tasks (any of the three kinds)
    makes the fifth operation answer the stale 12 instead of 13 *)
Definition ord_nil : oracle := fun _ _ _ => [].
Example mex_order_needed :
  nth_error (map r_out (run_history mex_prog init_state mex_hist)) 4 = Some (RValue 13) /\
  nth_error (map r_out (run_history_o ord_nil ord_id mex_prog init_state mex_hist)) 4 = Some (RValue 12) /\
  nth_error (map r_out (run_history_o ord_id ord_nil mex_prog init_state mex_hist)) 4 = Some (RValue 12) /\
  nth_error (map r_out (run_history_op ord_id ord_id ord_nil mex_prog init_state mex_hist)) 4 = Some (RValue 12).
Proof. repeat split; vm_compute; reflexivity. Qed.

(** * example with unordered groups (a projection over a group of firewalls) *)
Definition mexg_prog : program :=
  [ (mex_F 0, EMod (ERead (mex_I 0)) 3);
    (mex_F 1, EMod (ERead (mex_I 1)) 2);
    (mex_P 0, EGroup [mex_F 0; mex_F 1]);
    (mex_N 0, EGroup [mex_F 0; mex_P 0; mex_I 2]);
    (mex_N 1, EAdd (ERead (mex_N 0)) (EGroup [mex_F 1; mex_F 1])) ].
Example mexg_prog_wf : wf_model_g mexg_prog.
Proof.
  split.
  - intros n e H. mwf_cases H; reflexivity.
  - intros n e d H Hd. mwf_cases H; min_cases Hd; (left; reflexivity) || (right; split; [reflexivity|discriminate]).
  - intros n e d H K Hd. mwf_cases H; try discriminate K; min_cases Hd; reflexivity.
  - exists (fun n => match nkind n with
                     | KFirewall => 1%nat | KProjection => (2 + N.to_nat (nidx n))%nat
                     | KNormal => (4 + N.to_nat (nidx n))%nat | _ => 0%nat end).
    intros n e d H Hd K. mwf_cases H; min_cases Hd; try discriminate K; cbn; lia.
Qed.
Definition mexg_hist : list op :=
  [ OSession [(0%N, 4); (1%N, 1); (2%N, 10)] false; OQuery (mex_N 1);
    OSession [(0%N, 5)] false; OQuery (mex_N 0); OQuery (mex_N 1);
    OSession [(1%N, 2); (2%N, 3)] false; OQuery (mex_N 1) ].
Example mexg_run :
  map r_out (run_history mexg_prog init_state mexg_hist) =
  [ RSession [SFresh; SFresh; SFresh]; RValue 15;
    RSession [SUpdated]; RValue 15; RValue 17;
    RSession [SUpdated; SUpdated]; RValue 7 ].
Proof. vm_compute. reflexivity. Qed.

(** * example with external inputs: first demand, a world change that is not seen, a refresh *)
Definition mex_X (k : N) := mkNode KExternal k.
Definition mexx_prog : program :=
  [ (mex_F 0, EAdd (ERead (mex_X 0)) (ERead (mex_I 0)));
    (mex_P 0, ERead (mex_F 0));
    (mex_N 0, EIf (ERead (mex_I 1)) (EGroup [mex_X 1; mex_P 0]) (ERead (mex_P 0))) ].
Example mexx_prog_wf : wf_model_x mexx_prog.
Proof.
  split.
  - intros n e H. mwf_cases H; reflexivity.
  - intros n e d H Hd. mwf_cases H; min_cases Hd; (left; reflexivity) || (right; split; [reflexivity|discriminate]).
  - intros n e d H K Hd. mwf_cases H; try discriminate K; min_cases Hd; reflexivity.
  - exists (fun n => match nkind n with
                     | KFirewall => 1%nat | KProjection => 2%nat | KNormal => 3%nat | _ => 0%nat end).
    intros n e d H Hd K. mwf_cases H; min_cases Hd; try discriminate K; cbn; lia.
Qed.
Definition mexx_hist : list op :=
  [ OSetWorld 0 5; OSetWorld 1 7; OSession [(0%N, 1); (1%N, 0)] false; OQuery (mex_N 0);
    OSetWorld 0 6; OQuery (mex_N 0);
    OSession [(1%N, 1)] false; OQuery (mex_N 0);
    OSetWorld 1 9; OSession [] true; OQuery (mex_N 0); OQuery (mex_X 1) ].
Example mexx_run :
  map r_out (run_history mexx_prog init_state mexx_hist) =
  [ RUnit; RUnit; RSession [SFresh; SFresh]; RValue 6; RUnit; RValue 6;
    RSession [SUpdated]; RValue 13; RUnit; RSession []; RValue 16; RValue 9 ].
Proof. vm_compute. reflexivity. Qed.
Example mexx_spec :
  map (fun k => mxexpr 50 mexx_prog
                  (inputs_after (firstn k mexx_hist),
                   ext_after (firstn (S k) mexx_hist) (firstn (S k) (run_history mexx_prog init_state mexx_hist)))
                  (ERead (mex_N 0))) [3; 5; 7; 10]%nat
  = [Some 6; Some 6; Some 13; Some 16].
Proof. vm_compute. reflexivity. Qed.

Print Assumptions model_sound_x_f.
Print Assumptions model_sound_x.
Print Assumptions model_sound_g_f.
Print Assumptions model_sound_g.
Print Assumptions model_sound_f.
Print Assumptions model_sound.
Print Assumptions model_sound_unguarded_refuted.
