(** Soundness of the full engine model [Engine/Model.v] on programs with inputs, Normal,
    Firewall and Projection queries (C01): every answer is the from-scratch value for the
    inputs committed so far, for every well-formed program, every history of sessions (without
    refresh), queries and restarts, and every amount of fuel.  Statements: [Engine/MdlSpec.v]. *)
From QV Require Import Common.Prelude Engine.Model Engine.Core Engine.CoreSpec Engine.CoreInvBase
  Engine.CoreInvSem Engine.Fw Engine.FwBase Engine.FwMono Engine.FwOnce Engine.FwInv Engine.FwRun
  Engine.MdlSpec Engine.MdlSem Engine.MdlBase Engine.MdlMono Engine.MdlInv Engine.MdlInvState Engine.MdlInvExec
  Engine.MdlInvClean Engine.MdlRunBase Engine.MdlRun Engine.MdlRunAux Engine.MdlRunAll Engine.MdlCommit.
Open Scope Z_scope.

Lemma wf_model_x_facts : forall p, wf_model_x p ->
  exists rk : node -> nat,
    (forall n e d, alookup p n = Some e -> In d (expr_reads e) -> (rk d < rk n)%nat) /\
    (forall n e d, alookup p n = Some e -> nkind n = KProjection -> In d (expr_reads e) -> is_fw_or_proj (nkind d) = true) /\
    (forall n e, alookup p n = Some e -> is_mexec_kind (nkind n) = true).
Proof.
  intros p [Hkeys Htargets Hprj [rank Hrank]].
  exists (fun n => if is_mexec_kind (nkind n) then S (rank n) else O).
  split; [|split].
  - intros n e d He Hd. apply alookup_In in He. rewrite (Hkeys n e He).
    destruct (Htargets n e d He Hd) as [Kd|[Kd _]].
    + destruct (nkind d); try discriminate; cbn; lia.
    + rewrite Kd. specialize (Hrank n e d He Hd Kd). lia.
  - intros n e d He K Hd. apply alookup_In in He. eapply Hprj; eauto.
  - intros n e He. apply alookup_In in He. apply (Hkeys n e He).
Qed.

Lemma step_f_session : forall fuel pfuel p s sets,
  step_f fuel pfuel p s (OSession sets false) =
  let s := set_log s [] in
  let s0 := set_ts s (s_ts s + 1)%N in
  let '(s1, rs, batch) := fold_left fsess_step sets (s0, [], []) in
  let s3 := set_visited (set_stat s1 0%N) [] in
  match propagate pfuel s3 batch with
  | Ok s4 => (s4, mkRes (RSession rs) (rev (s_log s4)) None)
  | _ => (s3, mkRes RFuel [] None)
  end.
Proof.
  intros. unfold step_f, fsess_step. cbv zeta.
  match goal with |- context [fold_left ?F sets ?A] => destruct (fold_left F sets A) as [[s1 rs] batch] end.
  reflexivity.
Qed.
Lemma step_f_session_gen : forall fuel pfuel p s sets refresh,
  step_f fuel pfuel p s (OSession sets refresh) =
  let s := set_log s [] in
  let s0 := set_ts s (s_ts s + 1)%N in
  let '(s1, rs, batch) := fold_left fsess_step sets (s0, [], []) in
  let '(s2, batch2) := if refresh then fold_left refresh_step (s_ext s1) (s1, batch) else (s1, batch) in
  let s3 := set_visited (set_stat s2 0%N) [] in
  match propagate pfuel s3 batch2 with
  | Ok s4 => (s4, mkRes (RSession rs) (rev (s_log s4)) None)
  | _ => (s3, mkRes RFuel [] None)
  end.
Proof.
  intros. unfold step_f, fsess_step, refresh_step. cbv zeta.
  match goal with |- context [fold_left ?F sets ?A] => destruct (fold_left F sets A) as [[s1 rs] batch] end.
  destruct refresh; reflexivity.
Qed.

(** the environment after an operation *)
Definition env_step (env : menv) (s : state) (o : op) (s' : state) : menv :=
  match o with
  | OSession sets refresh =>
      (fold_left (fun a '(i, v) => input_set a i v) sets (fst env),
       if refresh then xref (set_log s []) (s_ext s) (snd env) else snd env)
  | OSetWorld i v =>
      (fst env, fun k => match get_info s (ext_node k) with Some _ => snd env k | None => Some (world_get s' k) end)
  | _ => env
  end.
Lemma env_step_inputs : forall env s o s', fst (env_step env s o s') = apply_op (fst env) o.
Proof. intros env s o s'. destruct o; reflexivity. Qed.

Section Steps.
Variable p : program.
Variable rk : node -> nat.
Hypothesis Hrk : forall n e d, alookup p n = Some e -> In d (expr_reads e) -> (rk d < rk n)%nat.
Hypothesis Hproj : forall n e d, alookup p n = Some e -> nkind n = KProjection -> In d (expr_reads e) ->
  is_fw_or_proj (nkind d) = true.
Hypothesis Hkeys : forall n e, alookup p n = Some e -> is_mexec_kind (nkind n) = true.

(** the invariant between operations: every operation starts by emptying the log *)
Definition BInv (env : menv) (s : state) : Prop := MInv p rk (set_log s []) [] env (set_log s []).

Lemma root_query : forall fuel env s n o fr ms s1,
  BInv env s ->
  query_for p None fuel [] CUser None n (set_log s []) = Ok (o, fr, ms, s1) ->
  MInv p rk (set_log s []) [] env s1 /\
  exists i, get_info s1 n = Some i /\ i_verified i = s_ts s1 /\ o = QValue (Some (i_value i)).
Proof.
  intros fuel env s n o fr ms s1 HI0 Eq.
  destruct (proj1 (msound_all p rk (set_log s []) Hrk Hproj Hkeys fuel) env [] [] [] CUser None n _ o fr ms s1
              HI0 (StkOk_nil rk n) (fun _ => eq_refl) I eq_refl eq_refl (or_introl eq_refl) Eq)
    as (HI1 & _ & _ & i & Hi & Hv & Ho).
  split; [exact HI1|]. exists i. auto.
Qed.

Lemma BInv_of : forall sA env s, MInv p rk sA [] env s -> BInv env s.
Proof. intros sA env s HI. eapply MInv_rebase; [| | | | | | | |exact HI]; try reflexivity. left. reflexivity. Qed.

(** one operation keeps the invariant (a session must not have run out of fuel) *)
Lemma mstep_inv : forall fuel pfuel s o s' r env,
  BInv env s -> step_f fuel pfuel p s o = (s', r) ->
  (forall sets b, o = OSession sets b -> r_out r <> RFuel) ->
  BInv (env_step env s o s') s'.
Proof.
  intros fuel pfuel s o s' r env HI0 H Hfuel. destruct o as [sets b|n|w v|].
  - rewrite step_f_session_gen in H. cbv zeta in H.
    destruct (fold_left fsess_step sets (set_ts (set_log s []) (s_ts (set_log s []) + 1)%N, [], []))
      as [[s1 rs] batch] eqn:Ef.
    pose proof (sess_fold_MSess p rk Hrk Hproj _ _ _ _ _ _ _ _ _ (MSess_init p rk Hrk Hproj _ _ _ HI0) Ef) as HS1.
    destruct (if b then fold_left refresh_step (s_ext s1) (s1, batch) else (s1, batch)) as [s2 batch2] eqn:Er.
    assert (HS2 : MSess (set_log s []) s2 (env_step env s (OSession sets b) s') batch2).
    { cbn [env_step]. destruct b.
      - pose proof (refresh_fold_MSess p rk Hrk Hproj _ (s_ext s1) _ _ _ s2 batch2 HS1) as Q. cbn [fst snd] in Q.
        assert (Ex : s_ext s1 = s_ext s) by (rewrite (ms_ext _ _ _ _ HS1); reflexivity).
        rewrite <- Ex. apply Q; [|exact Er].
        intros e He. rewrite Ex in He. eapply (mi_ext _ _ _ _ _ _ _ HI0). exact He.
      - inversion Er. subst. exact HS1. }
    destruct (propagate pfuel (set_visited (set_stat s2 0%N) []) batch2) as [s4| | |] eqn:Ep;
      inversion H; subst; try (exfalso; eapply Hfuel; eauto; reflexivity).
    eapply (MInv_of_MSess p rk Hrk Hproj _ env); eauto.
  - unfold step_f in H. cbn [env_step].
    destruct (query_for p None fuel [] CUser None n (set_log s [])) as [[[[o fr] ms] s1]| | |] eqn:Eq.
    + destruct (root_query _ _ _ _ _ _ _ _ HI0 Eq) as [HI1 _].
      destruct o as [[z|]|]; inversion H; subst; eapply BInv_of; exact HI1.
    + inversion H. subst. eapply BInv_of; exact HI0.
    + inversion H. subst. eapply BInv_of; exact HI0.
    + inversion H. subst. eapply BInv_of; exact HI0.
  - cbn in H. inversion H. subst s' r. clear H. cbn [env_step]. unfold BInv.
    set (s1 := set_log s []) in *.
    set (t := set_log (set_world s1 ((w, v) :: filter (fun '(k, _) => negb (k =? w)%N) (s_world s1))) []).
    set (env' := (fst env, fun k => match get_info s (ext_node k) with
                                    | Some _ => snd env k
                                    | None => Some (world_get (set_world s1 ((w, v) :: filter (fun '(k, _) => negb (k =? w)%N) (s_world s1))) k) end)).
    apply (MInv_same3 p rk s1 t noE [] env env' s1 t); try reflexivity; [left; reflexivity| | | | | | |exact HI0].
    + intros n i Hi Hl. unfold leaf_val, env'. cbn [fst snd]. destruct (nkind n) eqn:Kn; try reflexivity.
      change (get_info s (ext_node (nidx n))) with (get_info s1 (ext_node (nidx n))).
      rewrite <- (node_ext_eta n Kn), Hi. reflexivity.
    + intros n i Hi Hv. eapply (respec p rk Hrk _ _ _ env env' s1 HI0 eq_refl) with (k0 := S (rk n)); [|lia|exact Hi|left; exists i; auto].
      intros k j Hj. unfold env'. cbn [snd]. change (get_info s (ext_node k)) with (get_info s1 (ext_node k)). rewrite Hj.
      destruct (mi_kind _ _ _ _ _ _ _ HI0 (ext_node k) j Hj) as [(_ & _ & _ & _ & K5)|(K & _)]; [exact K5|discriminate].
    + intros k Hk. unfold env'. cbn [snd]. change (get_info s (ext_node k)) with (get_info s1 (ext_node k)). rewrite Hk. reflexivity.
    + intros m [].
    + intro m. right. reflexivity.
    + intros m i Hi. right. exists i. split; [exact Hi|]. intros. reflexivity.
  - cbn in H. inversion H. subst. cbn [env_step]. unfold BInv.
    eapply MInv_rebase; [| | | | | | | |exact HI0]; try reflexivity. right. reflexivity.
Qed.
End Steps.

(** the hypothesis on fuel is needed, as for the fragments: a session whose dirty propagation
    ran out of the model's fixed fuel keeps the inputs without the dirt *)
Definition model_sound_statement_unguarded : Prop :=
  forall p ops i n r z, wf_model p -> Forall op_in_scope ops ->
    nth_error ops i = Some (OQuery n) ->
    nth_error (run_history p init_state ops) i = Some r ->
    r_out r = RValue z ->
    MdlSpec p (inputs_after (firstn i ops)) n z.

Definition mcex_I0 := mkNode KInput 0.
Definition mcex_F0 := mkNode KFirewall 0.
Definition mcex_prog : program := [(mcex_F0, ERead mcex_I0)].
Fixpoint mcex_alt (k : nat) : list (N * Z) :=
  match k with O => [] | S k' => (0%N, 5) :: (0%N, 2) :: mcex_alt k' end.
Definition mcex_hist : list op :=
  [OSession [(0%N, 1)] false; OQuery mcex_F0; OSession (mcex_alt 2100) false; OQuery mcex_F0].

Lemma mcex_prog_wf : wf_model mcex_prog.
Proof.
  split.
  - intros n e [H|[]]. inversion H. subst. split; reflexivity.
  - intros n e d [H|[]] Hd. inversion H. subst. destruct Hd as [<-|[]]. left. reflexivity.
  - intros n e d [H|[]] K. inversion H. subst. discriminate.
  - exists (fun _ => O). intros n e d [H|[]] Hd K. inversion H. subst. destruct Hd as [<-|[]]. discriminate.
Qed.

Theorem model_sound_unguarded_refuted : ~ model_sound_statement_unguarded.
Proof.
  intro H.
  assert (Hrun : exists r, nth_error (run_history mcex_prog init_state mcex_hist) 3 = Some r /\ r_out r = RValue 1).
  { eexists. split; [vm_compute; reflexivity|reflexivity]. }
  destruct Hrun as [r [Hr Hz]].
  assert (Hsc : Forall op_in_scope mcex_hist).
  { repeat constructor; cbn; discriminate. }
  specialize (H mcex_prog mcex_hist 3%nat mcex_F0 r 1 mcex_prog_wf Hsc eq_refl Hr Hz).
  apply MdlSpec_MSpecI in H.
  assert (H2 : MSpecI mcex_prog (inputs_after (firstn 3 mcex_hist)) mcex_F0 2).
  { apply MdlSpec_MSpecI. exists 5%nat. vm_compute. reflexivity. }
  pose proof (MSpecI_det _ _ _ _ _ H H2). discriminate.
Qed.

(** * example: a projection that switches between firewalls, projections over projections *)
Definition mex_I (k : N) := mkNode KInput k.
Definition mex_N (k : N) := mkNode KNormal k.
Definition mex_F (k : N) := mkNode KFirewall k.
Definition mex_P (k : N) := mkNode KProjection k.
Definition mex_prog : program :=
  [ (mex_F 0, EMod (ERead (mex_I 0)) 3);
    (mex_F 1, EMod (ERead (mex_I 1)) 2);
    (mex_P 0, EIf (ERead (mex_F 1)) (ERead (mex_F 0)) (EConst 7));
    (mex_P 1, EAdd (ERead (mex_P 0)) (ERead (mex_F 1)));
    (mex_N 0, EAdd (ERead (mex_P 1)) (ERead (mex_I 2)));
    (mex_N 1, EAdd (ERead (mex_N 0)) (ERead (mex_P 0))) ].

Ltac mwf_cases H := repeat (destruct H as [H|H]; [inversion H; subst; clear H|]); try destruct H.
Ltac min_cases H := cbn in H; repeat (destruct H as [H|H]; [subst|]); try destruct H.

Example mex_prog_wf : wf_model mex_prog.
Proof.
  split.
  - intros n e H. mwf_cases H; split; reflexivity.
  - intros n e d H Hd. mwf_cases H; min_cases Hd; (left; reflexivity) || (right; split; [reflexivity|discriminate]).
  - intros n e d H K Hd. mwf_cases H; try discriminate K; min_cases Hd; reflexivity.
  - exists (fun n => match nkind n with
                     | KFirewall => 1%nat | KProjection => (2 + N.to_nat (nidx n))%nat
                     | KNormal => (4 + N.to_nat (nidx n))%nat | _ => 0%nat end).
    intros n e d H Hd K. mwf_cases H; min_cases Hd; try discriminate K; cbn; lia.
Qed.

Definition mex_hist : list op :=
  [ OSession [(0%N, 1); (1%N, 1); (2%N, 10)] false; OQuery (mex_N 1); OQuery (mex_N 0);
    OSession [(0%N, 5)] false; OQuery (mex_N 0); OQuery (mex_N 1);
    OSession [(1%N, 2)] false; OQuery (mex_P 1); ORestart; OQuery (mex_N 1);
    OSession [(1%N, 3); (0%N, 4)] false; OQuery (mex_N 1) ].

Example mex_run :
  map r_out (run_history mex_prog init_state mex_hist) =
  [ RSession [SFresh; SFresh; SFresh]; RValue 13; RValue 12;
    RSession [SUpdated]; RValue 13; RValue 15;
    RSession [SUpdated]; RValue 7; RUnit; RValue 24;
    RSession [SUpdated; SUpdated]; RValue 13 ].
Proof. vm_compute. reflexivity. Qed.

(** * example with unordered groups (a projection over a group of firewalls) *)
Definition mexg_prog : program :=
  [ (mex_F 0, EMod (ERead (mex_I 0)) 3);
    (mex_F 1, EMod (ERead (mex_I 1)) 2);
    (mex_P 0, EGroup [mex_F 0; mex_F 1]);
    (mex_N 0, EGroup [mex_F 0; mex_P 0; mex_I 2]);
    (mex_N 1, EAdd (ERead (mex_N 0)) (EGroup [mex_F 1; mex_F 1])) ].
Example mexg_prog_wf : wf_model_g mexg_prog.
Proof.
  split.
  - intros n e H. mwf_cases H; reflexivity.
  - intros n e d H Hd. mwf_cases H; min_cases Hd; (left; reflexivity) || (right; split; [reflexivity|discriminate]).
  - intros n e d H K Hd. mwf_cases H; try discriminate K; min_cases Hd; reflexivity.
  - exists (fun n => match nkind n with
                     | KFirewall => 1%nat | KProjection => (2 + N.to_nat (nidx n))%nat
                     | KNormal => (4 + N.to_nat (nidx n))%nat | _ => 0%nat end).
    intros n e d H Hd K. mwf_cases H; min_cases Hd; try discriminate K; cbn; lia.
Qed.
Definition mexg_hist : list op :=
  [ OSession [(0%N, 4); (1%N, 1); (2%N, 10)] false; OQuery (mex_N 1);
    OSession [(0%N, 5)] false; OQuery (mex_N 0); OQuery (mex_N 1);
    OSession [(1%N, 2); (2%N, 3)] false; OQuery (mex_N 1) ].
Example mexg_run :
  map r_out (run_history mexg_prog init_state mexg_hist) =
  [ RSession [SFresh; SFresh; SFresh]; RValue 15;
    RSession [SUpdated]; RValue 15; RValue 17;
    RSession [SUpdated; SUpdated]; RValue 7 ].
Proof. vm_compute. reflexivity. Qed.

Print Assumptions model_sound_g_f.
Print Assumptions model_sound_g.
Print Assumptions model_sound_f.
Print Assumptions model_sound.
Print Assumptions model_sound_unguarded_refuted.
