(** Commit of an input session: writing the inputs ([cset_input]) and the dirty propagation
    ([cpropagate]) take a state satisfying the invariant for the old inputs to a state
    satisfying it for the new inputs. *)
From QV Require Import Common.Prelude Engine.Model Engine.Core Engine.CoreSpec
  Engine.CoreInvBase Engine.CoreInvSem Engine.CoreInvState.
Open Scope Z_scope.

Lemma input_get_set : forall inp i v k,
  input_get (input_set inp i v) k = if (k =? i)%N then Some v else input_get inp k.
Proof.
  intros inp i v k. unfold input_get, input_set. cbn [find].
  destruct (N.eqb_spec i k) as [->|Hne].
  - rewrite N.eqb_refl. reflexivity.
  - destruct (N.eqb_spec k i) as [->|_]; [congruence|].
    induction inp as [|[k' v'] r IH]; cbn [filter find]; [reflexivity|].
    destruct (N.eqb_spec k' i) as [->|Hne']; cbn [negb].
    + destruct (N.eqb_spec i k); [congruence|]. exact IH.
    + cbn [find]. destruct (k' =? k)%N; [reflexivity|exact IH].
Qed.

Lemma input_node_eta : forall m, nkind m = KInput -> m = mkNode KInput (nidx m).
Proof. intros [k i] H. cbn in *. subst. reflexivity. Qed.

(** * dirty propagation *)
Lemma cmark_spec : forall cs s x work s2 work',
  cmark s x cs work = (s2, work') ->
  work' = work ++ cs /\ cs_nodes s2 = cs_nodes s /\ cs_bwd s2 = cs_bwd s /\ cs_ts s2 = cs_ts s /\
  cs_visited s2 = cs_visited s /\ cs_log s2 = cs_log s /\
  (forall a b, dirty s2 a b <-> dirty s a b \/ (b = x /\ In a cs)).
Proof.
  induction cs as [|c r IH]; intros s x work s2 work' H; cbn [cmark] in H.
  - inversion H. subst. rewrite app_nil_r. repeat (split; [reflexivity|]). intros. cbn [In]. tauto.
  - apply IH in H. destruct H as (A & B & C & D & E & F & G). cbn [cset_stat cset_dirty cs_nodes cs_bwd cs_ts cs_visited cs_log] in *.
    split; [rewrite A, <- app_assoc; reflexivity|]. repeat (split; [assumption|]).
    intros a b. rewrite G. unfold dirty. cbn [cset_stat cset_dirty cs_dirty]. rewrite eadd_In. cbn [In]. split.
    + intros [[K|K]|[K1 K2]]; [inversion K; subst; auto|auto|auto].
    + intros [K|[K1 [K2|K2]]]; [auto|subst; auto|auto].
Qed.

Section Propagate.
Variable batch : list node.

Record PInv (s : cstate) (work : list node) : Prop := {
  pi_visited : forall x c, In x (cs_visited s) -> In c (ccallers s x) -> dirty s c x;
  pi_pending : forall d d', dirty s d d' ->
     In d (cs_visited s) \/ In d work \/ (forall c, In c (ccallers s d) -> dirty s c d);
  pi_batch : forall x, In x batch -> In x (cs_visited s) \/ In x work;
}.

Lemma cpropagate_spec : forall fuel s work s',
  cpropagate fuel s work = Ok s' -> PInv s work ->
  cs_nodes s' = cs_nodes s /\ cs_bwd s' = cs_bwd s /\ cs_ts s' = cs_ts s /\ cs_log s' = cs_log s /\
  (forall a b, dirty s a b -> dirty s' a b) /\
  (forall a b, dirty s' a b -> dirty s a b \/ In a (ccallers s b)) /\
  PInv s' [].
Proof.
  induction fuel as [|f IH]; intros s work s' H HP; [discriminate|]. cbn [cpropagate] in H.
  destruct work as [|x r].
  - inversion H. subst. repeat (split; [reflexivity|]). split; [auto|]. split; [auto|]. exact HP.
  - destruct (nmem x (cs_visited s)) eqn:Ev.
    + apply nmem_In in Ev. apply IH in H; [exact H|]. destruct HP as [P1 P2 P3]. split.
      * exact P1.
      * intros d d' K. destruct (P2 d d' K) as [K1|[[<-|K1]|K1]]; auto.
      * intros y Hy. destruct (P3 y Hy) as [K1|[<-|K1]]; auto.
    + apply nmem_false in Ev.
      destruct (cmark (cset_visited s (x :: cs_visited s)) x (ccallers (cset_visited s (x :: cs_visited s)) x) r)
        as [s2 work'] eqn:Em.
      apply cmark_spec in Em. destruct Em as (A & B & C & D & E & F & G).
      cbn [cset_visited cs_nodes cs_bwd cs_ts cs_visited cs_log] in *.
      assert (Hcal : forall y, ccallers s2 y = ccallers s y) by (intro y; unfold ccallers; rewrite C; reflexivity).
      assert (Hcal0 : ccallers (cset_visited s (x :: cs_visited s)) x = ccallers s x) by reflexivity.
      rewrite Hcal0 in *.
      assert (G' : forall a b, dirty s2 a b <-> dirty s a b \/ (b = x /\ In a (ccallers s x))) by exact G.
      clear G. apply IH in H.
      * destruct H as (H1 & H2 & H3 & H4 & H5 & H6 & H7).
        split; [congruence|]. split; [congruence|]. split; [congruence|]. split; [congruence|].
        split; [intros a b K; apply H5; apply G'; auto|]. split; [|exact H7].
        intros a b K. apply H6 in K. destruct K as [K|K].
        -- apply G' in K. destruct K as [K|[-> K]]; auto.
        -- right. rewrite Hcal in K. exact K.
      * destruct HP as [P1 P2 P3]. split.
        -- intros y c Hy Hc. rewrite E in Hy. rewrite Hcal in Hc. apply G'. destruct Hy as [<-|Hy]; auto.
        -- intros d d' K. rewrite E. apply G' in K. destruct K as [K|[-> K]].
           ++ destruct (P2 d d' K) as [K1|[[<-|K1]|K1]].
              ** left. right. exact K1.
              ** left. left. reflexivity.
              ** right. left. rewrite A. apply in_or_app. auto.
              ** right. right. intros c Hc. rewrite Hcal in Hc. apply G'. auto.
           ++ right. left. rewrite A. apply in_or_app. auto.
        -- intros y Hy. rewrite E. destruct (P3 y Hy) as [K1|[<-|K1]].
           ++ left. right. exact K1.
           ++ left. left. reflexivity.
           ++ right. rewrite A. apply in_or_app. auto.
Qed.
End Propagate.

(** * the session fold *)
Definition sess_step : cstate * list sres * list node -> N * Z -> cstate * list sres * list node :=
  fun '(s, rs, batch) '(v, x) =>
    let n := mkNode KInput v in
    let r := match cget s n with
             | None => SFresh
             | Some i => if c_value i =? x then SUnchanged else SUpdated end in
    (cset_input s n x, rs ++ [r], match r with SUpdated => batch ++ [n] | _ => batch end).
Lemma sess_step_eq : forall s rs batch v x,
  sess_step (s, rs, batch) (v, x) =
  (cset_input s (mkNode KInput v) x,
   rs ++ [match cget s (mkNode KInput v) with
          | None => SFresh
          | Some i => if c_value i =? x then SUnchanged else SUpdated end],
   match (match cget s (mkNode KInput v) with
          | None => SFresh
          | Some i => if c_value i =? x then SUnchanged else SUpdated end) with
   | SUpdated => batch ++ [mkNode KInput v] | _ => batch end).
Proof. reflexivity. Qed.

Lemma cstep_session : forall fuel p s sets b,
  cstep_f fuel p s (OSession sets b) =
  let s := cset_log s [] in
  let s0 := cset_ts s (cs_ts s + 1)%N in
  let '(s1, rs, batch) := fold_left sess_step sets (s0, [], []) in
  let s3 := cset_visited (cset_stat s1 0%N) [] in
  match cpropagate (fuel * 10) s3 batch with
  | Ok s4 => (s4, mkRes (RSession rs) [] None)
  | _ => (s3, mkRes RFuel [] None)
  end.
Proof. reflexivity. Qed.

Definition hasfwd (s : cstate) (m d : node) : Prop := exists i, cget s m = Some i /\ In d (c_fwd i).

Section Commit.
Variable p : program.
Variable rk : node -> nat.
Hypothesis Hrk : forall n e d, alookup p n = Some e -> In d (expr_reads e) -> (rk d < rk n)%nat.

(** what the fold keeps, relative to the state [s] before the session *)
Record SessInv (s : cstate) (cur : cstate) (acc : inputs) (batch : list node) : Prop := {
  si_bwd : cs_bwd cur = cs_bwd s;
  si_dirty : cs_dirty cur = cs_dirty s;
  si_ts : cs_ts cur = (cs_ts s + 1)%N;
  si_other : forall m, nkind m <> KInput -> cget cur m = cget s m;
  si_input : forall m i, nkind m = KInput -> cget cur m = Some i ->
     c_fwd i = [] /\ (forall d, alookup (c_obs i) d = None) /\
     input_get acc (nidx m) = Some (c_value i) /\ (c_verified i <= cs_ts s + 1)%N;
  si_keep : forall m i0, nkind m = KInput -> cget s m = Some i0 ->
     exists i, cget cur m = Some i /\ (~ In m batch -> c_value i = c_value i0);
}.

Lemma cset_input_nofwd : forall s n v, old_fwd s n = [] ->
  cs_bwd (cset_input s n v) = cs_bwd s /\ cs_dirty (cset_input s n v) = cs_dirty s.
Proof using Type.
  intros s n v H. unfold cset_input, old_fwd in *. destruct (cget s n) as [i|].
  - rewrite H. cbn. auto.
  - cbn. auto.
Qed.

Lemma sess_fold_inv : forall s sets cur acc rs batch cur' rs' batch',
  SessInv s cur acc batch ->
  fold_left sess_step sets (cur, rs, batch) = (cur', rs', batch') ->
  SessInv s cur' (fold_left (fun a '(i, v) => input_set a i v) sets acc) batch'.
Proof using Type.
  clear Hrk rk.
  intros s. induction sets as [|[v x] r IH]; intros cur acc rs batch cur' rs' batch' HS H; cbn [fold_left] in *.
  - inversion H. subst. exact HS.
  - rewrite sess_step_eq in H. eapply IH; [|exact H]. clear IH H.
    set (n := mkNode KInput v).
    set (res := match cget cur n with None => SFresh | Some i => if c_value i =? x then SUnchanged else SUpdated end).
    destruct HS as [A B C D E F].
    assert (Hof : old_fwd cur n = []).
    { unfold old_fwd. destruct (cget cur n) as [i|] eqn:Ei; [|reflexivity]. apply (E n i eq_refl Ei). }
    destruct (cset_input_nofwd cur n x Hof) as [K1 K2].
    split.
    + congruence.
    + congruence.
    + rewrite cset_input_ts. exact C.
    + intros m Hm. rewrite cset_input_cget. destruct (node_eqb_spec n m) as [<-|Hne]; [exfalso; apply Hm; reflexivity|].
      apply D. exact Hm.
    + intros m i Hm Hi. rewrite cset_input_cget in Hi. rewrite input_get_set.
      destruct (node_eqb_spec n m) as [<-|Hne].
      * inversion Hi. subst i. cbn [c_fwd c_obs c_value c_verified nidx n]. rewrite N.eqb_refl.
        split; [reflexivity|]. split; [reflexivity|]. split; [reflexivity|]. lia.
      * destruct (N.eqb_spec (nidx m) v) as [Ev|Ev].
        -- exfalso. apply Hne. rewrite (input_node_eta m Hm). unfold n. congruence.
        -- apply E; assumption.
    + intros m i0 Hm Hi0. destruct (F m i0 Hm Hi0) as [i [Hi Hv]]. rewrite cset_input_cget.
      destruct (node_eqb_spec n m) as [<-|Hne].
      * eexists. split; [reflexivity|]. cbn [c_value]. intro Hnb. unfold res in Hnb. rewrite Hi in Hnb.
        destruct (c_value i =? x) eqn:Ex.
        -- apply Z.eqb_eq in Ex. rewrite <- Ex. apply Hv. exact Hnb.
        -- exfalso. apply Hnb. apply in_or_app. right. left. reflexivity.
      * exists i. split; [exact Hi|]. intro Hnb. apply Hv. intro K. apply Hnb.
        destruct res; auto. apply in_or_app. auto.
Qed.

Lemma SessInv_init : forall inp s, CInv p inp s -> SessInv s (cset_ts s (cs_ts s + 1)%N) inp [].
Proof using Type.
  clear Hrk rk.
  intros inp s HI.
  split; try reflexivity.
    - intros m i Hm Hi. change (cget s m = Some i) in Hi.
      destruct (ci_kind _ _ _ HI m i Hi) as [(K1 & K2 & K3)|[K1 _]]; [|congruence].
      split; [exact K2|]. split; [|split; [exact K3|]].
      + intro d. destruct (alookup (c_obs i) d) eqn:Eo; [|reflexivity].
        apply (ci_obs_fwd _ _ _ HI _ _ _ _ Hi) in Eo. rewrite K2 in Eo. destruct Eo.
      + pose proof (ci_ts _ _ _ HI m i Hi). lia.
  - intros m i0 Hm Hi0. exists i0. split; [exact Hi0|reflexivity].
Qed.

Lemma CInv_commit : forall inp s sets fuel s1 rs batch s4,
  CInv p inp s ->
  fold_left sess_step sets (cset_ts s (cs_ts s + 1)%N, [], []) = (s1, rs, batch) ->
  cpropagate fuel (cset_visited (cset_stat s1 0%N) []) batch = Ok s4 ->
  CInv p (fold_left (fun a '(i, v) => input_set a i v) sets inp) s4.
Proof.
  intros inp s sets fuel s1 rs batch s4 HI Hfold Hprop.
  set (inp' := fold_left (fun a '(i, v) => input_set a i v) sets inp).
  pose proof (SessInv_init inp s HI) as HS0.
  pose proof (sess_fold_inv _ _ _ _ _ _ _ _ _ HS0 Hfold) as HS. fold inp' in HS.
  destruct HS as [A B C D E F].
  set (s3 := cset_visited (cset_stat s1 0%N) []) in *.
  assert (HP0 : PInv batch s3 batch).
  { split.
    - intros x c [].
    - intros d d' K. right. right. intros c Hc.
      assert (Kd : dirty s d d') by (unfold dirty in *; cbn in K; rewrite B in K; exact K).
      assert (Kc : In c (ccallers s d)) by (unfold ccallers in *; cbn in Hc; rewrite A in Hc; exact Hc).
      apply (ci_bwd _ _ _ HI) in Kc. destruct Kc as [i [Hi Hdi]].
      pose proof (ci_up _ _ _ HI c i d d' Hi Hdi Kd) as K2.
      unfold dirty in *. cbn. rewrite B. exact K2.
    - intros x Hx. right. exact Hx. }
  destruct (cpropagate_spec batch _ _ _ _ Hprop HP0) as (N1 & N2 & N3 & _ & N5 & N6 & [P1 P2 P3]).
  cbn [s3 cset_visited cset_stat cs_nodes cs_bwd cs_ts] in N1, N2, N3.
  assert (Hget : forall m, cget s4 m = cget s1 m) by (intro m; unfold cget; rewrite N1; reflexivity).
  assert (Hcal : forall y, ccallers s4 y = ccallers s y) by (intro y; unfold ccallers; rewrite N2, A; reflexivity).
  assert (Hts : cs_ts s4 = (cs_ts s + 1)%N) by congruence.
  assert (Hd_mono : forall a b, dirty s a b -> dirty s4 a b).
  { intros a b K. apply N5. unfold dirty in *. cbn. rewrite B. exact K. }
  assert (Hd_new : forall a b, dirty s4 a b -> dirty s a b \/ In a (ccallers s b)).
  { intros a b K. apply N6 in K. destruct K as [K|K].
    - left. unfold dirty in *. cbn in K. rewrite B in K. exact K.
    - right. unfold ccallers in *. cbn in K. rewrite A in K. exact K. }
  assert (HU : forall d d' c, dirty s4 d d' -> In c (ccallers s d) -> dirty s4 c d).
  { intros d d' c K Hc. rewrite <- Hcal in Hc. destruct (P2 d d' K) as [K1|[[]|K1]].
    - apply P1; assumption.
    - apply K1. exact Hc. }
  assert (Hbatch : forall x c, In x batch -> In c (ccallers s x) -> dirty s4 c x).
  { intros x c Hx Hc. rewrite <- Hcal in Hc. destruct (P3 x Hx) as [K|[]]. apply P1; assumption. }
  (* stored entries of s4: inputs written or kept, other nodes untouched *)
  assert (Hcases : forall m i, cget s4 m = Some i ->
            (nkind m = KInput /\ c_fwd i = [] /\ (forall d, alookup (c_obs i) d = None) /\
             input_get inp' (nidx m) = Some (c_value i) /\ (c_verified i <= cs_ts s + 1)%N)
            \/ (nkind m <> KInput /\ cget s m = Some i)).
  { intros m i Hi. rewrite Hget in Hi. destruct (kind_eqb (nkind m) KInput) eqn:Ek.
    - apply kind_eqb_eq in Ek. left. split; [exact Ek|]. apply (E m i Ek Hi).
    - right. assert (nkind m <> KInput) by (intro K; apply kind_eqb_eq in K; congruence).
      split; [assumption|]. rewrite <- D; assumption. }
  assert (Hfwd : forall m d, hasfwd s4 m d <-> hasfwd s m d).
  { intros m d. split.
    - intros [i [Hi Hdi]]. destruct (Hcases m i Hi) as [(_ & K & _)|[_ K]].
      + rewrite K in Hdi. destruct Hdi.
      + exists i. auto.
    - intros [i [Hi Hdi]]. destruct (ci_kind _ _ _ HI m i Hi) as [(_ & K & _)|[K _]].
      + rewrite K in Hdi. destruct Hdi.
      + exists i. split; [|exact Hdi]. rewrite Hget, D; [exact Hi|congruence]. }
  assert (Hstored : forall m, cget s m <> None -> cget s4 m <> None).
  { intros m Hm. rewrite Hget. destruct (cget s m) as [i0|] eqn:Ei0; [|congruence].
    destruct (kind_eqb (nkind m) KInput) eqn:Ek.
    - apply kind_eqb_eq in Ek. destruct (F m i0 Ek Ei0) as [i [Hi _]]. congruence.
    - rewrite D; [congruence|]. intro K. apply kind_eqb_eq in K. congruence. }
  (* the key step: a clean edge after propagation points at a node whose from-scratch value
     is the same for the old and the new inputs *)
  assert (Hclaim : forall k x, (rk x < k)%nat -> forall m, hasfwd s m x -> ~ dirty s4 m x ->
            forall v, SpecI p inp x v -> SpecI p inp' x v).
  { induction k as [|k IHk]; intros x Hk m [im [Him Hxm]] Hnd v Hv; [lia|].
    assert (Hmc : In m (ccallers s x)) by (apply (ci_bwd _ _ _ HI); exists im; auto).
    destruct (cget s x) as [ix|] eqn:Eix; [|exfalso; eapply (ci_target _ _ _ HI); eauto].
    destruct (ci_kind _ _ _ HI x ix Eix) as [(K1 & K2 & K3)|(K1 & e & Ke & Kev & Kr)].
    - assert (Hnb : ~ In x batch) by (intro K; apply Hnd; apply Hbatch; assumption).
      destruct (F x ix K1 Eix) as [i [Hi Hval]]. specialize (Hval Hnb).
      destruct (E x i K1 Hi) as (_ & _ & G3 & _).
      apply SpecI_input_inv in Hv; [|exact K1]. apply SpecI_input; [exact K1|]. congruence.
    - assert (Hsem : forall y, In y (c_fwd ix) -> exists vy, alookup (c_obs ix) y = Some vy /\
                        SpecI p inp y vy /\ SpecI p inp' y vy).
      { intros y Hy.
        assert (Hnd' : ~ dirty s4 x y) by (intro K; apply Hnd; eapply HU; eauto).
        destruct (ci_sem _ _ _ HI x ix y Eix Hy (fun K => Hnd' (Hd_mono _ _ K))) as [vy [O1 O2]].
        exists vy. split; [exact O1|]. split; [exact O2|].
        apply (IHk y) with (m := x); [|exists ix; auto|exact Hnd'|exact O2].
        specialize (Hrk _ _ _ Ke (Kr y Hy)). lia. }
      assert (V1 : SpecI p inp x (c_value ix)).
      { eapply replay_sound; eauto. intros y Hy. destruct (Hsem y Hy) as [vy (O1 & O2 & _)]. eauto. }
      assert (V2 : SpecI p inp' x (c_value ix)).
      { eapply replay_sound; eauto. intros y Hy. destruct (Hsem y Hy) as [vy (O1 & _ & O3)]. eauto. }
      rewrite (SpecI_det _ _ _ _ _ Hv V1). exact V2. }
  split.
  - intros m i Hi. destruct (Hcases m i Hi) as [(K1 & K2 & _ & K4 & _)|[K1 K2]].
    + left. auto.
    + destruct (ci_kind _ _ _ HI m i K2) as [(K & _)|K]; [congruence|]. right. exact K.
  - intros m i d Hi Hdi. destruct (Hcases m i Hi) as [(_ & K & _)|[_ K]].
    + rewrite K in Hdi. destruct Hdi.
    + eapply ci_obs; eauto.
  - intros m i d v Hi Hv. destruct (Hcases m i Hi) as [(_ & _ & K & _)|[_ K]].
    + rewrite K in Hv. discriminate.
    + eapply ci_obs_fwd; eauto.
  - intros m i d Hi Hdi. apply Hstored.
    assert (Hf : hasfwd s m d) by (apply Hfwd; exists i; auto). destruct Hf as [j [Hj Hdj]].
    eapply ci_target; eauto.
  - intros m d. rewrite Hcal, (ci_bwd _ _ _ HI). symmetry. apply Hfwd.
  - intros a b K. apply Hfwd. destruct (Hd_new a b K) as [K1|K1].
    + apply (ci_dirty_edge _ _ _ HI). exact K1.
    + apply (ci_bwd _ _ _ HI). exact K1.
  - intros m i d d' Hi Hdi K. eapply HU; [exact K|]. apply (ci_bwd _ _ _ HI). apply Hfwd. exists i. auto.
  - intros m x [i [Hi Hv]] K. rewrite Hts in Hv.
    destruct (Hcases m i Hi) as [(_ & K2 & _)|[_ K2]].
    + assert (Hf : hasfwd s4 m x).
      { apply Hfwd. destruct (Hd_new m x K) as [K1|K1];
          [apply (ci_dirty_edge _ _ _ HI); exact K1|apply (ci_bwd _ _ _ HI); exact K1]. }
      destruct Hf as [j [Hj Hxj]]. assert (j = i) by congruence. subst j. rewrite K2 in Hxj. destruct Hxj.
    + pose proof (ci_ts _ _ _ HI m i K2). lia.
  - intros m i d Hi Hdi Hnd. destruct (Hcases m i Hi) as [(_ & K & _)|[_ K]].
    + rewrite K in Hdi. destruct Hdi.
    + destruct (ci_sem _ _ _ HI m i d K Hdi (fun K' => Hnd (Hd_mono _ _ K'))) as [v [O1 O2]].
      exists v. split; [exact O1|]. apply (Hclaim (S (rk d)) d) with (m := m); [lia|exists i; auto|exact Hnd|exact O2].
  - intros m i Hi Hv. rewrite Hts in Hv. destruct (Hcases m i Hi) as [(K1 & _ & _ & K4 & _)|[_ K2]].
    + apply SpecI_input; assumption.
    + pose proof (ci_ts _ _ _ HI m i K2). lia.
  - intros m i Hi. rewrite Hts. destruct (Hcases m i Hi) as [(_ & _ & _ & _ & K5)|[_ K2]].
    + exact K5.
    + pose proof (ci_ts _ _ _ HI m i K2). lia.
Qed.
End Commit.
