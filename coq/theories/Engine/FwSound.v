(** Soundness of the firewall fragment of the engine model (C01 for inputs, Normal queries
    and Firewall queries): every answer is the from-scratch value for the inputs committed so
    far, for every well-formed program, every history and every amount of fuel.  The
    statement is in [Engine/FwSpec.v]; [fw_once] (C03, at most once) is in [Engine/FwOnce.v]. *)
From QV Require Import Common.Prelude Engine.Model Engine.Core Engine.CoreSpec Engine.CoreInvBase
  Engine.CoreInvSem Engine.Fw Engine.FwBase Engine.FwMono Engine.FwOnce Engine.FwSpec Engine.FwSem
  Engine.FwInv Engine.FwInvState Engine.FwInvExec Engine.FwInvClean Engine.FwRunBase Engine.FwRun
  Engine.FwRunAll Engine.FwCommit.
Open Scope Z_scope.

Lemma wf_fw_rank : forall p, wf_fw p ->
  exists rk : node -> nat, forall n e d, alookup p n = Some e -> In d (expr_reads e) -> (rk d < rk n)%nat.
Proof.
  intros p [Hkeys _ Htargets [rank Hrank]].
  exists (fun n => if is_exec_kind (nkind n) then S (rank n) else O).
  intros n e d He Hd. apply alookup_In in He. destruct (Hkeys n e He) as [Kn _]. rewrite Kn.
  destruct (Htargets n e d He Hd) as [Kd|[Kd _]].
  - rewrite Kd. cbn. lia.
  - rewrite Kd. specialize (Hrank n e d He Hd Kd). lia.
Qed.

Section Steps.
Variable p : program.
Variable rk : node -> nat.
Hypothesis Hrk : forall n e d, alookup p n = Some e -> In d (expr_reads e) -> (rk d < rk n)%nat.

(** one operation keeps the invariant (a session must not have run out of fuel) *)
Lemma fstep_inv : forall fuel s o s' r inp,
  FInv p rk inp s -> fstep_f fuel p s o = (s', r) ->
  (forall sets b, o = OSession sets b -> r_out r <> RFuel) ->
  FInv p rk (apply_op inp o) s'.
Proof.
  intros fuel s o s' r inp HI H Hfuel. destruct o as [sets b|n|w v|].
  - rewrite fstep_session in H. cbv zeta in H.
    destruct (fold_left fsess_step sets (set_ts (set_log s []) (s_ts (set_log s []) + 1)%N, [], []))
      as [[s1 rs] batch] eqn:Ef.
    destruct (propagate (fuel * 10) (set_visited (set_stat s1 0%N) []) batch) as [s4| | |] eqn:Ep;
      inversion H; subst; try (exfalso; eapply Hfuel; eauto; reflexivity).
    cbn [apply_op]. eapply (FInv_commit p rk Hrk inp (set_log s [])); eauto. apply FInv_log. exact HI.
  - unfold fstep_f in H. cbn [apply_op].
    destruct (fquery_for p fuel [] CUser None n (set_log s [])) as [[[[o fr] ms] s1]| | |] eqn:Eq.
    + destruct (proj1 (sound_all p rk Hrk fuel) inp [] CUser None n _ o fr ms s1
                  (FInv_log p rk inp s [] HI) (StkOk_nil rk n) I eq_refl Eq) as [HI1 _].
      destruct o as [[z|]|]; inversion H; subst; exact HI1.
    + inversion H. subst. apply FInv_log. exact HI.
    + inversion H. subst. apply FInv_log. exact HI.
    + inversion H. subst. apply FInv_log. exact HI.
  - cbn in H. inversion H. subst. cbn [apply_op]. apply FInv_log. exact HI.
  - cbn in H. inversion H. subst. cbn [apply_op]. apply FInv_restart. apply FInv_log. exact HI.
Qed.

(** a value answered by a query is the from-scratch value *)
Lemma fstep_query_sound : forall fuel s n s' r inp z,
  FInv p rk inp s -> fstep_f fuel p s (OQuery n) = (s', r) -> r_out r = RValue z -> FSpecI p inp n z.
Proof.
  intros fuel s n s' r inp z HI H Hr. unfold fstep_f in H.
  destruct (fquery_for p fuel [] CUser None n (set_log s [])) as [[[[o fr] ms] s1]| | |] eqn:Eq.
  - destruct (proj1 (sound_all p rk Hrk fuel) inp [] CUser None n _ o fr ms s1
                (FInv_log p rk inp s [] HI) (StkOk_nil rk n) I eq_refl Eq) as (HI1 & _ & _ & i & Hi & Hv & Ho).
    cbn [QPost] in Ho. subst o. inversion H. subst. cbn [r_out] in Hr. inversion Hr. subst.
    eapply fi_V; eauto.
  - inversion H. subst. discriminate.
  - inversion H. subst. discriminate.
  - inversion H. subst. discriminate.
Qed.

Lemma frun_sound : forall fuel ops s inp i n r z,
  FInv p rk inp s ->
  (forall k sets b rk0, (k < i)%nat -> nth_error ops k = Some (OSession sets b) ->
     nth_error (frun_history_f fuel p s ops) k = Some rk0 -> r_out rk0 <> RFuel) ->
  nth_error ops i = Some (OQuery n) ->
  nth_error (frun_history_f fuel p s ops) i = Some r ->
  r_out r = RValue z ->
  FSpecI p (fold_left apply_op (firstn i ops) inp) n z.
Proof.
  intros fuel. induction ops as [|o rest IH]; intros s inp i n r z HI Hfuel Hop Hres Hz.
  - destruct i; discriminate.
  - cbn [frun_history_f] in Hres, Hfuel. destruct (fstep_f fuel p s o) as [s' x] eqn:Es.
    destruct i as [|i].
    + cbn in Hop, Hres. inversion Hop. inversion Hres. subst. cbn [firstn fold_left].
      eapply fstep_query_sound; eauto.
    + cbn [nth_error firstn fold_left] in *. eapply IH; eauto.
      * eapply fstep_inv; eauto. intros sets b ->. apply (Hfuel 0%nat sets b x); [lia|reflexivity|reflexivity].
      * intros k sets b rk0 Hk Hk1 Hk2. apply (Hfuel (S k) sets b rk0); [lia|exact Hk1|exact Hk2].
Qed.
End Steps.

(** * C01 on the firewall fragment *)
Theorem fw_sound : fw_sound_statement.
Proof.
  intros fuel p ops i n r z Hwf Hfuel Hop Hres Hz.
  destruct (wf_fw_rank p Hwf) as [rk Hrk]. apply FwSpec_FSpecI.
  unfold inputs_after. eapply (frun_sound p rk Hrk); eauto. apply FInv_init.
Qed.

(** the hypothesis on fuel is needed, exactly as for the core fragment: a session whose dirty
    propagation ran out of fuel keeps the inputs without the dirt *)
Definition fw_sound_statement_unguarded : Prop :=
  forall fuel p ops i n r z, wf_fw p ->
    nth_error ops i = Some (OQuery n) ->
    nth_error (frun_history_f fuel p init_state ops) i = Some r ->
    r_out r = RValue z ->
    FwSpec p (inputs_after (firstn i ops)) n z.

Definition fcex_I0 := mkNode KInput 0.
Definition fcex_F0 := mkNode KFirewall 0.
Definition fcex_prog : program := [(fcex_F0, ERead fcex_I0)].
Fixpoint fcex_alt (k : nat) : list (N * Z) :=
  match k with O => [] | S k' => (0%N, 5) :: (0%N, 2) :: fcex_alt k' end.
Definition fcex_hist : list op :=
  [OSession [(0%N, 1)] false; OQuery fcex_F0; OSession (fcex_alt 30) false; OQuery fcex_F0].

Lemma fcex_prog_wf : wf_fw fcex_prog.
Proof.
  split.
  - intros n e [H|[]]. inversion H. subst. split; reflexivity.
  - cbn. constructor; [intros []|constructor].
  - intros n e d [H|[]] Hd. inversion H. subst. destruct Hd as [<-|[]]. left. reflexivity.
  - exists (fun _ => O). intros n e d [H|[]] Hd K. inversion H. subst. destruct Hd as [<-|[]]. discriminate.
Qed.

Theorem fw_sound_unguarded_refuted : ~ fw_sound_statement_unguarded.
Proof.
  intro H.
  assert (Hrun : exists r, nth_error (frun_history_f 5 fcex_prog init_state fcex_hist) 3 = Some r /\ r_out r = RValue 1).
  { eexists. split; [vm_compute; reflexivity|reflexivity]. }
  destruct Hrun as [r [Hr Hz]].
  specialize (H 5%nat fcex_prog fcex_hist 3%nat fcex_F0 r 1 fcex_prog_wf eq_refl Hr Hz).
  apply FwSpec_FSpecI in H.
  assert (H2 : FSpecI fcex_prog (inputs_after (firstn 3 fcex_hist)) fcex_F0 2).
  { apply FwSpec_FSpecI. exists 5%nat. vm_compute. reflexivity. }
  pose proof (FSpecI_det _ _ _ _ _ H H2). discriminate.
Qed.

(** * examples: the witnesses of the two defects repaired in the code (F12a / F12b) are
    answered correctly by the model *)
Definition fex_I (k : N) := mkNode KInput k.
Definition fex_N (k : N) := mkNode KNormal k.
Definition fex_F (k : N) := mkNode KFirewall k.
(** N0 reads firewall F0 or F1 depending on I2; N1 above it *)
Definition fex_prog : program :=
  [ (fex_F 0, EMod (ERead (fex_I 0)) 3);
    (fex_F 1, EMod (ERead (fex_I 1)) 2);
    (fex_N 0, EAdd (EConst 1) (EIf (EMod (ERead (fex_I 2)) 2) (ERead (fex_F 0)) (ERead (fex_F 1))));
    (fex_N 1, EAdd (ERead (fex_N 0)) (ERead (fex_N 0)));
    (fex_N 2, EAdd (ERead (fex_N 0)) (EConst 7)) ].

Ltac fwf_cases H := repeat (destruct H as [H|H]; [inversion H; subst; clear H|]); try destruct H.
Ltac fin_cases H := cbn in H; repeat (destruct H as [H|H]; [subst|]); try destruct H.

Example fex_prog_wf : wf_fw fex_prog.
Proof.
  split.
  - intros n e H. fwf_cases H; split; reflexivity.
  - cbn. repeat constructor; cbn; intuition discriminate.
  - intros n e d H Hd. fwf_cases H; fin_cases Hd; (left; reflexivity) || (right; split; [reflexivity|discriminate]).
  - exists (fun n => match nkind n with KFirewall => 1%nat | KNormal => (2 + N.to_nat (nidx n))%nat | _ => 0%nat end).
    intros n e d H Hd K. fwf_cases H; fin_cases Hd; try discriminate K; cbn; lia.
Qed.

Definition fex_hist : list op :=
  [ OSession [(0%N, 1); (1%N, 1); (2%N, 0)] false; OQuery (fex_N 1); OQuery (fex_N 2);
    OSession [(2%N, 3)] false; OQuery (fex_N 2);          (* N0 switches from F1 to F0 under the root N2 *)
    OSession [(0%N, 5)] false; OQuery (fex_N 1);          (* a change behind F0, asked through the stale root N1 *)
    OSession [(2%N, 4); (1%N, 4)] false; OQuery (fex_N 1) ].

Example fex_run :
  map r_out (frun_history fex_prog init_state fex_hist) =
  [ RSession [SFresh; SFresh; SFresh]; RValue 4; RValue 9;
    RSession [SUpdated]; RValue 9;
    RSession [SUpdated]; RValue 6;
    RSession [SUpdated; SUpdated]; RValue 2 ].
Proof. vm_compute. reflexivity. Qed.

Print Assumptions fw_sound.
Print Assumptions fw_sound_unguarded_refuted.
