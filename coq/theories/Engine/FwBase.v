(** Basic facts about the state-update functions of [Engine/Model.v] ([put_info], [unwire],
    [wire], [set_computed], [clean_query], [mark_callers], [propagate]) and the unfolding
    equations of the four mutually recursive functions of [Engine/Fw.v] (with their inner
    [fix]es mirrored by named functions).  Used by the proofs about the firewall fragment. *)
From QV Require Import Common.Prelude Engine.Model Engine.Core Engine.CoreInvBase Engine.Fw.
Open Scope Z_scope.

(** * states *)
Definition sdirty (s : state) (a b : node) : Prop := In (a, b) (s_dirty s).
Definition sverified (s : state) (n : node) : Prop :=
  exists i, get_info s n = Some i /\ i_verified i = s_ts s.

Lemma get_put : forall s n i m, get_info (put_info s n i) m = if node_eqb n m then Some i else get_info s m.
Proof. intros. unfold get_info, put_info. cbn [set_nodes s_nodes]. apply alookup_aset. Qed.
Lemma get_put_eq : forall s n i, get_info (put_info s n i) n = Some i.
Proof. intros. rewrite get_put, node_eqb_refl. reflexivity. Qed.
Lemma get_put_ne : forall s n i m, n <> m -> get_info (put_info s n i) m = get_info s m.
Proof. intros s n i m H. rewrite get_put. apply node_eqb_neq in H. rewrite H. reflexivity. Qed.

Lemma callers_bwd_add : forall s d c x y,
  In x (callers_of (bwd_add s d c) y) <-> In x (callers_of s y) \/ (y = d /\ x = c).
Proof.
  intros s d c x y. unfold bwd_add, callers_of at 1. cbn [set_bwd s_bwd].
  rewrite alookup_aset. destruct (node_eqb_spec d y) as [->|Hne].
  - rewrite nadd_In. intuition.
  - fold (callers_of s y). intuition congruence.
Qed.
Lemma callers_bwd_remove : forall s d c x y,
  In x (callers_of (bwd_remove s d c) y) <-> In x (callers_of s y) /\ ~ (y = d /\ x = c).
Proof.
  intros s d c x y. unfold bwd_remove, callers_of at 1. cbn [set_bwd s_bwd].
  rewrite alookup_aset. destruct (node_eqb_spec d y) as [->|Hne].
  - rewrite nremove_In. intuition.
  - fold (callers_of s y). intuition congruence.
Qed.

(** the fields a state update leaves alone *)
Record same_but_graph (s s' : state) : Prop := {
  sg_nodes : s_nodes s' = s_nodes s;
  sg_ts : s_ts s' = s_ts s;
  sg_ext : s_ext s' = s_ext s;
  sg_visited : s_visited s' = s_visited s;
  sg_stat : s_stat s' = s_stat s;
  sg_world : s_world s' = s_world s;
  sg_log : s_log s' = s_log s;
}.
Lemma sbg_refl : forall s, same_but_graph s s.
Proof. intro s. split; reflexivity. Qed.
Lemma sbg_trans : forall a b c, same_but_graph a b -> same_but_graph b c -> same_but_graph a c.
Proof. intros a b c [] []. split; congruence. Qed.

(** ** unwire *)
Definition unwire_step (n : node) (cd : bool) (s : state) (c : node) : state :=
  let s1 := bwd_remove s c n in if cd then set_dirty s1 (eremove (n, c) (s_dirty s1)) else s1.
Lemma unwire_fold : forall s n old cd, unwire s n old cd = fold_left (unwire_step n cd) (all_callees old) s.
Proof. reflexivity. Qed.

Lemma unwire_step_sbg : forall n cd s c, same_but_graph s (unwire_step n cd s c).
Proof. intros. unfold unwire_step. destruct cd; split; reflexivity. Qed.
Lemma unwire_sbg : forall old s n cd, same_but_graph s (unwire s n old cd).
Proof.
  intros old s n cd. rewrite unwire_fold. generalize (all_callees old) as l. intro l. revert s.
  induction l as [|c r IH]; intro s; cbn [fold_left]; [apply sbg_refl|].
  eapply sbg_trans; [apply (unwire_step_sbg n cd s c)|apply IH].
Qed.
Lemma unwire_get : forall old s n cd m, get_info (unwire s n old cd) m = get_info s m.
Proof. intros. unfold get_info. rewrite (sg_nodes _ _ (unwire_sbg old s n cd)). reflexivity. Qed.

Lemma unwire_callers : forall old s n cd x y,
  In x (callers_of (unwire s n old cd) y) <-> In x (callers_of s y) /\ ~ (x = n /\ In y (all_callees old)).
Proof.
  intros old s n cd x y. rewrite unwire_fold. generalize (all_callees old) as l. intro l. revert s.
  induction l as [|c r IH]; intro s; cbn [fold_left In].
  - tauto.
  - rewrite IH. unfold unwire_step.
    assert (E : forall s', callers_of (if cd then set_dirty s' (eremove (n, c) (s_dirty s')) else s') y
                           = callers_of s' y) by (intro s'; destruct cd; reflexivity).
    rewrite E, callers_bwd_remove. intuition.
Qed.

Lemma unwire_dirty : forall old s n cd a b,
  sdirty (unwire s n old cd) a b <-> sdirty s a b /\ ~ (cd = true /\ a = n /\ In b (all_callees old)).
Proof.
  intros old s n cd a b. rewrite unwire_fold. generalize (all_callees old) as l. intro l. revert s.
  unfold sdirty. induction l as [|c r IH]; intro s; cbn [fold_left In].
  - tauto.
  - rewrite IH. unfold unwire_step. destruct cd.
    + cbn [set_dirty s_dirty bwd_remove set_bwd]. rewrite eremove_In. split.
      * intros [[H1 H2] H3]. split; [exact H1|]. intros [_ [-> [<-|H]]]; [congruence|]. apply H3. auto.
      * intros [H1 H2]. split; [split; [exact H1|]|].
        -- intro E. inversion E. subst. apply H2. auto.
        -- intros [_ [-> H]]. apply H2. auto.
    + cbn [bwd_remove set_bwd s_dirty]. split.
      * intros [H _]. split; [exact H|]. intros [E _]. discriminate.
      * intros [H _]. split; [exact H|]. intros [E _]. discriminate.
Qed.

(** ** wire *)
Lemma wire_fold : forall s n new, wire s n new = fold_left (fun s c => bwd_add s c n) (all_callees new) s.
Proof. reflexivity. Qed.
Lemma wire_sbg : forall new s n, same_but_graph s (wire s n new).
Proof.
  intros new s n. rewrite wire_fold. generalize (all_callees new) as l. intro l. revert s.
  induction l as [|c r IH]; intro s; cbn [fold_left]; [apply sbg_refl|].
  eapply sbg_trans; [|apply IH]. split; reflexivity.
Qed.
Lemma wire_dirty : forall new s n, s_dirty (wire s n new) = s_dirty s.
Proof.
  intros new s n. rewrite wire_fold. generalize (all_callees new) as l. intro l. revert s.
  induction l as [|c r IH]; intro s; cbn [fold_left]; [reflexivity|]. rewrite IH. reflexivity.
Qed.
Lemma wire_get : forall new s n m, get_info (wire s n new) m = get_info s m.
Proof. intros. unfold get_info. rewrite (sg_nodes _ _ (wire_sbg new s n)). reflexivity. Qed.
Lemma wire_callers : forall new s n x y,
  In x (callers_of (wire s n new) y) <-> In x (callers_of s y) \/ (x = n /\ In y (all_callees new)).
Proof.
  intros new s n x y. rewrite wire_fold. generalize (all_callees new) as l. intro l. revert s.
  induction l as [|c r IH]; intro s; cbn [fold_left In].
  - tauto.
  - rewrite IH, callers_bwd_add. intuition.
Qed.

(** ** set_computed *)
Definition old_fwd (s : state) (n : node) : list node :=
  match get_info s n with Some i => all_callees (i_fwd i) | None => [] end.
Definition sc_info (s : state) (n : node) (v : Z) (fr : frame) (need_bp : bool) : info :=
  mkInfo (s_ts s) v (fr_tfc fr) (fr_order fr) (fr_observations fr)
         (if need_bp then Some (s_ts s) else match get_info s n with Some i => i_pending i | None => None end).

Lemma set_ext_if : forall (b : bool) s3 x, same_but_graph s3 (if b then s3 else set_ext s3 x) -> True.
Proof. auto. Qed.

Lemma set_computed_ts : forall s n v fr bp rc, s_ts (set_computed s n v fr bp rc) = s_ts s.
Proof.
  intros. unfold set_computed.
  match goal with |- s_ts (if ?b then set_ext ?x ?y else ?x) = _ =>
    assert (E : s_ts (if b then set_ext x y else x) = s_ts x) by (destruct b; reflexivity); rewrite E; clear E end.
  rewrite (sg_ts _ _ (wire_sbg _ _ _)). unfold put_info. cbn [set_nodes s_ts].
  destruct (get_info s n); [apply (sg_ts _ _ (unwire_sbg _ _ _ _))|reflexivity].
Qed.
Lemma set_computed_log : forall s n v fr bp rc, s_log (set_computed s n v fr bp rc) = s_log s.
Proof.
  intros. unfold set_computed.
  match goal with |- s_log (if ?b then set_ext ?x ?y else ?x) = _ =>
    assert (E : s_log (if b then set_ext x y else x) = s_log x) by (destruct b; reflexivity); rewrite E; clear E end.
  rewrite (sg_log _ _ (wire_sbg _ _ _)). unfold put_info. cbn [set_nodes s_log].
  destruct (get_info s n); [apply (sg_log _ _ (unwire_sbg _ _ _ _))|reflexivity].
Qed.
Lemma set_computed_visited : forall s n v fr bp rc, s_visited (set_computed s n v fr bp rc) = s_visited s.
Proof.
  intros. unfold set_computed.
  match goal with |- s_visited (if ?b then set_ext ?x ?y else ?x) = _ =>
    assert (E : s_visited (if b then set_ext x y else x) = s_visited x) by (destruct b; reflexivity); rewrite E; clear E end.
  rewrite (sg_visited _ _ (wire_sbg _ _ _)). unfold put_info. cbn [set_nodes s_visited].
  destruct (get_info s n); [apply (sg_visited _ _ (unwire_sbg _ _ _ _))|reflexivity].
Qed.
Lemma set_computed_get : forall s n v fr bp rc m,
  get_info (set_computed s n v fr bp rc) m =
  if node_eqb n m then Some (sc_info s n v fr bp) else get_info s m.
Proof.
  intros. unfold set_computed.
  match goal with |- get_info (if ?b then set_ext ?x ?y else ?x) m = _ =>
    assert (E : get_info (if b then set_ext x y else x) m = get_info x m) by (destruct b; reflexivity); rewrite E; clear E end.
  rewrite wire_get, get_put. destruct (node_eqb n m); [reflexivity|].
  destruct (get_info s n); [apply unwire_get|reflexivity].
Qed.
Lemma set_computed_callers : forall s n v fr bp rc x y,
  In x (callers_of (set_computed s n v fr bp rc) y) <->
  (In x (callers_of s y) /\ ~ (x = n /\ In y (old_fwd s n))) \/ (x = n /\ In y (all_callees (fr_order fr))).
Proof.
  intros. unfold set_computed.
  match goal with |- In x (callers_of (if ?b then set_ext ?a ?c else ?a) y) <-> _ =>
    assert (E : callers_of (if b then set_ext a c else a) y = callers_of a y) by (destruct b; reflexivity); rewrite E; clear E end.
  rewrite wire_callers. unfold old_fwd. destruct (get_info s n) as [i|].
  - assert (E : forall s' i', callers_of (put_info s' n i') y = callers_of s' y) by reflexivity.
    rewrite E, unwire_callers. reflexivity.
  - assert (E : forall s' i', callers_of (put_info s' n i') y = callers_of s' y) by reflexivity.
    rewrite E. cbn [In]. tauto.
Qed.
Lemma set_computed_dirty : forall s n v fr bp rc a b,
  sdirty (set_computed s n v fr bp rc) a b <->
  sdirty s a b /\ ~ (rc = true /\ a = n /\ In b (old_fwd s n)).
Proof.
  intros. unfold set_computed, sdirty.
  match goal with |- In _ (s_dirty (if ?b then set_ext ?x ?c else ?x)) <-> _ =>
    assert (E : s_dirty (if b then set_ext x c else x) = s_dirty x) by (destruct b; reflexivity); rewrite E; clear E end.
  rewrite wire_dirty. unfold old_fwd. destruct (get_info s n) as [i|].
  - assert (E : forall s' i', s_dirty (put_info s' n i') = s_dirty s') by reflexivity.
    rewrite E. apply unwire_dirty.
  - cbn [put_info set_nodes s_dirty In]. tauto.
Qed.

(** ** set_computed_input *)
Lemma set_input_ts : forall s n v, s_ts (set_computed_input s n v) = s_ts s.
Proof.
  intros. unfold set_computed_input, put_info. cbn [set_nodes s_ts].
  destruct (get_info s n); [apply (sg_ts _ _ (unwire_sbg _ _ _ _))|reflexivity].
Qed.
Lemma set_input_log : forall s n v, s_log (set_computed_input s n v) = s_log s.
Proof.
  intros. unfold set_computed_input, put_info. cbn [set_nodes s_log].
  destruct (get_info s n); [apply (sg_log _ _ (unwire_sbg _ _ _ _))|reflexivity].
Qed.
Lemma set_input_get : forall s n v m,
  get_info (set_computed_input s n v) m =
  if node_eqb n m
  then Some (mkInfo (s_ts s) v [] [] [] (match get_info s n with Some i => i_pending i | None => None end))
  else get_info s m.
Proof.
  intros. unfold set_computed_input. rewrite get_put. destruct (node_eqb n m); [reflexivity|].
  destruct (get_info s n); [apply unwire_get|reflexivity].
Qed.
Lemma set_input_callers : forall s n v x y,
  In x (callers_of (set_computed_input s n v) y) <-> In x (callers_of s y) /\ ~ (x = n /\ In y (old_fwd s n)).
Proof.
  intros. unfold set_computed_input, old_fwd. destruct (get_info s n) as [i|].
  - assert (E : forall s' i', callers_of (put_info s' n i') y = callers_of s' y) by reflexivity.
    rewrite E. apply unwire_callers.
  - cbn [In]. assert (E : forall s' i', callers_of (put_info s' n i') y = callers_of s' y) by reflexivity.
    rewrite E. tauto.
Qed.
Lemma set_input_dirty : forall s n v a b, sdirty (set_computed_input s n v) a b <-> sdirty s a b.
Proof.
  intros. unfold set_computed_input, sdirty. destruct (get_info s n) as [i|].
  - assert (E : forall s' i', s_dirty (put_info s' n i') = s_dirty s') by reflexivity.
    rewrite E. pose proof (unwire_dirty (i_fwd i) s n false a b) as H. unfold sdirty in H.
    rewrite H. split; [tauto|]. intro H1. split; [exact H1|]. intros [E1 _]. discriminate.
  - reflexivity.
Qed.

(** ** clean_query *)
Definition clean_fold (n : node) (cleaned : list node) (s : state) : state :=
  fold_left (fun s c => set_dirty s (eremove (n, c) (s_dirty s))) cleaned s.
Lemma clean_fold_same : forall cleaned s n,
  s_nodes (clean_fold n cleaned s) = s_nodes s /\ s_ts (clean_fold n cleaned s) = s_ts s /\
  s_bwd (clean_fold n cleaned s) = s_bwd s /\ s_log (clean_fold n cleaned s) = s_log s /\
  s_visited (clean_fold n cleaned s) = s_visited s.
Proof.
  unfold clean_fold. induction cleaned as [|c r IH]; intros s n; cbn [fold_left]; [auto|].
  destruct (IH (set_dirty s (eremove (n, c) (s_dirty s))) n) as (H1 & H2 & H3 & H4 & H5).
  rewrite H1, H2, H3, H4, H5. auto.
Qed.
Lemma clean_fold_dirty : forall cleaned s n a b,
  sdirty (clean_fold n cleaned s) a b <-> sdirty s a b /\ ~ (a = n /\ In b cleaned).
Proof.
  unfold sdirty, clean_fold. induction cleaned as [|c r IH]; intros s n a b; cbn [fold_left In].
  - tauto.
  - rewrite IH. cbn [set_dirty s_dirty]. rewrite eremove_In. split.
    + intros [[H1 H2] H3]. split; [exact H1|]. intros [-> [<-|H]]; [congruence|]. apply H3. auto.
    + intros [H1 H2]. split; [split; [exact H1|]|].
      * intro E. inversion E. subst. apply H2. auto.
      * intros [-> H]. apply H2. auto.
Qed.

Definition cq_info (s : state) (i : info) (new_tfc : option (list node)) : info :=
  mkInfo (s_ts s) (i_value i)
         (match new_tfc with Some t => t | None => i_tfc i end)
         (i_fwd i)
         (match new_tfc with Some _ => refresh_obs s (i_obs i) | None => i_obs i end)
         (i_pending i).
Lemma clean_query_eq : forall s n cl nt i, get_info s n = Some i ->
  clean_query s n cl nt = put_info (clean_fold n cl s) n (cq_info s i nt).
Proof. intros s n cl nt i H. unfold clean_query. rewrite H. reflexivity. Qed.

Lemma clean_query_ts : forall s n cl nt, s_ts (clean_query s n cl nt) = s_ts s.
Proof.
  intros. unfold clean_query. destruct (get_info s n); [|reflexivity]. cbn [put_info set_nodes s_ts].
  apply (clean_fold_same cl s n).
Qed.
Lemma clean_query_log : forall s n cl nt, s_log (clean_query s n cl nt) = s_log s.
Proof.
  intros. unfold clean_query. destruct (get_info s n); [|reflexivity]. cbn [put_info set_nodes s_log].
  apply (clean_fold_same cl s n).
Qed.
Lemma clean_query_visited : forall s n cl nt, s_visited (clean_query s n cl nt) = s_visited s.
Proof.
  intros. unfold clean_query. destruct (get_info s n); [|reflexivity]. cbn [put_info set_nodes s_visited].
  apply (clean_fold_same cl s n).
Qed.
Lemma clean_query_get : forall s n cl nt i m, get_info s n = Some i ->
  get_info (clean_query s n cl nt) m = if node_eqb n m then Some (cq_info s i nt) else get_info s m.
Proof.
  intros s n cl nt i m H. rewrite (clean_query_eq _ _ _ _ _ H), get_put.
  destruct (node_eqb n m); [reflexivity|]. unfold get_info. f_equal. apply (clean_fold_same cl s n).
Qed.
Lemma clean_query_callers : forall s n cl nt y, callers_of (clean_query s n cl nt) y = callers_of s y.
Proof.
  intros. unfold clean_query. destruct (get_info s n); [|reflexivity]. unfold callers_of, put_info. cbn [set_nodes s_bwd].
  destruct (clean_fold_same cl s n) as (_ & _ & H & _). unfold clean_fold in H. rewrite H. reflexivity.
Qed.
Lemma clean_query_dirty : forall s n cl nt i a b, get_info s n = Some i ->
  sdirty (clean_query s n cl nt) a b <-> sdirty s a b /\ ~ (a = n /\ In b cl).
Proof.
  intros s n cl nt i a b H. rewrite (clean_query_eq _ _ _ _ _ H).
  assert (E : forall s' i', sdirty (put_info s' n i') a b <-> sdirty s' a b) by (intros; reflexivity).
  rewrite E. apply clean_fold_dirty.
Qed.

(** ** dirty propagation *)
Lemma mark_callers_spec : forall cs s x work s2 work',
  mark_callers s x cs work = (s2, work') ->
  work' = work ++ filter (fun c => negb (is_fw_or_proj (nkind c))) cs /\
  s_nodes s2 = s_nodes s /\ s_bwd s2 = s_bwd s /\ s_ts s2 = s_ts s /\
  s_visited s2 = s_visited s /\ s_log s2 = s_log s /\
  (forall a b, sdirty s2 a b <-> sdirty s a b \/ (b = x /\ In a cs)).
Proof.
  induction cs as [|c r IH]; intros s x work s2 work' H; cbn [mark_callers] in H.
  - inversion H. subst. cbn [filter]. rewrite app_nil_r. repeat (split; [reflexivity|]). intros. cbn [In]. tauto.
  - cbv zeta in H. apply IH in H. destruct H as (A & B & C & D & E & F & G).
    cbn [set_stat set_dirty s_nodes s_bwd s_ts s_visited s_log] in *.
    split.
    { rewrite A. cbn [filter]. destruct (is_fw_or_proj (nkind c)); cbn [negb]; [reflexivity|].
      rewrite <- app_assoc. reflexivity. }
    repeat (split; [assumption|]).
    intros a b. rewrite G. unfold sdirty. cbn [set_stat set_dirty s_dirty]. rewrite eadd_In. cbn [In]. split.
    + intros [[K|K]|[K1 K2]]; [inversion K; subst; auto|auto|auto].
    + intros [K|[K1 [K2|K2]]]; [auto|subst; auto|auto].
Qed.

Lemma propagate_same : forall fuel s work s', propagate fuel s work = Ok s' ->
  s_nodes s' = s_nodes s /\ s_bwd s' = s_bwd s /\ s_ts s' = s_ts s /\ s_log s' = s_log s /\
  (forall a b, sdirty s a b -> sdirty s' a b) /\
  (forall x, In x (s_visited s) -> In x (s_visited s')).
Proof.
  induction fuel as [|f IH]; intros s work s' H; [discriminate|]. cbn [propagate] in H.
  destruct work as [|x r]; [inversion H; subst; auto 10|].
  destruct (nmem x (s_visited s)); [eapply IH; eauto|]. cbv zeta in H.
  destruct (mark_callers (set_visited s (x :: s_visited s)) x (callers_of (set_visited s (x :: s_visited s)) x) r)
    as [s2 work'] eqn:Em.
  apply mark_callers_spec in Em. destruct Em as (_ & B & C & D & E & F & G).
  apply IH in H. destruct H as (H1 & H2 & H3 & H4 & H5 & H6).
  cbn [set_visited s_nodes s_bwd s_ts s_log s_visited] in *.
  split; [congruence|]. split; [congruence|]. split; [congruence|]. split; [congruence|]. split.
  - intros a b K. apply H5. apply G. left. exact K.
  - intros y Hy. apply H6. rewrite E. right. exact Hy.
Qed.

(** * unfolding equations for [Engine/Fw.v] *)
Section Unfold.
Variable p : program.

(** the repair of the recorded transitive firewall callees (inner [go] of [fquery_for]) *)
Section Tfc.
Variables (f : nat) (stk : list node).
Fixpoint ftfc (ts : list node) (s : state) : res state :=
  match ts with
  | [] => Ok s
  | t :: r => let* (_, _, _, s') := fquery_for p f stk CRepairFirewall None t s in ftfc r s'
  end.
End Tfc.

(** the repair walk (inner [walk] of [frepair]) *)
Section Walk.
Variables (f : nat) (n : node) (stk : list node) (pedantic : bool) (i : info).
Fixpoint fwalk (cs : list node) (rtfc : bool) (cleaned : list node) (fr : frame) (ms : list node) (s : state)
  : res (decision * frame * list node * state) :=
  match cs with
  | [] => Ok (DClean rtfc cleaned, fr, ms, s)
  | cal :: r =>
      let dirty := emem (n, cal) (s_dirty s) in
      if negb dirty && negb pedantic
      then fwalk r rtfc cleaned fr ms s
      else if (match alookup (i_obs i) cal with None => true | Some _ => false end)
      then Ok (DRecompute, fr, ms, s)
      else
        let pedantic_cal :=
          pedantic ||
          (negb (kind_eqb (nkind cal) KInput) && negb (kind_eqb (nkind cal) KFirewall) &&
           match get_info s cal, alookup (i_obs i) cal with
           | Some ci, Some (_, otfc) => negb (nset_eqb (i_tfc ci) otfc)
           | _, _ => false
           end) in
        let* (fr1, m1, s1) :=
          if kind_eqb (nkind cal) KInput then Ok (fr, [], s)
          else
            let* (_, fr', m', s') := fquery_for p f (n :: stk) (CQuery n false pedantic_cal []) (Some fr) cal s in
            Ok (match fr' with Some x => x | None => fr end, m', s') in
        match get_info s1 cal, alookup (i_obs i) cal with
        | Some ci, Some (ov, otfc) =>
            if negb (i_value ci =? ov) then Ok (DRecompute, fr1, ms ++ m1, s1)
            else
              let tdiff := negb (kind_eqb (nkind cal) KFirewall) && negb (nset_eqb (i_tfc ci) otfc) in
              fwalk r (rtfc || tdiff) (if dirty then cleaned ++ [cal] else cleaned) fr1 (ms ++ m1) s1
        | _, _ => Panic 2
        end
  end.
End Walk.

Definition c_pedantic (c : caller) : bool := match c with CQuery _ _ pd _ => pd | _ => false end.

Definition fq_caller (c : caller) (n : node) (s : state) : caller :=
  match c with
  | CQuery b true false prev =>
      match alookup prev n with
      | None => CQuery b true true prev
      | Some seen =>
          match get_info s n with
          | Some ci => if nset_eqb (i_tfc ci) seen then c else CQuery b true true prev
          | None => c
          end
      end
  | _ => c
  end.
Definition fq_reg (c : caller) (fr : option frame) (n : node) : option frame :=
  match c, fr with
  | CQuery b _ _ _, Some fr0 => Some (fr_register fr0 n)
  | _, _ => fr
  end.
Definition fq_tfc (f : nat) (stk : list node) (c : caller) (sp : slow) (n : node) (s : state) : res state :=
  match c, sp, get_info s n with
  | (CUser | CRepairFirewall), SRepair, Some i => ftfc f stk (i_tfc i) s
  | _, _, _ => Ok s
  end.
Definition clear_pending (s1 : state) (n : node) : state :=
  match get_info s1 n with
  | Some i => put_info s1 n (mkInfo (i_verified i) (i_value i) (i_tfc i) (i_fwd i) (i_obs i) None)
  | None => s1
  end.
Definition fq_process (f : nat) (stk : list node) (c : caller) (sp : slow) (n : node) (s1 : state)
  : res (list node * state) :=
  match sp with
  | SBackward =>
      match get_info s1 n with
      | Some i => Ok ([], put_info s1 n (mkInfo (i_verified i) (i_value i) (i_tfc i) (i_fwd i) (i_obs i) None))
      | None => Ok ([], s1)
      end
  | _ =>
      match get_info s1 n with
      | Some i =>
          if (i_verified i =? s_ts s1)%N then Ok ([], s1)
          else frepair p f stk c n s1
      | None => fexecute p f stk c n false empty_frame s1
      end
  end.

Lemma fquery_for_S : forall f stk c fr n s,
  fquery_for p (S f) stk c fr n s =
  let c' := fq_caller c n s in
  let fr1 := fq_reg c' fr n in
  if nmem n stk then
    match c' with
    | CQuery b _ _ _ => Ok (QCyclic, frame_mark_if fr1 (Some b) (upto stk n), upto stk n, s)
    | _ => Stuck
    end
  else
  match fast_path s c' fr1 n with
  | (FHit v, fr2) => Ok (if frame_in_scc fr2 then QCyclic else QValue v, fr2, [], s)
  | (FSlow sp, _) =>
      let* s1 := fq_tfc f stk c' sp n s in
      let* (marks, s2) := fq_process f stk c' sp n s1 in
      match fast_path s2 c' fr1 n with
      | (FHit v, fr2) =>
          let fr3 := frame_mark_if fr2 (caller_node c') marks in
          Ok (if frame_in_scc fr3 then QCyclic else QValue v, fr3, marks, s2)
      | (FSlow _, _) =>
          let* (o, fr2, m2, s3) := fquery_for p f stk c' fr1 n s2 in
          Ok (o, frame_mark_if fr2 (caller_node c') marks, marks ++ m2, s3)
      end
  end.
Proof.
  intros f stk c fr n s.
  assert (E : forall c' : caller,
    (let* fr1 := match c', fr with
                 | CQuery b _ _ _, Some fr0 => Ok (Some (fr_register fr0 n))
                 | _, _ => Ok fr end in
     (fun fr1 => if nmem n stk then
        match c' with
        | CQuery b _ _ _ => Ok (QCyclic, frame_mark_if fr1 (Some b) (upto stk n), upto stk n, s)
        | _ => Stuck
        end
      else
      match fast_path s c' fr1 n with
      | (FHit v, fr2) => Ok (if frame_in_scc fr2 then QCyclic else QValue v, fr2, [], s)
      | (FSlow sp, _) =>
          let* s1 := fq_tfc f stk c' sp n s in
          let* (marks, s2) := fq_process f stk c' sp n s1 in
          match fast_path s2 c' fr1 n with
          | (FHit v, fr2) =>
              let fr3 := frame_mark_if fr2 (caller_node c') marks in
              Ok (if frame_in_scc fr3 then QCyclic else QValue v, fr3, marks, s2)
          | (FSlow _, _) =>
              let* (o, fr2, m2, s3) := fquery_for p f stk c' fr1 n s2 in
              Ok (o, frame_mark_if fr2 (caller_node c') marks, marks ++ m2, s3)
          end
      end) fr1) =
    (fun fr1 => if nmem n stk then
        match c' with
        | CQuery b _ _ _ => Ok (QCyclic, frame_mark_if fr1 (Some b) (upto stk n), upto stk n, s)
        | _ => Stuck
        end
      else
      match fast_path s c' fr1 n with
      | (FHit v, fr2) => Ok (if frame_in_scc fr2 then QCyclic else QValue v, fr2, [], s)
      | (FSlow sp, _) =>
          let* s1 := fq_tfc f stk c' sp n s in
          let* (marks, s2) := fq_process f stk c' sp n s1 in
          match fast_path s2 c' fr1 n with
          | (FHit v, fr2) =>
              let fr3 := frame_mark_if fr2 (caller_node c') marks in
              Ok (if frame_in_scc fr3 then QCyclic else QValue v, fr3, marks, s2)
          | (FSlow _, _) =>
              let* (o, fr2, m2, s3) := fquery_for p f stk c' fr1 n s2 in
              Ok (o, frame_mark_if fr2 (caller_node c') marks, marks ++ m2, s3)
          end
      end) (fq_reg c' fr n)).
  { intro c'. destruct c'; destruct fr; reflexivity. }
  cbv zeta. etransitivity; [|exact (E (fq_caller c n s))]. reflexivity.
Qed.


Lemma fq_process_backward : forall f stk c n s1,
  fq_process f stk c SBackward n s1 = Ok ([], clear_pending s1 n).
Proof. intros. unfold fq_process, clear_pending. destruct (get_info s1 n); reflexivity. Qed.

Definition fx_prev (s : state) (n : node) : list (node * list node) :=
  match get_info s n with Some i => map (fun '(x, o) => (x, snd o)) (i_obs i) | None => [] end.
Definition fx_value (n : node) (out : eout) (fr2 : frame) : Z :=
  if fr_scc fr2 then scc_default (nkind n)
  else match out with EVal z => z | EUnwind => scc_default (nkind n) end.
Definition fx_changed (s1 : state) (n : node) (recompute : bool) (v : Z) : bool :=
  match get_info s1 n with
  | Some i => recompute && kind_eqb (nkind n) KFirewall && negb (i_value i =? v)
  | None => false end.

Lemma fexecute_S : forall f stk c n rc fr0 s,
  fexecute p (S f) stk c n rc fr0 s =
  let s0 := set_log s (n :: s_log s) in
  let me := CQuery n true (c_pedantic c) (fx_prev s n) in
  let* (out, fr1, marks, s1) :=
    match nkind n with
    | KInput | KExternal | KProjection => Panic 4
    | _ =>
        match fbody p n with
        | None => Panic 4
        | Some e => feval p f (n :: stk) me e fr0 s0
        end
    end in
  let fr2 := if nmem n marks then fr_mark_scc fr1 else fr1 in
  let v := fx_value n out fr2 in
  let changed := fx_changed s1 n rc v in
  let* s2 := if changed then propagate (S f * 4) s1 [n] else Ok s1 in
  Ok (marks, set_computed s2 n v fr2 changed rc).
Proof. reflexivity. Qed.

Definition fread (f : nat) (stk : list node) (me : caller) (n : node) (fr : frame) (s : state)
  : res (eout * frame * list node * state) :=
  let* (o, fr', marks, s') := fquery_for p f stk me (Some fr) n s in
  let fr'' := match fr' with Some x => x | None => fr end in
  match o with
  | QValue (Some z) => Ok (EVal z, fr'', marks, s')
  | _ => Ok (EUnwind, fr'', marks, s')
  end.
Definition fbin (f : nat) (stk : list node) (me : caller) (a b : expr) (op : Z -> Z -> Z)
  (fr : frame) (s : state) : res (eout * frame * list node * state) :=
  let* (x, fr1, m1, s1) := feval p f stk me a fr s in
  match x with
  | EUnwind => Ok (EUnwind, fr1, m1, s1)
  | EVal xv =>
      let* (y, fr2, m2, s2) := feval p f stk me b fr1 s1 in
      match y with
      | EUnwind => Ok (EUnwind, fr2, m1 ++ m2, s2)
      | EVal yv => Ok (EVal (op xv yv), fr2, m1 ++ m2, s2)
      end
  end.

Lemma feval_S : forall f stk me e fr s,
  feval p (S f) stk me e fr s =
  match e with
  | EConst z => Ok (EVal z, fr, [], s)
  | ERead n => fread f stk me n fr s
  | EAdd a b => fbin f stk me a b Z.add fr s
  | EMul a b => fbin f stk me a b Z.mul fr s
  | ELt a b => fbin f stk me a b (fun x y => if x <? y then 1 else 0) fr s
  | EMod a m =>
      let* (x, fr1, m1, s1) := feval p f stk me a fr s in
      match x with EUnwind => Ok (EUnwind, fr1, m1, s1) | EVal xv => Ok (EVal (xv mod m), fr1, m1, s1) end
  | EIf c a b =>
      let* (x, fr1, m1, s1) := feval p f stk me c fr s in
      match x with
      | EUnwind => Ok (EUnwind, fr1, m1, s1)
      | EVal xv =>
          let* (y, fr2, m2, s2) := feval p f stk me (if xv =? 0 then b else a) fr1 s1 in
          Ok (y, fr2, m1 ++ m2, s2)
      end
  | EGroup _ => Panic 6
  end.
Proof. intros. destruct e; reflexivity. Qed.

Definition new_tfc_of (s1 : state) (i : info) : list node :=
  fold_left (fun acc x =>
               match get_info s1 x with
               | Some xi => nunion acc (tfc_contribution x xi)
               | None => acc end)
            (all_callees (i_fwd i)) [].

Lemma frepair_S : forall f stk c n s,
  frepair p (S f) stk c n s =
  match get_info s n with
  | None => Panic 2
  | Some i =>
      let* (d, fr1, marks, s1) :=
        fwalk f n stk (c_pedantic c) i (all_callees (i_fwd i)) false [] empty_frame [] s in
      let fr2 := if nmem n marks then fr_mark_scc fr1 else fr1 in
      match d with
      | DRecompute =>
          let* (m2, s2) := fexecute p f stk c n true (fr_clear fr2) s1 in
          Ok (marks ++ m2, s2)
      | DClean false cleaned => Ok (marks, clean_query s1 n cleaned None)
      | DClean true cleaned => Ok (marks, clean_query s1 n cleaned (Some (new_tfc_of s1 i)))
      end
  end.
Proof. reflexivity. Qed.

End Unfold.
