(** Restart in the full engine model: only the volatile per-epoch items are reset. *)
From QV Require Import Common.Prelude Engine.Model.

Lemma restart_persisted s :
  s_nodes (restart s) = s_nodes s /\ s_bwd (restart s) = s_bwd s /\ s_dirty (restart s) = s_dirty s /\
  s_ts (restart s) = s_ts s /\ s_ext (restart s) = s_ext s /\ s_world (restart s) = s_world s.
Proof. repeat split; reflexivity. Qed.

Lemma restart_volatile s : s_visited (restart s) = [] /\ s_stat (restart s) = 0%N /\ s_log (restart s) = [].
Proof. repeat split; reflexivity. Qed.

(** what a request reads of the state: the fast path only looks at persisted columns *)
Lemma fast_path_restart s c fr n : fast_path (restart s) c fr n = fast_path s c fr n.
Proof. reflexivity. Qed.
