(** Auxiliary facts for the soundness of one request of the full model: frames under
    registration and observation ([MFrOk]), the registration check of [query_for]. *)
From QV Require Import Common.Prelude Engine.Model Engine.Core Engine.CoreSpec Engine.CoreInvBase
  Engine.CoreInvSem Engine.Fw Engine.FwBase Engine.FwMono Engine.FwInv Engine.FwInvExec Engine.FwRunBase Engine.FwRun
  Engine.MdlSpec Engine.MdlSem Engine.MdlBase Engine.MdlInv Engine.MdlInvState Engine.MdlInvExec.
Open Scope Z_scope.

Lemma all_callees_app : forall a b, all_callees (a ++ b) = all_callees a ++ all_callees b.
Proof. intros a b. unfold all_callees. apply flat_map_app. Qed.
Lemma push_unordered_last : forall o g n, push_unordered (o ++ [DUnordered g]) n = o ++ [DUnordered (g ++ [n])].
Proof.
  induction o as [|d o IH]; intros g n; [reflexivity|].
  cbn [app]. destruct o as [|d' o'].
  - cbn [app push_unordered]. destruct d; reflexivity.
  - specialize (IH g n). cbn [app] in *. cbn [push_unordered]. destruct d; rewrite <- IH; destruct (o' ++ [DUnordered g]); reflexivity.
Qed.

(** a computing stack of a real run is a chain of callers: every member reads the requested
    query, directly or indirectly *)
Inductive sreach (p : program) : node -> node -> Prop :=
| sr_one : forall m e n, alookup p m = Some e -> In n (expr_reads e) -> sreach p m n
| sr_step : forall m e d n, alookup p m = Some e -> In d (expr_reads e) -> sreach p d n -> sreach p m n.
Definition StkR (p : program) (stk : list node) (n : node) : Prop := forall m, In m stk -> sreach p m n.
Lemma sreach_snoc : forall p m n e d, sreach p m n -> alookup p n = Some e -> In d (expr_reads e) -> sreach p m d.
Proof.
  intros p m n e d H He Hd. induction H as [m e0 n He0 Hn|m e0 d0 n He0 Hd0 _ IH].
  - eapply sr_step; [exact He0|exact Hn|]. eapply sr_one; eauto.
  - eapply sr_step; [exact He0|exact Hd0|]. apply IH; assumption.
Qed.
Lemma StkR_nil : forall p n, StkR p [] n.
Proof. intros p n m []. Qed.
Lemma StkR_push : forall p stk n e d, StkR p stk n -> alookup p n = Some e -> In d (expr_reads e) -> StkR p (n :: stk) d.
Proof.
  intros p stk n e d H He Hd m [<-|Hm]; [eapply sr_one; eauto|]. eapply sreach_snoc; eauto.
Qed.
Lemma sreach_rank : forall p rk, (forall n e d, alookup p n = Some e -> In d (expr_reads e) -> (rk d < rk n)%nat) ->
  forall m n, sreach p m n -> (rk n < rk m)%nat.
Proof.
  intros p rk Hrk m n H. induction H as [m e n He Hn|m e d n He Hd _ IH].
  - eapply Hrk; eauto.
  - pose proof (Hrk _ _ _ He Hd). lia.
Qed.
Lemma StkR_ok : forall p rk, (forall n e d, alookup p n = Some e -> In d (expr_reads e) -> (rk d < rk n)%nat) ->
  forall stk n, StkR p stk n -> FwRun.StkOk rk stk n.
Proof. intros p rk Hrk stk n H m Hm. eapply sreach_rank; eauto. Qed.

Section Frames.
Variable rk : node -> nat.

Lemma MFrOk_obs_reg : forall s b x n i,
  MFrOk rk s b x -> get_info s n = Some i -> i_verified i = s_ts s ->
  (rk n < rk b)%nat -> (forall F, In F (i_tfc i) -> (rk F < rk n)%nat /\ nkind F = KFirewall) ->
  MFrOk rk s b (fr_obs_reg x n i).
Proof.
  intros s b x n i [A B C D E F G H H9] Hi Hv Hrn Hrt.
  split.
  - unfold fr_obs_reg, fr_observe. cbn [fr_scc]. rewrite (proj1 (fr_register_same x n)). exact A.
  - unfold fr_obs_reg, fr_observe. cbn [fr_unordered fr_order]. rewrite (proj2 (proj2 (fr_register_same x n))). intro Hu.
    destruct (B Hu) as [o [g Ho]]. unfold fr_register. destruct (alookup (fr_callees x) n); [eauto|].
    cbn [fr_order]. rewrite Hu, Ho, push_unordered_last. eauto.
  - rewrite fr_obs_reg_keys. unfold fr_obs_reg, fr_observe. cbn [fr_order]. unfold fr_register.
    destruct (alookup (fr_callees x) n); [exact C|]. cbn [fr_order]. destruct (fr_unordered x) eqn:Hu.
    + destruct (B eq_refl) as [o [g Ho]]. rewrite <- C, Ho, push_unordered_last, !all_callees_app.
      cbn [all_callees flat_map dep_nodes]. rewrite !app_nil_r, app_assoc. reflexivity.
    + rewrite all_callees_app, C. reflexivity.
  - intros y o Hy. unfold fr_obs_reg, fr_observe in Hy. cbn [fr_callees] in Hy.
    unfold fr_register in Hy. destruct (alookup (fr_callees x) n) eqn:E0.
    + apply aset_In_weak in Hy. destruct Hy as [Hy|Hy]; [inversion Hy; discriminate|eapply D; eauto].
    + cbn [fr_callees] in Hy. rewrite (aset_app_absent _ _ _ _ E0) in Hy. apply in_app_or in Hy.
      destruct Hy as [Hy|[Hy|[]]]; [eapply D; eauto|inversion Hy; discriminate].
  - intros d Hd. rewrite fr_obs_reg_lookup. destruct (node_eqb_spec n d) as [<-|Hne].
    + exists i. auto.
    + apply (fr_obs_reg_keys_In rk) in Hd. destruct Hd as [Hd|Hd]; [|congruence]. apply E. exact Hd.
  - intros d j Hd Hj. unfold fr_obs_reg, fr_observe. cbn [fr_tfc]. rewrite (proj1 (proj2 (fr_register_same x n))).
    destruct (node_eq_dec d n) as [->|Hne].
    + assert (j = i) by congruence. subst j. split.
      * intro K. apply nunion_In. right. unfold tfc_contribution. rewrite K. left. reflexivity.
      * intros K T HT. apply nunion_In. right. unfold tfc_contribution. destruct K as [K|K]; rewrite K; exact HT.
    + apply (fr_obs_reg_keys_In rk) in Hd. destruct Hd as [Hd|Hd]; [|contradiction].
      destruct (F d j Hd Hj) as [F1 F2]. split.
      * intro K. apply nunion_In. left. auto.
      * intros K T HT. apply nunion_In. left. auto.
  - intros T HT. unfold fr_obs_reg, fr_observe in HT. cbn [fr_tfc] in HT.
    rewrite (proj1 (proj2 (fr_register_same x n))) in HT. apply nunion_In in HT. destruct HT as [HT|HT].
    + destruct (G T HT) as [d [j (G1 & G2 & G3)]]. exists d, j. split; [|auto].
      apply (fr_obs_reg_keys_In rk). left. exact G1.
    + exists n, i. split; [apply (fr_obs_reg_keys_In rk); right; reflexivity|auto].
  - intros T HT. unfold fr_obs_reg, fr_observe in HT. cbn [fr_tfc] in HT.
    rewrite (proj1 (proj2 (fr_register_same x n))) in HT. apply nunion_In in HT. destruct HT as [HT|HT]; [auto|].
    unfold tfc_contribution in HT. destruct (nkind n); try destruct HT as [<-|[]]; try destruct HT; try exact Hrn;
      match goal with H : In T (i_tfc i) |- _ => destruct (Hrt _ H); lia end.
  - intros T HT. unfold fr_obs_reg, fr_observe in HT. cbn [fr_tfc] in HT.
    rewrite (proj1 (proj2 (fr_register_same x n))) in HT. apply nunion_In in HT. destruct HT as [HT|HT]; [auto|].
    unfold tfc_contribution in HT. destruct (nkind n) eqn:Kn; try destruct HT as [<-|[]]; try destruct HT; try exact Kn;
      match goal with H : In T (i_tfc i) |- _ => apply (Hrt _ H) end.
Qed.

Lemma mfrR_obs_reg : forall s b x n i d v,
  MFrOk rk s b x -> get_info s n = Some i -> frR x d v -> frR (fr_obs_reg x n i) d v.
Proof.
  intros s b x n i d v Hfr Hi [t Hx]. unfold frR. rewrite fr_obs_reg_lookup.
  destruct (node_eqb_spec n d) as [<-|Hne]; [|eauto].
  destruct (mo_entry _ _ _ _ Hfr n (alookup_keys _ _ _ Hx)) as [j (A & B & C)].
  assert (j = i) by congruence. subst j. rewrite Hx in A. inversion A. eauto.
Qed.
Lemma MFrOk_set_true : forall s b x, MFrOk rk s b x -> MFrOk rk s b (fr_set_unordered x true).
Proof.
  intros s b x [A B C D E F G H H9]. split; auto.
  - intros _. cbn. eauto.
  - cbn. rewrite all_callees_app, C. cbn. apply app_nil_r.
Qed.
Lemma MFrOk_set_false : forall s b x, MFrOk rk s b x -> MFrOk rk s b (fr_set_unordered x false).
Proof. intros s b x [A B C D E F G H H9]. split; auto. cbn. discriminate. Qed.
End Frames.

(** the registration check does not look at the pedantic flag *)
Lemma mq_reg_caller : forall c n s fr, mq_reg (fq_caller c n s) fr n = mq_reg c fr n.
Proof. intros c n s fr. destruct (fq_caller_shape c n s) as [->|[b [prev [-> ->]]]]; reflexivity. Qed.

Lemma mq_reg_ok : forall c fr n fr1, mq_reg c fr n = Ok fr1 -> fr1 = fq_reg c fr n.
Proof.
  intros c fr n fr1 H. unfold mq_reg, fq_reg in *. destruct c as [|b rv pd prev| |]; try (inversion H; reflexivity).
  destruct fr as [fr0|]; [|inversion H; reflexivity].
  destruct (kind_eqb (nkind b) KExternal); [discriminate|].
  destruct (kind_eqb (nkind b) KProjection && negb (is_fw_or_proj (nkind n))); [discriminate|].
  inversion H. reflexivity.
Qed.
