(** C07 on the full engine model: results that were up to date are served again without running
    any executor - across restarts, other queries, world changes - until the next input session.
    Unconditional: ANY program (cyclic ones included), any order oracles, any fuel. *)
From QV Require Import Common.Prelude Engine.Model Engine.Core Engine.CoreSpec Engine.CoreInvBase
  Engine.Fw Engine.FwBase Engine.FwMono Engine.FwOnce Engine.MdlSpec Engine.MdlBase Engine.MdlMono Engine.MdlCommit
  Engine.MdlSound Engine.MdlOnce.
Open Scope Z_scope.

(** a completed user request leaves its node verified, with the value it answered *)
Lemma cuser_verified : forall p tord bord pord f n s o fr' ms s',
  query_for_o p None tord bord pord f [] CUser None n s = Ok (o, fr', ms, s') ->
  exists i, get_info s' n = Some i /\ i_verified i = s_ts s' /\ o = QValue (Some (i_value i)).
Proof.
  intros p tord bord pord. induction f as [|f IH]; intros n s o fr' ms s' H; [discriminate|].
  rewrite query_for_S in H. cbv zeta in H. cbn [fq_caller mq_reg nmem existsb] in H.
  assert (Hhit : forall s0 v fr2, fast_path s0 CUser None n = (FHit v, fr2) ->
            fr2 = None /\ exists i, get_info s0 n = Some i /\ i_verified i = s_ts s0 /\ v = Some (i_value i)).
  { intros s0 v fr2 Hf. unfold fast_path in Hf. destruct (get_info s0 n) as [i|]; [|discriminate].
    destruct (i_verified i =? s_ts s0)%N eqn:Ev; cbn [negb] in Hf; [|discriminate]. cbn in Hf. inversion Hf.
    split; [reflexivity|]. exists i. apply N.eqb_eq in Ev. auto. }
  destruct (fast_path s CUser None n) as [[v|sp] fr2] eqn:Ef.
  - destruct (Hhit _ _ _ Ef) as [-> (i & A & B & ->)]. inversion H. subst. cbn. eauto.
  - destruct (mq_tfc p tord bord pord f [] CUser sp n s) as [s1| | |]; try discriminate.
    destruct (mq_process p tord bord pord f [] CUser sp n s1) as [[marks s2]| | |]; try discriminate.
    destruct (fast_path s2 CUser None n) as [[v|sp'] fr2'] eqn:Ef2.
    + destruct (Hhit _ _ _ Ef2) as [-> (i & A & B & ->)]. inversion H. subst. cbn. eauto.
    + destruct (query_for_o p None tord bord pord f [] CUser None n s2) as [[[[o3 fr3] m3] s3]| | |] eqn:Eq; try discriminate.
      inversion H. subst. eapply IH; eauto.
Qed.

(** a verified node: the request is a fast-path hit, nothing runs *)
Lemma cuser_hit : forall p tord bord pord f n s i,
  get_info s n = Some i -> i_verified i = s_ts s ->
  query_for_o p None tord bord pord (S f) [] CUser None n s = Ok (QValue (Some (i_value i)), None, [], s).
Proof.
  intros p tord bord pord f n s i Hi Hv. rewrite query_for_S. cbv zeta. cbn [fq_caller mq_reg nmem existsb].
  unfold fast_path. rewrite Hi, Hv, N.eqb_refl. reflexivity.
Qed.

Definition VerVal (s : state) (n : node) (z : Z) : Prop :=
  exists i, get_info s n = Some i /\ i_verified i = s_ts s /\ i_value i = z.

Section Restart.
Variable p : program.
Variables tord bord pord : state -> node -> list node -> list node.
Variables fuel pfuel : nat.

(** every operation but a session keeps verified results *)
Lemma step_keeps_verval : forall s o s' r n z,
  step_f tord bord pord fuel pfuel p s o = (s', r) -> (forall sets b, o <> OSession sets b) ->
  VerVal s n z -> VerVal s' n z.
Proof.
  intros s o s' r n z H Hns (i & Hi & Hv & Hz). destruct o as [sets b|m|w v|].
  - exfalso. eapply Hns. reflexivity.
  - destruct (mstep_query_mono p tord bord pord fuel pfuel _ _ _ _ H) as [[-> _]|[HM _]]; [exists i; auto|].
    destruct (mr_ver _ _ _ HM n i Hi Hv) as [i' [Hi' (A & B & _)]]. exists i'. split; [exact Hi'|].
    rewrite A, B, (mr_ts _ _ _ HM). cbn [set_log s_ts]. auto.
  - cbn in H. inversion H. subst. exists i. auto.
  - cbn in H. inversion H. subst. exists i. auto.
Qed.

Lemma query_verval : forall s n s' r z,
  step_f tord bord pord fuel pfuel p s (OQuery n) = (s', r) -> r_out r = RValue z -> VerVal s' n z /\ (1 <= fuel)%nat.
Proof.
  intros s n s' r z H Hz. unfold step_f in H.
  destruct (query_for_o p None tord bord pord fuel [] CUser None n (set_log s [])) as [[[[o fr] ms] s1]| | |] eqn:Eq;
    try (inversion H; subst; discriminate).
  split; [|destruct fuel; [discriminate|lia]].
  destruct (cuser_verified _ _ _ _ _ _ _ _ _ _ _ Eq) as (i & Hi & Hv & ->). inversion H. subst. cbn [r_out] in Hz.
  inversion Hz. subst. exists i. auto.
Qed.

Lemma verval_query : forall s n z s' r, (1 <= fuel)%nat -> VerVal s n z ->
  step_f tord bord pord fuel pfuel p s (OQuery n) = (s', r) -> r_out r = RValue z /\ r_execs r = [].
Proof.
  intros s n z s' r Hf (i & Hi & Hv & Hz) H. unfold step_f in H. destruct fuel as [|f]; [lia|].
  rewrite (cuser_hit p tord bord pord f n (set_log s []) i Hi Hv) in H. inversion H. subst. cbn. auto.
Qed.

Lemma run_no_reexecution : forall ops s i j n rj z,
  (j < i)%nat -> nth_error ops j = Some (OQuery n) -> nth_error ops i = Some (OQuery n) ->
  nth_error (run_history_f tord bord pord fuel pfuel p s ops) j = Some rj -> r_out rj = RValue z ->
  no_session_between ops j i ->
  exists ri, nth_error (run_history_f tord bord pord fuel pfuel p s ops) i = Some ri /\
             r_out ri = RValue z /\ r_execs ri = [].
Proof.
  (* first: from a state where the result is verified *)
  assert (Hlater : forall ops s i n z, (1 <= fuel)%nat -> VerVal s n z -> nth_error ops i = Some (OQuery n) ->
            (forall k sets b, (k <= i)%nat -> nth_error ops k <> Some (OSession sets b)) ->
            exists ri, nth_error (run_history_f tord bord pord fuel pfuel p s ops) i = Some ri /\
                       r_out ri = RValue z /\ r_execs ri = []).
  { induction ops as [|o rest IH]; intros s i n z Hf HV Hop Hns; [destruct i; discriminate|].
    cbn [run_history_f]. destruct (step_f tord bord pord fuel pfuel p s o) as [s' x] eqn:Es. destruct i as [|i].
    - cbn in Hop. inversion Hop. subst o. exists x. split; [reflexivity|]. eapply verval_query; eauto.
    - cbn [nth_error] in Hop |- *. apply (IH s' i n z Hf); auto.
      + eapply step_keeps_verval; eauto. intros sets b ->. apply (Hns 0%nat sets b); [lia|reflexivity].
      + intros k sets b Hk. apply (Hns (S k) sets b). lia. }
  induction ops as [|o rest IH]; intros s i j n rj z Hji Hj Hi Hrj Hz Hns; [destruct j; discriminate|].
  cbn [run_history_f] in Hrj |- *. destruct (step_f tord bord pord fuel pfuel p s o) as [s' x] eqn:Es.
  destruct i as [|i]; [lia|]. cbn [nth_error] in Hi |- *. destruct j as [|j].
  - cbn in Hj, Hrj. inversion Hj. inversion Hrj. subst o x.
    destruct (query_verval _ _ _ _ _ Es Hz) as [HV Hf]. apply (Hlater rest s' i n z Hf HV Hi).
    intros k sets b Hk. apply (Hns (S k) sets b). lia.
  - cbn [nth_error] in Hj, Hrj. apply (IH s' i j n rj z); auto; [lia|].
    intros k sets b Hk. apply (Hns (S k) sets b). lia.
Qed.
End Restart.

Definition model_no_reexecution_statement_f : Prop :=
  forall (tord bord pord : oracle) fuel pfuel p ops i j n rj z,
    (j < i)%nat -> nth_error ops j = Some (OQuery n) -> nth_error ops i = Some (OQuery n) ->
    nth_error (run_history_f tord bord pord fuel pfuel p init_state ops) j = Some rj -> r_out rj = RValue z ->
    no_session_between ops j i ->
    exists ri, nth_error (run_history_f tord bord pord fuel pfuel p init_state ops) i = Some ri /\
               r_out ri = RValue z /\ r_execs ri = [].
Theorem model_no_reexecution_f : model_no_reexecution_statement_f.
Proof. intros tord bord pord fuel pfuel p ops. apply run_no_reexecution. Qed.
Definition model_no_reexecution_statement_op : Prop :=
  forall (tord bord pord : oracle) p ops i j n rj z,
    (j < i)%nat -> nth_error ops j = Some (OQuery n) -> nth_error ops i = Some (OQuery n) ->
    nth_error (run_history_op tord bord pord p init_state ops) j = Some rj -> r_out rj = RValue z ->
    no_session_between ops j i ->
    exists ri, nth_error (run_history_op tord bord pord p init_state ops) i = Some ri /\
               r_out ri = RValue z /\ r_execs ri = [].
Theorem model_no_reexecution_op : model_no_reexecution_statement_op.
Proof. intros tord bord pord p ops i j n rj z. rewrite run_history_op_is_f. apply model_no_reexecution_f. Qed.
Definition model_no_reexecution_statement : Prop :=
  forall p ops i j n rj z,
    (j < i)%nat -> nth_error ops j = Some (OQuery n) -> nth_error ops i = Some (OQuery n) ->
    nth_error (run_history p init_state ops) j = Some rj -> r_out rj = RValue z ->
    no_session_between ops j i ->
    exists ri, nth_error (run_history p init_state ops) i = Some ri /\
               r_out ri = RValue z /\ r_execs ri = [].
Theorem model_no_reexecution : model_no_reexecution_statement.
Proof. intros p. exact (model_no_reexecution_op ord_id ord_id ord_id p). Qed.

(** example: restarts, another query and a world change in between *)
Example mexx_no_reexecution :
  map (fun r => (r_out r, r_execs r))
    (run_history mexx_prog init_state
       [ OSetWorld 0 5; OSetWorld 1 7; OSession [(0%N, 1); (1%N, 0)] false; OQuery (mex_N 0);
         ORestart; OQuery (mex_P 0); OSetWorld 0 6; ORestart; OQuery (mex_N 0) ]) =
  [ (RUnit, []); (RUnit, []); (RSession [SFresh; SFresh], []);
    (RValue 6, [mex_N 0; mex_P 0; mex_F 0; mex_X 0]);
    (RUnit, []); (RValue 6, []); (RUnit, []); (RUnit, []); (RValue 6, []) ].
Proof. vm_compute. reflexivity. Qed.

Print Assumptions model_no_reexecution_f.
Print Assumptions model_no_reexecution_op.
Print Assumptions model_no_reexecution.
