(** The mutual induction: soundness of [fquery_for] / [fexecute] / [feval] / [frepair]. *)
From QV Require Import Common.Prelude Engine.Model Engine.Core Engine.CoreSpec Engine.CoreInvBase
  Engine.CoreInvSem Engine.Fw Engine.FwBase Engine.FwMono Engine.FwSpec Engine.FwSem Engine.FwInv
  Engine.FwInvState Engine.FwInvExec Engine.FwInvClean Engine.FwRunBase Engine.FwRun.
Open Scope Z_scope.

Section RunAll.
Variable p : program.
Variable rk : node -> nat.
Hypothesis Hrk : forall n e d, alookup p n = Some e -> In d (expr_reads e) -> (rk d < rk n)%nat.

Lemma Keeps_set_log : forall s l s', Keeps (set_log s l) s' -> Keeps s s'.
Proof using Type.
  intros s l s' H d i Hi HS. apply (H d i Hi).
  apply (sn_Solid s (set_log s l) (fun m => eq_refl) eq_refl). exact HS.
Qed.
Lemma Keeps_same_nodes : forall s s', s_nodes s' = s_nodes s -> Keeps s s'.
Proof using Type.
  intros s s' Hn d i Hi _. exists i. split; [unfold get_info; rewrite Hn; exact Hi|repeat split].
Qed.
Lemma MonoR_same_nodes : forall stk s s', s_nodes s' = s_nodes s -> s_ts s' = s_ts s -> s_log s' = s_log s ->
  MonoR stk s s'.
Proof using Type. intros. eapply MonoR_same_r; eauto. apply MonoR_refl. Qed.

Lemma FrOk_same : forall s s' n fr, s_nodes s' = s_nodes s -> s_ts s' = s_ts s -> FrOk rk s n fr -> FrOk rk s' n fr.
Proof using Type.
  intros s s' n fr Hn Ht [A B C D E F G]. split; auto.
  - intros d Hd. destruct (E d Hd) as [i (E1 & E2 & E3)]. exists i. unfold get_info. rewrite Hn, Ht. auto.
  - intros d i Hd Hi. apply F; [exact Hd|]. unfold get_info in *. rewrite <- Hn. exact Hi.
Qed.

Lemma StaleV_log : forall s l n, StaleV s n -> StaleV (set_log s l) n.
Proof using Type.
  intros s l n (cal & i & ci & v & t & A & B & C & D & S & E).
  exists cal, i, ci, v, t. repeat (split; [assumption|]). split; [|exact E].
  destruct S as [S|S]; [left; exact S|right].
  apply (sn_Solid s (set_log s l) (fun m => eq_refl) eq_refl). exact S.
Qed.

Lemma fx_prev_lookup : forall s n i d t, get_info s n = Some i ->
  alookup (fx_prev s n) d = Some t -> exists v, alookup (i_obs i) d = Some (v, t).
Proof using Type.
  intros s n i d t Hi. unfold fx_prev. rewrite Hi. induction (i_obs i) as [|[x [v0 t0]] r IH]; cbn [map alookup snd]; [discriminate|].
  destruct (node_eqb x d); [intro H; inversion H; eauto|exact IH].
Qed.

Lemma fq_tfc_cases : forall f stk c sp n s s1,
  fq_tfc p f stk c sp n s = Ok s1 ->
  (s1 = s /\ ~ (exists i, (c = CUser \/ c = CRepairFirewall) /\ sp = SRepair /\ get_info s n = Some i))
  \/ (exists i, (c = CUser \/ c = CRepairFirewall) /\ sp = SRepair /\ get_info s n = Some i /\
        ftfc p f stk (i_tfc i) s = Ok s1).
Proof using Type.
  intros f stk c sp n s s1 H. unfold fq_tfc in H.
  destruct c as [|b rv pd prev| |]; destruct sp; destruct (get_info s n) as [i|] eqn:Ei;
    try (right; exists i; auto; fail);
    (left; split; [inversion H; reflexivity|]; intros [j (A & B & C)]; try discriminate; destruct A; discriminate).
Qed.

Lemma sound_all : forall f,
  sound_query p rk f /\ sound_execute p rk f /\ sound_eval p rk f /\ sound_repair p rk f.
Proof.
  induction f as [|f (IHq & IHx & IHe & IHr)].
  - split; [|split; [|split]]; red; intros;
      match goal with H : _ = Ok _ |- _ => cbn in H; discriminate H end.
  - destruct (mono_all p f) as (Mq & Mx & Me & Mr).
    assert (SQ : sound_query p rk (S f)).
    { red. intros inp stk c fr n s o fr' ms s' HI Hstk Hnp Hpre H.
      rewrite fquery_for_S in H. cbv zeta in H.
      rewrite fq_reg_caller, caller_node_caller in H. rewrite !fast_path_caller in H.
      set (c' := fq_caller c n s) in *. set (fr1 := fq_reg c fr n) in *.
      destruct (nmem n stk) eqn:Es.
      { apply nmem_In in Es. exfalso. eapply StkOk_notin; eauto. }
      destruct (fast_path s c fr1 n) as [[v|sp] fr2] eqn:Ef.
      { destruct (fast_path_hit _ _ _ _ _ _ Ef) as [i (Hi & Hv & _)].
        inversion H. subst. split; [exact HI|]. split; [apply Keeps_refl|]. split; [reflexivity|].
        exists i. split; [exact Hi|]. split; [exact Hv|]. eapply hit_post; eauto. }
      pose proof (fast_path_slow _ _ _ _ _ _ Ef) as Hsp.
      destruct (fq_tfc p f stk c' sp n s) as [s1| | |] eqn:Et; try discriminate.
      (* the TFC repair *)
      assert (T1 : FInv p rk inp s1 /\ Keeps s s1 /\ MonoR stk s s1 /\ (c_pedantic c' = true \/ NPn s1 n)).
      { destruct (fq_tfc_cases _ _ _ _ _ _ _ Et) as [[-> Hno]|[i (Hc & -> & Hi & Ht)]].
        - split; [exact HI|]. split; [apply Keeps_refl|]. split; [apply MonoR_refl|].
          destruct (NPq_caller p rk inp c n s HI Hnp) as [N|[N|N]]; [left; exact N|right; exact N|right].
          assert (Ec : c' = c) by (unfold c'; destruct N as [-> | ->]; reflexivity).
          destruct sp.
          + right. intros j Hj. congruence.
          + exfalso. destruct Hsp as [i (Hi & _)]. apply Hno. exists i. rewrite Ec. auto.
          + left. exact Hsp.
        - assert (Hst : forall t, In t (i_tfc i) -> StkOk rk stk t).
          { intros t Ht0. eapply StkOk_below; [exact Hstk|]. eapply fi_tfc_rk; eauto. }
          destruct (sound_tfc p rk f inp stk IHq _ _ _ HI Hst Ht) as (A & B & C).
          assert (M : MonoR stk s s1) by (eapply mono_tfc; eauto).
          split; [exact A|]. split; [exact B|]. split; [exact M|]. right.
          destruct (mr_unch _ _ _ M n) as [E|V]; [right|left; exact V].
          intros j Hj F HF. rewrite E, Hi in Hj. inversion Hj. subst j. apply C. exact HF. }
      destruct T1 as (HI1 & K1 & M1 & Hnp1).
      destruct (fq_process p f stk c' sp n s1) as [[marks s2]| | |] eqn:Ep; try discriminate.
      assert (Hsb : sp = SBackward -> sverified s1 n).
      { intros ->. eapply sverified_mono; eauto. }
      destruct (process_sound p rk f inp stk c' n sp s1 marks s2 IHx IHr HI1 Hstk Hnp1 Hsb Ep)
        as (HI2 & K2 & -> & V2).
      assert (M2 : MonoR stk s1 s2).
      { destruct sp.
        - unfold fq_process in Ep. destruct (get_info s1 n) as [i|] eqn:Ei.
          + destruct (i_verified i =? s_ts s1)%N eqn:Ev; [inversion Ep; subst; apply MonoR_refl|].
            eapply Mr; eauto; [eapply StkOk_notin; eauto|]. intros [j [J1 J2]]. assert (j = i) by congruence. subst j.
            apply N.eqb_neq in Ev. contradiction.
          + eapply Mx; eauto; [eapply StkOk_notin; eauto|]. intros [j [J1 _]]. congruence.
        - unfold fq_process in Ep. destruct (get_info s1 n) as [i|] eqn:Ei.
          + destruct (i_verified i =? s_ts s1)%N eqn:Ev; [inversion Ep; subst; apply MonoR_refl|].
            eapply Mr; eauto; [eapply StkOk_notin; eauto|]. intros [j [J1 J2]]. assert (j = i) by congruence. subst j.
            apply N.eqb_neq in Ev. contradiction.
          + eapply Mx; eauto; [eapply StkOk_notin; eauto|]. intros [j [J1 _]]. congruence.
        - rewrite fq_process_backward in Ep. inversion Ep. subst.
          apply MonoR_clear_pending; [eapply StkOk_notin; eauto|]. apply Hsb. reflexivity. }
      assert (M12 : MonoR stk s s2) by (eapply MonoR_trans; eauto).
      assert (K12 : Keeps s s2) by (eapply Keeps_trans; [exact HI|exact M1|exact K1|exact K2]).
      assert (Efp : fast_path s2 c' fr1 n = fast_path s2 c fr1 n) by apply fast_path_caller.
      rewrite Efp in H. clear Efp.
      destruct (fast_path s2 c fr1 n) as [[v|sp'] fr2'] eqn:Ef2.
      - destruct (fast_path_hit _ _ _ _ _ _ Ef2) as [i (Hi & Hv & _)].
        cbv zeta in H. rewrite frame_mark_if_nil in H.
        inversion H. subst. split; [exact HI2|]. split; [exact K12|]. split; [reflexivity|].
        exists i. split; [exact Hi|]. split; [exact Hv|].
        assert (Hpre2 : FrPre rk c fr n s').
        { destruct c as [|b rv pd prev| |]; cbn [FrPre] in *; auto. destruct rv; [|exact Hpre].
          destruct Hpre as [Hr [x [Hx Hfr]]]. split; [exact Hr|]. exists x. split; [eapply FrOk_mono; [exact M12|exact Hx]|exact Hfr]. }
        eapply hit_post; eauto.
      - destruct (fquery_for p f stk c' fr1 n s2) as [[[[o3 fr3] m3] s3]| | |] eqn:Eq; try discriminate.
        rewrite frame_mark_if_nil in H. injection H as E1 E2 E3 E4. subst o fr' ms s'.
        assert (Hnp2 : NPq c' n s2) by (eapply NPq_retry; eauto).
        assert (Hpre2 : FrPre rk c' fr1 n s2).
        { unfold fr1. rewrite <- (fq_reg_caller c n s fr). eapply FrPre_retry; eauto. }
        destruct (IHq inp stk c' fr1 n s2 o3 fr3 m3 s3 HI2 Hstk Hnp2 Hpre2 Eq) as (HI3 & K3 & -> & i & Hi & Hv & HP).
        assert (M3 : MonoR stk s2 s3) by (eapply Mq; eauto).
        split; [exact HI3|]. split; [eapply Keeps_trans; [exact HI|exact M12|exact K12|exact K3]|]. split; [reflexivity|].
        exists i. split; [exact Hi|]. split; [exact Hv|].
        eapply QPost_retry. unfold fr1 in HP. rewrite <- (fq_reg_caller c n s fr) in HP. exact HP. }
    assert (SX : sound_execute p rk (S f)).
    { red. intros inp stk c n rc fr0 s ms s' HI Hstk Hfr0 Hnv Hrc H. rewrite fexecute_S in H. cbv zeta in H.
      match type of H with context [match ?X with Ok _ => _ | OutOfFuel => OutOfFuel | Panic c => Panic c | Stuck => Stuck end] =>
        destruct X as [[[[out fr1] marks] s1]| | |] eqn:Ee; try discriminate end.
      set (s0 := set_log s (n :: s_log s)) in *.
      assert (Hb : exists e, alookup p n = Some e /\ is_exec_kind (nkind n) = true /\
                feval p f (n :: stk) (CQuery n true (c_pedantic c) (fx_prev s n)) e fr0 s0 = Ok (out, fr1, marks, s1)).
      { unfold fbody in Ee. destruct (nkind n); try discriminate; (destruct (alookup p n) as [e|]; [|discriminate]);
          exists e; auto. }
      destruct Hb as [e (He & Hk & Hev0)]. clear Ee.
      assert (HI0 : FInv p rk inp s0) by (apply FInv_log; exact HI).
      assert (Hreads : forall d, In d (expr_reads e) -> StkOk rk (n :: stk) d /\ (rk d < rk n)%nat).
      { intros d Hd. pose proof (Hrk _ _ _ He Hd). split; [apply StkOk_lower; assumption|assumption]. }
      destruct Hfr0 as (F1 & F2 & F3 & F4 & F5).
      assert (Hfr : FrOk rk s0 n fr0).
      { split; auto.
        - rewrite F1, F2. reflexivity.
        - intros x o Hx. rewrite F1 in Hx. destruct Hx.
        - intros d Hd. rewrite F1 in Hd. destruct Hd.
        - intros d i Hd. rewrite F1 in Hd. destruct Hd.
        - intros F HF. rewrite F3 in HF. destruct HF. }
      assert (Hpd : c_pedantic c = true \/ PrevOK s0 (fx_prev s n)).
      { destruct Hrc as [(_ & _ & [Hp|HT])|[_ Hn]].
        - left. exact Hp.
        - right. intros d t Hd. destruct (get_info s n) as [i|] eqn:Hi.
          + destruct (fx_prev_lookup _ _ _ _ _ Hi Hd) as [v Ho].
            destruct (fi_tfc _ _ _ _ HI n i d v t Hi Ho) as [T1 T2]. split.
            * intro K. apply (HT i Hi). apply T1. exact K.
            * intros K F HF. apply (HT i Hi). apply T2; assumption.
          + unfold fx_prev in Hd. rewrite Hi in Hd. discriminate.
        - right. intros d t Hd. unfold fx_prev in Hd. rewrite Hn in Hd. discriminate. }
      destruct (IHe inp (n :: stk) n (c_pedantic c) (fx_prev s n) e fr0 s0 out fr1 marks s1 HI0 Hreads Hfr Hpd Hev0)
        as (HI1 & K01 & -> & Hfr1 & _ & Hkeys & z & -> & Hev).
      pose proof (Me _ _ _ _ _ _ _ _ _ Hev0) as M01.
      cbn [nmem existsb] in H.
      assert (Ev : fx_value n (EVal z) fr1 = z) by (unfold fx_value; rewrite (fo_scc _ _ _ _ Hfr1); reflexivity).
      rewrite Ev in H. clear Ev.
      assert (Hn1 : get_info s1 n = get_info s n) by (apply (mr_stk _ _ _ M01 n); left; reflexivity).
      assert (Hts1 : s_ts s1 = s_ts s) by (apply (mr_ts _ _ _ M01)).
      assert (Hnv1 : ~ sverified s1 n).
      { intros [j [J1 J2]]. apply Hnv. exists j. rewrite <- Hn1, <- Hts1. auto. }
      assert (Hkeys' : forall d, In d (map fst (fr_callees fr1)) -> In d (expr_reads e)).
      { intros d Hd. destruct (Hkeys d Hd) as [K|K]; [rewrite F1 in K; destruct K|exact K]. }
      (* the compute-phase propagation *)
      match type of H with context [if ?b then propagate ?a ?b1 ?c1 else _] =>
        destruct (if b then propagate a b1 c1 else Ok s1) as [s2| | |] eqn:Epr; try discriminate end.
      assert (P : FInv p rk inp s2 /\ s_nodes s2 = s_nodes s1 /\ s_ts s2 = s_ts s1 /\ s_log s2 = s_log s1 /\
                  (nkind n = KFirewall -> forall i, get_info s2 n = Some i -> i_value i <> z ->
                     (forall c0, In n (old_fwd s2 c0) -> sdirty s2 c0 n) /\
                     (forall b a, nonfw b -> reach s2 b n -> In b (old_fwd s2 a) -> sdirty s2 a b))).
      { destruct (fx_changed s1 n rc z) eqn:Ech.
        - unfold fx_changed in Ech. destruct (get_info s1 n) as [i1|] eqn:Ei1; [|discriminate].
          apply andb_true_iff in Ech. destruct Ech as [Ech _]. apply andb_true_iff in Ech. destruct Ech as [_ Ekf].
          apply kind_eqb_eq in Ekf.
          destruct (FInv_propagate p rk inp _ _ _ _ HI1 Epr Hnv1 Ekf) as (A & B & C & D & E1 & E2).
          split; [exact A|]. split; [exact B|]. split; [exact C|]. split; [exact D|]. intros _ i _ _. exact (conj E1 E2).
        - inversion Epr. subst s2. split; [exact HI1|]. split; [reflexivity|]. split; [reflexivity|]. split; [reflexivity|].
          intros Kf i Hi Hne. exfalso. unfold fx_changed in Ech. rewrite Hi in Ech.
          destruct Hrc as [(-> & _)|[_ Hn]]; [|congruence].
          rewrite Kf in Ech. cbn [kind_eqb andb] in Ech. apply negb_false_iff in Ech. apply Z.eqb_eq in Ech. contradiction. }
      destruct P as (HI2 & N1 & N2 & N3 & Hfw).
      assert (Hg2 : forall m, get_info s2 m = get_info s1 m) by (intro m; unfold get_info; rewrite N1; reflexivity).
      assert (M02 : MonoR (n :: stk) s0 s2) by (eapply MonoR_same_r; eauto).
      assert (K12 : Keeps s1 s2) by (apply Keeps_same_nodes; exact N1).
      assert (K02 : Keeps s0 s2) by (eapply Keeps_trans; [exact HI0|exact M01|exact K01|exact K12]).
      assert (Hfr2 : FrOk rk s2 n fr1) by (eapply FrOk_same; eauto).
      assert (Hnv2 : ~ sverified s2 n).
      { intro K. apply Hnv1. apply (sn_verified s1 s2 Hg2 N2). exact K. }
      assert (Hrc2 : (rc = true /\ Stale s2 n) \/ (rc = false /\ get_info s2 n = None)).
      { destruct Hrc as [(-> & HS & _)|[-> Hn]].
        - left. split; [reflexivity|]. apply StaleV_Stale.
          eapply (StaleV_mono p rk inp (n :: stk) s0 s2 n HI0 M02 K02); [rewrite Hg2; exact Hn1|].
          apply StaleV_log. exact HS.
        - right. split; [reflexivity|]. rewrite Hg2, Hn1. exact Hn. }
      injection H as E1 E2. subst ms s'.
      destruct (FInv_set_computed p rk Hrk inp s2 n e z fr1 (fx_changed s1 n rc z) rc HI2 Hk He Hev Hkeys' Hfr2 Hnv2 Hrc2 Hfw)
        as [HI3 K23].
      split; [exact HI3|]. split; [|split; [reflexivity|]].
      + apply (Keeps_set_log s (n :: s_log s)).
        eapply Keeps_trans; [exact HI0|exact (MonoR_weaken _ _ _ _ M02)|exact K02|exact K23].
      + eexists. rewrite set_computed_get, node_eqb_refl. split; [reflexivity|].
        unfold sc_info. cbn [i_verified]. rewrite set_computed_ts. reflexivity. }
    assert (SE : sound_eval p rk (S f)).
    { assert (Hbin : forall inp stk n pd prev a b op fr s o fr' ms s',
                FInv p rk inp s ->
                (forall d, In d (expr_reads a ++ expr_reads b) -> StkOk rk stk d /\ (rk d < rk n)%nat) ->
                FrOk rk s n fr -> (pd = true \/ PrevOK s prev) ->
                fbin p f stk (CQuery n true pd prev) a b op fr s = Ok (o, fr', ms, s') ->
                FInv p rk inp s' /\ Keeps s s' /\ ms = [] /\ FrOk rk s' n fr' /\
                (forall d x, frR fr d x -> frR fr' d x) /\
                (forall d, In d (map fst (fr_callees fr')) ->
                   In d (map fst (fr_callees fr)) \/ In d (expr_reads a ++ expr_reads b)) /\
                exists x y, o = EVal (op x y) /\ ev (frR fr') a x /\ ev (frR fr') b y).
      { intros inp stk n pd prev a b op fr s o fr' ms s' HI Hstk Hfr Hpd H. unfold fbin in H.
        destruct (feval p f stk (CQuery n true pd prev) a fr s) as [[[[x fr1] m1] s1]| | |] eqn:E1; try discriminate.
        destruct (IHe inp _ _ _ _ _ _ _ _ _ _ _ HI (fun d Hd => Hstk d (in_or_app _ _ _ (or_introl Hd))) Hfr Hpd E1)
          as (HI1 & K1 & -> & Hfr1 & Hsub1 & Hk1 & xv & -> & Hev1).
        pose proof (Me _ _ _ _ _ _ _ _ _ E1) as M1.
        assert (Hpd1 : pd = true \/ PrevOK s1 prev).
        { destruct Hpd as [Hpd|Hpd]; [left; exact Hpd|right; eapply PrevOK_mono; eauto]. }
        destruct (feval p f stk (CQuery n true pd prev) b fr1 s1) as [[[[y fr2] m2] s2]| | |] eqn:E2; try discriminate.
        destruct (IHe inp _ _ _ _ _ _ _ _ _ _ _ HI1 (fun d Hd => Hstk d (in_or_app _ _ _ (or_intror Hd))) Hfr1 Hpd1 E2)
          as (HI2 & K2 & -> & Hfr2 & Hsub2 & Hk2 & yv & -> & Hev2).
        injection H as <- <- <- <-. split; [exact HI2|].
        split; [eapply Keeps_trans; [exact HI|exact M1|exact K1|exact K2]|]. split; [reflexivity|].
        split; [exact Hfr2|]. split; [auto|]. split.
        - intros d Hd. destruct (Hk2 d Hd) as [K|K].
          + destruct (Hk1 d K) as [K0|K0]; [left; exact K0|right; apply in_or_app; left; exact K0].
          + right. apply in_or_app. right. exact K.
        - exists xv, yv. split; [reflexivity|]. split; [|exact Hev2].
          eapply ev_mono; [exact Hev1|]. intros d x0 _ Hx0. apply Hsub2. exact Hx0. }
      red. intros inp stk n pd prev e fr s o fr' ms s' HI Hstk Hfr Hpd H. rewrite feval_S in H. destruct e.
      - injection H as <- <- <- <-. split; [exact HI|]. split; [apply Keeps_refl|]. split; [reflexivity|].
        split; [exact Hfr|]. split; [auto|]. split; [auto|]. exists z. split; [reflexivity|constructor].
      - unfold fread in H.
        destruct (fquery_for p f stk (CQuery n true pd prev) (Some fr) n0 s) as [[[[o1 fr1] m1] s1]| | |] eqn:E1; try discriminate.
        destruct (Hstk n0 (or_introl eq_refl)) as [Hs0 Hr0].
        assert (Hpre : FrPre rk (CQuery n true pd prev) (Some fr) n0 s).
        { split; [exact Hr0|]. exists fr. auto. }
        destruct (IHq inp stk (CQuery n true pd prev) (Some fr) n0 s o1 fr1 m1 s1 HI Hs0 Hpd Hpre E1) as (HI1 & K1 & -> & i & Hi & Hv & Ho & Hf).
        pose proof (Mq _ _ _ _ _ _ _ _ _ E1) as M1.
        specialize (Hf fr (or_introl eq_refl)). subst o1 fr1. cbv zeta in H.
        injection H as <- <- <- <-. split; [exact HI1|]. split; [exact K1|]. split; [reflexivity|].
        assert (Hfr1 : FrOk rk s1 n fr) by (eapply FrOk_mono; eauto).
        split; [|split; [|split]].
        + apply FrOk_obs_reg; auto. intros F HF. eapply fi_tfc_rk; eauto.
        + intros d x Hdx. eapply frR_obs_reg; eauto.
        + intros d Hd. apply (proj1 (fr_obs_reg_keys_In rk _ _ _ _)) in Hd. destruct Hd as [Hd| ->]; [left; exact Hd|right; left; reflexivity].
        + exists (i_value i). split; [reflexivity|]. constructor. exists (i_tfc i).
          rewrite fr_obs_reg_lookup, node_eqb_refl. reflexivity.
      - destruct (Hbin _ _ _ _ _ _ _ _ _ _ _ _ _ _ HI Hstk Hfr Hpd H) as (A & B & C & D & E & F & x & y & -> & G1 & G2).
        split; [exact A|]. split; [exact B|]. split; [exact C|]. split; [exact D|]. split; [exact E|]. split; [exact F|].
        eexists. split; [reflexivity|]. constructor; assumption.
      - destruct (Hbin _ _ _ _ _ _ _ _ _ _ _ _ _ _ HI Hstk Hfr Hpd H) as (A & B & C & D & E & F & x & y & -> & G1 & G2).
        split; [exact A|]. split; [exact B|]. split; [exact C|]. split; [exact D|]. split; [exact E|]. split; [exact F|].
        eexists. split; [reflexivity|]. constructor; assumption.
      - cbn [expr_reads] in Hstk.
        destruct (feval p f stk (CQuery n true pd prev) e fr s) as [[[[x fr1] m1] s1]| | |] eqn:E1; try discriminate.
        destruct (IHe inp _ _ _ _ _ _ _ _ _ _ _ HI Hstk Hfr Hpd E1) as (HI1 & K1 & -> & Hfr1 & Hsub1 & Hk1 & xv & -> & Hev1).
        injection H as <- <- <- <-. split; [exact HI1|]. split; [exact K1|]. split; [reflexivity|].
        split; [exact Hfr1|]. split; [exact Hsub1|]. split; [exact Hk1|].
        eexists. split; [reflexivity|]. constructor. exact Hev1.
      - destruct (Hbin _ _ _ _ _ _ _ _ _ _ _ _ _ _ HI Hstk Hfr Hpd H) as (A & B & C & D & E & F & x & y & -> & G1 & G2).
        split; [exact A|]. split; [exact B|]. split; [exact C|]. split; [exact D|]. split; [exact E|]. split; [exact F|].
        eexists. split; [reflexivity|]. constructor; assumption.
      - cbn [expr_reads] in Hstk.
        destruct (feval p f stk (CQuery n true pd prev) e1 fr s) as [[[[x fr1] m1] s1]| | |] eqn:E1; try discriminate.
        destruct (IHe inp _ _ _ _ _ _ _ _ _ _ _ HI (fun d Hd => Hstk d (in_or_app _ _ _ (or_introl Hd))) Hfr Hpd E1)
          as (HI1 & K1 & -> & Hfr1 & Hsub1 & Hk1 & xv & -> & Hev1).
        pose proof (Me _ _ _ _ _ _ _ _ _ E1) as M1.
        assert (Hpd1 : pd = true \/ PrevOK s1 prev).
        { destruct Hpd as [Hpd|Hpd]; [left; exact Hpd|right; eapply PrevOK_mono; eauto]. }
        assert (Hstk2 : forall d, In d (expr_reads (if xv =? 0 then e3 else e2)) -> StkOk rk stk d /\ (rk d < rk n)%nat).
        { intros d Hd. apply Hstk. apply in_or_app. right. apply in_or_app. destruct (xv =? 0); auto. }
        destruct (feval p f stk (CQuery n true pd prev) (if xv =? 0 then e3 else e2) fr1 s1)
          as [[[[y fr2] m2] s2]| | |] eqn:E2; try discriminate.
        destruct (IHe inp _ _ _ _ _ _ _ _ _ _ _ HI1 Hstk2 Hfr1 Hpd1 E2)
          as (HI2 & K2 & -> & Hfr2 & Hsub2 & Hk2 & v & -> & Hev2).
        injection H as <- <- <- <-. split; [exact HI2|].
        split; [eapply Keeps_trans; [exact HI|exact M1|exact K1|exact K2]|]. split; [reflexivity|].
        split; [exact Hfr2|]. split; [auto|]. split.
        + intros d Hd. destruct (Hk2 d Hd) as [K|K].
          * destruct (Hk1 d K) as [K0|K0]; [left; exact K0|right; apply in_or_app; left; exact K0].
          * right. apply in_or_app. right. apply in_or_app. destruct (xv =? 0); auto.
        + exists v. split; [reflexivity|]. econstructor; [|exact Hev2].
          eapply ev_mono; [exact Hev1|]. intros d x0 _ Hx0. apply Hsub2. exact Hx0.
      - discriminate. }
    assert (SR : sound_repair p rk (S f)).
    { red. intros inp stk c n s ms s' HI Hstk Hnv Hnp H. rewrite frepair_S in H.
      destruct (get_info s n) as [i|] eqn:Eg; [|discriminate]. cbv zeta in H.
      destruct (fwalk p f n stk (c_pedantic c) i (all_callees (i_fwd i)) false [] empty_frame [] s)
        as [[[[d fr1] marks] s1]| | |] eqn:Ew; try discriminate.
      assert (HW0 : WalkInv s i (all_callees (i_fwd i)) false []).
      { split; [intros x []| |discriminate]. intros x Hx Hn. contradiction. }
      destruct (sound_walk p rk Hrk f inp n stk (c_pedantic c) i IHq Hstk (all_callees (i_fwd i)) false [] empty_frame [] s d fr1 marks s1
                  HI Eg Hnv Hnp (fun x Hx => Hx) eq_refl eq_refl eq_refl HW0 Ew)
        as (HI1 & K1 & -> & Hscc & Htfc & Hd).
      pose proof (mono_walk p f n stk _ i Mq _ _ _ _ _ _ _ _ _ _ Ew) as M1.
      pose proof (mr_stk _ _ _ M1 n (or_introl eq_refl)) as Hn1.
      assert (Hi1 : get_info s1 n = Some i) by congruence.
      assert (Hnv1 : ~ sverified s1 n).
      { intros [j [J1 J2]]. apply Hnv. exists j. rewrite <- Hn1. split; [exact J1|].
        rewrite <- (mr_ts _ _ _ M1). exact J2. }
      assert (Hnp1 : c_pedantic c = true \/ TfcOK s1 n).
      { destruct Hnp as [Hp|Hp]; [left; exact Hp|right; eapply TfcOK_mono; eauto]. }
      cbn [nmem existsb] in H.
      destruct d as [|rtfc cl].
      - match type of H with context [fexecute p f ?a ?b ?c0 ?d0 ?e ?g] =>
          destruct (fexecute p f a b c0 d0 e g) as [[m2 s2]| | |] eqn:Ex; try discriminate end.
        injection H as <- <-.
        assert (Hfe : FrEmpty (fr_clear fr1)).
        { unfold FrEmpty, fr_clear. cbn. auto. }
        destruct (IHx inp stk c n true (fr_clear fr1) s1 m2 s2 HI1 Hstk Hfe Hnv1
                    (or_introl (conj eq_refl (conj Hd Hnp1))) Ex) as (HI2 & K2 & -> & V2).
        split; [exact HI2|]. split; [|split; [reflexivity|exact V2]].
        eapply Keeps_trans; [exact HI|exact (MonoR_weaken _ _ _ _ M1)|exact K1|exact K2].
      - destruct Hd as [W1 W2 W3].
        assert (Hall : forall x, In x (old_fwd s1 n) ->
                  edgeokV s1 i x /\ (nkind x = KFirewall -> sverified s1 x) /\ (nonfw x -> Solid s1 x)).
        { intros x Hx. unfold old_fwd in Hx. rewrite Hi1 in Hx.
          destruct (W2 x Hx (fun K => K)) as (A & B & C & _). auto. }
        assert (Hcl : forall x, In x cl -> In x (old_fwd s1 n) /\ (nkind x = KInput \/ sverified s1 x)).
        { intros x Hx. unfold old_fwd. rewrite Hi1. apply W1. exact Hx. }
        assert (Hres : forall nt,
                  (nt = None -> rtfc = false) -> (forall t, nt = Some t -> t = new_tfc_of s1 i /\ rtfc = true) ->
                  FInv p rk inp (clean_query s1 n cl nt) /\ Keeps s (clean_query s1 n cl nt) /\
                  sverified (clean_query s1 n cl nt) n).
        { intros nt Hn0 Hn2.
          destruct (FInv_clean p rk Hrk inp s1 n i cl nt HI1 Hi1 Hnv1 Hcl Hall) as [A B].
          - intros -> x Hx. unfold old_fwd in Hx. rewrite Hi1 in Hx.
            destruct (W2 x Hx (fun K => K)) as ((j & v & t & A1 & A2 & A3) & _ & _ & D).
            exists i, j, v, t. split; [exact Hi1|]. split; [exact A1|]. split; [exact A2|]. split; [exact A3|].
            intro Kn. destruct (D (Hn0 eq_refl) Kn) as (j0 & v0 & t0 & S1 & S2 & S3).
            assert (j0 = j) by congruence. subst j0. assert (t0 = t) by congruence. subst t0. exact S3.
          - intros t ->. destruct (Hn2 _ eq_refl) as [-> Hrt]. split; [reflexivity|].
            destruct (W3 Hrt) as (cal & j & v & t & A1 & A2 & _ & A4 & A5 & A6).
            exists cal. split; [unfold old_fwd; rewrite Hi1; exact A1|].
            intros (i0 & j0 & v0 & t0 & E1 & E2 & E3 & _ & E5). apply A6.
            assert (i0 = i) by congruence. subst i0. assert (j0 = j) by congruence. subst j0.
            assert (t0 = t) by congruence. subst t0. apply E5. exact A4.
          - split; [exact A|]. split.
            + eapply Keeps_trans; [exact HI|exact (MonoR_weaken _ _ _ _ M1)|exact K1|exact B].
            + eexists. rewrite (clean_query_get _ _ _ _ _ _ Hi1), node_eqb_refl. split; [reflexivity|].
              unfold cq_info. cbn [i_verified]. rewrite clean_query_ts. reflexivity. }
        destruct rtfc.
        + injection H as <- <-.
          destruct (Hres (Some (new_tfc_of s1 i))) as (A & B & C); [discriminate| |auto].
          intros t E. inversion E. auto.
        + injection H as <- <-.
          destruct (Hres None) as (A & B & C); [auto|discriminate|auto]. }
    auto.
Qed.
End RunAll.
