(** Soundness of one request of the full model ([Engine/Model.v]): statements for
    [query_for] / [execute] / [eval] / [repair] / [backward], the repair of the recorded
    transitive firewall callees, the loop of the backward projections and the repair walk.
    A non-pedantic repair is only started outside a window ([X = []]) and when the transitive
    firewall callees recorded for the node are verified ([TfcOK]). *)
From QV Require Import Common.Prelude Engine.Model Engine.Core Engine.CoreSpec Engine.CoreInvBase
  Engine.CoreInvSem Engine.Fw Engine.FwBase Engine.FwMono Engine.FwInv Engine.FwInvExec Engine.FwInvClean
  Engine.FwRunBase Engine.FwRun
  Engine.MdlSpec Engine.MdlSem Engine.MdlBase Engine.MdlMono Engine.MdlInv Engine.MdlInvState Engine.MdlInvExec
  Engine.MdlInvClean Engine.MdlRunBase.
Open Scope Z_scope.

Section Run.
Variable p : program.
Variables tord bord pord : state -> node -> list node -> list node.
Variable rk : node -> nat.
Variable sB : state.
Hypothesis Hrk : forall n e d, alookup p n = Some e -> In d (expr_reads e) -> (rk d < rk n)%nat.
Hypothesis Hproj : forall n e d, alookup p n = Some e -> nkind n = KProjection -> In d (expr_reads e) ->
  is_fw_or_proj (nkind d) = true.

Notation mquery := (query_for_o p None tord bord pord).
Notation mexecute := (execute_o p None tord bord pord).
Notation meval := (eval_o p None tord bord pord).
Notation mrepair := (repair_o p None tord bord pord).
Notation mbackward := (backward_o p None tord bord pord).

Definition is_cq (c : caller) : bool := match c with CQuery _ _ _ _ => true | _ => false end.

Definition MPrevOK (s : state) (prev : list (node * list node)) : Prop :=
  forall d t, alookup prev d = Some t ->
    (nkind d = KFirewall -> sverified s d) /\ (tkind d -> forall F, In F t -> sverified s F).
Definition MNPq (c : caller) (n : node) (s : state) : Prop :=
  match c with
  | CQuery _ true pd prev => pd = true \/ MPrevOK s prev
  | CQuery _ false pd _ => pd = true \/ NPn s n
  | CBPP => nkind n = KProjection
  | _ => True
  end.
(** inside a window only pedantic requests and backward projections run *)
Definition XMode (c : caller) (X : list node) : Prop :=
  match c with
  | CQuery _ _ pd _ => pd = true \/ X = []
  | CBPP => True
  | _ => X = []
  end.
(** the window opened by the node itself, whose backward projections this request will run *)
Definition QPreS (c : caller) (n : node) (Y : list node) (s : state) : Prop :=
  Y = [] \/ (c_follow c = true /\ sverified s n /\ has_pending s n = true /\
             forall y, In y Y -> In y (proj_callers s n)).

Lemma MPrevOK_mono : forall stk s s' prev, MonoR stk s s' -> MPrevOK s prev -> MPrevOK s' prev.
Proof.
  intros stk s s' prev HM H d t Hd. destruct (H d t Hd) as [A B]. split.
  - intro K. eapply sverified_mono; eauto.
  - intros K F HF. eapply sverified_mono; eauto.
Qed.

(** frames handed to a request *)
Definition MFrPre (c : caller) (fr : option frame) (n : node) (s : state) : Prop :=
  match c with
  | CQuery b true _ _ =>
      (rk n < rk b)%nat /\ exists x, MFrOk rk s b x /\ (fr = Some x \/ fr = Some (fr_register x n))
  | CQuery b false _ _ => exists x, fr = Some x /\ fr_scc x = false /\ fr_tfc x = []
  | _ => fr = None
  end.

(** an observation of [n] differs from what a callee that will not change any more records *)
Definition MStaleV (s : state) (n : node) : Prop :=
  exists cal i ci v t, get_info s n = Some i /\ In cal (all_callees (i_fwd i)) /\
    alookup (i_obs i) cal = Some (v, t) /\ get_info s cal = Some ci /\
    (sverified s cal \/ MSolid s cal) /\ i_value ci <> v.

Lemma MStaleV_Stale : forall s n, MStaleV s n -> Stale s n.
Proof.
  intros s n (cal & i & ci & v & t & A & B & C & D & _ & E). exists cal. split.
  - unfold old_fwd. rewrite A. exact B.
  - intros (i0 & j & v0 & t0 & A0 & B0 & C0 & D0 & _). apply E. congruence.
Qed.
Lemma MStaleV_not_Solid : forall s n, MStaleV s n -> ~ MSolid s n.
Proof. intros s n H [HG _]. eapply Stale_not_MGood; [apply MStaleV_Stale; exact H| |exact HG]. constructor. Qed.

Lemma MStaleV_mono : forall Ex X inp stk s s' n,
  MInvE p rk sB Ex X inp s -> MonoR stk s s' -> MKeeps s s' -> get_info s' n = get_info s n ->
  MStaleV s n -> MStaleV s' n.
Proof.
  intros Ex X inp stk s s' n HI HM HK En (cal & i & ci & v & t & A & B & C & D & S & E).
  assert (Hc : exists ci', get_info s' cal = Some ci' /\ i_value ci' = i_value ci /\
                 (sverified s' cal \/ MSolid s' cal)).
  { destruct S as [S|S].
    - destruct S as [j [J1 J2]]. assert (j = ci) by congruence. subst j.
      destruct (mr_ver _ _ _ HM cal ci D J2) as [ci' [K1 (K2 & K3 & _)]]. exists ci'. split; [exact K1|].
      split; [exact K3|]. left. exists ci'. split; [exact K1|]. rewrite K2, (mr_ts _ _ _ HM). exact J2.
    - destruct (HK cal ci D S) as [ci' [K1 (K2 & _)]]. exists ci'. split; [exact K1|]. split; [exact K2|].
      right. eapply MSolid_keep; eauto. congruence. }
  destruct Hc as [ci' (K1 & K2 & K3)].
  exists cal, i, ci', v, t. rewrite En. repeat (split; [assumption|]). congruence.
Qed.

Lemma StaleX_mono : forall stk s s' x, MonoR stk s s' -> get_info s' x = get_info s x -> StaleX s x -> StaleX s' x.
Proof.
  intros stk s s' x HM Ex (cal & i & ci & v & t & A & B & C & D & E).
  destruct (mr_ver _ _ _ HM cal ci C D) as [ci' [K1 (K2 & K3 & _)]].
  exists cal, i, ci', v, t. rewrite Ex. split; [exact A|]. split; [exact B|]. split; [exact K1|].
  split; [rewrite K2, (mr_ts _ _ _ HM); exact D|]. congruence.
Qed.

Definition MQPost (c : caller) (fr fr' : option frame) (o : qout) (i : info) (n : node) : Prop :=
  match c with
  | CUser => o = QValue (Some (i_value i))
  | CQuery b true _ _ =>
      o = QValue (Some (i_value i)) /\
      forall x, fr = Some x \/ fr = Some (fr_register x n) -> fr' = Some (fr_obs_reg x n i)
  | CQuery b false _ _ => exists x', fr' = Some x' /\ fr_scc x' = false /\ fr_tfc x' = []
  | _ => True
  end.

(** * statements *)
Definition msound_query (f : nat) : Prop :=
  forall inp X Y stk c fr n s o fr' ms s',
    MInv p rk sB (X ++ Y) inp s -> StkR p stk n -> (is_cq c = false -> stk = []) ->
    MNPq c n s -> XMode c X -> QPreS c n Y s ->
    mquery f stk c fr n s = Ok (o, fr', ms, s') ->
    MInv p rk sB X inp s' /\ (is_cq c = true -> MKeeps s s') /\ ms = [] /\
    exists i, get_info s' n = Some i /\ i_verified i = s_ts s' /\ (MFrPre c fr n s -> MQPost c fr fr' o i n).

(** what [execute] and [repair] leave: the node verified, possibly with a window of its own *)
Definition XPost (X : list node) (inp : menv) (c : caller) (n : node) (s' : state) : Prop :=
  exists Y, MInv p rk sB (X ++ Y) inp s' /\ (c_follow c = false -> Y = []) /\
    (Y = [] \/ has_pending s' n = true) /\ (forall y, In y Y -> In y (proj_callers s' n)) /\ sverified s' n.

Definition msound_execute (f : nat) : Prop :=
  forall inp X stk c n rc fr0 s ms s',
    MInv p rk sB X inp s -> StkR p stk n -> (is_cq c = false -> stk = []) ->
    FrEmpty fr0 -> ~ sverified s n ->
    (x_pedantic c = true \/ X = []) ->
    ((rc = true /\ MStaleV s n /\ (x_pedantic c = true \/ TfcOK s n)) \/ (rc = false /\ get_info s n = None)) ->
    mexecute f stk c n rc fr0 s = Ok (ms, s') ->
    XPost X inp c n s' /\ MKeeps s s' /\ ms = [].
Definition msound_eval (f : nat) : Prop :=
  forall inp X stk n pd prev e fr s o fr' ms s',
    MInv p rk sB X inp s ->
    (forall d, In d (expr_reads e) -> StkR p stk d /\ (rk d < rk n)%nat) ->
    MFrOk rk s n fr -> (pd = true \/ MPrevOK s prev) -> (pd = true \/ X = []) ->
    meval f stk (CQuery n true pd prev) e fr s = Ok (o, fr', ms, s') ->
    MInv p rk sB X inp s' /\ MKeeps s s' /\ ms = [] /\ MFrOk rk s' n fr' /\
    (forall d x, frR fr d x -> frR fr' d x) /\
    exists z l, o = EVal z /\ evr (frR fr') e z l /\
      (forall d, In d (map fst (fr_callees fr')) <-> In d (map fst (fr_callees fr)) \/ In d l).
Definition msound_repair (f : nat) : Prop :=
  forall inp X stk c n s ms s',
    MInv p rk sB X inp s -> StkR p stk n -> (is_cq c = false -> stk = []) -> ~ sverified s n ->
    (x_pedantic c = true \/ (X = [] /\ TfcOK s n)) ->
    mrepair f stk c n s = Ok (ms, s') ->
    XPost X inp c n s' /\ MKeeps s s' /\ ms = [].
Definition msound_backward (f : nat) : Prop :=
  forall inp X Y n s s',
    MInv p rk sB (X ++ Y) inp s -> sverified s n -> (forall y, In y Y -> In y (proj_callers s n)) ->
    mbackward f [] n s = Ok s' ->
    MInv p rk sB X inp s' /\ sverified s' n /\ has_pending s' n = false.

Lemma mono_q : forall f, mmono_query p tord bord pord f.
Proof. intro f. apply (mmono_all p tord bord pord f). Qed.

(** * the TFC repair of a root *)
Lemma msound_tfc : forall f inp, msound_query f ->
  forall ts s s', MInv p rk sB [] inp s -> mtfc p tord bord pord f [] ts s = Ok s' ->
    MInv p rk sB [] inp s' /\ forall t, In t ts -> sverified s' t.
Proof.
  intros f inp IHq. induction ts as [|t r IH]; intros s s' HI H; cbn [mtfc] in H.
  - inversion H. subst. split; [exact HI|]. intros t [].
  - destruct (mquery f [] CRepairFirewall None t s) as [[[[o fr'] m'] s1]| | |] eqn:Eq; try discriminate.
    pose proof (mono_q f _ _ _ _ _ _ _ _ _ Eq) as M1.
    destruct (IHq inp [] [] [] CRepairFirewall None t s o fr' m' s1 HI (StkR_nil p t) (fun _ => eq_refl)
                I eq_refl
                (or_introl eq_refl) Eq) as (HI1 & _ & _ & i & Hi & Hv & _).
    destruct (IH s1 s' HI1 H) as (HI2 & V2).
    assert (M2 : MonoR [] s1 s') by (eapply mmono_tfc; [apply mono_q|exact H]).
    split; [exact HI2|].
    intros x [<-|Hx]; [|apply V2; exact Hx]. eapply sverified_mono; [exact M2|]. exists i. auto.
Qed.

(** * the backward projections of a node *)
Lemma msound_bp : forall f inp X, msound_query f ->
  forall ps s s', MInv p rk sB X inp s -> (forall q, In q ps -> nkind q = KProjection) ->
    mbp p tord bord pord f [] ps s = Ok s' ->
    MInv p rk sB X inp s' /\ MonoR [] s s' /\ forall q, In q ps -> sverified s' q.
Proof.
  intros f inp X IHq. induction ps as [|q r IH]; intros s s' HI Hk H; cbn [mbp] in H.
  - inversion H. subst. split; [exact HI|]. split; [apply MonoR_refl|]. intros t [].
  - destruct (mquery f [] CBPP None q s) as [[[[o fr'] m'] s1]| | |] eqn:Eq; try discriminate.
    pose proof (mono_q f _ _ _ _ _ _ _ _ _ Eq) as M1.
    assert (HI0 : MInv p rk sB (X ++ []) inp s) by (rewrite app_nil_r; exact HI).
    destruct (IHq inp X [] [] CBPP None q s o fr' m' s1 HI0 (StkR_nil p q) (fun _ => eq_refl)
                (Hk q (or_introl eq_refl)) I (or_introl eq_refl) Eq) as (HI1 & _ & _ & i & Hi & Hv & _).
    destruct (IH s1 s' HI1 (fun x Hx => Hk x (or_intror Hx)) H) as (HI2 & M2 & V2).
    split; [exact HI2|]. split; [eapply MonoR_trans; eauto|].
    intros x [<-|Hx]; [|apply V2; exact Hx]. eapply sverified_mono; [exact M2|]. exists i. auto.
Qed.

Lemma mfwd_body : forall Ex X inp s n d, MInvE p rk sB Ex X inp s -> In d (old_fwd s n) ->
  exists e, alookup p n = Some e /\ In d (expr_reads e).
Proof.
  intros Ex X inp s n d HI Hd. unfold old_fwd in Hd. destruct (get_info s n) as [i|] eqn:Hi; [|destruct Hd].
  destruct (mi_kind _ _ _ _ _ _ _ HI n i Hi) as [(_ & K & _)|(_ & e & l & He & Hev & Hl)].
  - rewrite K in Hd. destruct Hd.
  - exists e. split; [exact He|]. eapply evr_reads; eauto. apply Hl. exact Hd.
Qed.

(** * the repair walk *)
Definition msynced (s : state) (i : info) (x : node) : Prop :=
  exists j v t, get_info s x = Some j /\ alookup (i_obs i) x = Some (v, t) /\
    forall F, In F (i_tfc j) <-> In F t.
Definition MEdgeDone (s : state) (i : info) (rtfc : bool) (x : node) : Prop :=
  edgeokV s i x /\ (nkind x = KFirewall -> sverified s x) /\ (thru x -> MSolid s x) /\
  (rtfc = false -> nkind x <> KFirewall -> msynced s i x).
Definition MTStale (s : state) (i : info) : Prop :=
  exists cal j v t, In cal (all_callees (i_fwd i)) /\ get_info s cal = Some j /\
    (sverified s cal \/ MSolid s cal) /\
    nkind cal <> KFirewall /\ alookup (i_obs i) cal = Some (v, t) /\ ~ (forall F, In F (i_tfc j) <-> In F t).
Record MWalkInv (s : state) (i : info) (cs : list node) (rtfc : bool) (cleaned : list node) : Prop := {
  mw_cleaned : forall x, In x cleaned -> In x (all_callees (i_fwd i)) /\ (nkind x = KInput \/ sverified s x);
  mw_done : forall x, In x (all_callees (i_fwd i)) -> ~ In x cs -> MEdgeDone s i rtfc x;
  mw_stale : rtfc = true -> MTStale s i;
}.

Lemma MEdgeDone_mono : forall Ex X inp stk s s' i r x,
  MInvE p rk sB Ex X inp s -> MonoR stk s s' -> MKeeps s s' -> MEdgeDone s i r x -> MEdgeDone s' i r x.
Proof.
  intros Ex X inp stk s s' i r x HI HM HK ((j & v & t & A & B & C) & D & E & G).
  assert (Hx : exists j', get_info s' x = Some j' /\ i_value j' = i_value j /\
                 (nkind x <> KFirewall -> i_tfc j' = i_tfc j)).
  { destruct (fw_or_thru x) as [K|K].
    - destruct (D K) as [j0 [J1 J2]]. assert (j0 = j) by congruence. subst j0.
      destruct (mr_ver _ _ _ HM x j A J2) as [j' [K1 (_ & K3 & _)]]. exists j'. split; [exact K1|].
      split; [exact K3|]. intro Kn. contradiction.
    - destruct (HK x j A (E K)) as [j' [K1 (K2 & _ & _ & K5)]]. exists j'. auto. }
  destruct Hx as [j' (X1 & X2 & X3)].
  split; [exists j', v, t; split; [exact X1|]; split; [exact B|congruence]|].
  split; [intro K; eapply sverified_mono; eauto|].
  split; [intro K; eapply MSolid_keep; eauto; congruence|].
  intros Hr Kn. destruct (G Hr Kn) as (j0 & v0 & t0 & S1 & S2 & S3).
  assert (j0 = j) by congruence. subst j0. exists j', v0, t0. split; [exact X1|]. split; [exact S2|].
  rewrite (X3 Kn). exact S3.
Qed.
Lemma MEdgeDone_weaken : forall s i r x, MEdgeDone s i r x -> MEdgeDone s i true x.
Proof. intros s i r x (A & B & C & _). split; [exact A|]. split; [exact B|]. split; [exact C|]. discriminate. Qed.

Lemma MTStale_mono : forall Ex X inp stk s s' i,
  MInvE p rk sB Ex X inp s -> MonoR stk s s' -> MKeeps s s' -> MTStale s i -> MTStale s' i.
Proof.
  intros Ex X inp stk s s' i HI HM HK (cal & j & v & t & A & B & C & D & E & G).
  assert (Hc : exists j', get_info s' cal = Some j' /\ i_tfc j' = i_tfc j /\ (sverified s' cal \/ MSolid s' cal)).
  { destruct C as [C|C].
    - destruct C as [j0 [J1 J2]]. assert (j0 = j) by congruence. subst j0.
      destruct (mr_ver _ _ _ HM cal j B J2) as [j' [K1 (K2 & _ & K4 & _)]]. exists j'. split; [exact K1|].
      split; [exact K4|]. left. exists j'. split; [exact K1|]. rewrite K2, (mr_ts _ _ _ HM). exact J2.
    - destruct (HK cal j B C) as [j' [K1 (_ & _ & _ & K5)]]. exists j'. split; [exact K1|]. split; [exact K5|].
      right. eapply MSolid_keep; eauto. congruence. }
  destruct Hc as [j' (K1 & K2 & K3)].
  exists cal, j', v, t. split; [exact A|]. split; [exact K1|]. split; [exact K3|].
  split; [exact D|]. split; [exact E|]. rewrite K2. exact G.
Qed.

Lemma MWalkInv_mono : forall Ex X inp stk s s' i cs r cl,
  MInvE p rk sB Ex X inp s -> MonoR stk s s' -> MKeeps s s' -> MWalkInv s i cs r cl -> MWalkInv s' i cs r cl.
Proof.
  intros Ex X inp stk s s' i cs r cl HI HM HK [A B C]. split.
  - intros x Hx. destruct (A x Hx) as [A1 [A2|A2]]; split; auto. right. eapply sverified_mono; eauto.
  - intros x Hx Hn. eapply MEdgeDone_mono; eauto.
  - intro Hr. eapply MTStale_mono; eauto.
Qed.

Lemma leaf_Solid : forall Ex X inp s d, MInvE p rk sB Ex X inp s -> leaf d -> MSolid s d.
Proof.
  intros Ex X inp s d HI K. pose proof (mleaf_no_fwd _ _ _ _ _ _ _ _ HI K) as E0. split.
  - intros x Hx y Hy. inversion Hx; subst; [rewrite E0 in Hy; destruct Hy|].
    match goal with H : In _ (old_fwd s d) |- _ => rewrite E0 in H; destruct H end.
  - intros F [x (P1 & P2 & _)]. inversion P1; subst; [rewrite E0 in P2; destruct P2|].
    match goal with H : In _ (old_fwd s d) |- _ => rewrite E0 in H; destruct H end.
Qed.
Lemma input_Solid : forall Ex X inp s d, MInvE p rk sB Ex X inp s -> nkind d = KInput -> MSolid s d.
Proof. intros Ex X inp s d HI K. eapply leaf_Solid; eauto. left. exact K. Qed.

(** an edge that may be skipped: clean, outside a window, with the recorded firewalls verified *)
Lemma mskip_done : forall inp s n i cal,
  MInv p rk sB [] inp s -> get_info s n = Some i -> TfcOK s n ->
  In cal (all_callees (i_fwd i)) -> ~ sdirty s n cal -> MEdgeDone s i false cal.
Proof.
  intros inp s n i cal HI Hi HT Hc Hcl.
  assert (Hcn : In cal (old_fwd s n)) by (unfold old_fwd; rewrite Hi; exact Hc).
  destruct (mi_C _ _ _ _ _ _ _ HI n cal Hcn Hcl) as [(i0 & j & v & t & A & B & C & D & E) G].
  assert (i0 = i) by congruence. subst i0.
  split; [exists j, v, t; auto|]. split; [|split].
  - intro K. apply (HT i Hi). apply (proj1 (mi_tfc _ _ _ _ _ _ _ HI n i cal v t Hi C)). exact K.
  - intro K. destruct (thru_stored _ _ _ _ _ _ _ _ _ HI B K) as [Kc|Kc]; [eapply leaf_Solid; eauto|].
    pose proof (MGoodX_nil _ _ (G K)) as Gc. split; [exact Gc|]. intros F HF.
    assert (HFj : In F (i_tfc j)) by (eapply MGood_reach_tfc; eauto).
    apply (HT i Hi). apply (proj2 (mi_tfc _ _ _ _ _ _ _ HI n i cal v t Hi C) Kc). apply (E K). exact HFj.
  - intros _ Kn. exists j, v, t. split; [exact B|]. split; [exact C|]. apply E. exact Kn.
Qed.

(** the sub-request a repair walk issues for a dependency satisfies [MNPq]: the walk is pedantic,
    or the transitive firewall callees recorded for the node are verified ([TfcOK]) and then either
    the dependency still has the transitive firewall callees that were accounted for (so they are
    verified) or the sub-request is made pedantic *)
Lemma walk_site_np : forall Ex X inp s n i cal ci0 ov otfc pd pc,
  MInvE p rk sB Ex X inp s -> get_info s n = Some i ->
  alookup (i_obs i) cal = Some (ov, otfc) -> get_info s cal = Some ci0 -> nkind cal <> KInput ->
  (pd = true \/ TfcOK s n) ->
  (pd = true -> pc = true) ->
  (nkind cal <> KFirewall -> nset_eqb (i_tfc ci0) otfc = false -> pc = true) ->
  MNPq (CQuery n false pc []) cal s.
Proof.
  intros Ex X inp s n i cal ci0 ov otfc pd pc HI Hi Eo Hci0 Kni Hnp Hp1 Hp2.
  cbn [MNPq]. destruct Hnp as [K|HT]; [left; auto|].
  destruct (mstored_kind _ _ _ _ _ _ _ _ _ HI Hci0) as [Kc|[Kc|Kc]].
  { right. right. intros j Hj F HF. assert (j = ci0) by congruence. subst j.
    destruct (mi_kind _ _ _ _ _ _ _ HI cal ci0 Hci0) as [(_ & _ & _ & T & _)|(K2 & _)]; [rewrite T in HF; destruct HF|].
    destruct Kc as [Kc|Kc]; rewrite Kc in K2; discriminate. }
  - right. left. apply (HT i Hi). apply (proj1 (mi_tfc _ _ _ _ _ _ _ HI n i cal ov otfc Hi Eo)). exact Kc.
  - assert (Knf : nkind cal <> KFirewall) by (destruct Kc as [Kc|Kc]; rewrite Kc; discriminate).
    destruct (nset_eqb (i_tfc ci0) otfc) eqn:Et.
    + right. right. intros j Hj F HF. assert (j = ci0) by congruence. subst j.
      apply (HT i Hi). apply (proj2 (mi_tfc _ _ _ _ _ _ _ HI n i cal ov otfc Hi Eo) Kc).
      apply (proj1 (nset_eqb_In _ _) Et). exact HF.
    + left. auto.
Qed.

Lemma msound_walk : forall f inp X n stk pd i, msound_query f -> StkR p stk n ->
  forall cs rtfc cleaned fr ms s d fr' ms' s1,
    MInv p rk sB X inp s -> get_info s n = Some i -> ~ sverified s n -> (pd = true \/ (X = [] /\ TfcOK s n)) ->
    (forall x, In x cs -> In x (all_callees (i_fwd i))) ->
    ms = [] -> fr_scc fr = false -> fr_tfc fr = [] ->
    MWalkInv s i cs rtfc cleaned ->
    mwalk p tord bord pord f n stk pd i cs rtfc cleaned fr ms s = Ok (d, fr', ms', s1) ->
    MInv p rk sB X inp s1 /\ MKeeps s s1 /\ ms' = [] /\ fr_scc fr' = false /\ fr_tfc fr' = [] /\
    match d with
    | DRecompute => MStaleV s1 n
    | DClean rtfc' cl' => MWalkInv s1 i [] rtfc' cl'
    end.
Proof.
  intros f inp X n stk pd i IHq Hstk.
  induction cs as [|cal r IH]; intros rtfc cleaned fr ms s d fr' ms' s1 HI Hi Hnv Hnp Hsub Hms Hscc Htfc HW H;
    cbn [mwalk] in H.
  - inversion H. subst. split; [exact HI|]. split; [apply MKeeps_refl|]. auto.
  - cbv zeta in H. subst ms.
    assert (Hcal : In cal (all_callees (i_fwd i))) by (apply Hsub; left; reflexivity).
    assert (Hcaln : In cal (old_fwd s n)) by (unfold old_fwd; rewrite Hi; exact Hcal).
    assert (Hsub' : forall x, In x r -> In x (all_callees (i_fwd i))) by (intros; apply Hsub; right; assumption).
    assert (Hrkc : (rk cal < rk n)%nat) by (eapply mfwd_rk; eauto).
    assert (Hstkc : StkR p (n :: stk) cal).
    { destruct (mfwd_body _ _ _ _ _ _ HI Hcaln) as (e0 & He0 & Hc0). eapply StkR_push; eauto. }
    remember (emem (n, cal) (s_dirty s)) as dt eqn:Edt. symmetry in Edt.
    destruct (negb dt && negb pd && negb (kind_eqb (nkind n) KProjection)) eqn:Eskip.
    + (* skipped *)
      apply andb_true_iff in Eskip. destruct Eskip as [Eskip _].
      apply andb_true_iff in Eskip. destruct Eskip as [E1 E2]. apply negb_true_iff in E1, E2. subst dt pd.
      destruct Hnp as [Hnp|[HX Hnp]]; [discriminate|]. subst X.
      apply emem_false in E1.
      apply (IH rtfc cleaned fr [] s d fr' ms' s1 HI Hi Hnv (or_intror (conj eq_refl Hnp)) Hsub' eq_refl Hscc Htfc); [|exact H].
      destruct HW as [W1 W2 W3]. split; [exact W1| |exact W3].
      intros x Hx Hnr. destruct (node_eq_dec x cal) as [->|Hne].
      * destruct rtfc; [eapply MEdgeDone_weaken|]; eapply mskip_done; eauto.
      * apply W2; [exact Hx|]. intros [K|K]; [congruence|contradiction].
    + clear Eskip.
      destruct (alookup (i_obs i) cal) as [[ov otfc]|] eqn:Eo.
      2:{ exfalso. destruct (mi_obs _ _ _ _ _ _ _ HI n i cal Hi Hcal) as [o Ho]. congruence. }
      (* the common continuation, once the callee has been brought up to date *)
      assert (Hstep : forall s0 fr0 ci,
                MInv p rk sB X inp s0 -> MKeeps s s0 -> MonoR (n :: stk) s s0 ->
                get_info s0 cal = Some ci ->
                (nkind cal = KFirewall -> sverified s0 cal) -> (thru cal -> MSolid s0 cal) ->
                (nkind cal = KInput \/ sverified s0 cal) ->
                fr_scc fr0 = false -> fr_tfc fr0 = [] ->
                (if negb (i_value ci =? ov) then Ok (DRecompute, fr0, [] ++ [], s0)
                 else mwalk p tord bord pord f n stk pd i r
                        (rtfc || (negb (kind_eqb (nkind cal) KFirewall) && negb (nset_eqb (i_tfc ci) otfc)))
                        (if dt then cleaned ++ [cal] else cleaned) fr0 ([] ++ []) s0) = Ok (d, fr', ms', s1) ->
                MInv p rk sB X inp s1 /\ MKeeps s s1 /\ ms' = [] /\ fr_scc fr' = false /\ fr_tfc fr' = [] /\
                match d with
                | DRecompute => MStaleV s1 n
                | DClean rtfc' cl' => MWalkInv s1 i [] rtfc' cl'
                end).
      { intros s0 fr0 ci HI0 HK0 HM0 Hci Hfw0 Hnf0 Hcl0 Hscc0 Htfc0 H0.
        assert (Hi0 : get_info s0 n = Some i) by (rewrite (mr_stk _ _ _ HM0 n (or_introl eq_refl)); exact Hi).
        assert (Hnv0 : ~ sverified s0 n).
        { intros [j [J1 J2]]. apply Hnv. exists j. split; [congruence|]. rewrite <- (mr_ts _ _ _ HM0). exact J2. }
        assert (Hstable : sverified s0 cal \/ MSolid s0 cal).
        { destruct (fw_or_thru cal); auto. }
        destruct (i_value ci =? ov) eqn:Ev; cbn [negb] in H0.
        - apply Z.eqb_eq in Ev. cbn [app] in H0.
          set (tdiff := negb (kind_eqb (nkind cal) KFirewall) && negb (nset_eqb (i_tfc ci) otfc)) in *.
          assert (HW0 : MWalkInv s0 i r (rtfc || tdiff) (if dt then cleaned ++ [cal] else cleaned)).
          { pose proof (MWalkInv_mono _ _ _ _ _ _ _ _ _ _ HI HM0 HK0 HW) as [W1 W2 W3]. split.
            - intros x Hx.
              assert (Hx' : In x cleaned \/ (dt = true /\ x = cal)).
              { destruct dt; [|auto]. apply in_app_or in Hx. destruct Hx as [Hx|[<-|[]]]; auto. }
              destruct Hx' as [Hx'|[_ ->]]; [apply W1; exact Hx'|]. split; [exact Hcal|exact Hcl0].
            - intros x Hx Hnr. destruct (node_eq_dec x cal) as [->|Hne].
              + split; [exists ci, ov, otfc; auto|]. split; [exact Hfw0|]. split; [exact Hnf0|].
                intros Hr Kn. apply orb_false_iff in Hr. destruct Hr as [_ Hr]. unfold tdiff in Hr.
                assert (Ek : kind_eqb (nkind cal) KFirewall = false).
                { destruct (kind_eqb (nkind cal) KFirewall) eqn:E0; [apply kind_eqb_eq in E0; contradiction|reflexivity]. }
                rewrite Ek in Hr. cbn [negb andb] in Hr. apply negb_false_iff in Hr. pose proof (proj1 (nset_eqb_In _ _) Hr) as Hr0.
                exists ci, ov, otfc. auto.
              + assert (Hd0 : MEdgeDone s0 i rtfc x).
                { apply W2; [exact Hx|]. intros [K|K]; [congruence|contradiction]. }
                destruct (rtfc || tdiff) eqn:Er.
                * eapply MEdgeDone_weaken; eauto.
                * apply orb_false_iff in Er. destruct Er as [-> _]. exact Hd0.
            - intro Hr. apply orb_true_iff in Hr. destruct Hr as [Hr|Hr]; [apply W3; exact Hr|].
              unfold tdiff in Hr. apply andb_true_iff in Hr. destruct Hr as [Hr1 Hr2].
              apply negb_true_iff in Hr1, Hr2.
              assert (Kn : nkind cal <> KFirewall).
              { intro K. rewrite K in Hr1. discriminate. }
              exists cal, ci, ov, otfc. split; [exact Hcal|]. split; [exact Hci|]. split; [exact Hstable|].
              split; [exact Kn|]. split; [exact Eo|]. intro K. apply (proj2 (nset_eqb_In _ _)) in K. congruence. }
          assert (Hnp0 : pd = true \/ (X = [] /\ TfcOK s0 n)).
          { destruct Hnp as [Hnp|[HX Hnp]]; [left; exact Hnp|right]. split; [exact HX|]. eapply TfcOK_mono; eauto. congruence. }
          destruct (IH _ _ _ _ _ _ _ _ _ HI0 Hi0 Hnv0 Hnp0 Hsub' eq_refl Hscc0 Htfc0 HW0 H0)
            as (R1 & R2 & R3 & R4 & R5 & R6).
          assert (M2 : MonoR (n :: stk) s0 s1) by (eapply mmono_walk; [apply mono_q|exact H0]).
          split; [exact R1|]. split; [eapply MKeeps_trans; eauto|]. auto.
        - inversion H0. subst. split; [exact HI0|]. split; [exact HK0|]. split; [reflexivity|].
          split; [exact Hscc0|]. split; [exact Htfc0|].
          exists cal, i, ci, ov, otfc. split; [exact Hi0|]. split; [exact Hcal|]. split; [exact Eo|].
          split; [exact Hci|]. split; [exact Hstable|]. apply Z.eqb_neq. exact Ev. }
      destruct (kind_eqb (nkind cal) KInput) eqn:Ek.
      * apply kind_eqb_eq in Ek.
        destruct (get_info s cal) as [ci|] eqn:Eci; [|discriminate].
        eapply (Hstep s fr ci); eauto.
        -- apply MKeeps_refl.
        -- apply MonoR_refl.
        -- intro K. rewrite Ek in K. discriminate.
        -- intros _. eapply input_Solid; eauto.
      * match type of H with context [query_for_o p None tord bord pord f ?a ?b ?c ?d0 ?e] =>
          destruct (query_for_o p None tord bord pord f a b c d0 e) as [[[[o fr1] m1] s']| | |] eqn:Eq; try discriminate end.
        assert (HM : MonoR (n :: stk) s s') by (eapply mono_q; eauto).
        assert (Hcs : exists ci0, get_info s cal = Some ci0).
        { destruct (get_info s cal) eqn:E0; [eauto|]. exfalso. eapply (mi_target _ _ _ _ _ _ _ HI); eauto. }
        destruct Hcs as [ci0 Hci0].
        assert (Kni : nkind cal <> KInput) by (intro K; rewrite K in Ek; discriminate).
        match type of Eq with query_for_o p None tord bord pord f _ (CQuery n false ?pc []) _ _ _ = _ => set (pcal := pc) in * end.
        assert (Hnpq : MNPq (CQuery n false pcal []) cal s).
        { eapply (walk_site_np _ _ _ s n i cal ci0 ov otfc pd pcal HI Hi Eo Hci0 Kni).
          - destruct Hnp as [K|[_ K]]; auto.
          - intros ->. reflexivity.
          - intros K1 K2. unfold pcal. rewrite Hci0, K2.
            destruct (kind_eqb (nkind cal) KFirewall) eqn:Ekf; [apply kind_eqb_eq in Ekf; contradiction|].
            cbn. apply orb_true_r. }
        assert (Hxm : XMode (CQuery n false pcal []) X).
        { cbn [XMode]. destruct Hnp as [->|[HX _]]; [left; reflexivity|right; exact HX]. }
        assert (HIa : MInv p rk sB (X ++ []) inp s) by (rewrite app_nil_r; exact HI).
        destruct (IHq inp X [] (n :: stk) (CQuery n false pcal []) (Some fr) cal s o fr1 m1 s' HIa
                    Hstkc (fun K => ltac:(discriminate K)) Hnpq
                    Hxm (or_introl eq_refl) Eq)
          as (HI' & HK' & -> & ci & Hci & Hv & HP).
        destruct (HP (ex_intro _ fr (conj eq_refl (conj Hscc Htfc)))) as (x' & -> & Sx & Tx).
        specialize (HK' eq_refl).
        rewrite Hci in H.
        assert (Vc : sverified s' cal) by (exists ci; auto).
        eapply (Hstep s' x' ci); eauto.
        -- intro K. eapply verified_Solid; eauto.
Qed.
End Run.
