(** The mutual induction: soundness of [query_for] / [execute] / [eval] / [repair] /
    [backward] of the full model on well-formed programs. *)
From QV Require Import Common.Prelude Engine.Model Engine.Core Engine.CoreSpec Engine.CoreInvBase
  Engine.CoreInvSem Engine.Fw Engine.FwBase Engine.FwMono Engine.FwInv Engine.FwInvExec Engine.FwInvClean
  Engine.FwRunBase Engine.FwRun
  Engine.MdlSpec Engine.MdlSem Engine.MdlBase Engine.MdlMono Engine.MdlInv Engine.MdlInvState Engine.MdlInvExec
  Engine.MdlInvClean Engine.MdlRunBase Engine.MdlRun Engine.MdlRunAux.
Open Scope Z_scope.

Section RunAll.
Variable p : program.
Variables tord bord pord : state -> node -> list node -> list node.
Variable rk : node -> nat.
Variable sB : state.
Hypothesis Hrk : forall n e d, alookup p n = Some e -> In d (expr_reads e) -> (rk d < rk n)%nat.
Hypothesis Hproj : forall n e d, alookup p n = Some e -> nkind n = KProjection -> In d (expr_reads e) ->
  is_fw_or_proj (nkind d) = true.
Hypothesis Hkeys : forall n e, alookup p n = Some e -> is_mexec_kind (nkind n) = true.
(** the order oracles keep the members of their argument (true of permutations) *)
Hypothesis Htord : forall s x l y, In y (tord s x l) <-> In y l.
Hypothesis Hbord : forall s x l y, In y (bord s x l) <-> In y l.
Hypothesis Hpord : forall s x l y, In y (pord s x l) <-> In y l.

Notation mquery := (query_for_o p None tord bord pord).
Notation mexecute := (execute_o p None tord bord pord).
Notation meval := (eval_o p None tord bord pord).
Notation mrepair := (repair_o p None tord bord pord).
Notation mbackward := (backward_o p None tord bord pord).

Lemma MKeeps_same_nodes : forall s s', s_nodes s' = s_nodes s -> MKeeps s s'.
Proof.
  intros s s' Hn d i Hi _. exists i. split; [unfold get_info; rewrite Hn; exact Hi|repeat split].
Qed.
Lemma MonoR_same_nodes : forall stk s s', s_nodes s' = s_nodes s -> s_ts s' = s_ts s -> s_log s' = s_log s ->
  MonoR stk s s'.
Proof. intros. eapply MonoR_same_r; eauto. apply MonoR_refl. Qed.
Lemma MKeeps_set_log : forall s l s', MKeeps (set_log s l) s' -> MKeeps s s'.
Proof.
  intros s l s' H d i Hi HS. apply (H d i Hi).
  apply (msn_Solid s (set_log s l) (fun m => eq_refl) eq_refl). exact HS.
Qed.
Lemma MStaleV_same : forall s s', (forall m, get_info s' m = get_info s m) -> s_ts s' = s_ts s ->
  forall n, MStaleV s n -> MStaleV s' n.
Proof.
  intros s s' Hg Ht n (cal & i & ci & v & t & A & B & C & D & S & E).
  exists cal, i, ci, v, t. rewrite !Hg. repeat (split; [assumption|]). split; [|exact E].
  destruct S as [S|S]; [left; apply (msn_verified _ _ Hg Ht); exact S|right; apply (msn_Solid _ _ Hg Ht); exact S].
Qed.

Lemma mfx_prev_lookup : forall s n i d t, get_info s n = Some i ->
  alookup (fx_prev s n) d = Some t -> exists v, alookup (i_obs i) d = Some (v, t).
Proof.
  intros s n i d t Hi. unfold fx_prev. rewrite Hi. induction (i_obs i) as [|[x [v0 t0]] r IH]; cbn [map alookup snd]; [discriminate|].
  destruct (node_eqb x d); [intro H; inversion H; eauto|exact IH].
Qed.

Lemma mq_tfc_cases : forall f stk c sp n s s1,
  mq_tfc p tord bord pord f stk c sp n s = Ok s1 ->
  (s1 = s /\ ~ (exists i, (c = CUser \/ c = CRepairFirewall) /\ sp = SRepair /\ get_info s n = Some i))
  \/ (exists i, (c = CUser \/ c = CRepairFirewall) /\ sp = SRepair /\ get_info s n = Some i /\
        mtfc p tord bord pord f stk (tord s n (i_tfc i)) s = Ok s1).
Proof.
  intros f stk c sp n s s1 H. unfold mq_tfc in H.
  destruct c as [|b rv pd prev| |]; destruct sp; destruct (get_info s n) as [i|] eqn:Ei;
    try (right; exists i; auto; fail);
    (left; split; [inversion H; reflexivity|]; intros [j (A & B & C)]; try discriminate; destruct A; discriminate).
Qed.

(** ** the executor *)
Lemma msound_eval_step : forall f, msound_query p tord bord pord rk sB f -> msound_eval p tord bord pord rk sB f -> msound_eval p tord bord pord rk sB (S f).
Proof.
  intros f IHq IHe.
  destruct (mmono_all p tord bord pord f) as (Mq & Mx & Me & Mr & Mb).
  assert (Hbin : forall inp X stk n pd prev a b op fr s o fr' ms s',
            MInv p rk sB X inp s ->
            (forall d, In d (expr_reads a ++ expr_reads b) -> StkR p stk d /\ (rk d < rk n)%nat) ->
            MFrOk rk s n fr -> (pd = true \/ MPrevOK s prev) -> (pd = true \/ X = []) ->
            mbin p tord bord pord f stk (CQuery n true pd prev) a b op fr s = Ok (o, fr', ms, s') ->
            MInv p rk sB X inp s' /\ MKeeps s s' /\ ms = [] /\ MFrOk rk s' n fr' /\
            (forall d x, frR fr d x -> frR fr' d x) /\
            exists x y l1 l2, o = EVal (op x y) /\ evr (frR fr') a x l1 /\ evr (frR fr') b y l2 /\
              (forall d, In d (map fst (fr_callees fr')) <-> In d (map fst (fr_callees fr)) \/ In d (l1 ++ l2))).
  { intros inp X stk n pd prev a b op fr s o fr' ms s' HI Hstk Hfr Hpd Hpx H. unfold mbin in H.
    destruct (meval f stk (CQuery n true pd prev) a fr s) as [[[[x fr1] m1] s1]| | |] eqn:E1; try discriminate.
    destruct (IHe inp X _ _ _ _ _ _ _ _ _ _ _ HI (fun d Hd => Hstk d (in_or_app _ _ _ (or_introl Hd))) Hfr Hpd Hpx E1)
      as (HI1 & K1 & -> & Hfr1 & Hsub1 & xv & l1 & -> & Hev1 & Hk1).
    pose proof (Me _ _ _ _ _ _ _ _ _ E1) as M1.
    assert (Hpd1 : pd = true \/ MPrevOK s1 prev).
    { destruct Hpd as [Hpd|Hpd]; [left; exact Hpd|right; eapply MPrevOK_mono; eauto]. }
    destruct (meval f stk (CQuery n true pd prev) b fr1 s1) as [[[[y fr2] m2] s2]| | |] eqn:E2; try discriminate.
    destruct (IHe inp X _ _ _ _ _ _ _ _ _ _ _ HI1 (fun d Hd => Hstk d (in_or_app _ _ _ (or_intror Hd))) Hfr1 Hpd1 Hpx E2)
      as (HI2 & K2 & -> & Hfr2 & Hsub2 & yv & l2 & -> & Hev2 & Hk2).
    injection H as <- <- <- <-. split; [exact HI2|].
    split; [eapply MKeeps_trans; [exact HI|exact M1|exact K1|exact K2]|]. split; [reflexivity|].
    split; [exact Hfr2|]. split; [auto|].
    exists xv, yv, l1, l2. split; [reflexivity|]. split; [|split; [exact Hev2|]].
    - eapply evr_mono; [exact Hev1|]. intros d x0 _ Hx0. apply Hsub2. exact Hx0.
    - intro d. rewrite Hk2, Hk1, in_app_iff. tauto. }
  assert (Hread : forall inp X stk n pd prev n0 fr s x fr1 m1 s1,
            MInv p rk sB X inp s -> StkR p stk n0 -> (rk n0 < rk n)%nat ->
            MFrOk rk s n fr -> (pd = true \/ MPrevOK s prev) -> (pd = true \/ X = []) ->
            mread p tord bord pord f stk (CQuery n true pd prev) n0 fr s = Ok (x, fr1, m1, s1) ->
            MInv p rk sB X inp s1 /\ MKeeps s s1 /\ m1 = [] /\ MonoR stk s s1 /\
            exists i, x = EVal (i_value i) /\ fr1 = fr_obs_reg fr n0 i /\ MFrOk rk s1 n fr1 /\
              (forall d y, frR fr d y -> frR fr1 d y) /\ frR fr1 n0 (i_value i)).
  { intros inp X stk n pd prev n0 fr s x fr1 m1 s1 HI Hs0 Hr0 Hfr Hpd Hpx H. unfold mread in H.
    destruct (mquery f stk (CQuery n true pd prev) (Some fr) n0 s) as [[[[o1 fr2] m2] s2]| | |] eqn:E1; try discriminate.
    assert (Hpre : MFrPre rk (CQuery n true pd prev) (Some fr) n0 s).
    { split; [exact Hr0|]. exists fr. auto. }
    assert (HIa : MInv p rk sB (X ++ []) inp s) by (rewrite app_nil_r; exact HI).
    destruct (IHq inp X [] stk (CQuery n true pd prev) (Some fr) n0 s o1 fr2 m2 s2 HIa Hs0 (fun K => ltac:(discriminate K))
                Hpd Hpx (or_introl eq_refl) E1) as (HI1 & K1 & -> & i & Hi & Hv & HP).
    destruct (HP Hpre) as [Ho Hf].
    specialize (K1 eq_refl).
    pose proof (Mq _ _ _ _ _ _ _ _ _ E1) as M1.
    specialize (Hf fr (or_introl eq_refl)). subst o1 fr2. cbv zeta in H.
    injection H as <- <- <- <-. split; [exact HI1|]. split; [exact K1|]. split; [reflexivity|]. split; [exact M1|].
    assert (Hfr1 : MFrOk rk s2 n fr) by (eapply MFrOk_mono; eauto).
    exists i. split; [reflexivity|]. split; [reflexivity|]. split; [|split].
    - apply MFrOk_obs_reg; auto. intros F HF. split; [eapply mi_tfc_rk; eauto|eapply mi_tfc_fw; eauto].
    - intros d y Hdy. eapply mfrR_obs_reg; eauto.
    - exists (i_tfc i). rewrite fr_obs_reg_lookup, node_eqb_refl. reflexivity. }
  assert (Hgrp : forall inp X stk n pd prev ns acc fr s x fr1 m1 s1,
            MInv p rk sB X inp s ->
            (forall d, In d ns -> StkR p stk d /\ (rk d < rk n)%nat) ->
            MFrOk rk s n fr -> (pd = true \/ MPrevOK s prev) -> (pd = true \/ X = []) ->
            mgroup p tord bord pord f stk (CQuery n true pd prev) ns acc fr [] s = Ok (x, fr1, m1, s1) ->
            MInv p rk sB X inp s1 /\ MKeeps s s1 /\ m1 = [] /\ MFrOk rk s1 n fr1 /\
            (forall d y, frR fr d y -> frR fr1 d y) /\
            exists w l, x = EVal (acc + w) /\ evr (frR fr1) (EGroup ns) w l /\
              (forall d, In d (map fst (fr_callees fr1)) <-> In d (map fst (fr_callees fr)) \/ In d l)).
  { intros inp X stk n pd prev. induction ns as [|n0 r IHn]; intros acc fr s x fr1 m1 s1 HI Hstk Hfr Hpd Hpx H; cbn [mgroup] in H.
    - injection H as <- <- <- <-. split; [exact HI|]. split; [apply MKeeps_refl|]. split; [reflexivity|]. split; [exact Hfr|].
      split; [auto|]. exists 0, []. split; [f_equal; lia|]. split; [constructor|]. intro d. cbn [In]. tauto.
    - destruct (mread p tord bord pord f stk (CQuery n true pd prev) n0 fr s) as [[[[x0 fr2] m2] s2]| | |] eqn:E1; try discriminate.
      destruct (Hstk n0 (or_introl eq_refl)) as (Hs0 & Hr0).
      destruct (Hread _ _ _ _ _ _ _ _ _ _ _ _ _ HI Hs0 Hr0 Hfr Hpd Hpx E1) as (HI1 & K1 & -> & M1 & i & -> & -> & Hfr2 & Hsub1 & Hn0).
      cbn [app] in H.
      assert (Hpd1 : pd = true \/ MPrevOK s2 prev).
      { destruct Hpd as [Hpd|Hpd]; [left; exact Hpd|right; eapply MPrevOK_mono; eauto]. }
      destruct (IHn _ _ _ _ _ _ _ HI1 (fun d Hd => Hstk d (or_intror Hd)) Hfr2 Hpd1 Hpx H)
        as (HI2 & K2 & -> & Hfr3 & Hsub2 & w & l & -> & Hev & Hk).
      split; [exact HI2|]. split; [eapply MKeeps_trans; [exact HI|exact M1|exact K1|exact K2]|]. split; [reflexivity|].
      split; [exact Hfr3|]. split; [auto|].
      exists (i_value i + w), (n0 :: l). split; [f_equal; lia|]. split.
      + constructor; [apply Hsub2; exact Hn0|exact Hev].
      + intro d. rewrite Hk, (fr_obs_reg_keys_In rk). cbn [In]. intuition. }
  red. intros inp X stk n pd prev e fr s o fr' ms s' HI Hstk Hfr Hpd Hpx H.
  rewrite (eval_S p tord bord pord f _ _ e fr s) in H. destruct e.
  - injection H as <- <- <- <-. split; [exact HI|]. split; [apply MKeeps_refl|]. split; [reflexivity|].
    split; [exact Hfr|]. split; [auto|]. exists z, []. split; [reflexivity|]. split; [constructor|].
    intro d. cbn [In]. tauto.
  - destruct (Hstk n0 (or_introl eq_refl)) as (Hs0 & Hr0).
    destruct (Hread _ _ _ _ _ _ _ _ _ _ _ _ _ HI Hs0 Hr0 Hfr Hpd Hpx H) as (HI1 & K1 & -> & M1 & i & -> & -> & Hfr2 & Hsub1 & Hn0).
    split; [exact HI1|]. split; [exact K1|]. split; [reflexivity|]. split; [exact Hfr2|]. split; [exact Hsub1|].
    exists (i_value i), [n0]. split; [reflexivity|]. split; [constructor; exact Hn0|].
    intro d. rewrite (fr_obs_reg_keys_In rk). cbn [In]. intuition.
  - destruct (Hbin _ _ _ _ _ _ _ _ _ _ _ _ _ _ _ HI Hstk Hfr Hpd Hpx H) as (A & B & C & D & E & x & y & l1 & l2 & -> & G1 & G2 & G3).
    split; [exact A|]. split; [exact B|]. split; [exact C|]. split; [exact D|]. split; [exact E|].
    eexists. exists (l1 ++ l2). split; [reflexivity|]. split; [constructor; assumption|exact G3].
  - destruct (Hbin _ _ _ _ _ _ _ _ _ _ _ _ _ _ _ HI Hstk Hfr Hpd Hpx H) as (A & B & C & D & E & x & y & l1 & l2 & -> & G1 & G2 & G3).
    split; [exact A|]. split; [exact B|]. split; [exact C|]. split; [exact D|]. split; [exact E|].
    eexists. exists (l1 ++ l2). split; [reflexivity|]. split; [constructor; assumption|exact G3].
  - cbn [expr_reads] in Hstk.
    destruct (meval f stk (CQuery n true pd prev) e fr s) as [[[[x fr1] m1] s1]| | |] eqn:E1; try discriminate.
    destruct (IHe inp X _ _ _ _ _ _ _ _ _ _ _ HI Hstk Hfr Hpd Hpx E1) as (HI1 & K1 & -> & Hfr1 & Hsub1 & xv & l1 & -> & Hev1 & Hk1).
    injection H as <- <- <- <-. split; [exact HI1|]. split; [exact K1|]. split; [reflexivity|].
    split; [exact Hfr1|]. split; [exact Hsub1|].
    eexists. exists l1. split; [reflexivity|]. split; [constructor; exact Hev1|exact Hk1].
  - destruct (Hbin _ _ _ _ _ _ _ _ _ _ _ _ _ _ _ HI Hstk Hfr Hpd Hpx H) as (A & B & C & D & E & x & y & l1 & l2 & -> & G1 & G2 & G3).
    split; [exact A|]. split; [exact B|]. split; [exact C|]. split; [exact D|]. split; [exact E|].
    eexists. exists (l1 ++ l2). split; [reflexivity|]. split; [constructor; assumption|exact G3].
  - cbn [expr_reads] in Hstk.
    destruct (meval f stk (CQuery n true pd prev) e1 fr s) as [[[[x fr1] m1] s1]| | |] eqn:E1; try discriminate.
    destruct (IHe inp X _ _ _ _ _ _ _ _ _ _ _ HI (fun d Hd => Hstk d (in_or_app _ _ _ (or_introl Hd))) Hfr Hpd Hpx E1)
      as (HI1 & K1 & -> & Hfr1 & Hsub1 & xv & l1 & -> & Hev1 & Hk1).
    pose proof (Me _ _ _ _ _ _ _ _ _ E1) as M1.
    assert (Hpd1 : pd = true \/ MPrevOK s1 prev).
    { destruct Hpd as [Hpd|Hpd]; [left; exact Hpd|right; eapply MPrevOK_mono; eauto]. }
    assert (Hstk2 : forall d, In d (expr_reads (if xv =? 0 then e3 else e2)) ->
              StkR p stk d /\ (rk d < rk n)%nat).
    { intros d Hd. apply Hstk. apply in_or_app. right. apply in_or_app. destruct (xv =? 0); auto. }
    destruct (meval f stk (CQuery n true pd prev) (if xv =? 0 then e3 else e2) fr1 s1)
      as [[[[y fr2] m2] s2]| | |] eqn:E2; try discriminate.
    destruct (IHe inp X _ _ _ _ _ _ _ _ _ _ _ HI1 Hstk2 Hfr1 Hpd1 Hpx E2)
      as (HI2 & K2 & -> & Hfr2 & Hsub2 & v & l2 & -> & Hev2 & Hk2).
    injection H as <- <- <- <-. split; [exact HI2|].
    split; [eapply MKeeps_trans; [exact HI|exact M1|exact K1|exact K2]|]. split; [reflexivity|].
    split; [exact Hfr2|]. split; [auto|].
    exists v, (l1 ++ l2). split; [reflexivity|]. split.
    + econstructor; [|exact Hev2].
      eapply evr_mono; [exact Hev1|]. intros d x0 _ Hx0. apply Hsub2. exact Hx0.
    + intro d. rewrite Hk2, Hk1, in_app_iff. tauto.
  - cbn [expr_reads] in Hstk.
    destruct (mgroup p tord bord pord f stk (CQuery n true pd prev) ns 0 (fr_set_unordered fr true) [] s) as [[[[x fr1] m1] s1]| | |] eqn:E1; try discriminate.
    destruct (Hgrp _ _ _ _ _ _ _ _ _ _ _ _ _ _ HI Hstk (MFrOk_set_true rk _ _ _ Hfr) Hpd Hpx E1)
      as (HI1 & K1 & -> & Hfr1 & Hsub & w & l & -> & Hev & Hk).
    injection H as <- <- <- <-. split; [exact HI1|]. split; [exact K1|]. split; [reflexivity|].
    split; [apply MFrOk_set_false; exact Hfr1|]. split; [exact Hsub|].
    exists w, l. split; [reflexivity|]. split; [exact Hev|exact Hk].
Qed.

(** ** repair *)
Lemma msound_repair_step : forall f, msound_query p tord bord pord rk sB f -> msound_execute p tord bord pord rk sB f -> msound_repair p tord bord pord rk sB (S f).
Proof.
  intros f IHq IHx.
  destruct (mmono_all p tord bord pord f) as (Mq & Mx & Me & Mr & Mb).
  red. intros inp X stk c n s ms s' HI Hstk Hroot Hnv Hnp H. rewrite repair_S in H.
  destruct (get_info s n) as [i|] eqn:Eg; [|discriminate]. cbv zeta in H.
  destruct (mwalk p tord bord pord f n stk (x_pedantic c) i (all_callees (i_fwd i)) false [] empty_frame [] s)
    as [[[[d fr1] marks] s1]| | |] eqn:Ew; try discriminate.
  assert (HW0 : MWalkInv s i (all_callees (i_fwd i)) false []).
  { split; [intros x []| |discriminate]. intros x Hx Hn. contradiction. }
  destruct (msound_walk p tord bord pord rk sB Hrk f inp X n stk (x_pedantic c) i IHq Hstk (all_callees (i_fwd i)) false [] empty_frame [] s d fr1 marks s1
              HI Eg Hnv Hnp (fun x Hx => Hx) eq_refl eq_refl eq_refl HW0 Ew)
    as (HI1 & K1 & -> & Hscc & Htfc & Hd).
  pose proof (mmono_walk p tord bord pord f n stk _ i Mq _ _ _ _ _ _ _ _ _ _ Ew) as M1.
  pose proof (mr_stk _ _ _ M1 n (or_introl eq_refl)) as Hn1.
  assert (Hi1 : get_info s1 n = Some i) by congruence.
  assert (Hnv1 : ~ sverified s1 n).
  { intros [j [J1 J2]]. apply Hnv. exists j. rewrite <- Hn1. split; [exact J1|].
    rewrite <- (mr_ts _ _ _ M1). exact J2. }
  cbn [nmem existsb] in H.
  destruct d as [|rtfc cl].
  - match type of H with context [execute_o p None tord bord pord f ?a ?b ?c0 ?d0 ?e ?g] =>
      destruct (execute_o p None tord bord pord f a b c0 d0 e g) as [[m2 s2]| | |] eqn:Ex; try discriminate end.
    injection H as <- <-.
    assert (Hfe : FrEmpty (fr_clear fr1)).
    { unfold FrEmpty, fr_clear. cbn. auto. }
    assert (Hpx : x_pedantic c = true \/ X = []) by (destruct Hnp as [Hp|[Hp _]]; auto).
    assert (Hnp1 : x_pedantic c = true \/ TfcOK s1 n).
    { destruct Hnp as [Hp|[_ Hp]]; [left; exact Hp|right; eapply TfcOK_mono; eauto]. }
    destruct (IHx inp X stk c n true (fr_clear fr1) s1 m2 s2 HI1 Hstk Hroot Hfe Hnv1 Hpx
                (or_introl (conj eq_refl (conj Hd Hnp1))) Ex) as (P2 & K2 & ->).
    split; [exact P2|]. split; [|reflexivity].
    eapply MKeeps_trans; [exact HI|exact (MonoR_weaken _ _ _ _ M1)|exact K1|exact K2].
  - destruct Hd as [W1 W2 W3].
    assert (Hall : forall x, In x (old_fwd s1 n) ->
              edgeokV s1 i x /\ (nkind x = KFirewall -> sverified s1 x) /\ (thru x -> MSolid s1 x)).
    { intros x Hx. unfold old_fwd in Hx. rewrite Hi1 in Hx.
      destruct (W2 x Hx (fun K => K)) as (A & B & C & _). auto. }
    assert (Hcl : forall x, In x cl -> In x (old_fwd s1 n) /\ (nkind x = KInput \/ sverified s1 x)).
    { intros x Hx. unfold old_fwd. rewrite Hi1. apply W1. exact Hx. }
    assert (HnX : ~ In n X).
    { intro Hin. destruct (mi_X _ _ _ _ _ _ _ HI n Hin) as [_ [K|K]]; [contradiction|].
      assert (K1s : StaleX s1 n) by (eapply StaleX_mono; eauto).
      destruct K1s as (cal & i0 & ci & v & t & A & B & C & D & E). assert (i0 = i) by congruence. subst i0.
      assert (Hc : In cal (all_callees (i_fwd i))) by (eapply mi_obs_fwd; eauto).
      destruct (W2 cal Hc (fun K0 => K0)) as ((j & v0 & t0 & A1 & A2 & A3) & _). apply E. congruence. }
    assert (Hres : forall nt,
              (nt = None -> rtfc = false) -> (forall t, nt = Some t -> t = new_tfc_of s1 i /\ rtfc = true) ->
              MInv p rk sB X inp (clean_query s1 n cl nt) /\ MKeeps s (clean_query s1 n cl nt) /\
              sverified (clean_query s1 n cl nt) n).
    { intros nt Hn0 Hn2.
      destruct (MInv_clean p rk sB Hrk X inp s1 n i cl nt HI1 Hi1 Hnv1 Hcl Hall) as [A B].
      - intros -> x Hx. unfold old_fwd in Hx. rewrite Hi1 in Hx.
        destruct (W2 x Hx (fun K => K)) as ((j & v & t & A1 & A2 & A3) & _ & _ & D).
        exists i, j, v, t. split; [exact Hi1|]. split; [exact A1|]. split; [exact A2|]. split; [exact A3|].
        intro Kn. destruct (D (Hn0 eq_refl) Kn) as (j0 & v0 & t0 & S1 & S2 & S3).
        assert (j0 = j) by congruence. subst j0. assert (t0 = t) by congruence. subst t0. exact S3.
      - intros t ->. destruct (Hn2 _ eq_refl) as [-> Hrt]. split; [reflexivity|]. split; [|exact HnX].
        destruct (W3 Hrt) as (cal & j & v & t & A1 & A2 & _ & A4 & A5 & A6).
        exists cal. split; [unfold old_fwd; rewrite Hi1; exact A1|].
        intros (i0 & j0 & v0 & t0 & E1 & E2 & E3 & _ & E5). apply A6.
        assert (i0 = i) by congruence. subst i0. assert (j0 = j) by congruence. subst j0.
        assert (t0 = t) by congruence. subst t0. apply E5. exact A4.
      - split; [exact A|]. split.
        + eapply MKeeps_trans; [exact HI|exact (MonoR_weaken _ _ _ _ M1)|exact K1|exact B].
        + eexists. rewrite (clean_query_get _ _ _ _ _ _ Hi1), node_eqb_refl. split; [reflexivity|].
          unfold cq_info. cbn [i_verified]. rewrite clean_query_ts. reflexivity. }
    assert (Hfin : forall nt s2, s2 = clean_query s1 n cl nt ->
              MInv p rk sB X inp s2 /\ MKeeps s s2 /\ sverified s2 n ->
              XPost p rk sB X inp c n s2 /\ MKeeps s s2 /\ @nil node = []).
    { intros nt s2 -> (A & B & C). split; [|auto]. exists []. rewrite app_nil_r.
      split; [exact A|]. split; [auto|]. split; [auto|]. split; [intros y []|exact C]. }
    destruct rtfc.
    + injection H as <- <-. eapply Hfin; [reflexivity|]. apply Hres; [discriminate|].
      intros t E. inversion E. auto.
    + injection H as <- <-. eapply Hfin; [reflexivity|]. apply Hres; [auto|discriminate].
Qed.

(** ** the backward projections *)
Lemma msound_backward_step : forall f, msound_query p tord bord pord rk sB f -> msound_backward p tord bord pord rk sB (S f).
Proof.
  intros f IHq. red. intros inp X Y n s s' HI Hv HY H. rewrite backward_S in H. cbv zeta in H.
  destruct (mbp p tord bord pord f [] (bord s n (proj_callers s n)) s) as [s1| | |] eqn:Eb; try discriminate. inversion H. subst s'. clear H.
  assert (Hk : forall q, In q (bord s n (proj_callers s n)) -> nkind q = KProjection).
  { intros q Hq. apply Hbord in Hq. unfold proj_callers in Hq. apply filter_In in Hq. apply kind_eqb_eq. apply Hq. }
  destruct (msound_bp p tord bord pord rk sB f inp (X ++ Y) IHq _ _ _ HI Hk Eb) as (HI1 & M1 & V1).
  assert (HI2 : MInv p rk sB X inp s1) by (eapply MInv_close; [exact HI1|]; intros y Hy; apply V1; apply Hbord; apply HY; exact Hy).
  assert (Hv1 : sverified s1 n) by (eapply sverified_mono; eauto).
  destruct Hv1 as [i [Hi Hvi]]. unfold clear_pending. rewrite Hi.
  destruct (MInv_pending p rk sB _ X inp s1 n i (mkInfo (i_verified i) (i_value i) (i_tfc i) (i_fwd i) (i_obs i) None) HI2 Hi (ex_intro _ i (conj Hi Hvi)))
    as [A _]; [repeat split|].
  split; [exact A|]. split.
  - eexists. rewrite get_put_eq. split; [reflexivity|]. exact Hvi.
  - unfold has_pending. rewrite get_put_eq. reflexivity.
Qed.

(** ** execute *)
Definition Dirt (X' : list node) (s : state) (n : node) : Prop :=
  (forall c, In n (old_fwd s c) -> sdirty s c n) /\
  (forall b x a, tpath s b x -> In n (old_fwd s x) -> ~ In x X' -> thru b -> In b (old_fwd s a) -> sdirty s a b).

Lemma sdirty_dec : forall s a b, sdirty s a b \/ ~ sdirty s a b.
Proof. intros s a b. unfold sdirty. destruct (in_dec edge_dec (a, b) (s_dirty s)); auto. Qed.

Lemma Dirt_of_Stale : forall Ex X X' inp s n, MInvE p rk sB Ex X inp s -> Stale s n -> thru n -> ~ In n X -> Dirt X' s n.
Proof.
  intros Ex X X' inp s n HI HS Ht HX. split.
  - intros c Hc. eapply Stale_callers_dirty; eauto.
  - intros b x a Hp Hx _ Hb Hab. destruct (sdirty_dec s a b) as [K|K]; [exact K|]. exfalso.
    destruct (mi_C _ _ _ _ _ _ _ HI a b Hab K) as [_ G]. eapply Stale_not_MGoodX; [exact HS|exact HX| |exact (G Hb)].
    eapply tpath_snoc; eauto.
Qed.
Lemma Dirt_of_UpDirty : forall X' s n, UpDirty s n -> Dirt X' s n.
Proof. intros X' s n [A B]. split; [exact A|]. intros b x a Hp Hx _ Hb Hab. eapply B; eauto. Qed.

(** the projections that read [n] and hold a value other than [z] for it *)
Definition ysel (s : state) (n : node) (z : Z) (y : node) : bool :=
  kind_eqb (nkind y) KProjection &&
  match get_info s y with
  | Some iy => match alookup (i_obs iy) n with Some (ov, _) => negb (ov =? z) | None => false end
  | None => false
  end.
Definition ywin (s : state) (n : node) (z : Z) : list node := filter (ysel s n z) (callers_of s n).

Lemma Dirt_of_UpDirtyP : forall Ex X inp s n i z, MInvE p rk sB Ex X inp s -> get_info s n = Some i -> i_value i <> z ->
  UpDirtyP s n -> Dirt (X ++ ywin s n z) s n.
Proof.
  intros Ex X inp s n i z HI Hi Hne [A B]. split; [exact A|].
  intros b x a Hp Hx HnX Hb Hab.
  assert (Hxs : exists ix, get_info s x = Some ix).
  { unfold old_fwd in Hx. destruct (get_info s x) as [ix|]; [eauto|destruct Hx]. }
  destruct Hxs as [ix Hix].
  destruct (mstored_kind _ _ _ _ _ _ _ _ _ HI Hix) as [K|[K|[K|K]]].
  - rewrite (mleaf_no_fwd _ _ _ _ _ _ _ _ HI K) in Hx. destruct Hx.
  - exfalso. destruct (tpath_last _ _ _ Hp) as [->|[z0 (_ & _ & Kt)]]; [apply Hb; exact K|apply Kt; exact K].
  - eapply B; eauto. unfold nonfw. rewrite K. reflexivity.
  - assert (Hxc : In x (callers_of s n)) by (apply (mi_bwd _ _ _ _ _ _ _ HI); exact Hx).
    assert (Hxf : In n (all_callees (i_fwd ix))) by (unfold old_fwd in Hx; rewrite Hix in Hx; exact Hx).
    destruct (mi_obs _ _ _ _ _ _ _ HI x ix n Hix Hxf) as [[ov t] Ho].
    destruct (Z.eq_dec ov z) as [Eo|Eo].
    + destruct (sdirty_dec s a b) as [Kd|Kd]; [exact Kd|]. exfalso.
      destruct (mi_C _ _ _ _ _ _ _ HI a b Hab Kd) as [_ G]. destruct (G Hb x Hp) as [Kx|Kx].
      * apply HnX. apply in_or_app. left. exact Kx.
      * destruct (Kx n Hx) as (i0 & j & v & t0 & E1 & E2 & E3 & E4 & _). apply Hne. congruence.
    + exfalso. apply HnX. apply in_or_app. right. unfold ywin. apply filter_In. split; [exact Hxc|].
      unfold ysel. rewrite K, Hix, Ho. cbn [kind_eqb andb]. apply negb_true_iff. apply Z.eqb_neq. exact Eo.
Qed.

Lemma ywin_spec : forall Ex X inp s n z y, MInvE p rk sB Ex X inp s -> In y (ywin s n z) ->
  In y (proj_callers s n) /\ nkind y = KProjection /\ y <> n /\
  exists i ov t, get_info s y = Some i /\ alookup (i_obs i) n = Some (ov, t) /\ ov <> z.
Proof.
  intros Ex X inp s n z y HI Hy. unfold ywin in Hy. apply filter_In in Hy. destruct Hy as [Hc Hs].
  unfold ysel in Hs. apply andb_true_iff in Hs. destruct Hs as [Hk Hs].
  split; [unfold proj_callers; apply filter_In; auto|]. apply kind_eqb_eq in Hk. split; [exact Hk|]. split.
  - intros ->. apply (mi_bwd _ _ _ _ _ _ _ HI) in Hc. pose proof (mfwd_rk _ _ Hrk _ _ _ _ _ _ _ HI Hc). lia.
  - destruct (get_info s y) as [iy|]; [|discriminate]. destruct (alookup (i_obs iy) n) as [[ov t]|] eqn:Eo; [|discriminate].
    exists iy, ov, t. split; [reflexivity|]. split; [exact Eo|]. apply negb_true_iff in Hs. apply Z.eqb_neq. exact Hs.
Qed.

Lemma NVabove_of_notSolid : forall Ex X inp s n, MInvE p rk sB Ex X inp s -> ~ MSolid s n -> ~ sverified s n -> NVabove s n.
Proof.
  intros Ex X inp s n HI HS Hnv b x Hp Hx Hb.
  pose proof (MSolid_path _ _ _ (verified_Solid _ _ _ _ _ _ _ _ HI Hb) Hp) as Sx.
  destruct (fw_or_thru n) as [K|K].
  - apply Hnv. apply (proj2 Sx). apply mreach_direct; assumption.
  - apply HS. eapply MSolid_step; eauto.
Qed.

Lemma msound_execute_step : forall f, msound_eval p tord bord pord rk sB f -> msound_execute p tord bord pord rk sB (S f).
Proof.
  intros f IHe. destruct (mmono_all p tord bord pord f) as (Mq & Mx & Me & Mr & Mb).
  red. intros inp X stk c n rc fr0 s ms s' HI Hstk Hroot Hfr0 Hnv Hpx Hrc H.
  rewrite execute_S in H. cbv zeta in H.
  match type of H with context [match ?X with Ok _ => _ | OutOfFuel => OutOfFuel | Panic c => Panic c | Stuck => Stuck end] =>
    destruct X as [[[[out fr1] marks] s1]| | |] eqn:Ee; try discriminate end.
  set (s0 := set_log s (n :: s_log s)) in *.
  assert (HJn : JustAt p sB inp n).
  { destruct (mi_U _ _ _ _ _ _ _ HI n) as [K|K]; [contradiction|].
    destruct Hrc as [(_ & (cal & i & ci & v & t & A & B & C & D & Sc & E) & _)|[_ Hn]].
    - right. exists i, cal, v. split; [congruence|]. split; [exists t; exact C|].
      intro Hsp. apply E.
      assert (Hcur : MSpecI p inp cal (i_value ci)).
      { destruct Sc as [[j [J1 J2]]|Sc]; [assert (j = ci) by congruence; subst j; eapply mi_V; eauto|].
        eapply (MSolid_value p rk Hrk _ _ _ _ _ HI (S (rk cal))); eauto. }
      eapply MSpecI_det; eauto.
    - left. congruence. }
  assert (HI0 : MInv p rk sB X inp s0) by (apply MInv_log_push; assumption).
  destruct Hfr0 as (F1 & F2 & F3 & F4 & F5).
  assert (Hfr : MFrOk rk s0 n fr0).
  { split; auto.
    - intro K. rewrite F5 in K. discriminate.
    - rewrite F1, F2. reflexivity.
    - intros x o Hx. rewrite F1 in Hx. destruct Hx.
    - intros d Hd. rewrite F1 in Hd. destruct Hd.
    - intros d i Hd. rewrite F1 in Hd. destruct Hd.
    - intros F HF. rewrite F3 in HF. destruct HF.
    - intros F HF. rewrite F3 in HF. destruct HF.
    - intros F HF. rewrite F3 in HF. destruct HF. }
  assert (Hpd : x_pedantic c = true \/ MPrevOK s0 (fx_prev s n)).
  { destruct Hrc as [(_ & _ & [Hp|HT])|[_ Hn]].
    - left. exact Hp.
    - right. intros d t Hd. destruct (get_info s n) as [i|] eqn:Hi.
      + destruct (mfx_prev_lookup _ _ _ _ _ Hi Hd) as [v Ho].
        destruct (mi_tfc _ _ _ _ _ _ _ HI n i d v t Hi Ho) as [T1 T2]. split.
        * intro K. apply (HT i Hi). apply T1. exact K.
        * intros K F HF. apply (HT i Hi). apply T2; assumption.
      + unfold fx_prev in Hd. rewrite Hi in Hd. discriminate.
    - right. intros d t Hd. unfold fx_prev in Hd. rewrite Hn in Hd. discriminate. }
  (* the executor: the world's answer for an external input, the evaluation of the body otherwise *)
  assert (Hexec : exists z, out = EVal z /\ marks = [] /\ MInv p rk sB X inp s1 /\ MKeeps s0 s1 /\
                    MFrOk rk s1 n fr1 /\ MonoR (n :: stk) s0 s1 /\ NewKind p inp n z fr1).
  { destruct (kind_eqb (nkind n) KExternal) eqn:Kx.
    - apply kind_eqb_eq in Kx. rewrite Kx in Ee. inversion Ee. subst out fr1 marks s1. clear Ee.
      exists (world_get s0 (nidx n)). split; [reflexivity|]. split; [reflexivity|]. split; [exact HI0|].
      split; [apply MKeeps_refl|]. split; [exact Hfr|]. split; [apply MonoR_refl|]. left.
      split; [exact Kx|]. split; [exact F2|]. split; [exact F1|]. split; [exact F3|].
      assert (En : n = ext_node (nidx n)) by (destruct n as [k i0]; cbn in Kx; subst k; reflexivity).
      apply (mi_W _ _ _ _ _ _ _ HI0). rewrite <- En.
      destruct Hrc as [(_ & (cal & i & ci & v & t & A & B & _) & _)|[_ Hn]]; [|exact Hn]. exfalso.
      destruct (mi_kind _ _ _ _ _ _ _ HI n i A) as [(_ & Kf & _)|(K2 & _)]; [rewrite Kf in B; destruct B|].
      rewrite Kx in K2. discriminate.
    - assert (Hb : exists e, alookup p n = Some e /\
                meval f (n :: stk) (CQuery n true (x_pedantic c) (fx_prev s n)) e fr0 s0 = Ok (out, fr1, marks, s1)).
      { unfold body in Ee. destruct (nkind n); try discriminate;
          (destruct (alookup p n) as [e|]; [|discriminate]); exists e; auto. }
      destruct Hb as [e (He & Hev0)]. clear Ee.
      pose proof (Hkeys n e He) as Hk.
      assert (Hreads : forall d, In d (expr_reads e) -> StkR p (n :: stk) d /\ (rk d < rk n)%nat).
      { intros d Hd. pose proof (Hrk _ _ _ He Hd). split; [eapply StkR_push; eauto|assumption]. }
      destruct (IHe inp X (n :: stk) n (x_pedantic c) (fx_prev s n) e fr0 s0 out fr1 marks s1 HI0 Hreads Hfr Hpd Hpx Hev0)
        as (HI1 & K01 & -> & Hfr1 & _ & z & l & -> & Hev & Hkl0).
      assert (Hkl : forall d, In d (map fst (fr_callees fr1)) <-> In d l).
      { intro d. rewrite Hkl0, F1. cbn [map In]. tauto. }
      pose proof (Me _ _ _ _ _ _ _ _ _ Hev0) as M01.
      exists z. split; [reflexivity|]. split; [reflexivity|]. split; [exact HI1|]. split; [exact K01|].
      split; [exact Hfr1|]. split; [exact M01|]. right. split; [exact Hk|]. exists e, l. auto. }
  destruct Hexec as (z & -> & -> & HI1 & K01 & Hfr1 & M01 & Hnk). clear Ee.
  cbn [nmem existsb] in H.
  assert (Ev : fx_value n (EVal z) fr1 = z) by (unfold fx_value; rewrite (mo_scc _ _ _ _ Hfr1); reflexivity).
  rewrite Ev in H. clear Ev.
  assert (Hn1 : get_info s1 n = get_info s n) by (apply (mr_stk _ _ _ M01 n); left; reflexivity).
  assert (Hts1 : s_ts s1 = s_ts s) by (apply (mr_ts _ _ _ M01)).
  assert (Hnv1 : ~ sverified s1 n).
  { intros [j [J1 J2]]. apply Hnv. exists j. rewrite <- Hn1, <- Hts1. auto. }
  assert (HS1 : rc = true -> MStaleV s1 n).
  { intros ->. destruct Hrc as [(_ & HS & _)|[Hc _]]; [|discriminate].
    eapply (MStaleV_mono p rk sB _ _ inp (n :: stk) s0 s1 n HI0 M01 K01 Hn1).
    apply (MStaleV_same s s0 (fun m => eq_refl) eq_refl). exact HS. }
  (* the compute-phase propagation *)
  match type of H with context [if ?b then ?P1 else ?P2] =>
    destruct (if b then P1 else P2) as [s2| | |] eqn:Epr; try discriminate end.
  set (chg := mx_changed s1 n rc z) in *.
  assert (P : exists Ex Y, MInvE p rk sB Ex X inp s2 /\ (forall x, Ex x -> x = n) /\
              s_nodes s2 = s_nodes s1 /\ s_ts s2 = s_ts s1 /\ s_log s2 = s_log s1 /\ s_bwd s2 = s_bwd s1 /\
              (~ Unch s2 n z (fr_tfc fr1) -> Dirt (X ++ Y) s2 n) /\
              (forall y, In y Y -> In y (proj_callers s2 n) /\ nkind y = KProjection /\ y <> n /\
                 exists i ov t, get_info s2 y = Some i /\ alookup (i_obs i) n = Some (ov, t) /\ ov <> z) /\
              (c_follow c = false -> Y = []) /\ (Y = [] \/ chg = true)).
  { destruct (get_info s1 n) as [i1|] eqn:Ei1.
    2:{ (* first execution: nothing reads n *)
      assert (Ec : chg = false) by (unfold chg, mx_changed; rewrite Ei1; reflexivity).
      assert (Et : mx_tfc_changed s1 n rc z fr1 = false) by (unfold mx_tfc_changed; rewrite Ei1; reflexivity).
      rewrite Ec, Et in Epr. inversion Epr. subst s2. exists noE, [].
      split; [exact HI1|]. split; [intros x []|]. repeat (split; [reflexivity|]). split.
      - intros _. split.
        + intros c0 Hc0. exfalso. eapply (mi_target _ _ _ _ _ _ _ HI1); eauto.
        + intros b x a _ Hx. exfalso. eapply (mi_target _ _ _ _ _ _ _ HI1); eauto.
      - split; [intros y []|]. auto. }
    assert (Hrct : rc = true).
    { destruct Hrc as [(-> & _)|[_ Hn]]; [reflexivity|]. rewrite Hn1 in Ei1. congruence. }
    pose proof (HS1 Hrct) as HSV. pose proof (MStaleV_not_Solid _ _ HSV) as HnS.
    pose proof (NVabove_of_notSolid _ _ _ _ _ HI1 HnS Hnv1) as HNV.
    destruct (is_fw_or_proj (nkind n)) eqn:Kfp.
    2:{ (* a normal query: everything above a stale node is dirty already *)
      assert (Ec : chg = false) by (unfold chg, mx_changed; rewrite Ei1, Kfp, andb_false_r; reflexivity).
      assert (Et : mx_tfc_changed s1 n rc z fr1 = false).
      { unfold mx_tfc_changed. rewrite Ei1. destruct (nkind n); try discriminate; cbn [kind_eqb]; rewrite andb_false_r; reflexivity. }
      rewrite Ec, Et in Epr. inversion Epr. subst s2. exists noE, [].
      split; [exact HI1|]. split; [intros x []|]. repeat (split; [reflexivity|]). split.
      - intros _. eapply Dirt_of_Stale; [exact HI1|apply MStaleV_Stale; exact HSV| |].
        + unfold thru. intro K. rewrite K in Kfp. discriminate.
        + intro Hin. destruct (mi_X _ _ _ _ _ _ _ HI1 n Hin) as [K _]. rewrite K in Kfp. discriminate.
      - split; [intros y []|]. auto. }
    destruct chg eqn:Ec.
    - destruct (c_follow c) eqn:Efo.
      + (* the backward projections follow: dirt stops at the projections *)
        destruct (MInv_propagate_p p rk sB Hproj pord Hpord X inp _ s1 n s2 HI1 Epr Hnv1 HNV Kfp) as (A & N1 & N2 & N3 & N4 & UD).
        assert (Hg2 : forall m, get_info s2 m = get_info s1 m) by (intro m; unfold get_info; rewrite N1; reflexivity).
        assert (Hvz : i_value i1 <> z).
        { unfold chg, mx_changed in Ec. rewrite Ei1 in Ec. apply andb_true_iff in Ec. destruct Ec as [_ Ec].
          apply negb_true_iff in Ec. apply Z.eqb_neq. exact Ec. }
        exists (eq n), (ywin s2 n z). split; [exact A|]. split; [intros x Hx; symmetry; exact Hx|].
        split; [exact N1|]. split; [exact N3|]. split; [exact N4|]. split; [exact N2|]. split.
        * intros _. eapply Dirt_of_UpDirtyP; eauto. rewrite Hg2. exact Ei1.
        * split; [intros y Hy; eapply ywin_spec; eauto|]. split; [discriminate|]. right. reflexivity.
      + destruct (MInv_propagate_t p rk sB pord Hpord X inp _ s1 n s2 HI1 Epr Hnv1 HNV Kfp) as (A & N1 & N2 & N3 & N4 & UD).
        exists noE, []. split; [exact A|]. split; [intros x []|].
        split; [exact N1|]. split; [exact N3|]. split; [exact N4|]. split; [exact N2|]. split.
        * intros _. apply Dirt_of_UpDirty. exact UD.
        * split; [intros y []|]. auto.
    - destruct (mx_tfc_changed s1 n rc z fr1) eqn:Et.
      + destruct (MInv_propagate_t p rk sB pord Hpord X inp _ s1 n s2 HI1 Epr Hnv1 HNV Kfp) as (A & N1 & N2 & N3 & N4 & UD).
        exists noE, []. split; [exact A|]. split; [intros x []|].
        split; [exact N1|]. split; [exact N3|]. split; [exact N4|]. split; [exact N2|]. split.
        * intros _. apply Dirt_of_UpDirty. exact UD.
        * split; [intros y []|]. auto.
      + inversion Epr. subst s2. exists noE, [].
        split; [exact HI1|]. split; [intros x []|]. repeat (split; [reflexivity|]). split.
        * intro HU. exfalso. apply HU. exists i1. split; [exact Ei1|].
          unfold chg, mx_changed in Ec. rewrite Ei1, Hrct, Kfp in Ec. cbn [andb] in Ec.
          apply negb_false_iff in Ec. apply Z.eqb_eq in Ec. split; [exact Ec|].
          intro Ht. unfold mx_tfc_changed in Et. rewrite Ei1, Hrct in Et.
          assert (Kp : kind_eqb (nkind n) KProjection = true).
          { destruct (nkind n) eqn:Kn; try discriminate; try reflexivity. exfalso. apply Ht. exact Kn. }
          rewrite Kp in Et. unfold mx_changed in Et. rewrite Ei1, Kfp in Et.
          assert (Ez : (i_value i1 =? z) = true) by (apply Z.eqb_eq; exact Ec). rewrite Ez in Et.
          cbn [andb negb] in Et. apply negb_false_iff in Et. apply nset_eqb_In. exact Et.
        * split; [intros y []|]. auto. }
  destruct P as (Ex & Y & HI2 & HEx & N1 & N2 & N3 & N4 & Hdirt & HY & HYf & HYc).
  assert (Hg2 : forall m, get_info s2 m = get_info s1 m) by (intro m; unfold get_info; rewrite N1; reflexivity).
  assert (M02 : MonoR (n :: stk) s0 s2) by (eapply MonoR_same_r; eauto).
  assert (K12 : MKeeps s1 s2) by (apply MKeeps_same_nodes; exact N1).
  assert (K02 : MKeeps s0 s2) by (eapply MKeeps_trans; [exact HI0|exact M01|exact K01|exact K12]).
  assert (Hfr2 : MFrOk rk s2 n fr1).
  { eapply MFrOk_mono; [|exact Hfr1]. apply MonoR_same_nodes with (stk := []); assumption. }
  assert (Hnv2 : ~ sverified s2 n).
  { intro K. apply Hnv1. apply (msn_verified s1 s2 Hg2 N2). exact K. }
  assert (Hrc2 : (rc = true /\ get_info s2 n <> None) \/ (rc = false /\ get_info s2 n = None)).
  { destruct Hrc as [(-> & HS & _)|[-> Hn]].
    - left. split; [reflexivity|]. rewrite Hg2, Hn1. destruct HS as (cal & i & _ & _ & _ & A & _). congruence.
    - right. split; [reflexivity|]. rewrite Hg2, Hn1. exact Hn. }
  assert (HnS2 : ~ MSolid s2 n \/ get_info s2 n = None).
  { destruct Hrc2 as [[Hr _]|[_ Hn]]; [left|right; exact Hn]. intro K.
    apply (MStaleV_not_Solid s1 n (HS1 Hr)). apply (msn_Solid s1 s2 Hg2 N2). exact K. }
  injection H as E1 E2. subst ms s'.
  assert (Hlogn : In n (s_log s2)).
  { rewrite N3. destruct (mr_log _ _ _ M01) as [new [L _]]. rewrite L. apply in_or_app. right. left. reflexivity. }
  destruct (MInv_set_computed p rk sB Hrk Hproj Ex X Y inp s2 n z fr1 chg rc HI2 HEx Hnk Hfr2 Hnv2 Hlogn Hrc2)
    as [HI3 K23].
  - intros Hst K. exfalso. destruct HnS2 as [K0|K0]; contradiction.
  - exact Hdirt.
  - intros y Hy. destruct (HY y Hy) as (_ & A & B & C). auto.
  - set (s' := set_computed s2 n z fr1 chg rc) in *.
    assert (Hvn : sverified s' n).
    { eexists. unfold s'. rewrite set_computed_get, node_eqb_refl. split; [reflexivity|].
      unfold sc_info. cbn [i_verified]. rewrite set_computed_ts. reflexivity. }
    split; [|split; [|reflexivity]].
    + exists Y. split; [exact HI3|]. split; [exact HYf|]. split; [|split; [|exact Hvn]].
      * destruct HYc as [HYc|HYc]; [left; exact HYc|right].
        unfold has_pending, s'. rewrite set_computed_get, node_eqb_refl, set_computed_ts.
        unfold sc_info. cbn [i_pending]. rewrite HYc. apply N.eqb_refl.
      * intros y Hy. destruct (HY y Hy) as (A & B & C & _). unfold proj_callers in *. apply filter_In in A.
        apply filter_In. split; [|apply A]. unfold s'. apply set_computed_callers. left. split; [apply A|].
        intros [K _]. contradiction.
    + apply (MKeeps_set_log s (n :: s_log s)).
      eapply MKeeps_trans; [exact HI0|exact (MonoR_weaken _ _ _ _ M02)|exact K02|apply K23; exact HnS2].
Qed.

(** ** one request *)
Lemma msound_query_step : forall f,
  msound_query p tord bord pord rk sB f -> msound_execute p tord bord pord rk sB f -> msound_repair p tord bord pord rk sB f -> msound_backward p tord bord pord rk sB f ->
  msound_query p tord bord pord rk sB (S f).
Proof.
  intros f IHq IHx IHr IHb. destruct (mmono_all p tord bord pord f) as (Mq & Mx & Me & Mr & Mb).
  red. intros inp X Y stk c fr n s o fr' ms s' HI Hstk Hroot Hnp Hxm HY H.
  rewrite query_for_S in H. cbv zeta in H.
  rewrite mq_reg_caller in H.
  destruct (mq_reg c fr n) as [fr1| | |] eqn:Er; try discriminate.
  apply mq_reg_ok in Er. subst fr1.
  rewrite caller_node_caller, !fast_path_caller in H.
  set (c' := fq_caller c n s) in *.
  destruct (nmem n stk) eqn:Es.
  { apply nmem_In in Es. exfalso. eapply (StkOk_notin rk stk n (StkR_ok p rk Hrk stk n Hstk)); eauto. }
  assert (Hroot' : is_cq c' = false -> stk = []) by (unfold c'; rewrite is_cq_caller; exact Hroot).
  assert (Hxm' : XMode c' X) by (apply XMode_caller; exact Hxm).
  assert (Hfo' : c_follow c' = c_follow c) by apply c_follow_caller.
  (* a window of the node itself is only there while its backward projections are pending *)
  assert (HYnil : forall s0 v fr2, fast_path s0 c (fq_reg c fr n) n = (FHit v, fr2) ->
            forall Y0 : list node, (Y0 = [] \/ (c_follow c = true /\ has_pending s0 n = true)) -> Y0 = []).
  { intros s0 v fr2 Hf Y0 [K|[K1 K2]]; [exact K|]. rewrite (fast_path_hit_no_pending _ _ _ _ _ _ K1 Hf) in K2. discriminate. }
  destruct (fast_path s c (fq_reg c fr n) n) as [[v|sp] fr2] eqn:Ef.
  { destruct (fast_path_hit _ _ _ _ _ _ Ef) as [i (Hi & Hv & _)].
    assert (EY : Y = []) by (apply (HYnil s v fr2 Ef); destruct HY as [K|(K1 & _ & K2 & _)]; auto).
    subst Y. rewrite app_nil_r in HI.
    inversion H. subst. split; [exact HI|]. split; [intros _; apply MKeeps_refl|]. split; [reflexivity|].
    exists i. split; [exact Hi|]. split; [exact Hv|]. intro Hpre. eapply mhit_post; eauto. }
  pose proof (fast_path_slow _ _ _ _ _ _ Ef) as Hsp.
  destruct (mq_tfc p tord bord pord f stk c' sp n s) as [s1| | |] eqn:Et; try discriminate.
  (* the TFC repair *)
  assert (T1 : MInv p rk sB (X ++ Y) inp s1 /\ (is_cq c = true -> MKeeps s s1) /\ MonoR stk s s1 /\
               (sp <> SBackward -> x_pedantic c' = true \/ sverified s1 n \/ (X = [] /\ TfcOK s1 n) \/
                                   (X = [] /\ get_info s1 n = None)) /\
               (sp = SBackward -> s1 = s)).
  { destruct (mq_tfc_cases _ _ _ _ _ _ _ Et) as [[-> Hno]|[i (Hc & -> & Hi & Ht)]].
    - split; [exact HI|]. split; [intros _; apply MKeeps_refl|]. split; [apply MonoR_refl|]. split; [|auto].
      intro Hsb. destruct (fq_caller_shape c n s) as [Ec|[b [prev [E1 E2]]]].
      2:{ left. unfold c'. rewrite E2. reflexivity. }
      assert (Hroot_case : (c = CUser \/ c = CRepairFirewall) -> X = [] /\ get_info s n = None).
      { intro Hc. assert (Hc' : c' = CUser \/ c' = CRepairFirewall) by (unfold c'; rewrite Ec; exact Hc).
        split; [destruct Hc as [-> | ->]; exact Hxm|].
        destruct sp; [exact Hsp| |contradiction]. exfalso. destruct Hsp as [i (Hi & _)]. apply Hno. exists i. auto. }
      destruct c as [|b rv pd prev| |].
      + right. right. right. apply Hroot_case. auto.
      + destruct (MNPq_caller p rk sB _ _ inp _ n s HI Hnp) as [N|[N|N]]; [|
|discriminate N].
        * left. fold c' in N. unfold c' in *. rewrite Ec in *. exact N.
        * unfold c' in Hxm'. rewrite Ec in Hxm'. cbn [XMode] in Hxm'. destruct Hxm' as [->|HX].
          -- left. unfold c'. rewrite Ec. reflexivity.
          -- right. destruct N as [N|N]; [left; exact N|right; left; auto].
      + right. right. right. apply Hroot_case. auto.
      + left. unfold c'. rewrite Ec. reflexivity.
    - assert (Hst : stk = []) by (apply Hroot'; destruct Hc as [-> | ->]; reflexivity).
      assert (HX : X = []) by (destruct Hc as [Hc|Hc]; rewrite Hc in Hxm'; exact Hxm').
      assert (EY : Y = []).
      { destruct HY as [K|(_ & K & _)]; [exact K|]. exfalso. destruct Hsp as [j (J1 & J2)]. destruct K as [j' [K1 K2]].
        assert (j' = j) by congruence. subst. contradiction. }
      subst X Y stk. cbn [app] in *.
      destruct (msound_tfc p tord bord pord rk sB f inp IHq _ _ _ HI Ht)
        as (A & C).
      assert (M : MonoR [] s s1) by (eapply mmono_tfc; eauto).
      split; [exact A|]. split.
      { intro K. exfalso. unfold c' in Hc. destruct (fq_caller_shape c n s) as [E|[b [prev [E1 E2]]]].
        - rewrite E in Hc. destruct Hc as [-> | ->]; discriminate.
        - rewrite E2 in Hc. destruct Hc; discriminate. }
      split; [exact M|]. split; [|discriminate]. intros _. right.
      destruct (mr_unch _ _ _ M n) as [E|V]; [right; left|left; exact V]. split; [reflexivity|].
      intros j Hj F HF. rewrite E, Hi in Hj. inversion Hj. subst j. apply C. apply Htord. exact HF. }
  destruct T1 as (HI1 & K1 & M1 & Hnp1 & Hsb1).
  destruct (mq_process p tord bord pord f stk c' sp n s1) as [[marks s2]| | |] eqn:Ep; try discriminate.
  assert (P2 : exists Y2, MInv p rk sB (X ++ Y2) inp s2 /\ (c_follow c = false -> Y2 = []) /\
                 (Y2 = [] \/ has_pending s2 n = true) /\ (forall y, In y Y2 -> In y (proj_callers s2 n)) /\
                 sverified s2 n /\ marks = [] /\ MonoR stk s1 s2 /\ (is_cq c = true -> MKeeps s1 s2)).
  { assert (Hgen : sp <> SBackward ->
        match get_info s1 n with
        | Some i => if (i_verified i =? s_ts s1)%N then Ok ([], s1) else mrepair f stk c' n s1
        | None => mexecute f stk c' n false empty_frame s1 end = Ok (marks, s2) ->
        exists Y2, MInv p rk sB (X ++ Y2) inp s2 /\ (c_follow c = false -> Y2 = []) /\
                 (Y2 = [] \/ has_pending s2 n = true) /\ (forall y, In y Y2 -> In y (proj_callers s2 n)) /\
                 sverified s2 n /\ marks = [] /\ MonoR stk s1 s2 /\ (is_cq c = true -> MKeeps s1 s2)).
    { intros Hne Ep0.
      assert (EY : Y = []).
      { destruct HY as [K|(_ & K & _)]; [exact K|]. exfalso.
        destruct sp; [| |contradiction].
        - destruct K as [j [Kj _]]. congruence.
        - destruct Hsp as [j (J1 & J2)]. destruct K as [j' [K3 K4]]. assert (j' = j) by congruence. subst. contradiction. }
      subst Y. rewrite app_nil_r in HI1.
      destruct (get_info s1 n) as [i|] eqn:Ei.
      - destruct (i_verified i =? s_ts s1)%N eqn:Ev.
        + inversion Ep0. subst. exists []. rewrite app_nil_r. split; [exact HI1|]. split; [auto|]. split; [auto|].
          split; [intros y []|]. split; [exists i; split; [exact Ei|apply N.eqb_eq; exact Ev]|].
          split; [reflexivity|]. split; [apply MonoR_refl|]. intros _. apply MKeeps_refl.
        + assert (Hnv : ~ sverified s1 n).
          { intros [j [J1 J2]]. assert (j = i) by congruence. subst j. apply N.eqb_neq in Ev. contradiction. }
          assert (Hrp : x_pedantic c' = true \/ (X = [] /\ TfcOK s1 n)).
          { destruct (Hnp1 Hne) as [K|[K|[K|[_ K]]]]; [left; exact K|contradiction|right; exact K|congruence]. }
          destruct (IHr inp X stk c' n s1 marks s2 HI1 Hstk Hroot' Hnv Hrp Ep0) as ((Y2 & A1 & A2 & A3 & A4 & A5) & B & ->).
          exists Y2. split; [exact A1|]. split; [rewrite <- Hfo'; exact A2|]. split; [exact A3|]. split; [exact A4|].
          split; [exact A5|]. split; [reflexivity|]. split; [|intros _; exact B].
          eapply Mr; eauto. eapply (StkOk_notin rk stk n (StkR_ok p rk Hrk stk n Hstk)); eauto.
      - assert (Hpx : x_pedantic c' = true \/ X = []).
        { destruct (Hnp1 Hne) as [K|[K|[[K _]|[K _]]]]; auto. destruct K as [j [K _]]. congruence. }
        assert (Hnv : ~ sverified s1 n) by (intros [j [J1 _]]; congruence).
        destruct (IHx inp X stk c' n false empty_frame s1 marks s2 HI1 Hstk Hroot') as ((Y2 & A1 & A2 & A3 & A4 & A5) & B & ->); auto.
        { repeat split. }
        exists Y2. split; [exact A1|]. split; [rewrite <- Hfo'; exact A2|]. split; [exact A3|]. split; [exact A4|].
        split; [exact A5|]. split; [reflexivity|]. split; [|intros _; exact B].
        eapply Mx; eauto. eapply (StkOk_notin rk stk n (StkR_ok p rk Hrk stk n Hstk)); eauto. }
    destruct sp; [apply Hgen; [discriminate|exact Ep]|apply Hgen; [discriminate|exact Ep]|].
    (* the backward projections of a node that changed in this epoch *)
    rewrite (Hsb1 eq_refl) in *. clear Hsb1.
    destruct (fast_path_backward_pending _ _ _ _ _ Ef) as [Hpen Hfo].
    assert (Hst : stk = []) by (apply Hroot; destruct c; try discriminate; reflexivity).
    subst stk. unfold mq_process in Ep. unfold has_pending in Hpen.
    destruct (get_info s n) as [i|] eqn:Ei; [|discriminate]. rewrite Hpen in Ep.
    destruct (mbackward f [] n s) as [sb| | |] eqn:Eb; try discriminate. inversion Ep. subst marks sb. clear Ep.
    assert (HYs : forall y, In y Y -> In y (proj_callers s n)).
    { intros y Hy. destruct HY as [->|(_ & _ & _ & K)]; [destruct Hy|apply K; exact Hy]. }
    destruct (IHb inp X Y n s s2 HI Hsp HYs Eb) as (A & B & C).
    exists []. rewrite app_nil_r. split; [exact A|]. split; [auto|]. split; [auto|]. split; [intros y []|].
    split; [exact B|]. split; [reflexivity|]. split.
    - eapply Mb; eauto.
    - intro K. destruct c; discriminate. }
  destruct P2 as (Y2 & HI2 & HY2f & HY2p & HY2c & V2 & -> & M2 & K2).
  assert (M12 : MonoR stk s s2) by (eapply MonoR_trans; eauto).
  assert (K12 : is_cq c = true -> MKeeps s s2).
  { intro K. eapply MKeeps_trans; [exact HI|exact M1|exact (K1 K)|exact (K2 K)]. }
  assert (Efp : fast_path s2 c' (fq_reg c fr n) n = fast_path s2 c (fq_reg c fr n) n) by apply fast_path_caller.
  rewrite Efp in H. clear Efp.
  destruct (fast_path s2 c (fq_reg c fr n) n) as [[v|sp'] fr2'] eqn:Ef2.
  - destruct (fast_path_hit _ _ _ _ _ _ Ef2) as [i (Hi & Hv & _)].
    assert (EY : Y2 = []).
    { apply (HYnil s2 v fr2' Ef2). destruct HY2p as [K|K]; [left; exact K|].
      destruct (c_follow c) eqn:Efo; [right; auto|left; auto]. }
    subst Y2. rewrite app_nil_r in HI2.
    cbv zeta in H. rewrite frame_mark_if_nil in H.
    inversion H. subst. split; [exact HI2|]. split; [exact K12|]. split; [reflexivity|].
    exists i. split; [exact Hi|]. split; [exact Hv|]. intro Hpre.
    assert (Hpre2 : MFrPre rk c fr n s').
    { destruct c as [|b rv pd prev| |]; cbn [MFrPre] in *; auto. destruct rv; [|exact Hpre].
      destruct Hpre as [Hr [x [Hx Hfr]]]. split; [exact Hr|]. exists x. split; [eapply MFrOk_mono; [exact M12|exact Hx]|exact Hfr]. }
    eapply mhit_post; eauto.
  - destruct (mquery f stk c' (fq_reg c fr n) n s2) as [[[[o3 fr3] m3] s3]| | |] eqn:Eq; try discriminate.
    rewrite frame_mark_if_nil in H. injection H as E1 E2 E3 E4. subst o fr' ms s'.
    assert (Hnp2 : MNPq c' n s2) by (eapply MNPq_retry; eauto).
    assert (HY2 : QPreS c' n Y2 s2).
    { unfold QPreS. rewrite Hfo'. destruct HY2p as [K|K]; [left; exact K|].
      destruct (c_follow c) eqn:Efo; [right; auto|left; auto]. }
    destruct (IHq inp X Y2 stk c' (fq_reg c fr n) n s2 o3 fr3 m3 s3 HI2 Hstk Hroot' Hnp2 Hxm' HY2 Eq)
      as (HI3 & K3 & -> & i & Hi & Hv & HP).
    assert (M3 : MonoR stk s2 s3) by (eapply Mq; eauto).
    split; [exact HI3|]. split.
    { intro K. eapply MKeeps_trans; [exact HI|exact M12|exact (K12 K)|]. apply K3. unfold c'. rewrite is_cq_caller. exact K. }
    split; [reflexivity|].
    exists i. split; [exact Hi|]. split; [exact Hv|]. intro Hpre.
    assert (Hpre2 : MFrPre rk c' (fq_reg c fr n) n s2).
    { rewrite <- (fq_reg_caller c n s fr). eapply MFrPre_retry; eauto. }
    specialize (HP Hpre2).
    eapply MQPost_retry. rewrite <- (fq_reg_caller c n s fr) in HP. exact HP.
Qed.

Lemma msound_all : forall f,
  msound_query p tord bord pord rk sB f /\ msound_execute p tord bord pord rk sB f /\ msound_eval p tord bord pord rk sB f /\ msound_repair p tord bord pord rk sB f /\ msound_backward p tord bord pord rk sB f.
Proof.
  induction f as [|f (IHq & IHx & IHe & IHr & IHb)].
  - split; [|split; [|split; [|split]]]; red; intros;
      match goal with H : _ = Ok _ |- _ => cbn in H; discriminate H end.
  - split; [apply msound_query_step; assumption|].
    split; [apply msound_execute_step; assumption|].
    split; [apply msound_eval_step; assumption|].
    split; [apply msound_repair_step; assumption|apply msound_backward_step; assumption].
Qed.
End RunAll.
