(** C06 on the full engine model: programs WITH dependency cycles, on a fresh state.

    [cyc_spec] is an independent, relational "from-scratch evaluation with cycle defaults"
    (it mirrors [oracle_cyclic] of the Rust harness): a demand-driven evaluation with an
    explicit evaluation stack; reading a node that is on the stack closes a cycle and marks
    every node on the stack from that node up to the reader; the evaluation of a marked node is
    abandoned at its next read and the node takes [scc_default]; a reader that is not marked
    gets that default as an ordinary value; completed nodes are memoised.

    For programs of Normal, Firewall and Projection queries over inputs with ARBITRARY reads (self
    loops, several strongly connected components, conditional cycle edges - no rank; a projection
    may only read firewalls and projections, the engine panics otherwise), the first query on a
    fresh engine, with fuel at least [(number of declared nodes) * (depth of the deepest body + 2) + 1],
    answers the value [cyc_spec] gives, executes every node at most once and neither panics nor
    gets stuck - for every order oracle (no hypothesis on them). *)
From QV Require Import Common.Prelude Engine.Model Engine.Core Engine.CoreSpec Engine.CoreInvBase
  Engine.CoreInvCommit Engine.Fw Engine.FwBase Engine.FwMono Engine.FwOnce Engine.FwRunBase Engine.MdlSpec Engine.MdlBase Engine.MdlMono
  Engine.MdlCommit Engine.MdlSound Engine.MdlOnce.
Open Scope Z_scope.

(** * the specification *)
Inductive cres := CVal (z : Z) | CCyc.
Record cst := mkCst { c_memo : list (node * Z); c_marked : list node }.
Definition cst0 : cst := mkCst [] [].
Definition top_marked (stk : list node) (st : cst) : bool :=
  match stk with b :: _ => nmem b (c_marked st) | [] => false end.
(** what the reader on top of the stack gets: it is unwound if it is itself on a cycle *)
Definition cfinish (stk : list node) (st : cst) (v : Z) : cres := if top_marked stk st then CCyc else CVal v.
Definition expr_bin (e : expr) : option (expr * expr * (Z -> Z -> Z)) :=
  match e with
  | EAdd a b => Some (a, b, Z.add)
  | EMul a b => Some (a, b, Z.mul)
  | ELt a b => Some (a, b, fun x y => if x <? y then 1 else 0)
  | _ => None
  end.

Section Spec.
Variable p : program.
Variable inp : inputs.

Inductive CRead : list node -> node -> cst -> cres -> cst -> Prop :=
| cr_input : forall stk n st v, nkind n = KInput -> input_get inp (nidx n) = Some v ->
    CRead stk n st (cfinish stk st v) st
| cr_memo : forall stk n st v, is_mexec_kind (nkind n) = true -> alookup (c_memo st) n = Some v ->
    CRead stk n st (cfinish stk st v) st
| cr_cycle : forall stk n st, is_mexec_kind (nkind n) = true -> alookup (c_memo st) n = None -> In n stk ->
    CRead stk n st CCyc (mkCst (c_memo st) (upto stk n ++ c_marked st))
| cr_compute : forall stk n st e r st1 v, is_mexec_kind (nkind n) = true -> alookup (c_memo st) n = None -> ~ In n stk ->
    alookup p n = Some e -> CEv (n :: stk) e st r st1 ->
    v = (if nmem n (c_marked st1) then scc_default (nkind n)
         else match r with CVal z => z | CCyc => scc_default (nkind n) end) ->
    CRead stk n st (cfinish stk (mkCst ((n, v) :: c_memo st1) (c_marked st1)) v)
          (mkCst ((n, v) :: c_memo st1) (c_marked st1))
with CEv : list node -> expr -> cst -> cres -> cst -> Prop :=
| ce_const : forall stk z st, CEv stk (EConst z) st (CVal z) st
| ce_read : forall stk n st r st', CRead stk n st r st' -> CEv stk (ERead n) st r st'
| ce_bin_cyc : forall stk e a b op st st1, expr_bin e = Some (a, b, op) ->
    CEv stk a st CCyc st1 -> CEv stk e st CCyc st1
| ce_bin : forall stk e a b op st x st1 r st2, expr_bin e = Some (a, b, op) ->
    CEv stk a st (CVal x) st1 -> CEv stk b st1 r st2 ->
    CEv stk e st (match r with CVal y => CVal (op x y) | CCyc => CCyc end) st2
| ce_mod : forall stk a m st r st1, CEv stk a st r st1 ->
    CEv stk (EMod a m) st (match r with CVal x => CVal (x mod m) | CCyc => CCyc end) st1
| ce_if_cyc : forall stk c a b st st1, CEv stk c st CCyc st1 -> CEv stk (EIf c a b) st CCyc st1
| ce_if : forall stk c a b st x st1 r st2, CEv stk c st (CVal x) st1 ->
    CEv stk (if x =? 0 then b else a) st1 r st2 -> CEv stk (EIf c a b) st r st2
| ce_group : forall stk ns st r st1, CGroup stk ns 0 st r st1 -> CEv stk (EGroup ns) st r st1
with CGroup : list node -> list node -> Z -> cst -> cres -> cst -> Prop :=
| cg_nil : forall stk acc st, CGroup stk [] acc st (CVal acc) st
| cg_cyc : forall stk n ns acc st st1, CRead stk n st CCyc st1 -> CGroup stk (n :: ns) acc st CCyc st1
| cg_cons : forall stk n ns acc st x st1 r st2, CRead stk n st (CVal x) st1 ->
    CGroup stk ns (acc + x) st1 r st2 -> CGroup stk (n :: ns) acc st r st2.

Definition cyc_spec (root : node) (v : Z) : Prop := exists st, CRead [] root cst0 (CVal v) st.
End Spec.

Scheme CRead_mind := Minimality for CRead Sort Prop
  with CEv_mind := Minimality for CEv Sort Prop
  with CGroup_mind := Minimality for CGroup Sort Prop.
Combined Scheme cyc_mutind from CRead_mind, CEv_mind, CGroup_mind.

(** the specification is deterministic *)
Theorem cyc_det : forall p inp,
  (forall stk n st r st', CRead p inp stk n st r st' -> forall r2 st2, CRead p inp stk n st r2 st2 -> r = r2 /\ st' = st2) /\
  (forall stk e st r st', CEv p inp stk e st r st' -> forall r2 st2, CEv p inp stk e st r2 st2 -> r = r2 /\ st' = st2) /\
  (forall stk ns acc st r st', CGroup p inp stk ns acc st r st' -> forall r2 st2, CGroup p inp stk ns acc st r2 st2 -> r = r2 /\ st' = st2).
Proof.
  intros p inp. apply cyc_mutind.
  - intros stk n st v Kn Hv r2 st2 H2. inversion H2; subst; try (rewrite Kn in *; discriminate). split; [congruence|reflexivity].
  - intros stk n st v Kn Hv r2 st2 H2.
    inversion H2; subst; try (match goal with H : nkind _ = KInput |- _ => rewrite H in *; discriminate end); try congruence.
    split; [congruence|reflexivity].
  - intros stk n st Kn Hm Hin r2 st2 H2.
    inversion H2; subst; try (match goal with H : nkind _ = KInput |- _ => rewrite H in *; discriminate end); try congruence; try contradiction. auto.
  - intros stk n st e r st1 v Kn Hm Hin He Hev IH Hv r2 st2 H2.
    inversion H2; subst; try (match goal with H : nkind _ = KInput |- _ => rewrite H in *; discriminate end); try congruence; try contradiction.
    assert (e0 = e) by congruence. subst e0. clear Hev.
    match goal with H : CEv _ _ _ _ _ ?ra ?sa |- _ => destruct (IH ra sa H) as [<- <-] end. auto.
  - intros stk z st r2 st2 H2. inversion H2; subst; try discriminate. auto.
  - intros stk n st r st' Hr IH r2 st2 H2. inversion H2; subst; try discriminate. apply IH. assumption.
  - intros stk e a b op st st1 Hb Ha IH r2 st2 H2. clear Ha. inversion H2; subst; cbn in Hb; try discriminate.
    + match goal with H : expr_bin e = Some _ |- _ => rewrite Hb in H; inversion H; subst end.
      match goal with H : CEv _ _ _ _ st CCyc _ |- _ => destruct (IH _ _ H) as [_ <-] end. auto.
    + match goal with H : expr_bin e = Some _ |- _ => rewrite Hb in H; inversion H; subst end.
      match goal with H : CEv _ _ _ _ st (CVal _) _ |- _ => destruct (IH _ _ H) as [K _]; discriminate K end.
  - intros stk e a b op st x st1 r st2' Hb Ha IHa Hc IHc r2 st2 H2. clear Ha Hc. inversion H2; subst; cbn in Hb; try discriminate.
    + match goal with H : expr_bin e = Some _ |- _ => rewrite Hb in H; inversion H; subst end.
      match goal with H : CEv _ _ _ _ st CCyc _ |- _ => destruct (IHa _ _ H) as [K _]; discriminate K end.
    + match goal with H : expr_bin e = Some _ |- _ => rewrite Hb in H; inversion H; subst end.
      match goal with H : CEv _ _ _ _ st (CVal _) _ |- _ => destruct (IHa _ _ H) as [K <-]; inversion K; subst end.
      match goal with H : CEv _ _ _ _ st1 _ _ |- _ => destruct (IHc _ _ H) as [<- <-] end. auto.
  - intros stk a m st r st1 Ha IH r2 st2 H2. clear Ha. inversion H2; subst; try discriminate.
    match goal with H : CEv _ _ _ a st _ _ |- _ => destruct (IH _ _ H) as [<- <-] end. auto.
  - intros stk c a b st st1 Hc IH r2 st2 H2. clear Hc. inversion H2; subst; try discriminate.
    + match goal with H : CEv _ _ _ c st CCyc _ |- _ => destruct (IH _ _ H) as [_ <-] end. auto.
    + match goal with H : CEv _ _ _ c st (CVal _) _ |- _ => destruct (IH _ _ H) as [K _]; discriminate K end.
  - intros stk c a b st x st1 r st2' Hc IHc Hb IHb r2 st2 H2. clear Hc Hb. inversion H2; subst; try discriminate.
    + match goal with H : CEv _ _ _ c st CCyc _ |- _ => destruct (IHc _ _ H) as [K _]; discriminate K end.
    + match goal with H : CEv _ _ _ c st (CVal _) _ |- _ => destruct (IHc _ _ H) as [K <-]; inversion K; subst end.
      apply IHb. assumption.
  - intros stk ns st r st1 Hg IH r2 st2 H2. inversion H2; subst; try discriminate. apply IH. assumption.
  - intros stk acc st r2 st2 H2. inversion H2; subst. auto.
  - intros stk n ns acc st st1 Hr IH r2 st2 H2. clear Hr. inversion H2; subst.
    + match goal with H : CRead _ _ _ n st CCyc _ |- _ => destruct (IH _ _ H) as [_ <-] end. auto.
    + match goal with H : CRead _ _ _ n st (CVal _) _ |- _ => destruct (IH _ _ H) as [K _]; discriminate K end.
  - intros stk n ns acc st x st1 r st2' Hr IHr Hg IHg r2 st2 H2. clear Hr Hg. inversion H2; subst.
    + match goal with H : CRead _ _ _ n st CCyc _ |- _ => destruct (IHr _ _ H) as [K _]; discriminate K end.
    + match goal with H : CRead _ _ _ n st (CVal _) _ |- _ => destruct (IHr _ _ H) as [K <-]; inversion K; subst end.
      apply IHg. assumption.
Qed.
Corollary cyc_spec_det : forall p inp root v1 v2, cyc_spec p inp root v1 -> cyc_spec p inp root v2 -> v1 = v2.
Proof.
  intros p inp root v1 v2 [s1 H1] [s2 H2]. destruct (proj1 (cyc_det p inp) _ _ _ _ _ H1 _ _ H2) as [K _]. inversion K. reflexivity.
Qed.

(** programs of Normal / Firewall / Projection queries over inputs; every read targets an input or
    a declared query *)
Record wf_cyc (p : program) : Prop := {
  wfc_keys : forall n e, In (n, e) p -> is_mexec_kind (nkind n) = true;
  wfc_targets : forall n e d, In (n, e) p -> In d (expr_reads e) ->
                  nkind d = KInput \/ (is_mexec_kind (nkind d) = true /\ alookup p d <> None);
  (* a projection reads firewalls and projections only (the engine panics otherwise) *)
  wfc_proj : forall n e d, In (n, e) p -> nkind n = KProjection -> In d (expr_reads e) ->
               is_fw_or_proj (nkind d) = true;
}.
Fixpoint edepth (e : expr) : nat :=
  match e with
  | EConst _ | ERead _ | EGroup _ => 1
  | EAdd a b | EMul a b | ELt a b => S (Nat.max (edepth a) (edepth b))
  | EMod a _ => S (edepth a)
  | EIf c a b => S (Nat.max (edepth c) (Nat.max (edepth a) (edepth b)))
  end.
Definition max_depth (p : program) : nat := fold_right (fun '(_, e) acc => Nat.max (edepth e) acc) O p.
(** enough fuel for one request on a fresh engine *)
Definition cyc_fuel (p : program) : nat := (length p * (max_depth p + 2) + 1)%nat.

(** * auxiliary facts *)
Lemma filter_len_le : forall {A} (f g : A -> bool) l,
  (forall x, In x l -> f x = true -> g x = true) -> (length (filter f l) <= length (filter g l))%nat.
Proof.
  intros A f g. induction l as [|a l IH]; intro H; cbn [filter]; [lia|].
  assert (IH' : (length (filter f l) <= length (filter g l))%nat) by (apply IH; intros x Hx; apply H; right; exact Hx).
  destruct (f a) eqn:Fa.
  - rewrite (H a (or_introl eq_refl) Fa). cbn [length]. lia.
  - destruct (g a); cbn [length]; lia.
Qed.
Lemma filter_len_lt : forall {A} (f g : A -> bool) l x,
  (forall y, In y l -> f y = true -> g y = true) -> In x l -> g x = true -> f x = false ->
  (length (filter f l) < length (filter g l))%nat.
Proof.
  intros A f g. induction l as [|a l IH]; intros x H Hx Gx Fx; [destruct Hx|]. cbn [filter].
  assert (Hle : (length (filter f l) <= length (filter g l))%nat) by (apply filter_len_le; intros y Hy; apply H; right; exact Hy).
  destruct Hx as [->|Hx].
  - rewrite Gx, Fx. cbn [length]. lia.
  - assert (Hlt : (length (filter f l) < length (filter g l))%nat) by (eapply IH; eauto; intros y Hy; apply H; right; exact Hy).
    destruct (f a) eqn:Fa.
    + rewrite (H a (or_introl eq_refl) Fa). cbn [length]. lia.
    + destruct (g a); cbn [length]; lia.
Qed.

Lemma upto_In : forall stk n x, In x (upto stk n) -> In x stk.
Proof.
  induction stk as [|a r IH]; intros n x H; cbn [upto] in H; [destruct H|].
  destruct (node_eqb a n); [destruct H as [<-|[]]; left; reflexivity|].
  destruct H as [<-|H]; [left; reflexivity|right; eapply IH; eauto].
Qed.
Lemma upto_firstn : forall stk n, In n stk -> exists k, upto stk n = firstn k stk /\ (1 <= k)%nat.
Proof.
  induction stk as [|a r IH]; intros n H; [destruct H|]. cbn [upto].
  destruct (node_eqb_spec a n) as [->|Hne].
  - exists 1%nat. split; [reflexivity|lia].
  - destruct H as [H|H]; [contradiction|]. destruct (IH n H) as [k [Hk Hk1]]. exists (S k). cbn [firstn]. rewrite Hk. split; [reflexivity|lia].
Qed.
Lemma upto_top : forall b rest n, In b (upto (b :: rest) n).
Proof. intros. cbn [upto]. destruct (node_eqb b n); left; reflexivity. Qed.

Lemma edepth_le_max : forall p n e, In (n, e) p -> (edepth e <= max_depth p)%nat.
Proof.
  induction p as [|[m e0] r IH]; intros n e H; [destruct H|]. cbn [max_depth fold_right].
  destruct H as [H|H]; [inversion H; subst; lia|]. specialize (IH n e H). unfold max_depth in IH. lia.
Qed.

Lemma exec_kind_match : forall {A} k (x y z : A), is_mexec_kind k = true ->
  match k with KExternal => x | KInput => y | _ => z end = z.
Proof. intros A k x y z H. destruct k; try reflexivity; discriminate. Qed.

(** the nodes still to be computed: declared, not memoised, not on the stack *)
Definition unfin (st : cst) (stk : list node) (n : node) : bool :=
  match alookup (c_memo st) n with Some _ => false | None => negb (nmem n stk) end.
Definition todo (p : program) (st : cst) (stk : list node) : nat := length (filter (unfin st stk) (map fst p)).
Lemma todo_le_length : forall p st stk, (todo p st stk <= length p)%nat.
Proof.
  intros. unfold todo. rewrite <- (map_length fst p). generalize (map fst p). intro l.
  induction l as [|a l IH]; cbn [filter length]; [lia|]. destruct (unfin st stk a); cbn [length]; lia.
Qed.
Lemma todo_mono : forall p st st' stk,
  (forall x v, alookup (c_memo st) x = Some v -> alookup (c_memo st') x <> None) ->
  (todo p st' stk <= todo p st stk)%nat.
Proof.
  intros p st st' stk H. unfold todo. apply filter_len_le. intros x _ Hx. unfold unfin in *.
  destruct (alookup (c_memo st') x) eqn:E'; [discriminate|].
  destruct (alookup (c_memo st) x) eqn:E; [exfalso; eapply H; eauto|exact Hx].
Qed.
Lemma todo_push : forall p st stk n e, alookup p n = Some e -> alookup (c_memo st) n = None -> ~ In n stk ->
  (S (todo p st (n :: stk)) <= todo p st stk)%nat.
Proof.
  intros p st stk n e He Hm Hn. unfold todo. apply (filter_len_lt _ _ _ n).
  - intros y _ Hy. unfold unfin in *. destruct (alookup (c_memo st) y); [discriminate|].
    cbn [nmem existsb] in Hy. apply negb_true_iff in Hy. apply orb_false_iff in Hy. apply negb_true_iff. apply Hy.
  - apply alookup_In in He. apply in_map_iff. exists (n, e). auto.
  - unfold unfin. rewrite Hm. apply negb_true_iff. apply nmem_false. exact Hn.
  - unfold unfin. rewrite Hm. cbn [nmem existsb]. rewrite node_eqb_refl. reflexivity.
Qed.

(** * the engine on a fresh state follows the specification *)
Section Sim.
Variable p : program.
Variable inp : inputs.
Variables tord bord pord : state -> node -> list node -> list node.
Hypothesis Hkeys : forall n e, alookup p n = Some e -> is_mexec_kind (nkind n) = true.
Definition Target (d : node) : Prop :=
  (nkind d = KInput /\ exists v, input_get inp (nidx d) = Some v) \/ (is_mexec_kind (nkind d) = true /\ alookup p d <> None).
Hypothesis Htargets : forall n e d, alookup p n = Some e -> In d (expr_reads e) -> Target d.
Hypothesis Hproj : forall n e d, alookup p n = Some e -> nkind n = KProjection -> In d (expr_reads e) ->
  is_fw_or_proj (nkind d) = true.
(** the read [d] is allowed to the reader [b] *)
Definition ROk (b d : node) : Prop := nkind b = KProjection -> is_fw_or_proj (nkind d) = true.
Definition COk (c : caller) (d : node) : Prop := match c with CQuery b _ _ _ => ROk b d | _ => True end.
Variable D : nat.
Hypothesis HD : forall n e, alookup p n = Some e -> (edepth e <= D)%nat.
Notation C := (D + 2)%nat.

Notation mquery := (query_for_o p None tord bord pord).
Notation mexecute := (execute_o p None tord bord pord).
Notation meval := (eval_o p None tord bord pord).

(** the state of the engine and the state of the specification: everything stored was
    computed in this epoch; the stored queries are the memoised ones *)
Record Sim (st : cst) (s : state) : Prop := {
  sim_ver : forall n i, get_info s n = Some i -> i_verified i = s_ts s;
  sim_kind : forall n i, get_info s n = Some i -> nkind n = KInput \/ is_mexec_kind (nkind n) = true;
  sim_input : forall n v, nkind n = KInput -> input_get inp (nidx n) = Some v ->
                exists i, get_info s n = Some i /\ i_value i = v;
  sim_memo1 : forall n v, alookup (c_memo st) n = Some v ->
                is_mexec_kind (nkind n) = true /\ exists i, get_info s n = Some i /\ i_value i = v;
  sim_memo2 : forall n i, is_mexec_kind (nkind n) = true -> get_info s n = Some i -> alookup (c_memo st) n = Some (i_value i);
}.
Definition StkInv (st : cst) (stk : list node) (s : state) : Prop :=
  forall x, In x stk -> is_mexec_kind (nkind x) = true /\ get_info s x = None /\ ~ In x (c_marked st).
Definition MarkedDone (st : cst) (stk : list node) : Prop :=
  forall x, In x (c_marked st) -> In x stk \/ alookup (c_memo st) x <> None.
Inductive QC : caller -> list node -> option frame -> Prop :=
| qc_user : QC CUser [] None
| qc_query : forall b pd prev rest x, fr_scc x = false -> QC (CQuery b true pd prev) (b :: rest) (Some x).

Definition is_cyc (r : cres) : bool := match r with CCyc => true | CVal _ => false end.
Definition QPost (stk : list node) (st st' : cst) (s' : state) (M : list node) : Prop :=
  Sim st' s' /\
  (forall x, In x stk -> get_info s' x = None) /\
  (forall x v, alookup (c_memo st) x = Some v -> alookup (c_memo st') x = Some v) /\
  MarkedDone st' stk /\
  (forall x, In x stk -> (In x M <-> In x (c_marked st'))) /\
  (exists k, forall x, In x stk -> (In x (c_marked st') <-> In x (firstn k stk))).

Lemma stk_memo_none : forall st stk s x, Sim st s -> StkInv st stk s -> In x stk -> alookup (c_memo st) x = None.
Proof.
  intros st stk s x HS HK Hx. destruct (alookup (c_memo st) x) as [v|] eqn:E; [|reflexivity].
  destruct (sim_memo1 _ _ HS x v E) as (_ & i & Hi & _). destruct (HK x Hx) as (_ & K & _). congruence.
Qed.

Lemma QPost_refl : forall stk st s, Sim st s -> StkInv st stk s -> MarkedDone st stk -> QPost stk st st s [].
Proof.
  intros stk st s HS HK HM. split; [exact HS|]. split; [intros x Hx; apply HK; exact Hx|].
  split; [auto|]. split; [exact HM|]. split.
  - intros x Hx. split; [intros []|]. intro K. exfalso. destruct (HK x Hx) as (_ & _ & N). contradiction.
  - exists 0%nat. intros x Hx. cbn [firstn]. split; [|intros []]. intro K. destruct (HK x Hx) as (_ & _ & N). contradiction.
Qed.

(** after a completed step whose reader was not unwound, nothing on the stack is marked *)
Lemma QPost_continue : forall stk st st' s' M, (forall x, In x stk -> is_mexec_kind (nkind x) = true) ->
  QPost stk st st' s' M -> top_marked stk st' = false ->
  StkInv st' stk s' /\ MarkedDone st' stk /\ (forall x, In x stk -> ~ In x M).
Proof.
  intros stk st st' s' M Hk (HS & Hu & Hg & HM & Hm & [k Hp]) Ht.
  assert (Hnone : forall x, In x stk -> ~ In x (c_marked st')).
  { destruct stk as [|b rest]; [intros x []|]. cbn [top_marked] in Ht. apply nmem_false in Ht.
    destruct k as [|k].
    - intros x Hx K. apply (Hp x Hx) in K. destruct K.
    - exfalso. apply Ht. apply (Hp b (or_introl eq_refl)). left. reflexivity. }
  split; [|split; [exact HM|]].
  - intros x Hx. split; [apply Hk; exact Hx|]. split; [apply Hu; exact Hx|apply Hnone; exact Hx].
  - intros x Hx K. apply (Hm x Hx) in K. exact (Hnone x Hx K).
Qed.

Lemma QPost_seq : forall stk st st1 st2 s2 M1 M2,
  (forall x, In x stk -> ~ In x M1) ->
  (forall x v, alookup (c_memo st) x = Some v -> alookup (c_memo st1) x = Some v) ->
  QPost stk st1 st2 s2 M2 -> QPost stk st st2 s2 (M1 ++ M2).
Proof.
  intros stk st st1 st2 s2 M1 M2 H1 Hg1 (HS & Hu & Hg & HM & Hm & Hp).
  split; [exact HS|]. split; [exact Hu|]. split; [auto|]. split; [exact HM|]. split; [|exact Hp].
  intros x Hx. rewrite in_app_iff. rewrite <- (Hm x Hx). split; [intros [K|K]; [exfalso; exact (H1 x Hx K)|exact K]|auto].
Qed.

Lemma Sim_same : forall st s s', (forall m, get_info s' m = get_info s m) -> s_ts s' = s_ts s -> Sim st s -> Sim st s'.
Proof.
  intros st s s' Hg Ht [A B C E F]. split.
  - intros n i Hi. rewrite Hg in Hi. rewrite Ht. eapply A; eauto.
  - intros n i Hi. rewrite Hg in Hi. eapply B; eauto.
  - intros n v K1 K2. rewrite Hg. eapply C; eauto.
  - intros n v K. rewrite Hg. eapply E; eauto.
  - intros n i K Hi. rewrite Hg in Hi. eapply F; eauto.
Qed.

Definition RQ (r : cres) (o : qout) : Prop := match r with CVal v => o = QValue (Some v) | CCyc => o = QCyclic end.
Definition RE (r : cres) (o : eout) : Prop := match r with CVal v => o = EVal v | CCyc => o = EUnwind end.
Definition FrPost (c : caller) (fr' : option frame) (st' : cst) : Prop :=
  match c with
  | CQuery b _ _ _ => exists x', fr' = Some x' /\ fr_scc x' = nmem b (c_marked st')
  | _ => fr' = None
  end.

Definition SQ (f : nat) : Prop :=
  forall stk c fr n s st, Sim st s -> StkInv st stk s -> MarkedDone st stk -> QC c stk fr -> Target n -> COk c n ->
    (todo p st stk * C + 1 <= f)%nat ->
    exists o fr' M s' r st',
      mquery f stk c fr n s = Ok (o, fr', M, s') /\ CRead p inp stk n st r st' /\ QPost stk st st' s' M /\
      RQ r o /\ top_marked stk st' = is_cyc r /\ FrPost c fr' st'.
Definition cval (n : node) (st1 : cst) (r : cres) : Z :=
  if nmem n (c_marked st1) then scc_default (nkind n) else match r with CVal z => z | CCyc => scc_default (nkind n) end.
Definition SX (f : nat) : Prop :=
  forall stk c n e s st, Sim st s -> StkInv st stk s -> MarkedDone st stk ->
    alookup p n = Some e -> get_info s n = None -> ~ In n stk ->
    (todo p st (n :: stk) * C + D + 2 <= f)%nat ->
    exists M s' r st1,
      mexecute f stk c n false empty_frame s = Ok (M, s') /\ CEv p inp (n :: stk) e st r st1 /\
      QPost stk st (mkCst ((n, cval n st1 r) :: c_memo st1) (c_marked st1)) s' M /\
      exists i, get_info s' n = Some i /\ i_value i = cval n st1 r /\ i_verified i = s_ts s'.
Definition SE (f : nat) : Prop :=
  forall b rest pd prev e fr s st, Sim st s -> StkInv st (b :: rest) s -> MarkedDone st (b :: rest) ->
    fr_scc fr = false -> (forall d, In d (expr_reads e) -> Target d /\ ROk b d) ->
    (edepth e + todo p st (b :: rest) * C + 1 <= f)%nat ->
    exists out fr' M s' r st',
      meval f (b :: rest) (CQuery b true pd prev) e fr s = Ok (out, fr', M, s') /\ CEv p inp (b :: rest) e st r st' /\
      QPost (b :: rest) st st' s' M /\ RE r out /\ top_marked (b :: rest) st' = is_cyc r /\
      fr_scc fr' = nmem b (c_marked st').

Lemma SX_step : forall f, SE f -> SX (S f).
Proof.
  intros f IHe. red. intros stk c n e s st HS HK HM He Hn Hns Hf. rewrite execute_S. cbv zeta.
  assert (Kn : is_mexec_kind (nkind n) = true) by (eapply Hkeys; eauto).
  rewrite (exec_kind_match _ _ _ _ Kn). unfold body. rewrite He.
  set (s0 := set_log s (n :: s_log s)).
  assert (HS0 : Sim st s0) by (eapply Sim_same; [| |exact HS]; reflexivity).
  assert (Hmn : alookup (c_memo st) n = None).
  { destruct (alookup (c_memo st) n) as [v|] eqn:E; [|reflexivity]. destruct (sim_memo1 _ _ HS n v E) as (_ & i & Hi & _). congruence. }
  assert (HK0 : StkInv st (n :: stk) s0).
  { intros x [<-|Hx]; [|exact (HK x Hx)]. split; [exact Kn|]. split; [exact Hn|].
    intro K. destruct (HM _ K) as [K1|K1]; [contradiction|congruence]. }
  assert (HM0 : MarkedDone st (n :: stk)) by (intros x Hx; destruct (HM x Hx); [left; right; assumption|right; assumption]).
  destruct (IHe n stk (x_pedantic c) (fx_prev s n) e empty_frame s0 st HS0 HK0 HM0 eq_refl (fun d Hd => conj (Htargets n e d He Hd) (fun K => Hproj n e d He K Hd)))
    as (out & fr1 & M & s1 & r & st1 & Ee & Hev & HP & Hre & Htm & Hfr).
  { pose proof (HD n e He). lia. }
  rewrite Ee. cbv beta iota.
  destruct HP as (HS1 & Hu1 & Hg1 & HM1 & Hm1 & [k Hp1]).
  assert (Hn1 : get_info s1 n = None) by (apply Hu1; left; reflexivity).
  unfold mx_changed, mx_tfc_changed. rewrite Hn1.
  set (fr2 := if nmem n M then fr_mark_scc fr1 else fr1).
  assert (Hscc : fr_scc fr2 = nmem n (c_marked st1)).
  { unfold fr2. destruct (nmem n M) eqn:EM.
    - cbn [fr_mark_scc fr_scc]. symmetry. apply nmem_In. apply (Hm1 n (or_introl eq_refl)). apply nmem_In. exact EM.
    - exact Hfr. }
  assert (Hv : fx_value n out fr2 = cval n st1 r).
  { unfold fx_value, cval. rewrite Hscc. destruct (nmem n (c_marked st1)); [reflexivity|].
    destruct r; cbn in Hre; subst out; reflexivity. }
  rewrite Hv. set (v := cval n st1 r).
  exists M, (set_computed s1 n v fr2 false false), r, st1. split; [reflexivity|]. split; [exact Hev|].
  assert (Hmn1 : alookup (c_memo st1) n = None).
  { destruct (alookup (c_memo st1) n) as [w|] eqn:E; [|reflexivity]. destruct (sim_memo1 _ _ HS1 n w E) as (_ & i & Hi & _). congruence. }
  assert (Hget : forall m, get_info (set_computed s1 n v fr2 false false) m =
                   if node_eqb n m then Some (sc_info s1 n v fr2 false) else get_info s1 m) by (intro m; apply set_computed_get).
  split; [|exists (sc_info s1 n v fr2 false); split; [rewrite Hget, node_eqb_refl; reflexivity|split; [reflexivity|rewrite set_computed_ts; reflexivity]]].
  split; [|split; [|split; [|split; [|split]]]].
  - (* Sim *)
    split.
    + intros m i Hi. rewrite Hget in Hi. rewrite set_computed_ts. destruct (node_eqb_spec n m) as [->|Hne].
      * inversion Hi. reflexivity.
      * eapply (sim_ver _ _ HS1); eauto.
    + intros m i Hi. rewrite Hget in Hi. destruct (node_eqb_spec n m) as [<-|Hne]; [right; exact Kn|eapply (sim_kind _ _ HS1); eauto].
    + intros m w K1 K2. rewrite Hget. destruct (node_eqb_spec n m) as [<-|Hne]; [rewrite K1 in Kn; discriminate|eapply (sim_input _ _ HS1); eauto].
    + intros m w K. cbn [c_memo alookup] in K. rewrite Hget. destruct (node_eqb_spec n m) as [<-|Hne].
      * inversion K. subst w. split; [exact Kn|]. eexists. split; [reflexivity|reflexivity].
      * eapply (sim_memo1 _ _ HS1); eauto.
    + intros m i K Hi. rewrite Hget in Hi. cbn [c_memo alookup]. destruct (node_eqb_spec n m) as [<-|Hne].
      * inversion Hi. reflexivity.
      * eapply (sim_memo2 _ _ HS1); eauto.
  - intros x Hx. rewrite Hget. destruct (node_eqb_spec n x) as [<-|Hne]; [contradiction|]. apply Hu1. right. exact Hx.
  - intros x w K. cbn [c_memo alookup]. destruct (node_eqb_spec n x) as [<-|Hne]; [congruence|]. apply Hg1. exact K.
  - intros x Hx. cbn [c_marked] in Hx. cbn [c_memo alookup]. destruct (node_eqb_spec n x) as [<-|Hne]; [right; discriminate|].
    destruct (HM1 x Hx) as [[K|K]|K]; [contradiction|left; exact K|right; exact K].
  - intros x Hx. cbn [c_marked]. apply Hm1. right. exact Hx.
  - cbn [c_marked]. exists (pred k). intros x Hx. rewrite (Hp1 x (or_intror Hx)). destruct k as [|k]; cbn [firstn pred]; [reflexivity|].
    cbn [In]. split; [intros [K|K]; [subst x; contradiction|exact K]|auto].
Qed.

Lemma QC_caller : forall c stk fr n s, QC c stk fr -> QC (fq_caller c n s) stk fr.
Proof.
  intros c stk fr n s H. destruct (fq_caller_shape c n s) as [->|[b [prev [-> ->]]]]; [exact H|].
  inversion H; subst. constructor. assumption.
Qed.
Lemma QC_reg : forall c stk fr n st s, QC c stk fr -> StkInv st stk s -> COk c n ->
  mq_reg c fr n = Ok (fq_reg c fr n) /\ QC c stk (fq_reg c fr n).
Proof.
  intros c stk fr n st s H HK Hok. inversion H; subst; cbn [mq_reg fq_reg]; [split; [reflexivity|constructor]|].
  destruct (HK b (or_introl eq_refl)) as (Kb & _). cbn [COk] in Hok. unfold ROk in Hok.
  assert (E1 : kind_eqb (nkind b) KExternal = false) by (destruct (nkind b); try reflexivity; discriminate).
  assert (E2 : kind_eqb (nkind b) KProjection && negb (is_fw_or_proj (nkind n)) = false).
  { destruct (kind_eqb (nkind b) KProjection) eqn:E; [|reflexivity]. apply kind_eqb_eq in E. rewrite (Hok E). reflexivity. }
  rewrite E1, E2. split; [reflexivity|].
  constructor. rewrite (proj1 (fr_register_same x n)). assumption.
Qed.
Lemma COk_caller : forall c n s, COk c n -> COk (fq_caller c n s) n.
Proof. intros c n s H. destruct (fq_caller_shape c n s) as [->|[b [prev [-> ->]]]]; exact H. Qed.
(** a stored node: the fast path hits, the reader's frame keeps its flag *)
Lemma QC_hit : forall c stk fr n s i, QC c stk fr -> get_info s n = Some i -> i_verified i = s_ts s ->
  exists fr2, fast_path s c fr n = (FHit (Some (i_value i)), fr2) /\ QC c stk fr2.
Proof.
  intros c stk fr n s i H Hi Hv. unfold fast_path. rewrite Hi, Hv, N.eqb_refl. cbn [negb].
  inversion H; subst; cbn [andb caller_requires_value].
  - eexists. split; [reflexivity|constructor].
  - eexists. split; [reflexivity|]. constructor. cbn [fr_observe fr_scc]. assumption.
Qed.

Definition qbody (f : nat) (stk : list node) (c' : caller) (fr1 : option frame) (n : node) (s : state) : res qres :=
  if nmem n stk
  then match c' with
       | CQuery b _ _ _ => Ok (QCyclic, frame_mark_if fr1 (Some b) (upto stk n), upto stk n, s)
       | _ => Stuck end
  else match fast_path s c' fr1 n with
       | (FHit v0, fr2) => Ok (if frame_in_scc fr2 then QCyclic else QValue v0, fr2, [], s)
       | (FSlow sp, _) =>
           let* s1 := mq_tfc p tord bord pord f stk c' sp n s in
           let* (marks, s2) := mq_process p tord bord pord f stk c' sp n s1 in
           match fast_path s2 c' fr1 n with
           | (FHit v0, fr2) =>
               let fr3 := frame_mark_if fr2 (caller_node c') marks in
               Ok (if frame_in_scc fr3 then QCyclic else QValue v0, fr3, marks, s2)
           | (FSlow _, _) =>
               let* (o, fr2, m2, s3) := mquery f stk c' fr1 n s2 in
               Ok (o, frame_mark_if fr2 (caller_node c') marks, marks ++ m2, s3)
           end
       end.

Lemma SQ_body : forall f, SX f ->
  forall stk c' fr1 n s st, Sim st s -> StkInv st stk s -> MarkedDone st stk -> QC c' stk fr1 -> Target n ->
    (todo p st stk * C + 1 <= S f)%nat ->
    exists o fr' M s' r st',
      qbody f stk c' fr1 n s = Ok (o, fr', M, s') /\ CRead p inp stk n st r st' /\ QPost stk st st' s' M /\
      RQ r o /\ top_marked stk st' = is_cyc r /\ FrPost c' fr' st'.
Proof.
  intros f IHx stk c' fr1 n s st HS HK HM Hc1 Ht Hf. unfold qbody.
  (* a stored node: an input, or a memoised query *)
  assert (Hstored : forall i v, get_info s n = Some i -> i_value i = v -> ~ In n stk ->
            CRead p inp stk n st (cfinish stk st v) st ->
            exists o fr' M s' r st',
              qbody f stk c' fr1 n s = Ok (o, fr', M, s') /\ CRead p inp stk n st r st' /\ QPost stk st st' s' M /\
              RQ r o /\ top_marked stk st' = is_cyc r /\ FrPost c' fr' st').
  { intros i v Hi Hv Hns Hrd. unfold qbody. apply nmem_false in Hns. rewrite Hns.
    destruct (QC_hit c' stk fr1 n s i Hc1 Hi (sim_ver _ _ HS n i Hi)) as [fr2 [Ef Hc2]]. rewrite Ef.
    assert (Htop : top_marked stk st = false).
    { destruct stk as [|b rest]; [reflexivity|]. cbn [top_marked]. apply nmem_false. apply (HK b (or_introl eq_refl)). }
    assert (Hsc : frame_in_scc fr2 = false) by (inversion Hc2; subst; cbn; auto).
    rewrite Hsc. exists (QValue (Some (i_value i))), fr2, [], s, (CVal v), st.
    split; [reflexivity|]. split; [unfold cfinish in Hrd; rewrite Htop in Hrd; exact Hrd|].
    split; [apply QPost_refl; assumption|]. split; [cbn; congruence|]. split; [exact Htop|].
    inversion Hc2; subst; cbn [FrPost]; [reflexivity|].
    eexists. split; [reflexivity|]. symmetry. rewrite H. apply nmem_false. apply (HK b (or_introl eq_refl)). }
  destruct Ht as [[Kn [v Hv]]|[Kn Hdecl]].
  - (* an input *)
    destruct (sim_input _ _ HS n v Kn Hv) as (i & Hi & Hiv).
    fold (qbody f stk c' fr1 n s). apply (Hstored i v Hi Hiv).
    + intro K. destruct (HK n K) as (K1 & _). rewrite Kn in K1. discriminate.
    + apply cr_input; assumption.
  - destruct (get_info s n) as [i|] eqn:Hi.
    + (* memoised *)
      fold (qbody f stk c' fr1 n s). apply (Hstored i (i_value i) eq_refl eq_refl).
      * intro K. destruct (HK n K) as (_ & K1 & _). congruence.
      * apply cr_memo; [exact Kn|]. eapply (sim_memo2 _ _ HS); eauto.
    + assert (Hmn : alookup (c_memo st) n = None).
      { destruct (alookup (c_memo st) n) as [v|] eqn:E; [|reflexivity]. destruct (sim_memo1 _ _ HS n v E) as (_ & j & Hj & _). congruence. }
      destruct (nmem n stk) eqn:Es.
      * (* the node is being computed: a cycle *)
        apply nmem_In in Es. inversion Hc1; subst; [destruct Es|].
        exists QCyclic. eexists. eexists. exists s, CCyc, (mkCst (c_memo st) (upto (b :: rest) n ++ c_marked st)).
        split; [reflexivity|]. split; [apply cr_cycle; assumption|].
        assert (Hin : forall y, In y (b :: rest) -> (In y (upto (b :: rest) n ++ c_marked st) <-> In y (upto (b :: rest) n))).
        { intros y Hy. rewrite in_app_iff. split; [intros [K|K]; [exact K|exfalso; apply (HK y Hy); exact K]|auto]. }
        split; [|split; [reflexivity|split]].
        -- split; [split; try apply HS|]. split; [intros y Hy; apply HK; exact Hy|]. split; [auto|]. split; [|split].
           ++ intros y Hy. cbn [c_marked c_memo] in *. apply in_app_or in Hy. destruct Hy as [Hy|Hy]; [left; eapply upto_In; eauto|apply HM; exact Hy].
           ++ intros y Hy. cbn [c_marked]. symmetry. apply Hin. exact Hy.
           ++ destruct (upto_firstn (b :: rest) n Es) as [k [Hk _]]. exists k. intros y Hy. cbn [c_marked]. rewrite (Hin y Hy), Hk. reflexivity.
        -- cbn [top_marked c_marked]. apply nmem_In. apply in_or_app. left. apply upto_top.
        -- cbn [FrPost frame_mark_if].
           assert (Eb : nmem b (upto (b :: rest) n) = true) by (apply nmem_In; apply upto_top). rewrite Eb.
           eexists. split; [reflexivity|]. cbn [fr_mark_scc fr_scc c_marked]. symmetry. apply nmem_In. apply in_or_app. left. apply upto_top.
      * (* a declared query that has not been computed: execute it, then the fast path hits *)
        apply nmem_false in Es.
        assert (Efp : fast_path s c' fr1 n = (FSlow SCompute, fr1)) by (unfold fast_path; rewrite Hi; reflexivity).
        rewrite Efp.
        assert (Etfc : mq_tfc p tord bord pord f stk c' SCompute n s = Ok s) by (unfold mq_tfc; destruct c'; reflexivity).
        rewrite Etfc. cbv beta iota. unfold mq_process. rewrite Hi.
        destruct (alookup p n) as [e|] eqn:He; [|congruence].
        pose proof (todo_push p st stk n e He Hmn Es) as Hpush.
        destruct (IHx stk c' n e s st HS HK HM He Hi Es) as (M & s' & r & st1 & Ex & Hev & HP & i' & Hi' & Hiv' & Hver').
        { assert (Hm : (S (todo p st (n :: stk)) * C <= todo p st stk * C)%nat) by (apply Nat.mul_le_mono_r; exact Hpush). lia. }
        rewrite Ex. cbv beta iota.
        set (v := cval n st1 r) in *. set (st2 := mkCst ((n, v) :: c_memo st1) (c_marked st1)) in *.
        destruct (QC_hit c' stk fr1 n s' i' Hc1 Hi' Hver') as [fr2 [Ef Hc2]]. rewrite Ef. cbv zeta.
        set (fr3 := frame_mark_if fr2 (caller_node c') M).
        assert (Hfin : FrPost c' fr3 st2 /\ frame_in_scc fr3 = top_marked stk st2).
        { destruct HP as (_ & _ & _ & _ & Hm & _). unfold fr3. inversion Hc2; subst; cbn [caller_node frame_mark_if FrPost].
          - split; reflexivity.
          - cbn [top_marked]. destruct (nmem b M) eqn:EM.
            + assert (K : nmem b (c_marked st2) = true) by (apply nmem_In; apply (Hm b (or_introl eq_refl)); apply nmem_In; exact EM).
              rewrite K. split; [eexists; split; [reflexivity|reflexivity]|reflexivity].
            + assert (K : nmem b (c_marked st2) = false).
              { apply nmem_false. intro K. apply (Hm b (or_introl eq_refl)) in K. apply nmem_In in K. congruence. }
              rewrite K. split; [eexists; split; [reflexivity|assumption]|cbn; assumption]. }
        destruct Hfin as [Hfp3 Hsc3].
        exists (if frame_in_scc fr3 then QCyclic else QValue (Some (i_value i'))), fr3, M, s', (cfinish stk st2 v), st2.
        split; [reflexivity|]. split; [eapply cr_compute; eauto|]. split; [exact HP|].
        unfold cfinish. rewrite Hsc3. destruct (top_marked stk st2); (split; [cbn; congruence|split; [reflexivity|exact Hfp3]]).
Qed.

Lemma SQ_step : forall f, SX f -> SQ (S f).
Proof.
  intros f IHx. red. intros stk c fr n s st HS HK HM Hc Ht Hok Hf. rewrite query_for_S. cbv zeta.
  pose proof (QC_caller c stk fr n s Hc) as Hc'.
  destruct (QC_reg (fq_caller c n s) stk fr n st s Hc' HK (COk_caller c n s Hok)) as [Er Hc1]. rewrite Er. cbv beta iota.
  destruct (SQ_body f IHx stk (fq_caller c n s) (fq_reg (fq_caller c n s) fr n) n s st HS HK HM Hc1 Ht Hf)
    as (o & fr' & M & s' & r & st' & E & A1 & A2 & A3 & A4 & A5).
  exists o, fr', M, s', r, st'. split; [exact E|]. split; [exact A1|]. split; [exact A2|]. split; [exact A3|]. split; [exact A4|].
  destruct (fq_caller_shape c n s) as [K|[b [prev [K1 K2]]]]; [rewrite K in A5; exact A5|].
  rewrite K2 in A5. rewrite K1. exact A5.
Qed.

(** results of the evaluation of (a part of) an executor's body *)
Definition EOk (b : node) (rest : list node) (st : cst)
  (res : res (eout * frame * list node * state)) (Spec : cres -> cst -> Prop) : Prop :=
  exists out fr' M s' r st',
    res = Ok (out, fr', M, s') /\ Spec r st' /\ QPost (b :: rest) st st' s' M /\ RE r out /\
    top_marked (b :: rest) st' = is_cyc r /\ fr_scc fr' = nmem b (c_marked st').

Lemma todo_post : forall stk st st' s' M, QPost stk st st' s' M -> (todo p st' stk <= todo p st stk)%nat.
Proof.
  intros stk st st' s' M (_ & _ & Hg & _). apply todo_mono. intros x v Hx. rewrite (Hg x v Hx). discriminate.
Qed.

Lemma SE_step : forall f, SQ f -> SE f -> SE (S f).
Proof.
  intros f IHq IHe.
  (* a read *)
  assert (Hread : forall b rest pd prev d fr s st, Sim st s -> StkInv st (b :: rest) s -> MarkedDone st (b :: rest) ->
            fr_scc fr = false -> Target d /\ ROk b d -> (todo p st (b :: rest) * C + 1 <= f)%nat ->
            EOk b rest st (mread p tord bord pord f (b :: rest) (CQuery b true pd prev) d fr s)
                (fun r st' => CRead p inp (b :: rest) d st r st')).
  { intros b rest pd prev d fr s st HS HK HM Hfr [Ht Hok] Hf. unfold mread.
    destruct (IHq (b :: rest) (CQuery b true pd prev) (Some fr) d s st HS HK HM (qc_query b pd prev rest fr Hfr) Ht Hok Hf)
      as (o & fr' & M & s' & r & st' & E & A1 & A2 & A3 & A4 & (x' & -> & A5)).
    rewrite E. cbv beta iota zeta.
    destruct r as [v|]; cbn in A3; subst o.
    - exists (EVal v), x', M, s', (CVal v), st'. repeat (split; [first [reflexivity|assumption]|]). exact A5.
    - exists EUnwind, x', M, s', CCyc, st'. repeat (split; [first [reflexivity|assumption]|]). exact A5. }
  assert (Hkn : forall b rest st s, StkInv st (b :: rest) s -> forall x, In x (b :: rest) -> is_mexec_kind (nkind x) = true).
  { intros b rest st s HK x Hx. apply (HK x Hx). }
  assert (Hbin : forall b rest pd prev e a c0 op fr s st, expr_bin e = Some (a, c0, op) ->
            Sim st s -> StkInv st (b :: rest) s -> MarkedDone st (b :: rest) -> fr_scc fr = false ->
            (forall d, In d (expr_reads a ++ expr_reads c0) -> Target d /\ ROk b d) ->
            (Nat.max (edepth a) (edepth c0) + todo p st (b :: rest) * C + 1 <= f)%nat ->
            EOk b rest st (mbin p tord bord pord f (b :: rest) (CQuery b true pd prev) a c0 op fr s)
                (fun r st' => CEv p inp (b :: rest) e st r st')).
  { intros b rest pd prev e a c0 op fr s st Hb HS HK HM Hfr Ht Hf. unfold mbin.
    destruct (IHe b rest pd prev a fr s st HS HK HM Hfr (fun d Hd => Ht d (in_or_app _ _ _ (or_introl Hd))))
      as (o1 & fr1 & M1 & s1 & r1 & st1 & E1 & A1 & P1 & R1 & T1 & F1); [lia|].
    rewrite E1. cbv beta iota. destruct r1 as [x|]; cbn in R1; subst o1.
    - cbn [is_cyc] in T1. destruct (QPost_continue _ _ _ _ _ (Hkn _ _ _ _ HK) P1 T1) as (HK1 & HM1 & Hn1).
      pose proof (todo_post _ _ _ _ _ P1) as Ht1.
      assert (Hfr1 : fr_scc fr1 = false) by (rewrite F1; exact T1).
      destruct (IHe b rest pd prev c0 fr1 s1 st1 (proj1 P1) HK1 HM1 Hfr1 (fun d Hd => Ht d (in_or_app _ _ _ (or_intror Hd))))
        as (o2 & fr2 & M2 & s2 & r2 & st2 & E2 & A2 & P2 & R2 & T2 & F2).
      { assert ((todo p st1 (b :: rest) * C <= todo p st (b :: rest) * C)%nat) by (apply Nat.mul_le_mono_r; exact Ht1). lia. }
      rewrite E2. cbv beta iota.
      assert (P12 : QPost (b :: rest) st st2 s2 (M1 ++ M2)).
      { eapply QPost_seq; [exact Hn1| |exact P2]. apply P1. }
      destruct r2 as [y|]; cbn in R2; subst o2.
      + exists (EVal (op x y)), fr2, (M1 ++ M2), s2, (CVal (op x y)), st2.
        split; [reflexivity|]. split; [exact (ce_bin p inp _ e a c0 op st x st1 (CVal y) st2 Hb A1 A2)|].
        split; [exact P12|]. split; [reflexivity|]. split; [exact T2|exact F2].
      + exists EUnwind, fr2, (M1 ++ M2), s2, CCyc, st2.
        split; [reflexivity|]. split; [exact (ce_bin p inp _ e a c0 op st x st1 CCyc st2 Hb A1 A2)|].
        split; [exact P12|]. split; [reflexivity|]. split; [exact T2|exact F2].
    - exists EUnwind, fr1, M1, s1, CCyc, st1. split; [reflexivity|]. split; [eapply ce_bin_cyc; eauto|].
      split; [exact P1|]. split; [reflexivity|]. split; [exact T1|exact F1]. }
  (* a group *)
  assert (Hgrp : forall b rest pd prev ns acc fr ms s st,
            Sim st s -> StkInv st (b :: rest) s -> MarkedDone st (b :: rest) -> fr_scc fr = false ->
            (forall d, In d ns -> Target d /\ ROk b d) -> (todo p st (b :: rest) * C + 1 <= f)%nat ->
            exists out fr' M s' r st',
              mgroup p tord bord pord f (b :: rest) (CQuery b true pd prev) ns acc fr ms s = Ok (out, fr', ms ++ M, s') /\
              CGroup p inp (b :: rest) ns acc st r st' /\ QPost (b :: rest) st st' s' M /\ RE r out /\
              top_marked (b :: rest) st' = is_cyc r /\ fr_scc fr' = nmem b (c_marked st')).
  { intros b rest pd prev. induction ns as [|d r IHn]; intros acc fr ms s st HS HK HM Hfr Ht Hf; cbn [mgroup].
    - exists (EVal acc), fr, [], s, (CVal acc), st. rewrite app_nil_r. split; [reflexivity|]. split; [constructor|].
      split; [apply QPost_refl; assumption|]. split; [reflexivity|].
      assert (Htop : top_marked (b :: rest) st = false) by (cbn [top_marked]; apply nmem_false; apply (HK b (or_introl eq_refl))).
      split; [exact Htop|]. rewrite Hfr. symmetry. exact Htop.
    - destruct (Hread b rest pd prev d fr s st HS HK HM Hfr (Ht d (or_introl eq_refl)) Hf)
        as (o1 & fr1 & M1 & s1 & r1 & st1 & E1 & A1 & P1 & R1 & T1 & F1).
      rewrite E1. cbv beta iota. destruct r1 as [x|]; cbn in R1; subst o1.
      + cbn [is_cyc] in T1. destruct (QPost_continue _ _ _ _ _ (Hkn _ _ _ _ HK) P1 T1) as (HK1 & HM1 & Hn1).
        pose proof (todo_post _ _ _ _ _ P1) as Ht1.
        assert (Hfr1 : fr_scc fr1 = false) by (rewrite F1; exact T1).
        destruct (IHn (acc + x) fr1 (ms ++ M1) s1 st1 (proj1 P1) HK1 HM1 Hfr1 (fun y Hy => Ht y (or_intror Hy)))
          as (o2 & fr2 & M2 & s2 & r2 & st2 & E2 & A2 & P2 & R2 & T2 & F2).
        { assert ((todo p st1 (b :: rest) * C <= todo p st (b :: rest) * C)%nat) by (apply Nat.mul_le_mono_r; exact Ht1). lia. }
        exists o2, fr2, (M1 ++ M2), s2, r2, st2. rewrite app_assoc. split; [exact E2|].
        split; [eapply cg_cons; eauto|]. split; [|auto].
        eapply QPost_seq; [exact Hn1| |exact P2]. apply P1.
      + exists EUnwind, fr1, M1, s1, CCyc, st1. split; [reflexivity|]. split; [apply cg_cyc; exact A1|].
        split; [exact P1|]. split; [reflexivity|]. split; [exact T1|exact F1]. }
  red. intros b rest pd prev e fr s st HS HK HM Hfr Ht Hf. rewrite eval_S.
  assert (Htop : top_marked (b :: rest) st = false) by (cbn [top_marked]; apply nmem_false; apply (HK b (or_introl eq_refl))).
  change (EOk b rest st (match e with
     | EConst z => Ok (EVal z, fr, [], s)
     | ERead n => mread p tord bord pord f (b :: rest) (CQuery b true pd prev) n fr s
     | EAdd a b0 => mbin p tord bord pord f (b :: rest) (CQuery b true pd prev) a b0 Z.add fr s
     | EMul a b0 => mbin p tord bord pord f (b :: rest) (CQuery b true pd prev) a b0 Z.mul fr s
     | ELt a b0 => mbin p tord bord pord f (b :: rest) (CQuery b true pd prev) a b0 (fun x y => if x <? y then 1 else 0) fr s
     | EMod a m =>
         let* (x, fr1, m1, s1) := meval f (b :: rest) (CQuery b true pd prev) a fr s in
         match x with EUnwind => Ok (EUnwind, fr1, m1, s1) | EVal xv => Ok (EVal (xv mod m), fr1, m1, s1) end
     | EIf c a b0 =>
         let* (x, fr1, m1, s1) := meval f (b :: rest) (CQuery b true pd prev) c fr s in
         match x with
         | EUnwind => Ok (EUnwind, fr1, m1, s1)
         | EVal xv =>
             let* (y, fr2, m2, s2) := meval f (b :: rest) (CQuery b true pd prev) (if xv =? 0 then b0 else a) fr1 s1 in
             Ok (y, fr2, m1 ++ m2, s2)
         end
     | EGroup ns =>
         let* (x, fr1, m1, s1) := mgroup p tord bord pord f (b :: rest) (CQuery b true pd prev) ns 0 (fr_set_unordered fr true) [] s in
         Ok (x, fr_set_unordered fr1 false, m1, s1)
     end) (fun r st' => CEv p inp (b :: rest) e st r st')).
  destruct e as [z|n|a c0|a c0|a m|a c0|c a c0|ns]; cbn [edepth expr_reads] in Hf, Ht.
  - exists (EVal z), fr, [], s, (CVal z), st. split; [reflexivity|]. split; [constructor|].
    split; [apply QPost_refl; assumption|]. split; [reflexivity|]. split; [exact Htop|]. rewrite Hfr. symmetry. exact Htop.
  - destruct (Hread b rest pd prev n fr s st HS HK HM Hfr (Ht n (or_introl eq_refl))) as (o1 & fr1 & M1 & s1 & r1 & st1 & E1 & A1 & Q); [lia|].
    exists o1, fr1, M1, s1, r1, st1. split; [exact E1|]. split; [constructor; exact A1|exact Q].
  - apply (Hbin b rest pd prev (EAdd a c0) a c0 Z.add fr s st eq_refl HS HK HM Hfr Ht). lia.
  - apply (Hbin b rest pd prev (EMul a c0) a c0 Z.mul fr s st eq_refl HS HK HM Hfr Ht). lia.
  - destruct (IHe b rest pd prev a fr s st HS HK HM Hfr Ht) as (o1 & fr1 & M1 & s1 & r1 & st1 & E1 & A1 & P1 & R1 & T1 & F1); [lia|].
    rewrite E1. cbv beta iota. destruct r1 as [x|]; cbn in R1; subst o1.
    + exists (EVal (x mod m)), fr1, M1, s1, (CVal (x mod m)), st1. split; [reflexivity|].
      split; [exact (ce_mod p inp _ a m st (CVal x) st1 A1)|]. split; [exact P1|]. split; [reflexivity|]. split; [exact T1|exact F1].
    + exists EUnwind, fr1, M1, s1, CCyc, st1. split; [reflexivity|].
      split; [exact (ce_mod p inp _ a m st CCyc st1 A1)|]. split; [exact P1|]. split; [reflexivity|]. split; [exact T1|exact F1].
  - apply (Hbin b rest pd prev (ELt a c0) a c0 (fun x y => if x <? y then 1 else 0) fr s st eq_refl HS HK HM Hfr Ht). lia.
  - destruct (IHe b rest pd prev c fr s st HS HK HM Hfr (fun d Hd => Ht d (in_or_app _ _ _ (or_introl Hd))))
      as (o1 & fr1 & M1 & s1 & r1 & st1 & E1 & A1 & P1 & R1 & T1 & F1); [lia|].
    rewrite E1. cbv beta iota. destruct r1 as [x|]; cbn in R1; subst o1.
    + cbn [is_cyc] in T1. destruct (QPost_continue _ _ _ _ _ (Hkn _ _ _ _ HK) P1 T1) as (HK1 & HM1 & Hn1).
      pose proof (todo_post _ _ _ _ _ P1) as Ht1.
      assert (Hfr1 : fr_scc fr1 = false) by (rewrite F1; exact T1).
      destruct (IHe b rest pd prev (if x =? 0 then c0 else a) fr1 s1 st1 (proj1 P1) HK1 HM1 Hfr1)
        as (o2 & fr2 & M2 & s2 & r2 & st2 & E2 & A2 & P2 & R2 & T2 & F2).
      { intros d Hd. apply Ht. apply in_or_app. right. apply in_or_app. destruct (x =? 0); auto. }
      { assert ((todo p st1 (b :: rest) * C <= todo p st (b :: rest) * C)%nat) by (apply Nat.mul_le_mono_r; exact Ht1).
        destruct (x =? 0); lia. }
      rewrite E2. cbv beta iota.
      exists o2, fr2, (M1 ++ M2), s2, r2, st2. split; [reflexivity|]. split; [eapply ce_if; eauto|].
      split; [eapply QPost_seq; [exact Hn1| |exact P2]; apply P1|auto].
    + exists EUnwind, fr1, M1, s1, CCyc, st1. split; [reflexivity|]. split; [apply ce_if_cyc; exact A1|].
      split; [exact P1|]. split; [reflexivity|]. split; [exact T1|exact F1].
  - destruct (Hgrp b rest pd prev ns 0 (fr_set_unordered fr true) [] s st HS HK HM Hfr Ht)
      as (o1 & fr1 & M1 & s1 & r1 & st1 & E1 & A1 & P1 & R1 & T1 & F1); [lia|].
    cbn [app] in E1. rewrite E1. cbv beta iota.
    exists o1, (fr_set_unordered fr1 false), M1, s1, r1, st1. split; [reflexivity|]. split; [constructor; exact A1|].
    split; [exact P1|]. split; [exact R1|]. split; [exact T1|exact F1].
Qed.

Theorem cyc_all : forall f, SQ f /\ SX f /\ SE f.
Proof.
  induction f as [|f (IHq & IHx & IHe)].
  - split; [|split]; red; intros; exfalso; lia.
  - split; [apply SQ_step; exact IHx|]. split; [apply SX_step; exact IHe|apply SE_step; assumption].
Qed.
End Sim.

(** * the first query of a history on a fresh engine *)
(** what an input session leaves on a fresh engine *)
Definition InpState (inp : inputs) (s : state) : Prop :=
  (forall n i, get_info s n = Some i -> nkind n = KInput /\ i_verified i = s_ts s /\ input_get inp (nidx n) = Some (i_value i)) /\
  (forall k v, input_get inp k = Some v -> exists i, get_info s (mkNode KInput k) = Some i /\ i_value i = v).
Lemma sess_fold_InpState : forall sets inp cur rs batch cur' rs' batch',
  InpState inp cur -> fold_left fsess_step sets (cur, rs, batch) = (cur', rs', batch') ->
  InpState (fold_left (fun a '(i, v) => input_set a i v) sets inp) cur'.
Proof.
  induction sets as [|[k x] r IH]; intros inp cur rs batch cur' rs' batch' HI H; cbn [fold_left] in *.
  - inversion H. subst. exact HI.
  - rewrite fsess_step_eq in H. eapply IH; [|exact H]. destruct HI as [A B]. split.
    + intros n i Hi. rewrite set_input_get in Hi. rewrite set_input_ts, input_get_set.
      destruct (node_eqb_spec (mkNode KInput k) n) as [<-|Hne].
      * inversion Hi. cbn [nkind nidx i_verified i_value]. rewrite N.eqb_refl. auto.
      * destruct (A n i Hi) as (K1 & K2 & K3). split; [exact K1|]. split; [exact K2|].
        destruct (N.eqb_spec (nidx n) k) as [E|_]; [|exact K3].
        exfalso. apply Hne. destruct n as [kd ix]. cbn in K1, E. subst. reflexivity.
    + intros k0 v Hv. rewrite input_get_set in Hv. rewrite set_input_get.
      destruct (N.eqb_spec k0 k) as [->|Hne].
      * rewrite node_eqb_refl. inversion Hv. subst. eexists. split; reflexivity.
      * destruct (node_eqb_spec (mkNode KInput k) (mkNode KInput k0)) as [E|_]; [inversion E; congruence|]. apply B. exact Hv.
Qed.

Definition model_cyclic_fresh_statement_f : Prop :=
  forall (tord bord pord : oracle) fuel pfuel p sets root rest r,
    wf_cyc p -> inputs_cover p (inputs_after [OSession sets false]) -> alookup p root <> None ->
    (cyc_fuel p <= fuel)%nat ->
    nth_error (run_history_f tord bord pord fuel pfuel p init_state (OSession sets false :: OQuery root :: rest)) 1 = Some r ->
    exists v, cyc_spec p (inputs_after [OSession sets false]) root v /\ r_out r = RValue v /\ NoDup (r_execs r).

Theorem model_cyclic_fresh_f : model_cyclic_fresh_statement_f.
Proof.
  intros tord bord pord fuel pfuel p sets root rest r [Wk Wt Wp] Hcov Hroot Hfuel Hr.
  set (inp := inputs_after [OSession sets false]) in *.
  cbn [run_history_f] in Hr.
  destruct (step_f tord bord pord fuel pfuel p init_state (OSession sets false)) as [s1 x1] eqn:E1.
  destruct (step_f tord bord pord fuel pfuel p s1 (OQuery root)) as [s2 x2] eqn:E2.
  cbn [nth_error] in Hr. inversion Hr. subst x2. clear Hr.
  (* the session *)
  assert (HI1 : InpState inp s1).
  { rewrite step_f_session in E1. cbv zeta in E1.
    destruct (fold_left fsess_step sets (set_ts (set_log init_state []) (s_ts (set_log init_state []) + 1)%N, [], []))
      as [[c1 rs] batch] eqn:Ef.
    assert (H0 : InpState [] (set_ts (set_log init_state []) (s_ts (set_log init_state []) + 1)%N)).
    { split; [intros n i Hi; discriminate|intros k v Hv; discriminate]. }
    pose proof (sess_fold_InpState _ _ _ _ _ _ _ _ H0 Ef) as HI.
    assert (Hsame : forall c2, s_nodes c2 = s_nodes c1 -> s_ts c2 = s_ts c1 -> InpState inp c2).
    { intros c2 N1 N2. destruct HI as [A B]. unfold inp, inputs_after. cbn [fold_left apply_op firstn]. split.
      - intros n i Hi. unfold get_info in Hi. rewrite N1 in Hi. rewrite N2. apply A. exact Hi.
      - intros k v Hv. unfold get_info. rewrite N1. apply B. exact Hv. }
    destruct (propagate_o pord pfuel (set_visited (set_stat c1 0%N) []) batch) as [s4| | |] eqn:Ep;
      inversion E1; subst; try (apply Hsame; reflexivity).
    apply propagate_o_same in Ep. destruct Ep as (N1 & _ & N3 & _). apply Hsame; [exact N1|exact N3]. }
  (* the query *)
  assert (Hkeys : forall n e, alookup p n = Some e -> is_mexec_kind (nkind n) = true) by (intros n e He; eapply Wk; apply alookup_In; exact He).
  assert (Htargets : forall n e d, alookup p n = Some e -> In d (expr_reads e) -> Target p inp d).
  { intros n e d He Hd. apply alookup_In in He. destruct (Wt n e d He Hd) as [K|K]; [left|right; exact K].
    split; [exact K|]. destruct (input_get inp (nidx d)) as [v|] eqn:Ev; [eauto|]. exfalso. eapply Hcov; eauto. }
  assert (HD : forall n e, alookup p n = Some e -> (edepth e <= max_depth p)%nat).
  { intros n e He. eapply edepth_le_max. apply alookup_In. exact He. }
  assert (Hproj : forall n e d, alookup p n = Some e -> nkind n = KProjection -> In d (expr_reads e) -> is_fw_or_proj (nkind d) = true).
  { intros n e d He. apply (Wp n e d). apply alookup_In. exact He. }
  assert (HS : Sim inp cst0 (set_log s1 [])).
  { destruct HI1 as [A B]. split.
    - intros n i Hi. apply (A n i Hi).
    - intros n i Hi. left. apply (A n i Hi).
    - intros n v Kn Hv. destruct (B _ _ Hv) as (i & Hi & Hiv). exists i. split; [|exact Hiv].
      destruct n as [kd ix]. cbn in Kn. subst kd. exact Hi.
    - intros n v K. discriminate.
    - intros n i Kn Hi. destruct (A n i Hi) as (K & _). rewrite K in Kn. discriminate. }
  assert (Kroot : is_mexec_kind (nkind root) = true) by (destruct (alookup p root) as [e0|] eqn:E0; [eapply Hkeys; eauto|congruence]).
  unfold step_f in E2.
  destruct (proj1 (cyc_all p inp tord bord pord Hkeys Htargets Hproj (max_depth p) HD fuel)
              [] CUser None root (set_log s1 []) cst0 HS (fun x Hx => match Hx with end)
              (fun x Hx => match Hx with end) (qc_user) (or_intror (conj Kroot Hroot)) I)
    as (o & fr' & M & s' & r0 & st' & Eq & Hrd & _ & Hrq & Htm & _).
  { pose proof (todo_le_length p cst0 []) as Hl. unfold cyc_fuel in Hfuel.
    assert ((todo p cst0 [] * (max_depth p + 2) <= length p * (max_depth p + 2))%nat) by (apply Nat.mul_le_mono_r; exact Hl). lia. }
  cbn [top_marked] in Htm. destruct r0 as [v|]; [|discriminate]. cbn in Hrq. subst o.
  pose proof (proj1 (mmono_all p tord bord pord fuel) _ _ _ _ _ _ _ _ _ Eq) as HM.
  rewrite Eq in E2. inversion E2. subst. cbn [r_out r_execs].
  exists v. split; [exists st'; exact Hrd|]. split; [reflexivity|].
  destruct (mr_log _ _ _ HM) as [new [L [N _]]]. cbn [set_log s_log] in L. rewrite app_nil_r in L. rewrite L. apply NoDup_rev. exact N.
Qed.

(** with the fuel the model fixes, on [Model.run_history_op] (every order oracle) *)
Definition model_cyclic_fresh_statement_op : Prop :=
  forall (tord bord pord : oracle) p sets root rest r,
    wf_cyc p -> inputs_cover p (inputs_after [OSession sets false]) -> alookup p root <> None ->
    (cyc_fuel p <= fuel0)%nat ->
    nth_error (run_history_op tord bord pord p init_state (OSession sets false :: OQuery root :: rest)) 1 = Some r ->
    exists v, cyc_spec p (inputs_after [OSession sets false]) root v /\ r_out r = RValue v /\ NoDup (r_execs r).
Theorem model_cyclic_fresh_op : model_cyclic_fresh_statement_op.
Proof.
  intros tord bord pord p sets root rest r Hwf Hcov Hroot Hfuel Hr. rewrite run_history_op_is_f in Hr.
  eapply model_cyclic_fresh_f; eauto.
Qed.
Definition model_cyclic_fresh_statement : Prop :=
  forall p sets root rest r,
    wf_cyc p -> inputs_cover p (inputs_after [OSession sets false]) -> alookup p root <> None ->
    (cyc_fuel p <= fuel0)%nat ->
    nth_error (run_history p init_state (OSession sets false :: OQuery root :: rest)) 1 = Some r ->
    exists v, cyc_spec p (inputs_after [OSession sets false]) root v /\ r_out r = RValue v /\ NoDup (r_execs r).
Theorem model_cyclic_fresh : model_cyclic_fresh_statement.
Proof. intros p sets root rest r. exact (model_cyclic_fresh_op ord_id ord_id ord_id p sets root rest r). Qed.

(** * example: a conditional cycle A <-> B among Normal queries (closed when I0 <> 0), a self loop
    S, a conditional cycle between the firewall F0 and the projection P0, and queries outside the
    cycles.  With I0 = 1: A = B = S = -1, F0 = -2, P0 = -3 (the defaults of their kinds; F1 is not
    even executed: P0 is unwound at its first read), R = A + S + I1 = 98, T = B + A = -2,
    W = F0 + P0 + R = 93; with I0 = 0 no cycle is closed: B = 5, A = 6, R = 105, F0 = 7, F1 = 1,
    P0 = 8, W = 120. *)
Definition cex_I (k : N) := mkNode KInput k.
Definition cex_Q (k : N) := mkNode KNormal k.
Definition cex_F (k : N) := mkNode KFirewall k.
Definition cex_P (k : N) := mkNode KProjection k.
Definition cex_prog : program :=
  [ (cex_Q 0, EAdd (ERead (cex_Q 1)) (EConst 1));
    (cex_Q 1, EIf (ERead (cex_I 0)) (ERead (cex_Q 0)) (EConst 5));
    (cex_Q 2, EAdd (ERead (cex_Q 2)) (EConst 1));
    (cex_Q 3, EAdd (EAdd (ERead (cex_Q 0)) (ERead (cex_Q 2))) (ERead (cex_I 1)));
    (cex_Q 4, EAdd (ERead (cex_Q 1)) (ERead (cex_Q 0)));
    (cex_F 0, EIf (ERead (cex_I 0)) (ERead (cex_P 0)) (EConst 7));
    (cex_P 0, EAdd (ERead (cex_F 0)) (ERead (cex_F 1)));
    (cex_F 1, EMod (ERead (cex_I 1)) 3);
    (cex_Q 5, EAdd (EAdd (ERead (cex_F 0)) (ERead (cex_P 0))) (ERead (cex_Q 3))) ].
Ltac cex_cases H := repeat (destruct H as [H|H]; [inversion H; subst; clear H|]); try destruct H.
Ltac cex_reads Hd := cbn in Hd; repeat (destruct Hd as [Hd|Hd]; [subst|]); try destruct Hd.
Example cex_prog_wf : wf_cyc cex_prog.
Proof.
  split.
  - intros n e H. cex_cases H; reflexivity.
  - intros n e d H Hd. cex_cases H; cex_reads Hd; (left; reflexivity) || (right; split; [reflexivity|discriminate]).
  - intros n e d H K Hd. cex_cases H; try discriminate K; cex_reads Hd; reflexivity.
Qed.
Example cex_run :
  map r_out (run_history cex_prog init_state [OSession [(0%N, 1); (1%N, 100)] false; OQuery (cex_Q 5); OQuery (cex_Q 4)]) =
    [RSession [SFresh; SFresh]; RValue 93; RValue (-2)] /\
  map r_out (run_history cex_prog init_state [OSession [(0%N, 0); (1%N, 100)] false; OQuery (cex_Q 5)]) =
    [RSession [SFresh; SFresh]; RValue 120] /\
  (cyc_fuel cex_prog <= fuel0)%nat.
Proof. split; [vm_compute; reflexivity|]. split; [vm_compute; reflexivity|vm_compute; lia]. Qed.
(** the theorem applied: the specification gives these values *)
Example cex_spec :
  cyc_spec cex_prog (inputs_after [OSession [(0%N, 1); (1%N, 100)] false]) (cex_Q 5) 93 /\
  cyc_spec cex_prog (inputs_after [OSession [(0%N, 0); (1%N, 100)] false]) (cex_Q 5) 120 /\
  cyc_spec cex_prog (inputs_after [OSession [(0%N, 1); (1%N, 100)] false]) (cex_Q 4) (-2) /\
  cyc_spec cex_prog (inputs_after [OSession [(0%N, 1); (1%N, 100)] false]) (cex_P 0) (-3).
Proof.
  assert (Hcov : forall sets, (forall k, In k [0%N; 1%N] -> input_get (inputs_after [OSession sets false]) k <> None) ->
            inputs_cover cex_prog (inputs_after [OSession sets false])).
  { intros sets Hs n e d H Hd Kd. apply Hs. cex_cases H; cex_reads Hd; try discriminate Kd; cbn; auto. }
  assert (Hgo : forall sets root z,
            (forall k, In k [0%N; 1%N] -> input_get (inputs_after [OSession sets false]) k <> None) ->
            alookup cex_prog root <> None ->
            (exists r, nth_error (run_history cex_prog init_state [OSession sets false; OQuery root]) 1 = Some r /\ r_out r = RValue z) ->
            cyc_spec cex_prog (inputs_after [OSession sets false]) root z).
  { intros sets root z Hs Hr (r & Hn & Hz).
    destruct (model_cyclic_fresh cex_prog sets root [] r cex_prog_wf (Hcov sets Hs) Hr ltac:(vm_compute; lia) Hn) as (v & Hv & Ho & _).
    rewrite Hz in Ho. inversion Ho. subst. exact Hv. }
  repeat split; apply Hgo;
    try (intros k [<-|[<-|[]]]; vm_compute; discriminate); try discriminate;
    (eexists; split; [vm_compute; reflexivity|reflexivity]).
Qed.

Print Assumptions cyc_spec_det.
Print Assumptions model_cyclic_fresh_f.
Print Assumptions model_cyclic_fresh_op.
Print Assumptions model_cyclic_fresh.
