(** Preservation of the invariant [MInvE] of [Engine/MdlInv.v] by more dirt, and the two
    compute-phase dirty propagations of the full model: [propagate] (stops at firewalls and
    projections) and [propagate_t] (stops at firewalls only). *)
From QV Require Import Common.Prelude Engine.Model Engine.Core Engine.CoreSpec Engine.CoreInvBase
  Engine.CoreInvSem Engine.Fw Engine.FwBase Engine.FwMono Engine.FwInv Engine.MdlSpec Engine.MdlSem
  Engine.MdlBase Engine.MdlInv.
Open Scope Z_scope.

(** * a generic specification of the two worklist propagations *)
Section PropG.
Variable pushb : node -> bool.
Variable markf : state -> node -> list node -> list node -> state * list node.
Variable propf : nat -> state -> list node -> res state.
(** the order in which the callers of a node are expanded; only the members matter *)
Variable pordf : state -> node -> list node -> list node.
Hypothesis pord_mem : forall s x l y, In y (pordf s x l) <-> In y l.
Hypothesis mark_spec : forall cs s x work s2 work',
  markf s x cs work = (s2, work') ->
  work' = work ++ filter pushb cs /\
  s_nodes s2 = s_nodes s /\ s_bwd s2 = s_bwd s /\ s_ts s2 = s_ts s /\
  s_visited s2 = s_visited s /\ s_log s2 = s_log s /\
  (forall a b, sdirty s2 a b <-> sdirty s a b \/ (b = x /\ In a cs)).
Hypothesis prop_O : forall s work, propf O s work = OutOfFuel.
Hypothesis prop_S : forall f s work,
  propf (S f) s work =
  match work with
  | [] => Ok s
  | x :: r =>
      if nmem x (s_visited s) then propf f s r
      else
        let s1 := set_visited s (x :: s_visited s) in
        let '(s2, work') := markf s1 x (pordf s1 x (callers_of s1 x)) r in
        propf f s2 work'
  end.

Variable E : node -> Prop.
Definition PVp (s : state) (work : list node) : Prop :=
  forall x, In x (s_visited s) ->
    E x \/ (forall c, In c (callers_of s x) -> sdirty s c x /\ (pushb c = true -> In c (s_visited s) \/ In c work)).

Lemma prop_spec : forall fuel s work s',
  propf fuel s work = Ok s' -> PVp s work ->
  s_nodes s' = s_nodes s /\ s_bwd s' = s_bwd s /\ s_ts s' = s_ts s /\ s_log s' = s_log s /\
  (forall a b, sdirty s a b -> sdirty s' a b) /\
  (forall a b, sdirty s' a b -> sdirty s a b \/ In a (callers_of s b)) /\
  (forall x, In x (s_visited s) -> In x (s_visited s')) /\
  (forall x, In x work -> In x (s_visited s')) /\
  PVp s' [] /\
  (forall x, In x (s_visited s') -> In x (s_visited s) \/ In x work \/ (pushb x = true /\ exists y, In x (callers_of s y))).
Proof.
  induction fuel as [|f IH]; intros s work s' H HP; [rewrite prop_O in H; discriminate|]. rewrite prop_S in H.
  destruct work as [|x r].
  - inversion H. subst. repeat (split; [reflexivity|]). split; [auto|]. split; [auto|]. split; [auto|].
    split; [intros x []|]. split; [exact HP|]. intros x Hx. left. exact Hx.
  - destruct (nmem x (s_visited s)) eqn:Ev.
    + apply nmem_In in Ev. apply IH in H.
      * destruct H as (H1 & H2 & H3 & H4 & H5 & H6 & H7 & H8 & H9 & H10).
        repeat (split; [assumption|]). split; [|split; [exact H9|]].
        -- intros y [<-|Hy]; [apply H7; exact Ev|apply H8; exact Hy].
        -- intros y Hy. destruct (H10 y Hy) as [K|[K|K]]; auto. right. left. right. exact K.
      * intros y Hy. destruct (HP y Hy) as [K|K]; [left; exact K|right].
        intros c Hc. destruct (K c Hc) as [K1 K2]. split; [exact K1|]. intro Hn.
        destruct (K2 Hn) as [K3|[<-|K3]]; auto.
    + apply nmem_false in Ev. cbv zeta in H.
      destruct (markf (set_visited s (x :: s_visited s)) x
                  (pordf (set_visited s (x :: s_visited s)) x (callers_of (set_visited s (x :: s_visited s)) x)) r)
        as [s2 work'] eqn:Em.
      apply mark_spec in Em. destruct Em as (A & B & C & D & E0 & F & G).
      cbn [set_visited s_nodes s_bwd s_ts s_visited s_log] in *.
      assert (Hcal : forall y, callers_of s2 y = callers_of s y) by (intro y; unfold callers_of; rewrite C; reflexivity).
      assert (Hcal0 : callers_of (set_visited s (x :: s_visited s)) x = callers_of s x) by reflexivity.
      rewrite Hcal0 in *.
      assert (G' : forall a b, sdirty s2 a b <-> sdirty s a b \/ (b = x /\ In a (callers_of s x))).
      { intros a b. rewrite G, pord_mem. reflexivity. }
      clear G.
      assert (A' : forall y, In y work' <-> In y r \/ (In y (callers_of s x) /\ pushb y = true)).
      { intro y. rewrite A, in_app_iff, filter_In, pord_mem. reflexivity. } apply IH in H.
      * destruct H as (H1 & H2 & H3 & H4 & H5 & H6 & H7 & H8 & H9 & H10).
        split; [congruence|]. split; [congruence|]. split; [congruence|]. split; [congruence|].
        split; [intros a b K; apply H5; apply G'; auto|]. split; [|split; [|split; [|split; [exact H9|]]]].
        -- intros a b K. apply H6 in K. destruct K as [K|K].
           ++ apply G' in K. destruct K as [K|[-> K]]; auto.
           ++ right. rewrite Hcal in K. exact K.
        -- intros y Hy. apply H7. rewrite E0. right. exact Hy.
        -- intros y [<-|Hy].
           ++ apply H7. rewrite E0. left. reflexivity.
           ++ apply H8. apply A'. left. exact Hy.
        -- intros y Hy. destruct (H10 y Hy) as [K|[K|[Kp [z K]]]].
           ++ rewrite E0 in K. destruct K as [<-|K]; [right; left; left; reflexivity|left; exact K].
           ++ apply A' in K. destruct K as [K|K]; [right; left; right; exact K|].
              right. right. split; [apply K|]. exists x. apply K.
           ++ right. right. split; [exact Kp|]. exists z. rewrite <- Hcal. exact K.
      * intros y Hy. rewrite E0 in Hy. destruct Hy as [<-|Hy].
        -- right. intros c Hc. rewrite Hcal in Hc. split; [apply G'; auto|]. intro Hn.
           right. apply A'. right. split; [exact Hc|exact Hn].
        -- destruct (HP y Hy) as [K|K]; [left; exact K|right].
           intros c Hc. rewrite Hcal in Hc. destruct (K c Hc) as [K1 K2]. split; [apply G'; auto|]. intro Hn.
           rewrite E0. destruct (K2 Hn) as [K3|[<-|K3]].
           ++ left. right. exact K3.
           ++ left. left. reflexivity.
           ++ right. apply A'. left. exact K3.
Qed.
End PropG.

Definition push_p (c : node) : bool := negb (is_fw_or_proj (nkind c)).
Definition push_t (c : node) : bool := negb (kind_eqb (nkind c) KFirewall).
Lemma push_t_thru : forall c, push_t c = true <-> thru c.
Proof.
  intro c. unfold push_t, thru. destruct (kind_eqb (nkind c) KFirewall) eqn:K; cbn [negb].
  - apply kind_eqb_eq in K. split; [discriminate|]. intro H. contradiction.
  - split; [|reflexivity]. intros _ H. rewrite H in K. discriminate.
Qed.
Lemma push_p_nonfw : forall c, push_p c = true <-> nonfw c.
Proof. intro c. unfold push_p, nonfw. destruct (is_fw_or_proj (nkind c)); cbn [negb]; split; congruence. Qed.

Definition propagate_spec_p pord (Hp : forall s x l y, In y (pord s x l) <-> In y l) :=
  prop_spec push_p mark_callers (propagate_o pord) pord Hp mark_callers_spec (fun _ _ => eq_refl) (fun _ _ _ => eq_refl).
Definition propagate_spec_t pord (Hp : forall s x l y, In y (pord s x l) <-> In y l) :=
  prop_spec push_t mark_callers_t (propagate_t_o pord) pord Hp mark_callers_t_spec (fun _ _ => eq_refl) (fun _ _ _ => eq_refl).

Section State.
Variable p : program.
Variable rk : node -> nat.
Variable s0 : state.
Hypothesis Hrk : forall n e d, alookup p n = Some e -> In d (expr_reads e) -> (rk d < rk n)%nat.
Hypothesis Hproj : forall n e d, alookup p n = Some e -> nkind n = KProjection -> In d (expr_reads e) ->
  is_fw_or_proj (nkind d) = true.

(** more dirt on existing edges, a larger visited set *)
Lemma MInv_dirtier : forall Ex Ex' X inp s s',
  s_nodes s' = s_nodes s -> s_bwd s' = s_bwd s -> s_ts s' = s_ts s -> s_log s' = s_log s ->
  s_world s' = s_world s -> s_ext s' = s_ext s ->
  (forall a b, sdirty s a b -> sdirty s' a b) ->
  (forall a b, sdirty s' a b -> In b (old_fwd s a)) ->
  (forall x, In x (s_visited s') ->
     Ex' x \/ sverified s x \/
     (nkind x <> KInput /\ forall c, In c (callers_of s x) -> sdirty s' c x /\ (thru c -> In c (s_visited s')))) ->
  MInvE p rk s0 Ex X inp s -> MInvE p rk s0 Ex' X inp s'.
Proof.
  intros Ex Ex' X inp s s' Hn Hb Ht Hl Hw Hxt Hd1 Hd2 Hv HI.
  assert (Hg : forall m, get_info s' m = get_info s m) by (intro m; unfold get_info; rewrite Hn; reflexivity).
  assert (Hc : forall m, callers_of s' m = callers_of s m) by (intro m; unfold callers_of; rewrite Hb; reflexivity).
  destruct HI. split.
  - intros n i. rewrite Hg. apply mi_kind.
  - intros n i d. rewrite Hg. apply mi_obs.
  - intros n i d o. rewrite Hg. apply mi_obs_fwd.
  - intros n d. rewrite (msn_fwd _ _ Hg), Hg. apply mi_target.
  - intros n d. rewrite Hc, (msn_fwd _ _ Hg). apply mi_bwd.
  - intros a b K. rewrite (msn_fwd _ _ Hg). apply Hd2. exact K.
  - intros n i. rewrite Hg, Ht. apply mi_ts.
  - intros n i d v t. rewrite Hg. apply mi_tfc.
  - intros n i F. rewrite Hg. apply mi_tfc_ex.
  - intros n i F. rewrite Hg. apply mi_tfc_rk.
  - intros n i F. rewrite Hg. apply mi_tfc_fw.
  - intros n d. rewrite (msn_fwd _ _ Hg), (msn_edgeok _ _ Hg). intros A B.
    destruct (mi_C n d A (fun K => B (Hd1 _ _ K))) as [C D]. split; [exact C|].
    intro K. apply (msn_GoodX _ _ Hg). auto.
  - intros n. rewrite (msn_verified _ _ Hg Ht), (msn_Good _ _ Hg). apply mi_G.
  - intros n F. rewrite !(msn_verified _ _ Hg Ht), (msn_reach _ _ Hg). apply mi_T.
  - intros n i. rewrite Hg, Ht. apply mi_V.
  - intros x Hx. destruct (Hv x Hx) as [K|[K|[K0 K]]].
    + left. exact K.
    + right. left. apply (msn_verified _ _ Hg Ht). exact K.
    + right. right. split; [exact K0|]. intros c Hcx. rewrite Hc in Hcx. apply K. exact Hcx.
  - intros x Hx. destruct (mi_X x Hx) as [K1 K2]. split; [exact K1|].
    destruct K2 as [K2|K2]; [left; apply (msn_verified _ _ Hg Ht); exact K2|right; apply (msn_StaleX _ _ Hg Ht); exact K2].
  - intros m Hm. rewrite Hl in Hm. apply mi_J. exact Hm.
  - intro m. rewrite Hg. destruct (mi_U m) as [K|K]; [left; apply (msn_verified _ _ Hg Ht); exact K|right; exact K].
  - intros m i. rewrite Hg, Hl. apply mi_O.
  - intros k. rewrite Hg. unfold world_get. rewrite Hw. apply mi_W.
  - intros e. rewrite Hxt. apply mi_ext.
Qed.

(** a path to a node that is neither firewall nor projection runs through such nodes *)
Lemma tpath_nonfw : forall Ex X inp s, MInvE p rk s0 Ex X inp s -> forall d x, tpath s d x -> nonfw x -> thru d -> nonfw d.
Proof.
  intros Ex X inp s HI d x H. induction H as [n|n d x Hd Hn Hp IH]; intros Hx Ht; [exact Hx|].
  specialize (IH Hx Hn). unfold nonfw in *. destruct (nkind n) eqn:K; try reflexivity.
  - exfalso. apply Ht. exact K.
  - rewrite (proj_fwd_kind p rk Hproj _ _ _ _ _ _ _ HI K Hd) in IH. discriminate.
Qed.

(** no verified node strictly above [n] *)
Definition NVabove (s : state) (n : node) : Prop :=
  forall b x, tpath s b x -> In n (old_fwd s x) -> ~ sverified s b.
(** every edge into [n] and into the non-firewall nodes above it is dirty *)
Definition UpDirty (s : state) (n : node) : Prop :=
  (forall c, In n (old_fwd s c) -> sdirty s c n) /\
  (forall b x a, tpath s b x -> In n (old_fwd s x) -> thru b -> In b (old_fwd s a) -> sdirty s a b).
(** the same, but only above the callers of [n] that are neither firewalls nor projections *)
Definition UpDirtyP (s : state) (n : node) : Prop :=
  (forall c, In n (old_fwd s c) -> sdirty s c n) /\
  (forall b x a, tpath s b x -> In n (old_fwd s x) -> nonfw x -> thru b -> In b (old_fwd s a) -> sdirty s a b).

Variable pord : state -> node -> list node -> list node.
Hypothesis Hpord : forall s x l y, In y (pord s x l) <-> In y l.

Lemma MInv_propagate_t : forall X inp fuel s n s',
  MInv p rk s0 X inp s -> propagate_t_o pord fuel s [n] = Ok s' -> ~ sverified s n -> NVabove s n ->
  is_fw_or_proj (nkind n) = true ->
  MInv p rk s0 X inp s' /\
  s_nodes s' = s_nodes s /\ s_bwd s' = s_bwd s /\ s_ts s' = s_ts s /\ s_log s' = s_log s /\ UpDirty s' n.
Proof.
  intros X inp fuel s n s' HI H Hnv HNV Kn.
  set (E := fun x => sverified s x).
  assert (HP : PVp push_t E s [n]).
  { intros x Hx. destruct (mi_PV _ _ _ _ _ _ _ HI x Hx) as [[]|[K|[_ K]]]; [left; exact K|right].
    intros c Hc. destruct (K c Hc) as [K1 K2]. split; [exact K1|]. intro Hn. left. apply K2. apply push_t_thru. exact Hn. }
  destruct (propagate_spec_t pord Hpord E _ _ _ _ H HP) as (N1 & N2 & N3 & N4 & N5 & N6 & N7 & N8 & N9 & N10).
  assert (Hg : forall m, get_info s' m = get_info s m) by (intro m; unfold get_info; rewrite N1; reflexivity).
  assert (Hc : forall m, callers_of s' m = callers_of s m) by (intro m; unfold callers_of; rewrite N2; reflexivity).
  assert (Hni : forall x, In x (s_visited s') -> sverified s x \/ nkind x <> KInput).
  { intros x Hx. destruct (N10 x Hx) as [K0|[[<-|[]]|[_ [y K0]]]].
    - destruct (mi_PV _ _ _ _ _ _ _ HI x K0) as [[]|[K1|[K1 _]]]; auto.
    - right. intro K. rewrite K in Kn. discriminate.
    - right. intro Ki. apply (mi_bwd _ _ _ _ _ _ _ HI) in K0. rewrite (minput_no_fwd _ _ _ _ _ _ _ _ HI Ki) in K0. destruct K0. }
  destruct (propagate_t_o_we _ _ _ _ _ H) as [Nw Nx].
  assert (HI' : MInv p rk s0 X inp s').
  { eapply MInv_dirtier; eauto.
    - intros a b K. apply N6 in K. destruct K as [K|K]; [eapply mi_dirty_edge; eauto|].
      apply (mi_bwd _ _ _ _ _ _ _ HI). exact K.
    - intros x Hx. right. destruct (N9 x Hx) as [K|K]; [left; exact K|].
      destruct (Hni x Hx) as [Hv|Hv]; [left; exact Hv|right]. split; [exact Hv|].
      intros c Hcx. rewrite <- Hc in Hcx. destruct (K c Hcx) as [K1 K2]. split; [exact K1|].
      intro Hn. apply push_t_thru in Hn. destruct (K2 Hn) as [K3|[]]. exact K3. }
  split; [exact HI'|]. split; [exact N1|]. split; [exact N2|]. split; [exact N3|]. split; [exact N4|].
  assert (Hf : forall m, old_fwd s' m = old_fwd s m) by (apply msn_fwd; exact Hg).
  assert (HnV : In n (s_visited s')) by (apply N8; left; reflexivity).
  assert (Hcl : forall x, In x (s_visited s') -> ~ sverified s x ->
            forall c, In x (old_fwd s c) -> sdirty s' c x /\ (thru c -> In c (s_visited s'))).
  { intros x Hx Hxv c Hcx. destruct (N9 x Hx) as [K|K]; [contradiction|].
    assert (Hcc : In c (callers_of s' x)) by (rewrite Hc; apply (mi_bwd _ _ _ _ _ _ _ HI); exact Hcx).
    destruct (K c Hcc) as [K1 K2]. split; [exact K1|]. intro Ht. apply push_t_thru in Ht. destruct (K2 Ht) as [K3|[]]. exact K3. }
  assert (Hup : forall b x, tpath s b x -> In n (old_fwd s x) -> thru b -> In b (s_visited s') /\ ~ sverified s b).
  { intros b x Hp. induction Hp as [b|b d x Hd Hnd Hp IH]; intros Hx Hb.
    - split; [|eapply HNV; eauto; constructor]. apply (Hcl n HnV Hnv b Hx). exact Hb.
    - destruct (IH Hx Hnd) as [IH1 IH2]. split; [|eapply HNV; eauto; econstructor; eauto].
      apply (Hcl d IH1 IH2 b Hd). exact Hb. }
  split.
  - intros c Hcn. rewrite Hf in Hcn. apply (Hcl n HnV Hnv c Hcn).
  - intros b x a Hp Hx Hb Hab. apply (msn_tpath _ _ Hg) in Hp. rewrite Hf in Hx, Hab.
    destruct (Hup b x Hp Hx Hb) as [U1 U2]. apply (Hcl b U1 U2 a Hab).
Qed.

Lemma MInv_propagate_p : forall X inp fuel s n s',
  MInv p rk s0 X inp s -> propagate_o pord fuel s [n] = Ok s' -> ~ sverified s n -> NVabove s n ->
  is_fw_or_proj (nkind n) = true ->
  MInvE p rk s0 (eq n) X inp s' /\
  s_nodes s' = s_nodes s /\ s_bwd s' = s_bwd s /\ s_ts s' = s_ts s /\ s_log s' = s_log s /\ UpDirtyP s' n.
Proof.
  intros X inp fuel s n s' HI H Hnv HNV Kn.
  set (E := fun x => sverified s x).
  assert (HP : PVp push_p E s [n]).
  { intros x Hx. destruct (mi_PV _ _ _ _ _ _ _ HI x Hx) as [[]|[K|[_ K]]]; [left; exact K|right].
    intros c Hc. destruct (K c Hc) as [K1 K2]. split; [exact K1|]. intro Hn. left. apply K2.
    apply push_p_nonfw in Hn. unfold thru. intro Kc. unfold nonfw in Hn. rewrite Kc in Hn. discriminate. }
  destruct (propagate_spec_p pord Hpord E _ _ _ _ H HP) as (N1 & N2 & N3 & N4 & N5 & N6 & N7 & N8 & N9 & N10).
  assert (Hg : forall m, get_info s' m = get_info s m) by (intro m; unfold get_info; rewrite N1; reflexivity).
  assert (Hc : forall m, callers_of s' m = callers_of s m) by (intro m; unfold callers_of; rewrite N2; reflexivity).
  destruct (propagate_o_we _ _ _ _ _ H) as [Nw Nx].
  assert (HI' : MInvE p rk s0 (eq n) X inp s').
  { eapply MInv_dirtier; eauto.
    - intros a b K. apply N6 in K. destruct K as [K|K]; [eapply mi_dirty_edge; eauto|].
      apply (mi_bwd _ _ _ _ _ _ _ HI). exact K.
    - intros x Hx. destruct (N10 x Hx) as [K0|[[<-|[]]|[Kp [y K0]]]].
      + (* visited before: what the invariant said carries over *)
        right. destruct (mi_PV _ _ _ _ _ _ _ HI x K0) as [[]|[K1|[K1 K2]]]; [left; exact K1|right].
        split; [exact K1|]. intros c Hcx. destruct (K2 c Hcx) as [K3 K4]. split; [apply N5; exact K3|].
        intro Ht. apply N7. apply K4. exact Ht.
      + left. reflexivity.
      + right. destruct (N9 x Hx) as [K|K]; [left; exact K|right]. apply push_p_nonfw in Kp. split.
        * intro Ki. apply (mi_bwd _ _ _ _ _ _ _ HI) in K0. rewrite (minput_no_fwd _ _ _ _ _ _ _ _ HI Ki) in K0. destruct K0.
        * intros c Hcx. rewrite <- Hc in Hcx. destruct (K c Hcx) as [K1 K2]. split; [exact K1|].
          intro Ht. rewrite Hc in Hcx.
          assert (Hcp : push_p c = true).
          { apply push_p_nonfw. unfold nonfw. destruct (nkind c) eqn:Kc; try reflexivity.
            - exfalso. apply Ht. exact Kc.
            - exfalso. eapply (no_proj_caller p rk Hproj); eauto. }
          destruct (K2 Hcp) as [K3|[]]. exact K3. }
  split; [exact HI'|]. split; [exact N1|]. split; [exact N2|]. split; [exact N3|]. split; [exact N4|].
  assert (Hf : forall m, old_fwd s' m = old_fwd s m) by (apply msn_fwd; exact Hg).
  assert (HnV : In n (s_visited s')) by (apply N8; left; reflexivity).
  assert (Hcl : forall x, In x (s_visited s') -> ~ sverified s x ->
            forall c, In x (old_fwd s c) -> sdirty s' c x /\ (nonfw c -> In c (s_visited s'))).
  { intros x Hx Hxv c Hcx. destruct (N9 x Hx) as [K|K]; [contradiction|].
    assert (Hcc : In c (callers_of s' x)) by (rewrite Hc; apply (mi_bwd _ _ _ _ _ _ _ HI); exact Hcx).
    destruct (K c Hcc) as [K1 K2]. split; [exact K1|]. intro Ht. apply push_p_nonfw in Ht. destruct (K2 Ht) as [K3|[]]. exact K3. }
  assert (Hup : forall b x, tpath s b x -> In n (old_fwd s x) -> nonfw x -> thru b -> In b (s_visited s') /\ ~ sverified s b).
  { intros b x Hp. induction Hp as [b|b d x Hd Hnd Hp IH]; intros Hx Hnx Hb.
    - split; [|eapply HNV; eauto; constructor]. apply (Hcl n HnV Hnv b Hx). exact Hnx.
    - destruct (IH Hx Hnx Hnd) as [IH1 IH2]. split; [|eapply HNV; eauto; econstructor; eauto].
      apply (Hcl d IH1 IH2 b Hd). apply (tpath_nonfw _ _ _ _ HI b x); [econstructor; eauto|exact Hnx|exact Hb]. }
  split.
  - intros c Hcn. rewrite Hf in Hcn. apply (Hcl n HnV Hnv c Hcn).
  - intros b x a Hp Hx Hnx Hb Hab. apply (msn_tpath _ _ Hg) in Hp. rewrite Hf in Hx, Hab.
    destruct (Hup b x Hp Hx Hnx Hb) as [U1 U2]. apply (Hcl b U1 U2 a Hab).
Qed.
End State.
