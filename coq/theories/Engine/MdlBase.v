(** Unfolding equations of the five mutually recursive functions of the full engine model
    ([Engine/Model.v], with no panicking executor) with their inner [fix]es mirrored by named
    functions, and the basic facts about [propagate_t].  The facts about the state-update
    functions are those of [Engine/FwBase.v] (they are about [Model.v]). *)
From QV Require Import Common.Prelude Engine.Model Engine.Core Engine.CoreInvBase Engine.Fw Engine.FwBase.
Open Scope Z_scope.

(** * propagate_t *)
Lemma mark_callers_t_spec : forall cs s x work s2 work',
  mark_callers_t s x cs work = (s2, work') ->
  work' = work ++ filter (fun c => negb (kind_eqb (nkind c) KFirewall)) cs /\
  s_nodes s2 = s_nodes s /\ s_bwd s2 = s_bwd s /\ s_ts s2 = s_ts s /\
  s_visited s2 = s_visited s /\ s_log s2 = s_log s /\
  (forall a b, sdirty s2 a b <-> sdirty s a b \/ (b = x /\ In a cs)).
Proof.
  induction cs as [|c r IH]; intros s x work s2 work' H; cbn [mark_callers_t] in H.
  - inversion H. subst. cbn [filter]. rewrite app_nil_r. repeat (split; [reflexivity|]). intros. cbn [In]. tauto.
  - cbv zeta in H. apply IH in H. destruct H as (A & B & C & D & E & F & G).
    cbn [set_stat set_dirty s_nodes s_bwd s_ts s_visited s_log] in *.
    split.
    { rewrite A. cbn [filter]. destruct (kind_eqb (nkind c) KFirewall); cbn [negb]; [reflexivity|].
      rewrite <- app_assoc. reflexivity. }
    repeat (split; [assumption|]).
    intros a b. rewrite G. unfold sdirty. cbn [set_stat set_dirty s_dirty]. rewrite eadd_In. cbn [In]. split.
    + intros [[K|K]|[K1 K2]]; [inversion K; subst; auto|auto|auto].
    + intros [K|[K1 [K2|K2]]]; [auto|subst; auto|auto].
Qed.

Lemma propagate_t_o_same : forall pord fuel s work s', propagate_t_o pord fuel s work = Ok s' ->
  s_nodes s' = s_nodes s /\ s_bwd s' = s_bwd s /\ s_ts s' = s_ts s /\ s_log s' = s_log s /\
  (forall a b, sdirty s a b -> sdirty s' a b) /\
  (forall x, In x (s_visited s) -> In x (s_visited s')).
Proof.
  intros pord; induction fuel as [|f IH]; intros s work s' H; [discriminate|]. cbn [propagate_t_o] in H.
  destruct work as [|x r]; [inversion H; subst; auto 10|].
  destruct (nmem x (s_visited s)); [eapply IH; eauto|]. cbv zeta in H.
  destruct (mark_callers_t (set_visited s (x :: s_visited s)) x (pord (set_visited s (x :: s_visited s)) x (callers_of (set_visited s (x :: s_visited s)) x)) r)
    as [s2 work'] eqn:Em.
  apply mark_callers_t_spec in Em. destruct Em as (_ & B & C & D & E & F & G).
  apply IH in H. destruct H as (H1 & H2 & H3 & H4 & H5 & H6).
  cbn [set_visited s_nodes s_bwd s_ts s_log s_visited] in *.
  split; [congruence|]. split; [congruence|]. split; [congruence|]. split; [congruence|]. split.
  - intros a b K. apply H5. apply G. left. exact K.
  - intros y Hy. apply H6. rewrite E. right. exact Hy.
Qed.

Lemma mark_callers_we : forall cs s x work s2 work', mark_callers s x cs work = (s2, work') ->
  s_world s2 = s_world s /\ s_ext s2 = s_ext s.
Proof.
  induction cs as [|c r IH]; intros s x work s2 work' H; cbn [mark_callers] in H; [inversion H; auto|].
  cbv zeta in H. apply IH in H. exact H.
Qed.
Lemma mark_callers_t_we : forall cs s x work s2 work', mark_callers_t s x cs work = (s2, work') ->
  s_world s2 = s_world s /\ s_ext s2 = s_ext s.
Proof.
  induction cs as [|c r IH]; intros s x work s2 work' H; cbn [mark_callers_t] in H; [inversion H; auto|].
  cbv zeta in H. apply IH in H. exact H.
Qed.
Lemma propagate_o_we : forall pord fuel s work s', propagate_o pord fuel s work = Ok s' -> s_world s' = s_world s /\ s_ext s' = s_ext s.
Proof.
  intros pord; induction fuel as [|f IH]; intros s work s' H; [discriminate|]. cbn [propagate_o] in H.
  destruct work as [|x r]; [inversion H; auto|].
  destruct (nmem x (s_visited s)); [eapply IH; eauto|]. cbv zeta in H.
  destruct (mark_callers (set_visited s (x :: s_visited s)) x (pord (set_visited s (x :: s_visited s)) x (callers_of (set_visited s (x :: s_visited s)) x)) r) as [s2 work'] eqn:Em.
  apply mark_callers_we in Em. apply IH in H. cbn in Em. destruct Em, H. split; congruence.
Qed.
Lemma propagate_t_o_we : forall pord fuel s work s', propagate_t_o pord fuel s work = Ok s' -> s_world s' = s_world s /\ s_ext s' = s_ext s.
Proof.
  intros pord; induction fuel as [|f IH]; intros s work s' H; [discriminate|]. cbn [propagate_t_o] in H.
  destruct work as [|x r]; [inversion H; auto|].
  destruct (nmem x (s_visited s)); [eapply IH; eauto|]. cbv zeta in H.
  destruct (mark_callers_t (set_visited s (x :: s_visited s)) x (pord (set_visited s (x :: s_visited s)) x (callers_of (set_visited s (x :: s_visited s)) x)) r) as [s2 work'] eqn:Em.
  apply mark_callers_t_we in Em. apply IH in H. cbn in Em. destruct Em, H. split; congruence.
Qed.

Lemma propagate_o_same : forall pord fuel s work s', propagate_o pord fuel s work = Ok s' ->
  s_nodes s' = s_nodes s /\ s_bwd s' = s_bwd s /\ s_ts s' = s_ts s /\ s_log s' = s_log s /\
  (forall a b, sdirty s a b -> sdirty s' a b) /\
  (forall x, In x (s_visited s) -> In x (s_visited s')).
Proof.
  intros pord; induction fuel as [|f IH]; intros s work s' H; [discriminate|]. cbn [propagate_o] in H.
  destruct work as [|x r]; [inversion H; subst; auto 10|].
  destruct (nmem x (s_visited s)); [eapply IH; eauto|]. cbv zeta in H.
  destruct (mark_callers (set_visited s (x :: s_visited s)) x (pord (set_visited s (x :: s_visited s)) x (callers_of (set_visited s (x :: s_visited s)) x)) r)
    as [s2 work'] eqn:Em.
  apply mark_callers_spec in Em. destruct Em as (_ & B & C & D & E & F & G).
  apply IH in H. destruct H as (H1 & H2 & H3 & H4 & H5 & H6).
  cbn [set_visited s_nodes s_bwd s_ts s_log s_visited] in *.
  split; [congruence|]. split; [congruence|]. split; [congruence|]. split; [congruence|]. split.
  - intros a b K. apply H5. apply G. left. exact K.
  - intros y Hy. apply H6. rewrite E. right. exact Hy.
Qed.

(** * unfolding equations *)
Section Unfold.
Variable p : program.
Variables tord bord pord : state -> node -> list node -> list node.

Notation mquery := (query_for_o p None tord bord pord).
Notation mexecute := (execute_o p None tord bord pord).
Notation meval := (eval_o p None tord bord pord).
Notation mrepair := (repair_o p None tord bord pord).
Notation mbackward := (backward_o p None tord bord pord).

Section Tfc.
Variables (f : nat) (stk : list node).
Fixpoint mtfc (ts : list node) (s : state) : res state :=
  match ts with
  | [] => Ok s
  | t :: r => let* (_, _, _, s') := mquery f stk CRepairFirewall None t s in mtfc r s'
  end.
Fixpoint mbp (ps : list node) (s : state) : res state :=
  match ps with
  | [] => Ok s
  | q :: r => let* (_, _, _, s') := mquery f stk CBPP None q s in mbp r s'
  end.
End Tfc.

Section Walk.
Variables (f : nat) (n : node) (stk : list node) (pedantic : bool) (i : info).
Fixpoint mwalk (cs : list node) (rtfc : bool) (cleaned : list node) (fr : frame) (ms : list node) (s : state)
  : res (decision * frame * list node * state) :=
  match cs with
  | [] => Ok (DClean rtfc cleaned, fr, ms, s)
  | cal :: r =>
      let dirty := emem (n, cal) (s_dirty s) in
      if negb dirty && negb pedantic && negb (kind_eqb (nkind n) KProjection)
      then mwalk r rtfc cleaned fr ms s
      else if (match alookup (i_obs i) cal with None => true | Some _ => false end)
      then Ok (DRecompute, fr, ms, s)
      else
        let pedantic_cal :=
          pedantic ||
          (negb (kind_eqb (nkind cal) KInput) && negb (kind_eqb (nkind cal) KFirewall) &&
           match get_info s cal, alookup (i_obs i) cal with
           | Some ci, Some (_, otfc) => negb (nset_eqb (i_tfc ci) otfc)
           | _, _ => false
           end) in
        let* (fr1, m1, s1) :=
          if kind_eqb (nkind cal) KInput then Ok (fr, [], s)
          else
            let* (_, fr', m', s') := mquery f (n :: stk) (CQuery n false pedantic_cal []) (Some fr) cal s in
            Ok (match fr' with Some x => x | None => fr end, m', s') in
        match get_info s1 cal, alookup (i_obs i) cal with
        | Some ci, Some (ov, otfc) =>
            if negb (i_value ci =? ov) then Ok (DRecompute, fr1, ms ++ m1, s1)
            else
              let tdiff := negb (kind_eqb (nkind cal) KFirewall) && negb (nset_eqb (i_tfc ci) otfc) in
              mwalk r (rtfc || tdiff) (if dirty then cleaned ++ [cal] else cleaned) fr1 (ms ++ m1) s1
        | _, _ => Panic 2
        end
  end.
End Walk.

(** pedantic flag handed to the executor *)
Definition x_pedantic (c : caller) : bool := match c with CQuery _ _ pd _ => pd | CBPP => true | _ => false end.
Definition c_follow (c : caller) : bool := match c with CRepairFirewall | CBPP => true | _ => false end.

Definition mq_reg (c : caller) (fr : option frame) (n : node) : res (option frame) :=
  match c, fr with
  | CQuery b _ _ _, Some fr0 =>
      if kind_eqb (nkind b) KExternal then Panic 5
      else if kind_eqb (nkind b) KProjection && negb (is_fw_or_proj (nkind n)) then Panic 3
      else Ok (Some (fr_register fr0 n))
  | _, _ => Ok fr
  end.
Definition mq_tfc (f : nat) (stk : list node) (c : caller) (sp : slow) (n : node) (s : state) : res state :=
  match c, sp, get_info s n with
  | (CUser | CRepairFirewall), SRepair, Some i => mtfc f stk (tord s n (i_tfc i)) s
  | _, _, _ => Ok s
  end.
Definition has_pending (s : state) (n : node) : bool :=
  match get_info s n with
  | Some i => match i_pending i with Some t => (t =? s_ts s)%N | None => false end
  | None => false
  end.
Definition mq_process (f : nat) (stk : list node) (c : caller) (sp : slow) (n : node) (s1 : state)
  : res (list node * state) :=
  match sp with
  | SBackward =>
      match get_info s1 n with
      | Some i =>
          if (match i_pending i with Some t => (t =? s_ts s1)%N | None => false end)
          then let* s' := mbackward f stk n s1 in Ok ([], s')
          else Ok ([], s1)
      | None => Ok ([], s1)
      end
  | _ =>
      match get_info s1 n with
      | Some i =>
          if (i_verified i =? s_ts s1)%N then Ok ([], s1)
          else mrepair f stk c n s1
      | None => mexecute f stk c n false empty_frame s1
      end
  end.

Lemma query_for_S : forall f stk c fr n s,
  mquery (S f) stk c fr n s =
  let c' := fq_caller c n s in
  let* fr1 := mq_reg c' fr n in
  if nmem n stk then
    match c' with
    | CQuery b _ _ _ => Ok (QCyclic, frame_mark_if fr1 (Some b) (upto stk n), upto stk n, s)
    | _ => Stuck
    end
  else
  match fast_path s c' fr1 n with
  | (FHit v, fr2) => Ok (if frame_in_scc fr2 then QCyclic else QValue v, fr2, [], s)
  | (FSlow sp, _) =>
      let* s1 := mq_tfc f stk c' sp n s in
      let* (marks, s2) := mq_process f stk c' sp n s1 in
      match fast_path s2 c' fr1 n with
      | (FHit v, fr2) =>
          let fr3 := frame_mark_if fr2 (caller_node c') marks in
          Ok (if frame_in_scc fr3 then QCyclic else QValue v, fr3, marks, s2)
      | (FSlow _, _) =>
          let* (o, fr2, m2, s3) := mquery f stk c' fr1 n s2 in
          Ok (o, frame_mark_if fr2 (caller_node c') marks, marks ++ m2, s3)
      end
  end.
Proof. reflexivity. Qed.

Definition mx_changed (s1 : state) (n : node) (recompute : bool) (v : Z) : bool :=
  match get_info s1 n with
  | Some i => recompute && is_fw_or_proj (nkind n) && negb (i_value i =? v)
  | None => false end.
Definition mx_tfc_changed (s1 : state) (n : node) (recompute : bool) (v : Z) (fr2 : frame) : bool :=
  match get_info s1 n with
  | Some i => recompute && kind_eqb (nkind n) KProjection && negb (mx_changed s1 n recompute v)
              && negb (nset_eqb (i_tfc i) (fr_tfc fr2))
  | None => false end.

Lemma execute_S : forall f stk c n rc fr0 s,
  mexecute (S f) stk c n rc fr0 s =
  let s0 := set_log s (n :: s_log s) in
  let me := CQuery n true (x_pedantic c) (fx_prev s n) in
  let* (out, fr1, marks, s1) :=
    match nkind n with
    | KExternal => Ok (EVal (world_get s0 (nidx n)), fr0, [], s0)
    | KInput => Panic 4
    | _ =>
        match body p n with
        | None => Panic 4
        | Some e => meval f (n :: stk) me e fr0 s0
        end
    end in
  let fr2 := if nmem n marks then fr_mark_scc fr1 else fr1 in
  let v := fx_value n out fr2 in
  let changed := mx_changed s1 n rc v in
  let tfc_changed := mx_tfc_changed s1 n rc v fr2 in
  let* s2 := if changed then (if c_follow c then propagate_o pord (S f * 4) s1 [n] else propagate_t_o pord (S f * 4) s1 [n])
             else if tfc_changed then propagate_t_o pord (S f * 4) s1 [n] else Ok s1 in
  Ok (marks, set_computed s2 n v fr2 changed rc).
Proof.
  intros. cbn [execute_o]. unfold mx_tfc_changed, mx_changed, fx_value, fx_prev, x_pedantic, c_follow.
  destruct c; destruct (get_info s n); reflexivity.
Qed.

Definition mread (f : nat) (stk : list node) (me : caller) (n : node) (fr : frame) (s : state)
  : res (eout * frame * list node * state) :=
  let* (o, fr', marks, s') := mquery f stk me (Some fr) n s in
  let fr'' := match fr' with Some x => x | None => fr end in
  match o with
  | QValue (Some z) => Ok (EVal z, fr'', marks, s')
  | _ => Ok (EUnwind, fr'', marks, s')
  end.
Definition mbin (f : nat) (stk : list node) (me : caller) (a b : expr) (op : Z -> Z -> Z)
  (fr : frame) (s : state) : res (eout * frame * list node * state) :=
  let* (x, fr1, m1, s1) := meval f stk me a fr s in
  match x with
  | EUnwind => Ok (EUnwind, fr1, m1, s1)
  | EVal xv =>
      let* (y, fr2, m2, s2) := meval f stk me b fr1 s1 in
      match y with
      | EUnwind => Ok (EUnwind, fr2, m1 ++ m2, s2)
      | EVal yv => Ok (EVal (op xv yv), fr2, m1 ++ m2, s2)
      end
  end.

(** the members of an unordered group are read in list order *)
Section Group.
Variables (f : nat) (stk : list node) (me : caller).
Fixpoint mgroup (ns : list node) (acc : Z) (fr : frame) (ms : list node) (s : state)
  : res (eout * frame * list node * state) :=
  match ns with
  | [] => Ok (EVal acc, fr, ms, s)
  | n :: r =>
      let* (x, fr1, m1, s1) := mread f stk me n fr s in
      match x with
      | EUnwind => Ok (EUnwind, fr1, ms ++ m1, s1)
      | EVal z => mgroup r (acc + z) fr1 (ms ++ m1) s1
      end
  end.
End Group.

Lemma eval_S : forall f stk me e fr s,
  meval (S f) stk me e fr s =
  match e with
  | EConst z => Ok (EVal z, fr, [], s)
  | ERead n => mread f stk me n fr s
  | EAdd a b => mbin f stk me a b Z.add fr s
  | EMul a b => mbin f stk me a b Z.mul fr s
  | ELt a b => mbin f stk me a b (fun x y => if x <? y then 1 else 0) fr s
  | EMod a m =>
      let* (x, fr1, m1, s1) := meval f stk me a fr s in
      match x with EUnwind => Ok (EUnwind, fr1, m1, s1) | EVal xv => Ok (EVal (xv mod m), fr1, m1, s1) end
  | EIf c a b =>
      let* (x, fr1, m1, s1) := meval f stk me c fr s in
      match x with
      | EUnwind => Ok (EUnwind, fr1, m1, s1)
      | EVal xv =>
          let* (y, fr2, m2, s2) := meval f stk me (if xv =? 0 then b else a) fr1 s1 in
          Ok (y, fr2, m1 ++ m2, s2)
      end
  | EGroup ns =>
      let* (x, fr1, m1, s1) := mgroup f stk me ns 0 (fr_set_unordered fr true) [] s in
      Ok (x, fr_set_unordered fr1 false, m1, s1)
  end.
Proof. intros f stk me e fr s. destruct e; reflexivity. Qed.

Lemma repair_S : forall f stk c n s,
  mrepair (S f) stk c n s =
  match get_info s n with
  | None => Panic 2
  | Some i =>
      let* (d, fr1, marks, s1) :=
        mwalk f n stk (x_pedantic c) i (all_callees (i_fwd i)) false [] empty_frame [] s in
      let fr2 := if nmem n marks then fr_mark_scc fr1 else fr1 in
      match d with
      | DRecompute =>
          let* (m2, s2) := mexecute f stk c n true (fr_clear fr2) s1 in
          Ok (marks ++ m2, s2)
      | DClean false cleaned => Ok (marks, clean_query s1 n cleaned None)
      | DClean true cleaned => Ok (marks, clean_query s1 n cleaned (Some (new_tfc_of s1 i)))
      end
  end.
Proof. intros. cbn [repair_o]. destruct (get_info s n); reflexivity. Qed.

Definition proj_callers (s : state) (n : node) : list node :=
  filter (fun x => kind_eqb (nkind x) KProjection) (callers_of s n).

Lemma backward_S : forall f stk n s,
  mbackward (S f) stk n s =
  let* s1 := mbp f stk (bord s n (proj_callers s n)) s in Ok (clear_pending s1 n).
Proof.
  intros. cbn [backward_o]. unfold proj_callers.
  match goal with |- match ?X with _ => _ end = match ?Y with _ => _ end => change X with Y; destruct Y end;
    try reflexivity.
  unfold clear_pending. destruct (get_info a n); reflexivity.
Qed.

End Unfold.
