(** C06: the INCREMENTAL version of [MdlCyc.model_cyclic_fresh] is false (recorded finding
    c06_incremental_scc_membership): on an engine that is not fresh, membership in a strongly
    connected component is not re-established - a cycle that is formed while a query is repaired,
    or a member of a cycle that is re-executed alone, yields values that differ from what a
    from-scratch evaluation with cycle defaults ([cyc_spec]) gives.  The two witnesses are the
    ones the harness replays on the real engine on every run (the model agrees with the engine
    on them).  The spec values are obtained from the fresh theorem applied to the single-session
    history with the same inputs, plus the determinism of [cyc_spec]. *)
From QV Require Import Common.Prelude Engine.Model Engine.Core Engine.CoreSpec Engine.MdlSpec Engine.MdlCyc.
Open Scope Z_scope.

(** histories of input sessions (without refresh) and queries *)
Definition cyc_op_in_scope (o : op) : Prop :=
  match o with OSession _ false => True | OQuery _ => True | _ => False end.

Definition model_cyclic_incremental_statement : Prop :=
  forall p ops i n r z,
    wf_cyc p -> Forall cyc_op_in_scope ops -> (cyc_fuel p <= fuel0)%nat ->
    nth_error ops i = Some (OQuery n) -> alookup p n <> None ->
    inputs_cover p (inputs_after (firstn i ops)) ->
    nth_error (run_history p init_state ops) i = Some r -> r_out r = RValue z ->
    cyc_spec p (inputs_after (firstn i ops)) n z.

(** the from-scratch value, by a fresh run with the same inputs *)
Lemma cyc_spec_by_fresh_run : forall p sets n z,
  wf_cyc p -> inputs_cover p (inputs_after [OSession sets false]) -> alookup p n <> None ->
  (cyc_fuel p <= fuel0)%nat ->
  (exists r, nth_error (run_history p init_state [OSession sets false; OQuery n]) 1 = Some r /\ r_out r = RValue z) ->
  cyc_spec p (inputs_after [OSession sets false]) n z.
Proof.
  intros p sets n z Hwf Hcov Hn Hf (r & Hr & Hz).
  destruct (model_cyclic_fresh p sets n [] r Hwf Hcov Hn Hf Hr) as (v & Hv & Ho & _).
  rewrite Hz in Ho. inversion Ho. subst. exact Hv.
Qed.

Ltac wcases H := repeat (destruct H as [H|H]; [inversion H; subst; clear H|]); try destruct H.
Ltac wreads Hd := cbn in Hd; repeat (destruct Hd as [Hd|Hd]; [subst|]); try destruct Hd.

(** * witness 1: a cycle formed under repair
    N0 = N1 + 10; N1 = if I0 mod 2 then N0 + 20 else I0 * 200; N2 = N0 + 1000.
    With I0 = 4 there is no cycle (N1 = 800, N0 = 810, N2 = 1810); the session I0 = 1 closes the
    cycle N0 <-> N1.  The query of N1 re-executes N1, which reads N0 - whose repair finds its only
    dependency N1 on the stack, and is "cleaned" with its OLD value 810 - so N0 keeps 810 and N2
    keeps 1810, where a from-scratch evaluation gives the defaults: N0 = -1, N2 = 999. *)
Definition w1_N (k : N) := mkNode KNormal k.
Definition w1_prog : program :=
  [ (w1_N 0, EAdd (ERead (w1_N 1)) (EConst 10));
    (w1_N 1, EIf (EMod (ERead (mkNode KInput 0)) 2) (EAdd (ERead (w1_N 0)) (EConst 20)) (EMul (ERead (mkNode KInput 0)) (EConst 200)));
    (w1_N 2, EAdd (ERead (w1_N 0)) (EConst 1000)) ].
Definition w1_hist : list op :=
  [ OSession [(0%N, 4)] false; OQuery (w1_N 2); OSession [(0%N, 1)] false; OQuery (w1_N 1); OQuery (w1_N 0); OQuery (w1_N 2) ].
Example w1_prog_wf : wf_cyc w1_prog.
Proof.
  split.
  - intros n e H. wcases H; reflexivity.
  - intros n e d H Hd. wcases H; wreads Hd; (left; reflexivity) || (right; split; [reflexivity|discriminate]).
  - intros n e d H K. wcases H; discriminate K.
Qed.
Lemma w1_cover : forall sets, input_get (inputs_after [OSession sets false]) 0 <> None ->
  inputs_cover w1_prog (inputs_after [OSession sets false]).
Proof. intros sets Hs n e d H Hd Kd. wcases H; wreads Hd; try discriminate Kd; exact Hs. Qed.
Example w1_cycle_formed_under_repair :
  map r_out (run_history w1_prog init_state w1_hist) =
    [ RSession [SFresh]; RValue 1810; RSession [SUpdated]; RValue (-1); RValue 810; RValue 1810 ] /\
  cyc_spec w1_prog (inputs_after (firstn 4 w1_hist)) (w1_N 0) (-1) /\
  cyc_spec w1_prog (inputs_after (firstn 5 w1_hist)) (w1_N 2) 999.
Proof.
  split; [vm_compute; reflexivity|].
  assert (E4 : inputs_after (firstn 4 w1_hist) = inputs_after [OSession [(0%N, 1)] false]) by (vm_compute; reflexivity).
  assert (E5 : inputs_after (firstn 5 w1_hist) = inputs_after [OSession [(0%N, 1)] false]) by (vm_compute; reflexivity).
  rewrite E4, E5.
  split; apply cyc_spec_by_fresh_run; try exact w1_prog_wf; try (apply w1_cover; vm_compute; discriminate);
    try discriminate; try (vm_compute; lia); (eexists; split; [vm_compute; reflexivity|reflexivity]).
Qed.

(** * witness 2: a member of a cycle re-executed alone reads its partner's default as a value
    (program and history as found by the harness).  N2 = N3 mod 5 and N3 (which reads N2) lie on
    a cycle, N1 is a self loop; on the fresh engine (operation 3) every member takes the default
    -1.  After the session that updates I3, the query of N3 at operation 9 re-executes N3 without
    its partner: it reads the stored default of N2 as an ordinary value and answers 3, where a
    from-scratch evaluation under the same inputs still gives -1. *)
Definition w2_N (k : N) := mkNode KNormal k.
Definition w2_I (k : N) := mkNode KInput k.
Definition w2_prog : program :=
  [ (w2_N 0, EMod (EMul (EConst 4) (EAdd (ERead (w2_I 2)) (ELt (ERead (w2_I 0)) (ERead (w2_I 0))))) 2);
    (w2_N 1, EMod (ERead (w2_N 1)) 5);
    (w2_N 2, EMod (ERead (w2_N 3)) 5);
    (w2_N 3, EMod (EAdd (EIf (EMod (EAdd (ERead (w2_N 2)) (ERead (w2_I 2))) 2) (EAdd (ERead (w2_N 2)) (ERead (w2_N 1))) (ERead (w2_I 1)))
                        (EMul (EConst 0) (EIf (EMod (ERead (w2_I 3)) 2) (ERead (w2_I 1)) (EConst 0)))) 5);
    (w2_N 4, EMod (EIf (EMod (EAdd (EMul (ERead (w2_N 2)) (ERead (w2_N 2))) (ERead (w2_N 0))) 2)
                       (EAdd (EIf (EMod (ERead (w2_N 2)) 2) (ERead (w2_N 3)) (ERead (w2_I 3)))
                             (EMul (EConst 0) (EIf (EMod (ERead (w2_N 4)) 2) (ERead (w2_N 2)) (ERead (w2_N 2)))))
                       (ERead (w2_N 2))) 100) ].
Definition w2_hist : list op :=
  [ OSession [(0%N, 1); (1%N, 2); (2%N, 4); (3%N, 5)] false; OSession [] false;
    OSession [(1%N, 2); (3%N, 5); (0%N, 1)] false; OQuery (w2_N 2);
    OSession [(2%N, 4); (2%N, 4); (3%N, 1)] false; OQuery (w2_N 2); OQuery (w2_N 4);
    OSession [(2%N, 4); (2%N, 4)] false; OSession [] false;
    OQuery (w2_N 3); OQuery (w2_N 4); OQuery (w2_N 3); OQuery (w2_N 3); OQuery (w2_N 4); OQuery (w2_N 4);
    OQuery (w2_N 2); OQuery (w2_N 4) ].
Example w2_prog_wf : wf_cyc w2_prog.
Proof.
  split.
  - intros n e H. wcases H; reflexivity.
  - intros n e d H Hd. wcases H; wreads Hd; (left; reflexivity) || (right; split; [reflexivity|discriminate]).
  - intros n e d H K. wcases H; discriminate K.
Qed.
Lemma w2_cover : forall sets, (forall k, In k [0%N; 1%N; 2%N; 3%N] -> input_get (inputs_after [OSession sets false]) k <> None) ->
  inputs_cover w2_prog (inputs_after [OSession sets false]).
Proof. intros sets Hs n e d H Hd Kd. apply Hs. wcases H; wreads Hd; try discriminate Kd; cbn; auto 6. Qed.
Definition w2_sets : list (N * Z) := [(1%N, 2); (0%N, 1); (3%N, 1); (2%N, 4)].
Example w2_cycle_member_reexecuted_alone :
  map r_out (run_history w2_prog init_state w2_hist) =
    [ RSession [SFresh; SFresh; SFresh; SFresh]; RSession []; RSession [SUnchanged; SUnchanged; SUnchanged];
      RValue (-1); RSession [SUnchanged; SUnchanged; SUpdated]; RValue (-1); RValue (-1);
      RSession [SUnchanged; SUnchanged]; RSession [];
      RValue 3; RValue (-1); RValue 3; RValue 3; RValue (-1); RValue (-1); RValue (-1); RValue (-1) ] /\
  cyc_spec w2_prog (inputs_after (firstn 9 w2_hist)) (w2_N 3) (-1).
Proof.
  split; [vm_compute; reflexivity|].
  assert (E9 : inputs_after (firstn 9 w2_hist) = inputs_after [OSession w2_sets false]) by (vm_compute; reflexivity).
  rewrite E9. apply cyc_spec_by_fresh_run; try exact w2_prog_wf; try discriminate; try (vm_compute; lia).
  - apply w2_cover. intros k [<-|[<-|[<-|[<-|[]]]]]; vm_compute; discriminate.
  - eexists. split; [vm_compute; reflexivity|reflexivity].
Qed.

(** * the refutation (each witness alone suffices; both are used) *)
Theorem model_cyclic_incremental_refuted : ~ model_cyclic_incremental_statement.
Proof.
  intro H.
  (* witness 1, operation 4: the model answers N0 = 810 *)
  assert (H1 : cyc_spec w1_prog (inputs_after (firstn 4 w1_hist)) (w1_N 0) 810).
  { assert (Hr : exists r, nth_error (run_history w1_prog init_state w1_hist) 4 = Some r /\ r_out r = RValue 810)
      by (eexists; split; [vm_compute; reflexivity|reflexivity]).
    destruct Hr as (r & Hr & Hz).
    apply (H w1_prog w1_hist 4%nat (w1_N 0) r 810 w1_prog_wf); auto.
    - repeat constructor.
    - vm_compute; lia.
    - discriminate.
    - assert (E4 : inputs_after (firstn 4 w1_hist) = inputs_after [OSession [(0%N, 1)] false]) by (vm_compute; reflexivity).
      rewrite E4. apply w1_cover. vm_compute. discriminate. }
  destruct w1_cycle_formed_under_repair as (_ & S1 & _).
  pose proof (cyc_spec_det _ _ _ _ _ H1 S1). discriminate.
Qed.
(** the second witness refutes the statement as well *)
Theorem model_cyclic_incremental_refuted_2 : ~ model_cyclic_incremental_statement.
Proof.
  intro H.
  assert (H2 : cyc_spec w2_prog (inputs_after (firstn 9 w2_hist)) (w2_N 3) 3).
  { assert (Hr : exists r, nth_error (run_history w2_prog init_state w2_hist) 9 = Some r /\ r_out r = RValue 3)
      by (eexists; split; [vm_compute; reflexivity|reflexivity]).
    destruct Hr as (r & Hr & Hz).
    apply (H w2_prog w2_hist 9%nat (w2_N 3) r 3 w2_prog_wf); auto.
    - repeat constructor.
    - vm_compute; lia.
    - discriminate.
    - assert (E9 : inputs_after (firstn 9 w2_hist) = inputs_after [OSession w2_sets false]) by (vm_compute; reflexivity).
      rewrite E9. apply w2_cover. intros k [<-|[<-|[<-|[<-|[]]]]]; vm_compute; discriminate. }
  destruct w2_cycle_member_reexecuted_alone as (_ & S2).
  pose proof (cyc_spec_det _ _ _ _ _ H2 S2). discriminate.
Qed.

Print Assumptions model_cyclic_incremental_refuted.
Print Assumptions model_cyclic_incremental_refuted_2.
