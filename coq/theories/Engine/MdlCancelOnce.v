(** C05 "at most once" under cancellation, on the full engine model: within one operation
    (a user operation or a dropped partial request) no node is executed twice, and a node executed
    by any operation - cancelled work included - is not executed again before the next input
    session.  Unconditional in the program (no well-formedness needed) and in the partial
    requests (arbitrary stack, caller, frame; no [mpartial_ok]) and in the history (a refreshing
    session logs every external input it re-reads, once: [s_ext] has no duplicates). *)
From QV Require Import Common.Prelude Engine.Model Engine.Core Engine.CoreSpec Engine.CoreInvBase
  Engine.Fw Engine.FwBase Engine.FwMono Engine.FwOnce Engine.MdlSpec Engine.MdlBase Engine.MdlMono Engine.MdlCommit
  Engine.MdlWorld Engine.MdlSound Engine.MdlOnce Engine.MdlCancel.
Open Scope Z_scope.

Definition mop_once_scope (o : mop) : Prop :=
  match o with MUser (OSession _ refresh) => refresh = false | _ => True end.
Definition mno_session_between (ops : list mop) (j i : nat) : Prop :=
  forall k sets b, (j <= k <= i)%nat -> nth_error ops k <> Some (MUser (OSession sets b)).

Section COnce.
Variable p : program.
Variables tord bord pord : state -> node -> list node -> list node.
Variables fuel pfuel : nat.

(** a session logs the external inputs it refreshes, each once: [s_ext] has no duplicates *)
Lemma session_execs : forall s sets b s' x,
  step_f tord bord pord fuel pfuel p s (OSession sets b) = (s', x) ->
  s_ext s' = s_ext s /\ (NoDup (s_ext s) -> NoDup (r_execs x)).
Proof.
  intros s sets b s' x H. rewrite step_f_session_gen in H. cbv zeta in H.
  destruct (fold_left fsess_step sets (set_ts (set_log s []) (s_ts (set_log s []) + 1)%N, [], []))
    as [[s1 rs] batch] eqn:Ef.
  pose proof (sess_fold_ext _ _ _ _ _ _ _ Ef) as X1. pose proof (sess_fold_log _ _ _ _ _ _ _ Ef) as L1.
  cbn [set_ts set_log s_ext s_log] in X1, L1.
  destruct (if b then fold_left refresh_step (s_ext s1) (s1, batch) else (s1, batch)) as [s2 batch2] eqn:Er.
  assert (X2 : s_ext s2 = s_ext s /\ s_log s2 = (if b then rev (s_ext s) else [])).
  { destruct b.
    - pose proof (refresh_fold_ext0 _ _ _ _ _ Er) as X. pose proof (refresh_fold_log _ _ _ _ _ Er) as L.
      rewrite X, L, L1, X1, app_nil_r. auto.
    - inversion Er. subst. auto. }
  destruct X2 as [X2 L2].
  destruct (propagate_o pord pfuel (set_visited (set_stat s2 0%N) []) batch2) as [s4| | |] eqn:Ep;
    inversion H; subst; cbn [set_visited set_stat s_ext r_execs]; try (split; [exact X2|intros _; constructor]).
  destruct (propagate_o_we _ _ _ _ _ Ep) as [_ Nx]. apply propagate_o_same in Ep. destruct Ep as (_ & _ & _ & L & _).
  cbn [set_visited set_stat s_ext s_log] in Nx, L. split; [congruence|]. intro Hnd. rewrite L, L2.
  destruct b; [rewrite rev_involutive; exact Hnd|constructor].
Qed.

(** every operation keeps [s_ext] duplicate-free *)
Lemma mop_ext_nodup : forall s o, NoDup (s_ext s) -> NoDup (s_ext (fst (mstep_cancel_fop tord bord pord fuel pfuel p s o))).
Proof.
  intros s o Hnd. destruct o as [o|stk c fr n]; cbn [mstep_cancel_fop].
  - destruct (step_f tord bord pord fuel pfuel p s o) as [s' x] eqn:Es. cbn [fst].
    destruct o as [sets b|n|w v|].
    + rewrite (proj1 (session_execs _ _ _ _ _ Es)). exact Hnd.
    + unfold step_f in Es.
      destruct (query_for_o p None tord bord pord fuel [] CUser None n (set_log s [])) as [[[[o fr] ms] s1]| | |] eqn:Eq;
        try (inversion Es; subst; exact Hnd).
      apply (proj1 (mworld_all p tord bord pord fuel)) in Eq. destruct Eq as [_ Q].
      destruct o as [[z|]|]; inversion Es; subst; apply Q; exact Hnd.
    + cbn in Es. inversion Es. subst. exact Hnd.
    + cbn in Es. inversion Es. subst. exact Hnd.
  - cbn [fst]. unfold mpartial_fop.
    destruct (query_for_o p None tord bord pord fuel stk c fr n (set_log s [])) as [[[[o fr'] ms] s1]| | |] eqn:Eq; try exact Hnd.
    apply (proj1 (mworld_all p tord bord pord fuel)) in Eq. destruct Eq as [_ Q]. apply Q. exact Hnd.
Qed.

(** what an operation logs has no duplicates; unless it is a session, it was not verified before
    the operation and is verified after it *)
Lemma mop_execs_spec : forall s o,
  (NoDup (s_ext s) -> NoDup (mop_execs_op tord bord pord fuel pfuel p s o)) /\
  ((forall sets b, o <> MUser (OSession sets b)) ->
   forall m, In m (mop_execs_op tord bord pord fuel pfuel p s o) ->
    sverified (fst (mstep_cancel_fop tord bord pord fuel pfuel p s o)) m /\ ~ sverified s m).
Proof.
  intros s o. destruct o as [o|stk c fr n]; cbn [mop_execs_op mstep_cancel_fop].
  - destruct (step_f tord bord pord fuel pfuel p s o) as [s' x] eqn:Es. cbn [fst snd].
    destruct o as [sets b|n|w v|].
    + split; [apply (proj2 (session_execs _ _ _ _ _ Es))|]. intros Hns. exfalso. eapply Hns. reflexivity.
    + destruct (mstep_query_mono p tord bord pord fuel pfuel _ _ _ _ Es) as [[_ E]|[HM E]]; rewrite E;
        [split; [intros _; constructor|intros _ m []]|].
      destruct (mr_log _ _ _ HM) as [new [L [N P]]]. cbn [set_log s_log] in L. rewrite app_nil_r in L. rewrite L.
      split; [intros _; apply NoDup_rev; exact N|]. intros _ m Hm. apply in_rev in Hm.
      destruct (P m Hm) as (_ & A & B). split; [exact B|exact A].
    + cbn in Es. inversion Es. subst. split; [intros _; constructor|intros _ m []].
    + cbn in Es. inversion Es. subst. split; [intros _; constructor|intros _ m []].
  - unfold mpartial_fop.
    destruct (query_for_o p None tord bord pord fuel stk c fr n (set_log s [])) as [[[[o fr'] ms] s1]| | |] eqn:Eq; cbn [fst set_log s_log rev];
      try (split; [intros _; constructor|intros _ m []]).
    apply (proj1 (mmono_all p tord bord pord fuel)) in Eq.
    destruct (mr_log _ _ _ Eq) as [new [L [N P]]]. cbn [set_log s_log] in L. rewrite app_nil_r in L. rewrite L.
    split; [intros _; apply NoDup_rev; exact N|]. intros _ m Hm. apply in_rev in Hm.
    destruct (P m Hm) as (_ & A & B). split; [exact B|exact A].
Qed.

Lemma mop_keeps_verified : forall s o m,
  (forall sets b, o <> MUser (OSession sets b)) ->
  sverified s m -> sverified (fst (mstep_cancel_fop tord bord pord fuel pfuel p s o)) m.
Proof.
  intros s o m Hns Hv. destruct o as [o|stk c fr n]; cbn [mstep_cancel_fop].
  - destruct (step_f tord bord pord fuel pfuel p s o) as [s' x] eqn:Es. cbn [fst].
    destruct o as [sets b|n|w v|].
    + exfalso. eapply Hns. reflexivity.
    + destruct (mstep_query_mono p tord bord pord fuel pfuel _ _ _ _ Es) as [[-> _]|[HM _]]; [exact Hv|].
      eapply sverified_mono; [exact HM|]. exact Hv.
    + cbn in Es. inversion Es. subst. exact Hv.
    + cbn in Es. inversion Es. subst. exact Hv.
  - cbn [fst]. unfold mpartial_fop.
    destruct (query_for_o p None tord bord pord fuel stk c fr n (set_log s [])) as [[[[o fr'] ms] s1]| | |] eqn:Eq; try exact Hv.
    apply (proj1 (mmono_all p tord bord pord fuel)) in Eq. eapply sverified_mono; [exact Eq|]. exact Hv.
Qed.

Lemma mexecs_nodup : forall ops s i l, NoDup (s_ext s) ->
  nth_error (mexecs_cancel_fop tord bord pord fuel pfuel p s ops) i = Some l -> NoDup l.
Proof.
  induction ops as [|o rest IH]; intros s i l Hnd H; [destruct i; discriminate|].
  cbn [mexecs_cancel_fop] in H. destruct i as [|i].
  - cbn in H. inversion H. subst. apply mop_execs_spec. exact Hnd.
  - cbn [nth_error] in H. eapply IH; [|exact H]. apply mop_ext_nodup. exact Hnd.
Qed.

Lemma mexecs_verified_not_executed : forall ops s i m l,
  sverified s m ->
  (forall k sets b, (k <= i)%nat -> nth_error ops k <> Some (MUser (OSession sets b))) ->
  nth_error (mexecs_cancel_fop tord bord pord fuel pfuel p s ops) i = Some l -> ~ In m l.
Proof.
  induction ops as [|o rest IH]; intros s i m l Hv Hns H Hm; [destruct i; discriminate|].
  assert (Ho : forall sets b, o <> MUser (OSession sets b)).
  { intros sets b ->. apply (Hns 0%nat sets b); [lia|reflexivity]. }
  cbn [mexecs_cancel_fop] in H. destruct i as [|i].
  - cbn in H. inversion H. subst. destruct (proj2 (mop_execs_spec s o) Ho m Hm) as [_ K]. contradiction.
  - cbn [nth_error] in H. apply (IH _ i m l) in H; auto.
    + apply mop_keeps_verified; [exact Ho|exact Hv].
    + intros k sets b Hk. apply (Hns (S k) sets b). lia.
Qed.

Lemma mexecs_once : forall ops s j i m lj li,
  (j < i)%nat ->
  nth_error (mexecs_cancel_fop tord bord pord fuel pfuel p s ops) j = Some lj -> In m lj ->
  nth_error (mexecs_cancel_fop tord bord pord fuel pfuel p s ops) i = Some li -> In m li ->
  ~ mno_session_between ops j i.
Proof.
  induction ops as [|o rest IH]; intros s j i m lj li Hji Hj Hmj Hi Hmi Hns; [destruct j; discriminate|].
  cbn [mexecs_cancel_fop] in Hj, Hi. destruct i as [|i]; [lia|]. cbn [nth_error] in Hi.
  destruct j as [|j].
  - assert (Ho : forall sets b, o <> MUser (OSession sets b)).
    { intros sets b ->. apply (Hns 0%nat sets b); [lia|reflexivity]. }
    cbn in Hj. inversion Hj. subst. destruct (proj2 (mop_execs_spec s o) Ho m Hmj) as [Hv _].
    eapply (mexecs_verified_not_executed rest _ i m li Hv); eauto.
    intros k sets b Hk. apply (Hns (S k) sets b). lia.
  - cbn [nth_error] in Hj. eapply (IH _ j i m lj li); eauto; [lia|].
    intros k sets b Hk. apply (Hns (S k) sets b). lia.
Qed.
End COnce.

(** shape of [C05_core_cancel_once]; EVERY history (refreshing sessions included: the list of
    external inputs has no duplicates), every order oracle (no hypothesis on them) *)
Definition model_cancel_once_all_statement_fop : Prop :=
  forall (tord bord pord : oracle) fuel pfuel p ops i j m lj li,
    let ex := mexecs_cancel_fop tord bord pord fuel pfuel p init_state ops in
    (nth_error ex i = Some li -> NoDup li) /\
    ((j < i)%nat -> nth_error ex j = Some lj -> In m lj -> nth_error ex i = Some li -> In m li ->
     ~ mno_session_between ops j i).
Theorem model_cancel_once_all_fop : model_cancel_once_all_statement_fop.
Proof.
  intros tord bord pord fuel pfuel p ops i j m lj li. cbv zeta. split.
  - intro H. eapply mexecs_nodup; [|exact H]. constructor.
  - intros. eapply mexecs_once; eauto.
Qed.
(** the schedule in list order, the fuel the model fixes *)
Definition model_cancel_once_all_statement : Prop :=
  forall p ops i j m lj li,
    let ex := mexecs_cancel_f fuel0 4000 p init_state ops in
    (nth_error ex i = Some li -> NoDup li) /\
    ((j < i)%nat -> nth_error ex j = Some lj -> In m lj -> nth_error ex i = Some li -> In m li ->
     ~ mno_session_between ops j i).
Theorem model_cancel_once_all : model_cancel_once_all_statement.
Proof. intros p. exact (model_cancel_once_all_fop ord_id ord_id ord_id fuel0 4000%nat p). Qed.

(** the earlier statements, with the (now superfluous) restriction to sessions without refresh *)
Definition model_cancel_once_statement_fop : Prop :=
  forall (tord bord pord : oracle) fuel pfuel p ops i j m lj li, Forall mop_once_scope ops ->
    let ex := mexecs_cancel_fop tord bord pord fuel pfuel p init_state ops in
    (nth_error ex i = Some li -> NoDup li) /\
    ((j < i)%nat -> nth_error ex j = Some lj -> In m lj -> nth_error ex i = Some li -> In m li ->
     ~ mno_session_between ops j i).
Theorem model_cancel_once_fop : model_cancel_once_statement_fop.
Proof. intros tord bord pord fuel pfuel p ops i j m lj li _. apply model_cancel_once_all_fop. Qed.
(** the dirty propagation in list order *)
Definition model_cancel_once_statement_fo : Prop :=
  forall (tord bord : oracle) fuel pfuel p ops i j m lj li, Forall mop_once_scope ops ->
    let ex := mexecs_cancel_fo tord bord fuel pfuel p init_state ops in
    (nth_error ex i = Some li -> NoDup li) /\
    ((j < i)%nat -> nth_error ex j = Some lj -> In m lj -> nth_error ex i = Some li -> In m li ->
     ~ mno_session_between ops j i).
Theorem model_cancel_once_fo : model_cancel_once_statement_fo.
Proof. intros tord bord. exact (model_cancel_once_fop tord bord ord_id). Qed.
(** the schedule in list order *)
Definition model_cancel_once_statement_f : Prop :=
  forall fuel pfuel p ops i j m lj li, Forall mop_once_scope ops ->
    let ex := mexecs_cancel_f fuel pfuel p init_state ops in
    (nth_error ex i = Some li -> NoDup li) /\
    ((j < i)%nat -> nth_error ex j = Some lj -> In m lj -> nth_error ex i = Some li -> In m li ->
     ~ mno_session_between ops j i).
Theorem model_cancel_once_f : model_cancel_once_statement_f.
Proof. intros fuel pfuel p. exact (model_cancel_once_fop ord_id ord_id ord_id fuel pfuel p). Qed.
Definition model_cancel_once_statement : Prop :=
  forall p ops i j m lj li, Forall mop_once_scope ops ->
    let ex := mexecs_cancel_f fuel0 4000 p init_state ops in
    (nth_error ex i = Some li -> NoDup li) /\
    ((j < i)%nat -> nth_error ex j = Some lj -> In m lj -> nth_error ex i = Some li -> In m li ->
     ~ mno_session_between ops j i).
Theorem model_cancel_once : model_cancel_once_statement.
Proof. intros p. apply model_cancel_once_f. Qed.

Print Assumptions model_cancel_once_all_fop.
Print Assumptions model_cancel_once_all.
Print Assumptions model_cancel_once_fop.
Print Assumptions model_cancel_once.
