(** C05 "at most once" under cancellation, on the full engine model: within one operation
    (a user operation or a dropped partial request) no node is executed twice, and a node executed
    by any operation - cancelled work included - is not executed again before the next input
    session.  Unconditional in the program (no well-formedness needed) and in the partial
    requests (arbitrary stack, caller, frame; no [mpartial_ok]); the only restriction on the
    history is that sessions do not refresh external inputs (a refresh logs every external
    input it re-reads). *)
From QV Require Import Common.Prelude Engine.Model Engine.Core Engine.CoreSpec Engine.CoreInvBase
  Engine.Fw Engine.FwBase Engine.FwMono Engine.FwOnce Engine.MdlSpec Engine.MdlBase Engine.MdlMono Engine.MdlCommit
  Engine.MdlSound Engine.MdlOnce Engine.MdlCancel.
Open Scope Z_scope.

Definition mop_once_scope (o : mop) : Prop :=
  match o with MUser (OSession _ refresh) => refresh = false | _ => True end.
Definition mno_session_between (ops : list mop) (j i : nat) : Prop :=
  forall k sets b, (j <= k <= i)%nat -> nth_error ops k <> Some (MUser (OSession sets b)).

Section COnce.
Variable p : program.
Variables tord bord : state -> node -> list node -> list node.
Variables fuel pfuel : nat.

(** what an operation logs was not verified before it and is verified after it; the log has no
    duplicates *)
Lemma mop_execs_spec : forall s o, mop_once_scope o ->
  NoDup (mop_execs_o tord bord fuel pfuel p s o) /\
  forall m, In m (mop_execs_o tord bord fuel pfuel p s o) ->
    sverified (fst (mstep_cancel_fo tord bord fuel pfuel p s o)) m /\ ~ sverified s m.
Proof.
  intros s o Hsc. destruct o as [o|stk c fr n]; cbn [mop_execs_o mstep_cancel_fo].
  - destruct (step_f tord bord fuel pfuel p s o) as [s' x] eqn:Es. cbn [fst snd].
    destruct o as [sets b|n|w v|].
    + cbn in Hsc. subst b. rewrite (step_f_session_execs _ _ _ _ _ _ _ _ _ Es). split; [constructor|intros m []].
    + destruct (mstep_query_mono p tord bord fuel pfuel _ _ _ _ Es) as [[_ E]|[HM E]]; rewrite E; [split; [constructor|intros m []]|].
      destruct (mr_log _ _ _ HM) as [new [L [N P]]]. cbn [set_log s_log] in L. rewrite app_nil_r in L. rewrite L.
      split; [apply NoDup_rev; exact N|]. intros m Hm. apply in_rev in Hm.
      destruct (P m Hm) as (_ & A & B). split; [exact B|exact A].
    + cbn in Es. inversion Es. subst. split; [constructor|intros m []].
    + cbn in Es. inversion Es. subst. split; [constructor|intros m []].
  - unfold mpartial_fo.
    destruct (query_for_o p None tord bord fuel stk c fr n (set_log s [])) as [[[[o fr'] ms] s1]| | |] eqn:Eq; cbn [fst set_log s_log rev];
      try (split; [constructor|intros m []]).
    apply (proj1 (mmono_all p tord bord fuel)) in Eq.
    destruct (mr_log _ _ _ Eq) as [new [L [N P]]]. cbn [set_log s_log] in L. rewrite app_nil_r in L. rewrite L.
    split; [apply NoDup_rev; exact N|]. intros m Hm. apply in_rev in Hm.
    destruct (P m Hm) as (_ & A & B). split; [exact B|exact A].
Qed.

Lemma mop_keeps_verified : forall s o m,
  (forall sets b, o <> MUser (OSession sets b)) ->
  sverified s m -> sverified (fst (mstep_cancel_fo tord bord fuel pfuel p s o)) m.
Proof.
  intros s o m Hns Hv. destruct o as [o|stk c fr n]; cbn [mstep_cancel_fo].
  - destruct (step_f tord bord fuel pfuel p s o) as [s' x] eqn:Es. cbn [fst].
    destruct o as [sets b|n|w v|].
    + exfalso. eapply Hns. reflexivity.
    + destruct (mstep_query_mono p tord bord fuel pfuel _ _ _ _ Es) as [[-> _]|[HM _]]; [exact Hv|].
      eapply sverified_mono; [exact HM|]. exact Hv.
    + cbn in Es. inversion Es. subst. exact Hv.
    + cbn in Es. inversion Es. subst. exact Hv.
  - cbn [fst]. unfold mpartial_fo.
    destruct (query_for_o p None tord bord fuel stk c fr n (set_log s [])) as [[[[o fr'] ms] s1]| | |] eqn:Eq; try exact Hv.
    apply (proj1 (mmono_all p tord bord fuel)) in Eq. eapply sverified_mono; [exact Eq|]. exact Hv.
Qed.

Lemma mexecs_nodup : forall ops s i l, Forall mop_once_scope ops ->
  nth_error (mexecs_cancel_fo tord bord fuel pfuel p s ops) i = Some l -> NoDup l.
Proof.
  induction ops as [|o rest IH]; intros s i l Hsc H; [destruct i; discriminate|].
  inversion Hsc as [|? ? Ho Hr]; subst. cbn [mexecs_cancel_fo] in H. destruct i as [|i].
  - cbn in H. inversion H. subst. apply mop_execs_spec. assumption.
  - cbn [nth_error] in H. eapply IH; eauto.
Qed.

Lemma mexecs_verified_not_executed : forall ops s i m l, Forall mop_once_scope ops ->
  sverified s m ->
  (forall k sets b, (k <= i)%nat -> nth_error ops k <> Some (MUser (OSession sets b))) ->
  nth_error (mexecs_cancel_fo tord bord fuel pfuel p s ops) i = Some l -> ~ In m l.
Proof.
  induction ops as [|o rest IH]; intros s i m l Hsc Hv Hns H Hm; [destruct i; discriminate|].
  inversion Hsc as [|? ? Ho Hr]; subst. cbn [mexecs_cancel_fo] in H. destruct i as [|i].
  - cbn in H. inversion H. subst. destruct (proj2 (mop_execs_spec s o Ho) m Hm) as [_ K]. contradiction.
  - cbn [nth_error] in H. apply (IH _ i m l Hr) in H; auto.
    + apply mop_keeps_verified; [|exact Hv]. intros sets b ->. apply (Hns 0%nat sets b); [lia|reflexivity].
    + intros k sets b Hk. apply (Hns (S k) sets b). lia.
Qed.

Lemma mexecs_once : forall ops s j i m lj li, Forall mop_once_scope ops ->
  (j < i)%nat ->
  nth_error (mexecs_cancel_fo tord bord fuel pfuel p s ops) j = Some lj -> In m lj ->
  nth_error (mexecs_cancel_fo tord bord fuel pfuel p s ops) i = Some li -> In m li ->
  ~ mno_session_between ops j i.
Proof.
  induction ops as [|o rest IH]; intros s j i m lj li Hsc Hji Hj Hmj Hi Hmi Hns; [destruct j; discriminate|].
  inversion Hsc as [|? ? Ho Hr]; subst. cbn [mexecs_cancel_fo] in Hj, Hi. destruct i as [|i]; [lia|]. cbn [nth_error] in Hi.
  destruct j as [|j].
  - cbn in Hj. inversion Hj. subst. destruct (proj2 (mop_execs_spec s o Ho) m Hmj) as [Hv _].
    eapply (mexecs_verified_not_executed rest _ i m li Hr Hv); eauto.
    intros k sets b Hk. apply (Hns (S k) sets b). lia.
  - cbn [nth_error] in Hj. eapply (IH _ j i m lj li Hr); eauto; [lia|].
    intros k sets b Hk. apply (Hns (S k) sets b). lia.
Qed.
End COnce.

(** shape of [C05_core_cancel_once]; for every order oracle (no hypothesis on them) *)
Definition model_cancel_once_statement_fo : Prop :=
  forall (tord bord : oracle) fuel pfuel p ops i j m lj li, Forall mop_once_scope ops ->
    let ex := mexecs_cancel_fo tord bord fuel pfuel p init_state ops in
    (nth_error ex i = Some li -> NoDup li) /\
    ((j < i)%nat -> nth_error ex j = Some lj -> In m lj -> nth_error ex i = Some li -> In m li ->
     ~ mno_session_between ops j i).
Theorem model_cancel_once_fo : model_cancel_once_statement_fo.
Proof.
  intros tord bord fuel pfuel p ops i j m lj li Hsc. cbv zeta. split.
  - intro H. eapply mexecs_nodup; eauto.
  - intros. eapply mexecs_once; eauto.
Qed.
(** the schedule in list order *)
Definition model_cancel_once_statement_f : Prop :=
  forall fuel pfuel p ops i j m lj li, Forall mop_once_scope ops ->
    let ex := mexecs_cancel_f fuel pfuel p init_state ops in
    (nth_error ex i = Some li -> NoDup li) /\
    ((j < i)%nat -> nth_error ex j = Some lj -> In m lj -> nth_error ex i = Some li -> In m li ->
     ~ mno_session_between ops j i).
Theorem model_cancel_once_f : model_cancel_once_statement_f.
Proof. intros fuel pfuel p. exact (model_cancel_once_fo ord_id ord_id fuel pfuel p). Qed.
Definition model_cancel_once_statement : Prop :=
  forall p ops i j m lj li, Forall mop_once_scope ops ->
    let ex := mexecs_cancel_f fuel0 4000 p init_state ops in
    (nth_error ex i = Some li -> NoDup li) /\
    ((j < i)%nat -> nth_error ex j = Some lj -> In m lj -> nth_error ex i = Some li -> In m li ->
     ~ mno_session_between ops j i).
Theorem model_cancel_once : model_cancel_once_statement.
Proof. intros p. apply model_cancel_once_f. Qed.

Print Assumptions model_cancel_once_fo.
Print Assumptions model_cancel_once.
