(** Unconditional monotonicity facts of one request of the firewall fragment
    ([Engine/Fw.v]): the timestamp is constant, a node verified in this epoch keeps its entry
    (up to the "backward projection pending" mark), nodes on the computing stack are not
    touched, a stored node stays stored, every logged (= executed) node was not verified
    before and is verified afterwards, no node is logged twice.  These hold for every
    program and every fuel (no well-formedness, no invariant) and give [fw_once]. *)
From QV Require Import Common.Prelude Engine.Model Engine.Core Engine.CoreInvBase Engine.Fw Engine.FwBase.
Open Scope Z_scope.

(** equal up to the pending mark *)
Definition sbp (i i' : info) : Prop :=
  i_verified i' = i_verified i /\ i_value i' = i_value i /\ i_tfc i' = i_tfc i /\
  i_fwd i' = i_fwd i /\ i_obs i' = i_obs i.
Lemma sbp_refl : forall i, sbp i i.
Proof. intro i. repeat split. Qed.
Lemma sbp_trans : forall a b c, sbp a b -> sbp b c -> sbp a c.
Proof. intros a b c (A1 & A2 & A3 & A4 & A5) (B1 & B2 & B3 & B4 & B5). repeat split; congruence. Qed.

Record MonoR (stk : list node) (s s' : state) : Prop := {
  mr_ts : s_ts s' = s_ts s;
  mr_ver : forall m i, get_info s m = Some i -> i_verified i = s_ts s ->
             exists i', get_info s' m = Some i' /\ sbp i i';
  mr_stk : forall m, In m stk -> get_info s' m = get_info s m;
  mr_stored : forall m, get_info s m <> None -> get_info s' m <> None;
  mr_unch : forall m, get_info s' m = get_info s m \/ sverified s' m;
  mr_log : exists new, s_log s' = new ++ s_log s /\ NoDup new /\
             forall m, In m new -> ~ In m stk /\ ~ sverified s m /\ sverified s' m;
}.

Lemma MonoR_refl : forall stk s, MonoR stk s s.
Proof.
  intros stk s. split; auto.
  - intros m i Hi _. exists i. split; [exact Hi|apply sbp_refl].
  - exists []. split; [reflexivity|]. split; [constructor|]. intros m [].
Qed.

Lemma sverified_mono : forall stk s s' m, MonoR stk s s' -> sverified s m -> sverified s' m.
Proof.
  intros stk s s' m H [i [Hi Hv]]. destruct (mr_ver _ _ _ H m i Hi Hv) as [i' [Hi' (A & _)]].
  exists i'. split; [exact Hi'|]. rewrite A, (mr_ts _ _ _ H). exact Hv.
Qed.

Lemma MonoR_trans : forall stk s s1 s2, MonoR stk s s1 -> MonoR stk s1 s2 -> MonoR stk s s2.
Proof.
  intros stk s s1 s2 H1 H2. split.
  - rewrite (mr_ts _ _ _ H2). apply (mr_ts _ _ _ H1).
  - intros m i Hi Hv. destruct (mr_ver _ _ _ H1 m i Hi Hv) as [i1 [Hi1 S1]].
    assert (Hv1 : i_verified i1 = s_ts s1).
    { destruct S1 as (A & _). rewrite A, (mr_ts _ _ _ H1). exact Hv. }
    destruct (mr_ver _ _ _ H2 m i1 Hi1 Hv1) as [i2 [Hi2 S2]].
    exists i2. split; [exact Hi2|]. eapply sbp_trans; eauto.
  - intros m Hm. rewrite (mr_stk _ _ _ H2 m Hm). apply (mr_stk _ _ _ H1 m Hm).
  - intros m Hm. apply (mr_stored _ _ _ H2). apply (mr_stored _ _ _ H1). exact Hm.
  - intro m. destruct (mr_unch _ _ _ H2 m) as [E2|V2]; [|right; exact V2].
    destruct (mr_unch _ _ _ H1 m) as [E1|V1]; [left; congruence|].
    right. eapply sverified_mono; eauto.
  - destruct (mr_log _ _ _ H1) as [n1 [L1 [N1 P1]]]. destruct (mr_log _ _ _ H2) as [n2 [L2 [N2 P2]]].
    exists (n2 ++ n1). split; [rewrite L2, L1, app_assoc; reflexivity|]. split.
    + apply NoDup_app_intro; auto. intros m Hm2 Hm1.
      destruct (P2 m Hm2) as (_ & Hnv & _). destruct (P1 m Hm1) as (_ & _ & Hv). contradiction.
    + intros m Hm. apply in_app_or in Hm. destruct Hm as [Hm|Hm].
      * destruct (P2 m Hm) as (A & B & C). split; [exact A|]. split; [|exact C].
        intro Hv. apply B. eapply sverified_mono; eauto.
      * destruct (P1 m Hm) as (A & B & C). split; [exact A|]. split; [exact B|].
        eapply sverified_mono; eauto.
Qed.

Lemma MonoR_weaken : forall n stk s s', MonoR (n :: stk) s s' -> MonoR stk s s'.
Proof.
  intros n stk s s' H. destruct H as [A B C D E G]. split; auto.
  - intros m Hm. apply C. right. exact Hm.
  - destruct G as [new [L [N P]]]. exists new. split; [exact L|]. split; [exact N|].
    intros m Hm. destruct (P m Hm) as (X & Y & Z). split; [|auto]. intro K. apply X. right. exact K.
Qed.

(** [MonoR] only looks at the node table, the timestamp and the log *)
Lemma MonoR_same_r : forall stk s s1 s2, MonoR stk s s1 ->
  s_nodes s2 = s_nodes s1 -> s_ts s2 = s_ts s1 -> s_log s2 = s_log s1 -> MonoR stk s s2.
Proof.
  intros stk s s1 s2 [A B C D E G] Hn Ht Hl.
  assert (Hg : forall m, get_info s2 m = get_info s1 m) by (intro m; unfold get_info; rewrite Hn; reflexivity).
  assert (Hv : forall m, sverified s2 m <-> sverified s1 m).
  { intro m. unfold sverified. rewrite Hg, Ht. reflexivity. }
  split.
  - congruence.
  - intros m i Hi Hvi. rewrite Hg. eauto.
  - intros m Hm. rewrite Hg. auto.
  - intros m Hm. rewrite Hg. auto.
  - intro m. rewrite Hg, Hv. auto.
  - destruct G as [new [L [N P]]]. exists new. split; [congruence|]. split; [exact N|].
    intros m Hm. rewrite Hv. auto.
Qed.

Lemma MonoR_exec : forall stk s n s1 s2 v fr bp rc,
  MonoR (n :: stk) (set_log s (n :: s_log s)) s1 ->
  s_nodes s2 = s_nodes s1 -> s_ts s2 = s_ts s1 -> s_log s2 = s_log s1 ->
  ~ In n stk -> ~ sverified s n ->
  MonoR stk s (set_computed s2 n v fr bp rc).
Proof.
  intros stk s n s1 s2 v fr bp rc H Hn2 Ht2 Hl2 Hn Hnv.
  pose proof (MonoR_same_r _ _ _ _ H Hn2 Ht2 Hl2) as H2. clear H Hn2 Ht2 Hl2 s1.
  destruct H2 as [A B C D E G].
  cbn [set_log s_ts s_log] in A, G.
  change (forall m i, get_info s m = Some i -> i_verified i = s_ts s ->
             exists i', get_info s2 m = Some i' /\ sbp i i') in B.
  change (forall m, In m (n :: stk) -> get_info s2 m = get_info s m) in C.
  change (forall m, get_info s m <> None -> get_info s2 m <> None) in D.
  change (forall m, get_info s2 m = get_info s m \/ sverified s2 m) in E.
  assert (Ats : s_ts (set_computed s2 n v fr bp rc) = s_ts s) by (rewrite set_computed_ts; exact A).
  split.
  - exact Ats.
  - intros m i Hi Hv. rewrite set_computed_get. destruct (node_eqb_spec n m) as [->|Hne].
    + exfalso. apply Hnv. exists i. auto.
    + apply B; assumption.
  - intros m Hm. assert (Hne : n <> m) by (intro; subst; contradiction).
    rewrite set_computed_get. apply node_eqb_neq in Hne. rewrite Hne. apply C. right. exact Hm.
  - intros m Hm. rewrite set_computed_get. destruct (node_eqb n m); [discriminate|]. apply D. exact Hm.
  - intro m. destruct (node_eqb_spec n m) as [<-|Hne].
    + right. eexists. rewrite set_computed_get, node_eqb_refl. split; [reflexivity|].
      unfold sc_info. cbn [i_verified]. rewrite set_computed_ts. reflexivity.
    + destruct (E m) as [E1|[i [E1 E2]]].
      * left. rewrite set_computed_get. apply node_eqb_neq in Hne. rewrite Hne. exact E1.
      * right. exists i. rewrite set_computed_get. apply node_eqb_neq in Hne. rewrite Hne.
        split; [exact E1|]. rewrite set_computed_ts. exact E2.
  - destruct G as [new [L [N P]]]. exists (new ++ [n]). split.
    + rewrite set_computed_log, L, <- app_assoc. reflexivity.
    + split.
      * apply NoDup_app_intro; [exact N|constructor; [intros []|constructor]|].
        intros x Hx [K|[]]. subst x. destruct (P n Hx) as (X & _). apply X. left. reflexivity.
      * intros m Hm. apply in_app_or in Hm. destruct Hm as [Hm|[<-|[]]].
        -- destruct (P m Hm) as (X & Y & [i [Z1 Z2]]).
           assert (Hne : n <> m) by (intro; subst; apply X; left; reflexivity).
           split; [intro K; apply X; right; exact K|]. split; [exact Y|].
           exists i. rewrite set_computed_get. apply node_eqb_neq in Hne. rewrite Hne.
           split; [exact Z1|]. rewrite set_computed_ts. exact Z2.
        -- split; [exact Hn|]. split; [exact Hnv|].
           eexists. rewrite set_computed_get, node_eqb_refl. split; [reflexivity|].
           unfold sc_info. cbn [i_verified]. rewrite set_computed_ts. reflexivity.
Qed.

Lemma MonoR_clean : forall stk s n i cl nt,
  get_info s n = Some i -> ~ In n stk -> ~ sverified s n -> MonoR stk s (clean_query s n cl nt).
Proof.
  intros stk s n i cl nt Hi Hn Hnv. split.
  - apply clean_query_ts.
  - intros m j Hj Hv. rewrite (clean_query_get _ _ _ _ _ _ Hi). destruct (node_eqb_spec n m) as [->|Hne].
    + exfalso. apply Hnv. exists j. auto.
    + exists j. split; [exact Hj|apply sbp_refl].
  - intros m Hm. assert (Hne : n <> m) by (intro; subst; contradiction).
    rewrite (clean_query_get _ _ _ _ _ _ Hi). apply node_eqb_neq in Hne. rewrite Hne. reflexivity.
  - intros m Hm. rewrite (clean_query_get _ _ _ _ _ _ Hi). destruct (node_eqb n m); [discriminate|exact Hm].
  - intro m. rewrite (clean_query_get _ _ _ _ _ _ Hi). destruct (node_eqb_spec n m) as [<-|Hne].
    + right. eexists. rewrite (clean_query_get _ _ _ _ _ _ Hi), node_eqb_refl. split; [reflexivity|].
      unfold cq_info. cbn [i_verified]. rewrite clean_query_ts. reflexivity.
    + left. reflexivity.
  - exists []. split; [rewrite clean_query_log; reflexivity|]. split; [constructor|]. intros m [].
Qed.

Lemma MonoR_clear_pending : forall stk s n, ~ In n stk -> sverified s n -> MonoR stk s (clear_pending s n).
Proof.
  intros stk s n Hn [i [Hi Hvi]]. unfold clear_pending. rewrite Hi.
  split.
  - reflexivity.
  - intros m j Hj Hv. rewrite get_put. destruct (node_eqb_spec n m) as [<-|Hne].
    + eexists. split; [reflexivity|]. assert (j = i) by congruence. subst j. repeat split.
    + exists j. split; [exact Hj|apply sbp_refl].
  - intros m Hm. assert (Hne : n <> m) by (intro; subst; contradiction).
    rewrite get_put. apply node_eqb_neq in Hne. rewrite Hne. reflexivity.
  - intros m Hm. rewrite get_put. destruct (node_eqb n m); [discriminate|exact Hm].
  - intro m. rewrite get_put. destruct (node_eqb_spec n m) as [<-|Hne]; [|left; reflexivity].
    right. eexists. rewrite get_put, node_eqb_refl. split; [reflexivity|]. exact Hvi.
  - exists []. split; [reflexivity|]. split; [constructor|]. intros m [].
Qed.

(** * the fast path *)
Lemma fast_path_slow : forall s c fr n sp fr',
  fast_path s c fr n = (FSlow sp, fr') ->
  match sp with
  | SCompute => get_info s n = None
  | SRepair => exists i, get_info s n = Some i /\ i_verified i <> s_ts s
  | SBackward => sverified s n
  end.
Proof.
  intros s c fr n sp fr' H. unfold fast_path in H. destruct (get_info s n) as [i|] eqn:Hi.
  - destruct (i_verified i =? s_ts s)%N eqn:Ev; cbn [negb] in H.
    + apply N.eqb_eq in Ev.
      match type of H with (if ?b then _ else _) = _ => destruct b end; inversion H; subst.
      exists i. auto.
    + apply N.eqb_neq in Ev. inversion H. subst. exists i. auto.
  - inversion H. reflexivity.
Qed.

Lemma fast_path_hit : forall s c fr n v fr',
  fast_path s c fr n = (FHit v, fr') ->
  exists i, get_info s n = Some i /\ i_verified i = s_ts s /\
    v = (if caller_requires_value c then Some (i_value i) else None).
Proof.
  intros s c fr n v fr' H. unfold fast_path in H. destruct (get_info s n) as [i|] eqn:Hi; [|discriminate].
  destruct (i_verified i =? s_ts s)%N eqn:Ev; cbn [negb] in H; [|discriminate].
  apply N.eqb_eq in Ev.
  match type of H with (if ?b then _ else _) = _ => destruct b end; inversion H; subst.
  exists i. auto.
Qed.

Section Mono.
Variable p : program.

Definition mono_query (f : nat) : Prop :=
  forall stk c fr n s o fr' m' s', fquery_for p f stk c fr n s = Ok (o, fr', m', s') -> MonoR stk s s'.
Definition mono_execute (f : nat) : Prop :=
  forall stk c n rc fr0 s m' s', fexecute p f stk c n rc fr0 s = Ok (m', s') ->
    ~ In n stk -> ~ sverified s n -> MonoR stk s s'.
Definition mono_eval (f : nat) : Prop :=
  forall stk me e fr s o fr' m' s', feval p f stk me e fr s = Ok (o, fr', m', s') -> MonoR stk s s'.
Definition mono_repair (f : nat) : Prop :=
  forall stk c n s m' s', frepair p f stk c n s = Ok (m', s') ->
    ~ In n stk -> ~ sverified s n -> MonoR stk s s'.

Lemma mono_tfc : forall f stk, mono_query f ->
  forall ts s s', ftfc p f stk ts s = Ok s' -> MonoR stk s s'.
Proof.
  intros f stk IHq. induction ts as [|t r IH]; intros s s' H; cbn [ftfc] in H.
  - inversion H. subst. apply MonoR_refl.
  - destruct (fquery_for p f stk CRepairFirewall None t s) as [[[[o fr'] m'] s1]| | |] eqn:Eq; try discriminate.
    apply IHq in Eq. eapply MonoR_trans; [exact Eq|]. apply IH. exact H.
Qed.

Lemma mono_walk : forall f n stk pd i, mono_query f ->
  forall cs rtfc cleaned fr ms s d fr' ms' s1,
    fwalk p f n stk pd i cs rtfc cleaned fr ms s = Ok (d, fr', ms', s1) -> MonoR (n :: stk) s s1.
Proof.
  intros f n stk pd i IHq. induction cs as [|cal r IH]; intros rtfc cleaned fr ms s d fr' ms' s1 H; cbn [fwalk] in H.
  - inversion H. subst. apply MonoR_refl.
  - cbv zeta in H. destruct (negb (emem (n, cal) (s_dirty s)) && negb pd).
    + eapply IH. exact H.
    + destruct (alookup (i_obs i) cal) as [[ov otfc]|] eqn:Eo.
      2:{ inversion H. subst. apply MonoR_refl. }
      destruct (kind_eqb (nkind cal) KInput).
      * destruct (get_info s cal) as [ci|]; [|discriminate].
        destruct (negb (i_value ci =? ov)).
        -- inversion H. subst. apply MonoR_refl.
        -- eapply IH. exact H.
      * match type of H with context [fquery_for p f ?a ?b ?c ?d ?e] =>
          destruct (fquery_for p f a b c d e) as [[[[o fr1] m1] s']| | |] eqn:Eq; try discriminate end.
        apply IHq in Eq.
        destruct (get_info s' cal) as [ci|]; [|discriminate].
        destruct (negb (i_value ci =? ov)).
        -- inversion H. subst. exact Eq.
        -- eapply MonoR_trans; [exact Eq|]. eapply IH. exact H.
Qed.

Lemma mono_all : forall f, mono_query f /\ mono_execute f /\ mono_eval f /\ mono_repair f.
Proof.
  induction f as [|f (IHq & IHx & IHe & IHr)].
  - split; [|split; [|split]]; red; intros;
      match goal with H : _ = Ok _ |- _ => cbn in H; discriminate H end.
  - assert (Hq : mono_query (S f)).
    { red. intros stk c fr n s o fr' m' s' H. rewrite fquery_for_S in H. cbv zeta in H.
      set (c' := fq_caller c n s) in *. set (fr1 := fq_reg c' fr n) in *.
      destruct (nmem n stk) eqn:Es.
      { destruct c'; inversion H; subst; apply MonoR_refl. }
      apply nmem_false in Es.
      destruct (fast_path s c' fr1 n) as [[v|sp] fr2] eqn:Ef.
      { inversion H. subst. apply MonoR_refl. }
      pose proof (fast_path_slow _ _ _ _ _ _ Ef) as Hsp.
      destruct (fq_tfc p f stk c' sp n s) as [s1| | |] eqn:Et; try discriminate.
      assert (M1 : MonoR stk s s1).
      { unfold fq_tfc in Et. destruct c'; destruct sp; try (inversion Et; subst; apply MonoR_refl);
          (destruct (get_info s n); [|inversion Et; subst; apply MonoR_refl]);
          eapply mono_tfc; eauto. }
      destruct (fq_process p f stk c' sp n s1) as [[marks s2]| | |] eqn:Ep; try discriminate.
      assert (M2 : MonoR stk s1 s2).
      { destruct sp.
        - unfold fq_process in Ep. destruct (get_info s1 n) as [i|] eqn:Ei.
          + destruct (i_verified i =? s_ts s1)%N eqn:Ev.
            * inversion Ep. subst. apply MonoR_refl.
            * eapply IHr; eauto. intros [j [Hj1 Hj2]]. rewrite Ei in Hj1. inversion Hj1. subst j.
              apply N.eqb_neq in Ev. contradiction.
          + eapply IHx; eauto. intros [j [Hj1 _]]. congruence.
        - unfold fq_process in Ep. destruct (get_info s1 n) as [i|] eqn:Ei.
          + destruct (i_verified i =? s_ts s1)%N eqn:Ev.
            * inversion Ep. subst. apply MonoR_refl.
            * eapply IHr; eauto. intros [j [Hj1 Hj2]]. rewrite Ei in Hj1. inversion Hj1. subst j.
              apply N.eqb_neq in Ev. contradiction.
          + eapply IHx; eauto. intros [j [Hj1 _]]. congruence.
        - rewrite fq_process_backward in Ep. inversion Ep. subst.
          apply MonoR_clear_pending; [exact Es|]. eapply sverified_mono; eauto. }
      destruct (fast_path s2 c' fr1 n) as [[v|sp'] fr2'] eqn:Ef2.
      - inversion H. subst. eapply MonoR_trans; eauto.
      - destruct (fquery_for p f stk c' fr1 n s2) as [[[[o3 fr3] m3] s3]| | |] eqn:Eq; try discriminate.
        inversion H. subst. apply IHq in Eq. eapply MonoR_trans; [|exact Eq]. eapply MonoR_trans; eauto. }
    assert (Hx : mono_execute (S f)).
    { red. intros stk c n rc fr0 s m' s' H Hn Hnv. rewrite fexecute_S in H. cbv zeta in H.
      match type of H with context [match ?X with Ok _ => _ | OutOfFuel => OutOfFuel | Panic c => Panic c | Stuck => Stuck end] =>
        destruct X as [[[[out fr1] marks] s1]| | |] eqn:Ee; try discriminate end.
      assert (M1 : MonoR (n :: stk) (set_log s (n :: s_log s)) s1).
      { destruct (nkind n); try discriminate; (destruct (fbody p n); [|discriminate]); eapply IHe; eauto. }
      match type of H with context [if ?b then propagate ?a ?b1 ?c1 else _] =>
        destruct (if b then propagate a b1 c1 else Ok s1) as [s2| | |] eqn:Epr; try discriminate end.
      inversion H. subst.
      assert (K : s_nodes s2 = s_nodes s1 /\ s_ts s2 = s_ts s1 /\ s_log s2 = s_log s1).
      { match type of Epr with (if ?b then _ else _) = _ => destruct b end.
        - apply propagate_same in Epr. tauto.
        - inversion Epr. auto. }
      destruct K as (K1 & K2 & K3). eapply MonoR_exec; eauto. }
    assert (He : mono_eval (S f)).
    { assert (Hbin : forall stk me a b op fr s o fr' m' s',
                fbin p f stk me a b op fr s = Ok (o, fr', m', s') -> MonoR stk s s').
      { intros stk me a b op fr s o fr' m' s' H. unfold fbin in H.
        destruct (feval p f stk me a fr s) as [[[[x fr1] m1] s1]| | |] eqn:E1; try discriminate.
        apply IHe in E1. destruct x.
        - destruct (feval p f stk me b fr1 s1) as [[[[y fr2] m2] s2]| | |] eqn:E2; try discriminate.
          apply IHe in E2. destruct y; inversion H; subst; eapply MonoR_trans; eauto.
        - inversion H. subst. exact E1. }
      red. intros stk me e fr s o fr' m' s' H. rewrite feval_S in H. destruct e.
      - inversion H. subst. apply MonoR_refl.
      - unfold fread in H.
        destruct (fquery_for p f stk me (Some fr) n s) as [[[[o1 fr1] m1] s1]| | |] eqn:E1; try discriminate.
        apply IHq in E1. destruct o1 as [[z|]|]; inversion H; subst; exact E1.
      - eapply Hbin; eauto.
      - eapply Hbin; eauto.
      - destruct (feval p f stk me e fr s) as [[[[x fr1] m1] s1]| | |] eqn:E1; try discriminate.
        apply IHe in E1. destruct x; inversion H; subst; exact E1.
      - eapply Hbin; eauto.
      - destruct (feval p f stk me e1 fr s) as [[[[x fr1] m1] s1]| | |] eqn:E1; try discriminate.
        apply IHe in E1. destruct x.
        + match type of H with context [feval p f ?a ?b ?c ?d ?e] =>
            destruct (feval p f a b c d e) as [[[[y fr2] m2] s2]| | |] eqn:E2; try discriminate end.
          apply IHe in E2. inversion H. subst. eapply MonoR_trans; eauto.
        + inversion H. subst. exact E1.
      - discriminate. }
    assert (Hr : mono_repair (S f)).
    { red. intros stk c n s m' s' H Hn Hnv. rewrite frepair_S in H.
      destruct (get_info s n) as [i|] eqn:Eg; [|discriminate]. cbv zeta in H.
      destruct (fwalk p f n stk (c_pedantic c) i (all_callees (i_fwd i)) false [] empty_frame [] s)
        as [[[[d fr1] marks] s1]| | |] eqn:Ew; try discriminate.
      apply (mono_walk _ _ _ _ _ IHq) in Ew.
      pose proof (mr_stk _ _ _ Ew n (or_introl eq_refl)) as K1.
      assert (Hnv1 : ~ sverified s1 n).
      { intros [j [J1 J2]]. apply Hnv. exists j. rewrite <- K1. split; [exact J1|].
        rewrite <- (mr_ts _ _ _ Ew). exact J2. }
      apply MonoR_weaken in Ew. destruct d as [|[|] cl].
      - match type of H with context [fexecute p f ?a ?b ?c ?d ?e ?g] =>
          destruct (fexecute p f a b c d e g) as [[m2 s2]| | |] eqn:Ex; try discriminate end.
        inversion H. subst. eapply MonoR_trans; [exact Ew|]. eapply IHx; eauto.
      - inversion H. subst. eapply MonoR_trans; [exact Ew|]. eapply MonoR_clean; eauto.
        rewrite K1. exact Eg.
      - inversion H. subst. eapply MonoR_trans; [exact Ew|]. eapply MonoR_clean; eauto.
        rewrite K1. exact Eg. }
    auto.
Qed.
End Mono.
