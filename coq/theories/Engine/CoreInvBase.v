(** Basic facts about the association-list / set helpers of [Engine/Model.v] and the state
    update functions of [Engine/Core.v], used by the soundness proof of the core engine. *)
From QV Require Import Common.Prelude Engine.Model Engine.Core.
Open Scope Z_scope.

(** * node equality *)
Lemma kind_eqb_eq : forall a b, kind_eqb a b = true <-> a = b.
Proof. intros [] []; cbn; split; intro H; try reflexivity; discriminate H. Qed.

Lemma node_eqb_eq : forall a b, node_eqb a b = true <-> a = b.
Proof.
  intros [ka ia] [kb ib]. unfold node_eqb. cbn [nkind nidx].
  rewrite andb_true_iff, kind_eqb_eq, N.eqb_eq. split.
  - intros [-> ->]. reflexivity.
  - intro H. inversion H. auto.
Qed.

Lemma node_eqb_refl : forall a, node_eqb a a = true.
Proof. intro a. apply node_eqb_eq. reflexivity. Qed.

Lemma node_eqb_neq : forall a b, node_eqb a b = false <-> a <> b.
Proof.
  intros a b. split.
  - intros H E. subst. rewrite node_eqb_refl in H. discriminate.
  - intro H. destruct (node_eqb a b) eqn:E; [|reflexivity]. apply node_eqb_eq in E. contradiction.
Qed.

Lemma node_eqb_spec : forall a b, reflect (a = b) (node_eqb a b).
Proof.
  intros a b. destruct (node_eqb a b) eqn:E; constructor.
  - apply node_eqb_eq. exact E.
  - apply node_eqb_neq. exact E.
Qed.

Lemma node_eq_dec : forall a b : node, {a = b} + {a <> b}.
Proof. intros a b. destruct (node_eqb_spec a b); [left|right]; assumption. Qed.

Lemma node_eqb_sym : forall a b, node_eqb a b = node_eqb b a.
Proof.
  intros a b. destruct (node_eqb_spec a b) as [->|H].
  - symmetry. apply node_eqb_refl.
  - symmetry. apply node_eqb_neq. auto.
Qed.

Lemma edge_eqb_eq : forall a b, edge_eqb a b = true <-> a = b.
Proof.
  intros [a1 a2] [b1 b2]. unfold edge_eqb. cbn [fst snd].
  rewrite andb_true_iff, !node_eqb_eq. split.
  - intros [-> ->]. reflexivity.
  - intro H. inversion H. auto.
Qed.

(** * association lists *)
Section AssocFacts.
Context {V : Type}.
Implicit Types (m : list (node * V)) (k : node) (v : V).

Lemma alookup_aset_eq : forall m k v, alookup (aset m k v) k = Some v.
Proof.
  induction m as [|[k' v'] r IH]; intros k v; cbn [aset alookup].
  - rewrite node_eqb_refl. reflexivity.
  - destruct (node_eqb k' k) eqn:E; cbn [alookup].
    + rewrite node_eqb_refl. reflexivity.
    + rewrite E. apply IH.
Qed.

Lemma alookup_aset_ne : forall m k k' v, k <> k' -> alookup (aset m k v) k' = alookup m k'.
Proof.
  induction m as [|[k0 v0] r IH]; intros k k' v Hne; cbn [aset alookup].
  - apply node_eqb_neq in Hne. rewrite Hne. reflexivity.
  - destruct (node_eqb_spec k0 k) as [->|H0]; cbn [alookup].
    + apply node_eqb_neq in Hne. rewrite Hne. reflexivity.
    + destruct (node_eqb k0 k'); [reflexivity|]. apply IH. exact Hne.
Qed.

Lemma alookup_aset : forall m k k' v,
  alookup (aset m k v) k' = if node_eqb k k' then Some v else alookup m k'.
Proof.
  intros m k k' v. destruct (node_eqb_spec k k') as [->|H].
  - apply alookup_aset_eq.
  - apply alookup_aset_ne. exact H.
Qed.

Lemma alookup_In : forall m k v, alookup m k = Some v -> In (k, v) m.
Proof.
  induction m as [|[k0 v0] r IH]; intros k v H; cbn [alookup] in H; [discriminate|].
  destruct (node_eqb_spec k0 k) as [->|Hne].
  - inversion H. left. reflexivity.
  - right. apply IH. exact H.
Qed.

Lemma alookup_None_notin : forall m k, alookup m k = None -> ~ In k (map fst m).
Proof.
  induction m as [|[k0 v0] r IH]; intros k H; cbn [alookup map fst] in *; [tauto|].
  destruct (node_eqb_spec k0 k) as [->|Hne]; [discriminate|].
  intros [E|E]; [contradiction|]. eapply IH; eauto.
Qed.

Lemma alookup_in_keys : forall m k, In k (map fst m) -> alookup m k <> None.
Proof.
  intros m k H E. apply alookup_None_notin in E. contradiction.
Qed.

Lemma alookup_keys : forall m k v, alookup m k = Some v -> In k (map fst m).
Proof.
  intros m k v H. apply alookup_In in H. apply (in_map fst) in H. exact H.
Qed.

Lemma alookup_app : forall m1 m2 k,
  alookup (m1 ++ m2) k = match alookup m1 k with Some v => Some v | None => alookup m2 k end.
Proof.
  induction m1 as [|[k0 v0] r IH]; intros m2 k; cbn [alookup app]; [reflexivity|].
  destruct (node_eqb k0 k); [reflexivity|]. apply IH.
Qed.

Lemma aset_keys : forall m k v x, In x (map fst (aset m k v)) <-> x = k \/ In x (map fst m).
Proof.
  induction m as [|[k0 v0] r IH]; intros k v x; cbn [aset map fst In].
  - intuition.
  - destruct (node_eqb_spec k0 k) as [->|Hne]; cbn [map fst In].
    + intuition.
    + rewrite IH. intuition.
Qed.

Lemma aset_keys_present : forall m k v, alookup m k <> None -> map fst (aset m k v) = map fst m.
Proof.
  induction m as [|[k0 v0] r IH]; intros k v H; cbn [aset alookup map fst] in *.
  - congruence.
  - destruct (node_eqb_spec k0 k) as [->|Hne]; cbn [map fst].
    + reflexivity.
    + f_equal. apply IH. exact H.
Qed.
End AssocFacts.

(** * node sets *)
Lemma nmem_In : forall n l, nmem n l = true <-> In n l.
Proof.
  intros n l. unfold nmem. rewrite existsb_exists. split.
  - intros [x [Hx E]]. apply node_eqb_eq in E. subst. exact Hx.
  - intro H. exists n. split; [exact H|apply node_eqb_refl].
Qed.

Lemma nmem_false : forall n l, nmem n l = false <-> ~ In n l.
Proof.
  intros n l. rewrite <- nmem_In. destruct (nmem n l); intuition congruence.
Qed.

Lemma nadd_In : forall n l x, In x (nadd n l) <-> x = n \/ In x l.
Proof.
  intros n l x. unfold nadd. destruct (nmem n l) eqn:E.
  - apply nmem_In in E. split; [auto|]. intros [->|H]; assumption.
  - rewrite in_app_iff. cbn [In]. intuition.
Qed.

Lemma nremove_In : forall n l x, In x (nremove n l) <-> In x l /\ x <> n.
Proof.
  intros n l x. unfold nremove. rewrite filter_In, negb_true_iff, node_eqb_neq. reflexivity.
Qed.

Lemma emem_In : forall e l, emem e l = true <-> In e l.
Proof.
  intros e l. unfold emem. rewrite existsb_exists. split.
  - intros [x [Hx E]]. apply edge_eqb_eq in E. subst. exact Hx.
  - intro H. exists e. split; [exact H|]. apply edge_eqb_eq. reflexivity.
Qed.

Lemma emem_false : forall e l, emem e l = false <-> ~ In e l.
Proof.
  intros e l. rewrite <- emem_In. destruct (emem e l); intuition congruence.
Qed.

Lemma eadd_In : forall e l x, In x (eadd e l) <-> x = e \/ In x l.
Proof.
  intros e l x. unfold eadd. destruct (emem e l) eqn:E.
  - apply emem_In in E. split; [auto|]. intros [->|H]; assumption.
  - cbn [In]. intuition.
Qed.

Lemma eremove_In : forall e l x, In x (eremove e l) <-> In x l /\ x <> e.
Proof.
  intros e l x. unfold eremove. rewrite filter_In, negb_true_iff. split.
  - intros [H1 H2]. split; [exact H1|]. intro E. subst.
    assert (edge_eqb e e = true) by (apply edge_eqb_eq; reflexivity). congruence.
  - intros [H1 H2]. split; [exact H1|]. destruct (edge_eqb x e) eqn:E; [|reflexivity].
    apply edge_eqb_eq in E. contradiction.
Qed.

(** * states: projections of the setters *)
Definition dirty (s : cstate) (a b : node) : Prop := In (a, b) (cs_dirty s).
Definition verified (s : cstate) (n : node) : Prop :=
  exists i, cget s n = Some i /\ c_verified i = cs_ts s.

Lemma cget_cput : forall s n i m, cget (cput s n i) m = if node_eqb n m then Some i else cget s m.
Proof. intros. unfold cget, cput. cbn [cs_nodes]. apply alookup_aset. Qed.
Lemma cget_cput_eq : forall s n i, cget (cput s n i) n = Some i.
Proof. intros. rewrite cget_cput, node_eqb_refl. reflexivity. Qed.
Lemma cget_cput_ne : forall s n i m, n <> m -> cget (cput s n i) m = cget s m.
Proof. intros s n i m H. rewrite cget_cput. apply node_eqb_neq in H. rewrite H. reflexivity. Qed.

Lemma ccallers_bwd_add : forall s d c x y,
  In x (ccallers (cbwd_add s d c) y) <-> In x (ccallers s y) \/ (y = d /\ x = c).
Proof.
  intros s d c x y. unfold cbwd_add, ccallers at 1. cbn [cset_bwd cs_bwd].
  rewrite alookup_aset. destruct (node_eqb_spec d y) as [->|Hne].
  - rewrite nadd_In. intuition.
  - fold (ccallers s y). intuition congruence.
Qed.

Lemma ccallers_bwd_remove : forall s d c x y,
  In x (ccallers (cbwd_remove s d c) y) <-> In x (ccallers s y) /\ ~ (y = d /\ x = c).
Proof.
  intros s d c x y. unfold cbwd_remove, ccallers at 1. cbn [cset_bwd cs_bwd].
  rewrite alookup_aset. destruct (node_eqb_spec d y) as [->|Hne].
  - rewrite nremove_In. intuition.
  - fold (ccallers s y). intuition congruence.
Qed.

(** ** cunwire *)
Lemma cunwire_nodes : forall old s n cd, cs_nodes (cunwire s n old cd) = cs_nodes s.
Proof.
  unfold cunwire. induction old as [|c r IH]; intros s n cd; cbn [fold_left]; [reflexivity|].
  rewrite IH. destruct cd; reflexivity.
Qed.
Lemma cunwire_ts : forall old s n cd, cs_ts (cunwire s n old cd) = cs_ts s.
Proof.
  unfold cunwire. induction old as [|c r IH]; intros s n cd; cbn [fold_left]; [reflexivity|].
  rewrite IH. destruct cd; reflexivity.
Qed.
Lemma cunwire_log : forall old s n cd, cs_log (cunwire s n old cd) = cs_log s.
Proof.
  unfold cunwire. induction old as [|c r IH]; intros s n cd; cbn [fold_left]; [reflexivity|].
  rewrite IH. destruct cd; reflexivity.
Qed.
Lemma cunwire_visited : forall old s n cd, cs_visited (cunwire s n old cd) = cs_visited s.
Proof.
  unfold cunwire. induction old as [|c r IH]; intros s n cd; cbn [fold_left]; [reflexivity|].
  rewrite IH. destruct cd; reflexivity.
Qed.
Lemma cunwire_stat : forall old s n cd, cs_stat (cunwire s n old cd) = cs_stat s.
Proof.
  unfold cunwire. induction old as [|c r IH]; intros s n cd; cbn [fold_left]; [reflexivity|].
  rewrite IH. destruct cd; reflexivity.
Qed.
Lemma cunwire_cget : forall old s n cd m, cget (cunwire s n old cd) m = cget s m.
Proof. intros. unfold cget. rewrite cunwire_nodes. reflexivity. Qed.

Lemma cunwire_callers : forall old s n cd x y,
  In x (ccallers (cunwire s n old cd) y) <-> In x (ccallers s y) /\ ~ (x = n /\ In y old).
Proof.
  unfold cunwire. induction old as [|c r IH]; intros s n cd x y; cbn [fold_left In].
  - tauto.
  - rewrite IH.
    assert (E : forall s', ccallers (if cd then cset_dirty s' (eremove (n, c) (cs_dirty s')) else s') y
                           = ccallers s' y) by (intro s'; destruct cd; reflexivity).
    rewrite E. rewrite ccallers_bwd_remove. intuition.
Qed.

Lemma cunwire_dirty : forall old s n cd a b,
  dirty (cunwire s n old cd) a b <-> dirty s a b /\ ~ (cd = true /\ a = n /\ In b old).
Proof.
  unfold cunwire, dirty. induction old as [|c r IH]; intros s n cd a b; cbn [fold_left In].
  - tauto.
  - rewrite IH. destruct cd.
    + cbn [cset_dirty cs_dirty cbwd_remove cset_bwd]. rewrite eremove_In. split.
      * intros [[H1 H2] H3]. split; [exact H1|]. intros [_ [-> [<-|H]]]; [congruence|]. apply H3. auto.
      * intros [H1 H2]. split; [split; [exact H1|]|].
        -- intro E. inversion E. subst. apply H2. auto.
        -- intros [_ [-> H]]. apply H2. auto.
    + cbn [cbwd_remove cset_bwd cs_dirty]. split.
      * intros [H _]. split; [exact H|]. intros [E _]. discriminate.
      * intros [H _]. split; [exact H|]. intros [E _]. discriminate.
Qed.

(** ** cwire *)
Lemma cwire_nodes : forall new s n, cs_nodes (cwire s n new) = cs_nodes s.
Proof. unfold cwire. induction new as [|c r IH]; intros; cbn [fold_left]; [reflexivity|]. rewrite IH. reflexivity. Qed.
Lemma cwire_ts : forall new s n, cs_ts (cwire s n new) = cs_ts s.
Proof. unfold cwire. induction new as [|c r IH]; intros; cbn [fold_left]; [reflexivity|]. rewrite IH. reflexivity. Qed.
Lemma cwire_log : forall new s n, cs_log (cwire s n new) = cs_log s.
Proof. unfold cwire. induction new as [|c r IH]; intros; cbn [fold_left]; [reflexivity|]. rewrite IH. reflexivity. Qed.
Lemma cwire_dirty : forall new s n, cs_dirty (cwire s n new) = cs_dirty s.
Proof. unfold cwire. induction new as [|c r IH]; intros; cbn [fold_left]; [reflexivity|]. rewrite IH. reflexivity. Qed.
Lemma cwire_visited : forall new s n, cs_visited (cwire s n new) = cs_visited s.
Proof. unfold cwire. induction new as [|c r IH]; intros; cbn [fold_left]; [reflexivity|]. rewrite IH. reflexivity. Qed.
Lemma cwire_stat : forall new s n, cs_stat (cwire s n new) = cs_stat s.
Proof. unfold cwire. induction new as [|c r IH]; intros; cbn [fold_left]; [reflexivity|]. rewrite IH. reflexivity. Qed.
Lemma cwire_cget : forall new s n m, cget (cwire s n new) m = cget s m.
Proof. intros. unfold cget. rewrite cwire_nodes. reflexivity. Qed.
Lemma cwire_callers : forall new s n x y,
  In x (ccallers (cwire s n new) y) <-> In x (ccallers s y) \/ (x = n /\ In y new).
Proof.
  unfold cwire. induction new as [|c r IH]; intros s n x y; cbn [fold_left In].
  - tauto.
  - rewrite IH, ccallers_bwd_add. intuition.
Qed.

(** ** cset_computed *)
Definition old_fwd (s : cstate) (n : node) : list node :=
  match cget s n with Some i => c_fwd i | None => [] end.

Lemma cset_computed_ts : forall s n v fr rc, cs_ts (cset_computed s n v fr rc) = cs_ts s.
Proof.
  intros. unfold cset_computed. rewrite cwire_ts. unfold cput. cbn [cs_ts].
  destruct (cget s n); [apply cunwire_ts|reflexivity].
Qed.
Lemma cset_computed_log : forall s n v fr rc, cs_log (cset_computed s n v fr rc) = cs_log s.
Proof.
  intros. unfold cset_computed. rewrite cwire_log. unfold cput. cbn [cs_log].
  destruct (cget s n); [apply cunwire_log|reflexivity].
Qed.
Lemma cset_computed_cget : forall s n v fr rc m,
  cget (cset_computed s n v fr rc) m =
  if node_eqb n m then Some (mkCInfo (cs_ts s) v (map fst fr) (cobserved fr)) else cget s m.
Proof.
  intros. unfold cset_computed. rewrite cwire_cget, cget_cput.
  destruct (node_eqb n m); [reflexivity|]. destruct (cget s n); [apply cunwire_cget|reflexivity].
Qed.
Lemma cset_computed_callers : forall s n v fr rc x y,
  In x (ccallers (cset_computed s n v fr rc) y) <->
  (In x (ccallers s y) /\ ~ (x = n /\ In y (old_fwd s n))) \/ (x = n /\ In y (map fst fr)).
Proof.
  intros. unfold cset_computed. rewrite cwire_callers.
  unfold old_fwd. destruct (cget s n) as [i|].
  - assert (E : forall s' i', ccallers (cput s' n i') y = ccallers s' y) by reflexivity.
    rewrite E, cunwire_callers. reflexivity.
  - assert (E : forall s' i', ccallers (cput s' n i') y = ccallers s' y) by reflexivity.
    rewrite E. cbn [In]. tauto.
Qed.
Lemma cset_computed_dirty : forall s n v fr rc a b,
  dirty (cset_computed s n v fr rc) a b <->
  dirty s a b /\ ~ (rc = true /\ a = n /\ In b (old_fwd s n)).
Proof.
  intros. unfold cset_computed, dirty. rewrite cwire_dirty.
  unfold old_fwd. destruct (cget s n) as [i|].
  - assert (E : forall s' i', cs_dirty (cput s' n i') = cs_dirty s') by reflexivity.
    rewrite E. apply cunwire_dirty.
  - cbn [cput cs_dirty In]. tauto.
Qed.

(** ** cset_input *)
Lemma cset_input_ts : forall s n v, cs_ts (cset_input s n v) = cs_ts s.
Proof. intros. unfold cset_input, cput. cbn [cs_ts]. destruct (cget s n); [apply cunwire_ts|reflexivity]. Qed.
Lemma cset_input_log : forall s n v, cs_log (cset_input s n v) = cs_log s.
Proof. intros. unfold cset_input, cput. cbn [cs_log]. destruct (cget s n); [apply cunwire_log|reflexivity]. Qed.
Lemma cset_input_cget : forall s n v m,
  cget (cset_input s n v) m = if node_eqb n m then Some (mkCInfo (cs_ts s) v [] []) else cget s m.
Proof.
  intros. unfold cset_input. rewrite cget_cput. destruct (node_eqb n m); [reflexivity|].
  destruct (cget s n); [apply cunwire_cget|reflexivity].
Qed.
Lemma cset_input_callers : forall s n v x y,
  In x (ccallers (cset_input s n v) y) <-> In x (ccallers s y) /\ ~ (x = n /\ In y (old_fwd s n)).
Proof.
  intros. unfold cset_input, old_fwd. destruct (cget s n) as [i|].
  - assert (E : forall s' i', ccallers (cput s' n i') y = ccallers s' y) by reflexivity.
    rewrite E. apply cunwire_callers.
  - cbn [In]. assert (E : forall s' i', ccallers (cput s' n i') y = ccallers s' y) by reflexivity.
    rewrite E. tauto.
Qed.
Lemma cset_input_dirty : forall s n v a b, dirty (cset_input s n v) a b <-> dirty s a b.
Proof.
  intros. unfold cset_input, dirty. destruct (cget s n) as [i|].
  - assert (E : forall s' i', cs_dirty (cput s' n i') = cs_dirty s') by reflexivity.
    rewrite E. pose proof (cunwire_dirty (c_fwd i) s n false a b) as H. unfold dirty in H.
    rewrite H. split; [tauto|]. intro H1. split; [exact H1|]. intros [E1 _]. discriminate.
  - reflexivity.
Qed.

(** ** cclean *)
Lemma cclean_fold_nodes : forall cleaned s n,
  cs_nodes (fold_left (fun s c => cset_dirty s (eremove (n, c) (cs_dirty s))) cleaned s) = cs_nodes s
  /\ cs_ts (fold_left (fun s c => cset_dirty s (eremove (n, c) (cs_dirty s))) cleaned s) = cs_ts s
  /\ cs_bwd (fold_left (fun s c => cset_dirty s (eremove (n, c) (cs_dirty s))) cleaned s) = cs_bwd s
  /\ cs_log (fold_left (fun s c => cset_dirty s (eremove (n, c) (cs_dirty s))) cleaned s) = cs_log s.
Proof.
  induction cleaned as [|c r IH]; intros s n; cbn [fold_left]; [auto|].
  destruct (IH (cset_dirty s (eremove (n, c) (cs_dirty s))) n) as (H1 & H2 & H3 & H4).
  rewrite H1, H2, H3, H4. auto.
Qed.
Lemma cclean_fold_dirty : forall cleaned s n a b,
  dirty (fold_left (fun s c => cset_dirty s (eremove (n, c) (cs_dirty s))) cleaned s) a b <->
  dirty s a b /\ ~ (a = n /\ In b cleaned).
Proof.
  unfold dirty. induction cleaned as [|c r IH]; intros s n a b; cbn [fold_left In].
  - tauto.
  - rewrite IH. cbn [cset_dirty cs_dirty]. rewrite eremove_In. split.
    + intros [[H1 H2] H3]. split; [exact H1|]. intros [-> [<-|H]]; [congruence|]. apply H3. auto.
    + intros [H1 H2]. split; [split; [exact H1|]|].
      * intro E. inversion E. subst. apply H2. auto.
      * intros [-> H]. apply H2. auto.
Qed.

Lemma cclean_ts : forall s n cl, cs_ts (cclean s n cl) = cs_ts s.
Proof.
  intros. unfold cclean. destruct (cget s n); [|reflexivity]. cbn [cput cs_ts].
  apply (cclean_fold_nodes cl s n).
Qed.
Lemma cclean_log : forall s n cl, cs_log (cclean s n cl) = cs_log s.
Proof.
  intros. unfold cclean. destruct (cget s n); [|reflexivity]. cbn [cput cs_log].
  apply (cclean_fold_nodes cl s n).
Qed.
Lemma cclean_cget : forall s n cl i m, cget s n = Some i ->
  cget (cclean s n cl) m =
  if node_eqb n m then Some (mkCInfo (cs_ts s) (c_value i) (c_fwd i) (c_obs i)) else cget s m.
Proof.
  intros s n cl i m H. unfold cclean. rewrite H, cget_cput.
  destruct (node_eqb n m); [reflexivity|]. unfold cget. f_equal. apply (cclean_fold_nodes cl s n).
Qed.
Lemma cclean_callers : forall s n cl y, ccallers (cclean s n cl) y = ccallers s y.
Proof.
  intros. unfold cclean. destruct (cget s n); [|reflexivity]. unfold ccallers, cput. cbn [cs_bwd].
  destruct (cclean_fold_nodes cl s n) as (_ & _ & H & _). rewrite H. reflexivity.
Qed.
Lemma cclean_dirty : forall s n cl i a b, cget s n = Some i ->
  dirty (cclean s n cl) a b <-> dirty s a b /\ ~ (a = n /\ In b cl).
Proof.
  intros s n cl i a b H. unfold cclean. rewrite H.
  assert (E : forall s' i', dirty (cput s' n i') a b <-> dirty s' a b) by (intros; reflexivity).
  rewrite E. apply cclean_fold_dirty.
Qed.

(** ** frames *)
Lemma cregister_lookup : forall fr n d,
  alookup (cregister fr n) d =
  match alookup fr d with Some o => Some o | None => if node_eqb n d then Some None else None end.
Proof.
  intros fr n d. unfold cregister. destruct (alookup fr n) eqn:E.
  - destruct (alookup fr d) eqn:E2; [reflexivity|]. destruct (node_eqb_spec n d) as [->|]; congruence.
  - rewrite alookup_app. destruct (alookup fr d); [reflexivity|]. cbn [alookup].
    destruct (node_eqb n d); reflexivity.
Qed.
Lemma cregister_keys : forall fr n d, In d (map fst (cregister fr n)) <-> In d (map fst fr) \/ d = n.
Proof.
  intros fr n d. unfold cregister. destruct (alookup fr n) eqn:E.
  - split; [auto|]. intros [H| ->]; [exact H|]. eapply alookup_keys. exact E.
  - rewrite map_app, in_app_iff. cbn [map fst In]. intuition.
Qed.
Lemma cregister_present : forall fr n, alookup (cregister fr n) n <> None.
Proof.
  intros fr n. rewrite cregister_lookup. destruct (alookup fr n); [congruence|].
  rewrite node_eqb_refl. congruence.
Qed.

Lemma cobserved_lookup : forall fr d v,
  alookup fr d = Some (Some v) -> alookup (cobserved fr) d = Some v.
Proof.
  induction fr as [|[k o] r IH]; intros d v H; cbn [alookup] in H; [discriminate|].
  unfold cobserved. cbn [flat_map]. fold (cobserved r). destruct (node_eqb k d) eqn:E.
  - inversion H. subst. cbn [app alookup]. rewrite E. reflexivity.
  - destruct o; cbn [app alookup]; [rewrite E|]; apply IH; exact H.
Qed.
Lemma cobserved_keys : forall fr d v, alookup (cobserved fr) d = Some v -> In d (map fst fr).
Proof.
  induction fr as [|[k o] r IH]; intros d v H; [discriminate|].
  unfold cobserved in H; cbn [flat_map] in H; fold (cobserved r) in H.
  cbn [map fst In]. destruct o; cbn [app alookup] in H.
  - destruct (node_eqb_spec k d) as [->|]; [left; reflexivity|]. right. eapply IH. exact H.
  - right. eapply IH. exact H.
Qed.

(** * lists *)
Lemma NoDup_app_intro : forall {A} (l1 l2 : list A),
  NoDup l1 -> NoDup l2 -> (forall x, In x l1 -> In x l2 -> False) -> NoDup (l1 ++ l2).
Proof.
  intros A l1 l2 H1 H2 Hd. induction H1 as [|x l Hx H1 IH]; cbn [app]; [exact H2|].
  constructor.
  - rewrite in_app_iff. intros [H|H]; [contradiction|]. apply (Hd x); [left; reflexivity|exact H].
  - apply IH. intros y Hy. apply Hd. right. exact Hy.
Qed.
