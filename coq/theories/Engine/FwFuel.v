(** Fuel monotonicity for the firewall fragment: a request that returns [Ok] with some fuel
    returns the same result with more fuel (fuel is a model artefact). *)
From QV Require Import Common.Prelude Engine.Model Engine.Core Engine.CoreInvBase Engine.Fw Engine.FwBase.
Open Scope Z_scope.

Lemma propagate_fuel_mono : forall f s w s', propagate f s w = Ok s' ->
  forall f', (f <= f')%nat -> propagate f' s w = Ok s'.
Proof.
  induction f as [|f IH]; intros s w s' H f' Hle; [discriminate|].
  destruct f' as [|f']; [lia|]. assert (Hle' : (f <= f')%nat) by lia.
  cbn [propagate] in *. destruct w as [|x r]; [exact H|].
  destruct (nmem x (s_visited s)); [eapply IH; eauto|]. cbv zeta in *.
  destruct (mark_callers (set_visited s (x :: s_visited s)) x (callers_of (set_visited s (x :: s_visited s)) x) r)
    as [s2 work']. eapply IH; eauto.
Qed.

Section Fuel.
Variable p : program.

Definition fm_query (f f' : nat) : Prop :=
  forall stk c fr n s r, fquery_for p f stk c fr n s = Ok r -> fquery_for p f' stk c fr n s = Ok r.
Definition fm_execute (f f' : nat) : Prop :=
  forall stk c n rc fr0 s r, fexecute p f stk c n rc fr0 s = Ok r -> fexecute p f' stk c n rc fr0 s = Ok r.
Definition fm_eval (f f' : nat) : Prop :=
  forall stk me e fr s r, feval p f stk me e fr s = Ok r -> feval p f' stk me e fr s = Ok r.
Definition fm_repair (f f' : nat) : Prop :=
  forall stk c n s r, frepair p f stk c n s = Ok r -> frepair p f' stk c n s = Ok r.

Lemma ftfc_fuel : forall f f' stk, fm_query f f' ->
  forall ts s s', ftfc p f stk ts s = Ok s' -> ftfc p f' stk ts s = Ok s'.
Proof.
  intros f f' stk Hq. induction ts as [|t r IH]; intros s s' H; cbn [ftfc] in *; [exact H|].
  destruct (fquery_for p f stk CRepairFirewall None t s) as [[[[o fr'] m'] s1]| | |] eqn:Eq; try discriminate.
  rewrite (Hq _ _ _ _ _ _ Eq). apply IH. exact H.
Qed.

Lemma fwalk_fuel : forall f f' n stk pd i, fm_query f f' ->
  forall cs rtfc cleaned fr ms s r,
    fwalk p f n stk pd i cs rtfc cleaned fr ms s = Ok r -> fwalk p f' n stk pd i cs rtfc cleaned fr ms s = Ok r.
Proof.
  intros f f' n stk pd i Hq. induction cs as [|cal r0 IH]; intros rtfc cleaned fr ms s r H; cbn [fwalk] in *; [exact H|].
  cbv zeta in *. destruct (negb (emem (n, cal) (s_dirty s)) && negb pd); [apply IH; exact H|].
  destruct (alookup (i_obs i) cal) as [[ov otfc]|]; [|exact H].
  destruct (kind_eqb (nkind cal) KInput).
  - destruct (get_info s cal) as [ci|]; [|exact H].
    destruct (negb (i_value ci =? ov)); [exact H|apply IH; exact H].
  - match type of H with context [fquery_for p f ?a ?b ?c ?d ?e] =>
      destruct (fquery_for p f a b c d e) as [[[[o fr1] m1] s']| | |] eqn:Eq; try discriminate end.
    rewrite (Hq _ _ _ _ _ _ Eq).
    destruct (get_info s' cal) as [ci|]; [|exact H].
    destruct (negb (i_value ci =? ov)); [exact H|apply IH; exact H].
Qed.

Lemma fuel_mono_all : forall f f', (f <= f')%nat ->
  fm_query f f' /\ fm_execute f f' /\ fm_eval f f' /\ fm_repair f f'.
Proof.
  induction f as [|f IH]; intros f' Hle.
  - split; [|split; [|split]]; red; intros; match goal with H : _ = Ok _ |- _ => cbn in H; discriminate H end.
  - destruct f' as [|f']; [lia|]. destruct (IH f' ltac:(lia)) as (IHq & IHx & IHe & IHr). clear IH.
    assert (Hq : fm_query (S f) (S f')).
    { red. intros stk c fr n s r H. rewrite fquery_for_S in *. cbv zeta in *.
      destruct (nmem n stk); [exact H|].
      destruct (fast_path s (fq_caller c n s) (fq_reg (fq_caller c n s) fr n) n) as [[v|sp] fr2]; [exact H|].
      destruct (fq_tfc p f stk (fq_caller c n s) sp n s) as [s1| | |] eqn:Et; try discriminate.
      assert (Et' : fq_tfc p f' stk (fq_caller c n s) sp n s = Ok s1).
      { unfold fq_tfc in *. destruct (fq_caller c n s); try exact Et; destruct sp; try exact Et;
          (destruct (get_info s n); [eapply ftfc_fuel; eauto|exact Et]). }
      rewrite Et'.
      destruct (fq_process p f stk (fq_caller c n s) sp n s1) as [[marks s2]| | |] eqn:Ep; try discriminate.
      assert (Ep' : fq_process p f' stk (fq_caller c n s) sp n s1 = Ok (marks, s2)).
      { unfold fq_process in *. destruct sp; try exact Ep;
          (destruct (get_info s1 n) as [i|]; [destruct (i_verified i =? s_ts s1)%N; [exact Ep|apply IHr; exact Ep]|apply IHx; exact Ep]). }
      rewrite Ep'.
      destruct (fast_path s2 (fq_caller c n s) (fq_reg (fq_caller c n s) fr n) n) as [[v|sp'] fr2']; [exact H|].
      destruct (fquery_for p f stk (fq_caller c n s) (fq_reg (fq_caller c n s) fr n) n s2)
        as [[[[o3 fr3] m3] s3]| | |] eqn:Eq; try discriminate.
      rewrite (IHq _ _ _ _ _ _ Eq). exact H. }
    assert (Hx : fm_execute (S f) (S f')).
    { red. intros stk c n rc fr0 s r H. rewrite fexecute_S in *. cbv zeta in *.
      match type of H with context [match ?X with Ok _ => _ | OutOfFuel => OutOfFuel | Panic c => Panic c | Stuck => Stuck end] =>
        destruct X as [[[[out fr1] marks] s1]| | |] eqn:Ee; try discriminate end.
      assert (Ee' : match nkind n with
                    | KInput | KExternal | KProjection => Panic 4
                    | _ => match fbody p n with
                           | None => Panic 4
                           | Some e => feval p f' (n :: stk) (CQuery n true (c_pedantic c) (fx_prev s n)) e fr0
                                         (set_log s (n :: s_log s))
                           end
                    end = Ok (out, fr1, marks, s1)).
      { destruct (nkind n); try discriminate; (destruct (fbody p n); [apply IHe; exact Ee|discriminate]). }
      rewrite Ee'.
      match type of H with context [if ?b then propagate ?a ?b1 ?c1 else _] =>
        destruct (if b then propagate a b1 c1 else Ok s1) as [s2| | |] eqn:Epr; try discriminate end.
      match goal with |- context [if ?b then propagate ?a ?b1 ?c1 else _] =>
        assert (Epr' : (if b then propagate a b1 c1 else Ok s1) = Ok s2) end.
      { match type of Epr with (if ?b then _ else _) = _ => destruct b end; [|exact Epr].
        eapply propagate_fuel_mono; [exact Epr|]. lia. }
      rewrite Epr'. exact H. }
    assert (He : fm_eval (S f) (S f')).
    { assert (Hbin : forall stk me a b op fr s r, fbin p f stk me a b op fr s = Ok r -> fbin p f' stk me a b op fr s = Ok r).
      { intros stk me a b op fr s r H. unfold fbin in *.
        destruct (feval p f stk me a fr s) as [[[[x fr1] m1] s1]| | |] eqn:E1; try discriminate.
        rewrite (IHe _ _ _ _ _ _ E1). destruct x; [|exact H].
        destruct (feval p f stk me b fr1 s1) as [[[[y fr2] m2] s2]| | |] eqn:E2; try discriminate.
        rewrite (IHe _ _ _ _ _ _ E2). exact H. }
      red. intros stk me e fr s r H. rewrite feval_S in *. destruct e; try exact H; try (apply Hbin; exact H).
      - unfold fread in *.
        destruct (fquery_for p f stk me (Some fr) n s) as [[[[o1 fr1] m1] s1]| | |] eqn:E1; try discriminate.
        rewrite (IHq _ _ _ _ _ _ E1). exact H.
      - destruct (feval p f stk me e fr s) as [[[[x fr1] m1] s1]| | |] eqn:E1; try discriminate.
        rewrite (IHe _ _ _ _ _ _ E1). exact H.
      - destruct (feval p f stk me e1 fr s) as [[[[x fr1] m1] s1]| | |] eqn:E1; try discriminate.
        rewrite (IHe _ _ _ _ _ _ E1). destruct x; [|exact H].
        match type of H with context [feval p f ?a ?b ?c ?d ?e] =>
          destruct (feval p f a b c d e) as [[[[y fr2] m2] s2]| | |] eqn:E2; try discriminate end.
        rewrite (IHe _ _ _ _ _ _ E2). exact H. }
    assert (Hr : fm_repair (S f) (S f')).
    { red. intros stk c n s r H. rewrite frepair_S in *. destruct (get_info s n) as [i|]; [|exact H]. cbv zeta in *.
      destruct (fwalk p f n stk (c_pedantic c) i (all_callees (i_fwd i)) false [] empty_frame [] s)
        as [[[[d fr1] marks] s1]| | |] eqn:Ew; try discriminate.
      rewrite (fwalk_fuel _ _ _ _ _ _ IHq _ _ _ _ _ _ _ Ew).
      destruct d as [|[|] cl]; try exact H.
      match type of H with context [fexecute p f ?a ?b ?c0 ?d0 ?e ?g] =>
        destruct (fexecute p f a b c0 d0 e g) as [[m2 s2]| | |] eqn:Ex; try discriminate end.
      rewrite (IHx _ _ _ _ _ _ _ Ex). exact H. }
    auto.
Qed.

(** more fuel gives the same [Ok] result *)
Theorem fquery_for_fuel_mono : forall f f' stk c fr n s r, (f <= f')%nat ->
  fquery_for p f stk c fr n s = Ok r -> fquery_for p f' stk c fr n s = Ok r.
Proof. intros f f' stk c fr n s r Hle. apply (proj1 (fuel_mono_all f f' Hle)). Qed.
End Fuel.
