(** Auxiliary facts for the soundness of one request of the firewall fragment: frames under
    registration and observation, the caller rewriting of [fquery_for], the fast path. *)
From QV Require Import Common.Prelude Engine.Model Engine.Core Engine.CoreSpec Engine.CoreInvBase
  Engine.CoreInvSem Engine.Fw Engine.FwBase Engine.FwMono Engine.FwSpec Engine.FwSem Engine.FwInv
  Engine.FwInvState Engine.FwInvExec Engine.FwInvClean.
Open Scope Z_scope.

(** * association lists *)
Lemma aset_In_weak : forall {V} (l : list (node * V)) k v e, In e (aset l k v) -> e = (k, v) \/ In e l.
Proof.
  intros V. induction l as [|[k0 v0] r IH]; intros k v e H; cbn [aset] in H.
  - destruct H as [<-|[]]. auto.
  - destruct (node_eqb k0 k).
    + destruct H as [<-|H]; [auto|right; right; exact H].
    + destruct H as [<-|H]; [right; left; reflexivity|]. destruct (IH _ _ _ H); auto. right. right. assumption.
Qed.
Lemma aset_app_absent : forall {V} (l : list (node * V)) k v0 v,
  alookup l k = None -> aset (l ++ [(k, v0)]) k v = l ++ [(k, v)].
Proof.
  intros V. induction l as [|[k0 w] r IH]; intros k v0 v H; cbn [app aset alookup] in *.
  - rewrite node_eqb_refl. reflexivity.
  - destruct (node_eqb k0 k); [discriminate|]. rewrite IH; auto.
Qed.

(** * frames *)
Section Frames.
Variable rk : node -> nat.

Definition fr_obs_reg (x : frame) (n : node) (i : info) : frame :=
  fr_observe (fr_register x n) n (i_value i, i_tfc i) (tfc_contribution n i).

Lemma fr_register_idem : forall x n, fr_register (fr_register x n) n = fr_register x n.
Proof.
  intros x n. unfold fr_register at 1. destruct (alookup (fr_callees (fr_register x n)) n) eqn:E; [reflexivity|].
  exfalso. unfold fr_register in E. destruct (alookup (fr_callees x) n) eqn:E2; [congruence|].
  cbn [fr_callees] in E. rewrite alookup_app, E2 in E. cbn [alookup] in E. rewrite node_eqb_refl in E. discriminate.
Qed.

Lemma fr_register_same : forall x n, fr_scc (fr_register x n) = fr_scc x /\ fr_tfc (fr_register x n) = fr_tfc x /\
  fr_unordered (fr_register x n) = fr_unordered x.
Proof. intros x n. unfold fr_register. destruct (alookup (fr_callees x) n); auto. Qed.

Lemma fr_obs_reg_lookup : forall x n i d,
  alookup (fr_callees (fr_obs_reg x n i)) d =
  if node_eqb n d then Some (Some (i_value i, i_tfc i)) else alookup (fr_callees x) d.
Proof.
  intros x n i d. unfold fr_obs_reg, fr_observe. cbn [fr_callees]. rewrite alookup_aset.
  destruct (node_eqb_spec n d) as [->|Hne]; [reflexivity|].
  unfold fr_register. destruct (alookup (fr_callees x) n); [reflexivity|]. cbn [fr_callees].
  rewrite alookup_app. destruct (alookup (fr_callees x) d); [reflexivity|]. cbn [alookup].
  apply node_eqb_neq in Hne. rewrite Hne. reflexivity.
Qed.

Lemma fr_obs_reg_keys : forall x n i,
  map fst (fr_callees (fr_obs_reg x n i)) =
  match alookup (fr_callees x) n with Some _ => map fst (fr_callees x) | None => map fst (fr_callees x) ++ [n] end.
Proof.
  intros x n i. unfold fr_obs_reg, fr_observe. cbn [fr_callees]. unfold fr_register.
  destruct (alookup (fr_callees x) n) eqn:E.
  - apply aset_keys_present. congruence.
  - cbn [fr_callees]. rewrite (aset_app_absent _ _ _ _ E), map_app. reflexivity.
Qed.

Lemma fr_obs_reg_keys_In : forall x n i d,
  In d (map fst (fr_callees (fr_obs_reg x n i))) <-> In d (map fst (fr_callees x)) \/ d = n.
Proof.
  intros x n i d. rewrite fr_obs_reg_keys. destruct (alookup (fr_callees x) n) eqn:E.
  - split; [auto|]. intros [H| ->]; [exact H|]. eapply alookup_keys; eauto.
  - rewrite in_app_iff. cbn [In]. intuition.
Qed.

Lemma FrOk_obs_reg : forall s b x n i,
  FrOk rk s b x -> get_info s n = Some i -> i_verified i = s_ts s ->
  (rk n < rk b)%nat -> (forall F, In F (i_tfc i) -> (rk F < rk n)%nat) ->
  FrOk rk s b (fr_obs_reg x n i).
Proof.
  intros s b x n i [A B C D E F G] Hi Hv Hrn Hrt.
  split.
  - unfold fr_obs_reg, fr_observe. cbn [fr_scc]. rewrite (proj1 (fr_register_same x n)). exact A.
  - unfold fr_obs_reg, fr_observe. cbn [fr_unordered]. rewrite (proj2 (proj2 (fr_register_same x n))). exact B.
  - rewrite fr_obs_reg_keys. unfold fr_obs_reg, fr_observe. cbn [fr_order]. unfold fr_register.
    destruct (alookup (fr_callees x) n); [exact C|]. cbn [fr_order]. rewrite B, C, !map_app. reflexivity.
  - intros y o Hy. unfold fr_obs_reg, fr_observe in Hy. cbn [fr_callees] in Hy.
    unfold fr_register in Hy. destruct (alookup (fr_callees x) n) eqn:E0.
    + apply aset_In_weak in Hy. destruct Hy as [Hy|Hy]; [inversion Hy; discriminate|eapply D; eauto].
    + cbn [fr_callees] in Hy. rewrite (aset_app_absent _ _ _ _ E0) in Hy. apply in_app_or in Hy.
      destruct Hy as [Hy|[Hy|[]]]; [eapply D; eauto|inversion Hy; discriminate].
  - intros d Hd. rewrite fr_obs_reg_lookup. destruct (node_eqb_spec n d) as [<-|Hne].
    + exists i. auto.
    + apply fr_obs_reg_keys_In in Hd. destruct Hd as [Hd|Hd]; [|congruence]. apply E. exact Hd.
  - intros d j Hd Hj. unfold fr_obs_reg, fr_observe. cbn [fr_tfc]. rewrite (proj1 (proj2 (fr_register_same x n))).
    destruct (node_eq_dec d n) as [->|Hne].
    + assert (j = i) by congruence. subst j. split.
      * intro K. apply nunion_In. right. unfold tfc_contribution. rewrite K. left. reflexivity.
      * intros K T HT. apply nunion_In. right. unfold tfc_contribution. rewrite K. exact HT.
    + apply fr_obs_reg_keys_In in Hd. destruct Hd as [Hd|Hd]; [|contradiction].
      destruct (F d j Hd Hj) as [F1 F2]. split.
      * intro K. apply nunion_In. left. auto.
      * intros K T HT. apply nunion_In. left. auto.
  - intros T HT. unfold fr_obs_reg, fr_observe in HT. cbn [fr_tfc] in HT.
    rewrite (proj1 (proj2 (fr_register_same x n))) in HT. apply nunion_In in HT. destruct HT as [HT|HT]; [auto|].
    unfold tfc_contribution in HT. destruct (nkind n); try destruct HT as [<-|[]]; try destruct HT; try exact Hrn;
      match goal with H : In T (i_tfc i) |- _ => specialize (Hrt _ H); lia end.
Qed.

Lemma frR_obs_reg : forall s b x n i d v,
  FrOk rk s b x -> get_info s n = Some i -> frR x d v -> frR (fr_obs_reg x n i) d v.
Proof.
  intros s b x n i d v Hfr Hi [t Hx]. unfold frR. rewrite fr_obs_reg_lookup.
  destruct (node_eqb_spec n d) as [<-|Hne]; [|eauto].
  destruct (fo_entry _ _ _ _ Hfr n (alookup_keys _ _ _ Hx)) as [j (A & B & C)].
  assert (j = i) by congruence. subst j. rewrite Hx in A. inversion A. eauto.
Qed.
End Frames.

(** * the caller rewriting of [fquery_for] *)
Lemma fq_caller_shape : forall c n s,
  fq_caller c n s = c \/ exists b prev, c = CQuery b true false prev /\ fq_caller c n s = CQuery b true true prev.
Proof.
  intros c n s. destruct c as [|b rv pd prev| |]; cbn; auto. destruct rv; auto. destruct pd; auto.
  destruct (alookup prev n); [|right; eauto]. destruct (get_info s n); auto.
  destruct (nset_eqb (i_tfc i) l); [auto|right; eauto].
Qed.

Lemma fq_reg_caller : forall c n s fr, fq_reg (fq_caller c n s) fr n = fq_reg c fr n.
Proof. intros c n s fr. destruct (fq_caller_shape c n s) as [->|[b [prev [-> ->]]]]; reflexivity. Qed.
Lemma caller_node_caller : forall c n s, caller_node (fq_caller c n s) = caller_node c.
Proof. intros c n s. destruct (fq_caller_shape c n s) as [->|[b [prev [-> ->]]]]; reflexivity. Qed.
Lemma fast_path_caller : forall s0 c n s fr, fast_path s0 (fq_caller c n s) fr n = fast_path s0 c fr n.
Proof. intros s0 c n s fr. destruct (fq_caller_shape c n s) as [->|[b [prev [-> ->]]]]; reflexivity. Qed.

Lemma frame_mark_if_nil : forall fr me, frame_mark_if fr me [] = fr.
Proof. intros [f|] [m|]; reflexivity. Qed.

(** the frame returned by a fast-path hit *)
Lemma fast_path_hit_frame : forall s c fr n v fr' i,
  fast_path s c fr n = (FHit v, fr') -> get_info s n = Some i ->
  fr' = match c, fr with
        | CQuery _ true _ _, Some f => Some (fr_observe f n (i_value i, i_tfc i) (tfc_contribution n i))
        | _, _ => fr
        end.
Proof.
  intros s c fr n v fr' i H Hi. unfold fast_path in H. rewrite Hi in H.
  destruct (negb (i_verified i =? s_ts s)%N); [discriminate|].
  match type of H with (if ?b then _ else _) = _ => destruct b end; inversion H; reflexivity.
Qed.

Lemma fast_path_verified_not_repair : forall s c fr n sp fr',
  fast_path s c fr n = (FSlow sp, fr') -> sverified s n -> sp = SBackward.
Proof.
  intros s c fr n sp fr' H [i [Hi Hv]]. unfold fast_path in H. rewrite Hi in H.
  apply N.eqb_eq in Hv. rewrite Hv in H. cbn [negb] in H.
  match type of H with (if ?b then _ else _) = _ => destruct b end; inversion H; reflexivity.
Qed.
