(** Specification side for the firewall fragment of the engine model ([Engine/Fw.v]): the
    from-scratch evaluator (a firewall is semantically transparent: its value is the value of
    its body), well-formed acyclic programs over inputs, Normal and Firewall queries, and the
    statement of C01 for the fragment.  Proofs: [Engine/FwSound.v]. *)
From QV Require Import Common.Prelude Engine.Model Engine.Core Engine.CoreSpec Engine.Fw.
Open Scope Z_scope.

Definition is_exec_kind (k : kind) : bool := match k with KNormal | KFirewall => true | _ => false end.

(** from-scratch evaluation, by fuel *)
Fixpoint fsexpr (fuel : nat) (p : program) (inp : inputs) (e : expr) {struct fuel} : option Z :=
  match fuel with
  | O => None
  | S f =>
    match e with
    | EConst z => Some z
    | ERead n =>
        match nkind n with
        | KInput => input_get inp (nidx n)
        | KNormal | KFirewall => do b <- alookup p n; fsexpr f p inp b
        | _ => None
        end
    | EAdd a b => do x <- fsexpr f p inp a; do y <- fsexpr f p inp b; Some (x + y)
    | EMul a b => do x <- fsexpr f p inp a; do y <- fsexpr f p inp b; Some (x * y)
    | ELt a b => do x <- fsexpr f p inp a; do y <- fsexpr f p inp b; Some (if x <? y then 1 else 0)
    | EMod a m => do x <- fsexpr f p inp a; Some (x mod m)
    | EIf c a b => do x <- fsexpr f p inp c; fsexpr f p inp (if x =? 0 then b else a)
    | EGroup _ => None
    end
  end.
Definition FwSpec (p : program) (inp : inputs) (n : node) (v : Z) : Prop :=
  exists fuel, fsexpr fuel p inp (ERead n) = Some v.

(** well-formed programs of the fragment: executable nodes are Normal or Firewall queries
    without unordered groups, every read is an input or a declared node, and a rank strictly
    decreasing along every possible read between executable nodes excludes cycles (firewalls
    and normal queries may read each other freely otherwise) *)
Record wf_fw (p : program) : Prop := {
  wff_keys : forall n e, In (n, e) p -> is_exec_kind (nkind n) = true /\ no_group e = true;
  wff_nodup : NoDup (map fst p);
  wff_targets : forall n e d, In (n, e) p -> In d (expr_reads e) ->
                 nkind d = KInput \/ (is_exec_kind (nkind d) = true /\ alookup p d <> None);
  wff_rank : exists rank : node -> nat, forall n e d, In (n, e) p -> In d (expr_reads e) ->
                 is_exec_kind (nkind d) = true -> (rank d < rank n)%nat;
}.

(** no session before operation [i] ran out of fuel (see [CoreSpec.sessions_fuelled]) *)
Definition fsessions_fuelled (fuel : nat) (p : program) (ops : list op) (i : nat) : Prop :=
  forall k sets b rk, (k < i)%nat -> nth_error ops k = Some (OSession sets b) ->
    nth_error (frun_history_f fuel p init_state ops) k = Some rk -> r_out rk <> RFuel.

(** C01 on the firewall fragment *)
Definition fw_sound_statement : Prop :=
  forall fuel p ops i n r z, wf_fw p -> fsessions_fuelled fuel p ops i ->
    nth_error ops i = Some (OQuery n) ->
    nth_error (frun_history_f fuel p init_state ops) i = Some r ->
    r_out r = RValue z ->
    FwSpec p (inputs_after (firstn i ops)) n z.
