(** Soundness of the core engine model (C01 on the core fragment) and the re-execution
    properties (C03 on the core fragment).  The statements are in [Engine/CoreSpec.v]. *)
From QV Require Import Common.Prelude Engine.Model Engine.Core Engine.CoreSpec
  Engine.CoreInvBase Engine.CoreInvSem Engine.CoreInvMono Engine.CoreInvState
  Engine.CoreInvRun Engine.CoreInvCommit Engine.CoreInvProgress.
Open Scope Z_scope.

(** * well-formed programs have a strictly decreasing rank over all nodes *)
Lemma wf_core_rank : forall p, wf_core p ->
  exists rk : node -> nat, forall n e d, alookup p n = Some e -> In d (expr_reads e) -> (rk d < rk n)%nat.
Proof.
  intros p [Hkeys _ Htargets [rank Hrank]].
  exists (fun n => match nkind n with KNormal => S (rank n) | _ => O end).
  intros n e d He Hd. apply alookup_In in He. destruct (Hkeys n e He) as [Kn _]. rewrite Kn.
  destruct (Htargets n e d He Hd) as [Kd|[Kd _]]; rewrite Kd; [lia|].
  specialize (Hrank n e d He Hd Kd). lia.
Qed.

Section Steps.
Variable p : program.
Variable rk : node -> nat.
Hypothesis Hrk : forall n e d, alookup p n = Some e -> In d (expr_reads e) -> (rk d < rk n)%nat.

(** one operation keeps the invariant (a session must not have run out of fuel) *)
Lemma cstep_inv : forall fuel s o s' r inp,
  CInv p inp s -> cstep_f fuel p s o = (s', r) ->
  (forall sets b, o = OSession sets b -> r_out r <> RFuel) ->
  CInv p (apply_op inp o) s'.
Proof.
  intros fuel s o s' r inp HI H Hfuel. destruct o as [sets b|n|w v|].
  - rewrite cstep_session in H. cbv zeta in H.
    destruct (fold_left sess_step sets (cset_ts (cset_log s []) (cs_ts (cset_log s []) + 1)%N, [], []))
      as [[s1 rs] batch] eqn:Ef.
    destruct (cpropagate (fuel * 10) (cset_visited (cset_stat s1 0%N) []) batch) as [s4| | |] eqn:Ep;
      inversion H; subst; try (exfalso; eapply Hfuel; eauto; reflexivity).
    cbn [apply_op]. eapply (CInv_commit p rk Hrk inp (cset_log s [])); eauto. apply CInv_log. exact HI.
  - unfold cstep_f in H. cbn [apply_op].
    destruct (cquery p fuel [] CCUser None n (cset_log s [])) as [[[o fr] s1]| | |] eqn:Eq.
    + destruct (proj1 (sound_all_rk p rk Hrk fuel) inp [] CCUser None n _ o fr s1
                  (CInv_log p inp s [] HI) (RStkOk_nil rk n) Eq) as [HI1 _].
      destruct o; inversion H; subst; exact HI1.
    + inversion H. subst. apply CInv_log. exact HI.
    + inversion H. subst. apply CInv_log. exact HI.
    + inversion H. subst. apply CInv_log. exact HI.
  - cbn in H. inversion H. subst. cbn [apply_op]. apply CInv_log. exact HI.
  - cbn in H. inversion H. subst. cbn [apply_op]. apply CInv_restart. apply CInv_log. exact HI.
Qed.

(** a value answered by a query is the from-scratch value *)
Lemma cstep_query_sound : forall fuel s n s' r inp z,
  CInv p inp s -> cstep_f fuel p s (OQuery n) = (s', r) -> r_out r = RValue z -> SpecI p inp n z.
Proof.
  intros fuel s n s' r inp z HI H Hr. unfold cstep_f in H.
  destruct (cquery p fuel [] CCUser None n (cset_log s [])) as [[[o fr] s1]| | |] eqn:Eq.
  - destruct (proj1 (sound_all_rk p rk Hrk fuel) inp [] CCUser None n _ o fr s1
                (CInv_log p inp s [] HI) (RStkOk_nil rk n) Eq) as [HI1 [i (Hi & Hv & Ho & _)]].
    subst o. inversion H. subst. cbn [r_out] in Hr. inversion Hr. subst.
    eapply ci_ver_sound; eauto.
  - inversion H. subst. discriminate.
  - inversion H. subst. discriminate.
  - inversion H. subst. discriminate.
Qed.

Lemma run_sound : forall fuel ops s inp i n r z,
  CInv p inp s ->
  (forall k sets b rk0, (k < i)%nat -> nth_error ops k = Some (OSession sets b) ->
     nth_error (crun_history_f fuel p s ops) k = Some rk0 -> r_out rk0 <> RFuel) ->
  nth_error ops i = Some (OQuery n) ->
  nth_error (crun_history_f fuel p s ops) i = Some r ->
  r_out r = RValue z ->
  SpecI p (fold_left apply_op (firstn i ops) inp) n z.
Proof.
  intros fuel. induction ops as [|o rest IH]; intros s inp i n r z HI Hfuel Hop Hres Hz.
  - destruct i; discriminate.
  - cbn [crun_history_f] in Hres, Hfuel. destruct (cstep_f fuel p s o) as [s' x] eqn:Es.
    destruct i as [|i].
    + cbn in Hop, Hres. inversion Hop. inversion Hres. subst. cbn [firstn fold_left].
      eapply cstep_query_sound; eauto.
    + cbn [nth_error firstn fold_left] in *. eapply IH; eauto.
      * eapply cstep_inv; eauto. intros sets b ->. apply (Hfuel 0%nat sets b x); [lia|reflexivity|reflexivity].
      * intros k sets b rk0 Hk Hk1 Hk2. apply (Hfuel (S k) sets b rk0); [lia|exact Hk1|exact Hk2].
Qed.
End Steps.

Theorem C01_core_sound : C01_core_statement.
Proof.
  intros fuel p ops i n r z Hwf Hfuel Hop Hres Hz.
  destruct (wf_core_rank p Hwf) as [rk Hrk]. apply Spec_SpecI.
  unfold inputs_after. eapply (run_sound p rk Hrk); eauto. apply CInv_init.
Qed.

(** the guard on fuel is needed: with too little fuel for the dirty propagation of a
    session, later answers are stale *)
Definition cex_I0 := mkNode KInput 0.
Definition cex_N0 := mkNode KNormal 0.
Definition cex_prog : program := [(cex_N0, ERead cex_I0)].
Fixpoint cex_alt (k : nat) : list (N * Z) :=
  match k with O => [] | S k' => (0%N, 5) :: (0%N, 2) :: cex_alt k' end.
Definition cex_hist : list op :=
  [OSession [(0%N, 1)] false; OQuery cex_N0; OSession (cex_alt 30) false; OQuery cex_N0].

Lemma cex_prog_wf : wf_core cex_prog.
Proof.
  split.
  - intros n e [H|[]]. inversion H. subst. split; reflexivity.
  - cbn. constructor; [intros []|constructor].
  - intros n e d [H|[]] Hd. inversion H. subst. destruct Hd as [<-|[]]. left. reflexivity.
  - exists (fun _ => O). intros n e d [H|[]] Hd K. inversion H. subst. destruct Hd as [<-|[]]. discriminate.
Qed.

Theorem C01_core_statement_unguarded_refuted : ~ C01_core_statement_unguarded.
Proof.
  intro H.
  specialize (H 5%nat cex_prog cex_hist 3%nat cex_N0
                (mkRes (RValue 1) [] (Some 0%N)) 1 cex_prog_wf eq_refl).
  assert (Hrun : nth_error (crun_history_f 5 cex_prog cinit cex_hist) 3 =
                 Some (mkRes (RValue 1) [] (Some 0%N))) by (vm_compute; reflexivity).
  specialize (H Hrun eq_refl). apply Spec_SpecI in H.
  assert (H2 : SpecI cex_prog (inputs_after (firstn 3 cex_hist)) cex_N0 2).
  { apply Spec_SpecI. exists 5%nat. vm_compute. reflexivity. }
  pose proof (SpecI_det _ _ _ _ _ H H2). discriminate.
Qed.

(** * C03, "at most once": holds for every program, every fuel, without the invariant *)
Section Once.
Variable p : program.

Lemma cstep_query_mono : forall fuel s n s' x,
  cstep_f fuel p s (OQuery n) = (s', x) ->
  (s' = cset_log s [] /\ r_execs x = []) \/
  (MonoR [] (cset_log s []) s' /\ r_execs x = rev (cs_log s')).
Proof.
  intros fuel s n s' x H. unfold cstep_f in H.
  destruct (cquery p fuel [] CCUser None n (cset_log s [])) as [[[o fr] s1]| | |] eqn:Eq.
  - right. apply (proj1 (mono_all p fuel)) in Eq. destruct o; inversion H; subst; auto.
  - left. inversion H. auto.
  - left. inversion H. auto.
  - left. inversion H. auto.
Qed.

Lemma cstep_execs : forall fuel s o s' x m,
  cstep_f fuel p s o = (s', x) -> In m (r_execs x) -> verified s' m /\ ~ verified s m.
Proof.
  intros fuel s o s' x m H Hm. destruct o as [sets b|n|w v|].
  - rewrite cstep_session in H. cbv zeta in H.
    destruct (fold_left sess_step sets (cset_ts (cset_log s []) (cs_ts (cset_log s []) + 1)%N, [], []))
      as [[s1 rs] batch].
    destruct (cpropagate (fuel * 10) (cset_visited (cset_stat s1 0%N) []) batch); inversion H; subst; destruct Hm.
  - destruct (cstep_query_mono _ _ _ _ _ H) as [[_ E]|[HM E]]; rewrite E in Hm; [destruct Hm|].
    apply in_rev in Hm. destruct (mr_log _ _ _ HM) as [new [L [_ P]]]. cbn [cset_log cs_log] in L.
    rewrite app_nil_r in L. rewrite L in Hm. destruct (P m Hm) as (_ & A & B). split; [exact B|exact A].
  - cbn in H. inversion H. subst. destruct Hm.
  - cbn in H. inversion H. subst. destruct Hm.
Qed.

Lemma cstep_nodup : forall fuel s o s' x, cstep_f fuel p s o = (s', x) -> NoDup (r_execs x).
Proof.
  intros fuel s o s' x H. destruct o as [sets b|n|w v|].
  - rewrite cstep_session in H. cbv zeta in H.
    destruct (fold_left sess_step sets (cset_ts (cset_log s []) (cs_ts (cset_log s []) + 1)%N, [], []))
      as [[s1 rs] batch].
    destruct (cpropagate (fuel * 10) (cset_visited (cset_stat s1 0%N) []) batch); inversion H; subst; constructor.
  - destruct (cstep_query_mono _ _ _ _ _ H) as [[_ E]|[HM E]]; rewrite E; [constructor|].
    destruct (mr_log _ _ _ HM) as [new [L [N _]]]. cbn [cset_log cs_log] in L.
    rewrite app_nil_r in L. rewrite L. apply NoDup_rev. exact N.
  - cbn in H. inversion H. subst. constructor.
  - cbn in H. inversion H. subst. constructor.
Qed.

Lemma cstep_keeps_verified : forall fuel s o s' x m,
  cstep_f fuel p s o = (s', x) -> (forall sets b, o <> OSession sets b) ->
  verified s m -> verified s' m.
Proof.
  intros fuel s o s' x m H Hns Hv. destruct o as [sets b|n|w v|].
  - exfalso. eapply Hns. reflexivity.
  - destruct (cstep_query_mono _ _ _ _ _ H) as [[-> _]|[HM _]]; [exact Hv|].
    eapply verified_mono; [exact HM|]. exact Hv.
  - cbn in H. inversion H. subst. exact Hv.
  - cbn in H. inversion H. subst. exact Hv.
Qed.

Lemma run_nodup : forall fuel ops s i r,
  nth_error (crun_history_f fuel p s ops) i = Some r -> NoDup (r_execs r).
Proof.
  intros fuel. induction ops as [|o rest IH]; intros s i r H; [destruct i; discriminate|].
  cbn [crun_history_f] in H. destruct (cstep_f fuel p s o) as [s' x] eqn:Es. destruct i as [|i].
  - cbn in H. inversion H. subst. eapply cstep_nodup; eauto.
  - cbn [nth_error] in H. eapply IH; eauto.
Qed.

Lemma run_verified_not_executed : forall fuel ops s i m,
  verified s m ->
  (forall k sets b, (k <= i)%nat -> nth_error ops k <> Some (OSession sets b)) ->
  ~ executed_at (crun_history_f fuel p s ops) i m.
Proof.
  intros fuel. induction ops as [|o rest IH]; intros s i m Hv Hns [r [Hr Hm]]; [destruct i; discriminate|].
  cbn [crun_history_f] in Hr. destruct (cstep_f fuel p s o) as [s' x] eqn:Es. destruct i as [|i].
  - cbn in Hr. inversion Hr. subst. destruct (cstep_execs _ _ _ _ _ _ Es Hm) as [_ K]. contradiction.
  - cbn [nth_error] in Hr. apply (IH s' i m).
    + eapply cstep_keeps_verified; eauto. intros sets b ->. apply (Hns 0%nat sets b); [lia|reflexivity].
    + intros k sets b Hk. apply (Hns (S k) sets b). lia.
    + exists r. auto.
Qed.

Lemma run_once : forall fuel ops s j i m,
  (j < i)%nat ->
  executed_at (crun_history_f fuel p s ops) i m ->
  executed_at (crun_history_f fuel p s ops) j m ->
  ~ no_session_between ops j i.
Proof.
  intros fuel. induction ops as [|o rest IH]; intros s j i m Hji Hi Hj Hns.
  - destruct Hj as [r [Hr _]]. destruct j; discriminate.
  - destruct Hi as [ri [Hri Hmi]]. destruct Hj as [rj [Hrj Hmj]].
    cbn [crun_history_f] in Hri, Hrj. destruct (cstep_f fuel p s o) as [s' x] eqn:Es.
    destruct i as [|i]; [lia|]. cbn [nth_error] in Hri. destruct j as [|j].
    + cbn in Hrj. inversion Hrj. subst. destruct (cstep_execs _ _ _ _ _ _ Es Hmj) as [Hv _].
      apply (run_verified_not_executed fuel rest s' i m Hv).
      * intros k sets b Hk. apply (Hns (S k) sets b). lia.
      * exists ri. auto.
    + cbn [nth_error] in Hrj. apply (IH s' j i m); [lia|exists ri; auto|exists rj; auto|].
      intros k sets b Hk. apply (Hns (S k) sets b). lia.
Qed.
End Once.

Theorem C03_core_once : C03_core_once_statement.
Proof.
  intros fuel p ops i j m r _. cbv zeta. split.
  - apply run_nodup.
  - intros Hji Hi Hj. eapply run_once; eauto.
Qed.

(** * C03, "justified": a re-execution is caused by a dependency of the previous execution
    whose from-scratch value has changed *)
Lemma cpropagate_nodes : forall fuel s work s', cpropagate fuel s work = Ok s' -> cs_nodes s' = cs_nodes s.
Proof.
  induction fuel as [|f IH]; intros s work s' H; [discriminate|]. cbn [cpropagate] in H.
  destruct work as [|x r]; [inversion H; reflexivity|].
  destruct (nmem x (cs_visited s)); [eapply IH; eauto|].
  destruct (cmark (cset_visited s (x :: cs_visited s)) x (ccallers (cset_visited s (x :: cs_visited s)) x) r)
    as [s2 work'] eqn:Em.
  apply cmark_spec in Em. destruct Em as (_ & B & _). apply IH in H. rewrite H, B. reflexivity.
Qed.

Lemma sess_fold_other : forall sets cur rs batch cur' rs' batch',
  fold_left sess_step sets (cur, rs, batch) = (cur', rs', batch') ->
  forall m, nkind m <> KInput -> cget cur' m = cget cur m.
Proof.
  induction sets as [|[v x] r IH]; intros cur rs batch cur' rs' batch' H m Hm; cbn [fold_left] in H.
  - inversion H. reflexivity.
  - rewrite sess_step_eq in H. rewrite (IH _ _ _ _ _ _ H m Hm). rewrite cset_input_cget.
    destruct (node_eqb_spec (mkNode KInput v) m) as [<-|Hne]; [exfalso; apply Hm; reflexivity|reflexivity].
Qed.

Section Justify.
Variable p : program.
Variable rk : node -> nat.
Hypothesis Hrk : forall n e d, alookup p n = Some e -> In d (expr_reads e) -> (rk d < rk n)%nat.
Hypothesis Hkeys : forall n e, alookup p n = Some e -> nkind n = KNormal.

Lemma cstep_keeps_info : forall fuel s o s' x m i,
  cstep_f fuel p s o = (s', x) -> ~ In m (r_execs x) -> nkind m = KNormal -> cget s m = Some i ->
  exists i', cget s' m = Some i' /\ c_fwd i' = c_fwd i /\ c_obs i' = c_obs i.
Proof.
  intros fuel s o s' x m i H Hm Hk Hi. destruct o as [sets b|n|w v|].
  - rewrite cstep_session in H. cbv zeta in H.
    destruct (fold_left sess_step sets (cset_ts (cset_log s []) (cs_ts (cset_log s []) + 1)%N, [], []))
      as [[s1 rs] batch] eqn:Ef.
    assert (E1 : cget s1 m = Some i).
    { rewrite (sess_fold_other _ _ _ _ _ _ _ Ef m) by congruence. exact Hi. }
    destruct (cpropagate (fuel * 10) (cset_visited (cset_stat s1 0%N) []) batch) as [s4| | |] eqn:Ep;
      inversion H; subst; try (exists i; auto; fail).
    exists i. split; [|auto]. unfold cget. rewrite (cpropagate_nodes _ _ _ _ Ep). exact E1.
  - destruct (cstep_query_mono _ _ _ _ _ _ H) as [[-> _]|[HM E]]; [exists i; auto|].
    destruct (mr_info _ _ _ HM m i Hi) as [i' [Hi' [[A B]|K]]]; [exists i'; auto|].
    exfalso. apply Hm. rewrite E. apply in_rev. rewrite rev_involutive. exact K.
  - cbn in H. inversion H. subst. exists i. auto.
  - cbn in H. inversion H. subst. exists i. auto.
Qed.

Lemma ExecInfo_step : forall fuel s o s' x m inpm,
  cstep_f fuel p s o = (s', x) -> ~ In m (r_execs x) ->
  ExecInfo p inpm s m -> ExecInfo p inpm s' m.
Proof.
  intros fuel s o s' x m inpm H Hm [i [b (A & B & C)]].
  destruct (cstep_keeps_info _ _ _ _ _ _ _ H Hm (Hkeys _ _ B) A) as [i' (A' & F & O)].
  exists i', b. split; [exact A'|]. split; [exact B|]. rewrite F, O. exact C.
Qed.

Lemma cstep_query_logp : forall fuel s n s' x inp m,
  CInv p inp s -> cstep_f fuel p s (OQuery n) = (s', x) -> In m (r_execs x) ->
  Justified p inp s m /\ ExecInfo p inp s' m.
Proof.
  intros fuel s n s' x inp m HI H Hm. unfold cstep_f in H.
  destruct (cquery p fuel [] CCUser None n (cset_log s [])) as [[[o fr] s1]| | |] eqn:Eq.
  - pose proof (proj1 (just_all_rk p rk Hrk fuel) inp [] CCUser None n _ o fr s1
                  (CInv_log p inp s [] HI) (RStkOk_nil rk n) Eq) as L.
    assert (E : s' = s1 /\ r_execs x = rev (cs_log s1)) by (destruct o; inversion H; subst; auto).
    destruct E as [-> E]. rewrite E in Hm. apply in_rev in Hm.
    apply (L (cs_log s1)); [cbn [cset_log cs_log]; rewrite app_nil_r; reflexivity|exact Hm].
  - inversion H. subst. destruct Hm.
  - inversion H. subst. destruct Hm.
  - inversion H. subst. destruct Hm.
Qed.

Lemma execs_query : forall fuel s o s' x m,
  cstep_f fuel p s o = (s', x) -> In m (r_execs x) -> exists n, o = OQuery n.
Proof.
  intros fuel s o s' x m H Hm. destruct o as [sets b|n|w v|].
  - rewrite cstep_session in H. cbv zeta in H.
    destruct (fold_left sess_step sets (cset_ts (cset_log s []) (cs_ts (cset_log s []) + 1)%N, [], []))
      as [[s1 rs] batch].
    destruct (cpropagate (fuel * 10) (cset_visited (cset_stat s1 0%N) []) batch); inversion H; subst; destruct Hm.
  - eauto.
  - cbn in H. inversion H. subst. destruct Hm.
  - cbn in H. inversion H. subst. destruct Hm.
Qed.

Definition fuelled_from (fuel : nat) (s : cstate) (ops : list op) (i : nat) : Prop :=
  forall k sets b rk0, (k < i)%nat -> nth_error ops k = Some (OSession sets b) ->
    nth_error (crun_history_f fuel p s ops) k = Some rk0 -> r_out rk0 <> RFuel.

Lemma fuelled_from_tail : forall fuel s o rest s' x i,
  cstep_f fuel p s o = (s', x) -> fuelled_from fuel s (o :: rest) (S i) -> fuelled_from fuel s' rest i.
Proof.
  intros fuel s o rest s' x i Es H k sets b rk0 Hk H1 H2. apply (H (S k) sets b rk0); [lia|exact H1|].
  cbn [crun_history_f]. rewrite Es. exact H2.
Qed.

Lemma fuelled_from_head : forall fuel s o rest s' x i sets b,
  cstep_f fuel p s o = (s', x) -> fuelled_from fuel s (o :: rest) (S i) -> o = OSession sets b -> r_out x <> RFuel.
Proof.
  intros fuel s o rest s' x i sets b Es H ->. apply (H 0%nat sets b x); [lia|reflexivity|].
  cbn [crun_history_f]. rewrite Es. reflexivity.
Qed.

Lemma run_justified_from : forall fuel ops s inp inpm i m,
  CInv p inp s -> ExecInfo p inpm s m -> fuelled_from fuel s ops i ->
  executed_at (crun_history_f fuel p s ops) i m ->
  (forall k, (k < i)%nat -> ~ executed_at (crun_history_f fuel p s ops) k m) ->
  exists b d, alookup p m = Some b /\ srd p inpm b d /\
    forall v, SpecI p inpm d v -> ~ SpecI p (fold_left apply_op (firstn (S i) ops) inp) d v.
Proof.
  intros fuel. induction ops as [|o rest IH]; intros s inp inpm i m HI HX Hfuel [r [Hr Hm]] Hno.
  - destruct i; discriminate.
  - cbn [crun_history_f] in Hr, Hno. destruct (cstep_f fuel p s o) as [s' x] eqn:Es. destruct i as [|i].
    + cbn in Hr. inversion Hr. subst x. destruct (execs_query _ _ _ _ _ _ Es Hm) as [n ->].
      destruct (cstep_query_logp _ _ _ _ _ _ _ HI Es Hm) as [J _].
      destruct HX as [i0 [b (A & B & C)]]. destruct J as [J|[i1 [J1 (d & ov & v & D1 & D2 & D3 & D4)]]]; [congruence|].
      assert (i1 = i0) by congruence. subst i1. destruct (C d D1) as [R [v' [O1 O2]]].
      assert (v' = ov) by congruence. subst v'.
      exists b, d. split; [exact B|]. split; [exact R|]. cbn [firstn fold_left apply_op].
      intros w W1 W2. rewrite (SpecI_det _ _ _ _ _ W1 O2) in W2. apply D4. eapply SpecI_det; eauto.
    + cbn [nth_error] in Hr.
      assert (Hnx : ~ In m (r_execs x)).
      { intro K. apply (Hno 0%nat); [lia|]. exists x. split; [reflexivity|exact K]. }
      cbn [firstn fold_left].
      apply (IH s' (apply_op inp o) inpm i m).
      * eapply cstep_inv; eauto. intros sets b0 E. eapply fuelled_from_head; eauto.
      * eapply ExecInfo_step; eauto.
      * eapply fuelled_from_tail; eauto.
      * exists r. auto.
      * intros k Hk [rk0 [K1 K2]]. apply (Hno (S k)); [lia|]. exists rk0. auto.
Qed.

Lemma run_justified : forall fuel ops s inp j i m,
  CInv p inp s -> fuelled_from fuel s ops i -> (j < i)%nat ->
  executed_at (crun_history_f fuel p s ops) i m ->
  executed_at (crun_history_f fuel p s ops) j m ->
  (forall k, (j < k < i)%nat -> ~ executed_at (crun_history_f fuel p s ops) k m) ->
  exists b d, alookup p m = Some b /\ srd p (fold_left apply_op (firstn (S j) ops) inp) b d /\
    forall v, SpecI p (fold_left apply_op (firstn (S j) ops) inp) d v ->
              ~ SpecI p (fold_left apply_op (firstn (S i) ops) inp) d v.
Proof.
  intros fuel. induction ops as [|o rest IH]; intros s inp j i m HI Hfuel Hji [ri [Hri Hmi]] [rj [Hrj Hmj]] Hno.
  - destruct j; discriminate.
  - cbn [crun_history_f] in Hri, Hrj, Hno. destruct (cstep_f fuel p s o) as [s' x] eqn:Es.
    destruct i as [|i]; [lia|]. cbn [nth_error] in Hri.
    assert (HI' : CInv p (apply_op inp o) s').
    { eapply cstep_inv; eauto. intros sets b0 E. eapply fuelled_from_head; eauto. }
    pose proof (fuelled_from_tail _ _ _ _ _ _ _ Es Hfuel) as Hfuel'.
    destruct j as [|j].
    + cbn in Hrj. inversion Hrj. subst x. destruct (execs_query _ _ _ _ _ _ Es Hmj) as [n ->].
      destruct (cstep_query_logp _ _ _ _ _ _ _ HI Es Hmj) as [_ X].
      cbn [firstn fold_left apply_op] in *.
      apply (run_justified_from fuel rest s' inp inp i m HI' X Hfuel').
      * exists ri. auto.
      * intros k Hk [rk0 [K1 K2]]. apply (Hno (S k)); [lia|]. exists rk0. auto.
    + cbn [nth_error] in Hrj. cbn [firstn fold_left].
      apply (IH s' (apply_op inp o) j i m HI' Hfuel'); [lia|exists ri; auto|exists rj; auto|].
      intros k Hk [rk0 [K1 K2]]. apply (Hno (S k)); [lia|]. exists rk0. auto.
Qed.
End Justify.

Theorem C03_core_justified : C03_core_justified_statement.
Proof.
  intros fuel p ops i j m Hwf Hfuel. cbv zeta. intros Hi Hji Hj Hno.
  destruct (wf_core_rank p Hwf) as [rk Hrk].
  assert (Hkeys : forall n e, alookup p n = Some e -> nkind n = KNormal).
  { intros n e He. apply alookup_In in He. apply (wf_keys p Hwf n e He). }
  destruct (run_justified p rk Hrk Hkeys fuel ops cinit [] j i m (CInv_init p) Hfuel Hji Hi Hj Hno)
    as [b [d (B & R & S)]].
  exists d. split.
  - eapply srd_Reads; eauto.
  - intros v V1 V2. apply Spec_SpecI in V1. apply Spec_SpecI in V2. exact (S v V1 V2).
Qed.

(** * no panic *)
Section NoPanic.
Variable p : program.
Variable rk : node -> nat.
Hypothesis Hrk : forall n e d, alookup p n = Some e -> In d (expr_reads e) -> (rk d < rk n)%nat.
Hypothesis Hnog : forall n e, alookup p n = Some e -> no_group e = true.
Hypothesis Htargets : forall n e d, alookup p n = Some e -> In d (expr_reads e) ->
  nkind d = KInput \/ (nkind d = KNormal /\ alookup p d <> None).

(** the structural invariant is kept by every operation, whatever the fuel *)
Lemma cstep_sinv : forall fuel s o s' r inp,
  SInv p inp s -> cstep_f fuel p s o = (s', r) -> SInv p (apply_op inp o) s'.
Proof.
  intros fuel s o s' r inp HS H. destruct o as [sets b|n|w v|].
  - rewrite cstep_session in H. cbv zeta in H.
    destruct (fold_left sess_step sets (cset_ts (cset_log s []) (cs_ts (cset_log s []) + 1)%N, [], []))
      as [[s1 rs] batch] eqn:Ef.
    assert (HS1 : SInv p (apply_op inp (OSession sets b)) s1).
    { cbn [apply_op]. eapply SInv_sess_fold; [|exact Ef]. eapply SInv_nodes; [|exact HS]. reflexivity. }
    destruct (cpropagate (fuel * 10) (cset_visited (cset_stat s1 0%N) []) batch) as [s4| | |] eqn:Ep;
      inversion H; subst; try (eapply SInv_nodes; [|exact HS1]; reflexivity).
    eapply SInv_nodes; [|exact HS1]. rewrite (cpropagate_nodes _ _ _ _ Ep). reflexivity.
  - unfold cstep_f in H. cbn [apply_op].
    pose proof (proj1 (prog_all p Hnog Htargets (RStkOk rk) (RStkOk_notin rk) (RStkOk_push p rk Hrk) inp fuel) [] CCUser None n (cset_log s [])
                  (SInv_nodes p inp s (cset_log s []) eq_refl HS) (RStkOk_nil rk n)) as P.
    destruct (cquery p fuel [] CCUser None n (cset_log s [])) as [[[o fr] s1]| | |] eqn:Eq.
    + destruct P as [HS1 _]. destruct o; inversion H; subst; exact HS1.
    + inversion H. subst. eapply SInv_nodes; [|exact HS]. reflexivity.
    + inversion H. subst. eapply SInv_nodes; [|exact HS]. reflexivity.
    + inversion H. subst. eapply SInv_nodes; [|exact HS]. reflexivity.
  - cbn in H. inversion H. subst. cbn [apply_op]. eapply SInv_nodes; [|exact HS]. reflexivity.
  - cbn in H. inversion H. subst. cbn [apply_op]. eapply SInv_nodes; [|exact HS]. reflexivity.
Qed.

Lemma cstep_query_fine : forall fuel s n s' r inp,
  SInv p inp s -> Cov p inp -> nkind n = KNormal -> alookup p n <> None ->
  cstep_f fuel p s (OQuery n) = (s', r) ->
  (exists z, r_out r = RValue z) \/ r_out r = RFuel.
Proof.
  intros fuel s n s' r inp HS Hc Hk Hp H. unfold cstep_f in H.
  pose proof (proj1 (prog_all p Hnog Htargets (RStkOk rk) (RStkOk_notin rk) (RStkOk_push p rk Hrk) inp fuel) [] CCUser None n (cset_log s [])
                (SInv_nodes p inp s (cset_log s []) eq_refl HS) (RStkOk_nil rk n)) as P.
  destruct (cquery p fuel [] CCUser None n (cset_log s [])) as [[[o fr] s1]| | |] eqn:Eq.
  - destruct P as [_ [i (_ & Ho & _)]]. subst o. inversion H. subst. left. eexists. reflexivity.
  - inversion H. subst. right. reflexivity.
  - exfalso. apply P. split; [exact Hc|]. right. auto.
  - exfalso. apply P. split; [exact Hc|]. right. auto.
Qed.

Lemma run_no_panic : forall fuel ops s inp i n r,
  SInv p inp s -> nth_error ops i = Some (OQuery n) -> nkind n = KNormal -> alookup p n <> None ->
  nth_error (crun_history_f fuel p s ops) i = Some r ->
  Cov p (fold_left apply_op (firstn i ops) inp) ->
  (exists z, r_out r = RValue z) \/ r_out r = RFuel.
Proof.
  intros fuel. induction ops as [|o rest IH]; intros s inp i n r HS Hop Hk Hp Hres Hc.
  - destruct i; discriminate.
  - cbn [crun_history_f] in Hres. destruct (cstep_f fuel p s o) as [s' x] eqn:Es. destruct i as [|i].
    + cbn in Hop, Hres, Hc. inversion Hop. inversion Hres. subst. eapply cstep_query_fine; eauto.
    + cbn [nth_error firstn fold_left] in *.
      apply (IH s' (apply_op inp o) i n r); auto. eapply cstep_sinv; eauto.
Qed.
End NoPanic.

Theorem C01_core_no_panic : C01_core_no_panic_statement.
Proof.
  intros fuel p ops i n r Hwf Hop Hp Hres Hcov.
  destruct (wf_core_rank p Hwf) as [rk Hrk].
  assert (Hkeys : forall m e, alookup p m = Some e -> nkind m = KNormal /\ no_group e = true).
  { intros m e He. apply alookup_In in He. apply (wf_keys p Hwf m e He). }
  assert (Htargets : forall m e d, alookup p m = Some e -> In d (expr_reads e) ->
            nkind d = KInput \/ (nkind d = KNormal /\ alookup p d <> None)).
  { intros m e d He Hd. apply alookup_In in He. apply (wf_targets p Hwf m e d He Hd). }
  assert (Hk : nkind n = KNormal).
  { destruct (alookup p n) as [e|] eqn:Ee; [|congruence]. apply (Hkeys n e Ee). }
  eapply (run_no_panic p rk Hrk (fun m e He => proj2 (Hkeys m e He)) Htargets fuel ops cinit [] i n r); eauto.
  - apply SInv_init.
  - intros m e d He Hd Kd. apply alookup_In in He. apply (Hcov m e d He Hd Kd).
Qed.

(** the guard on fuel is also needed for the justification of re-executions *)
Definition cex3_prog : program :=
  [ (mkNode KNormal 0, EAdd (ERead (mkNode KInput 0)) (ERead (mkNode KInput 1)));
    (mkNode KNormal 1, EAdd (ERead (mkNode KNormal 0)) (ERead (mkNode KInput 2)));
    (mkNode KNormal 2, ERead (mkNode KNormal 1)) ].
Definition cex3_hist : list op :=
  [OSession [(0%N, 1); (1%N, 1); (2%N, 0)] false; OQuery (mkNode KNormal 2);
   OSession (cex_alt 110) false; OSession [(2%N, -1)] false; OQuery (mkNode KNormal 2)].

Ltac wf_cases H := repeat (destruct H as [H|H]; [inversion H; subst; clear H|]); try destruct H.
Ltac in_cases H := cbn in H; repeat (destruct H as [H|H]; [subst|]); try destruct H.

Lemma cex3_prog_wf : wf_core cex3_prog.
Proof.
  split.
  - intros n e H. wf_cases H; split; reflexivity.
  - cbn. repeat constructor; cbn; intuition discriminate.
  - intros n e d H Hd. wf_cases H; in_cases Hd; (left; reflexivity) || (right; split; [reflexivity|discriminate]).
  - exists (fun n => N.to_nat (nidx n)). intros n e d H Hd K. wf_cases H; in_cases Hd; try discriminate K; cbn; lia.
Qed.

Theorem C03_core_justified_statement_unguarded_refuted : ~ C03_core_justified_statement_unguarded.
Proof.
  intro H.
  specialize (H 20%nat cex3_prog cex3_hist 4%nat 1%nat (mkNode KNormal 2) cex3_prog_wf). cbv zeta in H.
  assert (E : crun_history_f 20 cex3_prog cinit cex3_hist =
              [mkRes (RSession [SFresh; SFresh; SFresh]) [] None;
               mkRes (RValue 2) [mkNode KNormal 2; mkNode KNormal 1; mkNode KNormal 0] (Some 0%N);
               mkRes RFuel [] None;
               mkRes (RSession [SUpdated]) [] None;
               mkRes (RValue 1) [mkNode KNormal 1; mkNode KNormal 2] (Some 2%N)]) by (vm_compute; reflexivity).
  rewrite E in H. clear E.
  destruct H as [d [[f [b [Hb Hd]]] Hv]].
  - eexists. split; [reflexivity|]. right. left. reflexivity.
  - lia.
  - eexists. split; [reflexivity|]. left. reflexivity.
  - intros k Hk [r [Hr Hm]]. assert (k = 2%nat \/ k = 3%nat) as [-> | ->] by lia; cbn in Hr; inversion Hr; subst; destruct Hm.
  - cbn in Hb. inversion Hb. subst b.
    assert (d = mkNode KNormal 1).
    { destruct f as [|f]; [destruct Hd|]. cbn in Hd. destruct Hd as [<-|[]]. reflexivity. }
    subst d. apply (Hv 2).
    + exists 20%nat. vm_compute. reflexivity.
    + exists 20%nat. vm_compute. reflexivity.
Qed.

(** * examples *)
Definition ex_I (k : N) := mkNode KInput k.
Definition ex_N (k : N) := mkNode KNormal k.
(** N0 reads I1 or I2 depending on I0 (a conditional dependency); N1 can cut a change off *)
Definition ex_prog : program :=
  [ (ex_N 0, EIf (ELt (ERead (ex_I 0)) (EConst 10)) (ERead (ex_I 1)) (ERead (ex_I 2)));
    (ex_N 1, EMod (EAdd (ERead (ex_N 0)) (ERead (ex_I 0))) 4);
    (ex_N 2, EMul (ERead (ex_N 1)) (EConst 3)) ].

Example ex_prog_wf : wf_core ex_prog.
Proof.
  split.
  - intros n e H. wf_cases H; split; reflexivity.
  - cbn. repeat constructor; cbn; intuition discriminate.
  - intros n e d H Hd. wf_cases H; in_cases Hd; (left; reflexivity) || (right; split; [reflexivity|discriminate]).
  - exists (fun n => N.to_nat (nidx n)). intros n e d H Hd K. wf_cases H; in_cases Hd; try discriminate K; cbn; lia.
Qed.

Definition ex_hist : list op :=
  [ OSession [(0%N, 1); (1%N, 5); (2%N, 9)] false; OQuery (ex_N 2);
    OSession [(1%N, 6)] false; OQuery (ex_N 2);          (* a value change *)
    OSession [(1%N, 6)] false; OQuery (ex_N 2);          (* an unchanged write *)
    OSession [(1%N, 5)] false; OQuery (ex_N 2);          (* a revert *)
    OSession [(1%N, 9)] false; OQuery (ex_N 2);          (* cut off at N1: (9+1) mod 4 = (5+1) mod 4 *)
    OSession [(0%N, 20)] false; OQuery (ex_N 2);         (* the condition flips: N0 now depends on I2 *)
    OSession [(1%N, 0)] false; OQuery (ex_N 2) ].        (* I1 is no longer a dependency *)

Example ex_run :
  map (fun r => (r_out r, map nidx (r_execs r))) (crun_history ex_prog cinit ex_hist) =
  [ (RSession [SFresh; SFresh; SFresh], []); (RValue 6, [2; 1; 0]%N);
    (RSession [SUpdated], []);   (RValue 9, [0; 1; 2]%N);
    (RSession [SUnchanged], []); (RValue 9, []);
    (RSession [SUpdated], []);   (RValue 6, [0; 1; 2]%N);
    (RSession [SUpdated], []);   (RValue 6, [0; 1]%N);
    (RSession [SUpdated], []);   (RValue 3, [0; 1; 2]%N);
    (RSession [SUpdated], []);   (RValue 3, []) ].
Proof. vm_compute. reflexivity. Qed.

Example ex_spec_last : Spec ex_prog (inputs_after ex_hist) (ex_N 2) 3.
Proof. exists 10%nat. vm_compute. reflexivity. Qed.
