(** Soundness of the core engine model (C01 on the core fragment) and the re-execution
    properties (C03 on the core fragment).  The statements are in [Engine/CoreSpec.v]. *)
From QV Require Import Common.Prelude Engine.Model Engine.Core Engine.CoreSpec
  Engine.CoreInvBase Engine.CoreInvSem Engine.CoreInvMono Engine.CoreInvState
  Engine.CoreInvRun Engine.CoreInvCommit.
Open Scope Z_scope.

(** * well-formed programs have a strictly decreasing rank over all nodes *)
Lemma wf_core_rank : forall p, wf_core p ->
  exists rk : node -> nat, forall n e d, alookup p n = Some e -> In d (expr_reads e) -> (rk d < rk n)%nat.
Proof.
  intros p [Hkeys _ Htargets [rank Hrank]].
  exists (fun n => match nkind n with KNormal => S (rank n) | _ => O end).
  intros n e d He Hd. apply alookup_In in He. destruct (Hkeys n e He) as [Kn _]. rewrite Kn.
  destruct (Htargets n e d He Hd) as [Kd|[Kd _]]; rewrite Kd; [lia|].
  specialize (Hrank n e d He Hd Kd). lia.
Qed.

Section Steps.
Variable p : program.
Variable rk : node -> nat.
Hypothesis Hrk : forall n e d, alookup p n = Some e -> In d (expr_reads e) -> (rk d < rk n)%nat.

Lemma StkOk_nil : forall n, StkOk rk [] n.
Proof. intros n m []. Qed.

(** one operation keeps the invariant (a session must not have run out of fuel) *)
Lemma cstep_inv : forall fuel s o s' r inp,
  CInv p inp s -> cstep_f fuel p s o = (s', r) ->
  (forall sets b, o = OSession sets b -> r_out r <> RFuel) ->
  CInv p (apply_op inp o) s'.
Proof.
  intros fuel s o s' r inp HI H Hfuel. destruct o as [sets b|n|w v|].
  - rewrite cstep_session in H. cbv zeta in H.
    destruct (fold_left sess_step sets (cset_ts (cset_log s []) (cs_ts (cset_log s []) + 1)%N, [], []))
      as [[s1 rs] batch] eqn:Ef.
    destruct (cpropagate (fuel * 10) (cset_visited (cset_stat s1 0%N) []) batch) as [s4| | |] eqn:Ep;
      inversion H; subst; try (exfalso; eapply Hfuel; eauto; reflexivity).
    cbn [apply_op]. eapply (CInv_commit p rk Hrk inp (cset_log s [])); eauto. apply CInv_log. exact HI.
  - unfold cstep_f in H. cbn [apply_op].
    destruct (cquery p fuel [] CCUser None n (cset_log s [])) as [[[o fr] s1]| | |] eqn:Eq.
    + destruct (proj1 (sound_all p rk Hrk fuel) inp [] CCUser None n _ o fr s1
                  (CInv_log p inp s [] HI) (StkOk_nil n) Eq) as [HI1 _].
      destruct o; inversion H; subst; exact HI1.
    + inversion H. subst. apply CInv_log. exact HI.
    + inversion H. subst. apply CInv_log. exact HI.
    + inversion H. subst. apply CInv_log. exact HI.
  - cbn in H. inversion H. subst. cbn [apply_op]. apply CInv_log. exact HI.
  - cbn in H. inversion H. subst. cbn [apply_op]. apply CInv_log. exact HI.
Qed.

(** a value answered by a query is the from-scratch value *)
Lemma cstep_query_sound : forall fuel s n s' r inp z,
  CInv p inp s -> cstep_f fuel p s (OQuery n) = (s', r) -> r_out r = RValue z -> SpecI p inp n z.
Proof.
  intros fuel s n s' r inp z HI H Hr. unfold cstep_f in H.
  destruct (cquery p fuel [] CCUser None n (cset_log s [])) as [[[o fr] s1]| | |] eqn:Eq.
  - destruct (proj1 (sound_all p rk Hrk fuel) inp [] CCUser None n _ o fr s1
                (CInv_log p inp s [] HI) (StkOk_nil n) Eq) as [HI1 [i (Hi & Hv & Ho & _)]].
    subst o. inversion H. subst. cbn [r_out] in Hr. inversion Hr. subst.
    eapply ci_ver_sound; eauto.
  - inversion H. subst. discriminate.
  - inversion H. subst. discriminate.
  - inversion H. subst. discriminate.
Qed.

Lemma run_sound : forall fuel ops s inp i n r z,
  CInv p inp s ->
  (forall k sets b rk0, (k < i)%nat -> nth_error ops k = Some (OSession sets b) ->
     nth_error (crun_history_f fuel p s ops) k = Some rk0 -> r_out rk0 <> RFuel) ->
  nth_error ops i = Some (OQuery n) ->
  nth_error (crun_history_f fuel p s ops) i = Some r ->
  r_out r = RValue z ->
  SpecI p (fold_left apply_op (firstn i ops) inp) n z.
Proof.
  intros fuel. induction ops as [|o rest IH]; intros s inp i n r z HI Hfuel Hop Hres Hz.
  - destruct i; discriminate.
  - cbn [crun_history_f] in Hres, Hfuel. destruct (cstep_f fuel p s o) as [s' x] eqn:Es.
    destruct i as [|i].
    + cbn in Hop, Hres. inversion Hop. inversion Hres. subst. cbn [firstn fold_left].
      eapply cstep_query_sound; eauto.
    + cbn [nth_error firstn fold_left] in *. eapply IH; eauto.
      * eapply cstep_inv; eauto. intros sets b ->. apply (Hfuel 0%nat sets b x); [lia|reflexivity|reflexivity].
      * intros k sets b rk0 Hk Hk1 Hk2. apply (Hfuel (S k) sets b rk0); [lia|exact Hk1|exact Hk2].
Qed.
End Steps.

Theorem C01_core_sound : C01_core_statement.
Proof.
  intros fuel p ops i n r z Hwf Hfuel Hop Hres Hz.
  destruct (wf_core_rank p Hwf) as [rk Hrk]. apply Spec_SpecI.
  unfold inputs_after. eapply (run_sound p rk Hrk); eauto. apply CInv_init.
Qed.

(** the guard on fuel is needed: with too little fuel for the dirty propagation of a
    session, later answers are stale *)
Definition cex_I0 := mkNode KInput 0.
Definition cex_N0 := mkNode KNormal 0.
Definition cex_prog : program := [(cex_N0, ERead cex_I0)].
Fixpoint cex_alt (k : nat) : list (N * Z) :=
  match k with O => [] | S k' => (0%N, 5) :: (0%N, 2) :: cex_alt k' end.
Definition cex_hist : list op :=
  [OSession [(0%N, 1)] false; OQuery cex_N0; OSession (cex_alt 30) false; OQuery cex_N0].

Lemma cex_prog_wf : wf_core cex_prog.
Proof.
  split.
  - intros n e [H|[]]. inversion H. subst. split; reflexivity.
  - cbn. constructor; [intros []|constructor].
  - intros n e d [H|[]] Hd. inversion H. subst. destruct Hd as [<-|[]]. left. reflexivity.
  - exists (fun _ => O). intros n e d [H|[]] Hd K. inversion H. subst. destruct Hd as [<-|[]]. discriminate.
Qed.

Theorem C01_core_statement_unguarded_refuted : ~ C01_core_statement_unguarded.
Proof.
  intro H.
  specialize (H 5%nat cex_prog cex_hist 3%nat cex_N0
                (mkRes (RValue 1) [] (Some 0%N)) 1 cex_prog_wf eq_refl).
  assert (Hrun : nth_error (crun_history_f 5 cex_prog cinit cex_hist) 3 =
                 Some (mkRes (RValue 1) [] (Some 0%N))) by (vm_compute; reflexivity).
  specialize (H Hrun eq_refl). apply Spec_SpecI in H.
  assert (H2 : SpecI cex_prog (inputs_after (firstn 3 cex_hist)) cex_N0 2).
  { apply Spec_SpecI. exists 5%nat. vm_compute. reflexivity. }
  pose proof (SpecI_det _ _ _ _ _ H H2). discriminate.
Qed.

(** * C03, "at most once": holds for every program, every fuel, without the invariant *)
Section Once.
Variable p : program.

Lemma cstep_query_mono : forall fuel s n s' x,
  cstep_f fuel p s (OQuery n) = (s', x) ->
  (s' = cset_log s [] /\ r_execs x = []) \/
  (MonoR [] (cset_log s []) s' /\ r_execs x = rev (cs_log s')).
Proof.
  intros fuel s n s' x H. unfold cstep_f in H.
  destruct (cquery p fuel [] CCUser None n (cset_log s [])) as [[[o fr] s1]| | |] eqn:Eq.
  - right. apply (proj1 (mono_all p fuel)) in Eq. destruct o; inversion H; subst; auto.
  - left. inversion H. auto.
  - left. inversion H. auto.
  - left. inversion H. auto.
Qed.

Lemma cstep_execs : forall fuel s o s' x m,
  cstep_f fuel p s o = (s', x) -> In m (r_execs x) -> verified s' m /\ ~ verified s m.
Proof.
  intros fuel s o s' x m H Hm. destruct o as [sets b|n|w v|].
  - rewrite cstep_session in H. cbv zeta in H.
    destruct (fold_left sess_step sets (cset_ts (cset_log s []) (cs_ts (cset_log s []) + 1)%N, [], []))
      as [[s1 rs] batch].
    destruct (cpropagate (fuel * 10) (cset_visited (cset_stat s1 0%N) []) batch); inversion H; subst; destruct Hm.
  - destruct (cstep_query_mono _ _ _ _ _ H) as [[_ E]|[HM E]]; rewrite E in Hm; [destruct Hm|].
    apply in_rev in Hm. destruct (mr_log _ _ _ HM) as [new [L [_ P]]]. cbn [cset_log cs_log] in L.
    rewrite app_nil_r in L. rewrite L in Hm. destruct (P m Hm) as (_ & A & B). split; [exact B|exact A].
  - cbn in H. inversion H. subst. destruct Hm.
  - cbn in H. inversion H. subst. destruct Hm.
Qed.

Lemma cstep_nodup : forall fuel s o s' x, cstep_f fuel p s o = (s', x) -> NoDup (r_execs x).
Proof.
  intros fuel s o s' x H. destruct o as [sets b|n|w v|].
  - rewrite cstep_session in H. cbv zeta in H.
    destruct (fold_left sess_step sets (cset_ts (cset_log s []) (cs_ts (cset_log s []) + 1)%N, [], []))
      as [[s1 rs] batch].
    destruct (cpropagate (fuel * 10) (cset_visited (cset_stat s1 0%N) []) batch); inversion H; subst; constructor.
  - destruct (cstep_query_mono _ _ _ _ _ H) as [[_ E]|[HM E]]; rewrite E; [constructor|].
    destruct (mr_log _ _ _ HM) as [new [L [N _]]]. cbn [cset_log cs_log] in L.
    rewrite app_nil_r in L. rewrite L. apply NoDup_rev. exact N.
  - cbn in H. inversion H. subst. constructor.
  - cbn in H. inversion H. subst. constructor.
Qed.

Lemma cstep_keeps_verified : forall fuel s o s' x m,
  cstep_f fuel p s o = (s', x) -> (forall sets b, o <> OSession sets b) ->
  verified s m -> verified s' m.
Proof.
  intros fuel s o s' x m H Hns Hv. destruct o as [sets b|n|w v|].
  - exfalso. eapply Hns. reflexivity.
  - destruct (cstep_query_mono _ _ _ _ _ H) as [[-> _]|[HM _]]; [exact Hv|].
    eapply verified_mono; [exact HM|]. exact Hv.
  - cbn in H. inversion H. subst. exact Hv.
  - cbn in H. inversion H. subst. exact Hv.
Qed.

Lemma run_nodup : forall fuel ops s i r,
  nth_error (crun_history_f fuel p s ops) i = Some r -> NoDup (r_execs r).
Proof.
  intros fuel. induction ops as [|o rest IH]; intros s i r H; [destruct i; discriminate|].
  cbn [crun_history_f] in H. destruct (cstep_f fuel p s o) as [s' x] eqn:Es. destruct i as [|i].
  - cbn in H. inversion H. subst. eapply cstep_nodup; eauto.
  - cbn [nth_error] in H. eapply IH; eauto.
Qed.

Lemma run_verified_not_executed : forall fuel ops s i m,
  verified s m ->
  (forall k sets b, (k <= i)%nat -> nth_error ops k <> Some (OSession sets b)) ->
  ~ executed_at (crun_history_f fuel p s ops) i m.
Proof.
  intros fuel. induction ops as [|o rest IH]; intros s i m Hv Hns [r [Hr Hm]]; [destruct i; discriminate|].
  cbn [crun_history_f] in Hr. destruct (cstep_f fuel p s o) as [s' x] eqn:Es. destruct i as [|i].
  - cbn in Hr. inversion Hr. subst. destruct (cstep_execs _ _ _ _ _ _ Es Hm) as [_ K]. contradiction.
  - cbn [nth_error] in Hr. apply (IH s' i m).
    + eapply cstep_keeps_verified; eauto. intros sets b ->. apply (Hns 0%nat sets b); [lia|reflexivity].
    + intros k sets b Hk. apply (Hns (S k) sets b). lia.
    + exists r. auto.
Qed.

Lemma run_once : forall fuel ops s j i m,
  (j < i)%nat ->
  executed_at (crun_history_f fuel p s ops) i m ->
  executed_at (crun_history_f fuel p s ops) j m ->
  ~ no_session_between ops j i.
Proof.
  intros fuel. induction ops as [|o rest IH]; intros s j i m Hji Hi Hj Hns.
  - destruct Hj as [r [Hr _]]. destruct j; discriminate.
  - destruct Hi as [ri [Hri Hmi]]. destruct Hj as [rj [Hrj Hmj]].
    cbn [crun_history_f] in Hri, Hrj. destruct (cstep_f fuel p s o) as [s' x] eqn:Es.
    destruct i as [|i]; [lia|]. cbn [nth_error] in Hri. destruct j as [|j].
    + cbn in Hrj. inversion Hrj. subst. destruct (cstep_execs _ _ _ _ _ _ Es Hmj) as [Hv _].
      apply (run_verified_not_executed fuel rest s' i m Hv).
      * intros k sets b Hk. apply (Hns (S k) sets b). lia.
      * exists ri. auto.
    + cbn [nth_error] in Hrj. apply (IH s' j i m); [lia|exists ri; auto|exists rj; auto|].
      intros k sets b Hk. apply (Hns (S k) sets b). lia.
Qed.
End Once.

Theorem C03_core_once : C03_core_once_statement.
Proof.
  intros fuel p ops i j m r _. cbv zeta. split.
  - apply run_nodup.
  - intros Hji Hi Hj. eapply run_once; eauto.
Qed.
