(** C01 "no panic" on the full engine model: for a well-formed program (unordered groups and
    external inputs included) and ANY history, a query of a declared node whose readable inputs
    have all been set answers a value or runs out of fuel; it never panics and never deadlocks.
    No hypothesis on the fuel of earlier sessions is needed (the invariant is structural). *)
From QV Require Import Common.Prelude Engine.Model Engine.Core Engine.CoreSpec Engine.CoreInvBase
  Engine.Fw Engine.FwBase Engine.FwMono Engine.FwOnce Engine.FwInv Engine.FwRunBase Engine.FwRun
  Engine.CoreInvCommit Engine.MdlSpec Engine.MdlBase Engine.MdlMono Engine.MdlInv Engine.MdlRunBase Engine.MdlRun
  Engine.MdlRunAux Engine.MdlCommit Engine.MdlSound Engine.MdlProg.
Open Scope Z_scope.

Definition model_no_panic_x_statement_f : Prop :=
  forall fuel pfuel p ops i n r, wf_model_x p ->
    nth_error ops i = Some (OQuery n) -> alookup p n <> None ->
    nth_error (run_history_f fuel pfuel p init_state ops) i = Some r ->
    inputs_cover p (inputs_after (firstn i ops)) ->
    (exists z, r_out r = RValue z) \/ r_out r = RFuel.
Definition model_no_panic_x_statement : Prop :=
  forall p ops i n r, wf_model_x p ->
    nth_error ops i = Some (OQuery n) -> alookup p n <> None ->
    nth_error (run_history p init_state ops) i = Some r ->
    inputs_cover p (inputs_after (firstn i ops)) ->
    (exists z, r_out r = RValue z) \/ r_out r = RFuel.

(** a completed user request carries a value *)
Lemma cuser_value : forall p f n s o fr' ms s',
  query_for p None f [] CUser None n s = Ok (o, fr', ms, s') -> exists z, o = QValue (Some z).
Proof.
  intros p. induction f as [|f IH]; intros n s o fr' ms s' H; [discriminate|].
  rewrite query_for_S in H. cbv zeta in H. cbn [fq_caller mq_reg nmem existsb] in H.
  assert (Hhit : forall s0 v fr2, fast_path s0 CUser None n = (FHit v, fr2) -> fr2 = None /\ exists z, v = Some z).
  { intros s0 v fr2 Hf. unfold fast_path in Hf. destruct (get_info s0 n) as [i|]; [|discriminate].
    destruct (negb (i_verified i =? s_ts s0)%N); [discriminate|]. cbn in Hf. inversion Hf. eauto. }
  destruct (fast_path s CUser None n) as [[v|sp] fr2] eqn:Ef.
  - destruct (Hhit _ _ _ Ef) as [-> [z ->]]. inversion H. cbn. eauto.
  - destruct (mq_tfc p f [] CUser sp n s) as [s1| | |]; try discriminate.
    destruct (mq_process p f [] CUser sp n s1) as [[marks s2]| | |]; try discriminate.
    destruct (fast_path s2 CUser None n) as [[v|sp'] fr2'] eqn:Ef2.
    + destruct (Hhit _ _ _ Ef2) as [-> [z ->]]. inversion H. cbn. eauto.
    + destruct (query_for p None f [] CUser None n s2) as [[[[o3 fr3] m3] s3]| | |] eqn:Eq; try discriminate.
      inversion H. subst. eapply IH; eauto.
Qed.

Section Steps.
Variable p : program.
Variable rk : node -> nat.
Hypothesis Hrk : forall n e d, alookup p n = Some e -> In d (expr_reads e) -> (rk d < rk n)%nat.
Hypothesis Hproj : forall n e d, alookup p n = Some e -> nkind n = KProjection -> In d (expr_reads e) ->
  is_fw_or_proj (nkind d) = true.
Hypothesis Hkeys : forall n e, alookup p n = Some e -> is_mexec_kind (nkind n) = true.
Hypothesis Htargets : forall n e d, alookup p n = Some e -> In d (expr_reads e) ->
  is_mtarget_kind (nkind d) = true \/ (is_mexec_kind (nkind d) = true /\ alookup p d <> None).
Variables fuel pfuel : nat.

Lemma sess_fold_SInv : forall sets inp cur rs batch cur' rs' batch',
  SInvM p inp cur -> fold_left fsess_step sets (cur, rs, batch) = (cur', rs', batch') ->
  SInvM p (fold_left (fun a '(i, v) => input_set a i v) sets inp) cur'.
Proof.
  induction sets as [|[v x] r IH]; intros inp cur rs batch cur' rs' batch' HS H; cbn [fold_left] in *.
  - inversion H. subst. exact HS.
  - rewrite fsess_step_eq in H. eapply IH; [|exact H].
    apply (SInvM_set_input p inp cur (mkNode KInput v) x HS). left. reflexivity.
Qed.
Lemma refresh_fold_SInv : forall l inp cur batch cur' batch',
  SInvM p inp cur -> (forall e, In e l -> nkind e = KExternal) ->
  fold_left refresh_step l (cur, batch) = (cur', batch') -> SInvM p inp cur'.
Proof.
  induction l as [|e r IH]; intros inp cur batch cur' batch' HS Hk H; cbn [fold_left] in *.
  - inversion H. subst. exact HS.
  - unfold refresh_step at 2 in H. cbv zeta in H. eapply IH; [| |exact H].
    + assert (Ke : nkind e = KExternal) by (apply Hk; left; reflexivity).
      assert (HS0 : SInvM p inp (set_log cur (e :: s_log cur))) by (eapply SInvM_same; [| | |exact HS]; reflexivity).
      pose proof (proj1 (SInvM_set_input p inp _ e (world_get cur (nidx e)) HS0 (or_intror Ke))) as Q.
      rewrite Ke in Q. exact Q.
    + intros x Hx. apply Hk. right. exact Hx.
Qed.
Lemma refresh_fold_ext : forall l cur batch cur' batch',
  fold_left refresh_step l (cur, batch) = (cur', batch') -> s_ext cur' = s_ext cur.
Proof.
  induction l as [|e r IH]; intros cur batch cur' batch' H; cbn [fold_left] in H.
  - inversion H. reflexivity.
  - unfold refresh_step at 2 in H. cbv zeta in H. apply IH in H. rewrite H. apply (proj2 (set_input_we _ _ _)).
Qed.

(** every operation keeps the structural invariant *)
Lemma nstep_inv : forall s o s' r inp,
  SInvM p inp s -> step_f fuel pfuel p s o = (s', r) -> SInvM p (apply_op inp o) s'.
Proof.
  intros s o s' r inp HS H.
  assert (HS0 : SInvM p inp (set_log s [])) by (eapply SInvM_same; [| | |exact HS]; reflexivity).
  destruct o as [sets b|n|w v|].
  - rewrite step_f_session_gen in H. cbv zeta in H. cbn [apply_op].
    destruct (fold_left fsess_step sets (set_ts (set_log s []) (s_ts (set_log s []) + 1)%N, [], []))
      as [[s1 rs] batch] eqn:Ef.
    assert (HSt : SInvM p inp (set_ts (set_log s []) (s_ts (set_log s []) + 1)%N)) by (eapply SInvM_same; [| | |exact HS0]; reflexivity).
    pose proof (sess_fold_SInv _ _ _ _ _ _ _ _ HSt Ef) as HS1.
    destruct (if b then fold_left refresh_step (s_ext s1) (s1, batch) else (s1, batch)) as [s2 batch2] eqn:Er.
    assert (HS2 : SInvM p (fold_left (fun a '(i, v) => input_set a i v) sets inp) s2).
    { destruct b; [|inversion Er; subst; exact HS1].
      eapply refresh_fold_SInv; [exact HS1| |exact Er]. intros e He. eapply (sk_ext _ _ _ HS1). exact He. }
    assert (HS3 : SInvM p (fold_left (fun a '(i, v) => input_set a i v) sets inp) (set_visited (set_stat s2 0%N) []))
      by (eapply SInvM_same; [| | |exact HS2]; reflexivity).
    pose proof (propagate_np pfuel (set_visited (set_stat s2 0%N) []) batch2) as Pp.
    destruct (propagate pfuel (set_visited (set_stat s2 0%N) []) batch2) as [s4| | |] eqn:Ep; cbn in Pp; try contradiction;
      inversion H; subst; try exact HS3.
    destruct Pp as (N1 & N2 & N3). eapply SInvM_same; eauto.
  - unfold step_f in H. cbn [apply_op].
    pose proof (proj1 (prog_all p rk Hrk Hproj Hkeys Htargets inp fuel)) as PQ.
    destruct (query_for p None fuel [] CUser None n (set_log s [])) as [[[[o fr] ms] s1]| | |] eqn:Eq;
      try (inversion H; subst; exact HS0).
    (* the invariant of the result state is obtained without any assumption on n: rerun the step *)
    destruct o as [[z|]|]; inversion H; subst; clear H; exact (query_keeps_SInv _ _ _ _ _ _ _ HS0 Eq).
  - cbn in H. inversion H. subst. cbn [apply_op]. eapply SInvM_same; [| | |exact HS0]; reflexivity.
  - cbn in H. inversion H. subst. cbn [apply_op]. eapply SInvM_same; [| | |exact HS0]; reflexivity.
Qed.
End Steps.
