(** C01 "no panic" on the full engine model: for a well-formed program (unordered groups and
    external inputs included) and ANY history, a query of a declared node whose readable inputs
    have all been set answers a value or runs out of fuel; it never panics and never deadlocks.
    No hypothesis on the fuel of earlier sessions is needed (the invariant is structural). *)
From QV Require Import Common.Prelude Engine.Model Engine.Core Engine.CoreSpec Engine.CoreInvBase
  Engine.Fw Engine.FwBase Engine.FwMono Engine.FwOnce Engine.FwInv Engine.FwRunBase Engine.FwRun
  Engine.CoreInvCommit Engine.MdlSpec Engine.MdlBase Engine.MdlMono Engine.MdlInv Engine.MdlRunBase Engine.MdlRun
  Engine.MdlRunAux Engine.MdlCommit Engine.MdlSound Engine.MdlProg.
Open Scope Z_scope.

Definition model_no_panic_x_statement_f : Prop :=
  forall tord bord pord fuel pfuel p ops i n r, order_ok tord -> order_ok bord -> wf_model_x p ->
    nth_error ops i = Some (OQuery n) -> alookup p n <> None ->
    nth_error (run_history_f tord bord pord fuel pfuel p init_state ops) i = Some r ->
    inputs_cover p (inputs_after (firstn i ops)) ->
    (exists z, r_out r = RValue z) \/ r_out r = RFuel.
Definition model_no_panic_x_statement_op : Prop :=
  forall tord bord pord p ops i n r, order_ok tord -> order_ok bord -> wf_model_x p ->
    nth_error ops i = Some (OQuery n) -> alookup p n <> None ->
    nth_error (run_history_op tord bord pord p init_state ops) i = Some r ->
    inputs_cover p (inputs_after (firstn i ops)) ->
    (exists z, r_out r = RValue z) \/ r_out r = RFuel.
Definition model_no_panic_x_statement_o : Prop :=
  forall tord bord p ops i n r, order_ok tord -> order_ok bord -> wf_model_x p ->
    nth_error ops i = Some (OQuery n) -> alookup p n <> None ->
    nth_error (run_history_o tord bord p init_state ops) i = Some r ->
    inputs_cover p (inputs_after (firstn i ops)) ->
    (exists z, r_out r = RValue z) \/ r_out r = RFuel.
Definition model_no_panic_x_statement : Prop :=
  forall p ops i n r, wf_model_x p ->
    nth_error ops i = Some (OQuery n) -> alookup p n <> None ->
    nth_error (run_history p init_state ops) i = Some r ->
    inputs_cover p (inputs_after (firstn i ops)) ->
    (exists z, r_out r = RValue z) \/ r_out r = RFuel.

(** a completed user request carries a value *)
Lemma cuser_value : forall p tord bord pord f n s o fr' ms s',
  query_for_o p None tord bord pord f [] CUser None n s = Ok (o, fr', ms, s') -> exists z, o = QValue (Some z).
Proof.
  intros p tord bord pord. induction f as [|f IH]; intros n s o fr' ms s' H; [discriminate|].
  rewrite query_for_S in H. cbv zeta in H. cbn [fq_caller mq_reg nmem existsb] in H.
  assert (Hhit : forall s0 v fr2, fast_path s0 CUser None n = (FHit v, fr2) -> fr2 = None /\ exists z, v = Some z).
  { intros s0 v fr2 Hf. unfold fast_path in Hf. destruct (get_info s0 n) as [i|]; [|discriminate].
    destruct (negb (i_verified i =? s_ts s0)%N); [discriminate|]. cbn in Hf. inversion Hf. eauto. }
  destruct (fast_path s CUser None n) as [[v|sp] fr2] eqn:Ef.
  - destruct (Hhit _ _ _ Ef) as [-> [z ->]]. inversion H. cbn. eauto.
  - destruct (mq_tfc p tord bord pord f [] CUser sp n s) as [s1| | |]; try discriminate.
    destruct (mq_process p tord bord pord f [] CUser sp n s1) as [[marks s2]| | |]; try discriminate.
    destruct (fast_path s2 CUser None n) as [[v|sp'] fr2'] eqn:Ef2.
    + destruct (Hhit _ _ _ Ef2) as [-> [z ->]]. inversion H. cbn. eauto.
    + destruct (query_for_o p None tord bord pord f [] CUser None n s2) as [[[[o3 fr3] m3] s3]| | |] eqn:Eq; try discriminate.
      inversion H. subst. eapply IH; eauto.
Qed.

Section Steps.
Variable p : program.
Variables tord bord pord : state -> node -> list node -> list node.
Variable rk : node -> nat.
Hypothesis Hrk : forall n e d, alookup p n = Some e -> In d (expr_reads e) -> (rk d < rk n)%nat.
Hypothesis Hproj : forall n e d, alookup p n = Some e -> nkind n = KProjection -> In d (expr_reads e) ->
  is_fw_or_proj (nkind d) = true.
Hypothesis Hkeys : forall n e, alookup p n = Some e -> is_mexec_kind (nkind n) = true.
Hypothesis Htargets : forall n e d, alookup p n = Some e -> In d (expr_reads e) ->
  is_mtarget_kind (nkind d) = true \/ (is_mexec_kind (nkind d) = true /\ alookup p d <> None).
Hypothesis Htord : forall s x l y, In y (tord s x l) <-> In y l.
Hypothesis Hbord : forall s x l y, In y (bord s x l) <-> In y l.
Variables fuel pfuel : nat.

Lemma sess_fold_SInv : forall sets inp cur rs batch cur' rs' batch',
  SInvM p inp cur -> fold_left fsess_step sets (cur, rs, batch) = (cur', rs', batch') ->
  SInvM p (fold_left (fun a '(i, v) => input_set a i v) sets inp) cur'.
Proof.
  induction sets as [|[v x] r IH]; intros inp cur rs batch cur' rs' batch' HS H; cbn [fold_left] in *.
  - inversion H. subst. exact HS.
  - rewrite fsess_step_eq in H. eapply IH; [|exact H].
    apply (SInvM_set_input p inp cur (mkNode KInput v) x HS). left. reflexivity.
Qed.
Lemma refresh_fold_SInv : forall l inp cur batch cur' batch',
  SInvM p inp cur -> (forall e, In e l -> nkind e = KExternal) ->
  fold_left refresh_step l (cur, batch) = (cur', batch') -> SInvM p inp cur'.
Proof.
  induction l as [|e r IH]; intros inp cur batch cur' batch' HS Hk H; cbn [fold_left] in *.
  - inversion H. subst. exact HS.
  - unfold refresh_step at 2 in H. cbv zeta in H. eapply IH; [| |exact H].
    + assert (Ke : nkind e = KExternal) by (apply Hk; left; reflexivity).
      assert (HS0 : SInvM p inp (set_log cur (e :: s_log cur))) by (eapply SInvM_same; [| | |exact HS]; reflexivity).
      pose proof (proj1 (SInvM_set_input p inp _ e (world_get cur (nidx e)) HS0 (or_intror Ke))) as Q.
      rewrite Ke in Q. exact Q.
    + intros x Hx. apply Hk. right. exact Hx.
Qed.
Lemma refresh_fold_ext : forall l cur batch cur' batch',
  fold_left refresh_step l (cur, batch) = (cur', batch') -> s_ext cur' = s_ext cur.
Proof.
  induction l as [|e r IH]; intros cur batch cur' batch' H; cbn [fold_left] in H.
  - inversion H. reflexivity.
  - unfold refresh_step at 2 in H. cbv zeta in H. apply IH in H. rewrite H. rewrite (proj2 (set_input_we _ _ _)). reflexivity.
Qed.

(** every operation keeps the structural invariant *)
Lemma nstep_inv : forall s o s' r inp,
  SInvM p inp s -> step_f tord bord pord fuel pfuel p s o = (s', r) -> SInvM p (apply_op inp o) s'.
Proof.
  intros s o s' r inp HS H.
  assert (HS0 : SInvM p inp (set_log s [])) by (eapply SInvM_same; [| | |exact HS]; reflexivity).
  destruct o as [sets b|n|w v|].
  - rewrite step_f_session_gen in H. cbv zeta in H. cbn [apply_op].
    destruct (fold_left fsess_step sets (set_ts (set_log s []) (s_ts (set_log s []) + 1)%N, [], []))
      as [[s1 rs] batch] eqn:Ef.
    assert (HSt : SInvM p inp (set_ts (set_log s []) (s_ts (set_log s []) + 1)%N)) by (eapply SInvM_same; [| | |exact HS0]; reflexivity).
    pose proof (sess_fold_SInv _ _ _ _ _ _ _ _ HSt Ef) as HS1.
    destruct (if b then fold_left refresh_step (s_ext s1) (s1, batch) else (s1, batch)) as [s2 batch2] eqn:Er.
    assert (HS2 : SInvM p (fold_left (fun a '(i, v) => input_set a i v) sets inp) s2).
    { destruct b; [|inversion Er; subst; exact HS1].
      eapply refresh_fold_SInv; [exact HS1| |exact Er]. intros e He. eapply (sk_ext _ _ _ HS1). exact He. }
    assert (HS3 : SInvM p (fold_left (fun a '(i, v) => input_set a i v) sets inp) (set_visited (set_stat s2 0%N) []))
      by (eapply SInvM_same; [| | |exact HS2]; reflexivity).
    pose proof (propagate_np pord True pord pfuel (set_visited (set_stat s2 0%N) []) batch2) as Pp.
    destruct (propagate_o pord pfuel (set_visited (set_stat s2 0%N) []) batch2) as [s4| | |] eqn:Ep; cbn in Pp; try contradiction;
      inversion H; subst; try exact HS3.
    destruct Pp as (N1 & N2 & N3). eapply SInvM_same; eauto.
  - unfold step_f in H. cbn [apply_op].
    (* with the empty assumption [False] the progress statement only says what a COMPLETED request leaves *)
    pose proof (proj1 (prog_all p tord bord pord rk Hrk Hproj Hkeys Htargets Htord Hbord inp False (fun g => match g with end) fuel)
                  [] CUser None n (set_log s []) (EConst 0) HS0 (fun g => match g with end) (StkOk_nil rk n) (fun _ => eq_refl) I) as PQ.
    destruct (query_for_o p None tord bord pord fuel [] CUser None n (set_log s [])) as [[[[o fr] ms] s1]| | |] eqn:Eq;
      try (inversion H; subst; exact HS0).
    cbn in PQ. destruct PQ as (HS1 & _).
    destruct o as [[z|]|]; inversion H; subst; exact HS1.
  - cbn in H. inversion H. subst. cbn [apply_op]. eapply SInvM_same; [| | |exact HS0]; reflexivity.
  - cbn in H. inversion H. subst. cbn [apply_op]. eapply SInvM_same; [| | |exact HS0]; reflexivity.
Qed.

(** the query itself: with every readable input set and the node declared, no panic and no deadlock *)
Lemma nstep_query : forall s n s' r inp,
  SInvM p inp s -> alookup p n <> None ->
  (forall b e d, alookup p b = Some e -> In d (expr_reads e) -> nkind d = KInput -> input_get inp (nidx d) <> None) ->
  step_f tord bord pord fuel pfuel p s (OQuery n) = (s', r) ->
  (exists z, r_out r = RValue z) \/ r_out r = RFuel.
Proof.
  intros s n s' r inp HS Hn Hcov H.
  assert (HS0 : SInvM p inp (set_log s [])) by (eapply SInvM_same; [| | |exact HS]; reflexivity).
  assert (Hask : True -> Askable p (set_log s []) n).
  { intros _. right. right. split; [|exact Hn]. destruct (alookup p n) as [e|] eqn:He; [|congruence]. eapply Hkeys; eauto. }
  pose proof (proj1 (prog_all p tord bord pord rk Hrk Hproj Hkeys Htargets Htord Hbord inp True (fun _ => Hcov) fuel)
                [] CUser None n (set_log s []) (EConst 0) HS0 Hask (StkOk_nil rk n) (fun _ => eq_refl) I) as PQ.
  unfold step_f in H.
  destruct (query_for_o p None tord bord pord fuel [] CUser None n (set_log s [])) as [[[[o fr] ms] s1]| | |] eqn:Eq; cbn in PQ.
  - destruct (cuser_value _ _ _ _ _ _ _ _ _ _ _ Eq) as [z ->]. inversion H. left. eexists. reflexivity.
  - right. inversion H. reflexivity.
  - exfalso. apply PQ. exact I.
  - exfalso. apply PQ. exact I.
Qed.

Lemma nrun : forall ops s inp i n r,
  SInvM p inp s -> nth_error ops i = Some (OQuery n) -> alookup p n <> None ->
  nth_error (run_history_f tord bord pord fuel pfuel p s ops) i = Some r ->
  inputs_cover p (fold_left apply_op (firstn i ops) inp) ->
  (exists z, r_out r = RValue z) \/ r_out r = RFuel.
Proof.
  induction ops as [|o rest IH]; intros s inp i n r HS Hop Hn Hres Hcov; [destruct i; discriminate|].
  cbn [run_history_f] in Hres. destruct (step_f tord bord pord fuel pfuel p s o) as [s' x] eqn:Es.
  destruct i as [|i]; cbn [nth_error firstn fold_left] in *.
  - inversion Hop. inversion Hres. subst o x. eapply nstep_query; [exact HS|exact Hn| |exact Es].
    intros b e d He. apply (Hcov b e d). apply alookup_In. exact He.
  - eapply (IH s' (apply_op inp o)); eauto. eapply nstep_inv; eauto.
Qed.
End Steps.

Theorem model_no_panic_x_f : model_no_panic_x_statement_f.
Proof.
  intros tord bord pord fuel pfuel p ops i n r Ht Hb Hwf Hop Hn Hres Hcov.
  destruct (wf_model_x_facts p Hwf) as (rk & Hrk & Hproj & Hkeys).
  assert (Htargets : forall n e d, alookup p n = Some e -> In d (expr_reads e) ->
            is_mtarget_kind (nkind d) = true \/ (is_mexec_kind (nkind d) = true /\ alookup p d <> None)).
  { intros b e d He. apply (wfx_targets p Hwf b e d). apply alookup_In. exact He. }
  eapply (nrun p tord bord pord rk Hrk Hproj Hkeys Htargets (order_ok_In _ Ht) (order_ok_In _ Hb) fuel pfuel ops init_state [] i n r); eauto.
  apply SInvM_init.
Qed.
Theorem model_no_panic_x_op : model_no_panic_x_statement_op.
Proof.
  intros tord bord pord p ops i n r Ht Hb Hwf Hop Hn Hres Hcov. rewrite run_history_op_is_f in Hres.
  exact (model_no_panic_x_f tord bord pord fuel0 4000%nat p ops i n r Ht Hb Hwf Hop Hn Hres Hcov).
Qed.
Theorem model_no_panic_x_o : model_no_panic_x_statement_o.
Proof. intros tord bord. exact (model_no_panic_x_op tord bord ord_id). Qed.
Theorem model_no_panic_x : model_no_panic_x_statement.
Proof. intros p ops i n r. exact (model_no_panic_x_o ord_id ord_id p ops i n r ord_id_ok ord_id_ok). Qed.

(** the same for programs without external reads ([wf_model_g]) and for the plain fragment *)
Theorem model_no_panic_g : forall p ops i n r, wf_model_g p ->
  nth_error ops i = Some (OQuery n) -> alookup p n <> None ->
  nth_error (run_history p init_state ops) i = Some r ->
  inputs_cover p (inputs_after (firstn i ops)) ->
  (exists z, r_out r = RValue z) \/ r_out r = RFuel.
Proof. intros p ops i n r Hwf. apply model_no_panic_x. apply wf_model_x_of. exact Hwf. Qed.
Theorem model_no_panic : forall p ops i n r, wf_model p ->
  nth_error ops i = Some (OQuery n) -> alookup p n <> None ->
  nth_error (run_history p init_state ops) i = Some r ->
  inputs_cover p (inputs_after (firstn i ops)) ->
  (exists z, r_out r = RValue z) \/ r_out r = RFuel.
Proof. intros p ops i n r Hwf. apply model_no_panic_g. apply wf_model_g_of. exact Hwf. Qed.

(** both premises are needed: a query that reaches an input never set, and a query of an undeclared
    node, do answer [RPanic] (and the later, covered query of the same history is fine) *)
Example mex_uncovered :
  map r_out (run_history mex_prog init_state
               [ OSession [(0%N, 1); (1%N, 1)] false; OQuery (mex_N 1); OQuery (mex_N 7);
                 OSession [(2%N, 10)] false; OQuery (mex_N 1) ]) =
  [ RSession [SFresh; SFresh]; RPanic; RPanic; RSession [SFresh]; RValue 13 ].
Proof. vm_compute. reflexivity. Qed.

Print Assumptions model_no_panic_x_f.
Print Assumptions model_no_panic_x_op.
Print Assumptions model_no_panic_x_o.
Print Assumptions model_no_panic_x.
Print Assumptions model_no_panic.
