(** Preservation of [FInv] by [clean_query] (with and without the rebuild of the transitive
    firewall callees) and by the clearing of the pending mark. *)
From QV Require Import Common.Prelude Engine.Model Engine.Core Engine.CoreSpec Engine.CoreInvBase
  Engine.CoreInvSem Engine.Fw Engine.FwBase Engine.FwMono Engine.FwSpec Engine.FwSem Engine.FwInv
  Engine.FwInvState Engine.FwInvExec.
Open Scope Z_scope.

Lemma refresh_obs_lookup : forall s obs d,
  alookup (refresh_obs s obs) d =
  match alookup obs d with
  | Some (v, t) =>
      Some (v, if kind_eqb (nkind d) KFirewall then t
               else match get_info s d with Some xi => i_tfc xi | None => t end)
  | None => None
  end.
Proof.
  intros s obs d. unfold refresh_obs.
  set (g := fun (x : node) (t : list node) =>
              if kind_eqb (nkind x) KFirewall then t
              else match get_info s x with Some xi => i_tfc xi | None => t end).
  rewrite (map_ext _ (fun '(x, (v, t)) => (x, (v, g x t)))).
  2:{ intros [x [v t]]. unfold g. destruct (kind_eqb (nkind x) KFirewall); [reflexivity|].
      destruct (get_info s x); reflexivity. }
  fold (g d). induction obs as [|[x [v t]] r IH]; cbn [map alookup]; [reflexivity|].
  destruct (node_eqb_spec x d) as [->|Hne]; [reflexivity|exact IH].
Qed.

Lemma new_tfc_fold_In : forall s l acc F,
  In F (fold_left (fun acc x => match get_info s x with
                                | Some xi => nunion acc (tfc_contribution x xi)
                                | None => acc end) l acc) <->
  In F acc \/ exists x xi, In x l /\ get_info s x = Some xi /\ In F (tfc_contribution x xi).
Proof.
  intros s. induction l as [|y r IH]; intros acc F; cbn [fold_left].
  - split; [auto|]. intros [H|[x [xi [[] _]]]]. exact H.
  - rewrite IH. destruct (get_info s y) as [yi|] eqn:Hy.
    + rewrite nunion_In. split.
      * intros [[H|H]|[x [xi (A & B & C)]]]; [auto| |].
        -- right. exists y, yi. split; [left; reflexivity|auto].
        -- right. exists x, xi. split; [right; exact A|auto].
      * intros [H|[x [xi ([<-|A] & B & C)]]]; [auto| |].
        -- left. right. assert (xi = yi) by congruence. subst. exact C.
        -- right. exists x, xi. auto.
    + split.
      * intros [H|[x [xi (A & B & C)]]]; [auto|]. right. exists x, xi. split; [right; exact A|auto].
      * intros [H|[x [xi ([<-|A] & B & C)]]]; [auto|congruence|]. right. exists x, xi. auto.
Qed.
Lemma new_tfc_In : forall s i F,
  In F (new_tfc_of s i) <->
  exists x xi, In x (all_callees (i_fwd i)) /\ get_info s x = Some xi /\ In F (tfc_contribution x xi).
Proof.
  intros s i F. unfold new_tfc_of. rewrite new_tfc_fold_In. split; [|auto]. intros [[]|H]. exact H.
Qed.

Section Clean.
Variable p : program.
Variable rk : node -> nat.
Hypothesis Hrk : forall n e d, alookup p n = Some e -> In d (expr_reads e) -> (rk d < rk n)%nat.

Definition edgeokV (s : state) (i : info) (d : node) : Prop :=
  exists j v t, get_info s d = Some j /\ alookup (i_obs i) d = Some (v, t) /\ v = i_value j.

Lemma FInv_clean : forall inp s n i cl nt,
  FInv p rk inp s -> get_info s n = Some i -> ~ sverified s n ->
  (forall d, In d cl -> In d (old_fwd s n) /\ (nkind d = KInput \/ sverified s d)) ->
  (forall d, In d (old_fwd s n) ->
     edgeokV s i d /\ (nkind d = KFirewall -> sverified s d) /\ (nonfw d -> Solid s d)) ->
  (nt = None -> forall d, In d (old_fwd s n) -> edgeok s n d) ->
  (forall t, nt = Some t -> t = new_tfc_of s i /\ Stale s n) ->
  FInv p rk inp (clean_query s n cl nt) /\ Keeps s (clean_query s n cl nt).
Proof.
  intros inp s n i cl nt HI Hi Hnv Hcl Hall Hsync Hnt.
  set (s' := clean_query s n cl nt).
  set (ni := cq_info s i nt).
  assert (Hget : forall m, get_info s' m = if node_eqb n m then Some ni else get_info s m)
    by (intro m; apply clean_query_get; exact Hi).
  assert (Hgetne : forall m, m <> n -> get_info s' m = get_info s m).
  { intros m Hm. rewrite Hget. destruct (node_eqb_spec n m); [congruence|reflexivity]. }
  assert (Hgetn : get_info s' n = Some ni) by (rewrite Hget, node_eqb_refl; reflexivity).
  assert (Hts : s_ts s' = s_ts s) by apply clean_query_ts.
  assert (Hd : forall a b, sdirty s' a b <-> sdirty s a b /\ ~ (a = n /\ In b cl))
    by (intros; eapply clean_query_dirty; eauto).
  assert (Hfwd : forall m, old_fwd s' m = old_fwd s m).
  { intro m. unfold old_fwd. rewrite Hget. destruct (node_eqb_spec n m) as [<-|Hne]; [|reflexivity].
    rewrite Hi. reflexivity. }
  assert (Hcal : forall y, callers_of s' y = callers_of s y) by (intro y; apply clean_query_callers).
  assert (Hfrk : forall d, In d (old_fwd s n) -> d <> n).
  { intros d Hdn ->. pose proof (fwd_rk _ _ Hrk _ _ _ _ HI Hdn). lia. }
  assert (Hpath : forall a b, nfpath s' a b <-> nfpath s a b).
  { intros a b. split; intro K.
    - eapply nfpath_frame_inv; [exact K|]. intros; apply Hfwd.
    - eapply nfpath_frame; [exact K|]. intros; apply Hfwd. }
  assert (Hreach : forall a F, reach s' a F <-> reach s a F).
  { intros a F. unfold reach. split; intros [x (A & B & C)]; exists x.
    - split; [apply Hpath; exact A|]. rewrite <- Hfwd. auto.
    - split; [apply Hpath; exact A|]. rewrite Hfwd. auto. }
  assert (Hver : forall m, m <> n -> (sverified s' m <-> sverified s m)).
  { intros m Hm. unfold sverified. rewrite (Hgetne m Hm), Hts. reflexivity. }
  assert (Hvern : sverified s' n).
  { exists ni. split; [exact Hgetn|]. unfold ni, cq_info. cbn [i_verified]. rewrite Hts. reflexivity. }
  assert (Hver1 : forall m, sverified s m -> sverified s' m).
  { intros m Hm. destruct (node_eq_dec m n) as [->|Hne]; [exact Hvern|]. apply Hver; assumption. }
  assert (Hobs : forall d, alookup (i_obs ni) d =
            match nt with
            | None => alookup (i_obs i) d
            | Some _ => match alookup (i_obs i) d with
                        | Some (v, t) => Some (v, if kind_eqb (nkind d) KFirewall then t
                                                  else match get_info s d with Some xi => i_tfc xi | None => t end)
                        | None => None end
            end).
  { intro d. unfold ni, cq_info. cbn [i_obs]. destruct nt; [apply refresh_obs_lookup|reflexivity]. }
  assert (HnStale : nt <> None -> Stale s n).
  { intro K. destruct nt as [t|]; [|congruence]. apply (Hnt t eq_refl). }
  (* the edges of n *)
  assert (Hedge_n : forall d, In d (old_fwd s n) -> edgeok s' n d).
  { intros d Hdn. pose proof (Hfrk d Hdn) as Hne. destruct nt as [t|] eqn:Ent.
    - destruct (Hall d Hdn) as [(j & v & t0 & A & B & C) _].
      exists ni, j, v. eexists. split; [exact Hgetn|]. split; [rewrite (Hgetne d Hne); exact A|].
      split; [rewrite Hobs, B; reflexivity|]. split; [exact C|]. intros Kd x.
      assert (Ek : kind_eqb (nkind d) KFirewall = false).
      { destruct (kind_eqb (nkind d) KFirewall) eqn:E0; [apply kind_eqb_eq in E0; contradiction|reflexivity]. }
      rewrite Ek, A. reflexivity.
    - destruct (Hsync eq_refl d Hdn) as (i0 & j & v & t0 & A & B & C & D & E).
      assert (i0 = i) by congruence. subst i0.
      exists ni, j, v, t0. split; [exact Hgetn|]. split; [rewrite (Hgetne d Hne); exact B|].
      split; [rewrite Hobs; exact C|]. auto. }
  (* consistency is kept *)
  assert (HGk : forall x, Good s x -> Good s' x).
  { intros x HG. eapply Good_frame; [exact HG|intros; apply Hfwd|].
    intros y z Hy Hz Hyz. destruct (node_eq_dec y n) as [->|Hyn]; [apply Hedge_n; exact Hz|].
    destruct Hyz as (iy & j & v & t & A & B & C & D & E).
    destruct (node_eq_dec z n) as [->|Hzn].
    - exists iy, ni, v, t. split; [rewrite (Hgetne y Hyn); exact A|]. split; [exact Hgetn|].
      split; [exact C|]. assert (j = i) by congruence. subst j.
      split; [unfold ni, cq_info; cbn [i_value]; exact D|].
      intro Kn. destruct nt as [t1|] eqn:Ent.
      + exfalso. assert (HS : Stale s n) by (apply HnStale; congruence).
        eapply Stale_not_Good; [exact HS| |exact HG]. eapply nfpath_snoc; eauto.
        destruct (fw_or_nonfw _ _ _ _ _ _ HI Hi) as [K0|K0]; [contradiction|exact K0].
      + unfold ni, cq_info. cbn [i_tfc]. apply E. exact Kn.
    - exists iy, j, v, t. rewrite (Hgetne y Hyn), (Hgetne z Hzn). auto. }
  assert (HfS : forall d v, In d (old_fwd s n) -> obsV i d v -> FSpecI p inp d v).
  { intros d v Hdn [t Ho]. destruct (Hall d Hdn) as [(j & v0 & t0 & A & B & C) [Kf Ks]].
    assert (v0 = v) by congruence. subst v0. subst v.
    destruct (fw_or_nonfw _ _ _ _ _ _ HI A) as [Kd|Kd].
    - destruct (Kf Kd) as [j' [J1 J2]]. assert (j' = j) by congruence. subst j'. eapply fi_V; eauto.
    - eapply (Solid_value _ _ Hrk _ _ HI (S (rk d))); eauto. }
  split.
  { split.
  - (* fi_kind *)
    intros m j Hj. rewrite Hget in Hj. destruct (node_eqb_spec n m) as [<-|Hne]; [|eapply fi_kind; eauto].
    inversion Hj. subst j. destruct (fi_kind _ _ _ _ HI n i Hi) as [(K1 & K2 & K3 & K4 & K5)|(K1 & e & Ke & Kev & Kr)].
    + left. unfold ni, cq_info. cbn [i_fwd i_obs i_tfc i_value]. rewrite K3, K4.
      repeat split; auto; destruct nt as [t|]; try reflexivity.
      destruct (Hnt t eq_refl) as [-> [cal [Hc _]]]. unfold old_fwd in Hc. rewrite Hi, K2 in Hc. destruct Hc.
    + right. split; [exact K1|]. exists e. split; [exact Ke|]. split; [|exact Kr].
      unfold ni at 2. unfold cq_info. cbn [i_value].
      eapply ev_mono; [exact Kev|]. intros d x _ [t Hx]. unfold obsV. rewrite Hobs, Hx.
      destruct nt; eexists; reflexivity.
  - (* fi_obs *)
    intros m j d Hj Hdm. rewrite Hget in Hj. destruct (node_eqb_spec n m) as [<-|Hne]; [|eapply fi_obs; eauto].
    inversion Hj. subst j. unfold ni, cq_info in Hdm. cbn [i_fwd] in Hdm.
    destruct (fi_obs _ _ _ _ HI n i d Hi Hdm) as [[v t] Ho]. rewrite Hobs, Ho. destruct nt; eexists; reflexivity.
  - (* fi_obs_fwd *)
    intros m j d o Hj Ho. rewrite Hget in Hj. destruct (node_eqb_spec n m) as [<-|Hne]; [|eapply fi_obs_fwd; eauto].
    inversion Hj. subst j. rewrite Hobs in Ho. unfold ni, cq_info. cbn [i_fwd].
    destruct (alookup (i_obs i) d) as [[v t]|] eqn:Eo; [|destruct nt; discriminate].
    eapply fi_obs_fwd; eauto.
  - (* fi_target *)
    intros m d Hdm. rewrite Hfwd in Hdm. rewrite Hget. destruct (node_eqb n d); [discriminate|].
    eapply fi_target; eauto.
  - (* fi_bwd *)
    intros m d. rewrite Hcal, Hfwd. apply (fi_bwd _ _ _ _ HI).
  - (* fi_dirty_edge *)
    intros a b K. rewrite Hfwd. apply Hd in K. eapply fi_dirty_edge; [exact HI|]. tauto.
  - (* fi_ts *)
    intros m j Hj. rewrite Hget in Hj. rewrite Hts. destruct (node_eqb_spec n m) as [<-|Hne]; [|eapply fi_ts; eauto].
    inversion Hj. unfold ni, cq_info. cbn [i_verified]. lia.
  - (* fi_tfc *)
    intros m j d v t Hj Ho. rewrite Hget in Hj. destruct (node_eqb_spec n m) as [<-|Hne]; [|eapply fi_tfc; eauto].
    inversion Hj. subst j. rewrite Hobs in Ho. destruct nt as [t1|] eqn:Ent.
    + destruct (alookup (i_obs i) d) as [[v0 t0]|] eqn:Eo; [|discriminate].
      destruct (Hnt t1 eq_refl) as [-> _].
      assert (Hdf : In d (all_callees (i_fwd i))) by (eapply fi_obs_fwd; eauto).
      assert (Hdn : In d (old_fwd s n)) by (unfold old_fwd; rewrite Hi; exact Hdf).
      destruct (get_info s d) as [jd|] eqn:Hjd; [|exfalso; eapply (fi_target _ _ _ _ HI); eauto].
      assert (Et : t = (if kind_eqb (nkind d) KFirewall then t0 else i_tfc jd)) by congruence.
      unfold ni, cq_info. cbn [i_tfc]. split.
      * intro Kd. apply new_tfc_In. exists d, jd. split; [exact Hdf|]. split; [exact Hjd|].
        unfold tfc_contribution. rewrite Kd. left. reflexivity.
      * intros Kd F HF. rewrite Kd in Et. cbn [kind_eqb] in Et. subst t.
        apply new_tfc_In. exists d, jd. split; [exact Hdf|]. split; [exact Hjd|].
        unfold tfc_contribution. rewrite Kd. exact HF.
    + unfold ni, cq_info. cbn [i_tfc]. eapply fi_tfc; eauto.
  - (* fi_tfc_rk *)
    intros m j F Hj HF. rewrite Hget in Hj. destruct (node_eqb_spec n m) as [<-|Hne]; [|eapply fi_tfc_rk; eauto].
    inversion Hj. subst j. unfold ni, cq_info in HF. cbn [i_tfc] in HF. destruct nt as [t1|] eqn:Ent.
    + destruct (Hnt t1 eq_refl) as [-> _]. apply new_tfc_In in HF. destruct HF as [x [xi (A & B & C)]].
      assert (Hxn : In x (old_fwd s n)) by (unfold old_fwd; rewrite Hi; exact A).
      pose proof (fwd_rk _ _ Hrk _ _ _ _ HI Hxn) as R1.
      unfold tfc_contribution in C. destruct (nkind x) eqn:Kx; try destruct C as [<-|[]]; try destruct C; try exact R1.
      * pose proof (fi_tfc_rk _ _ _ _ HI x xi F B C). lia.
      * pose proof (fi_tfc_rk _ _ _ _ HI x xi F B C). lia.
    + eapply fi_tfc_rk; eauto.
  - (* fi_C *)
    intros a b Hab Hclean. rewrite Hfwd in Hab. destruct (node_eq_dec a n) as [->|Hne].
    + split; [apply Hedge_n; exact Hab|]. intro Hnf. apply HGk. apply (proj2 (proj2 (Hall b Hab)) Hnf).
    + assert (Hcl0 : ~ sdirty s a b).
      { intro K. apply Hclean. apply Hd. split; [exact K|]. intros [E _]. contradiction. }
      destruct (fi_C _ _ _ _ HI a b Hab Hcl0) as [Eab Gb]. split; [|intro K; apply HGk; auto].
      destruct Eab as (ia & j & v & t & A & B & C & D & E).
      destruct (node_eq_dec b n) as [->|Hbn].
      * assert (j = i) by congruence. subst j.
        exists ia, ni, v, t. split; [rewrite (Hgetne a Hne); exact A|]. split; [exact Hgetn|].
        split; [exact C|]. split; [exact D|]. intro Kn. destruct nt as [t1|] eqn:Ent.
        -- exfalso. apply Hcl0. eapply Stale_callers_dirty; eauto.
           ++ apply HnStale. congruence.
           ++ destruct (fw_or_nonfw _ _ _ _ _ _ HI Hi) as [K0|K0]; [contradiction|exact K0].
        -- unfold ni, cq_info. cbn [i_tfc]. apply E. exact Kn.
      * exists ia, j, v, t. rewrite (Hgetne a Hne), (Hgetne b Hbn). auto.
  - (* fi_G *)
    intros x Hx. destruct (node_eq_dec x n) as [->|Hne].
    + apply Good_intro. intros d Hdn. rewrite Hfwd in Hdn. split; [apply Hedge_n; exact Hdn|].
      intro Hnf. apply HGk. apply (proj2 (proj2 (Hall d Hdn)) Hnf).
    + apply HGk. apply (fi_G _ _ _ _ HI). apply Hver; assumption.
  - (* fi_T *)
    intros x F Hx HR. apply Hreach in HR. apply Hver1. destruct (node_eq_dec x n) as [->|Hne].
    + destruct HR as [y (A & B & C)]. inversion A; subst.
      * apply (proj1 (proj2 (Hall F B))). exact C.
      * apply (proj2 (proj2 (Hall d H)) H0). exists y. auto.
    + eapply (fi_T _ _ _ _ HI); [|exact HR]. apply Hver; assumption.
  - (* fi_V *)
    intros m j Hj Hv. rewrite Hget in Hj. destruct (node_eqb_spec n m) as [<-|Hne].
    + inversion Hj. subst j. unfold ni, cq_info. cbn [i_value].
      destruct (fi_kind _ _ _ _ HI n i Hi) as [(K1 & _ & _ & _ & K5)|(K1 & e & Ke & Kev & Kr)].
      * apply FSpecI_input; assumption.
      * eapply FSpecI_exec; eauto. eapply ev_fsev; [exact Kev|]. intros d x _ Hx. apply HfS; [|exact Hx].
        destruct Hx as [t Hx]. unfold old_fwd. rewrite Hi. eapply fi_obs_fwd; eauto.
    + eapply fi_V; eauto. congruence.
  - (* fi_PV *)
    intros x Hx. unfold s' in Hx. rewrite clean_query_visited in Hx.
    destruct (fi_PV _ _ _ _ HI x Hx) as [K|[Kin K]]; [left; apply Hver1; exact K|].
    destruct (in_dec node_eq_dec x cl) as [Hc|Hc].
    + left. apply Hver1. destruct (proj2 (Hcl x Hc)) as [Ki|Kv]; [contradiction|exact Kv].
    + right. split; [exact Kin|]. intros c Hcx. rewrite Hcal in Hcx. destruct (K c Hcx) as [K1 K2]. split.
      * apply Hd. split; [exact K1|]. intros [_ K3]. contradiction.
      * intro Hn. unfold s'. rewrite clean_query_visited. auto. }
  (* Keeps *)
  intros d j Hj [HG _]. destruct (node_eq_dec d n) as [->|Hne].
  - assert (j = i) by congruence. subst j. exists ni. split; [exact Hgetn|].
    destruct nt as [t|] eqn:Ent.
    + exfalso. eapply Stale_not_Good; [apply HnStale; congruence| |exact HG]. constructor.
    + repeat split.
  - exists j. split; [rewrite (Hgetne d Hne); exact Hj|repeat split].
Qed.

(** * the pending mark is not looked at *)
Lemma sbp_sym : forall i i', sbp i i' -> sbp i' i.
Proof using Type. intros i i' (A & B & C & D & E). repeat split; congruence. Qed.

Lemma FInv_pending : forall inp s n i i',
  FInv p rk inp s -> get_info s n = Some i -> sbp i i' ->
  FInv p rk inp (put_info s n i') /\ Keeps s (put_info s n i').
Proof using Type.
  intros inp s n i i' HI Hi Hs.
  set (s' := put_info s n i').
  assert (Hget : forall m, get_info s' m = if node_eqb n m then Some i' else get_info s m) by (intro m; apply get_put).
  assert (Hfw : forall m j, get_info s m = Some j -> exists j', get_info s' m = Some j' /\ sbp j j').
  { intros m j Hj. rewrite Hget. destruct (node_eqb_spec n m) as [<-|Hne].
    - exists i'. assert (j = i) by congruence. subst j. auto.
    - exists j. split; [exact Hj|apply sbp_refl]. }
  assert (Hbw : forall m j', get_info s' m = Some j' -> exists j, get_info s m = Some j /\ sbp j j').
  { intros m j' Hj. rewrite Hget in Hj. destruct (node_eqb_spec n m) as [<-|Hne].
    - exists i. inversion Hj. subst. auto.
    - exists j'. split; [exact Hj|apply sbp_refl]. }
  assert (Hf : forall m, old_fwd s' m = old_fwd s m).
  { intro m. unfold old_fwd. destruct (get_info s m) as [j|] eqn:Hj.
    - destruct (Hfw m j Hj) as [j' [Hj' (_ & _ & _ & F & _)]]. rewrite Hj', F. reflexivity.
    - destruct (get_info s' m) as [j'|] eqn:Hj'; [|reflexivity]. destruct (Hbw m j' Hj') as [j [K _]]. congruence. }
  assert (He : forall a b, edgeok s' a b <-> edgeok s a b).
  { intros a b. split.
    - intros (ia & jb & v & t & A & B & C & D & E).
      destruct (Hbw a ia A) as [ia0 [A0 (_ & _ & _ & _ & O)]]. destruct (Hbw b jb B) as [jb0 [B0 (_ & V & T & _)]].
      exists ia0, jb0, v, t. split; [exact A0|]. split; [exact B0|]. split; [rewrite <- O; exact C|].
      split; [congruence|]. intros K x. rewrite <- T. apply E. exact K.
    - intros (ia & jb & v & t & A & B & C & D & E).
      destruct (Hfw a ia A) as [ia0 [A0 (_ & _ & _ & _ & O)]]. destruct (Hfw b jb B) as [jb0 [B0 (_ & V & T & _)]].
      exists ia0, jb0, v, t. split; [exact A0|]. split; [exact B0|]. split; [rewrite O; exact C|].
      split; [congruence|]. intros K x. rewrite T. apply E. exact K. }
  assert (Hp : forall a b, nfpath s' a b <-> nfpath s a b).
  { intros a b. split; intro K.
    - eapply nfpath_frame_inv; [exact K|]. intros; apply Hf.
    - eapply nfpath_frame; [exact K|]. intros; apply Hf. }
  assert (HG : forall a, Good s' a <-> Good s a).
  { intro a. unfold Good. split; intros H x Hx d Hdx.
    - apply He. apply H; [apply Hp; exact Hx|rewrite Hf; exact Hdx].
    - apply He. apply H; [apply Hp; exact Hx|rewrite <- Hf; exact Hdx]. }
  assert (HR : forall a F, reach s' a F <-> reach s a F).
  { intros a F. unfold reach. split; intros [x (A & B & C)]; exists x.
    - split; [apply Hp; exact A|]. rewrite <- Hf. auto.
    - split; [apply Hp; exact A|]. rewrite Hf. auto. }
  assert (Hv : forall m, sverified s' m <-> sverified s m).
  { intro m. unfold sverified. split.
    - intros [j' [A B]]. destruct (Hbw m j' A) as [j [A0 (V & _)]]. exists j. split; [exact A0|]. rewrite <- V. exact B.
    - intros [j [A B]]. destruct (Hfw m j A) as [j' [A0 (V & _)]]. exists j'. split; [exact A0|]. rewrite V. exact B. }
  split.
  { destruct HI. split.
  - intros m j' Hj. destruct (Hbw m j' Hj) as [j [A (_ & V & T & F & O)]].
    destruct (fi_kind m j A) as [(K1 & K2 & K3 & K4 & K5)|(K1 & e & Ke & Kev & Kr)].
    + left. rewrite F, O, T, V. auto.
    + right. split; [exact K1|]. exists e. split; [exact Ke|]. rewrite V, F. split; [|exact Kr].
      eapply ev_mono; [exact Kev|]. intros d x _ [t Hx]. exists t. rewrite O. exact Hx.
  - intros m j' d Hj Hd. destruct (Hbw m j' Hj) as [j [A (_ & _ & _ & F & O)]]. rewrite O. rewrite F in Hd. eauto.
  - intros m j' d o Hj Ho. destruct (Hbw m j' Hj) as [j [A (_ & _ & _ & F & O)]]. rewrite F. rewrite O in Ho. eauto.
  - intros m d Hd. rewrite Hf in Hd. intro K. apply (fi_target m d Hd).
    destruct (get_info s d) as [j|] eqn:Hj; [|reflexivity]. destruct (Hfw d j Hj) as [j' [K' _]]. congruence.
  - intros m d. rewrite Hf. apply fi_bwd.
  - intros a b K. rewrite Hf. apply fi_dirty_edge. exact K.
  - intros m j' Hj. destruct (Hbw m j' Hj) as [j [A (V & _)]]. rewrite V. apply (fi_ts m j A).
  - intros m j' d v t Hj Ho. destruct (Hbw m j' Hj) as [j [A (_ & _ & T & _ & O)]]. rewrite T. rewrite O in Ho. eauto.
  - intros m j' F Hj HF. destruct (Hbw m j' Hj) as [j [A (_ & _ & T & _)]]. rewrite T in HF. eauto.
  - intros m d Hd Hc. rewrite Hf in Hd. destruct (fi_C m d Hd Hc) as [A B]. split; [apply He; exact A|].
    intro K. apply HG. auto.
  - intros m Hm. apply HG. apply fi_G. apply Hv. exact Hm.
  - intros m F Hm HF. apply Hv. eapply fi_T; [apply Hv; exact Hm|apply HR; exact HF].
  - intros m j' Hj Hvj. destruct (Hbw m j' Hj) as [j [A (V & W & _)]]. rewrite W. apply (fi_V m j A). rewrite <- V. exact Hvj.
  - intros x Hx. destruct (fi_PV x Hx) as [K|K]; [left; apply Hv; exact K|right]. exact K. }
  intros d j Hj _. destruct (Hfw d j Hj) as [j' [A B]]. exists j'. split; [exact A|]. apply sbp_same_sem. exact B.
Qed.
End Clean.
