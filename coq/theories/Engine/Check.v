(** Correspondence checker for the engine model: one case = a program, a history and what
    the real engine did for every operation (result, executed nodes, dirtied-edge
    statistic).  [failures] lists the cases on which the model disagrees. *)
From QV Require Import Common.Prelude Engine.Model.
Open Scope Z_scope.

Inductive case := mkCase (p : program) (ops : list op) (real : list opres).

Definition count (x : node) (l : list node) : nat := length (filter (node_eqb x) l).
Definition multiset_eqb (a b : list node) : bool :=
  forallb (fun x => Nat.eqb (count x a) (count x b)) (a ++ b).

Definition sres_eqb (a b : sres) : bool :=
  match a, b with SFresh, SFresh | SUpdated, SUpdated | SUnchanged, SUnchanged => true | _, _ => false end.
Fixpoint list_eqb {A} (eqb : A -> A -> bool) (a b : list A) : bool :=
  match a, b with
  | [], [] => true
  | x :: a', y :: b' => eqb x y && list_eqb eqb a' b'
  | _, _ => false
  end.
Definition rout_eqb (a b : rout) : bool :=
  match a, b with
  | RValue x, RValue y => x =? y
  | RPanic, RPanic | RUnit, RUnit => true
  | RSession x, RSession y => list_eqb sres_eqb x y
  | _, _ => false
  end.
Definition optN_eqb (a b : option N) : bool :=
  match a, b with Some x, Some y => (x =? y)%N | None, None => true | _, _ => false end.
(** The dirtied-edge statistic counts, for every node expanded by dirty propagation, its
    callers at that moment.  Once a firewall or projection has been re-executed in an epoch
    the count depends on the order in which the parallel repair tasks rewired backward
    edges (observed: +-1 on 5 of 800 histories, values and executions identical), so it is
    compared only until the first such execution of each epoch. *)
Definition opres_eqb (stat : bool) (m r : opres) : bool :=
  rout_eqb (r_out m) (r_out r) && multiset_eqb (r_execs m) (r_execs r)
  && (negb stat || optN_eqb (r_dirtied m) (r_dirtied r)).
Definition has_fw_exec (r : opres) : bool := existsb (fun n => is_fw_or_proj (nkind n)) (r_execs r).
Definition is_session (r : opres) : bool := match r_out r with RSession _ => true | _ => false end.

(** index of the first operation on which model and engine differ *)
Fixpoint first_diff_from (i : N) (stat : bool) (m r : list opres) : option N :=
  match m, r with
  | [], [] => None
  | x :: m', y :: r' =>
      let stat1 := (stat || is_session y) && negb (has_fw_exec y) && negb (has_fw_exec x) in
      if opres_eqb stat1 x y then first_diff_from (i + 1) stat1 m' r' else Some i
  | _, _ => Some i
  end.
Definition first_diff := fun (i : N) => first_diff_from i true.

Definition check (c : case) : bool :=
  match c with
  | mkCase p ops real =>
      match first_diff 0 (run_history p init_state ops) real with None => true | Some _ => false end
  end.

Fixpoint failures_from (i : N) (cs : list case) : list N :=
  match cs with
  | [] => []
  | c :: r => if check c then failures_from (i + 1) r else i :: failures_from (i + 1) r
  end.
Definition failures (cs : list case) : list N := failures_from 0 cs.

(** the same cases against the core model (programs with inputs and normal queries only) *)
From QV Require Import Engine.Core.
Definition check_core (c : case) : bool :=
  match c with
  | mkCase p ops real =>
      match first_diff 0 (crun_history p cinit ops) real with None => true | Some _ => false end
  end.
Fixpoint core_failures_from (i : N) (cs : list case) : list N :=
  match cs with
  | [] => []
  | c :: r => if check_core c then core_failures_from (i + 1) r else i :: core_failures_from (i + 1) r
  end.
Definition core_failures (cs : list case) : list N := core_failures_from 0 cs.

(** values only (programs with cycles AND unordered groups: which callees of a group are
    repaired before a sibling reports a change depends on task scheduling, so the multiset
    of executions is not a function of the history there) *)
Fixpoint values_diff (i : N) (m r : list opres) : option N :=
  match m, r with
  | [], [] => None
  | x :: m', y :: r' => if rout_eqb (r_out x) (r_out y) then values_diff (i + 1) m' r' else Some i
  | _, _ => Some i
  end.
Definition check_values (c : case) : bool :=
  match c with
  | mkCase p ops real => match values_diff 0 (run_history p init_state ops) real with None => true | Some _ => false end
  end.
Fixpoint value_failures_from (i : N) (cs : list case) : list N :=
  match cs with
  | [] => []
  | c :: r => if check_values c then value_failures_from (i + 1) r else i :: value_failures_from (i + 1) r
  end.
Definition value_failures (cs : list case) : list N := value_failures_from 0 cs.
