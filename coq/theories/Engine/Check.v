(** Correspondence checker for the engine model: one case = a program, a history and what
    the real engine did for every operation (result, executed nodes, dirtied-edge
    statistic).  [failures] lists the cases on which the model disagrees. *)
From QV Require Import Common.Prelude Engine.Model.
Open Scope Z_scope.

(** the persisted bookkeeping of one query as the real engine reports it through the
    read-only hook `qbice::verif_hooks::dump_node` *)
Record ndump := mkDump {
  d_verified : option N; d_pending : option N;
  d_tfc : list node; d_fwd : list node; d_obs : list node; d_dirty : list node;
  (* observed dependencies whose observed value / transitive-firewall-callee fingerprint is
     the one the dependency records now *)
  d_obs_val_cur : list node; d_obs_tfc_cur : list node;
  d_bwd : list node (* recorded callers (backward edges) *) }.

Inductive case :=
| mkCase (p : program) (ops : list op) (real : list opres)
| mkCaseS (strict : bool) (p : program) (ops : list op) (real : list opres) (states : list (list (node * ndump))).
(* strict = false: db-backed run; see [ndump_eqb] *)

Definition count (x : node) (l : list node) : nat := length (filter (node_eqb x) l).
Definition multiset_eqb (a b : list node) : bool :=
  forallb (fun x => Nat.eqb (count x a) (count x b)) (a ++ b).

Definition sres_eqb (a b : sres) : bool :=
  match a, b with SFresh, SFresh | SUpdated, SUpdated | SUnchanged, SUnchanged => true | _, _ => false end.
Fixpoint list_eqb {A} (eqb : A -> A -> bool) (a b : list A) : bool :=
  match a, b with
  | [], [] => true
  | x :: a', y :: b' => eqb x y && list_eqb eqb a' b'
  | _, _ => false
  end.
Definition rout_eqb (a b : rout) : bool :=
  match a, b with
  | RValue x, RValue y => x =? y
  | RPanic, RPanic | RUnit, RUnit => true
  | RSession x, RSession y => list_eqb sres_eqb x y
  | _, _ => false
  end.
Definition optN_eqb (a b : option N) : bool :=
  match a, b with Some x, Some y => (x =? y)%N | None, None => true | _, _ => false end.
(** The dirtied-edge statistic counts, for every node expanded by dirty propagation, its
    callers at that moment.  Once a firewall or projection has been re-executed in an epoch
    the count depends on the order in which the parallel repair tasks rewired backward
    edges (observed: +-1 on 5 of 800 histories, values and executions identical), so it is
    compared only until the first such execution of each epoch. *)
Definition opres_eqb (stat : bool) (m r : opres) : bool :=
  rout_eqb (r_out m) (r_out r) && multiset_eqb (r_execs m) (r_execs r)
  && (negb stat || optN_eqb (r_dirtied m) (r_dirtied r)).
(** db-backed runs ([strict = false]): executions of projections are not compared.  When a
    firewall changes, the projections that read it are re-run by parallel backward-projection
    tasks; a projection P0 that another of them (P1) reads is either reached first by its own
    task (unconditional re-execution) or first as a dependency of P1 (ordinary repair: clean if
    the firewall has the value P0 saw last) - on a db-backed engine every cache miss is a
    scheduling point and either order occurs (observed: model [F0; P0; P1], engine [F0; P1],
    same values and same state afterwards).  The justification oracle of the harness still
    judges every real execution on its own. *)
Definition no_proj (l : list node) : list node := filter (fun n => negb (kind_eqb (nkind n) KProjection)) l.
Definition opres_eqb_gen (strict stat : bool) (m r : opres) : bool :=
  if strict then opres_eqb stat m r
  else rout_eqb (r_out m) (r_out r) && multiset_eqb (no_proj (r_execs m)) (no_proj (r_execs r))
       && (negb stat || optN_eqb (r_dirtied m) (r_dirtied r)).
Definition has_fw_exec (r : opres) : bool := existsb (fun n => is_fw_or_proj (nkind n)) (r_execs r).
Definition is_session (r : opres) : bool := match r_out r with RSession _ => true | _ => false end.

(** index of the first operation on which model and engine differ *)
Fixpoint first_diff_from (i : N) (stat : bool) (m r : list opres) : option N :=
  match m, r with
  | [], [] => None
  | x :: m', y :: r' =>
      let stat1 := (stat || is_session y) && negb (has_fw_exec y) && negb (has_fw_exec x) in
      if opres_eqb stat1 x y then first_diff_from (i + 1) stat1 m' r' else Some i
  | _, _ => Some i
  end.
Definition first_diff := fun (i : N) => first_diff_from i true.

(** * state-level comparison: after every operation, every query's bookkeeping *)
Definition model_dump (s : state) (n : node) : ndump :=
  match get_info s n with
  | None => mkDump None None [] [] [] [] [] [] (callers_of s n)
  | Some i =>
      let fwd := all_callees (i_fwd i) in
      mkDump (Some (i_verified i)) (i_pending i) (i_tfc i) fwd (map fst (i_obs i))
             (filter (fun c => emem (n, c) (s_dirty s)) fwd)
             (map fst (filter (fun '(x, (v, _)) => match get_info s x with Some xi => i_value xi =? v | None => false end) (i_obs i)))
             (map fst (filter (fun '(x, (_, t)) => match get_info s x with Some xi => nset_eqb (i_tfc xi) t | None => false end) (i_obs i)))
             (callers_of s n)
  end.
(** [last_verified] is compared only as "computed or not": whether a clean query is stamped in
    this epoch depends on whether some pedantic walk reached it before or after the (parallel)
    transitive-firewall repair of its caller, i.e. on task order inside one request (observed:
    model 5, engine 4 for an external input below a firewall; values and everything else equal) *)
Definition opt_same_shape (a b : option N) : bool :=
  match a, b with Some _, Some _ | None, None => true | _, _ => false end.
(** The pending-backward-projection mark is reported but not compared: whether a changed
    firewall is reached first by the transitive-firewall repair of a root (which runs its
    backward projections and clears the mark) or as a dependency of a sibling task (which leaves
    the mark for the rest of the epoch) depends on the interleaving of the parallel repair tasks
    of one request, which the model sequentialises (observed on in-memory and db-backed runs:
    mark of the current epoch present in the model and absent in the engine; values, executions
    and everything else equal).  A mark of an earlier epoch is never looked at again. *)
Definition ndump_eqb_gen (strict dirty : bool) (a b : ndump) : bool :=
  opt_same_shape (d_verified a) (d_verified b)
  && nset_eqb (d_tfc a) (d_tfc b) && list_eqb node_eqb (d_fwd a) (d_fwd b)
  && nset_eqb (d_obs a) (d_obs b) && (negb dirty || nset_eqb (d_dirty a) (d_dirty b))
  && nset_eqb (d_obs_val_cur a) (d_obs_val_cur b) && nset_eqb (d_obs_tfc_cur a) (d_obs_tfc_cur b)
  && nset_eqb (d_bwd a) (d_bwd b).
Definition ndump_eqb := ndump_eqb_gen true.
Definition state_eqb (strict dirty : bool) (s : state) (real : list (node * ndump)) : bool :=
  forallb (fun '(n, d) => ndump_eqb_gen strict dirty (model_dump s n) d) real.

(** runs the model over the history; returns the index of the first operation after which
    result or state differ.  Dirty marks are compared under the same restriction as the
    statistic (until the first firewall/projection re-execution of an epoch). *)
(** [projs]: the program has projections.  Then, once a firewall or projection has been
    re-executed, dirty marks (and the statistic) are not compared any more for the rest of the
    history: a changed firewall sends its dirt up through the projections above it exactly when
    it is reached by an executor (for instance the re-run of a projection by a sibling's backward
    projection) before its own transitive-firewall repair task, so which clean-able edges above
    a projection carry a mark depends on task order, and marks survive sessions. *)
Fixpoint states_diff_gen (stepf : state -> op -> state * opres) (projs strict : bool) (i : N) (stat : bool) (s : state)
         (ops : list op) (real : list opres) (states : list (list (node * ndump))) : option N :=
  match ops, real, states with
  | [], [], [] => None
  | o :: ops', y :: real', st :: states' =>
      let '(s', x) := stepf s o in
      let stat1 := (stat || (is_session y && negb projs)) && negb (has_fw_exec y) && negb (has_fw_exec x) in
      if opres_eqb_gen strict stat1 x y && state_eqb strict stat1 s' st
      then states_diff_gen stepf projs strict (i + 1) stat1 s' ops' real' states'
      else Some i
  | _, _, _ => Some i
  end.
Definition has_projection (p : program) : bool := existsb (fun '(n, _) => kind_eqb (nkind n) KProjection) p.
Definition states_diff (strict : bool) (p : program) := states_diff_gen (step p) (has_projection p) strict.

Definition check (c : case) : bool :=
  match c with
  | mkCase p ops real =>
      match first_diff 0 (run_history p init_state ops) real with None => true | Some _ => false end
  | mkCaseS strict p ops real states =>
      match states_diff strict p 0 true init_state ops real states with None => true | Some _ => false end
  end.

Fixpoint failures_from (i : N) (cs : list case) : list N :=
  match cs with
  | [] => []
  | c :: r => if check c then failures_from (i + 1) r else i :: failures_from (i + 1) r
  end.
Definition failures (cs : list case) : list N := failures_from 0 cs.

(** the same cases against the core model (programs with inputs and normal queries only) *)
From QV Require Import Engine.Core.
Definition check_core (c : case) : bool :=
  match c with
  | mkCase p ops real | mkCaseS _ p ops real _ =>
      match first_diff 0 (crun_history p cinit ops) real with None => true | Some _ => false end
  end.
Fixpoint core_failures_from (i : N) (cs : list case) : list N :=
  match cs with
  | [] => []
  | c :: r => if check_core c then core_failures_from (i + 1) r else i :: core_failures_from (i + 1) r
  end.
Definition core_failures (cs : list case) : list N := core_failures_from 0 cs.

(** values only (programs with cycles AND unordered groups: which callees of a group are
    repaired before a sibling reports a change depends on task scheduling, so the multiset
    of executions is not a function of the history there) *)
Fixpoint values_diff (i : N) (m r : list opres) : option N :=
  match m, r with
  | [], [] => None
  | x :: m', y :: r' => if rout_eqb (r_out x) (r_out y) then values_diff (i + 1) m' r' else Some i
  | _, _ => Some i
  end.
Definition check_values (c : case) : bool :=
  match c with
  | mkCase p ops real | mkCaseS _ p ops real _ => match values_diff 0 (run_history p init_state ops) real with None => true | Some _ => false end
  end.
Fixpoint value_failures_from (i : N) (cs : list case) : list N :=
  match cs with
  | [] => []
  | c :: r => if check_values c then value_failures_from (i + 1) r else i :: value_failures_from (i + 1) r
  end.
Definition value_failures (cs : list case) : list N := value_failures_from 0 cs.

(** the same cases against the firewall fragment model (inputs, normal and firewall queries) *)
From QV Require Import Engine.Fw.
Definition check_fw (c : case) : bool :=
  match c with
  | mkCase p ops real =>
      match first_diff 0 (frun_history p init_state ops) real with None => true | Some _ => false end
  | mkCaseS strict p ops real states =>
      match states_diff_gen (fstep_f fuel0 p) false strict 0 true init_state ops real states with None => true | Some _ => false end
  end.
Fixpoint fw_failures_from (i : N) (cs : list case) : list N :=
  match cs with
  | [] => []
  | c :: r => if check_fw c then fw_failures_from (i + 1) r else i :: fw_failures_from (i + 1) r
  end.
Definition fw_failures (cs : list case) : list N := fw_failures_from 0 cs.

(** programs in which firewalls read firewalls / projections read projections: which of the
    parallel repair tasks of one request reaches a shared firewall or projection first decides
    whether stale transitive firewall callees are repaired and whether a projection is re-run
    or cleaned, so executions and bookkeeping are not a function of the history there (the
    model runs the tasks one after the other).  Graded comparison: 2*i for a case that differs
    from the model only in executions / bookkeeping, 2*i+1 for one whose ANSWERS differ. *)
Fixpoint graded_failures_from (i : N) (cs : list case) : list N :=
  match cs with
  | [] => []
  | c :: r =>
      if check c then graded_failures_from (i + 1) r
      else (if check_values c then 2 * i else 2 * i + 1)%N :: graded_failures_from (i + 1) r
  end.
Definition graded_failures (cs : list case) : list N := graded_failures_from 0 cs.
