(** C05 on the core fragment: cancellation never corrupts the engine.  A cancelled request
    leaves behind the effects of the sub-requests that had completed, and nothing else (the
    computing entries are volatile).  This is modelled by interleaving, anywhere in a history,
    operations [CPartial stk c fr n] that run [cquery] for an ARBITRARY caller kind, pedantic
    flag, previous-dependency list, frame and computing stack, keep the resulting state when
    the call returns [Ok] and leave the state unchanged otherwise; the outcome and the frame
    are discarded.

    The only side condition is on the stack: no member of [stk] may be reachable from [n]
    through the reads of the program, unless [n] itself is on the stack (then the call returns
    at once).  Every stack that arises inside a run started by a user query satisfies it
    ([RStkOk_cstack_ok]: stack members are strict ancestors of the requested node); it is
    decidable ([cstack_okb]).  Without it a partial request would see a spurious cycle and
    publish the cycle default value. *)
From QV Require Import Common.Prelude Engine.Model Engine.Core Engine.CoreSpec
  Engine.CoreInvBase Engine.CoreInvSem Engine.CoreInvMono Engine.CoreInvState
  Engine.CoreInvRun Engine.CoreInvCommit Engine.CoreInvProgress Engine.CoreSound.
Open Scope Z_scope.

Inductive cop :=
| CUser (o : op)
| CPartial (stk : list node) (c : ccaller) (fr : option cframe) (n : node).

Definition cpartial_f (fuel : nat) (p : program) (s : cstate)
  (stk : list node) (c : ccaller) (fr : option cframe) (n : node) : cstate :=
  match cquery p fuel stk c fr n s with Ok (_, _, s') => s' | _ => s end.

Definition cstep_cancel_f (fuel : nat) (p : program) (s : cstate) (o : cop) : cstate * option opres :=
  match o with
  | CUser o => let '(s', r) := cstep_f fuel p s o in (s', Some r)
  | CPartial stk c fr n => (cpartial_f fuel p s stk c fr n, None)
  end.

Fixpoint crun_cancel_f (fuel : nat) (p : program) (s : cstate) (ops : list cop) : list (option opres) :=
  match ops with
  | [] => []
  | o :: r => let '(s', x) := cstep_cancel_f fuel p s o in x :: crun_cancel_f fuel p s' r
  end.
Fixpoint cstate_cancel_f (fuel : nat) (p : program) (s : cstate) (ops : list cop) : cstate :=
  match ops with
  | [] => s
  | o :: r => cstate_cancel_f fuel p (fst (cstep_cancel_f fuel p s o)) r
  end.

Definition capply_op (inp : inputs) (o : cop) : inputs :=
  match o with CUser o => apply_op inp o | CPartial _ _ _ _ => inp end.
Definition cinputs_after (ops : list cop) : inputs := fold_left capply_op ops [].

(** the nodes executed by one operation (for a partial request: the new part of the log) *)
Definition cop_execs (fuel : nat) (p : program) (s : cstate) (o : cop) : list node :=
  match o with
  | CUser o => r_execs (snd (cstep_f fuel p s o))
  | CPartial stk c fr n =>
      match cquery p fuel stk c fr n s with
      | Ok (_, _, s') => rev (firstn (length (cs_log s') - length (cs_log s)) (cs_log s'))
      | _ => []
      end
  end.
Fixpoint cexecs_cancel_f (fuel : nat) (p : program) (s : cstate) (ops : list cop) : list (list node) :=
  match ops with
  | [] => []
  | o :: r => cop_execs fuel p s o :: cexecs_cancel_f fuel p (fst (cstep_cancel_f fuel p s o)) r
  end.

(** * the stack condition *)
Inductive creach (p : program) : node -> node -> Prop :=
| cr_refl : forall n, creach p n n
| cr_step : forall n e d m, alookup p n = Some e -> In d (expr_reads e) -> creach p d m -> creach p n m.

Definition cstack_ok (p : program) (stk : list node) (n : node) : Prop :=
  In n stk \/ forall m, In m stk -> ~ creach p n m.

(** a checker: reachability search with fuel, three-valued ([None] = out of fuel) *)
Fixpoint creachb (F : nat) (p : program) (n m : node) : option bool :=
  match F with
  | O => None
  | S f =>
      if node_eqb n m then Some true
      else match alookup p n with
           | None => Some false
           | Some e =>
               fold_right (fun d acc =>
                             match creachb f p d m, acc with
                             | Some false, Some false => Some false
                             | Some true, _ | _, Some true => Some true
                             | _, _ => None
                             end) (Some false) (expr_reads e)
           end
  end.
Definition cstack_okb (F : nat) (p : program) (stk : list node) (n : node) : bool :=
  nmem n stk || forallb (fun m => match creachb F p n m with Some false => true | _ => false end) stk.

Lemma creachb_fold_false : forall (g : node -> option bool) l,
  fold_right (fun d acc => match g d, acc with
                           | Some false, Some false => Some false
                           | Some true, _ | _, Some true => Some true
                           | _, _ => None
                           end) (Some false) l = Some false ->
  forall d, In d l -> g d = Some false.
Proof.
  intros g. induction l as [|x r IH]; intros H d Hd; [destruct Hd|]. cbn [fold_right] in H.
  destruct (g x) as [[|]|] eqn:Ex;
    destruct (fold_right _ (Some false) r) as [[|]|] eqn:Er; try discriminate.
  destruct Hd as [<-|Hd]; [exact Ex|]. apply IH; [reflexivity|exact Hd].
Qed.

Lemma creachb_sound : forall F p n m, creachb F p n m = Some false -> ~ creach p n m.
Proof.
  induction F as [|f IH]; intros p n m H Hr; [discriminate|]. cbn [creachb] in H.
  destruct (node_eqb_spec n m) as [->|Hne]; [discriminate|].
  inversion Hr as [|n0 e d m0 He Hd Hdm]; subst; [congruence|].
  rewrite He in H. apply (IH p d m); [|exact Hdm].
  apply (creachb_fold_false (fun d => creachb f p d m) _ H d Hd).
Qed.

Lemma cstack_okb_sound : forall F p stk n, cstack_okb F p stk n = true -> cstack_ok p stk n.
Proof.
  intros F p stk n H. unfold cstack_okb in H. apply orb_true_iff in H. destruct H as [H|H].
  - left. apply nmem_In. exact H.
  - right. intros m Hm. rewrite forallb_forall in H. specialize (H m Hm).
    destruct (creachb F p n m) as [[|]|] eqn:E; try discriminate. eapply creachb_sound; eauto.
Qed.

Section Cancel.
Variable p : program.
Variable rk : node -> nat.
Hypothesis Hrk : forall n e d, alookup p n = Some e -> In d (expr_reads e) -> (rk d < rk n)%nat.

Lemma creach_rank : forall n m, creach p n m -> (rk m <= rk n)%nat.
Proof.
  intros n m H. induction H as [|n e d m He Hd _ IH]; [lia|]. specialize (Hrk _ _ _ He Hd). lia.
Qed.

(** every stack of a run started by a user query (stack members have a larger rank) is fine *)
Lemma RStkOk_cstack_ok : forall stk n, RStkOk rk stk n -> cstack_ok p stk n.
Proof.
  intros stk n H. right. intros m Hm Hr. apply creach_rank in Hr. specialize (H m Hm). lia.
Qed.

Definition NRStk (stk : list node) (n : node) : Prop := forall m, In m stk -> ~ creach p n m.

Lemma NRStk_notin : forall stk n, NRStk stk n -> ~ In n stk.
Proof. intros stk n H K. apply (H n K). constructor. Qed.

Lemma NRStk_push : forall stk n e d,
  NRStk stk n -> alookup p n = Some e -> In d (expr_reads e) -> NRStk (n :: stk) d.
Proof.
  intros stk n e d H He Hd m [<-|Hm] Hr.
  - apply creach_rank in Hr. specialize (Hrk _ _ _ He Hd). lia.
  - apply (H m Hm). eapply cr_step; eauto.
Qed.

Lemma cquery_on_stack : forall fuel stk c fr n s,
  In n stk -> cpartial_f fuel p s stk c fr n = s.
Proof.
  intros fuel stk c fr n s H. unfold cpartial_f. destruct fuel as [|f]; [reflexivity|].
  rewrite cquery_S. cbv zeta. apply nmem_In in H. rewrite H. reflexivity.
Qed.

(** a partial request keeps the invariant, whatever the caller, flags, frame *)
Lemma cpartial_inv : forall fuel inp s stk c fr n,
  CInv p inp s -> cstack_ok p stk n -> CInv p inp (cpartial_f fuel p s stk c fr n).
Proof.
  intros fuel inp s stk c fr n HI [Hn|Hok].
  - rewrite cquery_on_stack; assumption.
  - unfold cpartial_f. destruct (cquery p fuel stk c fr n s) as [[[o fr'] s']| | |] eqn:Eq; try exact HI.
    apply (proj1 (sound_all p rk Hrk NRStk NRStk_notin NRStk_push fuel) inp stk c fr n s o fr' s' HI Hok Eq).
Qed.

Lemma cstep_cancel_inv : forall fuel s o s' r inp,
  CInv p inp s -> cstep_cancel_f fuel p s o = (s', r) ->
  (forall stk c fr n, o = CPartial stk c fr n -> cstack_ok p stk n) ->
  (forall sets b x, o = CUser (OSession sets b) -> r = Some x -> r_out x <> RFuel) ->
  CInv p (capply_op inp o) s'.
Proof.
  intros fuel s o s' r inp HI H Hstk Hfuel. destruct o as [o|stk c fr n]; cbn [cstep_cancel_f capply_op] in *.
  - destruct (cstep_f fuel p s o) as [s1 x] eqn:Es. inversion H. subst.
    eapply (cstep_inv p rk Hrk); eauto. intros sets b ->. eapply Hfuel; reflexivity.
  - inversion H. subst. apply cpartial_inv; [exact HI|]. eapply Hstk. reflexivity.
Qed.

Definition cfuelled_from (fuel : nat) (s : cstate) (ops : list cop) (i : nat) : Prop :=
  forall k sets b x, (k < i)%nat -> nth_error ops k = Some (CUser (OSession sets b)) ->
    nth_error (crun_cancel_f fuel p s ops) k = Some (Some x) -> r_out x <> RFuel.
Definition cpartials_ok_upto (ops : list cop) (i : nat) : Prop :=
  forall k stk c fr n, (k < i)%nat -> nth_error ops k = Some (CPartial stk c fr n) -> cstack_ok p stk n.

Lemma crun_cancel_sound : forall fuel ops s inp i n r z,
  CInv p inp s -> cfuelled_from fuel s ops i -> cpartials_ok_upto ops i ->
  nth_error ops i = Some (CUser (OQuery n)) ->
  nth_error (crun_cancel_f fuel p s ops) i = Some (Some r) ->
  r_out r = RValue z ->
  SpecI p (fold_left capply_op (firstn i ops) inp) n z.
Proof.
  intros fuel. induction ops as [|o rest IH]; intros s inp i n r z HI Hfuel Hstk Hop Hres Hz.
  - destruct i; discriminate.
  - cbn [crun_cancel_f] in Hres, Hfuel. unfold cfuelled_from in Hfuel. cbn [crun_cancel_f] in Hfuel.
    destruct (cstep_cancel_f fuel p s o) as [s' x] eqn:Es. destruct i as [|i].
    + cbn in Hop, Hres. inversion Hop. inversion Hres. subst. cbn [firstn fold_left].
      cbn [cstep_cancel_f] in Es. destruct (cstep_f fuel p s (OQuery n)) as [s1 x1] eqn:E1. inversion Es. subst.
      eapply (cstep_query_sound p rk Hrk); eauto.
    + cbn [nth_error firstn fold_left] in *. eapply IH; eauto.
      * eapply cstep_cancel_inv; eauto.
        -- intros stk c fr m ->. apply (Hstk 0%nat stk c fr m); [lia|reflexivity].
        -- intros sets b x0 -> ->. apply (Hfuel 0%nat sets b x0); [lia|reflexivity|reflexivity].
      * intros k sets b x0 Hk Hk1 Hk2. apply (Hfuel (S k) sets b x0); [lia|exact Hk1|exact Hk2].
      * intros k stk c fr m Hk Hk1. apply (Hstk (S k) stk c fr m); [lia|exact Hk1].
Qed.

(** ** no panic *)
Hypothesis Hnog : forall n e, alookup p n = Some e -> no_group e = true.
Hypothesis Htargets : forall n e d, alookup p n = Some e -> In d (expr_reads e) ->
  nkind d = KInput \/ (nkind d = KNormal /\ alookup p d <> None).

Lemma cpartial_sinv : forall fuel inp s stk c fr n,
  SInv p inp s -> cstack_ok p stk n -> SInv p inp (cpartial_f fuel p s stk c fr n).
Proof.
  intros fuel inp s stk c fr n HS [Hn|Hok].
  - rewrite cquery_on_stack; assumption.
  - unfold cpartial_f.
    pose proof (proj1 (prog_all p Hnog Htargets NRStk NRStk_notin NRStk_push inp fuel) stk c fr n s HS Hok) as P.
    destruct (cquery p fuel stk c fr n s) as [[[o fr'] s']| | |]; try exact HS. apply P.
Qed.

Lemma crun_cancel_no_panic : forall fuel ops s inp i n r,
  SInv p inp s -> cpartials_ok_upto ops i ->
  nth_error ops i = Some (CUser (OQuery n)) -> nkind n = KNormal -> alookup p n <> None ->
  nth_error (crun_cancel_f fuel p s ops) i = Some (Some r) ->
  Cov p (fold_left capply_op (firstn i ops) inp) ->
  (exists z, r_out r = RValue z) \/ r_out r = RFuel.
Proof.
  intros fuel. induction ops as [|o rest IH]; intros s inp i n r HS Hstk Hop Hk Hp Hres Hc.
  - destruct i; discriminate.
  - cbn [crun_cancel_f] in Hres. destruct (cstep_cancel_f fuel p s o) as [s' x] eqn:Es. destruct i as [|i].
    + cbn in Hop, Hres, Hc. inversion Hop. inversion Hres. subst.
      cbn [cstep_cancel_f] in Es. destruct (cstep_f fuel p s (OQuery n)) as [s1 x1] eqn:E1. inversion Es. subst.
      eapply (cstep_query_fine p rk Hrk Hnog Htargets); eauto.
    + cbn [nth_error firstn fold_left] in *. apply (IH s' (capply_op inp o) i n r); auto.
      * destruct o as [o|stk c fr m]; cbn [cstep_cancel_f capply_op] in *.
        -- destruct (cstep_f fuel p s o) as [s1 x1] eqn:E1. inversion Es. subst.
           eapply (cstep_sinv p rk Hrk Hnog Htargets); eauto.
        -- inversion Es. subst. apply cpartial_sinv; [exact HS|].
           apply (Hstk 0%nat stk c fr m); [lia|reflexivity].
      * intros k stk c fr m Hk0 Hk1. apply (Hstk (S k) stk c fr m); [lia|exact Hk1].
Qed.
End Cancel.

(** * the theorems *)
Definition csessions_fuelled (fuel : nat) (p : program) (ops : list cop) (i : nat) : Prop :=
  forall k sets b x, (k < i)%nat -> nth_error ops k = Some (CUser (OSession sets b)) ->
    nth_error (crun_cancel_f fuel p cinit ops) k = Some (Some x) -> r_out x <> RFuel.
Definition cpartials_ok (p : program) (ops : list cop) (i : nat) : Prop :=
  forall k stk c fr n, (k < i)%nat -> nth_error ops k = Some (CPartial stk c fr n) -> cstack_ok p stk n.

Theorem C05_core_cancel_sound : forall fuel p ops i n r z,
  wf_core p -> csessions_fuelled fuel p ops i -> cpartials_ok p ops i ->
  nth_error ops i = Some (CUser (OQuery n)) ->
  nth_error (crun_cancel_f fuel p cinit ops) i = Some (Some r) ->
  r_out r = RValue z ->
  Spec p (cinputs_after (firstn i ops)) n z.
Proof.
  intros fuel p ops i n r z Hwf Hfuel Hstk Hop Hres Hz.
  destruct (wf_core_rank p Hwf) as [rk Hrk]. apply Spec_SpecI.
  unfold cinputs_after. eapply (crun_cancel_sound p rk Hrk); eauto. apply CInv_init.
Qed.

Theorem C05_core_cancel_no_panic : forall fuel p ops i n r,
  wf_core p -> cpartials_ok p ops i ->
  nth_error ops i = Some (CUser (OQuery n)) -> alookup p n <> None ->
  nth_error (crun_cancel_f fuel p cinit ops) i = Some (Some r) ->
  inputs_cover p (cinputs_after (firstn i ops)) ->
  (exists z, r_out r = RValue z) \/ r_out r = RFuel.
Proof.
  intros fuel p ops i n r Hwf Hstk Hop Hp Hres Hcov.
  destruct (wf_core_rank p Hwf) as [rk Hrk].
  assert (Hkeys : forall m e, alookup p m = Some e -> nkind m = KNormal /\ no_group e = true).
  { intros m e He. apply alookup_In in He. apply (wf_keys p Hwf m e He). }
  assert (Htargets : forall m e d, alookup p m = Some e -> In d (expr_reads e) ->
            nkind d = KInput \/ (nkind d = KNormal /\ alookup p d <> None)).
  { intros m e d He Hd. apply alookup_In in He. apply (wf_targets p Hwf m e d He Hd). }
  assert (Hk : nkind n = KNormal).
  { destruct (alookup p n) as [e|] eqn:Ee; [|congruence]. apply (Hkeys n e Ee). }
  eapply (crun_cancel_no_panic p rk Hrk (fun m e He => proj2 (Hkeys m e He)) Htargets fuel ops cinit [] i n r); eauto.
  - apply SInv_init.
  - intros m e d He Hd Kd. apply alookup_In in He. apply (Hcov m e d He Hd Kd).
Qed.

(** ** at most once per epoch, partial requests included: every program, every fuel, every
    stack (no side condition) *)
Section Once.
Variable p : program.

Lemma firstn_new : forall {A} (new l : list A), firstn (length (new ++ l) - length l) (new ++ l) = new.
Proof.
  intros A new l. rewrite app_length. replace (length new + length l - length l)%nat with (length new + 0)%nat by lia.
  rewrite firstn_app_2. cbn. apply app_nil_r.
Qed.

Lemma cop_execs_spec : forall fuel s o m,
  In m (cop_execs fuel p s o) ->
  verified (fst (cstep_cancel_f fuel p s o)) m /\ ~ verified s m.
Proof.
  intros fuel s o m H. destruct o as [o|stk c fr n]; cbn [cop_execs cstep_cancel_f] in *.
  - destruct (cstep_f fuel p s o) as [s1 x] eqn:Es. cbn [fst snd] in *. eapply cstep_execs; eauto.
  - unfold cpartial_f. cbn [fst].
    destruct (cquery p fuel stk c fr n s) as [[[o fr'] s']| | |] eqn:Eq; try destruct H.
    apply (proj1 (mono_all p fuel)) in Eq. destruct (mr_log _ _ _ Eq) as [new [L [_ P]]].
    rewrite L, firstn_new in H. apply in_rev in H. destruct (P m H) as (_ & A & B). auto.
Qed.

Lemma cop_execs_nodup : forall fuel s o, NoDup (cop_execs fuel p s o).
Proof.
  intros fuel s o. destruct o as [o|stk c fr n]; cbn [cop_execs].
  - destruct (cstep_f fuel p s o) as [s1 x] eqn:Es. cbn [snd]. eapply cstep_nodup; eauto.
  - destruct (cquery p fuel stk c fr n s) as [[[o fr'] s']| | |] eqn:Eq; try constructor.
    apply (proj1 (mono_all p fuel)) in Eq. destruct (mr_log _ _ _ Eq) as [new [L [N _]]].
    rewrite L, firstn_new. apply NoDup_rev. exact N.
Qed.

Lemma cop_keeps_verified : forall fuel s o m,
  (forall sets b, o <> CUser (OSession sets b)) -> verified s m ->
  verified (fst (cstep_cancel_f fuel p s o)) m.
Proof.
  intros fuel s o m Hns Hv. destruct o as [o|stk c fr n]; cbn [cstep_cancel_f].
  - destruct (cstep_f fuel p s o) as [s1 x] eqn:Es. cbn [fst]. eapply cstep_keeps_verified; eauto.
    intros sets b ->. eapply Hns. reflexivity.
  - cbn [fst]. unfold cpartial_f.
    destruct (cquery p fuel stk c fr n s) as [[[o fr'] s']| | |] eqn:Eq; try exact Hv.
    apply (proj1 (mono_all p fuel)) in Eq. eapply verified_mono; eauto.
Qed.

Definition cno_session_between (ops : list cop) (j i : nat) : Prop :=
  forall k sets b, (j <= k <= i)%nat -> nth_error ops k <> Some (CUser (OSession sets b)).

Lemma cexecs_verified_not_executed : forall fuel ops s i m l,
  verified s m ->
  (forall k sets b, (k <= i)%nat -> nth_error ops k <> Some (CUser (OSession sets b))) ->
  nth_error (cexecs_cancel_f fuel p s ops) i = Some l -> ~ In m l.
Proof.
  intros fuel. induction ops as [|o rest IH]; intros s i m l Hv Hns Hl Hm; [destruct i; discriminate|].
  cbn [cexecs_cancel_f] in Hl. destruct i as [|i].
  - cbn in Hl. inversion Hl. subst. destruct (cop_execs_spec _ _ _ _ Hm) as [_ K]. contradiction.
  - cbn [nth_error] in Hl. apply (IH _ i m l) in Hl; auto.
    + apply cop_keeps_verified; [|exact Hv]. intros sets b ->. apply (Hns 0%nat sets b); [lia|reflexivity].
    + intros k sets b Hk. apply (Hns (S k) sets b). lia.
Qed.

Lemma cexecs_once : forall fuel ops s j i m lj li,
  (j < i)%nat ->
  nth_error (cexecs_cancel_f fuel p s ops) j = Some lj -> In m lj ->
  nth_error (cexecs_cancel_f fuel p s ops) i = Some li -> In m li ->
  ~ cno_session_between ops j i.
Proof.
  intros fuel. induction ops as [|o rest IH]; intros s j i m lj li Hji Hj Hmj Hi Hmi Hns; [destruct j; discriminate|].
  cbn [cexecs_cancel_f] in Hj, Hi. destruct i as [|i]; [lia|]. cbn [nth_error] in Hi. destruct j as [|j].
  - cbn in Hj. inversion Hj. subst. destruct (cop_execs_spec _ _ _ _ Hmj) as [Hv _].
    eapply (cexecs_verified_not_executed fuel rest _ i m li Hv); eauto.
    intros k sets b Hk. apply (Hns (S k) sets b). lia.
  - cbn [nth_error] in Hj. eapply (IH _ j i m lj li); eauto; [lia|].
    intros k sets b Hk. apply (Hns (S k) sets b). lia.
Qed.

Lemma cexecs_nodup : forall fuel ops s i l,
  nth_error (cexecs_cancel_f fuel p s ops) i = Some l -> NoDup l.
Proof.
  intros fuel. induction ops as [|o rest IH]; intros s i l H; [destruct i; discriminate|].
  cbn [cexecs_cancel_f] in H. destruct i as [|i].
  - cbn in H. inversion H. apply cop_execs_nodup.
  - cbn [nth_error] in H. eapply IH; eauto.
Qed.
End Once.

Theorem C05_core_cancel_once : forall fuel p ops i j m lj li,
  let ex := cexecs_cancel_f fuel p cinit ops in
  (nth_error ex i = Some li -> NoDup li) /\
  ((j < i)%nat -> nth_error ex j = Some lj -> In m lj -> nth_error ex i = Some li -> In m li ->
   ~ cno_session_between ops j i).
Proof.
  intros fuel p ops i j m lj li. cbv zeta. split.
  - apply cexecs_nodup.
  - intros. eapply cexecs_once; eauto.
Qed.

(** the executed nodes reported for a user operation are its [r_execs] *)
Lemma cexecs_user : forall fuel p ops s i o r,
  nth_error ops i = Some (CUser o) -> nth_error (crun_cancel_f fuel p s ops) i = Some (Some r) ->
  nth_error (cexecs_cancel_f fuel p s ops) i = Some (r_execs r).
Proof.
  intros fuel p. induction ops as [|o0 rest IH]; intros s i o r Hop Hr; [destruct i; discriminate|].
  cbn [crun_cancel_f cexecs_cancel_f] in *. destruct (cstep_cancel_f fuel p s o0) as [s' x] eqn:Es.
  destruct i as [|i].
  - cbn in *. inversion Hop. inversion Hr. subst. cbn [cstep_cancel_f] in Es.
    cbn [cop_execs]. destruct (cstep_f fuel p s o) as [s1 x1]. inversion Es. reflexivity.
  - cbn [nth_error fst] in *. eapply IH; eauto.
Qed.

(** a partial request that does not return [Ok] leaves the state unchanged *)
Lemma cpartial_unchanged : forall fuel p s stk c fr n,
  (forall x, cquery p fuel stk c fr n s <> Ok x) -> cpartial_f fuel p s stk c fr n = s.
Proof.
  intros fuel p s stk c fr n H. unfold cpartial_f.
  destruct (cquery p fuel stk c fr n s) as [[[o fr'] s']| | |] eqn:E; try reflexivity.
  exfalso. eapply H. reflexivity.
Qed.

(** * examples on [ex_prog] *)
Definition ex_cancel_hist : list cop :=
  [ CUser (OSession [(0%N, 1); (1%N, 5); (2%N, 9)] false); CUser (OQuery (ex_N 2));
    CUser (OSession [(1%N, 6)] false);
    (* a request for N1 on behalf of the repair walk of N2 (pedantic), cancelled after N1 completed *)
    CPartial [ex_N 2] (CCRepair (ex_N 2) true) (Some []) (ex_N 1);
    CUser (OQuery (ex_N 2)) ].

Example ex_cancel_stack_ok : cstack_okb 10 ex_prog [ex_N 2] (ex_N 1) = true.
Proof. vm_compute. reflexivity. Qed.

Example ex_cancel_run :
  map (fun x => match x with Some r => Some (r_out r, map nidx (r_execs r)) | None => None end)
      (crun_cancel_f fuel0 ex_prog cinit ex_cancel_hist) =
  [ Some (RSession [SFresh; SFresh; SFresh], []); Some (RValue 6, [2; 1; 0]%N);
    Some (RSession [SUpdated], []); None; Some (RValue 9, [2]%N) ]
  /\ map (map nidx) (cexecs_cancel_f fuel0 ex_prog cinit ex_cancel_hist) =
     [ []; [2; 1; 0]%N; []; [0; 1]%N; [2]%N ].
Proof. vm_compute. split; reflexivity. Qed.

(** out of fuel (fuel 3 is not enough to repair N1) and a panic (I7 was never set): the
    state is the one before the partial request *)
Example ex_cancel_unchanged :
  let s := cstate_cancel_f fuel0 ex_prog cinit (firstn 3 ex_cancel_hist) in
  cquery ex_prog 3 [ex_N 2] (CCRepair (ex_N 2) true) (Some []) (ex_N 1) s = OutOfFuel /\
  cpartial_f 3 ex_prog s [ex_N 2] (CCRepair (ex_N 2) true) (Some []) (ex_N 1) = s /\
  cquery ex_prog fuel0 [] (CCRead (ex_N 2) false []) (Some []) (ex_I 7) s = Panic 4 /\
  cpartial_f fuel0 ex_prog s [] (CCRead (ex_N 2) false []) (Some []) (ex_I 7) = s.
Proof. vm_compute. repeat split; reflexivity. Qed.

(** the stack condition is needed: a stack that contains a descendant of the requested node
    (impossible in a real run: N0 cannot be waiting for N2) makes the partial request see a
    cycle and publish the cycle default value, and the next user answer is wrong *)
Definition ex_cancel_bad_hist : list cop :=
  [ CUser (OSession [(0%N, 1); (1%N, 5); (2%N, 9)] false);
    CPartial [ex_N 0] CCUser None (ex_N 2);
    CUser (OQuery (ex_N 2)) ].
Example ex_cancel_bad_stack :
  cstack_okb 10 ex_prog [ex_N 0] (ex_N 2) = false /\
  map (fun x => match x with Some r => Some (r_out r) | None => None end)
      (crun_cancel_f fuel0 ex_prog cinit ex_cancel_bad_hist) =
  [ Some (RSession [SFresh; SFresh; SFresh]); None; Some (RValue (-3)) ] /\
  Spec ex_prog (cinputs_after ex_cancel_bad_hist) (ex_N 2) 6.
Proof. split; [vm_compute; reflexivity|]. split; [vm_compute; reflexivity|]. exists 10%nat. vm_compute. reflexivity. Qed.
