(** No panic on the full engine model: on a well-formed program (external inputs and unordered
    groups included) whose readable inputs have all been set, a request either answers or runs
    out of fuel; it never panics and never waits for itself.  Uses a purely structural invariant
    (it does not depend on the dirty marks, hence holds even after a session whose propagation
    ran out of fuel). *)
From QV Require Import Common.Prelude Engine.Model Engine.Core Engine.CoreSpec Engine.CoreInvBase
  Engine.Fw Engine.FwBase Engine.FwMono Engine.FwOnce Engine.FwInv Engine.FwInvClean Engine.FwRunBase Engine.FwRun
  Engine.CoreInvCommit Engine.MdlSpec Engine.MdlBase Engine.MdlMono Engine.MdlInv Engine.MdlInvExec Engine.MdlInvClean Engine.MdlRunBase Engine.MdlRun Engine.MdlRunAux Engine.MdlCommit.
Open Scope Z_scope.

(** a result that is not a panic and not a deadlock *)
(** [G]: the assumptions under which a panic is excluded (the readable inputs are set, the
    requested node is declared); without them the same statements still say what a COMPLETED
    request leaves *)
Definition okres {A} (G : Prop) (r : res A) (P : A -> Prop) : Prop :=
  match r with Ok a => P a | OutOfFuel => True | _ => ~ G end.
Lemma okres_bind : forall {A B} G (r : res A) (k : A -> res B) (P : A -> Prop) (Q : B -> Prop),
  okres G r P -> (forall a, P a -> okres G (k a) Q) ->
  okres G (match r with Ok x => k x | OutOfFuel => OutOfFuel | Panic c => Panic c | Stuck => Stuck end) Q.
Proof. intros A B G r k P Q H Hk. destruct r; cbn in *; auto. Qed.
Lemma okres_weaken : forall {A} G (r : res A) (P Q : A -> Prop), okres G r P -> (forall a, P a -> Q a) -> okres G r Q.
Proof. intros A G r P Q H HPQ. destruct r; cbn in *; auto. Qed.

Definition stored (s : state) (n : node) : Prop := get_info s n <> None.
Definition Mon (s s' : state) : Prop := forall m, stored s m -> stored s' m.
Lemma Mon_refl : forall s, Mon s s.
Proof. intros s m H. exact H. Qed.
Lemma Mon_trans : forall a b c, Mon a b -> Mon b c -> Mon a c.
Proof. intros a b c H1 H2 m H. apply H2. apply H1. exact H. Qed.

Section Progress.
Variable p : program.
Variables tord bord pord : state -> node -> list node -> list node.
Variable rk : node -> nat.
Hypothesis Hrk : forall n e d, alookup p n = Some e -> In d (expr_reads e) -> (rk d < rk n)%nat.
Hypothesis Hproj : forall n e d, alookup p n = Some e -> nkind n = KProjection -> In d (expr_reads e) ->
  is_fw_or_proj (nkind d) = true.
Hypothesis Hkeys : forall n e, alookup p n = Some e -> is_mexec_kind (nkind n) = true.
Hypothesis Htargets : forall n e d, alookup p n = Some e -> In d (expr_reads e) ->
  is_mtarget_kind (nkind d) = true \/ (is_mexec_kind (nkind d) = true /\ alookup p d <> None).
Hypothesis Htord : forall s x l y, In y (tord s x l) <-> In y l.
Hypothesis Hbord : forall s x l y, In y (bord s x l) <-> In y l.

Notation mquery := (query_for_o p None tord bord pord).
Notation mexecute := (execute_o p None tord bord pord).
Notation meval := (eval_o p None tord bord pord).
Notation mrepair := (repair_o p None tord bord pord).
Notation mbackward := (backward_o p None tord bord pord).

Record SInvM (inp : inputs) (s : state) : Prop := {
  sk_kind : forall n i, get_info s n = Some i ->
     (leaf n /\ i_fwd i = []) \/
     (is_mexec_kind (nkind n) = true /\ exists e, alookup p n = Some e /\
        forall d, In d (all_callees (i_fwd i)) -> In d (expr_reads e));
  sk_target : forall n i d, get_info s n = Some i -> In d (all_callees (i_fwd i)) -> stored s d;
  sk_tfc : forall n i F, get_info s n = Some i -> In F (i_tfc i) -> stored s F;
  sk_bwd : forall c d, In c (callers_of s d) -> stored s c;
  sk_inputs : forall k, input_get inp k <> None -> stored s (mkNode KInput k);
  sk_ext : forall e, In e (s_ext s) -> nkind e = KExternal;
}.

Lemma SInvM_init : SInvM [] init_state.
Proof.
  split; try (intros; discriminate).
  - intros c d H. destruct H.
  - intros k H. exfalso. apply H. reflexivity.
  - intros e [].
Qed.

Lemma SInvM_same : forall inp s s', s_nodes s' = s_nodes s -> s_bwd s' = s_bwd s -> s_ext s' = s_ext s -> SInvM inp s -> SInvM inp s'.
Proof.
  intros inp s s' Hn Hb Hx [A B C D E X].
  assert (G : forall m, get_info s' m = get_info s m) by (intro; unfold get_info; rewrite Hn; reflexivity).
  assert (Gs : forall m, stored s' m <-> stored s m) by (intro m; unfold stored; rewrite G; reflexivity).
  split.
  - intros n i. rewrite G. apply A.
  - intros n i d. rewrite G, Gs. apply B.
  - intros n i F. rewrite G, Gs. apply C.
  - intros c d. unfold callers_of. rewrite Hb, Gs. apply D.
  - intros k Hk. apply Gs. apply E. exact Hk.
  - intros e. rewrite Hx. apply X.
Qed.

(** what is stored for an executed node *)
Definition NewS (s : state) (n : node) (fr : frame) : Prop :=
  (nkind n = KExternal /\ fr_order fr = []) \/
  (is_mexec_kind (nkind n) = true /\ exists e, alookup p n = Some e /\
     forall d, In d (all_callees (fr_order fr)) -> In d (expr_reads e) /\ stored s d).

Lemma SInvM_set_computed : forall inp s n v fr bp rc,
  SInvM inp s -> NewS s n fr -> (forall F, In F (fr_tfc fr) -> stored s F) ->
  SInvM inp (set_computed s n v fr bp rc) /\ Mon s (set_computed s n v fr bp rc) /\ stored (set_computed s n v fr bp rc) n.
Proof.
  intros inp s n v fr bp rc [A B C D E X] Hn Ht.
  set (s' := set_computed s n v fr bp rc).
  assert (Hst : Mon s s').
  { intros m Hm. unfold stored, s'. rewrite set_computed_get. destruct (node_eqb n m); [discriminate|exact Hm]. }
  assert (Hsn : stored s' n).
  { unfold stored, s'. rewrite set_computed_get, node_eqb_refl. discriminate. }
  split; [|split; [exact Hst|exact Hsn]]. split.
  - intros m i Hi. unfold s' in Hi. rewrite set_computed_get in Hi. destruct (node_eqb_spec n m) as [<-|Hne]; [|eauto].
    inversion Hi. subst i. unfold sc_info. cbn [i_fwd]. destruct Hn as [[K Ko]|(K & e & He & Hd)].
    + left. split; [right; exact K|exact Ko].
    + right. split; [exact K|]. exists e. split; [exact He|]. intros d Hdd. apply (Hd d Hdd).
  - intros m i d Hi Hd. unfold s' in Hi. rewrite set_computed_get in Hi. destruct (node_eqb_spec n m) as [<-|Hne].
    + inversion Hi. subst i. unfold sc_info in Hd. cbn [i_fwd] in Hd. apply Hst.
      destruct Hn as [[_ Ko]|(_ & e & _ & Hdd)]; [rewrite Ko in Hd; destruct Hd|apply (Hdd d Hd)].
    + apply Hst. eapply B; eauto.
  - intros m i F Hi HF. unfold s' in Hi. rewrite set_computed_get in Hi. destruct (node_eqb_spec n m) as [<-|Hne].
    + inversion Hi. subst i. unfold sc_info in HF. cbn [i_tfc] in HF. apply Hst. apply Ht. exact HF.
    + apply Hst. eapply C; eauto.
  - intros c d Hc. unfold s' in Hc. apply set_computed_callers in Hc. destruct Hc as [[Hc _]|[-> _]]; [apply Hst; eapply D; eauto|exact Hsn].
  - intros k Hk. apply Hst. apply E. exact Hk.
  - intros e He. unfold s' in He. apply set_computed_ext_In in He. destruct He as [He|[-> K]]; [apply X; exact He|exact K].
Qed.

Lemma SInvM_clean : forall inp s n i cl nt,
  SInvM inp s -> get_info s n = Some i -> (forall t, nt = Some t -> t = new_tfc_of s i) ->
  SInvM inp (clean_query s n cl nt) /\ Mon s (clean_query s n cl nt).
Proof.
  intros inp s n i cl nt [A B C D E X] Hi Hnt.
  set (s' := clean_query s n cl nt).
  assert (Hget : forall m, get_info s' m = if node_eqb n m then Some (cq_info s i nt) else get_info s m)
    by (intro m; apply clean_query_get; exact Hi).
  assert (Hst : Mon s s').
  { intros m Hm. unfold stored. rewrite Hget. destruct (node_eqb n m); [discriminate|exact Hm]. }
  split; [|exact Hst]. split.
  - intros m j Hj. rewrite Hget in Hj. destruct (node_eqb_spec n m) as [<-|Hne]; [|eauto].
    inversion Hj. subst j. unfold cq_info. cbn [i_fwd]. eauto.
  - intros m j d Hj Hd. apply Hst. rewrite Hget in Hj. destruct (node_eqb_spec n m) as [<-|Hne]; [|eauto].
    inversion Hj. subst j. unfold cq_info in Hd. cbn [i_fwd] in Hd. eauto.
  - intros m j F Hj HF. apply Hst. rewrite Hget in Hj. destruct (node_eqb_spec n m) as [<-|Hne]; [|eauto].
    inversion Hj. subst j. unfold cq_info in HF. cbn [i_tfc] in HF. destruct nt as [t|]; [|eauto].
    rewrite (Hnt t eq_refl) in HF. apply new_tfc_In in HF. destruct HF as [x [xi (X1 & X2 & X3)]].
    unfold tfc_contribution in X3. destruct (nkind x); try destruct X3 as [<-|[]]; try destruct X3; eauto.
  - intros c d Hc. unfold s' in Hc. rewrite clean_query_callers in Hc. apply Hst. eauto.
  - intros k Hk. apply Hst. eauto.
  - intros e He. unfold s' in He. rewrite clean_query_ext in He. apply X. exact He.
Qed.

Lemma SInvM_pending : forall inp s n i, SInvM inp s -> get_info s n = Some i ->
  SInvM inp (put_info s n (mkInfo (i_verified i) (i_value i) (i_tfc i) (i_fwd i) (i_obs i) None)) /\
  Mon s (put_info s n (mkInfo (i_verified i) (i_value i) (i_tfc i) (i_fwd i) (i_obs i) None)).
Proof.
  intros inp s n i [A B C D E X] Hi.
  set (s' := put_info s n _).
  assert (Hst : Mon s s').
  { intros m Hm. unfold stored, s'. rewrite get_put. destruct (node_eqb n m); [discriminate|exact Hm]. }
  split; [|exact Hst]. split.
  - intros m j Hj. unfold s' in Hj. rewrite get_put in Hj. destruct (node_eqb_spec n m) as [<-|Hne]; [|eauto].
    inversion Hj. cbn [i_fwd]. eauto.
  - intros m j d Hj Hd. apply Hst. unfold s' in Hj. rewrite get_put in Hj. destruct (node_eqb_spec n m) as [<-|Hne]; [|eauto].
    inversion Hj. subst j. cbn [i_fwd] in Hd. eauto.
  - intros m j F Hj HF. apply Hst. unfold s' in Hj. rewrite get_put in Hj. destruct (node_eqb_spec n m) as [<-|Hne]; [|eauto].
    inversion Hj. subst j. cbn [i_tfc] in HF. eauto.
  - intros c d Hc. apply Hst. eauto.
  - intros k Hk. apply Hst. eauto.
  - exact X.
Qed.

Lemma SInvM_set_input : forall inp s n x, SInvM inp s -> leaf n ->
  SInvM (match nkind n with KInput => input_set inp (nidx n) x | _ => inp end) (set_computed_input s n x) /\
  Mon s (set_computed_input s n x).
Proof.
  intros inp s n x [A B C D E X] Hn.
  set (s' := set_computed_input s n x).
  assert (Hst : Mon s s').
  { intros m Hm. unfold stored, s'. rewrite set_input_get. destruct (node_eqb n m); [discriminate|exact Hm]. }
  split; [|exact Hst]. split.
  - intros m i Hi. unfold s' in Hi. rewrite set_input_get in Hi. destruct (node_eqb_spec n m) as [<-|Hne]; [|eauto].
    inversion Hi. left. split; [exact Hn|reflexivity].
  - intros m i d Hi Hd. apply Hst. unfold s' in Hi. rewrite set_input_get in Hi. destruct (node_eqb_spec n m) as [<-|Hne]; [|eauto].
    inversion Hi. subst i. destruct Hd.
  - intros m i F Hi HF. apply Hst. unfold s' in Hi. rewrite set_input_get in Hi. destruct (node_eqb_spec n m) as [<-|Hne]; [|eauto].
    inversion Hi. subst i. destruct HF.
  - intros c d Hc. unfold s' in Hc. apply set_input_callers in Hc. apply Hst. destruct Hc as [Hc _]. eauto.
  - intros k Hk. destruct (nkind n) eqn:Kn; try (apply Hst; eauto; fail).
    rewrite input_get_set in Hk. destruct (N.eqb_spec k (nidx n)) as [Ek|Ek]; [|apply Hst; eauto].
    subst k. rewrite <- (input_node_eta n Kn). unfold stored, s'. rewrite set_input_get, node_eqb_refl. discriminate.
  - intros e He. unfold s' in He. rewrite (proj2 (set_input_we s n x)) in He. apply X. exact He.
Qed.

(** * frames *)
Record FrS (s : state) (e : expr) (fr : frame) : Prop := {
  fs_unord : fr_unordered fr = true -> exists o g, fr_order fr = o ++ [DUnordered g];
  fs_order : all_callees (fr_order fr) = map fst (fr_callees fr);
  fs_keys : forall d, In d (map fst (fr_callees fr)) -> In d (expr_reads e) /\ stored s d;
  fs_tfc : forall F, In F (fr_tfc fr) -> stored s F;
}.
Lemma FrS_mon : forall s s' e fr, Mon s s' -> FrS s e fr -> FrS s' e fr.
Proof.
  intros s s' e fr HM [A B C D]. split; auto.
  - intros d Hd. destruct (C d Hd). auto.
Qed.
Lemma FrS_register : forall s e x n, FrS s e x -> In n (expr_reads e) -> stored s n -> FrS s e (fr_register x n).
Proof.
  intros s e x n [A B C D] Hn Hs. unfold fr_register. destruct (alookup (fr_callees x) n) eqn:El; [split; auto|].
  split; cbn [fr_unordered fr_order fr_callees fr_tfc].
  - intro Hu. destruct (A Hu) as [o [g Ho]]. rewrite Hu, Ho, push_unordered_last. eauto.
  - rewrite map_app. cbn [map fst]. destruct (fr_unordered x) eqn:Hu.
    + destruct (A eq_refl) as [o [g Ho]]. rewrite <- B, Ho, push_unordered_last, !all_callees_app.
      cbn [all_callees flat_map dep_nodes]. rewrite !app_nil_r, app_assoc. reflexivity.
    + rewrite all_callees_app, B. reflexivity.
  - intros d Hd. rewrite map_app in Hd. apply in_app_or in Hd. destruct Hd as [Hd|[<-|[]]]; auto.
  - exact D.
Qed.
Lemma FrS_observe : forall s e x n o add, FrS s e x -> alookup (fr_callees x) n <> None ->
  (forall F, In F add -> stored s F) -> FrS s e (fr_observe x n o add).
Proof.
  intros s e x n o add [A B C D] Hn Ha. unfold fr_observe. split; cbn [fr_unordered fr_order fr_callees fr_tfc]; auto.
  - rewrite aset_keys_present; assumption.
  - rewrite aset_keys_present; assumption.
  - intros F HF. apply nunion_In in HF. destruct HF; auto.
Qed.
Lemma FrS_mark : forall s e x, FrS s e x -> FrS s e (fr_mark_scc x).
Proof. intros s e x [A B C D]. split; auto. Qed.
Lemma FrS_set_true : forall s e x, FrS s e x -> FrS s e (fr_set_unordered x true).
Proof.
  intros s e x [A B C D]. split; auto.
  - intros _. cbn. eauto.
  - cbn. rewrite all_callees_app, B. cbn. apply app_nil_r.
Qed.
Lemma FrS_set_false : forall s e x, FrS s e x -> FrS s e (fr_set_unordered x false).
Proof. intros s e x [A B C D]. split; auto. cbn. discriminate. Qed.
Lemma FrS_clear : forall s e x, (forall F, In F (fr_tfc x) -> stored s F) -> FrS s e (fr_clear x).
Proof. intros s e x H. split; cbn; auto; try discriminate. intros d []. Qed.

Definition ofr (s : state) (e : expr) (fr : option frame) : Prop :=
  match fr with Some x => FrS s e x | None => True end.
Lemma ofr_mark_if : forall s e fr me marks, ofr s e fr -> ofr s e (frame_mark_if fr me marks).
Proof.
  intros s e [x|] [m|] marks H; cbn in *; auto. destruct (nmem m marks); cbn; [apply FrS_mark|]; exact H.
Qed.
Lemma ofr_mon : forall s s' e fr, Mon s s' -> ofr s e fr -> ofr s' e fr.
Proof. intros s s' e [x|] HM H; cbn in *; [eapply FrS_mon; eauto|exact I]. Qed.

(** * progress *)
Section Fixed.
Variable inp : inputs.
Variable G : Prop.
Hypothesis Hcov : G -> forall n e d, alookup p n = Some e -> In d (expr_reads e) -> nkind d = KInput ->
  input_get inp (nidx d) <> None.

Definition Askable (s : state) (n : node) : Prop :=
  stored s n \/ nkind n = KExternal \/ (is_mexec_kind (nkind n) = true /\ alookup p n <> None).
Lemma Askable_mon : forall s s' n, Mon s s' -> Askable s n -> Askable s' n.
Proof. intros s s' n HM [H|H]; [left; apply HM; exact H|right; exact H]. Qed.

(** what a caller may ask: an external input asks nothing, a projection only firewalls and
    projections *)
Definition CallerOk (c : caller) (n : node) : Prop :=
  match c with
  | CQuery b _ _ _ => nkind b <> KExternal /\ (nkind b = KProjection -> is_fw_or_proj (nkind n) = true)
  | _ => True
  end.

Lemma read_askable : forall s b e d, SInvM inp s -> alookup p b = Some e -> In d (expr_reads e) -> G -> Askable s d.
Proof.
  intros s b e d HS He Hd g. destruct (Htargets b e d He Hd) as [K|K]; [|right; right; exact K].
  destruct (nkind d) eqn:Kd; try discriminate.
  - left. rewrite (input_node_eta d Kd). apply (sk_inputs _ _ HS). eapply (Hcov g); eauto.
  - right. left. exact Kd.
Qed.
Lemma read_caller_ok : forall b e d rv pd prev, alookup p b = Some e -> In d (expr_reads e) -> CallerOk (CQuery b rv pd prev) d.
Proof.
  intros b e d rv pd prev He Hd. cbn. split.
  - pose proof (Hkeys b e He) as K. intro Kx. rewrite Kx in K. discriminate.
  - intro K. eapply Hproj; eauto.
Qed.

Definition QOk (e : expr) (fr : option frame) (n : node) (s : state) (r : qres) : Prop :=
  let '(o, fr', ms, s') := r in
  SInvM inp s' /\ Mon s s' /\ stored s' n /\ (ofr s e fr -> In n (expr_reads e) -> ofr s' e fr').

Definition prog_query (f : nat) : Prop :=
  forall stk c fr n s e, SInvM inp s -> (G -> Askable s n) -> StkOk rk stk n -> (is_cq c = false -> stk = []) ->
    CallerOk c n -> okres G (mquery f stk c fr n s) (QOk e fr n s).
Definition prog_execute (f : nat) : Prop :=
  forall stk c n rc fr0 s, SInvM inp s -> StkOk rk stk n -> (is_cq c = false -> stk = []) ->
    (G -> nkind n = KExternal \/ (is_mexec_kind (nkind n) = true /\ alookup p n <> None)) ->
    fr_callees fr0 = [] -> fr_order fr0 = [] -> fr_unordered fr0 = false -> (forall F, In F (fr_tfc fr0) -> stored s F) ->
    okres G (mexecute f stk c n rc fr0 s) (fun '(ms, s') => SInvM inp s' /\ Mon s s' /\ stored s' n).
Definition prog_eval (f : nat) : Prop :=
  forall stk b rv pd prev e0 e fr s, SInvM inp s -> alookup p b = Some e0 ->
    (forall d, In d (expr_reads e) -> In d (expr_reads e0)) -> StkOk rk stk b ->
    FrS s e0 fr ->
    okres G (meval f (b :: stk) (CQuery b rv pd prev) e fr s)
          (fun '(o, fr', ms, s') => SInvM inp s' /\ Mon s s' /\ FrS s' e0 fr').
Definition prog_repair (f : nat) : Prop :=
  forall stk c n s, SInvM inp s -> stored s n -> StkOk rk stk n -> (is_cq c = false -> stk = []) ->
    okres G (mrepair f stk c n s) (fun '(ms, s') => SInvM inp s' /\ Mon s s' /\ stored s' n).
Definition prog_backward (f : nat) : Prop :=
  forall n s, SInvM inp s -> stored s n ->
    okres G (mbackward f [] n s) (fun s' => SInvM inp s' /\ Mon s s' /\ stored s' n).

Lemma propagate_np : forall po f s w, okres G (propagate_o po f s w) (fun s' => s_nodes s' = s_nodes s /\ s_bwd s' = s_bwd s /\ s_ext s' = s_ext s).
Proof.
  intros po f s w. destruct (propagate_o po f s w) as [s'| | |] eqn:E; cbn; auto.
  - pose proof (propagate_o_we _ _ _ _ _ E). apply propagate_o_same in E. tauto.
  - exfalso. revert s w E. induction f as [|f IH]; intros s w E; [discriminate|]. cbn [propagate_o] in E.
    destruct w as [|x r]; [discriminate|]. destruct (nmem x (s_visited s)); [eapply IH; eauto|]. cbv zeta in E.
    destruct (mark_callers (set_visited s (x :: s_visited s)) x (po (set_visited s (x :: s_visited s)) x (callers_of (set_visited s (x :: s_visited s)) x)) r) as [s2 w']. eapply IH; eauto.
  - exfalso. revert s w E. induction f as [|f IH]; intros s w E; [discriminate|]. cbn [propagate_o] in E.
    destruct w as [|x r]; [discriminate|]. destruct (nmem x (s_visited s)); [eapply IH; eauto|]. cbv zeta in E.
    destruct (mark_callers (set_visited s (x :: s_visited s)) x (po (set_visited s (x :: s_visited s)) x (callers_of (set_visited s (x :: s_visited s)) x)) r) as [s2 w']. eapply IH; eauto.
Qed.
Lemma propagate_t_np : forall po f s w, okres G (propagate_t_o po f s w) (fun s' => s_nodes s' = s_nodes s /\ s_bwd s' = s_bwd s /\ s_ext s' = s_ext s).
Proof.
  intros po f s w. destruct (propagate_t_o po f s w) as [s'| | |] eqn:E; cbn; auto.
  - pose proof (propagate_t_o_we _ _ _ _ _ E). apply propagate_t_o_same in E. tauto.
  - exfalso. revert s w E. induction f as [|f IH]; intros s w E; [discriminate|]. cbn [propagate_t_o] in E.
    destruct w as [|x r]; [discriminate|]. destruct (nmem x (s_visited s)); [eapply IH; eauto|]. cbv zeta in E.
    destruct (mark_callers_t (set_visited s (x :: s_visited s)) x (po (set_visited s (x :: s_visited s)) x (callers_of (set_visited s (x :: s_visited s)) x)) r) as [s2 w']. eapply IH; eauto.
  - exfalso. revert s w E. induction f as [|f IH]; intros s w E; [discriminate|]. cbn [propagate_t_o] in E.
    destruct w as [|x r]; [discriminate|]. destruct (nmem x (s_visited s)); [eapply IH; eauto|]. cbv zeta in E.
    destruct (mark_callers_t (set_visited s (x :: s_visited s)) x (po (set_visited s (x :: s_visited s)) x (callers_of (set_visited s (x :: s_visited s)) x)) r) as [s2 w']. eapply IH; eauto.
Qed.

Lemma CallerOk_caller : forall c n s, CallerOk (fq_caller c n s) n <-> CallerOk c n.
Proof. intros c n s. destruct (fq_caller_shape c n s) as [->|[b [prev [-> ->]]]]; reflexivity. Qed.
Lemma mq_reg_np : forall c fr n, CallerOk c n -> mq_reg c fr n = Ok (fq_reg c fr n).
Proof.
  intros c fr n H. unfold mq_reg, fq_reg. destruct c as [|b rv pd prev| |]; try reflexivity.
  destruct fr as [fr0|]; [|reflexivity]. destruct H as [H1 H2].
  destruct (kind_eqb (nkind b) KExternal) eqn:E1; [apply kind_eqb_eq in E1; contradiction|].
  destruct (kind_eqb (nkind b) KProjection) eqn:E2; [|reflexivity].
  apply kind_eqb_eq in E2. rewrite (H2 E2). reflexivity.
Qed.

Lemma contrib_stored : forall s n i, SInvM inp s -> get_info s n = Some i ->
  forall F, In F (tfc_contribution n i) -> stored s F.
Proof.
  intros s n i HS Hi F HF. unfold tfc_contribution in HF.
  destruct (nkind n); try destruct HF as [<-|[]]; try destruct HF; try (unfold stored; congruence);
    eapply (sk_tfc _ _ HS); eauto.
Qed.

Lemma hit_frame : forall s c fr n v fr2 e, SInvM inp s ->
  fast_path s c (fq_reg c fr n) n = (FHit v, fr2) -> ofr s e fr -> In n (expr_reads e) -> ofr s e fr2.
Proof.
  intros s c fr n v fr2 e HS Hf Hfr Hn.
  destruct (fast_path_hit _ _ _ _ _ _ Hf) as [i (Hi & _ & _)].
  rewrite (fast_path_hit_frame _ _ _ _ _ _ _ Hf Hi).
  assert (Hsn : stored s n) by (unfold stored; congruence).
  destruct c as [|b rv pd prev| |]; cbn [fq_reg]; try exact Hfr.
  destruct fr as [x|]; [|destruct rv; exact I]. cbn [ofr] in Hfr.
  pose proof (FrS_register s e x n Hfr Hn Hsn) as Hr.
  destruct rv; cbn [ofr]; [|exact Hr].
  apply FrS_observe; [exact Hr| |eapply contrib_stored; eauto].
  unfold fr_register. destruct (alookup (fr_callees x) n) eqn:El; [congruence|].
  cbn [fr_callees]. rewrite alookup_app, El. cbn [alookup]. rewrite node_eqb_refl. discriminate.
Qed.
Lemma reg_frame : forall s c fr n e, ofr s e fr -> In n (expr_reads e) -> stored s n -> ofr s e (fq_reg c fr n).
Proof.
  intros s c fr n e Hfr Hn Hs. destruct c as [|b rv pd prev| |]; cbn [fq_reg]; try exact Hfr.
  destruct fr as [x|]; [|exact I]. cbn [ofr] in *. apply FrS_register; assumption.
Qed.

Lemma prog_tfc : forall f, prog_query f -> forall ts s, SInvM inp s -> (forall t, In t ts -> stored s t) ->
  okres G (mtfc p tord bord pord f [] ts s) (fun s' => SInvM inp s' /\ Mon s s').
Proof.
  intros f IHq. induction ts as [|t r IH]; intros s HS Ht; cbn [mtfc].
  - cbn. split; [exact HS|apply Mon_refl].
  - pose proof (IHq [] CRepairFirewall None t s (EConst 0) HS (fun _ => or_introl (Ht t (or_introl eq_refl))) (StkOk_nil rk t) (fun _ => eq_refl) I) as Q.
    destruct (mquery f [] CRepairFirewall None t s) as [[[[o fr'] m'] s1]| | |]; cbn in Q |- *; auto.
    destruct Q as (HS1 & M1 & _).
    eapply okres_weaken; [apply IH; [exact HS1|intros x Hx; apply M1; apply Ht; right; exact Hx]|].
    intros s' [A B]. split; [exact A|eapply Mon_trans; eauto].
Qed.
Lemma prog_bp : forall f, prog_query f -> forall ts s, SInvM inp s -> (forall t, In t ts -> stored s t) ->
  okres G (mbp p tord bord pord f [] ts s) (fun s' => SInvM inp s' /\ Mon s s').
Proof.
  intros f IHq. induction ts as [|t r IH]; intros s HS Ht; cbn [mbp].
  - cbn. split; [exact HS|apply Mon_refl].
  - pose proof (IHq [] CBPP None t s (EConst 0) HS (fun _ => or_introl (Ht t (or_introl eq_refl))) (StkOk_nil rk t) (fun _ => eq_refl) I) as Q.
    destruct (mquery f [] CBPP None t s) as [[[[o fr'] m'] s1]| | |]; cbn in Q |- *; auto.
    destruct Q as (HS1 & M1 & _).
    eapply okres_weaken; [apply IH; [exact HS1|intros x Hx; apply M1; apply Ht; right; exact Hx]|].
    intros s' [A B]. split; [exact A|eapply Mon_trans; eauto].
Qed.

Lemma prog_walk : forall f n stk pd i e, prog_query f -> alookup p n = Some e -> StkOk rk stk n ->
  forall cs rtfc cleaned fr ms s, SInvM inp s ->
    (forall x, In x cs -> In x (expr_reads e) /\ stored s x) -> FrS s e fr ->
    okres G (mwalk p tord bord pord f n stk pd i cs rtfc cleaned fr ms s)
          (fun '(d, fr', ms', s1) => SInvM inp s1 /\ Mon s s1 /\ FrS s1 e fr').
Proof.
  intros f n stk pd i e IHq He Hstk. induction cs as [|cal r IH]; intros rtfc cleaned fr ms s HS Hcs Hfr; cbn [mwalk].
  - cbn. split; [exact HS|]. split; [apply Mon_refl|exact Hfr].
  - cbv zeta. destruct (Hcs cal (or_introl eq_refl)) as [Hce Hcst].
    assert (Hcs' : forall x, In x r -> In x (expr_reads e) /\ stored s x) by (intros x Hx; apply Hcs; right; exact Hx).
    destruct (negb (emem (n, cal) (s_dirty s)) && negb pd && negb (kind_eqb (nkind n) KProjection)); [apply IH; assumption|].
    destruct (alookup (i_obs i) cal) as [[ov otfc]|] eqn:Eo.
    2:{ cbn. split; [exact HS|]. split; [apply Mon_refl|exact Hfr]. }
    assert (Hstep : forall s0 fr0, SInvM inp s0 -> Mon s s0 -> FrS s0 e fr0 -> forall m1 rt cl,
              okres G (match get_info s0 cal, Some (ov, otfc) with
                     | Some ci, Some (ov, otfc) =>
                         if negb (i_value ci =? ov) then Ok (DRecompute, fr0, ms ++ m1, s0)
                         else mwalk p tord bord pord f n stk pd i r (rt ci) cl fr0 (ms ++ m1) s0
                     | _, _ => Panic 2 end)
                    (fun '(d, fr', ms', s1) => SInvM inp s1 /\ Mon s s1 /\ FrS s1 e fr')).
    { intros s0 fr0 HS0 HM0 Hfr0 m1 rt cl. pose proof (HM0 cal Hcst) as Hc0. unfold stored in Hc0.
      destruct (get_info s0 cal) as [ci|]; [|congruence].
      destruct (negb (i_value ci =? ov)).
      - cbn. auto.
      - eapply okres_weaken; [apply IH; [exact HS0| |exact Hfr0]|].
        + intros x Hx. destruct (Hcs' x Hx). split; [assumption|apply HM0; assumption].
        + intros [[[d fr'] ms'] s1] (A & B & C). split; [exact A|]. split; [eapply Mon_trans; eauto|exact C]. }
    destruct (kind_eqb (nkind cal) KInput).
    + apply (Hstep s fr HS (Mon_refl s) Hfr [] (fun ci => rtfc || (negb (kind_eqb (nkind cal) KFirewall) && negb (nset_eqb (i_tfc ci) otfc)))).
    + match goal with |- context [query_for_o p None tord bord pord f ?a ?b ?c ?d0 ?e0] =>
        pose proof (IHq a b c d0 e0 e HS (fun _ => or_introl Hcst)
                      (StkOk_lower rk _ _ _ Hstk (Hrk _ _ _ He Hce)) (fun K => ltac:(discriminate K))
                      (read_caller_ok n e cal _ _ _ He Hce)) as Q;
        destruct (query_for_o p None tord bord pord f a b c d0 e0) as [[[[o fr1] m1] s']| | |] end; cbn in Q |- *; auto.
      destruct Q as (HS' & M' & _ & Hf').
      assert (Hfr' : FrS s' e (match fr1 with Some x => x | None => fr end)).
      { specialize (Hf' Hfr Hce). destruct fr1 as [x|]; [exact Hf'|eapply FrS_mon; eauto]. }
      apply (Hstep s' _ HS' M' Hfr' m1 (fun ci => rtfc || (negb (kind_eqb (nkind cal) KFirewall) && negb (nset_eqb (i_tfc ci) otfc)))).
Qed.

Lemma prog_all : forall f, prog_query f /\ prog_execute f /\ prog_eval f /\ prog_repair f /\ prog_backward f.
Proof.
  induction f as [|f (IHq & IHx & IHe & IHr & IHb)].
  - split; [|split; [|split; [|split]]]; red; intros; cbn; exact I.
  - assert (PQ : prog_query (S f)).
    { red. intros stk c fr n s e HS Hask Hstk Hroot Hcal. rewrite query_for_S. cbv zeta.
      rewrite (mq_reg_np (fq_caller c n s) fr n) by (apply CallerOk_caller; exact Hcal). rewrite fq_reg_caller.
      assert (Es : nmem n stk = false).
      { destruct (nmem n stk) eqn:E; [|reflexivity]. apply nmem_In in E. exfalso. eapply StkOk_notin; eauto. }
      rewrite Es. rewrite !fast_path_caller.
      set (c' := fq_caller c n s).
      assert (Hcal' : CallerOk c' n) by (apply CallerOk_caller; exact Hcal).
      assert (Hroot' : is_cq c' = false -> stk = []).
      { unfold c'. rewrite is_cq_caller. exact Hroot. }
      destruct (fast_path s c (fq_reg c fr n) n) as [[v|sp] fr2] eqn:Ef.
      { destruct (fast_path_hit _ _ _ _ _ _ Ef) as [i (Hi & _ & _)]. cbn.
        split; [exact HS|]. split; [apply Mon_refl|]. split; [unfold stored; congruence|].
        intros Hfr Hn. eapply hit_frame; eauto. }
      pose proof (fast_path_slow _ _ _ _ _ _ Ef) as Hsp.
      (* the TFC repair *)
      assert (T : okres G (mq_tfc p tord bord pord f stk c' sp n s) (fun s1 => SInvM inp s1 /\ Mon s s1)).
      { assert (Hdef : okres G (Ok s) (fun s1 => SInvM inp s1 /\ Mon s s1)) by (cbn; split; [exact HS|apply Mon_refl]).
        unfold mq_tfc. destruct c' as [|b rv pd prev| |] eqn:Ec'; try exact Hdef;
          (destruct sp; try exact Hdef; destruct (get_info s n) as [i|] eqn:Ei; try exact Hdef;
           rewrite (Hroot' eq_refl); apply (prog_tfc f IHq); [exact HS|intros t Ht; apply Htord in Ht; eapply (sk_tfc _ _ HS); eauto]). }
      eapply okres_bind; [exact T|]. intros s1 [HS1 M1]. cbv beta.
      assert (Hask1 : G -> Askable s1 n) by (intro g; eapply Askable_mon; eauto).
      (* process *)
      assert (P : okres G (mq_process p tord bord pord f stk c' sp n s1) (fun '(marks, s2) => SInvM inp s2 /\ Mon s1 s2 /\ stored s2 n)).
      { assert (Hgen : okres G (match get_info s1 n with
                              | Some i => if (i_verified i =? s_ts s1)%N then Ok ([], s1) else mrepair f stk c' n s1
                              | None => mexecute f stk c' n false empty_frame s1 end)
                             (fun '(marks, s2) => SInvM inp s2 /\ Mon s1 s2 /\ stored s2 n)).
        { destruct (get_info s1 n) as [i|] eqn:Ei.
          - destruct (i_verified i =? s_ts s1)%N.
            + cbn. split; [exact HS1|]. split; [apply Mon_refl|unfold stored; congruence].
            + apply IHr; auto. unfold stored. congruence.
          - apply IHx; auto; try reflexivity; [|intros F []].
            intro g. destruct (Hask1 g) as [K|K]; [unfold stored in K; congruence|exact K]. }
        destruct sp; [exact Hgen|exact Hgen|].
        unfold mq_process. destruct (get_info s1 n) as [i|] eqn:Ei.
        - match goal with |- context [if ?b then _ else _] => destruct b end.
          + assert (Est : stk = []).
            { destruct (fast_path_backward_pending _ _ _ _ _ Ef) as [_ Hfo]. apply Hroot'. unfold c'. rewrite is_cq_caller.
              destruct c; try discriminate; reflexivity. }
            rewrite Est. eapply okres_bind; [apply IHb; [exact HS1|unfold stored; congruence]|].
            intros s2 (A & B & C). cbn. auto.
          + cbn. split; [exact HS1|]. split; [apply Mon_refl|unfold stored; congruence].
        - cbn. exfalso. destruct Hsp as [j [J _]]. assert (Hj : stored s n) by (unfold stored; congruence).
          apply M1 in Hj. unfold stored in Hj. congruence. }
      eapply okres_bind; [exact P|]. intros [marks s2] (HS2 & M2 & Hst2). cbv beta.
      assert (M12 : Mon s s2) by (eapply Mon_trans; eauto).
      assert (Efp : fast_path s2 c' (fq_reg c fr n) n = fast_path s2 c (fq_reg c fr n) n) by apply fast_path_caller.
      rewrite Efp. clear Efp.
      destruct (fast_path s2 c (fq_reg c fr n) n) as [[v|sp'] fr2'] eqn:Ef2.
      - cbn. split; [exact HS2|]. split; [exact M12|]. split; [exact Hst2|].
        intros Hfr Hn. apply ofr_mark_if. eapply hit_frame; eauto. eapply ofr_mon; eauto.
      - pose proof (IHq stk c' (fq_reg c fr n) n s2 e HS2 (fun _ => or_introl Hst2) Hstk Hroot' Hcal') as Q.
        destruct (mquery f stk c' (fq_reg c fr n) n s2) as [[[[o3 fr3] m3] s3]| | |]; cbn in Q |- *; auto.
        destruct Q as (HS3 & M3 & Hst3 & Hf3).
        split; [exact HS3|]. split; [eapply Mon_trans; eauto|]. split; [exact Hst3|].
        intros Hfr Hn. apply ofr_mark_if. apply Hf3; [|exact Hn].
        apply reg_frame; [eapply ofr_mon; eauto|exact Hn|exact Hst2]. }
    assert (PX : prog_execute (S f)).
    { red. intros stk c n rc fr0 s HS Hstk Hroot Hk F1 F2 F5 F3. rewrite execute_S. cbv zeta.
      set (s0 := set_log s (n :: s_log s)).
      assert (HS0 : SInvM inp s0) by (eapply SInvM_same; [| | |exact HS]; reflexivity).
      assert (E : okres G (match nkind n with
                         | KExternal => Ok (EVal (world_get s0 (nidx n)), fr0, [], s0)
                         | KInput => Panic 4
                         | _ => match body p n with
                                | None => Panic 4
                                | Some e => meval f (n :: stk) (CQuery n true (x_pedantic c) (fx_prev s n)) e fr0 s0
                                end
                         end)
                        (fun '(out, fr1, marks, s1) => SInvM inp s1 /\ Mon s s1 /\ NewS s1 n fr1 /\
                                                       (forall F, In F (fr_tfc fr1) -> stored s1 F))).
      { destruct (nkind n) eqn:Kn.
        1: { cbn. intro g. destruct (Hk g) as [Kx|[Kk _]]; discriminate. }
        4: { cbn. split; [exact HS0|]. split; [intros m Hm; exact Hm|]. split; [left; auto|exact F3]. }
        all: unfold body; destruct (alookup p n) as [e|] eqn:He;
          [|cbn; intro g; destruct (Hk g) as [Kx|[_ Kb]]; [discriminate|congruence]].
        all: assert (Hfr : FrS s0 e fr0) by
            (split; [intro K; rewrite F5 in K; discriminate|rewrite F1, F2; reflexivity
                    |intros d Hd; rewrite F1 in Hd; destruct Hd|exact F3]).
        all: pose proof (IHe stk n true (x_pedantic c) (fx_prev s n) e e fr0 s0 HS0 He (fun d Hd => Hd) Hstk Hfr) as Q.
        all: destruct (meval f (n :: stk) (CQuery n true (x_pedantic c) (fx_prev s n)) e fr0 s0) as [[[[out fr1] marks] s1]| | |];
             cbn in Q |- *; auto; destruct Q as (A & B & C); split; [exact A|]; split; [exact B|]; split;
             [right; split; [rewrite Kn; reflexivity|]; exists e; split; [exact He|]; intros d Hd; rewrite (fs_order _ _ _ C) in Hd; apply (fs_keys _ _ _ C); exact Hd
             |apply (fs_tfc _ _ _ C)]. }
      eapply okres_bind; [exact E|]. intros [[[out fr1] marks] s1] (HS1 & M1 & Hn1 & Ht1). cbv beta.
      set (fr2 := if nmem n marks then fr_mark_scc fr1 else fr1).
      assert (Hn2 : NewS s1 n fr2 /\ (forall F, In F (fr_tfc fr2) -> stored s1 F)) by (unfold fr2; destruct (nmem n marks); auto).
      match goal with |- okres G (match (if ?b then ?P1 else ?P2) with _ => _ end) _ =>
        assert (Pp : okres G (if b then P1 else P2) (fun s2 => s_nodes s2 = s_nodes s1 /\ s_bwd s2 = s_bwd s1 /\ s_ext s2 = s_ext s1)) end.
      { repeat match goal with |- okres G (if ?b then _ else _) _ => destruct b end;
          try apply propagate_np; try apply propagate_t_np. cbn. auto. }
      eapply okres_bind; [exact Pp|]. intros s2 (N1 & N2 & N3). cbv beta. cbn [okres].
      assert (HS2 : SInvM inp s2) by (eapply SInvM_same; eauto).
      assert (Hg : forall m, stored s2 m <-> stored s1 m) by (intro m; unfold stored, get_info; rewrite N1; reflexivity).
      destruct Hn2 as [Hn2 Ht2].
      assert (Hn2' : NewS s2 n fr2).
      { destruct Hn2 as [K|(K & e & He & Hd)]; [left; exact K|right]. split; [exact K|]. exists e. split; [exact He|].
        intros d Hdd. destruct (Hd d Hdd). split; [assumption|apply Hg; assumption]. }
      match goal with |- context [set_computed s2 n ?v fr2 ?bp rc] =>
        destruct (SInvM_set_computed inp s2 n v fr2 bp rc HS2 Hn2' (fun F HF => proj2 (Hg F) (Ht2 F HF))) as (A & B & C) end.
      split; [exact A|]. split; [|exact C].
      intros m Hm. apply B. apply Hg. apply M1. exact Hm. }
    assert (PE : prog_eval (S f)).
    { assert (Hread : forall stk b rv pd prev e0 d fr s, SInvM inp s -> alookup p b = Some e0 -> In d (expr_reads e0) ->
                StkOk rk stk b -> FrS s e0 fr ->
                okres G (mread p tord bord pord f (b :: stk) (CQuery b rv pd prev) d fr s)
                      (fun '(o, fr', ms, s') => SInvM inp s' /\ Mon s s' /\ FrS s' e0 fr')).
      { intros stk b rv pd prev e0 d fr s HS He Hd Hstk Hfr. unfold mread.
        pose proof (IHq (b :: stk) (CQuery b rv pd prev) (Some fr) d s e0 HS (read_askable s b e0 d HS He Hd)
                      (StkOk_lower rk _ _ _ Hstk (Hrk _ _ _ He Hd)) (fun K => ltac:(discriminate K))
                      (read_caller_ok b e0 d rv pd prev He Hd)) as Q.
        destruct (mquery f (b :: stk) (CQuery b rv pd prev) (Some fr) d s) as [[[[o fr1] m1] s1]| | |]; cbn in Q |- *; auto.
        destruct Q as (A & B & _ & C). specialize (C Hfr Hd).
        assert (Hfr1 : FrS s1 e0 (match fr1 with Some x => x | None => fr end)).
        { destruct fr1 as [x|]; [exact C|eapply FrS_mon; eauto]. }
        destruct o as [[z|]|]; cbn; auto. }
      assert (Hbin : forall stk b rv pd prev e0 a c0 op fr s, SInvM inp s -> alookup p b = Some e0 ->
                (forall d, In d (expr_reads a ++ expr_reads c0) -> In d (expr_reads e0)) -> StkOk rk stk b -> FrS s e0 fr ->
                okres G (mbin p tord bord pord f (b :: stk) (CQuery b rv pd prev) a c0 op fr s)
                      (fun '(o, fr', ms, s') => SInvM inp s' /\ Mon s s' /\ FrS s' e0 fr')).
      { intros stk b rv pd prev e0 a c0 op fr s HS He Hsub Hstk Hfr. unfold mbin.
        eapply okres_bind; [apply (IHe stk b rv pd prev e0 a fr s HS He (fun d Hd => Hsub d (in_or_app _ _ _ (or_introl Hd))) Hstk Hfr)|].
        intros [[[x fr1] m1] s1] (A & B & C). destruct x; [|cbn; auto].
        eapply okres_bind; [apply (IHe stk b rv pd prev e0 c0 fr1 s1 A He (fun d Hd => Hsub d (in_or_app _ _ _ (or_intror Hd))) Hstk C)|].
        intros [[[y fr2] m2] s2] (A2 & B2 & C2). destruct y; cbn; (split; [exact A2|]; split; [eapply Mon_trans; eauto|exact C2]). }
      assert (Hgrp : forall stk b rv pd prev e0 ns acc fr ms s, SInvM inp s -> alookup p b = Some e0 ->
                (forall d, In d ns -> In d (expr_reads e0)) -> StkOk rk stk b -> FrS s e0 fr ->
                okres G (mgroup p tord bord pord f (b :: stk) (CQuery b rv pd prev) ns acc fr ms s)
                      (fun '(o, fr', ms', s') => SInvM inp s' /\ Mon s s' /\ FrS s' e0 fr')).
      { intros stk b rv pd prev e0. induction ns as [|d r IHn]; intros acc fr ms s HS He Hsub Hstk Hfr; cbn [mgroup].
        - cbn. split; [exact HS|]. split; [apply Mon_refl|exact Hfr].
        - eapply okres_bind; [apply (Hread stk b rv pd prev e0 d fr s HS He (Hsub d (or_introl eq_refl)) Hstk Hfr)|].
          intros [[[x fr1] m1] s1] (A & B & C). destruct x; [|cbn; auto].
          eapply okres_weaken; [apply IHn; [exact A|exact He|intros y Hy; apply Hsub; right; exact Hy|exact Hstk|exact C]|].
          intros [[[o fr'] ms'] s'] (A2 & B2 & C2). split; [exact A2|]. split; [eapply Mon_trans; eauto|exact C2]. }
      red. intros stk b rv pd prev e0 e fr s HS He Hsub Hstk Hfr. rewrite eval_S. destruct e; cbn [expr_reads] in Hsub.
      - cbn. split; [exact HS|]. split; [apply Mon_refl|exact Hfr].
      - apply Hread; auto. apply Hsub. left. reflexivity.
      - apply Hbin; auto.
      - apply Hbin; auto.
      - eapply okres_bind; [apply (IHe stk b rv pd prev e0 e fr s HS He Hsub Hstk Hfr)|].
        intros [[[x fr1] m1] s1] (A & B & C). destruct x; cbn; auto.
      - apply Hbin; auto.
      - eapply okres_bind; [apply (IHe stk b rv pd prev e0 e1 fr s HS He (fun d Hd => Hsub d (in_or_app _ _ _ (or_introl Hd))) Hstk Hfr)|].
        intros [[[x fr1] m1] s1] (A & B & C). destruct x; [|cbn; auto].
        eapply okres_bind; [apply (IHe stk b rv pd prev e0 (if z =? 0 then e3 else e2) fr1 s1 A He)|]; auto.
        + intros d Hd. apply Hsub. apply in_or_app. right. apply in_or_app. destruct (z =? 0); auto.
        + intros [[[y fr2] m2] s2] (A2 & B2 & C2). cbn. split; [exact A2|]. split; [eapply Mon_trans; eauto|exact C2].
      - eapply okres_bind; [apply (Hgrp stk b rv pd prev e0 ns 0 (fr_set_unordered fr true) [] s HS He Hsub Hstk (FrS_set_true _ _ _ Hfr))|].
        intros [[[x fr1] m1] s1] (A & B & C). cbn. split; [exact A|]. split; [exact B|apply FrS_set_false; exact C]. }
    assert (PR : prog_repair (S f)).
    { red. intros stk c n s HS Hst Hstk Hroot. rewrite repair_S. unfold stored in Hst.
      destruct (get_info s n) as [i|] eqn:Ei; [|congruence]. cbv zeta.
      assert (Hfin : forall d fr1 (marks : list node) s1, SInvM inp s1 -> Mon s s1 -> get_info s1 n = Some i ->
                (forall F, In F (fr_tfc fr1) -> stored s1 F) ->
                (d = DRecompute -> G -> nkind n = KExternal \/ (is_mexec_kind (nkind n) = true /\ alookup p n <> None)) ->
                okres G (match d with
                       | DRecompute => let* (m2, s2) := mexecute f stk c n true (fr_clear (if nmem n marks then fr_mark_scc fr1 else fr1)) s1 in Ok (marks ++ m2, s2)
                       | DClean false cleaned => Ok (marks, clean_query s1 n cleaned None)
                       | DClean true cleaned => Ok (marks, clean_query s1 n cleaned (Some (new_tfc_of s1 i)))
                       end) (fun '(ms, s') => SInvM inp s' /\ Mon s s' /\ stored s' n)).
      { intros d fr1 marks s1 HS1 M1 Ei1 Ht1 Hd.
        assert (Hsn1 : stored s1 n) by (unfold stored; congruence).
        destruct d as [|rt cl].
        - eapply okres_bind; [apply (IHx stk c n true _ s1 HS1 Hstk Hroot (Hd eq_refl)); try reflexivity|].
          + intros F HF. apply Ht1. destruct (nmem n marks); exact HF.
          + intros [m2 s2] (A & B & C). cbn. split; [exact A|]. split; [eapply Mon_trans; eauto|exact C].
        - destruct rt; cbn.
          + destruct (SInvM_clean inp s1 n i cl (Some (new_tfc_of s1 i)) HS1 Ei1) as [A B]; [intros t Et; inversion Et; reflexivity|].
            split; [exact A|]. split; [eapply Mon_trans; eauto|apply B; exact Hsn1].
          + destruct (SInvM_clean inp s1 n i cl None HS1 Ei1) as [A B]; [intros t Et; discriminate|].
            split; [exact A|]. split; [eapply Mon_trans; eauto|apply B; exact Hsn1]. }
      destruct (sk_kind _ _ HS n i Ei) as [[Kl Kf]|(Kk & e & He & Hfw)].
      - rewrite Kf. cbn [all_callees flat_map mwalk]. cbn [nmem existsb].
        apply (Hfin (DClean false []) empty_frame [] s HS (Mon_refl s) Ei); [intros F []|discriminate].
      - assert (Hcs : forall x, In x (all_callees (i_fwd i)) -> In x (expr_reads e) /\ stored s x).
        { intros x Hx. split; [apply Hfw; exact Hx|eapply (sk_target _ _ HS); eauto]. }
        assert (Hfe : FrS s e empty_frame) by (split; cbn; auto; try discriminate; intros d []).
        pose proof (prog_walk f n stk (x_pedantic c) i e IHq He Hstk (all_callees (i_fwd i)) false [] empty_frame [] s HS Hcs Hfe) as W.
        destruct (mwalk p tord bord pord f n stk (x_pedantic c) i (all_callees (i_fwd i)) false [] empty_frame [] s)
          as [[[[d fr1] marks] s1]| | |] eqn:Ew; cbn in W |- *; auto.
        destruct W as (HS1 & M1 & Hf1).
        pose proof (mmono_walk p tord bord pord f n stk _ i (proj1 (mmono_all p tord bord pord f)) _ _ _ _ _ _ _ _ _ _ Ew) as MW.
        assert (Ei1 : get_info s1 n = Some i) by (rewrite (mr_stk _ _ _ MW n (or_introl eq_refl)); exact Ei).
        apply (Hfin d fr1 marks s1 HS1 M1 Ei1 (fs_tfc _ _ _ Hf1)).
        intros _ _. right. split; [exact Kk|congruence]. }
    assert (PB : prog_backward (S f)).
    { red. intros n s HS Hst. rewrite backward_S. cbv zeta.
      eapply okres_bind; [apply (prog_bp f IHq (bord s n (proj_callers s n)) s HS)|].
      - intros t Ht. apply Hbord in Ht. unfold proj_callers in Ht. apply filter_In in Ht. eapply (sk_bwd _ _ HS). apply Ht.
      - intros s1 [HS1 M1]. cbn. unfold clear_pending. pose proof (M1 n Hst) as Hn1. unfold stored in Hn1.
        destruct (get_info s1 n) as [i|] eqn:Ei; [|congruence].
        destruct (SInvM_pending inp s1 n i HS1 Ei) as [A B].
        split; [exact A|]. split; [eapply Mon_trans; eauto|apply B; unfold stored; congruence]. }
    auto.
Qed.
End Fixed.
End Progress.
