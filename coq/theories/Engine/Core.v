(** The engine model of [Engine/Model.v] specialised to programs whose executable queries
    are all of the Normal style (inputs + normal queries, data-dependent and conditional
    dependencies, unchanged writes, early cut-off, the pedantic repair of new
    dependencies).  Firewalls, projections, external inputs, unordered groups and the
    transitive-firewall bookkeeping are absent, which makes the state small enough for the
    full soundness proof ([Engine/CoreSound.v]).  This model is tied to the code by its own
    correspondence run (histories generated in `basic` mode), exactly like the full one. *)
From QV Require Import Common.Prelude Engine.Model.
Open Scope Z_scope.

Record cinfo := mkCInfo {
  c_verified : N;
  c_value : Z;
  c_fwd : list node;              (* dependencies in the order they were first requested *)
  c_obs : list (node * Z);        (* value seen for each dependency that returned *)
}.
Record cstate := mkCState {
  cs_nodes : list (node * cinfo);
  cs_bwd : list (node * list node);
  cs_dirty : list (node * node);
  cs_ts : N;
  cs_visited : list node;
  cs_stat : N;
  cs_log : list node;
}.
Definition cinit : cstate := mkCState [] [] [] 0 [] 0 [].

Definition cget (s : cstate) (n : node) : option cinfo := alookup (cs_nodes s) n.
Definition cput (s : cstate) (n : node) (i : cinfo) : cstate :=
  mkCState (aset (cs_nodes s) n i) (cs_bwd s) (cs_dirty s) (cs_ts s) (cs_visited s) (cs_stat s) (cs_log s).
Definition ccallers (s : cstate) (n : node) : list node :=
  match alookup (cs_bwd s) n with Some l => l | None => [] end.
Definition cset_bwd (s : cstate) x := mkCState (cs_nodes s) x (cs_dirty s) (cs_ts s) (cs_visited s) (cs_stat s) (cs_log s).
Definition cset_dirty (s : cstate) x := mkCState (cs_nodes s) (cs_bwd s) x (cs_ts s) (cs_visited s) (cs_stat s) (cs_log s).
Definition cset_ts (s : cstate) x := mkCState (cs_nodes s) (cs_bwd s) (cs_dirty s) x (cs_visited s) (cs_stat s) (cs_log s).
Definition cset_visited (s : cstate) x := mkCState (cs_nodes s) (cs_bwd s) (cs_dirty s) (cs_ts s) x (cs_stat s) (cs_log s).
Definition cset_stat (s : cstate) x := mkCState (cs_nodes s) (cs_bwd s) (cs_dirty s) (cs_ts s) (cs_visited s) x (cs_log s).
Definition cset_log (s : cstate) x := mkCState (cs_nodes s) (cs_bwd s) (cs_dirty s) (cs_ts s) (cs_visited s) (cs_stat s) x.
Definition cbwd_add (s : cstate) (callee caller_ : node) : cstate :=
  cset_bwd s (aset (cs_bwd s) callee (nadd caller_ (ccallers s callee))).
Definition cbwd_remove (s : cstate) (callee caller_ : node) : cstate :=
  cset_bwd s (aset (cs_bwd s) callee (nremove caller_ (ccallers s callee))).

(** dirty propagation: every caller is a normal query, so it always continues upward *)
Fixpoint cmark (s : cstate) (x : node) (cs : list node) (work : list node) : cstate * list node :=
  match cs with
  | [] => (s, work)
  | c :: r => cmark (cset_stat (cset_dirty s (eadd (c, x) (cs_dirty s))) (cs_stat s + 1)%N) x r (work ++ [c])
  end.
Fixpoint cpropagate (fuel : nat) (s : cstate) (work : list node) : res cstate :=
  match fuel with
  | O => OutOfFuel
  | S f =>
      match work with
      | [] => Ok s
      | x :: r =>
          if nmem x (cs_visited s) then cpropagate f s r
          else
            let s1 := cset_visited s (x :: cs_visited s) in
            let '(s2, work') := cmark s1 x (ccallers s1 x) r in
            cpropagate f s2 work'
      end
  end.

Definition cunwire (s : cstate) (n : node) (old : list node) (clean_dirty : bool) : cstate :=
  fold_left (fun s c =>
               let s1 := cbwd_remove s c n in
               if clean_dirty then cset_dirty s1 (eremove (n, c) (cs_dirty s1)) else s1) old s.
Definition cwire (s : cstate) (n : node) (new : list node) : cstate :=
  fold_left (fun s c => cbwd_add s c n) new s.

(** the computing entry of the running query: registered callees with what was observed *)
Definition cframe := list (node * option Z).
Definition cregister (fr : cframe) (n : node) : cframe :=
  match alookup fr n with Some _ => fr | None => fr ++ [(n, None)] end.
Definition cobserved (fr : cframe) : list (node * Z) :=
  flat_map (fun '(n, o) => match o with Some v => [(n, v)] | None => [] end) fr.

Definition cset_computed (s : cstate) (n : node) (v : Z) (fr : cframe) (recompute : bool) : cstate :=
  let s1 := match cget s n with Some i => cunwire s n (c_fwd i) recompute | None => s end in
  let s2 := cput s1 n (mkCInfo (cs_ts s) v (map fst fr) (cobserved fr)) in
  cwire s2 n (map fst fr).
Definition cset_input (s : cstate) (n : node) (v : Z) : cstate :=
  let s1 := match cget s n with Some i => cunwire s n (c_fwd i) false | None => s end in
  cput s1 n (mkCInfo (cs_ts s) v [] []).
Definition cclean (s : cstate) (n : node) (cleaned : list node) : cstate :=
  match cget s n with
  | None => s
  | Some i =>
      let s1 := fold_left (fun s c => cset_dirty s (eremove (n, c) (cs_dirty s))) cleaned s in
      cput s1 n (mkCInfo (cs_ts s) (c_value i) (c_fwd i) (c_obs i))
  end.

Inductive ccaller :=
| CCUser
| CCRead (by_ : node) (pedantic : bool) (prev : list node)     (* an executor asks for a value *)
| CCRepair (by_ : node) (pedantic : bool).                      (* the repair walk of [by_] *)

Inductive cout := CValue (v : Z) | CNoValue | CCyclic.
Inductive ceout := CEVal (z : Z) | CEUnwind.

Section CRun.
Variable p : program.

Fixpoint cquery (fuel : nat) (stk : list node) (c : ccaller) (fr : option cframe) (n : node) (s : cstate)
  {struct fuel} : res (cout * option cframe * cstate) :=
  match fuel with
  | O => OutOfFuel
  | S f =>
    let c := match c with
             | CCRead b false prev => if nmem n prev then c else CCRead b true prev
             | _ => c end in
    let fr1 := match c, fr with
               | (CCRead _ _ _ | CCRepair _ _), Some x => Some (cregister x n)
               | _, _ => fr end in
    if nmem n stk then Ok (CCyclic, fr1, s)
    else
      let* s1 :=
        match cget s n with
        | None => cexecute f stk c n false s
        | Some i => if (c_verified i =? cs_ts s)%N then Ok s else crepair f stk c n s
        end in
      match cget s1 n with
      | None => Panic 2
      | Some i =>
          match c, fr1 with
          | CCRead _ _ _, Some x => Ok (CValue (c_value i), Some (aset x n (Some (c_value i))), s1)
          | CCRepair _ _, _ => Ok (CNoValue, fr1, s1)
          | _, _ => Ok (CValue (c_value i), fr1, s1)
          end
      end
  end

with cexecute (fuel : nat) (stk : list node) (c : ccaller) (n : node) (recompute : bool) (s : cstate)
  {struct fuel} : res cstate :=
  match fuel with
  | O => OutOfFuel
  | S f =>
    let pedantic := match c with CCRead _ pd _ | CCRepair _ pd => pd | CCUser => false end in
    let prev := match cget s n with Some i => c_fwd i | None => [] end in
    let s0 := cset_log s (n :: cs_log s) in
    match nkind n, alookup p n with
    | KNormal, Some e =>
        let* (out, fr1, s1) := ceval f (n :: stk) (CCRead n pedantic prev) e [] s0 in
        let v := match out with CEVal z => z | CEUnwind => scc_default KNormal end in
        Ok (cset_computed s1 n v fr1 recompute)
    | _, _ => Panic 4
    end
  end

with ceval (fuel : nat) (stk : list node) (me : ccaller) (e : expr) (fr : cframe) (s : cstate)
  {struct fuel} : res (ceout * cframe * cstate) :=
  match fuel with
  | O => OutOfFuel
  | S f =>
    let bin (a b : expr) (op : Z -> Z -> Z) :=
      let* (x, fr1, s1) := ceval f stk me a fr s in
      match x with
      | CEUnwind => Ok (CEUnwind, fr1, s1)
      | CEVal xv =>
          let* (y, fr2, s2) := ceval f stk me b fr1 s1 in
          match y with
          | CEUnwind => Ok (CEUnwind, fr2, s2)
          | CEVal yv => Ok (CEVal (op xv yv), fr2, s2)
          end
      end in
    match e with
    | EConst z => Ok (CEVal z, fr, s)
    | ERead n =>
        let* (o, fr', s') := cquery f stk me (Some fr) n s in
        let fr'' := match fr' with Some x => x | None => fr end in
        match o with CValue z => Ok (CEVal z, fr'', s') | _ => Ok (CEUnwind, fr'', s') end
    | EAdd a b => bin a b Z.add
    | EMul a b => bin a b Z.mul
    | ELt a b => bin a b (fun x y => if x <? y then 1 else 0)
    | EMod a m =>
        let* (x, fr1, s1) := ceval f stk me a fr s in
        match x with CEUnwind => Ok (CEUnwind, fr1, s1) | CEVal xv => Ok (CEVal (xv mod m), fr1, s1) end
    | EIf c a b =>
        let* (x, fr1, s1) := ceval f stk me c fr s in
        match x with
        | CEUnwind => Ok (CEUnwind, fr1, s1)
        | CEVal xv => ceval f stk me (if xv =? 0 then b else a) fr1 s1
        end
    | EGroup _ => Panic 6          (* unordered groups are outside the core fragment *)
    end
  end

with crepair (fuel : nat) (stk : list node) (c : ccaller) (n : node) (s : cstate)
  {struct fuel} : res cstate :=
  match fuel with
  | O => OutOfFuel
  | S f =>
    match cget s n with
    | None => Panic 2
    | Some i =>
      let pedantic := match c with CCRead _ pd _ | CCRepair _ pd => pd | CCUser => false end in
      let* (recompute, cleaned, s1) :=
        (fix walk (cs : list node) (cleaned : list node) (fr : cframe) (s : cstate)
           : res (bool * list node * cstate) :=
           match cs with
           | [] => Ok (false, cleaned, s)
           | cal :: r =>
               let dirty := emem (n, cal) (cs_dirty s) in
               if negb dirty && negb pedantic then walk r cleaned fr s
               else
                 let* (fr1, s1) :=
                   if kind_eqb (nkind cal) KInput then Ok (fr, s)
                   else
                     let* (_, fr', s') := cquery f (n :: stk) (CCRepair n pedantic) (Some fr) cal s in
                     Ok (match fr' with Some x => x | None => fr end, s') in
                 match cget s1 cal, alookup (c_obs i) cal with
                 | Some ci, Some ov =>
                     if negb (c_value ci =? ov) then Ok (true, cleaned, s1)
                     else walk r (if dirty then cleaned ++ [cal] else cleaned) fr1 s1
                 | _, _ => Panic 2
                 end
           end) (c_fwd i) [] [] s in
      if recompute then cexecute f stk c n true s1 else Ok (cclean s1 n cleaned)
    end
  end.

End CRun.

(** restart: the persisted columns ([cs_nodes], [cs_bwd], [cs_dirty], [cs_ts]) survive, the
    volatile items (visited set, statistic, log) are reset *)
Definition crestart (s : cstate) : cstate := cset_log (cset_stat (cset_visited s []) 0%N) [].

Definition cstep_f (fuel : nat) (p : program) (s : cstate) (o : op) : cstate * opres :=
  let s := cset_log s [] in
  match o with
  | OSetWorld _ _ => (s, mkRes RUnit [] None)
  | ORestart => (crestart s, mkRes RUnit [] None)
  | OQuery n =>
      match cquery p fuel [] CCUser None n s with
      | Ok (CValue z, _, s') => (s', mkRes (RValue z) (rev (cs_log s')) (Some (cs_stat s')))
      | Ok (_, _, s') => (s', mkRes RPanic (rev (cs_log s')) (Some (cs_stat s')))
      | Panic _ => (s, mkRes RPanic [] None)
      | OutOfFuel => (s, mkRes RFuel [] None)
      | Stuck => (s, mkRes RStuck [] None)
      end
  | OSession sets _ =>
      let s0 := cset_ts s (cs_ts s + 1)%N in
      let '(s1, rs, batch) :=
        fold_left (fun '(s, rs, batch) '(v, x) =>
                     let n := mkNode KInput v in
                     let r := match cget s n with
                              | None => SFresh
                              | Some i => if c_value i =? x then SUnchanged else SUpdated end in
                     (cset_input s n x, rs ++ [r], match r with SUpdated => batch ++ [n] | _ => batch end))
                  sets (s0, [], []) in
      let s3 := cset_visited (cset_stat s1 0%N) [] in
      match cpropagate (fuel * 10) s3 batch with
      | Ok s4 => (s4, mkRes (RSession rs) [] None)
      | _ => (s3, mkRes RFuel [] None)
      end
  end.

Fixpoint crun_history_f (fuel : nat) (p : program) (s : cstate) (ops : list op) : list opres :=
  match ops with
  | [] => []
  | o :: r => let '(s', x) := cstep_f fuel p s o in x :: crun_history_f fuel p s' r
  end.
Definition crun_history := crun_history_f fuel0.
