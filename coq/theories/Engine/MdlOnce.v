(** C03 "at most once" on the full engine model: within one operation no node is executed twice,
    and a node is not executed twice between two input sessions.  Follows from the unconditional
    monotonicity facts of [Engine/MdlMono.v] (programs without unordered groups). *)
From QV Require Import Common.Prelude Engine.Model Engine.Core Engine.CoreSpec Engine.CoreInvBase
  Engine.Fw Engine.FwBase Engine.FwMono Engine.FwOnce Engine.MdlSpec Engine.MdlBase Engine.MdlMono Engine.MdlCommit Engine.MdlSound.
Open Scope Z_scope.

Lemma step_f_session_execs : forall tord bord pord fuel pfuel p s sets s' x,
  step_f tord bord pord fuel pfuel p s (OSession sets false) = (s', x) -> r_execs x = [].
Proof.
  intros tord bord pord fuel pfuel p s sets s' x H. rewrite step_f_session in H. cbv zeta in H.
  destruct (fold_left fsess_step sets (set_ts (set_log s []) (s_ts (set_log s []) + 1)%N, [], []))
    as [[s1 rs] batch] eqn:Ef.
  apply sess_fold_log in Ef. cbn [set_ts set_log s_log] in Ef.
  destruct (propagate_o pord pfuel (set_visited (set_stat s1 0%N) []) batch) as [s4| | |] eqn:Ep; inversion H; subst; try reflexivity.
  apply propagate_o_same in Ep. destruct Ep as (_ & _ & _ & L & _). cbn [r_execs]. rewrite L. cbn [set_visited set_stat s_log].
  rewrite Ef. reflexivity.
Qed.

Section Once.
Variable p : program.
Variables tord bord pord : state -> node -> list node -> list node.
Variables fuel pfuel : nat.

Lemma mstep_query_mono : forall s n s' x,
  step_f tord bord pord fuel pfuel p s (OQuery n) = (s', x) ->
  (s' = set_log s [] /\ r_execs x = []) \/
  (MonoR [] (set_log s []) s' /\ r_execs x = rev (s_log s')).
Proof.
  intros s n s' x H. unfold step_f in H.
  destruct (query_for_o p None tord bord pord fuel [] CUser None n (set_log s [])) as [[[[o fr] ms] s1]| | |] eqn:Eq.
  - right. apply (proj1 (mmono_all p tord bord pord fuel)) in Eq. destruct o as [[z|]|]; inversion H; subst; auto.
  - left. inversion H. auto.
  - left. inversion H. auto.
  - left. inversion H. auto.
Qed.

Lemma mstep_execs : forall s o s' x m, op_in_scope o ->
  step_f tord bord pord fuel pfuel p s o = (s', x) -> In m (r_execs x) -> sverified s' m /\ ~ sverified s m.
Proof.
  intros s o s' x m Hsc H Hm. destruct o as [sets b|n|w v|].
  - cbn in Hsc. subst b. rewrite (step_f_session_execs _ _ _ _ _ _ _ _ _ _ H) in Hm. destruct Hm.
  - destruct (mstep_query_mono _ _ _ _ H) as [[_ E]|[HM E]]; rewrite E in Hm; [destruct Hm|].
    apply in_rev in Hm. destruct (mr_log _ _ _ HM) as [new [L [_ P]]]. cbn [set_log s_log] in L.
    rewrite app_nil_r in L. rewrite L in Hm. destruct (P m Hm) as (_ & A & B). split; [exact B|exact A].
  - destruct Hsc.
  - cbn in H. inversion H. subst. destruct Hm.
Qed.

Lemma mstep_nodup : forall s o s' x, op_in_scope o -> step_f tord bord pord fuel pfuel p s o = (s', x) -> NoDup (r_execs x).
Proof.
  intros s o s' x Hsc H. destruct o as [sets b|n|w v|].
  - cbn in Hsc. subst b. rewrite (step_f_session_execs _ _ _ _ _ _ _ _ _ _ H). constructor.
  - destruct (mstep_query_mono _ _ _ _ H) as [[_ E]|[HM E]]; rewrite E; [constructor|].
    destruct (mr_log _ _ _ HM) as [new [L [N _]]]. cbn [set_log s_log] in L.
    rewrite app_nil_r in L. rewrite L. apply NoDup_rev. exact N.
  - destruct Hsc.
  - cbn in H. inversion H. subst. constructor.
Qed.

Lemma mstep_keeps_verified : forall s o s' x m,
  step_f tord bord pord fuel pfuel p s o = (s', x) -> (forall sets b, o <> OSession sets b) -> op_in_scope o ->
  sverified s m -> sverified s' m.
Proof.
  intros s o s' x m H Hns Hsc Hv. destruct o as [sets b|n|w v|].
  - exfalso. eapply Hns. reflexivity.
  - destruct (mstep_query_mono _ _ _ _ H) as [[-> _]|[HM _]]; [exact Hv|].
    eapply sverified_mono; [exact HM|]. exact Hv.
  - destruct Hsc.
  - cbn in H. inversion H. subst. exact Hv.
Qed.

Lemma mrun_nodup : forall ops s i r, Forall op_in_scope ops ->
  nth_error (run_history_f tord bord pord fuel pfuel p s ops) i = Some r -> NoDup (r_execs r).
Proof.
  induction ops as [|o rest IH]; intros s i r Hsc H; [destruct i; discriminate|].
  inversion Hsc; subst.
  cbn [run_history_f] in H. destruct (step_f tord bord pord fuel pfuel p s o) as [s' x] eqn:Es. destruct i as [|i].
  - cbn in H. inversion H. subst. eapply mstep_nodup; eauto.
  - cbn [nth_error] in H. eapply IH; eauto.
Qed.

Lemma mrun_verified_not_executed : forall ops s i m, Forall op_in_scope ops ->
  sverified s m ->
  (forall k sets b, (k <= i)%nat -> nth_error ops k <> Some (OSession sets b)) ->
  ~ executed_at (run_history_f tord bord pord fuel pfuel p s ops) i m.
Proof.
  induction ops as [|o rest IH]; intros s i m Hsc Hv Hns [r [Hr Hm]]; [destruct i; discriminate|].
  inversion Hsc; subst.
  cbn [run_history_f] in Hr. destruct (step_f tord bord pord fuel pfuel p s o) as [s' x] eqn:Es. destruct i as [|i].
  - cbn in Hr. inversion Hr. subst. destruct (mstep_execs _ _ _ _ _ H1 Es Hm) as [_ K]. contradiction.
  - cbn [nth_error] in Hr. apply (IH s' i m); auto.
    + eapply mstep_keeps_verified; eauto. intros sets b ->. apply (Hns 0%nat sets b); [lia|reflexivity].
    + intros k sets b Hk. apply (Hns (S k) sets b). lia.
    + exists r. auto.
Qed.

Lemma mrun_once : forall ops s j i m, Forall op_in_scope ops ->
  (j < i)%nat ->
  executed_at (run_history_f tord bord pord fuel pfuel p s ops) i m ->
  executed_at (run_history_f tord bord pord fuel pfuel p s ops) j m ->
  ~ no_session_between ops j i.
Proof.
  induction ops as [|o rest IH]; intros s j i m Hsc Hji Hi Hj Hns.
  - destruct Hj as [r [Hr _]]. destruct j; discriminate.
  - inversion Hsc; subst. destruct Hi as [ri [Hri Hmi]]. destruct Hj as [rj [Hrj Hmj]].
    cbn [run_history_f] in Hri, Hrj. destruct (step_f tord bord pord fuel pfuel p s o) as [s' x] eqn:Es.
    destruct i as [|i]; [lia|]. cbn [nth_error] in Hri. destruct j as [|j].
    + cbn in Hrj. inversion Hrj. subst. destruct (mstep_execs _ _ _ _ _ H1 Es Hmj) as [Hv _].
      apply (mrun_verified_not_executed rest s' i m H2 Hv).
      * intros k sets b Hk. apply (Hns (S k) sets b). lia.
      * exists ri. auto.
    + cbn [nth_error] in Hrj. apply (IH s' j i m); [exact H2|lia|exists ri; auto|exists rj; auto|].
      intros k sets b Hk. apply (Hns (S k) sets b). lia.
Qed.
End Once.

(** C03 "at most once" on the full model (unordered groups included) *)
Definition model_once_g_statement_f : Prop :=
  forall (tord bord pord : oracle) fuel pfuel p ops i j m r, wf_model_g p -> Forall op_in_scope ops ->
    let rs := run_history_f tord bord pord fuel pfuel p init_state ops in
    (nth_error rs i = Some r -> NoDup (r_execs r)) /\
    ((j < i)%nat -> executed_at rs i m -> executed_at rs j m -> ~ no_session_between ops j i).
(** whatever the order oracles are (no hypothesis on them) *)
Definition model_once_g_statement_op : Prop :=
  forall (tord bord pord : oracle) p ops i j m r, wf_model_g p -> Forall op_in_scope ops ->
    let rs := run_history_op tord bord pord p init_state ops in
    (nth_error rs i = Some r -> NoDup (r_execs r)) /\
    ((j < i)%nat -> executed_at rs i m -> executed_at rs j m -> ~ no_session_between ops j i).
Definition model_once_g_statement_o : Prop :=
  forall (tord bord : oracle) p ops i j m r, wf_model_g p -> Forall op_in_scope ops ->
    let rs := run_history_o tord bord p init_state ops in
    (nth_error rs i = Some r -> NoDup (r_execs r)) /\
    ((j < i)%nat -> executed_at rs i m -> executed_at rs j m -> ~ no_session_between ops j i).
Definition model_once_g_statement : Prop :=
  forall p ops i j m r, wf_model_g p -> Forall op_in_scope ops ->
    let rs := run_history p init_state ops in
    (nth_error rs i = Some r -> NoDup (r_execs r)) /\
    ((j < i)%nat -> executed_at rs i m -> executed_at rs j m -> ~ no_session_between ops j i).
Definition model_once_statement_f : Prop :=
  forall (tord bord pord : oracle) fuel pfuel p ops i j m r, wf_model p -> Forall op_in_scope ops ->
    let rs := run_history_f tord bord pord fuel pfuel p init_state ops in
    (nth_error rs i = Some r -> NoDup (r_execs r)) /\
    ((j < i)%nat -> executed_at rs i m -> executed_at rs j m -> ~ no_session_between ops j i).
Definition model_once_statement : Prop :=
  forall p ops i j m r, wf_model p -> Forall op_in_scope ops ->
    let rs := run_history p init_state ops in
    (nth_error rs i = Some r -> NoDup (r_execs r)) /\
    ((j < i)%nat -> executed_at rs i m -> executed_at rs j m -> ~ no_session_between ops j i).

Theorem model_once_g_f : model_once_g_statement_f.
Proof.
  intros tord bord pord fuel pfuel p ops i j m r _ Hsc. cbv zeta. split.
  - eapply mrun_nodup; eauto.
  - intros Hji Hi Hj. eapply mrun_once; eauto.
Qed.
Theorem model_once_g_op : model_once_g_statement_op.
Proof.
  intros tord bord pord p ops i j m r Hwf Hsc. cbv zeta. rewrite run_history_op_is_f. apply (model_once_g_f tord bord pord fuel0 4000%nat); assumption.
Qed.
Theorem model_once_g_o : model_once_g_statement_o.
Proof. intros tord bord p. exact (model_once_g_op tord bord ord_id p). Qed.
Theorem model_once_g : model_once_g_statement.
Proof. intros p. exact (model_once_g_o ord_id ord_id p). Qed.
Theorem model_once_f : model_once_statement_f.
Proof. intros tord bord pord fuel pfuel p ops i j m r Hwf. apply model_once_g_f. apply wf_model_g_of. exact Hwf. Qed.
Theorem model_once : model_once_statement.
Proof. intros p ops i j m r Hwf. apply model_once_g. apply wf_model_g_of. exact Hwf. Qed.

Print Assumptions model_once_g_f.
Print Assumptions model_once_g_op.
Print Assumptions model_once_g_o.
Print Assumptions model_once_g.
Print Assumptions model_once_f.
Print Assumptions model_once.
