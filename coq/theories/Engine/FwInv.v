(** The state invariant of the firewall fragment of the engine model ([Engine/Fw.v]) and its
    consequences.  Besides the structural part (as in [Engine/CoreInvState.v]) it has five
    semantic clauses:
    - [fi_C]: a clean edge (n,d) carries the value d records now (and, for a normal d, the
      transitive firewall callees d records now), and the sub-graph recorded below a
      non-firewall d down to the next firewalls is consistent in the same sense ([Good]);
    - [fi_G]: the sub-graph recorded below a node verified in this epoch is consistent;
    - [fi_T]: every firewall reachable from a node verified in this epoch through
      non-firewall nodes is verified in this epoch;
    - [fi_V]: a node verified in this epoch holds its from-scratch value;
    - [fi_PV]: a node expanded by dirty propagation in this epoch is verified in this epoch
      or all edges into it are still dirty and its non-firewall callers were expanded too
      (this is what makes sharing the visited set with the compute phase sound).
    Nothing is required of dirty edges, and no upward closure of dirt is needed. *)
From QV Require Import Common.Prelude Engine.Model Engine.Core Engine.CoreSpec Engine.CoreInvBase
  Engine.CoreInvSem Engine.Fw Engine.FwBase Engine.FwMono Engine.FwSpec Engine.FwSem.
Open Scope Z_scope.

(** * sets compared as sets *)
Lemma nsubset_In : forall a b, nsubset a b = true <-> forall x, In x a -> In x b.
Proof.
  intros a b. unfold nsubset. rewrite forallb_forall. split.
  - intros H x Hx. apply nmem_In. apply H. exact Hx.
  - intros H x Hx. apply nmem_In. apply H. exact Hx.
Qed.
Lemma nset_eqb_In : forall a b, nset_eqb a b = true <-> forall x, In x a <-> In x b.
Proof.
  intros a b. unfold nset_eqb. rewrite andb_true_iff, !nsubset_In. split.
  - intros [H1 H2] x. split; auto.
  - intro H. split; intros x Hx; apply H; exact Hx.
Qed.
Lemma nunion_In : forall b a x, In x (nunion a b) <-> In x a \/ In x b.
Proof.
  unfold nunion. induction b as [|y r IH]; intros a x; cbn [fold_left In].
  - tauto.
  - rewrite IH, nadd_In. intuition.
Qed.

Lemma edge_dec : forall a b : node * node, {a = b} + {a <> b}.
Proof. intros [a1 a2] [b1 b2]. destruct (node_eq_dec a1 b1); destruct (node_eq_dec a2 b2); try (left; congruence); right; congruence. Qed.

Definition nonfw (n : node) : Prop := is_fw_or_proj (nkind n) = false.
Lemma nonfw_dec : forall n, {nonfw n} + {~ nonfw n}.
Proof. intro n. unfold nonfw. destruct (is_fw_or_proj (nkind n)); [right; discriminate|left; reflexivity]. Qed.
Lemma nonfw_not_fw : forall n, nonfw n -> nkind n <> KFirewall.
Proof. intros n H K. unfold nonfw in H. rewrite K in H. discriminate. Qed.

(** * consistency of the recorded graph *)
Definition obsV (i : info) (d : node) (v : Z) : Prop := exists t, alookup (i_obs i) d = Some (v, t).

(** the edge (n,d) carries what d records now *)
Definition edgeok (s : state) (n d : node) : Prop :=
  exists i j v t, get_info s n = Some i /\ get_info s d = Some j /\
    alookup (i_obs i) d = Some (v, t) /\ v = i_value j /\
    (nkind d <> KFirewall -> forall x, In x (i_tfc j) <-> In x t).

(** paths through recorded edges whose nodes after the first are not firewalls *)
Inductive nfpath (s : state) : node -> node -> Prop :=
| nf_refl : forall n, nfpath s n n
| nf_step : forall n d x, In d (old_fwd s n) -> nonfw d -> nfpath s d x -> nfpath s n x.

Definition Good (s : state) (n : node) : Prop :=
  forall x, nfpath s n x -> forall d, In d (old_fwd s x) -> edgeok s x d.
Definition reach (s : state) (n F : node) : Prop :=
  exists x, nfpath s n x /\ In F (old_fwd s x) /\ nkind F = KFirewall.
Definition Solid (s : state) (d : node) : Prop :=
  Good s d /\ forall F, reach s d F -> sverified s F.

Lemma nfpath_trans : forall s a b c, nfpath s a b -> nfpath s b c -> nfpath s a c.
Proof. intros s a b c H. induction H; intro H2; [exact H2|]. econstructor; eauto. Qed.
Lemma nfpath_snoc : forall s a b d, nfpath s a b -> In d (old_fwd s b) -> nonfw d -> nfpath s a d.
Proof. intros s a b d H Hd Hn. eapply nfpath_trans; [exact H|]. econstructor; eauto. constructor. Qed.

Lemma Good_step : forall s n d, Good s n -> In d (old_fwd s n) -> nonfw d -> Good s d.
Proof. intros s n d H Hd Hn x Hx. apply H. econstructor; eauto. Qed.
Lemma Good_path : forall s n x, Good s n -> nfpath s n x -> Good s x.
Proof. intros s n x H Hp y Hy. apply H. eapply nfpath_trans; eauto. Qed.
Lemma reach_step : forall s n d F, In d (old_fwd s n) -> nonfw d -> reach s d F -> reach s n F.
Proof. intros s n d F Hd Hn [x (A & B & C)]. exists x. split; [econstructor; eauto|auto]. Qed.
Lemma reach_direct : forall s n F, In F (old_fwd s n) -> nkind F = KFirewall -> reach s n F.
Proof. intros s n F H K. exists n. split; [constructor|auto]. Qed.
Lemma reach_path : forall s n x F, nfpath s n x -> reach s x F -> reach s n F.
Proof. intros s n x F Hp [y (A & B & C)]. exists y. split; [eapply nfpath_trans; eauto|auto]. Qed.
Lemma Solid_step : forall s n d, Solid s n -> In d (old_fwd s n) -> nonfw d -> Solid s d.
Proof.
  intros s n d [G R] Hd Hn. split; [eapply Good_step; eauto|].
  intros F HF. apply R. eapply reach_step; eauto.
Qed.
Lemma Solid_path : forall s n x, Solid s n -> nfpath s n x -> Solid s x.
Proof. intros s n x H Hp. induction Hp; [exact H|]. apply IHHp. eapply Solid_step; eauto. Qed.

(** ** what a state change that leaves the nodes below [b] alone keeps *)
Lemma nfpath_frame : forall s s' b x,
  nfpath s b x ->
  (forall y, nfpath s b y -> old_fwd s' y = old_fwd s y) ->
  nfpath s' b x.
Proof.
  intros s s' b x H. induction H; intro Hf; [constructor|].
  econstructor.
  - rewrite (Hf n (nf_refl s n)). exact H.
  - exact H0.
  - apply IHnfpath. intros y Hy. apply Hf. econstructor; eauto.
Qed.
Lemma nfpath_frame_inv : forall s s' b x,
  nfpath s' b x ->
  (forall y, nfpath s b y -> old_fwd s' y = old_fwd s y) ->
  nfpath s b x.
Proof.
  intros s s' b x H. induction H; intro Hf; [constructor|].
  assert (Hd : In d (old_fwd s n)) by (rewrite <- (Hf n (nf_refl s n)); exact H).
  econstructor; [exact Hd|exact H0|]. apply IHnfpath. intros y Hy. apply Hf. econstructor; eauto.
Qed.

Lemma Good_frame : forall s s' b,
  Good s b ->
  (forall y, nfpath s b y -> old_fwd s' y = old_fwd s y) ->
  (forall y d, nfpath s b y -> In d (old_fwd s y) -> edgeok s y d -> edgeok s' y d) ->
  Good s' b.
Proof.
  intros s s' b HG Hf He x Hx d Hd.
  assert (Hx0 : nfpath s b x) by (eapply nfpath_frame_inv; eauto).
  rewrite (Hf x Hx0) in Hd. apply He; auto.
Qed.
Lemma reach_frame_inv : forall s s' b F,
  reach s' b F ->
  (forall y, nfpath s b y -> old_fwd s' y = old_fwd s y) ->
  reach s b F.
Proof.
  intros s s' b F [x (A & B & C)] Hf.
  assert (Hx0 : nfpath s b x) by (eapply nfpath_frame_inv; eauto).
  exists x. split; [exact Hx0|]. rewrite (Hf x Hx0) in B. auto.
Qed.

(** a consistent sub-graph whose firewalls are all verified is not modified by a request *)
Definition same_sem (i i' : info) : Prop :=
  i_value i' = i_value i /\ i_fwd i' = i_fwd i /\ i_obs i' = i_obs i /\ i_tfc i' = i_tfc i.
Definition Keeps (s s' : state) : Prop :=
  forall d i, get_info s d = Some i -> Solid s d -> exists i', get_info s' d = Some i' /\ same_sem i i'.

Lemma sbp_same_sem : forall i i', sbp i i' -> same_sem i i'.
Proof. intros i i' (A & B & C & D & E). repeat split; assumption. Qed.
Lemma Keeps_refl : forall s, Keeps s s.
Proof. intros s d i Hi _. exists i. split; [exact Hi|repeat split]. Qed.


(** * the invariant *)
Section Inv.
Variable p : program.
Variable rk : node -> nat.

Record FInv (inp : inputs) (s : state) : Prop := {
  fi_kind : forall n i, get_info s n = Some i ->
     (nkind n = KInput /\ i_fwd i = [] /\ i_obs i = [] /\ i_tfc i = [] /\
      input_get inp (nidx n) = Some (i_value i))
     \/ (is_exec_kind (nkind n) = true /\ exists e, alookup p n = Some e /\ ev (obsV i) e (i_value i) /\
          (forall d, In d (all_callees (i_fwd i)) -> In d (expr_reads e)));
  fi_obs : forall n i d, get_info s n = Some i -> In d (all_callees (i_fwd i)) ->
             exists o, alookup (i_obs i) d = Some o;
  fi_obs_fwd : forall n i d o, get_info s n = Some i -> alookup (i_obs i) d = Some o ->
             In d (all_callees (i_fwd i));
  fi_target : forall n d, In d (old_fwd s n) -> get_info s d <> None;
  fi_bwd : forall n d, In n (callers_of s d) <-> In d (old_fwd s n);
  fi_dirty_edge : forall a b, sdirty s a b -> In b (old_fwd s a);
  fi_ts : forall n i, get_info s n = Some i -> (i_verified i <= s_ts s)%N;
  (* the recorded transitive firewall callees contain what the callees contributed *)
  fi_tfc : forall n i d v t, get_info s n = Some i -> alookup (i_obs i) d = Some (v, t) ->
             (nkind d = KFirewall -> In d (i_tfc i)) /\
             (nkind d = KNormal -> forall F, In F t -> In F (i_tfc i));
  fi_tfc_rk : forall n i F, get_info s n = Some i -> In F (i_tfc i) -> (rk F < rk n)%nat;
  fi_C : forall n d, In d (old_fwd s n) -> ~ sdirty s n d -> edgeok s n d /\ (nonfw d -> Good s d);
  fi_G : forall n, sverified s n -> Good s n;
  fi_T : forall n F, sverified s n -> reach s n F -> sverified s F;
  fi_V : forall n i, get_info s n = Some i -> i_verified i = s_ts s -> FSpecI p inp n (i_value i);
  fi_PV : forall x, In x (s_visited s) ->
            sverified s x \/
            (nkind x <> KInput /\
             forall c, In c (callers_of s x) -> sdirty s c x /\ (nonfw c -> In c (s_visited s)));
}.

Hypothesis Hrk : forall n e d, alookup p n = Some e -> In d (expr_reads e) -> (rk d < rk n)%nat.

Lemma FInv_init : FInv [] init_state.
Proof using Type.
  split; try (intros; discriminate); try (intros; contradiction).
  - intros n d. cbn. tauto.
  - intros n [i [H _]]. discriminate.
  - intros n F [i [H _]]. discriminate.
Qed.

Lemma FInv_same : forall inp s s',
  s_nodes s' = s_nodes s -> s_bwd s' = s_bwd s -> s_dirty s' = s_dirty s -> s_ts s' = s_ts s ->
  (s_visited s' = s_visited s \/ s_visited s' = []) ->
  FInv inp s -> FInv inp s'.
Proof using Type.
  intros inp s s' Hn Hb Hd Ht Hv HI.
  assert (Hg : forall m, get_info s' m = get_info s m) by (intro m; unfold get_info; rewrite Hn; reflexivity).
  assert (Hf : forall m, old_fwd s' m = old_fwd s m) by (intro m; unfold old_fwd; rewrite Hg; reflexivity).
  assert (Hc : forall m, callers_of s' m = callers_of s m) by (intro m; unfold callers_of; rewrite Hb; reflexivity).
  assert (Hsd : forall a b, sdirty s' a b <-> sdirty s a b) by (intros; unfold sdirty; rewrite Hd; reflexivity).
  assert (Hsv : forall m, sverified s' m <-> sverified s m) by (intro m; unfold sverified; rewrite Hg, Ht; reflexivity).
  assert (He : forall a b, edgeok s' a b <-> edgeok s a b) by (intros; unfold edgeok; rewrite !Hg; reflexivity).
  assert (Hp : forall a b, nfpath s' a b <-> nfpath s a b).
  { intros a b. split; intro H; induction H; try constructor; econstructor; eauto; [rewrite <- Hf|rewrite Hf]; assumption. }
  assert (HG : forall a, Good s' a <-> Good s a).
  { intro a. unfold Good. split; intros H x Hx d Hdx.
    - apply He. apply H; [apply Hp; exact Hx|rewrite Hf; exact Hdx].
    - apply He. apply H; [apply Hp; exact Hx|rewrite <- Hf; exact Hdx]. }
  assert (HR : forall a F, reach s' a F <-> reach s a F).
  { intros a F. unfold reach. split; intros [x (A & B & C)]; exists x.
    - split; [apply Hp; exact A|]. rewrite <- Hf. auto.
    - split; [apply Hp; exact A|]. rewrite Hf. auto. }
  destruct HI. split.
  - intros n i. rewrite Hg. apply fi_kind0.
  - intros n i d. rewrite Hg. apply fi_obs0.
  - intros n i d o. rewrite Hg. apply fi_obs_fwd0.
  - intros n d. rewrite Hf, Hg. apply fi_target0.
  - intros n d. rewrite Hc, Hf. apply fi_bwd0.
  - intros a b. rewrite Hsd, Hf. apply fi_dirty_edge0.
  - intros n i. rewrite Hg, Ht. apply fi_ts0.
  - intros n i d v t. rewrite Hg. apply fi_tfc0.
  - intros n i F. rewrite Hg. apply fi_tfc_rk0.
  - intros n d. rewrite Hf, Hsd, He. intros A B. destruct (fi_C0 n d A B) as [C D]. split; [exact C|].
    intro K. apply HG. auto.
  - intros n. rewrite Hsv, HG. apply fi_G0.
  - intros n F. rewrite !Hsv, HR. apply fi_T0.
  - intros n i. rewrite Hg, Ht. apply fi_V0.
  - intros x Hx. destruct Hv as [Hv|Hv]; [|rewrite Hv in Hx; destruct Hx].
    rewrite Hv in Hx. destruct (fi_PV0 x Hx) as [K|[K0 K]].
    + left. apply Hsv. exact K.
    + right. split; [exact K0|]. intros c Hcx. rewrite Hc in Hcx. destruct (K c Hcx) as [K1 K2]. split; [apply Hsd; exact K1|].
      rewrite Hv. exact K2.
Qed.

Lemma FInv_log : forall inp s l, FInv inp s -> FInv inp (set_log s l).
Proof using Type. intros inp s l H. eapply FInv_same; [| | | | |exact H]; try reflexivity. left. reflexivity. Qed.
Lemma FInv_restart : forall inp s, FInv inp s -> FInv inp (restart s).
Proof using Type. intros inp s H. eapply FInv_same; [| | | | |exact H]; try reflexivity. right. reflexivity. Qed.

Lemma fwd_rk : forall inp s n d, FInv inp s -> In d (old_fwd s n) -> (rk d < rk n)%nat.
Proof.
  intros inp s n d HI Hd. unfold old_fwd in Hd. destruct (get_info s n) as [i|] eqn:Hi; [|destruct Hd].
  destruct (fi_kind _ _ HI n i Hi) as [(_ & K & _)|(_ & e & He & _ & Hr)].
  - rewrite K in Hd. destruct Hd.
  - eapply Hrk; eauto.
Qed.
Lemma nfpath_rk : forall inp s n x, FInv inp s -> nfpath s n x -> (rk x <= rk n)%nat.
Proof.
  intros inp s n x HI H. induction H; [lia|]. pose proof (fwd_rk _ _ _ _ HI H). lia.
Qed.
Lemma nfpath_stored : forall inp s n x, FInv inp s -> get_info s n <> None -> nfpath s n x -> get_info s x <> None.
Proof.
  intros inp s n x HI Hn H. induction H; [exact Hn|]. apply IHnfpath. eapply fi_target; eauto.
Qed.
Lemma input_no_fwd : forall inp s n, FInv inp s -> nkind n = KInput -> old_fwd s n = [].
Proof.
  intros inp s n HI K. unfold old_fwd. destruct (get_info s n) as [i|] eqn:Hi; [|reflexivity].
  destruct (fi_kind _ _ HI n i Hi) as [(_ & F & _)|(K2 & _)]; [rewrite F; reflexivity|].
  rewrite K in K2. discriminate.
Qed.
Lemma stored_kind : forall inp s n i, FInv inp s -> get_info s n = Some i ->
  nkind n = KInput \/ nkind n = KNormal \/ nkind n = KFirewall.
Proof.
  intros inp s n i HI Hi. destruct (fi_kind _ _ HI n i Hi) as [(K & _)|(K & _)]; [auto|].
  destruct (nkind n); try discriminate; auto.
Qed.
Lemma nonfw_stored : forall inp s n i, FInv inp s -> get_info s n = Some i -> nonfw n ->
  nkind n = KInput \/ nkind n = KNormal.
Proof.
  intros inp s n i HI Hi Hn. destruct (stored_kind _ _ _ _ HI Hi) as [K|[K|K]]; auto.
  exfalso. eapply nonfw_not_fw; eauto.
Qed.
Lemma fw_or_nonfw : forall inp s n i, FInv inp s -> get_info s n = Some i -> nkind n = KFirewall \/ nonfw n.
Proof.
  intros inp s n i HI Hi. destruct (stored_kind _ _ _ _ HI Hi) as [K|[K|K]]; auto;
    right; unfold nonfw; rewrite K; reflexivity.
Qed.

(** the transitive firewall callees recorded for a consistent node contain every reachable
    firewall *)
Lemma Good_tfc : forall inp s, FInv inp s -> forall d x, nfpath s d x ->
  Good s d -> forall F i, In F (old_fwd s x) -> nkind F = KFirewall -> get_info s d = Some i -> In F (i_tfc i).
Proof.
  intros inp s HI d x H. induction H as [n|n d x Hd Hnf Hp IH]; intros HG F i HF KF Hi.
  - destruct (HG n (nf_refl s n) F HF) as (i0 & j & v & t & A & B & C & _).
    assert (i0 = i) by congruence. subst i0. apply (proj1 (fi_tfc _ _ HI n i F v t Hi C)). exact KF.
  - destruct (HG n (nf_refl s n) d Hd) as (i0 & j & v & t & A & B & C & _ & E).
    assert (i0 = i) by congruence. subst i0.
    assert (Kd : nkind d = KNormal).
    { destruct (nonfw_stored _ _ _ _ HI B Hnf) as [K|K]; [|exact K].
      pose proof (input_no_fwd _ _ _ HI K) as E0. inversion Hp; subst; [rewrite E0 in HF; destruct HF|].
      match goal with H : In _ (old_fwd s d) |- _ => rewrite E0 in H; destruct H end. }
    assert (In F (i_tfc j)) by (eapply IH; eauto; eapply Good_step; eauto).
    apply (proj2 (fi_tfc _ _ HI n i d v t Hi C) Kd). apply (E (nonfw_not_fw _ Hnf)). assumption.
Qed.
Lemma Good_reach_tfc : forall inp s d i F, FInv inp s -> Good s d -> reach s d F ->
  get_info s d = Some i -> In F (i_tfc i).
Proof. intros inp s d i F HI HG [x (A & B & C)] Hi. eapply Good_tfc; eauto. Qed.

(** a consistent node whose reachable firewalls are verified holds its from-scratch value *)
Lemma Solid_value : forall inp s, FInv inp s -> forall k d i, (rk d < k)%nat ->
  get_info s d = Some i -> Solid s d -> FSpecI p inp d (i_value i).
Proof.
  intros inp s HI. induction k as [|k IH]; intros d i Hk Hi [HG HR]; [lia|].
  destruct (fi_kind _ _ HI d i Hi) as [(K1 & _ & _ & _ & K5)|(K1 & e & He & Hev & Hr)].
  - apply FSpecI_input; assumption.
  - eapply FSpecI_exec; eauto. eapply ev_fsev; [exact Hev|].
    intros y v _ [t Ho].
    assert (Hy : In y (old_fwd s d)).
    { unfold old_fwd. rewrite Hi. eapply fi_obs_fwd; eauto. }
    destruct (HG d (nf_refl s d) y Hy) as (i0 & j & v0 & t0 & A & B & C & D & _).
    assert (i0 = i) by congruence. subst i0. assert (v0 = v) by congruence. subst v0. subst v.
    destruct (fw_or_nonfw _ _ _ _ HI B) as [Ky|Ky].
    + destruct (HR y (reach_direct _ _ _ Hy Ky)) as [j' [B' V']].
      assert (j' = j) by congruence. subst j'. eapply fi_V; eauto.
    + apply IH; auto.
      * pose proof (fwd_rk _ _ _ _ HI Hy). lia.
      * eapply Solid_step; eauto. split; assumption.
Qed.

(** a node with an inconsistent edge has no clean edge and no verified node above it *)
Definition Stale (s : state) (n : node) : Prop := exists cal, In cal (old_fwd s n) /\ ~ edgeok s n cal.
Lemma Stale_not_Good : forall s n x, Stale s n -> nfpath s x n -> ~ Good s x.
Proof. intros s n x [cal [A B]] Hp HG. apply B. apply (HG n Hp cal A). Qed.

Lemma Stale_callers_dirty : forall inp s n a, FInv inp s -> Stale s n -> nonfw n ->
  In n (old_fwd s a) -> sdirty s a n.
Proof.
  intros inp s n a HI HS Hn Ha.
  destruct (in_dec edge_dec (a, n) (s_dirty s)) as [K|K]; [exact K|]. exfalso.
  destruct (fi_C _ _ HI a n Ha K) as [_ G]. eapply Stale_not_Good; eauto. constructor.
Qed.
End Inv.
