(** Relational form of the from-scratch evaluator of [Engine/CoreSpec.v] ([sev]), evaluation
    of an expression against an arbitrary read oracle ([ev]), and their basic properties:
    determinism, monotonicity in the oracle, equivalence of [sev] with [sexpr]/[Spec]. *)
From QV Require Import Common.Prelude Engine.Model Engine.Core Engine.CoreSpec Engine.CoreInvBase.
Open Scope Z_scope.

Section Sem.
Variable p : program.

(** evaluation of an expression where every read [d] is answered by the oracle [R] *)
Inductive ev (R : node -> Z -> Prop) : expr -> Z -> Prop :=
| ev_const : forall z, ev R (EConst z) z
| ev_read : forall n v, R n v -> ev R (ERead n) v
| ev_add : forall a b x y, ev R a x -> ev R b y -> ev R (EAdd a b) (x + y)
| ev_mul : forall a b x y, ev R a x -> ev R b y -> ev R (EMul a b) (x * y)
| ev_lt : forall a b x y, ev R a x -> ev R b y -> ev R (ELt a b) (if x <? y then 1 else 0)
| ev_mod : forall a m x, ev R a x -> ev R (EMod a m) (x mod m)
| ev_if : forall c a b x v, ev R c x -> ev R (if x =? 0 then b else a) v -> ev R (EIf c a b) v.

Lemma ev_mono : forall (R R' : node -> Z -> Prop) e v,
  ev R e v -> (forall d x, In d (expr_reads e) -> R d x -> R' d x) -> ev R' e v.
Proof.
  intros R R' e v H. induction H; intro HR; cbn [expr_reads] in HR.
  - constructor.
  - constructor. apply HR; [left; reflexivity|assumption].
  - constructor; [apply IHev1|apply IHev2]; intros; apply HR; auto; apply in_or_app; auto.
  - constructor; [apply IHev1|apply IHev2]; intros; apply HR; auto; apply in_or_app; auto.
  - constructor; [apply IHev1|apply IHev2]; intros; apply HR; auto; apply in_or_app; auto.
  - constructor. apply IHev. exact HR.
  - econstructor.
    + apply IHev1. intros; apply HR; auto; apply in_or_app; auto.
    + apply IHev2. intros d y Hd. apply HR. apply in_or_app. right. apply in_or_app.
      destruct (x =? 0); auto.
Qed.

(** the reads of an oracle evaluation are syntactic reads *)
Inductive sev (inp : inputs) : expr -> Z -> Prop :=
| sev_const : forall z, sev inp (EConst z) z
| sev_input : forall n v, nkind n = KInput -> input_get inp (nidx n) = Some v -> sev inp (ERead n) v
| sev_normal : forall n b v, nkind n = KNormal -> alookup p n = Some b -> sev inp b v -> sev inp (ERead n) v
| sev_add : forall a b x y, sev inp a x -> sev inp b y -> sev inp (EAdd a b) (x + y)
| sev_mul : forall a b x y, sev inp a x -> sev inp b y -> sev inp (EMul a b) (x * y)
| sev_lt : forall a b x y, sev inp a x -> sev inp b y -> sev inp (ELt a b) (if x <? y then 1 else 0)
| sev_mod : forall a m x, sev inp a x -> sev inp (EMod a m) (x mod m)
| sev_if : forall c a b x v, sev inp c x -> sev inp (if x =? 0 then b else a) v -> sev inp (EIf c a b) v.

Definition SpecI (inp : inputs) (n : node) (v : Z) : Prop := sev inp (ERead n) v.

Lemma sev_det : forall inp e v1, sev inp e v1 -> forall v2, sev inp e v2 -> v1 = v2.
Proof.
  intros inp e v1 H. induction H; intros v2 H2; inversion H2; subst; try congruence;
    repeat match goal with
    | IH : forall v2, sev _ ?e v2 -> _ = v2, H : sev _ ?e _ |- _ => apply IH in H; subst
    end; try reflexivity.
  match goal with H1 : alookup p n = Some ?b1, H2 : alookup p n = Some ?b2 |- _ =>
    assert (b1 = b2) by congruence; subst end.
  auto.
Qed.

Lemma SpecI_det : forall inp n v1 v2, SpecI inp n v1 -> SpecI inp n v2 -> v1 = v2.
Proof. intros. eapply sev_det; eauto. Qed.

Lemma ev_sev : forall inp R e v, ev R e v -> (forall d x, In d (expr_reads e) -> R d x -> SpecI inp d x) -> sev inp e v.
Proof.
  intros inp R e v H. induction H; intro HR; cbn [expr_reads] in HR.
  - constructor.
  - apply HR; [left; reflexivity|assumption].
  - constructor; [apply IHev1|apply IHev2]; intros; apply HR; auto; apply in_or_app; auto.
  - constructor; [apply IHev1|apply IHev2]; intros; apply HR; auto; apply in_or_app; auto.
  - constructor; [apply IHev1|apply IHev2]; intros; apply HR; auto; apply in_or_app; auto.
  - constructor. apply IHev. exact HR.
  - econstructor.
    + apply IHev1. intros; apply HR; auto; apply in_or_app; auto.
    + apply IHev2. intros d y Hd. apply HR. apply in_or_app. right. apply in_or_app.
      destruct (x =? 0); auto.
Qed.

(** ** equivalence with the fuelled evaluator *)
Lemma sexpr_mono : forall f inp e v, sexpr f p inp e = Some v ->
  forall f', (f <= f')%nat -> sexpr f' p inp e = Some v.
Proof.
  induction f as [|f IH]; intros inp e v H f' Hle; [discriminate|].
  destruct f' as [|f']; [lia|]. assert (Hle' : (f <= f')%nat) by lia.
  cbn [sexpr] in *. destruct e.
  - exact H.
  - destruct (nkind n); try exact H. destruct (alookup p n) as [b|]; [|discriminate]. eapply IH; eauto.
  - destruct (sexpr f p inp e1) as [x|] eqn:E1; [|discriminate]. rewrite (IH _ _ _ E1 _ Hle').
    destruct (sexpr f p inp e2) as [y|] eqn:E2; [|discriminate]. rewrite (IH _ _ _ E2 _ Hle'). exact H.
  - destruct (sexpr f p inp e1) as [x|] eqn:E1; [|discriminate]. rewrite (IH _ _ _ E1 _ Hle').
    destruct (sexpr f p inp e2) as [y|] eqn:E2; [|discriminate]. rewrite (IH _ _ _ E2 _ Hle'). exact H.
  - destruct (sexpr f p inp e) as [x|] eqn:E1; [|discriminate]. rewrite (IH _ _ _ E1 _ Hle'). exact H.
  - destruct (sexpr f p inp e1) as [x|] eqn:E1; [|discriminate]. rewrite (IH _ _ _ E1 _ Hle').
    destruct (sexpr f p inp e2) as [y|] eqn:E2; [|discriminate]. rewrite (IH _ _ _ E2 _ Hle'). exact H.
  - destruct (sexpr f p inp e1) as [x|] eqn:E1; [|discriminate]. rewrite (IH _ _ _ E1 _ Hle').
    eapply IH; eauto.
  - discriminate.
Qed.

Lemma sexpr_sev : forall f inp e v, sexpr f p inp e = Some v -> sev inp e v.
Proof.
  induction f as [|f IH]; intros inp e v H; [discriminate|]. cbn [sexpr] in H. destruct e.
  - inversion H. constructor.
  - destruct (nkind n) eqn:K; try discriminate.
    + apply sev_input; assumption.
    + destruct (alookup p n) as [b|] eqn:B; [|discriminate]. eapply sev_normal; eauto.
  - destruct (sexpr f p inp e1) as [x|] eqn:E1; [|discriminate].
    destruct (sexpr f p inp e2) as [y|] eqn:E2; [|discriminate]. inversion H. constructor; auto.
  - destruct (sexpr f p inp e1) as [x|] eqn:E1; [|discriminate].
    destruct (sexpr f p inp e2) as [y|] eqn:E2; [|discriminate]. inversion H. constructor; auto.
  - destruct (sexpr f p inp e) as [x|] eqn:E1; [|discriminate]. inversion H. constructor; auto.
  - destruct (sexpr f p inp e1) as [x|] eqn:E1; [|discriminate].
    destruct (sexpr f p inp e2) as [y|] eqn:E2; [|discriminate]. inversion H. constructor; auto.
  - destruct (sexpr f p inp e1) as [x|] eqn:E1; [|discriminate]. econstructor; eauto.
  - discriminate.
Qed.

Lemma sev_sexpr : forall inp e v, sev inp e v -> exists f, sexpr f p inp e = Some v.
Proof.
  intros inp e v H. induction H.
  - exists 1%nat. reflexivity.
  - exists 1%nat. cbn [sexpr]. rewrite H. exact H0.
  - destruct IHsev as [f Hf]. exists (S f). cbn [sexpr]. rewrite H, H0. exact Hf.
  - destruct IHsev1 as [f1 H1]. destruct IHsev2 as [f2 H2]. exists (S (f1 + f2)). cbn [sexpr].
    rewrite (sexpr_mono _ _ _ _ H1 (f1 + f2)%nat), (sexpr_mono _ _ _ _ H2 (f1 + f2)%nat) by lia. reflexivity.
  - destruct IHsev1 as [f1 H1]. destruct IHsev2 as [f2 H2]. exists (S (f1 + f2)). cbn [sexpr].
    rewrite (sexpr_mono _ _ _ _ H1 (f1 + f2)%nat), (sexpr_mono _ _ _ _ H2 (f1 + f2)%nat) by lia. reflexivity.
  - destruct IHsev1 as [f1 H1]. destruct IHsev2 as [f2 H2]. exists (S (f1 + f2)). cbn [sexpr].
    rewrite (sexpr_mono _ _ _ _ H1 (f1 + f2)%nat), (sexpr_mono _ _ _ _ H2 (f1 + f2)%nat) by lia. reflexivity.
  - destruct IHsev as [f1 H1]. exists (S f1). cbn [sexpr]. rewrite H1. reflexivity.
  - destruct IHsev1 as [f1 H1]. destruct IHsev2 as [f2 H2]. exists (S (f1 + f2)). cbn [sexpr].
    rewrite (sexpr_mono _ _ _ _ H1 (f1 + f2)%nat) by lia. apply (sexpr_mono _ _ _ _ H2). lia.
Qed.

Lemma Spec_SpecI : forall inp n v, Spec p inp n v <-> SpecI inp n v.
Proof.
  intros inp n v. split.
  - intros [f H]. eapply sexpr_sev; eauto.
  - intro H. apply sev_sexpr. exact H.
Qed.

Lemma SpecI_normal : forall inp n b v, nkind n = KNormal -> alookup p n = Some b -> sev inp b v -> SpecI inp n v.
Proof. intros. eapply sev_normal; eauto. Qed.
Lemma SpecI_input : forall inp n v, nkind n = KInput -> input_get inp (nidx n) = Some v -> SpecI inp n v.
Proof. intros. eapply sev_input; eauto. Qed.
Lemma SpecI_input_inv : forall inp n v, nkind n = KInput -> SpecI inp n v -> input_get inp (nidx n) = Some v.
Proof. intros inp n v K H. inversion H; subst; congruence. Qed.

(** ** the reads of the from-scratch evaluation, relationally *)
Inductive srd (inp : inputs) : expr -> node -> Prop :=
| srd_read : forall n, srd inp (ERead n) n
| srd_add_l : forall a b d, srd inp a d -> srd inp (EAdd a b) d
| srd_add_r : forall a b x d, sev inp a x -> srd inp b d -> srd inp (EAdd a b) d
| srd_mul_l : forall a b d, srd inp a d -> srd inp (EMul a b) d
| srd_mul_r : forall a b x d, sev inp a x -> srd inp b d -> srd inp (EMul a b) d
| srd_lt_l : forall a b d, srd inp a d -> srd inp (ELt a b) d
| srd_lt_r : forall a b x d, sev inp a x -> srd inp b d -> srd inp (ELt a b) d
| srd_mod : forall a m d, srd inp a d -> srd inp (EMod a m) d
| srd_if_c : forall c a b d, srd inp c d -> srd inp (EIf c a b) d
| srd_if_b : forall c a b x d, sev inp c x -> srd inp (if x =? 0 then b else a) d -> srd inp (EIf c a b) d.

Lemma srd_expr_reads : forall inp e d, srd inp e d -> In d (expr_reads e).
Proof.
  intros inp e d H. induction H; cbn [expr_reads]; try (apply in_or_app; auto; fail); auto.
  - left. reflexivity.
  - apply in_or_app. right. apply in_or_app. destruct (x =? 0); auto.
Qed.

Lemma sreads_mono : forall f inp e d, In d (sreads f p inp e) ->
  forall f', (f <= f')%nat -> In d (sreads f' p inp e).
Proof.
  induction f as [|f IH]; intros inp e d H f' Hle; [destruct H|].
  destruct f' as [|f']; [lia|]. assert (Hle' : (f <= f')%nat) by lia.
  cbn [sreads] in *. destruct e; try exact H.
  - apply in_app_or in H. apply in_or_app. destruct H as [H|H]; [left; eapply IH; eauto|right].
    destruct (sexpr f p inp e1) as [x|] eqn:E1; [|destruct H]. rewrite (sexpr_mono _ _ _ _ E1 _ Hle'). eapply IH; eauto.
  - apply in_app_or in H. apply in_or_app. destruct H as [H|H]; [left; eapply IH; eauto|right].
    destruct (sexpr f p inp e1) as [x|] eqn:E1; [|destruct H]. rewrite (sexpr_mono _ _ _ _ E1 _ Hle'). eapply IH; eauto.
  - eapply IH; eauto.
  - apply in_app_or in H. apply in_or_app. destruct H as [H|H]; [left; eapply IH; eauto|right].
    destruct (sexpr f p inp e1) as [x|] eqn:E1; [|destruct H]. rewrite (sexpr_mono _ _ _ _ E1 _ Hle'). eapply IH; eauto.
  - apply in_app_or in H. apply in_or_app. destruct H as [H|H]; [left; eapply IH; eauto|right].
    destruct (sexpr f p inp e1) as [x|] eqn:E1; [|destruct H]. rewrite (sexpr_mono _ _ _ _ E1 _ Hle'). eapply IH; eauto.
Qed.

Lemma srd_sreads : forall inp e d, srd inp e d -> exists f, In d (sreads f p inp e).
Proof.
  intros inp e d H. induction H.
  - exists 1%nat. left. reflexivity.
  - destruct IHsrd as [f Hf]. exists (S f). cbn [sreads]. apply in_or_app. auto.
  - destruct IHsrd as [f2 H2]. destruct (sev_sexpr _ _ _ H) as [f1 H1]. exists (S (f1 + f2)). cbn [sreads].
    apply in_or_app. right. rewrite (sexpr_mono _ _ _ _ H1 (f1 + f2)%nat) by lia. eapply sreads_mono; eauto. lia.
  - destruct IHsrd as [f Hf]. exists (S f). cbn [sreads]. apply in_or_app. auto.
  - destruct IHsrd as [f2 H2]. destruct (sev_sexpr _ _ _ H) as [f1 H1]. exists (S (f1 + f2)). cbn [sreads].
    apply in_or_app. right. rewrite (sexpr_mono _ _ _ _ H1 (f1 + f2)%nat) by lia. eapply sreads_mono; eauto. lia.
  - destruct IHsrd as [f Hf]. exists (S f). cbn [sreads]. apply in_or_app. auto.
  - destruct IHsrd as [f2 H2]. destruct (sev_sexpr _ _ _ H) as [f1 H1]. exists (S (f1 + f2)). cbn [sreads].
    apply in_or_app. right. rewrite (sexpr_mono _ _ _ _ H1 (f1 + f2)%nat) by lia. eapply sreads_mono; eauto. lia.
  - destruct IHsrd as [f Hf]. exists (S f). cbn [sreads]. exact Hf.
  - destruct IHsrd as [f Hf]. exists (S f). cbn [sreads]. apply in_or_app. auto.
  - destruct IHsrd as [f2 H2]. destruct (sev_sexpr _ _ _ H) as [f1 H1]. exists (S (f1 + f2)). cbn [sreads].
    apply in_or_app. right. rewrite (sexpr_mono _ _ _ _ H1 (f1 + f2)%nat) by lia. eapply sreads_mono; eauto. lia.
Qed.

Lemma srd_Reads : forall inp n b d, alookup p n = Some b -> srd inp b d -> Reads p inp n d.
Proof. intros inp n b d Hb H. destruct (srd_sreads _ _ _ H) as [f Hf]. exists f, b. auto. Qed.
End Sem.
