(** C03 "justified re-execution" on the full engine model: if a node is executed at operation i
    and its previous execution was at operation j, then some dependency it READ during the
    execution at j has a different from-scratch value at i.  The invariant of [Engine/MdlInv.v]
    records, for every node executed since the running operation started, an observation of the
    entry it had then that is no longer the from-scratch value ([mi_J]); a ghost map from nodes
    to the inputs of their last execution links the observations to the from-scratch values of
    that time. *)
From QV Require Import Common.Prelude Engine.Model Engine.Core Engine.CoreSpec Engine.CoreInvBase
  Engine.CoreInvSem Engine.Fw Engine.FwBase Engine.FwMono Engine.FwOnce Engine.FwInv Engine.FwRun
  Engine.MdlSpec Engine.MdlSem Engine.MdlBase Engine.MdlMono Engine.MdlInv Engine.MdlInvState Engine.MdlInvExec
  Engine.MdlInvClean Engine.MdlRunBase Engine.MdlRun Engine.MdlRunAux Engine.MdlRunAll Engine.MdlCommit
  Engine.MdlSound Engine.MdlOnce.
Open Scope Z_scope.

(** the dependencies the from-scratch evaluation of [m]'s body requests (data-dependent) *)
Definition MReads (p : program) (inp : inputs) (m d : node) : Prop :=
  exists e v l, alookup p m = Some e /\ evr (fun n x => MdlSpec p inp n x) e v l /\ In d l.

Definition model_justified_g_statement_f : Prop :=
  forall tord bord pord fuel pfuel p ops i j m, order_ok tord -> order_ok bord -> order_ok pord -> wf_model_g p -> Forall op_in_scope ops -> msessions_fuelled tord bord pord fuel pfuel p ops i ->
    let rs := run_history_f tord bord pord fuel pfuel p init_state ops in
    executed_at rs i m -> (j < i)%nat -> executed_at rs j m ->
    (forall k, (j < k < i)%nat -> ~ executed_at rs k m) ->
    exists d, MReads p (inputs_after (firstn (S j) ops)) m d /\
              forall v, MdlSpec p (inputs_after (firstn (S j) ops)) d v ->
                        ~ MdlSpec p (inputs_after (firstn (S i) ops)) d v.
Definition model_justified_g_statement_op : Prop :=
  forall tord bord pord p ops i j m, order_ok tord -> order_ok bord -> order_ok pord ->
    wf_model_g p -> Forall op_in_scope ops -> model_sessions_fuelled_op tord bord pord p ops i ->
    let rs := run_history_op tord bord pord p init_state ops in
    executed_at rs i m -> (j < i)%nat -> executed_at rs j m ->
    (forall k, (j < k < i)%nat -> ~ executed_at rs k m) ->
    exists d, MReads p (inputs_after (firstn (S j) ops)) m d /\
              forall v, MdlSpec p (inputs_after (firstn (S j) ops)) d v ->
                        ~ MdlSpec p (inputs_after (firstn (S i) ops)) d v.
Definition model_justified_g_statement_o : Prop :=
  forall tord bord p ops i j m, order_ok tord -> order_ok bord ->
    wf_model_g p -> Forall op_in_scope ops -> model_sessions_fuelled_o tord bord p ops i ->
    let rs := run_history_o tord bord p init_state ops in
    executed_at rs i m -> (j < i)%nat -> executed_at rs j m ->
    (forall k, (j < k < i)%nat -> ~ executed_at rs k m) ->
    exists d, MReads p (inputs_after (firstn (S j) ops)) m d /\
              forall v, MdlSpec p (inputs_after (firstn (S j) ops)) d v ->
                        ~ MdlSpec p (inputs_after (firstn (S i) ops)) d v.
Definition model_justified_g_statement : Prop :=
  forall p ops i j m, wf_model_g p -> Forall op_in_scope ops -> model_sessions_fuelled p ops i ->
    let rs := run_history p init_state ops in
    executed_at rs i m -> (j < i)%nat -> executed_at rs j m ->
    (forall k, (j < k < i)%nat -> ~ executed_at rs k m) ->
    exists d, MReads p (inputs_after (firstn (S j) ops)) m d /\
              forall v, MdlSpec p (inputs_after (firstn (S j) ops)) d v ->
                        ~ MdlSpec p (inputs_after (firstn (S i) ops)) d v.

Lemma sess_fold_stored : forall sets cur rs batch cur' rs' batch' m,
  fold_left fsess_step sets (cur, rs, batch) = (cur', rs', batch') -> get_info cur m <> None -> get_info cur' m <> None.
Proof.
  induction sets as [|[v x] r IH]; intros cur rs batch cur' rs' batch' m H Hm; cbn [fold_left] in H.
  - inversion H. subst. exact Hm.
  - rewrite fsess_step_eq in H. eapply IH; [exact H|]. rewrite set_input_get.
    destruct (node_eqb (mkNode KInput v) m); [discriminate|exact Hm].
Qed.

Definition model_justified_statement_f : Prop :=
  forall tord bord pord fuel pfuel p ops i j m, order_ok tord -> order_ok bord -> order_ok pord -> wf_model p -> Forall op_in_scope ops -> msessions_fuelled tord bord pord fuel pfuel p ops i ->
    let rs := run_history_f tord bord pord fuel pfuel p init_state ops in
    executed_at rs i m -> (j < i)%nat -> executed_at rs j m ->
    (forall k, (j < k < i)%nat -> ~ executed_at rs k m) ->
    exists d, MReads p (inputs_after (firstn (S j) ops)) m d /\
              forall v, MdlSpec p (inputs_after (firstn (S j) ops)) d v ->
                        ~ MdlSpec p (inputs_after (firstn (S i) ops)) d v.
Definition model_justified_statement : Prop :=
  forall p ops i j m, wf_model p -> Forall op_in_scope ops -> model_sessions_fuelled p ops i ->
    let rs := run_history p init_state ops in
    executed_at rs i m -> (j < i)%nat -> executed_at rs j m ->
    (forall k, (j < k < i)%nat -> ~ executed_at rs k m) ->
    exists d, MReads p (inputs_after (firstn (S j) ops)) m d /\
              forall v, MdlSpec p (inputs_after (firstn (S j) ops)) d v ->
                        ~ MdlSpec p (inputs_after (firstn (S i) ops)) d v.

Lemma leaf_or_not : forall m, leaf m \/ ~ leaf m.
Proof. intro m. unfold leaf. destruct (nkind m); try (left; auto; fail); right; intros [K|K]; discriminate. Qed.

Section Just.
Variable p : program.
Variables tord bord pord : state -> node -> list node -> list node.
Variable rk : node -> nat.
Hypothesis Hrk : forall n e d, alookup p n = Some e -> In d (expr_reads e) -> (rk d < rk n)%nat.
Hypothesis Hproj : forall n e d, alookup p n = Some e -> nkind n = KProjection -> In d (expr_reads e) ->
  is_fw_or_proj (nkind d) = true.
Hypothesis Htgt : forall n e d, alookup p n = Some e -> In d (expr_reads e) -> nkind d <> KExternal.
Hypothesis Hkeys : forall n e, alookup p n = Some e -> is_mexec_kind (nkind n) = true.
Hypothesis Htord : forall s x l y, In y (tord s x l) <-> In y l.
Hypothesis Hbord : forall s x l y, In y (bord s x l) <-> In y l.
Hypothesis Hpord : forall s x l y, In y (pord s x l) <-> In y l.
Variables fuel pfuel : nat.

(** the observations of a node verified in this epoch are from-scratch values *)
Lemma verified_obs_spec : forall sA Ex X inp s m i d x,
  MInvE p rk sA Ex X inp s -> sverified s m -> get_info s m = Some i -> obsV i d x -> MSpecI p inp d x.
Proof.
  intros sA Ex X inp s m i d x HI Hv Hi [t Ho].
  assert (Hd : In d (old_fwd s m)) by (unfold old_fwd; rewrite Hi; eapply mi_obs_fwd; eauto).
  pose proof (verified_Solid _ _ _ _ _ _ _ _ HI Hv) as [HG HR].
  destruct (HG m (tp_refl s m) d Hd) as (i0 & j & v & t0 & A & B & C & D & _).
  assert (i0 = i) by congruence. subst i0. assert (v = x) by congruence. subst v. subst x.
  destruct (fw_or_thru d) as [Kd|Kd].
  - destruct (HR d (mreach_direct _ _ _ Hd Kd)) as [j' [B' V']]. assert (j' = j) by congruence. subst j'. eapply mi_V; eauto.
  - eapply (MSolid_value p rk Hrk _ _ _ _ _ HI (S (rk d))); eauto. eapply MSolid_step; eauto. split; assumption.
Qed.

(** [L m]: the inputs at the last execution of [m] *)
Definition GInv (L : node -> menv) (inp : menv) (s : state) : Prop :=
  BInv p rk inp s /\ forall m i, get_info s m = Some i -> forall d x, obsV i d x -> MSpecI p (L m) d x.

Definition Lnext (L : node -> menv) (inp' : menv) (r : opres) : node -> menv :=
  fun m => if nmem m (r_execs r) then inp' else L m.

Lemma query_execs_inputs : forall inp n, apply_op inp (OQuery n) = inp.
Proof. reflexivity. Qed.

Lemma GInv_step : forall L s o s' r inp,
  GInv L inp s -> op_in_scope o -> step_f tord bord pord fuel pfuel p s o = (s', r) ->
  (forall sets b, o = OSession sets b -> r_out r <> RFuel) ->
  GInv (Lnext L (env_step inp s o s') r) (env_step inp s o s') s' /\
  (forall m, get_info s m <> None -> get_info s' m <> None) /\
  (forall m, In m (r_execs r) -> get_info s' m <> None).
Proof.
  intros L s o s' r inp [HB HG] Hsc H Hfuel.
  pose proof (mstep_inv p tord bord pord rk Hrk Hproj Hkeys Htord Hbord Hpord _ _ _ _ _ _ _ HB H Hfuel) as HB'.
  split; [split; [exact HB'|]|].
  - destruct o as [sets b|n|w v|].
    + (* session: the entries of the queries are not touched, nothing is executed *)
      cbn [op_in_scope] in Hsc. subst b.
      assert (Er : r_execs r = []) by (eapply step_f_session_execs; eauto).
      rewrite step_f_session in H. cbv zeta in H.
      destruct (fold_left fsess_step sets (set_ts (set_log s []) (s_ts (set_log s []) + 1)%N, [], []))
        as [[s1 rs] batch] eqn:Ef.
      destruct (propagate_o pord pfuel (set_visited (set_stat s1 0%N) []) batch) as [s4| | |] eqn:Ep;
        inversion H; subst; try (exfalso; eapply Hfuel; eauto; reflexivity).
      intros m i Hi d x Hx. unfold Lnext. cbn [r_execs] in Er |- *. rewrite Er. cbn [nmem existsb].
      destruct (kind_eqb (nkind m) KInput) eqn:Ek.
      * apply kind_eqb_eq in Ek. exfalso.
        destruct (mi_kind _ _ _ _ _ _ _ HB' m i Hi) as [(_ & _ & K & _)|(K & _)].
        -- destruct Hx as [t Hx]. rewrite K in Hx. discriminate.
        -- rewrite Ek in K. discriminate.
      * assert (Hk : nkind m <> KInput) by (intro K; apply kind_eqb_eq in K; congruence).
        destruct (leaf_or_not m) as [Kl|Kl].
        -- exfalso. destruct (mi_kind _ _ _ _ _ _ _ HB' m i Hi) as [(_ & _ & K & _)|(K & _)].
           ++ destruct Hx as [t Hx]. rewrite K in Hx. discriminate.
           ++ destruct Kl as [Kl|Kl]; rewrite Kl in K; discriminate.
        -- assert (Er2 : (if false then fold_left refresh_step (s_ext s1) (s1, batch) else (s1, batch)) = (s1, batch)) by reflexivity.
           destruct (session_MSess p rk Hrk Hproj inp s sets false s1 rs batch s1 batch s' HB Ef Er2) as [HS2 _].
           rewrite (MSess_other _ _ _ _ _ _ _ m HS2 Ep Kl) in Hi. eapply HG; eauto.
    + cbn [env_step]. unfold step_f in H. cbn [op_in_scope] in Hsc.
      destruct (query_for_o p None tord bord pord fuel [] CUser None n (set_log s [])) as [[[[o fr] ms] s1]| | |] eqn:Eq.
      * destruct (root_query p tord bord pord rk Hrk Hproj Hkeys Htord Hbord Hpord _ _ _ _ _ _ _ _ HB Eq) as [HI1 _].
        pose proof (proj1 (mmono_all p tord bord pord fuel) _ _ _ _ _ _ _ _ _ Eq) as HM.
        assert (Er : r_execs r = rev (s_log s1) /\ s' = s1) by (destruct o as [[z|]|]; inversion H; subst; auto).
        destruct Er as [Er ->]. intros m i Hi d x Hx. unfold Lnext. rewrite Er.
        destruct (nmem m (rev (s_log s1))) eqn:Em.
        -- apply nmem_In in Em. apply in_rev in Em.
           destruct (mr_log _ _ _ HM) as [new [Ln [_ P]]]. cbn [set_log s_log] in Ln. rewrite app_nil_r in Ln.
           rewrite Ln in Em. destruct (P m Em) as (_ & _ & Hv). eapply verified_obs_spec; eauto.
        -- apply nmem_false in Em. destruct (mi_O _ _ _ _ _ _ _ HI1 m i Hi) as [K|[i0 [K1 K2]]].
           ++ exfalso. apply Em. apply in_rev. rewrite rev_involutive. exact K.
           ++ eapply (HG m i0); [exact K1|]. apply K2. exact Hx.
      * inversion H. subst. intros m i Hi. unfold Lnext. cbn [r_execs nmem existsb]. apply HG. exact Hi.
      * inversion H. subst. intros m i Hi. unfold Lnext. cbn [r_execs nmem existsb]. apply HG. exact Hi.
      * inversion H. subst. intros m i Hi. unfold Lnext. cbn [r_execs nmem existsb]. apply HG. exact Hi.
    + destruct Hsc.
    + cbn in H. inversion H. subst. intros m i Hi. unfold Lnext. cbn [r_execs nmem existsb]. apply HG. exact Hi.
  - split.
    + intros m Hm. destruct o as [sets b|n|w v|].
      * cbn [op_in_scope] in Hsc. subst b. rewrite step_f_session in H. cbv zeta in H.
        destruct (fold_left fsess_step sets (set_ts (set_log s []) (s_ts (set_log s []) + 1)%N, [], []))
          as [[s1 rs] batch] eqn:Ef.
        assert (Hs1 : get_info s1 m <> None) by (eapply sess_fold_stored; [exact Ef|exact Hm]).
        destruct (propagate_o pord pfuel (set_visited (set_stat s1 0%N) []) batch) as [s4| | |] eqn:Ep;
          inversion H; subst; try exact Hs1.
        apply propagate_o_same in Ep. destruct Ep as (N1 & _). unfold get_info. rewrite N1. exact Hs1.
      * destruct (mstep_query_mono p tord bord pord fuel pfuel _ _ _ _ H) as [[-> _]|[HM _]]; [exact Hm|].
        apply (mr_stored _ _ _ HM). exact Hm.
      * destruct Hsc.
      * cbn in H. inversion H. subst. exact Hm.
    + intros m Hm. destruct (mstep_execs p tord bord pord fuel pfuel _ _ _ _ _ Hsc H Hm) as [[i [Hi Hv]] Hnv]. congruence.
Qed.

Definition XReads (env : menv) (m d : node) : Prop :=
  exists e v l, alookup p m = Some e /\ evr (MSpecI p env) e v l /\ In d l.
Lemma env_step_scope : forall env s o s', op_in_scope o -> env_step env s o s' = (apply_op (fst env) o, snd env).
Proof. intros [a b] s o s' H. destruct o as [sets r|n|w v|]; cbn in *; [subst r; reflexivity|reflexivity|destruct H|reflexivity]. Qed.

(** [m] was last executed under the inputs [I0], is not executed during the first [i] operations
    and is executed at operation [i] *)
Lemma just_later : forall ops s inp L i m I0,
  GInv L inp s -> Forall op_in_scope ops ->
  (forall k sets b rk0, (k < i)%nat -> nth_error ops k = Some (OSession sets b) ->
     nth_error (run_history_f tord bord pord fuel pfuel p s ops) k = Some rk0 -> r_out rk0 <> RFuel) ->
  get_info s m <> None -> L m = I0 ->
  (forall k, (k < i)%nat -> ~ executed_at (run_history_f tord bord pord fuel pfuel p s ops) k m) ->
  executed_at (run_history_f tord bord pord fuel pfuel p s ops) i m ->
  exists d, XReads I0 m d /\
    forall v, MSpecI p I0 d v -> ~ MSpecI p (fold_left apply_op (firstn (S i) ops) (fst inp), snd inp) d v.
Proof.
  induction ops as [|o rest IH]; intros s inp L i m I0 HGI Hsc Hfuel Hst HL Hno [r [Hr Hm]].
  - destruct i; discriminate.
  - inversion Hsc as [|o0 rest0 Hsc1 Hsc2]. subst o0 rest0.
    cbn [run_history_f] in Hr, Hfuel, Hno. destruct (step_f tord bord pord fuel pfuel p s o) as [s' x] eqn:Es.
    destruct i as [|i].
    + (* executed now *)
      cbn in Hr. inversion Hr. subst x. clear Hr. cbn [firstn fold_left].
      destruct o as [sets b|n|w v|].
      * cbn [op_in_scope] in Hsc1. subst b. rewrite (step_f_session_execs _ _ _ _ _ _ _ _ _ _ Es) in Hm. destruct Hm.
      * destruct HGI as [HB HG]. cbn [apply_op]. cbn [op_in_scope] in Hsc1. unfold step_f in Es.
        assert (Einp : (fst inp, snd inp) = inp) by (destruct inp; reflexivity). rewrite Einp.
        destruct (query_for_o p None tord bord pord fuel [] CUser None n (set_log s [])) as [[[[o fr] ms] s1]| | |] eqn:Eq;
          try (inversion Es; subst; destruct Hm).
        destruct (root_query p tord bord pord rk Hrk Hproj Hkeys Htord Hbord Hpord _ _ _ _ _ _ _ _ HB Eq) as [HI1 _].
        assert (Er : r_execs r = rev (s_log s1)) by (destruct o as [[z|]|]; inversion Es; subst; auto).
        rewrite Er in Hm. apply in_rev in Hm.
        destruct (mi_J _ _ _ _ _ _ _ HI1 m Hm) as [J|(i0 & cal & x & J1 & J2 & J3)]; [exfalso; apply Hst; exact J|].
        assert (Hi0 : get_info s m = Some i0) by exact J1.
        pose proof HB as HI.
        destruct (mi_kind _ _ _ _ _ _ _ HI m i0 Hi0) as [(_ & _ & K & _)|(_ & e & l & He & Hev & Hl)].
        { destruct J2 as [t J2]. rewrite K in J2. discriminate. }
        exists cal. split.
        -- exists e, (i_value i0), l. split; [exact He|]. split.
           ++ eapply evr_mono; [exact Hev|]. intros d y _ Hy. rewrite <- HL. exact (HG m i0 Hi0 d y Hy).
           ++ apply Hl. destruct J2 as [t J2]. eapply (mi_obs_fwd _ _ _ _ _ _ _ HI m i0 cal); eauto.
        -- intros v Hv Hv2.
           assert (Hx : MSpecI p I0 cal x) by (rewrite <- HL; exact (HG m i0 Hi0 cal x J2)).
           assert (v = x) by (exact (MSpecI_det p I0 cal v x Hv Hx)). subst v. contradiction.
      * destruct Hsc1.
      * cbn in Es. inversion Es. subst. destruct Hm.
    + (* later *)
      cbn [nth_error] in Hr. cbn [firstn fold_left].
      assert (Hf0 : forall sets b, o = OSession sets b -> r_out x <> RFuel).
      { intros sets b ->. apply (Hfuel 0%nat sets b x); [lia|reflexivity|reflexivity]. }
      destruct (GInv_step L s o s' x inp HGI Hsc1 Es Hf0) as (HG' & Hst' & _).
      assert (Hnm : ~ In m (r_execs x)).
      { intro K. apply (Hno 0%nat); [lia|]. exists x. split; [reflexivity|exact K]. }
      rewrite (env_step_scope inp s o s' Hsc1) in HG'.
      change (fold_left apply_op (firstn (S i) rest) (apply_op (fst inp) o), snd inp)
        with (fold_left apply_op (firstn (S i) rest) (fst (apply_op (fst inp) o, snd inp)), snd (apply_op (fst inp) o, snd inp)).
      eapply (IH s' (apply_op (fst inp) o, snd inp) (Lnext L (apply_op (fst inp) o, snd inp) x) i m I0); eauto.
      * intros k sets b rk0 Hk Hk1 Hk2. apply (Hfuel (S k) sets b rk0); [lia|exact Hk1|exact Hk2].
      * unfold Lnext. destruct (nmem m (r_execs x)) eqn:Em; [apply nmem_In in Em; contradiction|exact HL].
      * intros k Hk [rk0 [K1 K2]]. apply (Hno (S k)); [lia|]. exists rk0. split; [exact K1|exact K2].
      * exists r. split; [exact Hr|exact Hm].
Qed.

Lemma just_main : forall ops s inp L i j m,
  GInv L inp s -> Forall op_in_scope ops ->
  (forall k sets b rk0, (k < i)%nat -> nth_error ops k = Some (OSession sets b) ->
     nth_error (run_history_f tord bord pord fuel pfuel p s ops) k = Some rk0 -> r_out rk0 <> RFuel) ->
  executed_at (run_history_f tord bord pord fuel pfuel p s ops) i m -> (j < i)%nat ->
  executed_at (run_history_f tord bord pord fuel pfuel p s ops) j m ->
  (forall k, (j < k < i)%nat -> ~ executed_at (run_history_f tord bord pord fuel pfuel p s ops) k m) ->
  exists d, XReads (fold_left apply_op (firstn (S j) ops) (fst inp), snd inp) m d /\
    forall v, MSpecI p (fold_left apply_op (firstn (S j) ops) (fst inp), snd inp) d v ->
              ~ MSpecI p (fold_left apply_op (firstn (S i) ops) (fst inp), snd inp) d v.
Proof.
  induction ops as [|o rest IH]; intros s inp L i j m HGI Hsc Hfuel Hi Hji Hj Hno.
  - destruct Hj as [r [Hr _]]. destruct j; discriminate.
  - inversion Hsc as [|o0 rest0 Hsc1 Hsc2]. subst o0 rest0.
    destruct Hi as [ri [Hri Hmi]]. destruct Hj as [rj [Hrj Hmj]].
    cbn [run_history_f] in Hri, Hrj, Hfuel, Hno. destruct (step_f tord bord pord fuel pfuel p s o) as [s' x] eqn:Es.
    destruct i as [|i]; [lia|]. cbn [nth_error] in Hri.
    assert (Hf0 : forall sets b, o = OSession sets b -> r_out x <> RFuel).
    { intros sets b ->. apply (Hfuel 0%nat sets b x); [lia|reflexivity|reflexivity]. }
    destruct (GInv_step L s o s' x inp HGI Hsc1 Es Hf0) as (HG' & Hst' & Hex').
    rewrite (env_step_scope inp s o s' Hsc1) in HG'.
    set (inp1 := (apply_op (fst inp) o, snd inp)) in *.
    assert (Hfuel' : forall k sets b rk0, (k < i)%nat -> nth_error rest k = Some (OSession sets b) ->
              nth_error (run_history_f tord bord pord fuel pfuel p s' rest) k = Some rk0 -> r_out rk0 <> RFuel).
    { intros k sets b rk0 Hk Hk1 Hk2. apply (Hfuel (S k) sets b rk0); [lia|exact Hk1|exact Hk2]. }
    cbn [firstn fold_left].
    change (fold_left apply_op (firstn i rest) (apply_op (fst inp) o), snd inp)
      with (fold_left apply_op (firstn i rest) (fst inp1), snd inp1).
    destruct j as [|j].
    + cbn in Hrj. inversion Hrj. subst x. clear Hrj. cbn [firstn fold_left].
      change (apply_op (fst inp) o, snd inp) with inp1.
      destruct i as [|i].
      * (* executed in the next operation already *)
        eapply (just_later rest s' inp1 (Lnext L inp1 rj) 0%nat m inp1); eauto.
        -- unfold Lnext. destruct (nmem m (r_execs rj)) eqn:Em; [reflexivity|]. apply nmem_false in Em. contradiction.
        -- intros k Hk. lia.
        -- exists ri. auto.
      * eapply (just_later rest s' inp1 (Lnext L inp1 rj) (S i) m inp1); eauto.
        -- unfold Lnext. destruct (nmem m (r_execs rj)) eqn:Em; [reflexivity|]. apply nmem_false in Em. contradiction.
        -- intros k Hk [rk0 [K1 K2]]. apply (Hno (S k)); [lia|]. exists rk0. split; [exact K1|exact K2].
        -- exists ri. auto.
    + cbn [nth_error] in Hrj.
      change (fold_left apply_op (firstn (S j) rest) (apply_op (fst inp) o), snd inp)
        with (fold_left apply_op (firstn (S j) rest) (fst inp1), snd inp1).
      destruct i as [|i]; [lia|].
      eapply (IH s' inp1 (Lnext L inp1 x) (S i) j m); eauto.
      * exists ri. auto.
      * lia.
      * exists rj. auto.
      * intros k Hk [rk0 [K1 K2]]. apply (Hno (S k)); [lia|]. exists rk0. split; [exact K1|exact K2].
Qed.

(** without external inputs the from-scratch values do not depend on the external part *)
Lemma XReads_MReads : forall inp xe m d, XReads (inp, xe) m d -> MReads p inp m d.
Proof.
  intros inp xe m d (e & v & l & He & Hev & Hd). exists e, v, l. split; [exact He|]. split; [|exact Hd].
  eapply evr_mono; [exact Hev|]. intros y x Hy Hx. apply MdlSpec_MSpecI.
  apply (msev_noext p (inp, xe) no_ext Htgt (ERead y) x Hx). intros d0 [<-|[]].
  eapply Htgt; eauto. eapply evr_reads; eauto.
Qed.
End Just.

Lemma GInv_init : forall p rk, GInv p rk (fun _ => init_env) init_env init_state.
Proof. intros p rk. split; [apply (MInv_init p rk noE)|]. intros m i Hi. discriminate. Qed.

Theorem model_justified_g_f : model_justified_g_statement_f.
Proof.
  intros tord bord pord fuel pfuel p ops i j m Ht Hb Hp Hwf Hsc Hfuel. cbv zeta. intros Hi Hji Hj Hno.
  destruct (wf_model_x_facts p (wf_model_x_of p Hwf)) as (rk & Hrk & Hproj & Hkeys).
  pose proof (wf_model_g_noext p Hwf) as Htgt.
  destruct (just_main p tord bord pord rk Hrk Hproj Htgt Hkeys (order_ok_In _ Ht) (order_ok_In _ Hb) (order_ok_In _ Hp) fuel pfuel ops init_state init_env (fun _ => init_env) i j m
              (GInv_init p rk) Hsc Hfuel Hi Hji Hj Hno) as (d & HR & Hne).
  unfold inputs_after. cbn [fst snd init_env] in HR, Hne.
  exists d. split; [eapply XReads_MReads; eauto|].
  assert (Hdk : nkind d <> KExternal).
  { destruct HR as (e & v & l & He & Hev & Hd). eapply Htgt; eauto. eapply evr_reads; eauto. }
  intros v Hv Hv2. apply MdlSpec_MSpecI in Hv. apply MdlSpec_MSpecI in Hv2.
  eapply (Hne v).
  - apply (msev_noext p _ _ Htgt (ERead d) v Hv). intros d0 [<-|[]]. exact Hdk.
  - apply (msev_noext p _ _ Htgt (ERead d) v Hv2). intros d0 [<-|[]]. exact Hdk.
Qed.

Theorem model_justified_g_op : model_justified_g_statement_op.
Proof.
  intros tord bord pord p ops i j m Ht Hb Hp Hwf Hsc Hfuel. cbv zeta. rewrite run_history_op_is_f. intros Hi Hji Hj Hno.
  eapply (model_justified_g_f tord bord pord fuel0 4000%nat); eauto.
  intros k sets b rk0 Hk Hk1 Hk2. rewrite <- run_history_op_is_f in Hk2. eapply Hfuel; eauto.
Qed.
Theorem model_justified_g_o : model_justified_g_statement_o.
Proof.
  intros tord bord p ops i j m Ht Hb Hwf Hsc Hfuel.
  exact (model_justified_g_op tord bord ord_id p ops i j m Ht Hb ord_id_ok Hwf Hsc Hfuel).
Qed.
Theorem model_justified_g : model_justified_g_statement.
Proof.
  intros p ops i j m Hwf Hsc Hfuel.
  exact (model_justified_g_o ord_id ord_id p ops i j m ord_id_ok ord_id_ok Hwf Hsc Hfuel).
Qed.

Theorem model_justified_f : model_justified_statement_f.
Proof. intros tord bord pord fuel pfuel p ops i j m Ht Hb Hp Hwf. apply model_justified_g_f; auto. apply wf_model_g_of. exact Hwf. Qed.
Theorem model_justified : model_justified_statement.
Proof. intros p ops i j m Hwf. apply model_justified_g. apply wf_model_g_of. exact Hwf. Qed.

Print Assumptions model_justified_g_f.
Print Assumptions model_justified_g_op.
Print Assumptions model_justified_g_o.
Print Assumptions model_justified_g.
Print Assumptions model_justified_f.
Print Assumptions model_justified.
