(** Unfolding equations for the mutual functions of [Engine/Core.v] and the unconditional
    monotonicity facts of one request: the timestamp is constant, nodes verified in this
    epoch keep their entry, nodes on the computing stack are not touched, every logged
    (= executed) node was not verified before and is verified afterwards, no node is logged
    twice.  These hold for every program (no well-formedness, no invariant) and give the
    "at most once" half of C03. *)
From QV Require Import Common.Prelude Engine.Model Engine.Core Engine.CoreInvBase.
Open Scope Z_scope.

Section Unfold.
Variable p : program.

(** the repair walk of [crepair], as a named function *)
Section Walk.
Variables (f : nat) (n : node) (stk : list node) (pedantic : bool) (i : cinfo).
Fixpoint cwalk (cs : list node) (cleaned : list node) (fr : cframe) (s : cstate)
  : res (bool * list node * cstate) :=
  match cs with
  | [] => Ok (false, cleaned, s)
  | cal :: r =>
      let dt := emem (n, cal) (cs_dirty s) in
      if negb dt && negb pedantic then cwalk r cleaned fr s
      else
        let* (fr1, s1) :=
          if kind_eqb (nkind cal) KInput then Ok (fr, s)
          else
            let* (_, fr', s') := cquery p f (n :: stk) (CCRepair n pedantic) (Some fr) cal s in
            Ok (match fr' with Some x => x | None => fr end, s') in
        match cget s1 cal, alookup (c_obs i) cal with
        | Some ci, Some ov =>
            if negb (c_value ci =? ov) then Ok (true, cleaned, s1)
            else cwalk r (if dt then cleaned ++ [cal] else cleaned) fr1 s1
        | _, _ => Panic 2
        end
  end.
End Walk.

Definition cc_pedantic (c : ccaller) : bool :=
  match c with CCRead _ pd _ | CCRepair _ pd => pd | CCUser => false end.
Definition cq_caller (c : ccaller) (n : node) : ccaller :=
  match c with
  | CCRead b false prev => if nmem n prev then c else CCRead b true prev
  | _ => c end.
Definition cq_frame (c : ccaller) (fr : option cframe) (n : node) : option cframe :=
  match c, fr with
  | (CCRead _ _ _ | CCRepair _ _), Some x => Some (cregister x n)
  | _, _ => fr end.
Definition cq_result (c : ccaller) (fr1 : option cframe) (n : node) (s1 : cstate)
  : res (cout * option cframe * cstate) :=
  match cget s1 n with
  | None => Panic 2
  | Some i =>
      match c, fr1 with
      | CCRead _ _ _, Some x => Ok (CValue (c_value i), Some (aset x n (Some (c_value i))), s1)
      | CCRepair _ _, _ => Ok (CNoValue, fr1, s1)
      | _, _ => Ok (CValue (c_value i), fr1, s1)
      end
  end.

Lemma cquery_S : forall f stk c fr n s,
  cquery p (S f) stk c fr n s =
  let c' := cq_caller c n in
  let fr1 := cq_frame c' fr n in
  if nmem n stk then Ok (CCyclic, fr1, s)
  else
    let* s1 :=
      match cget s n with
      | None => cexecute p f stk c' n false s
      | Some i => if (c_verified i =? cs_ts s)%N then Ok s else crepair p f stk c' n s
      end in
    cq_result c' fr1 n s1.
Proof. reflexivity. Qed.

Lemma cexecute_S : forall f stk c n rc s,
  cexecute p (S f) stk c n rc s =
  let prev := match cget s n with Some i => c_fwd i | None => [] end in
  let s0 := cset_log s (n :: cs_log s) in
  match nkind n, alookup p n with
  | KNormal, Some e =>
      let* (out, fr1, s1) := ceval p f (n :: stk) (CCRead n (cc_pedantic c) prev) e [] s0 in
      let v := match out with CEVal z => z | CEUnwind => scc_default KNormal end in
      Ok (cset_computed s1 n v fr1 rc)
  | _, _ => Panic 4
  end.
Proof. reflexivity. Qed.

Definition cbin (f : nat) (stk : list node) (me : ccaller) (a b : expr) (op : Z -> Z -> Z)
  (fr : cframe) (s : cstate) : res (ceout * cframe * cstate) :=
  let* (x, fr1, s1) := ceval p f stk me a fr s in
  match x with
  | CEUnwind => Ok (CEUnwind, fr1, s1)
  | CEVal xv =>
      let* (y, fr2, s2) := ceval p f stk me b fr1 s1 in
      match y with
      | CEUnwind => Ok (CEUnwind, fr2, s2)
      | CEVal yv => Ok (CEVal (op xv yv), fr2, s2)
      end
  end.

Lemma ceval_S : forall f stk me e fr s,
  ceval p (S f) stk me e fr s =
  match e with
  | EConst z => Ok (CEVal z, fr, s)
  | ERead n =>
      let* (o, fr', s') := cquery p f stk me (Some fr) n s in
      let fr'' := match fr' with Some x => x | None => fr end in
      match o with CValue z => Ok (CEVal z, fr'', s') | _ => Ok (CEUnwind, fr'', s') end
  | EAdd a b => cbin f stk me a b Z.add fr s
  | EMul a b => cbin f stk me a b Z.mul fr s
  | ELt a b => cbin f stk me a b (fun x y => if x <? y then 1 else 0) fr s
  | EMod a m =>
      let* (x, fr1, s1) := ceval p f stk me a fr s in
      match x with CEUnwind => Ok (CEUnwind, fr1, s1) | CEVal xv => Ok (CEVal (xv mod m), fr1, s1) end
  | EIf c a b =>
      let* (x, fr1, s1) := ceval p f stk me c fr s in
      match x with
      | CEUnwind => Ok (CEUnwind, fr1, s1)
      | CEVal xv => ceval p f stk me (if xv =? 0 then b else a) fr1 s1
      end
  | EGroup _ => Panic 6
  end.
Proof. intros. destruct e; reflexivity. Qed.

Lemma crepair_S : forall f stk c n s,
  crepair p (S f) stk c n s =
  match cget s n with
  | None => Panic 2
  | Some i =>
      let* (recompute, cleaned, s1) := cwalk f n stk (cc_pedantic c) i (c_fwd i) [] [] s in
      if recompute then cexecute p f stk c n true s1 else Ok (cclean s1 n cleaned)
  end.
Proof. reflexivity. Qed.

Lemma cq_result_state : forall c fr1 n s1 o fr' s',
  cq_result c fr1 n s1 = Ok (o, fr', s') -> s' = s1.
Proof.
  intros c fr1 n s1 o fr' s' H. unfold cq_result in H.
  destruct (cget s1 n); [|discriminate]. destruct c; destruct fr1; inversion H; reflexivity.
Qed.

(** * monotonicity of one call *)
Record MonoR (stk : list node) (s s' : cstate) : Prop := {
  mr_ts : cs_ts s' = cs_ts s;
  mr_ver : forall m i, cget s m = Some i -> c_verified i = cs_ts s -> cget s' m = Some i;
  mr_stk : forall m, In m stk -> cget s' m = cget s m /\ forall x, dirty s' m x <-> dirty s m x;
  mr_info : forall m i, cget s m = Some i ->
     exists i', cget s' m = Some i' /\
       ((c_fwd i' = c_fwd i /\ c_obs i' = c_obs i) \/ In m (cs_log s'));
  mr_unch : forall m, cget s' m = cget s m \/ verified s' m;
  mr_dirty : forall a b, dirty s' a b -> dirty s a b;
  mr_log : exists new, cs_log s' = new ++ cs_log s /\ NoDup new /\
             forall m, In m new -> ~ In m stk /\ ~ verified s m /\ verified s' m;
}.

Lemma MonoR_refl : forall stk s, MonoR stk s s.
Proof.
  intros stk s. split; auto.
  - intros; split; [reflexivity|tauto].
  - intros m i Hi. exists i. auto.
  - exists []. split; [reflexivity|]. split; [constructor|]. intros m [].
Qed.

Lemma mr_stored : forall stk s s', MonoR stk s s' -> forall m, cget s m <> None -> cget s' m <> None.
Proof.
  intros stk s s' H m Hm. destruct (cget s m) as [i|] eqn:Ei; [|congruence].
  destruct (mr_info _ _ _ H m i Ei) as [i' [Hi' _]]. congruence.
Qed.

Lemma verified_mono : forall stk s s' m, MonoR stk s s' -> verified s m -> verified s' m.
Proof.
  intros stk s s' m H [i [Hi Hv]]. exists i. split.
  - eapply mr_ver; eauto.
  - rewrite (mr_ts _ _ _ H). exact Hv.
Qed.

Lemma MonoR_trans : forall stk s s1 s2, MonoR stk s s1 -> MonoR stk s1 s2 -> MonoR stk s s2.
Proof.
  intros stk s s1 s2 H1 H2. split.
  - rewrite (mr_ts _ _ _ H2). apply (mr_ts _ _ _ H1).
  - intros m i Hi Hv. eapply (mr_ver _ _ _ H2).
    + eapply (mr_ver _ _ _ H1); eauto.
    + rewrite (mr_ts _ _ _ H1). exact Hv.
  - intros m Hm. destruct (mr_stk _ _ _ H1 m Hm) as [A1 B1]. destruct (mr_stk _ _ _ H2 m Hm) as [A2 B2].
    split; [congruence|]. intro x. rewrite B2. apply B1.
  - intros m i Hi. destruct (mr_info _ _ _ H1 m i Hi) as [i1 [Hi1 K1]].
    destruct (mr_info _ _ _ H2 m i1 Hi1) as [i2 [Hi2 K2]]. exists i2. split; [exact Hi2|].
    destruct K2 as [[A2 B2]|K2]; [|right; exact K2]. destruct K1 as [[A1 B1]|K1].
    + left. split; congruence.
    + right. destruct (mr_log _ _ _ H2) as [n2 [L2 _]]. rewrite L2. apply in_or_app. right. exact K1.
  - intro m. destruct (mr_unch _ _ _ H2 m) as [E2|V2]; [|right; exact V2].
    destruct (mr_unch _ _ _ H1 m) as [E1|V1]; [left; congruence|].
    right. eapply verified_mono; eauto.
  - intros a b H. apply (mr_dirty _ _ _ H1). apply (mr_dirty _ _ _ H2). exact H.
  - destruct (mr_log _ _ _ H1) as [n1 [L1 [N1 P1]]]. destruct (mr_log _ _ _ H2) as [n2 [L2 [N2 P2]]].
    exists (n2 ++ n1). split; [rewrite L2, L1, app_assoc; reflexivity|]. split.
    + apply NoDup_app_intro; auto. intros m Hm2 Hm1.
      destruct (P2 m Hm2) as (_ & Hnv & _). destruct (P1 m Hm1) as (_ & _ & Hv). contradiction.
    + intros m Hm. apply in_app_or in Hm. destruct Hm as [Hm|Hm].
      * destruct (P2 m Hm) as (A & B & C). split; [exact A|]. split; [|exact C].
        intro Hv. apply B. eapply verified_mono; eauto.
      * destruct (P1 m Hm) as (A & B & C). split; [exact A|]. split; [exact B|].
        eapply verified_mono; eauto.
Qed.
End Unfold.

Lemma MonoR_weaken : forall n stk s s', MonoR (n :: stk) s s' -> MonoR stk s s'.
Proof.
  intros n stk s s' H. destruct H as [A B C D E F G]. split; auto.
  - intros m Hm. apply C. right. exact Hm.
  - destruct G as [new [L [N P]]]. exists new. split; [exact L|]. split; [exact N|].
    intros m Hm. destruct (P m Hm) as (X & Y & Z). split; [|auto]. intro K. apply X. right. exact K.
Qed.

Lemma verified_cset_log : forall s l m, verified (cset_log s l) m <-> verified s m.
Proof. intros. reflexivity. Qed.

Lemma MonoR_exec : forall stk s n s1 v fr rc,
  MonoR (n :: stk) (cset_log s (n :: cs_log s)) s1 ->
  ~ In n stk -> ~ verified s n ->
  MonoR stk s (cset_computed s1 n v fr rc).
Proof.
  intros stk s n s1 v fr rc H Hn Hnv. destruct H as [A B C D E F G].
  cbn [cset_log cs_ts cs_log] in A, G.
  assert (Ats : cs_ts (cset_computed s1 n v fr rc) = cs_ts s) by (rewrite cset_computed_ts; exact A).
  split.
  - exact Ats.
  - intros m i Hi Hv. rewrite cset_computed_cget. destruct (node_eqb_spec n m) as [->|Hne].
    + exfalso. apply Hnv. exists i. auto.
    + apply B; assumption.
  - intros m Hm. assert (Hne : n <> m) by (intro; subst; contradiction).
    destruct (C m (or_intror Hm)) as [C1 C2]. split.
    + rewrite cset_computed_cget. apply node_eqb_neq in Hne. rewrite Hne. exact C1.
    + intro x. rewrite cset_computed_dirty. rewrite C2. split; [tauto|].
      intro K. split; [exact K|]. intros (_ & K1 & _). congruence.
  - intros m i Hi. rewrite cset_computed_cget, cset_computed_log. destruct (node_eqb_spec n m) as [<-|Hne].
    + eexists. split; [reflexivity|]. right. destruct G as [new [L _]]. rewrite L.
      apply in_or_app. right. left. reflexivity.
    + apply (D m i). exact Hi.
  - intro m. destruct (node_eqb_spec n m) as [<-|Hne].
    + right. eexists. rewrite cset_computed_cget, node_eqb_refl. split; [reflexivity|].
      cbn [c_verified]. rewrite Ats. auto.
    + destruct (E m) as [E1|[i [E1 E2]]].
      * left. rewrite cset_computed_cget. apply node_eqb_neq in Hne. rewrite Hne. exact E1.
      * right. exists i. rewrite cset_computed_cget. apply node_eqb_neq in Hne. rewrite Hne.
        split; [exact E1|]. rewrite cset_computed_ts. exact E2.
  - intros a b K. apply cset_computed_dirty in K. apply F. tauto.
  - destruct G as [new [L [N P]]]. exists (new ++ [n]). split.
    + rewrite cset_computed_log, L, <- app_assoc. reflexivity.
    + split.
      * apply NoDup_app_intro; [exact N|constructor; [intros []|constructor]|].
        intros x Hx [K|[]]. subst x. destruct (P n Hx) as (X & _). apply X. left. reflexivity.
      * intros m Hm. apply in_app_or in Hm. destruct Hm as [Hm|[<-|[]]].
        -- destruct (P m Hm) as (X & Y & [i [Z1 Z2]]).
           assert (Hne : n <> m) by (intro; subst; apply X; left; reflexivity).
           split; [intro K; apply X; right; exact K|]. split; [exact Y|].
           exists i. rewrite cset_computed_cget. apply node_eqb_neq in Hne. rewrite Hne.
           split; [exact Z1|]. rewrite cset_computed_ts. exact Z2.
        -- split; [exact Hn|]. split; [exact Hnv|].
           eexists. rewrite cset_computed_cget, node_eqb_refl. split; [reflexivity|].
           cbn [c_verified]. rewrite cset_computed_ts. auto.
Qed.

Lemma MonoR_clean : forall stk s n i cl,
  cget s n = Some i -> ~ In n stk -> MonoR stk s (cclean s n cl).
Proof.
  intros stk s n i cl Hi Hn. split.
  - apply cclean_ts.
  - intros m j Hj Hv. rewrite (cclean_cget _ _ _ _ _ Hi). destruct (node_eqb_spec n m) as [->|Hne].
    + rewrite Hi in Hj. inversion Hj. subst j. destruct i as [a b c d]. cbn in *. subst a. reflexivity.
    + exact Hj.
  - intros m Hm. assert (Hne : n <> m) by (intro; subst; contradiction). split.
    + rewrite (cclean_cget _ _ _ _ _ Hi). apply node_eqb_neq in Hne. rewrite Hne. reflexivity.
    + intro x. rewrite (cclean_dirty _ _ _ _ _ _ Hi). split; [tauto|]. intro K. split; [exact K|].
      intros [K1 _]. congruence.
  - intros m j Hj. rewrite (cclean_cget _ _ _ _ _ Hi). destruct (node_eqb_spec n m) as [<-|Hne].
    + eexists. split; [reflexivity|]. left. cbn [c_fwd c_obs]. assert (j = i) by congruence. subst j. auto.
    + exists j. auto.
  - intro m. rewrite (cclean_cget _ _ _ _ _ Hi). destruct (node_eqb_spec n m) as [<-|Hne].
    + right. eexists. rewrite (cclean_cget _ _ _ _ _ Hi), node_eqb_refl. split; [reflexivity|].
      cbn [c_verified]. rewrite cclean_ts. reflexivity.
    + left. reflexivity.
  - intros a b K. apply (cclean_dirty _ _ _ _ _ _ Hi) in K. tauto.
  - exists []. split; [rewrite cclean_log; reflexivity|]. split; [constructor|]. intros m [].
Qed.

Section Mono.
Variable p : program.

Definition mono_query (f : nat) : Prop :=
  forall stk c fr n s o fr' s', cquery p f stk c fr n s = Ok (o, fr', s') -> MonoR stk s s'.
Definition mono_execute (f : nat) : Prop :=
  forall stk c n rc s s', cexecute p f stk c n rc s = Ok s' ->
    ~ In n stk -> ~ verified s n -> MonoR stk s s'.
Definition mono_eval (f : nat) : Prop :=
  forall stk me e fr s o fr' s', ceval p f stk me e fr s = Ok (o, fr', s') -> MonoR stk s s'.
Definition mono_repair (f : nat) : Prop :=
  forall stk c n s s', crepair p f stk c n s = Ok s' ->
    ~ In n stk -> ~ verified s n -> MonoR stk s s'.

Lemma mono_walk : forall f n stk pd i, mono_query f ->
  forall cs cleaned fr s rc cl' s1,
    cwalk p f n stk pd i cs cleaned fr s = Ok (rc, cl', s1) -> MonoR (n :: stk) s s1.
Proof.
  intros f n stk pd i IHq. induction cs as [|cal r IH]; intros cleaned fr s rc cl' s1 H; cbn [cwalk] in H.
  - inversion H. subst. apply MonoR_refl.
  - cbv zeta in H. destruct (negb (emem (n, cal) (cs_dirty s)) && negb pd).
    + eapply IH. exact H.
    + destruct (kind_eqb (nkind cal) KInput).
      * destruct (cget s cal) as [ci|]; [|discriminate].
        destruct (alookup (c_obs i) cal) as [ov|]; [|discriminate].
        destruct (negb (c_value ci =? ov)).
        -- inversion H. subst. apply MonoR_refl.
        -- eapply IH. exact H.
      * destruct (cquery p f (n :: stk) (CCRepair n pd) (Some fr) cal s) as [[[o fr'] s']| | |] eqn:Eq;
          try discriminate.
        apply IHq in Eq.
        destruct (cget s' cal) as [ci|]; [|discriminate].
        destruct (alookup (c_obs i) cal) as [ov|]; [|discriminate].
        destruct (negb (c_value ci =? ov)).
        -- inversion H. subst. exact Eq.
        -- eapply MonoR_trans; [exact Eq|]. eapply IH. exact H.
Qed.

Lemma mono_all : forall f, mono_query f /\ mono_execute f /\ mono_eval f /\ mono_repair f.
Proof.
  induction f as [|f (IHq & IHx & IHe & IHr)].
  - split; [|split; [|split]]; red; intros;
      match goal with H : _ = Ok _ |- _ => cbn in H; discriminate H end.
  - assert (Hq : mono_query (S f)).
    { red. intros stk c fr n s o fr' s' H. rewrite cquery_S in H. cbv zeta in H.
      destruct (nmem n stk) eqn:Es.
      - inversion H. subst. apply MonoR_refl.
      - apply nmem_false in Es. destruct (cget s n) as [i|] eqn:Eg.
        + destruct (c_verified i =? cs_ts s)%N eqn:Ev.
          * apply cq_result_state in H. subst. apply MonoR_refl.
          * destruct (crepair p f stk (cq_caller c n) n s) as [s1| | |] eqn:Er; try discriminate.
            apply cq_result_state in H. subst. eapply IHr; eauto.
            intros [j [Hj1 Hj2]]. rewrite Eg in Hj1. inversion Hj1. subst j.
            apply N.eqb_neq in Ev. contradiction.
        + destruct (cexecute p f stk (cq_caller c n) n false s) as [s1| | |] eqn:Er; try discriminate.
          apply cq_result_state in H. subst. eapply IHx; eauto.
          intros [j [Hj1 Hj2]]. congruence. }
    assert (Hx : mono_execute (S f)).
    { red. intros stk c n rc s s' H Hn Hnv. rewrite cexecute_S in H. cbv zeta in H.
      destruct (nkind n); try discriminate. destruct (alookup p n) as [e|]; [|discriminate].
      match type of H with context [ceval p f ?a ?b ?c ?d ?e] =>
        destruct (ceval p f a b c d e) as [[[o fr1] s1]| | |] eqn:Ee; try discriminate end.
      inversion H. subst. apply IHe in Ee. apply MonoR_exec; assumption. }
    assert (He : mono_eval (S f)).
    { assert (Hbin : forall stk me a b op fr s o fr' s',
                cbin p f stk me a b op fr s = Ok (o, fr', s') -> MonoR stk s s').
      { intros stk me a b op fr s o fr' s' H. unfold cbin in H.
        destruct (ceval p f stk me a fr s) as [[[x fr1] s1]| | |] eqn:E1; try discriminate.
        apply IHe in E1. destruct x.
        - destruct (ceval p f stk me b fr1 s1) as [[[y fr2] s2]| | |] eqn:E2; try discriminate.
          apply IHe in E2. destruct y; inversion H; subst; eapply MonoR_trans; eauto.
        - inversion H. subst. exact E1. }
      red. intros stk me e fr s o fr' s' H. rewrite ceval_S in H. destruct e.
      - inversion H. subst. apply MonoR_refl.
      - destruct (cquery p f stk me (Some fr) n s) as [[[o1 fr1] s1]| | |] eqn:E1; try discriminate.
        apply IHq in E1. destruct o1; inversion H; subst; exact E1.
      - eapply Hbin; eauto.
      - eapply Hbin; eauto.
      - destruct (ceval p f stk me e fr s) as [[[x fr1] s1]| | |] eqn:E1; try discriminate.
        apply IHe in E1. destruct x; inversion H; subst; exact E1.
      - eapply Hbin; eauto.
      - destruct (ceval p f stk me e1 fr s) as [[[x fr1] s1]| | |] eqn:E1; try discriminate.
        apply IHe in E1. destruct x.
        + apply IHe in H. eapply MonoR_trans; eauto.
        + inversion H. subst. exact E1.
      - discriminate. }
    assert (Hr : mono_repair (S f)).
    { red. intros stk c n s s' H Hn Hnv. rewrite crepair_S in H.
      destruct (cget s n) as [i|] eqn:Eg; [|discriminate].
      destruct (cwalk p f n stk (cc_pedantic c) i (c_fwd i) [] [] s) as [[[rc cl] s1]| | |] eqn:Ew;
        try discriminate.
      apply (mono_walk _ _ _ _ _ IHq) in Ew.
      destruct (mr_stk _ _ _ Ew n (or_introl eq_refl)) as [K1 _].
      assert (Hnv1 : ~ verified s1 n).
      { intros [j [J1 J2]]. apply Hnv. exists j. rewrite <- K1. split; [exact J1|].
        rewrite <- (mr_ts _ _ _ Ew). exact J2. }
      apply MonoR_weaken in Ew. destruct rc.
      - eapply MonoR_trans; [exact Ew|]. eapply IHx; eauto.
      - inversion H. subst. eapply MonoR_trans; [exact Ew|]. eapply MonoR_clean; eauto.
        rewrite K1. exact Eg. }
    auto.
Qed.
End Mono.
