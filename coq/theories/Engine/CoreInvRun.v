(** Soundness of one request of the core engine model: from a state satisfying the
    invariant, [cquery] / [cexecute] / [ceval] / [crepair] (when they return [Ok]) keep the
    invariant, verify the queried node in this epoch and return its from-scratch value. *)
From QV Require Import Common.Prelude Engine.Model Engine.Core Engine.CoreSpec
  Engine.CoreInvBase Engine.CoreInvSem Engine.CoreInvMono Engine.CoreInvState.
Open Scope Z_scope.

Section Run.
Variable p : program.
Variable rk : node -> nat.
Hypothesis Hrk : forall n e d, alookup p n = Some e -> In d (expr_reads e) -> (rk d < rk n)%nat.

(** the condition on the computing stack, abstractly: the queried node is not on it, and it
    is kept when a node on top requests one of its syntactic reads (instances: a rank
    argument, [RStkOk] below; non-reachability, [Engine/CoreCancel.v]) *)
Variable StkOk : list node -> node -> Prop.
Hypothesis StkOk_notin : forall stk n, StkOk stk n -> ~ In n stk.
Hypothesis StkOk_push : forall stk n e d,
  StkOk stk n -> alookup p n = Some e -> In d (expr_reads e) -> StkOk (n :: stk) d.

Definition is_read (me : ccaller) : Prop := exists b pd prev, me = CCRead b pd prev.

Definition sound_query (f : nat) : Prop :=
  forall inp stk c fr n s o fr' s',
    CInv p inp s -> StkOk stk n -> cquery p f stk c fr n s = Ok (o, fr', s') ->
    CInv p inp s' /\ exists i, cget s' n = Some i /\ c_verified i = cs_ts s' /\
      (match c with CCRepair _ _ => True | _ => o = CValue (c_value i) end) /\
      (forall b pd prev x, c = CCRead b pd prev -> fr = Some x ->
         fr' = Some (aset (cregister x n) n (Some (c_value i)))).
Definition sound_execute (f : nat) : Prop :=
  forall inp stk c n rc s s',
    CInv p inp s -> StkOk stk n -> (rc = true \/ cget s n = None) ->
    cexecute p f stk c n rc s = Ok s' -> CInv p inp s' /\ verified s' n.
Definition sound_eval (f : nat) : Prop :=
  forall inp stk me e fr s o fr' s',
    CInv p inp s -> (forall d, In d (expr_reads e) -> StkOk stk d) -> FrOk s fr -> is_read me ->
    ceval p f stk me e fr s = Ok (o, fr', s') ->
    CInv p inp s' /\ FrOk s' fr' /\ (forall d x, frR fr d x -> frR fr' d x) /\
    (forall d, In d (map fst fr') -> In d (map fst fr) \/ srd p inp e d) /\
    exists z, o = CEVal z /\ ev (frR fr') e z.
Definition sound_repair (f : nat) : Prop :=
  forall inp stk c n s s',
    CInv p inp s -> StkOk stk n -> crepair p f stk c n s = Ok s' -> CInv p inp s' /\ verified s' n.

Lemma cq_result_spec : forall c fr n s1 i o fr' s',
  cget s1 n = Some i ->
  cq_result (cq_caller c n) (cq_frame (cq_caller c n) fr n) n s1 = Ok (o, fr', s') ->
  s' = s1 /\ (match c with CCRepair _ _ => True | _ => o = CValue (c_value i) end) /\
  (forall b pd prev x, c = CCRead b pd prev -> fr = Some x ->
     fr' = Some (aset (cregister x n) n (Some (c_value i)))).
Proof.
  intros c fr n s1 i o fr' s' Hi H. unfold cq_result in H. rewrite Hi in H.
  destruct c as [|b pd prev|b pd].
  - cbn in H. destruct fr; inversion H; subst; (split; [reflexivity|split; [reflexivity|]]);
      intros; discriminate.
  - assert (E : exists pd', cq_caller (CCRead b pd prev) n = CCRead b pd' prev).
    { cbn. destruct pd; [eauto|]. destruct (nmem n prev); eauto. }
    destruct E as [pd' E]. rewrite E in H. cbn in H. destruct fr as [x|]; inversion H; subst.
    + split; [reflexivity|split; [reflexivity|]]. intros b0 pd0 prev0 x0 E1 E2. inversion E2. reflexivity.
    + split; [reflexivity|split; [reflexivity|]]. intros; discriminate.
  - cbn in H. inversion H; subst. split; [reflexivity|split; [exact I|]]. intros; discriminate.
Qed.

Lemma FrOk_mono : forall stk s s' fr, MonoR stk s s' -> FrOk s fr -> FrOk s' fr.
Proof.
  intros stk s s' fr HM H d Hd. destruct (H d Hd) as [x [i (A & B & C & D)]].
  exists x, i. split; [exact A|]. split; [eapply mr_ver; eauto|]. split; [|exact D].
  rewrite (mr_ts _ _ _ HM). exact C.
Qed.

(** the repair walk *)
Definition walk_pre (inp : inputs) (n : node) (i : cinfo) (cs cleaned : list node) (s : cstate) : Prop :=
  (forall d, In d cleaned -> In d (c_fwd i) /\ (forall x, ~ dirty s d x) /\
       exists v, alookup (c_obs i) d = Some v /\ SpecI p inp d v) /\
  (forall d, dirty s n d -> In d cleaned \/ In d cs).

Definition walk_why (inp : inputs) (i : cinfo) : Prop :=
  exists d ov v, In d (c_fwd i) /\ alookup (c_obs i) d = Some ov /\ SpecI p inp d v /\ v <> ov.

Lemma sound_walk : forall f inp n stk pd i, sound_query f ->
  StkOk stk n ->
  forall cs cleaned fr s rc cl' s1,
    CInv p inp s -> cget s n = Some i -> (forall d, In d cs -> In d (c_fwd i)) ->
    walk_pre inp n i cs cleaned s ->
    cwalk p f n stk pd i cs cleaned fr s = Ok (rc, cl', s1) ->
    CInv p inp s1 /\ cget s1 n = Some i /\ (rc = false -> walk_pre inp n i [] cl' s1) /\
    (rc = true -> walk_why inp i).
Proof.
  intros f inp n stk pd i IHq Hstk.
  induction cs as [|cal r IH]; intros cleaned fr s rc cl' s1 HI Hi Hsub [Hcl Hdirty] H; cbn [cwalk] in H.
  - inversion H. subst. split; [exact HI|]. split; [exact Hi|]. split; [|discriminate]. intros _. split; assumption.
  - cbv zeta in H.
    assert (Hcal : In cal (c_fwd i)) by (apply Hsub; left; reflexivity).
    assert (Hsub' : forall d, In d r -> In d (c_fwd i)) by (intros; apply Hsub; right; assumption).
    remember (emem (n, cal) (cs_dirty s)) as dt eqn:Edt. symmetry in Edt.
    assert (Hdt : dt = false -> ~ dirty s n cal) by (intro K; subst dt; apply emem_false; exact K).
    destruct (negb dt && negb pd) eqn:Eskip.
    + apply andb_true_iff in Eskip. destruct Eskip as [Eskip _]. apply negb_true_iff in Eskip.
      eapply IH; eauto. split; [exact Hcl|].
      intros d K. destruct (Hdirty d K) as [K1|[<-|K1]]; auto. exfalso. apply (Hdt Eskip). exact K.
    + clear Eskip.
      assert (Hstep : forall s0 fr0 ci ov,
                CInv p inp s0 -> cget s0 n = Some i -> (forall a b, dirty s0 a b -> dirty s a b) ->
                cget s0 cal = Some ci -> alookup (c_obs i) cal = Some ov ->
                (forall x, ~ dirty s0 cal x) -> SpecI p inp cal (c_value ci) ->
                (if negb (c_value ci =? ov) then Ok (true, cleaned, s0)
                 else cwalk p f n stk pd i r (if dt then cleaned ++ [cal] else cleaned) fr0 s0) = Ok (rc, cl', s1) ->
                CInv p inp s1 /\ cget s1 n = Some i /\ (rc = false -> walk_pre inp n i [] cl' s1) /\
                (rc = true -> walk_why inp i)).
      { intros s0 fr0 ci ov HI0 Hi0 Hsh Hci Hov Hnd Hsp H0.
        destruct (c_value ci =? ov) eqn:Ev; cbn [negb] in H0.
        - apply Z.eqb_eq in Ev. eapply IH; eauto. split.
          + intros d Hd.
            assert (Hd' : In d cleaned \/ (dt = true /\ d = cal)).
            { destruct dt; [|auto]. apply in_app_or in Hd. destruct Hd as [Hd|[<-|[]]]; auto. }
            destruct Hd' as [Hd'|[_ ->]].
            * destruct (Hcl d Hd') as (A & B & C). split; [exact A|]. split; [|exact C].
              intros x K. apply (B x). apply Hsh. exact K.
            * split; [exact Hcal|]. split; [exact Hnd|]. exists ov. split; [exact Hov|]. rewrite <- Ev. exact Hsp.
          + intros d K. apply Hsh in K. destruct (Hdirty d K) as [K1|[<-|K1]].
            * left. destruct dt; [apply in_or_app|]; auto.
            * left. destruct dt; [apply in_or_app; right; left; reflexivity|]. exfalso. apply Hdt; auto.
            * right. exact K1.
        - inversion H0. subst. split; [exact HI0|]. split; [exact Hi0|]. split; [discriminate|]. intros _.
          exists cal, ov, (c_value ci). split; [exact Hcal|]. split; [exact Hov|]. split; [exact Hsp|].
          apply Z.eqb_neq. exact Ev. }
      destruct (kind_eqb (nkind cal) KInput) eqn:Ek.
      * apply kind_eqb_eq in Ek.
        destruct (cget s cal) as [ci|] eqn:Eci; [|discriminate].
        destruct (alookup (c_obs i) cal) as [ov|] eqn:Eov; [|discriminate].
        destruct (ci_kind _ _ _ HI cal ci Eci) as [(K1 & K2 & K3)|[K1 _]]; [|congruence].
        eapply (Hstep s fr ci ov); eauto.
        -- intros x K. destruct (ci_dirty_edge _ _ _ HI _ _ K) as [j [Hj Hxj]].
           assert (j = ci) by congruence. subst j. rewrite K2 in Hxj. destruct Hxj.
        -- apply SpecI_input; assumption.
      * destruct (cquery p f (n :: stk) (CCRepair n pd) (Some fr) cal s) as [[[o fr'] s']| | |] eqn:Eq;
          try discriminate.
        assert (HM : MonoR (n :: stk) s s') by (eapply (proj1 (mono_all p f)); eauto).
        assert (Hrkc : StkOk (n :: stk) cal).
        { destruct (ci_kind _ _ _ HI n i Hi) as [(_ & K2 & _)|[_ [e [He [_ Hr]]]]].
          - rewrite K2 in Hcal. destruct Hcal.
          - eapply StkOk_push; eauto. }
        destruct (IHq inp (n :: stk) (CCRepair n pd) (Some fr) cal s o fr' s' HI
                    Hrkc Eq) as [HI' [ci (Hci & Hv & _)]].
        rewrite Hci in H.
        destruct (alookup (c_obs i) cal) as [ov|] eqn:Eov; [|discriminate].
        destruct (mr_stk _ _ _ HM n (or_introl eq_refl)) as [Hn1 Hn2].
        eapply (Hstep s' _ ci ov); eauto.
        -- congruence.
        -- apply (mr_dirty _ _ _ HM).
        -- intros x. apply (ci_ver_clean _ _ _ HI'). exists ci. auto.
        -- eapply ci_ver_sound; eauto.
Qed.

Lemma sound_all : forall f, sound_query f /\ sound_execute f /\ sound_eval f /\ sound_repair f.
Proof.
  induction f as [|f (IHq & IHx & IHe & IHr)].
  - split; [|split; [|split]]; red; intros;
      match goal with H : _ = Ok _ |- _ => cbn in H; discriminate H end.
  - assert (Hq : sound_query (S f)).
    { red. intros inp stk c fr n s o fr' s' HI Hstk H. rewrite cquery_S in H. cbv zeta in H.
      destruct (nmem n stk) eqn:Es.
      { apply nmem_In in Es. exfalso. eapply StkOk_notin; eauto. }
      assert (Hmid : forall s1, CInv p inp s1 -> verified s1 n ->
                cq_result (cq_caller c n) (cq_frame (cq_caller c n) fr n) n s1 = Ok (o, fr', s') ->
                CInv p inp s' /\ exists i, cget s' n = Some i /\ c_verified i = cs_ts s' /\
                  (match c with CCRepair _ _ => True | _ => o = CValue (c_value i) end) /\
                  (forall b pd prev x, c = CCRead b pd prev -> fr = Some x ->
                     fr' = Some (aset (cregister x n) n (Some (c_value i))))).
      { intros s1 HI1 [i [Hi Hv]] H1. destruct (cq_result_spec _ _ _ _ _ _ _ _ Hi H1) as (-> & A & B).
        split; [exact HI1|]. exists i. auto. }
      destruct (cget s n) as [i|] eqn:Eg.
      - destruct (c_verified i =? cs_ts s)%N eqn:Ev.
        + apply N.eqb_eq in Ev. apply (Hmid s HI); [|exact H]. exists i. auto.
        + destruct (crepair p f stk (cq_caller c n) n s) as [s1| | |] eqn:Er; try discriminate.
          destruct (IHr inp stk _ n s s1 HI Hstk Er) as [HI1 Hv1]. apply (Hmid s1 HI1 Hv1 H).
      - destruct (cexecute p f stk (cq_caller c n) n false s) as [s1| | |] eqn:Er; try discriminate.
        destruct (IHx inp stk _ n false s s1 HI Hstk (or_intror Eg) Er) as [HI1 Hv1].
        apply (Hmid s1 HI1 Hv1 H). }
    assert (Hx : sound_execute (S f)).
    { red. intros inp stk c n rc s s' HI Hstk Hrc H. rewrite cexecute_S in H. cbv zeta in H.
      destruct (nkind n) eqn:Ek; try discriminate. destruct (alookup p n) as [e|] eqn:Ee; [|discriminate].
      match type of H with context [ceval p f ?a ?b ?c ?d ?e] =>
        destruct (ceval p f a b c d e) as [[[o fr1] s1]| | |] eqn:Eev; try discriminate end.
      inversion H. subst s'. clear H.
      assert (HM : MonoR (n :: stk) (cset_log s (n :: cs_log s)) s1)
        by (eapply (proj1 (proj2 (proj2 (mono_all p f)))); eauto).
      destruct (IHe inp _ _ _ _ _ _ _ _ (CInv_log p inp s (n :: cs_log s) HI)
                  (fun d Hd => StkOk_push _ _ _ _ Hstk Ee Hd)
                  (fun d (Hd : In d (map fst (@nil (node * option Z)))) => match Hd with end)
                  (ex_intro _ n (ex_intro _ _ (ex_intro _ _ eq_refl))) Eev)
        as (HI1 & Hfr & _ & Hkeys & z & -> & Hev).
      assert (Hkeys' : forall d, In d (map fst fr1) -> In d (expr_reads e)).
      { intros d Hd. destruct (Hkeys d Hd) as [[]|K]. eapply srd_expr_reads. exact K. }
      split.
      - eapply CInv_set_computed; eauto.
        + intro K. apply Hkeys' in K. specialize (Hrk _ _ _ Ee K). lia.
        + destruct Hrc as [->|Hn]; [left; reflexivity|right].
          destruct (mr_stk _ _ _ HM n (or_introl eq_refl)) as [K _]. rewrite K. exact Hn.
      - eexists. rewrite cset_computed_cget, node_eqb_refl. split; [reflexivity|].
        cbn [c_verified]. rewrite cset_computed_ts. reflexivity. }
    assert (He : sound_eval (S f)).
    { assert (Hbin : forall inp stk me a b op fr s o fr' s',
                CInv p inp s -> (forall d, In d (expr_reads a ++ expr_reads b) -> StkOk stk d) ->
                FrOk s fr -> is_read me ->
                cbin p f stk me a b op fr s = Ok (o, fr', s') ->
                CInv p inp s' /\ FrOk s' fr' /\ (forall d x, frR fr d x -> frR fr' d x) /\
                (forall d, In d (map fst fr') -> In d (map fst fr) \/ srd p inp a d \/
                     exists xa, sev p inp a xa /\ srd p inp b d) /\
                exists x y, o = CEVal (op x y) /\ ev (frR fr') a x /\ ev (frR fr') b y).
      { intros inp stk me a b op fr s o fr' s' HI Hstk Hfr Hme H. unfold cbin in H.
        destruct (ceval p f stk me a fr s) as [[[x fr1] s1]| | |] eqn:E1; try discriminate.
        destruct (IHe inp _ _ _ _ _ _ _ _ HI (fun d Hd => Hstk d (in_or_app _ _ _ (or_introl Hd))) Hfr Hme E1)
          as (HI1 & Hfr1 & Hsub1 & Hk1 & xv & -> & Hev1).
        destruct (ceval p f stk me b fr1 s1) as [[[y fr2] s2]| | |] eqn:E2; try discriminate.
        destruct (IHe inp _ _ _ _ _ _ _ _ HI1 (fun d Hd => Hstk d (in_or_app _ _ _ (or_intror Hd))) Hfr1 Hme E2)
          as (HI2 & Hfr2 & Hsub2 & Hk2 & yv & -> & Hev2).
        inversion H. subst. split; [exact HI2|]. split; [exact Hfr2|]. split; [auto|]. split.
        - intros d Hd. destruct (Hk2 d Hd) as [K|K].
          + destruct (Hk1 d K) as [K1|K1]; [left; exact K1|right; left; exact K1].
          + right. right. exists xv. split; [|exact K].
            eapply ev_sev; [exact Hev1|]. intros d0 x0 _ Hx0. eapply frR_SpecI; eauto.
        - exists xv, yv. split; [reflexivity|]. split; [|exact Hev2].
          eapply ev_mono; [exact Hev1|]. intros d x0 _ Hx0. apply Hsub2. exact Hx0. }
      red. intros inp stk me e fr s o fr' s' HI Hstk Hfr Hme H. rewrite ceval_S in H. destruct e.
      - inversion H. subst. split; [exact HI|]. split; [exact Hfr|]. split; [auto|]. split; [auto|].
        exists z. split; [reflexivity|constructor].
      - destruct (cquery p f stk me (Some fr) n s) as [[[o1 fr1] s1]| | |] eqn:E1; try discriminate.
        assert (HM : MonoR stk s s1) by (eapply (proj1 (mono_all p f)); eauto).
        destruct (IHq inp _ _ _ _ _ _ _ _ HI (Hstk n (or_introl eq_refl)) E1)
          as (HI1 & i & Hi & Hv & Ho & Hfr1).
        destruct Hme as (b & pd & prev & ->). specialize (Hfr1 b pd prev fr eq_refl eq_refl).
        subst o1 fr1. inversion H. subst o fr' s'. clear H.
        assert (Hlk : forall d, alookup (aset (cregister fr n) n (Some (c_value i))) d =
                  if node_eqb n d then Some (Some (c_value i)) else alookup fr d).
        { intro d. rewrite alookup_aset. destruct (node_eqb_spec n d) as [->|Hne]; [reflexivity|].
          rewrite cregister_lookup. apply node_eqb_neq in Hne. rewrite Hne.
          destruct (alookup fr d); reflexivity. }
        assert (Hks : forall d, In d (map fst (aset (cregister fr n) n (Some (c_value i)))) <->
                                In d (map fst fr) \/ d = n).
        { intro d. rewrite aset_keys_present by apply cregister_present. apply cregister_keys. }
        assert (Hsub : forall d x, frR fr d x -> frR (aset (cregister fr n) n (Some (c_value i))) d x).
        { intros d x Hx0. unfold frR in *. rewrite Hlk. destruct (node_eqb_spec n d) as [<-|Hne]; [|exact Hx0].
          destruct (Hfr n (alookup_keys _ _ _ Hx0)) as [x' [j (A & B & C & D)]].
          assert (Hj1 : cget s1 n = Some j) by (eapply mr_ver; eauto).
          assert (E : x = c_value i) by congruence. rewrite E. reflexivity. }
        split; [exact HI1|]. split; [|split; [exact Hsub|split]].
        + intros d Hd. apply Hks in Hd. rewrite Hlk. destruct (node_eqb_spec n d) as [<-|Hne].
          * exists (c_value i), i. auto.
          * destruct Hd as [Hd|Hd]; [|congruence].
            destruct (FrOk_mono _ _ _ _ HM Hfr d Hd) as [x [j K]]. exists x, j. exact K.
        + intros d Hd. apply Hks in Hd. destruct Hd as [Hd| ->]; [left; exact Hd|right; constructor].
        + exists (c_value i). split; [reflexivity|]. constructor. unfold frR. rewrite Hlk, node_eqb_refl. reflexivity.
      - destruct (Hbin _ _ _ _ _ _ _ _ _ _ _ HI Hstk Hfr Hme H) as (A & B & C & D & x & y & -> & E1 & E2).
        split; [exact A|]. split; [exact B|]. split; [exact C|]. split.
        + intros d Hd. destruct (D d Hd) as [K|[K|[xa [K1 K2]]]]; [left; exact K|right|right].
          * apply srd_add_l. exact K.
          * eapply srd_add_r; eauto.
        + eexists. split; [reflexivity|]. constructor; assumption.
      - destruct (Hbin _ _ _ _ _ _ _ _ _ _ _ HI Hstk Hfr Hme H) as (A & B & C & D & x & y & -> & E1 & E2).
        split; [exact A|]. split; [exact B|]. split; [exact C|]. split.
        + intros d Hd. destruct (D d Hd) as [K|[K|[xa [K1 K2]]]]; [left; exact K|right|right].
          * apply srd_mul_l. exact K.
          * eapply srd_mul_r; eauto.
        + eexists. split; [reflexivity|]. constructor; assumption.
      - cbn [expr_reads] in Hstk.
        destruct (ceval p f stk me e fr s) as [[[x fr1] s1]| | |] eqn:E1; try discriminate.
        destruct (IHe inp _ _ _ _ _ _ _ _ HI Hstk Hfr Hme E1) as (HI1 & Hfr1 & Hsub1 & Hk1 & xv & -> & Hev1).
        inversion H. subst. split; [exact HI1|]. split; [exact Hfr1|]. split; [exact Hsub1|]. split.
        + intros d Hd. destruct (Hk1 d Hd) as [K|K]; [left; exact K|right; apply srd_mod; exact K].
        + eexists. split; [reflexivity|]. constructor. exact Hev1.
      - destruct (Hbin _ _ _ _ _ _ _ _ _ _ _ HI Hstk Hfr Hme H) as (A & B & C & D & x & y & -> & E1 & E2).
        split; [exact A|]. split; [exact B|]. split; [exact C|]. split.
        + intros d Hd. destruct (D d Hd) as [K|[K|[xa [K1 K2]]]]; [left; exact K|right|right].
          * apply srd_lt_l. exact K.
          * eapply srd_lt_r; eauto.
        + eexists. split; [reflexivity|]. constructor; assumption.
      - cbn [expr_reads] in Hstk.
        destruct (ceval p f stk me e1 fr s) as [[[x fr1] s1]| | |] eqn:E1; try discriminate.
        destruct (IHe inp _ _ _ _ _ _ _ _ HI (fun d Hd => Hstk d (in_or_app _ _ _ (or_introl Hd))) Hfr Hme E1)
          as (HI1 & Hfr1 & Hsub1 & Hk1 & xv & -> & Hev1).
        assert (Hstk2 : forall d, In d (expr_reads (if xv =? 0 then e3 else e2)) -> StkOk stk d).
        { intros d Hd. apply Hstk. apply in_or_app. right. apply in_or_app. destruct (xv =? 0); auto. }
        destruct (IHe inp _ _ _ _ _ _ _ _ HI1 Hstk2 Hfr1 Hme H) as (HI2 & Hfr2 & Hsub2 & Hk2 & v & -> & Hev2).
        split; [exact HI2|]. split; [exact Hfr2|]. split; [auto|]. split.
        + intros d Hd. destruct (Hk2 d Hd) as [K|K].
          * destruct (Hk1 d K) as [K1|K1]; [left; exact K1|right; apply srd_if_c; exact K1].
          * right. eapply srd_if_b; [|exact K].
            eapply ev_sev; [exact Hev1|]. intros d0 x0 _ Hx0. eapply frR_SpecI; eauto.
        + exists v. split; [reflexivity|]. econstructor; [|exact Hev2].
          eapply ev_mono; [exact Hev1|]. intros d x0 _ Hx0. apply Hsub2. exact Hx0.
      - discriminate. }
    assert (Hr : sound_repair (S f)).
    { red. intros inp stk c n s s' HI Hstk H. rewrite crepair_S in H.
      destruct (cget s n) as [i|] eqn:Eg; [|discriminate].
      destruct (cwalk p f n stk (cc_pedantic c) i (c_fwd i) [] [] s) as [[[rc cl] s1]| | |] eqn:Ew;
        try discriminate.
      assert (Hpre : walk_pre inp n i (c_fwd i) [] s).
      { split; [intros d []|]. intros d K. right. destruct (ci_dirty_edge _ _ _ HI _ _ K) as [j [Hj Hd]].
        congruence. }
      destruct (sound_walk f inp n stk _ i IHq Hstk _ _ _ _ _ _ _ HI Eg (fun d Hd => Hd) Hpre Ew)
        as (HI1 & Hi1 & Hpost & _).
      destruct rc.
      - eapply IHx; eauto.
      - inversion H. subst s'. destruct (Hpost eq_refl) as [Hcl Hd]. split.
        + eapply CInv_clean; eauto. intros d K. destruct (Hd d K) as [K1|[]]. exact K1.
        + eexists. rewrite (cclean_cget _ _ _ _ _ Hi1), node_eqb_refl. split; [reflexivity|].
          cbn [c_verified]. rewrite cclean_ts. reflexivity. }
    auto.
Qed.

(** * why a node is executed, and what its entry holds afterwards (for C03) *)
Definition Justified (inp : inputs) (s : cstate) (m : node) : Prop :=
  cget s m = None \/ exists i, cget s m = Some i /\ walk_why inp i.
Definition ExecInfo (inp : inputs) (s : cstate) (m : node) : Prop :=
  exists i b, cget s m = Some i /\ alookup p m = Some b /\
    forall d, In d (c_fwd i) -> srd p inp b d /\ exists v, alookup (c_obs i) d = Some v /\ SpecI p inp d v.
Definition LogP (inp : inputs) (s s' : cstate) : Prop :=
  forall new, cs_log s' = new ++ cs_log s -> forall m, In m new -> Justified inp s m /\ ExecInfo inp s' m.

Lemma LogP_samelog : forall inp s s', cs_log s' = cs_log s -> LogP inp s s'.
Proof.
  intros inp s s' E new Hn m Hm. rewrite E in Hn.
  assert (new = []) by (apply (app_inv_tail (cs_log s)); rewrite <- Hn; reflexivity). subst. destruct Hm.
Qed.

Lemma LogP_trans : forall inp stk s s1 s2,
  MonoR stk s s1 -> MonoR stk s1 s2 -> LogP inp s s1 -> LogP inp s1 s2 -> LogP inp s s2.
Proof.
  intros inp stk s s1 s2 M1 M2 L1 L2 new Hn m Hm.
  destruct (mr_log _ _ _ M1) as [n1 [E1 [_ P1]]]. destruct (mr_log _ _ _ M2) as [n2 [E2 [_ P2]]].
  assert (new = n2 ++ n1).
  { apply (app_inv_tail (cs_log s)). rewrite <- Hn, E2, E1, app_assoc. reflexivity. }
  subst new. apply in_app_or in Hm. destruct Hm as [Hm|Hm].
  - destruct (L2 n2 E2 m Hm) as [J X]. split; [|exact X].
    destruct (P2 m Hm) as (_ & Hnv & _).
    destruct (mr_unch _ _ _ M1 m) as [K|K]; [|contradiction]. unfold Justified in *. rewrite <- K. exact J.
  - destruct (L1 n1 E1 m Hm) as [J X]. split; [exact J|].
    destruct (P1 m Hm) as (_ & _ & [j [Hj Hv]]). destruct X as [i [b (A & B & C)]].
    assert (j = i) by congruence. subst j. exists i, b. split; [|auto]. eapply mr_ver; eauto.
Qed.

Definition just_query (f : nat) : Prop :=
  forall inp stk c fr n s o fr' s',
    CInv p inp s -> StkOk stk n -> cquery p f stk c fr n s = Ok (o, fr', s') -> LogP inp s s'.
Definition just_execute (f : nat) : Prop :=
  forall inp stk c n rc s s',
    CInv p inp s -> StkOk stk n -> (rc = true \/ cget s n = None) ->
    Justified inp s n -> ~ verified s n ->
    cexecute p f stk c n rc s = Ok s' -> LogP inp s s'.
Definition just_eval (f : nat) : Prop :=
  forall inp stk me e fr s o fr' s',
    CInv p inp s -> (forall d, In d (expr_reads e) -> StkOk stk d) -> FrOk s fr -> is_read me ->
    ceval p f stk me e fr s = Ok (o, fr', s') -> LogP inp s s'.
Definition just_repair (f : nat) : Prop :=
  forall inp stk c n s s',
    CInv p inp s -> StkOk stk n -> ~ verified s n -> crepair p f stk c n s = Ok s' -> LogP inp s s'.

Lemma just_walk : forall f inp n stk pd i, just_query f ->
  StkOk stk n ->
  forall cs cleaned fr s rc cl' s1,
    CInv p inp s -> cget s n = Some i -> (forall d, In d cs -> In d (c_fwd i)) ->
    cwalk p f n stk pd i cs cleaned fr s = Ok (rc, cl', s1) -> LogP inp s s1.
Proof.
  intros f inp n stk pd i IHj Hstk.
  induction cs as [|cal r IH]; intros cleaned fr s rc cl' s1 HI Hi Hsub H; cbn [cwalk] in H.
  - inversion H. subst. apply LogP_samelog. reflexivity.
  - cbv zeta in H.
    assert (Hcal : In cal (c_fwd i)) by (apply Hsub; left; reflexivity).
    assert (Hsub' : forall d, In d r -> In d (c_fwd i)) by (intros; apply Hsub; right; assumption).
    destruct (negb (emem (n, cal) (cs_dirty s)) && negb pd).
    + eapply IH; eauto.
    + destruct (kind_eqb (nkind cal) KInput).
      * destruct (cget s cal) as [ci|]; [|discriminate].
        destruct (alookup (c_obs i) cal) as [ov|]; [|discriminate].
        destruct (negb (c_value ci =? ov)).
        -- inversion H. subst. apply LogP_samelog. reflexivity.
        -- eapply IH; eauto.
      * destruct (cquery p f (n :: stk) (CCRepair n pd) (Some fr) cal s) as [[[o fr'] s']| | |] eqn:Eq;
          try discriminate.
        assert (HM : MonoR (n :: stk) s s') by (eapply (proj1 (mono_all p f)); eauto).
        assert (Hrkc : StkOk (n :: stk) cal).
        { destruct (ci_kind _ _ _ HI n i Hi) as [(_ & K2 & _)|[_ [e [He [_ Hr]]]]].
          - rewrite K2 in Hcal. destruct Hcal.
          - eapply StkOk_push; eauto. }
        pose proof Hrkc as Hstk'.
        destruct (proj1 (sound_all f) inp _ _ _ _ _ _ _ _ HI Hstk' Eq) as [HI' _].
        pose proof (IHj inp _ _ _ _ _ _ _ _ HI Hstk' Eq) as L1.
        destruct (mr_stk _ _ _ HM n (or_introl eq_refl)) as [Hn1 _].
        destruct (cget s' cal) as [ci|]; [|discriminate].
        destruct (alookup (c_obs i) cal) as [ov|]; [|discriminate].
        destruct (negb (c_value ci =? ov)).
        -- inversion H. subst. exact L1.
        -- assert (Hi' : cget s' n = Some i) by congruence.
           pose proof (IH _ _ _ _ _ _ HI' Hi' Hsub' H) as L2.
           assert (HM2 : MonoR (n :: stk) s' s1) by (eapply mono_walk; [apply (proj1 (mono_all p f))|exact H]).
           eapply LogP_trans; eauto.
Qed.

Lemma just_all : forall f, just_query f /\ just_execute f /\ just_eval f /\ just_repair f.
Proof.
  induction f as [|f (IHq & IHx & IHe & IHr)].
  - split; [|split; [|split]]; red; intros;
      match goal with H : _ = Ok _ |- _ => cbn in H; discriminate H end.
  - destruct (sound_all f) as (Sq & Sx & Se & Sr).
    destruct (mono_all p f) as (Mq & Mx & Me & Mr).
    assert (Hq : just_query (S f)).
    { red. intros inp stk c fr n s o fr' s' HI Hstk H. rewrite cquery_S in H. cbv zeta in H.
      destruct (nmem n stk) eqn:Es.
      { inversion H. subst. apply LogP_samelog. reflexivity. }
      destruct (cget s n) as [i|] eqn:Eg.
      - destruct (c_verified i =? cs_ts s)%N eqn:Ev.
        + apply cq_result_state in H. subst. apply LogP_samelog. reflexivity.
        + destruct (crepair p f stk (cq_caller c n) n s) as [s1| | |] eqn:Er; try discriminate.
          apply cq_result_state in H. subst. eapply IHr; eauto.
          intros [j [Hj1 Hj2]]. rewrite Eg in Hj1. inversion Hj1. subst j.
          apply N.eqb_neq in Ev. contradiction.
      - destruct (cexecute p f stk (cq_caller c n) n false s) as [s1| | |] eqn:Er; try discriminate.
        apply cq_result_state in H. subst. eapply IHx; eauto.
        + left. exact Eg.
        + intros [j [Hj1 _]]. congruence. }
    assert (Hx : just_execute (S f)).
    { red. intros inp stk c n rc s s' HI Hstk Hrc Hj Hnv H. rewrite cexecute_S in H. cbv zeta in H.
      destruct (nkind n) eqn:Ek; try discriminate. destruct (alookup p n) as [e|] eqn:Ee; [|discriminate].
      match type of H with context [ceval p f ?a ?b ?c ?d ?e] =>
        destruct (ceval p f a b c d e) as [[[o fr1] s1]| | |] eqn:Eev; try discriminate end.
      inversion H. subst s'. clear H.
      pose proof (Me _ _ _ _ _ _ _ _ Eev) as HM.
      assert (Hst : forall d, In d (expr_reads e) -> StkOk (n :: stk) d)
        by (intros d Hd; eapply StkOk_push; eauto).
      assert (Hfr0 : FrOk (cset_log s (n :: cs_log s)) []) by (intros d []).
      assert (Hme : is_read (CCRead n (cc_pedantic c) match cget s n with Some i => c_fwd i | None => [] end))
        by (eexists; eexists; eexists; reflexivity).
      destruct (Se inp _ _ _ _ _ _ _ _ (CInv_log p inp s (n :: cs_log s) HI) Hst Hfr0 Hme Eev)
        as (HI1 & Hfr & _ & Hkeys & z & -> & Hev).
      pose proof (IHe inp _ _ _ _ _ _ _ _ (CInv_log p inp s (n :: cs_log s) HI) Hst Hfr0 Hme Eev) as L1.
      destruct (mr_log _ _ _ HM) as [n1 [E1 [_ P1]]]. cbn [cset_log cs_log] in E1.
      intros new Hn m Hm. rewrite cset_computed_log, E1 in Hn.
      assert (new = n1 ++ [n]).
      { apply (app_inv_tail (cs_log s)). rewrite <- Hn, <- app_assoc. reflexivity. }
      subst new. apply in_app_or in Hm. destruct Hm as [Hm|[<-|[]]].
      - destruct (L1 n1 E1 m Hm) as [J X]. split; [exact J|].
        destruct (P1 m Hm) as (Hns & _). assert (Hne : n <> m) by (intro; subst; apply Hns; left; reflexivity).
        destruct X as [i [b (A & B & C)]]. exists i, b. split; [|auto].
        rewrite cset_computed_cget. apply node_eqb_neq in Hne. rewrite Hne. exact A.
      - split; [exact Hj|]. eexists. exists e. rewrite cset_computed_cget, node_eqb_refl.
        split; [reflexivity|]. split; [exact Ee|]. cbn [c_fwd c_obs]. intros d Hd. split.
        + destruct (Hkeys d Hd) as [[]|K]. exact K.
        + destruct (Hfr d Hd) as [x [j (A & B & C & D)]]. exists x. split; [apply cobserved_lookup; exact A|].
          eapply frR_SpecI; eauto. }
    assert (He : just_eval (S f)).
    { assert (Hbin : forall inp stk me a b op fr s o fr' s',
                CInv p inp s -> (forall d, In d (expr_reads a ++ expr_reads b) -> StkOk stk d) ->
                FrOk s fr -> is_read me ->
                cbin p f stk me a b op fr s = Ok (o, fr', s') -> LogP inp s s').
      { intros inp stk me a b op fr s o fr' s' HI Hstk Hfr Hme H. unfold cbin in H.
        destruct (ceval p f stk me a fr s) as [[[x fr1] s1]| | |] eqn:E1; try discriminate.
        assert (Hs1 : forall d, In d (expr_reads a) -> StkOk stk d) by (intros; apply Hstk; apply in_or_app; auto).
        assert (Hs2 : forall d, In d (expr_reads b) -> StkOk stk d) by (intros; apply Hstk; apply in_or_app; auto).
        destruct (Se inp _ _ _ _ _ _ _ _ HI Hs1 Hfr Hme E1) as (HI1 & Hfr1 & _ & _ & xv & -> & _).
        pose proof (IHe inp _ _ _ _ _ _ _ _ HI Hs1 Hfr Hme E1) as L1.
        pose proof (Me _ _ _ _ _ _ _ _ E1) as M1.
        destruct (ceval p f stk me b fr1 s1) as [[[y fr2] s2]| | |] eqn:E2; try discriminate.
        destruct (Se inp _ _ _ _ _ _ _ _ HI1 Hs2 Hfr1 Hme E2) as (_ & _ & _ & _ & yv & -> & _).
        pose proof (IHe inp _ _ _ _ _ _ _ _ HI1 Hs2 Hfr1 Hme E2) as L2.
        pose proof (Me _ _ _ _ _ _ _ _ E2) as M2.
        inversion H. subst. eapply LogP_trans; eauto. }
      red. intros inp stk me e fr s o fr' s' HI Hstk Hfr Hme H. rewrite ceval_S in H. destruct e.
      - inversion H. subst. apply LogP_samelog. reflexivity.
      - destruct (cquery p f stk me (Some fr) n s) as [[[o1 fr1] s1]| | |] eqn:E1; try discriminate.
        pose proof (IHq inp _ _ _ _ _ _ _ _ HI (Hstk n (or_introl eq_refl)) E1) as L1.
        destruct o1; inversion H; subst; exact L1.
      - eapply Hbin; eauto.
      - eapply Hbin; eauto.
      - cbn [expr_reads] in Hstk.
        destruct (ceval p f stk me e fr s) as [[[x fr1] s1]| | |] eqn:E1; try discriminate.
        pose proof (IHe inp _ _ _ _ _ _ _ _ HI Hstk Hfr Hme E1) as L1.
        destruct x; inversion H; subst; exact L1.
      - eapply Hbin; eauto.
      - cbn [expr_reads] in Hstk.
        destruct (ceval p f stk me e1 fr s) as [[[x fr1] s1]| | |] eqn:E1; try discriminate.
        assert (Hs1 : forall d, In d (expr_reads e1) -> StkOk stk d) by (intros; apply Hstk; apply in_or_app; auto).
        destruct (Se inp _ _ _ _ _ _ _ _ HI Hs1 Hfr Hme E1) as (HI1 & Hfr1 & _ & _ & xv & -> & _).
        pose proof (IHe inp _ _ _ _ _ _ _ _ HI Hs1 Hfr Hme E1) as L1.
        pose proof (Me _ _ _ _ _ _ _ _ E1) as M1.
        assert (Hs2 : forall d, In d (expr_reads (if xv =? 0 then e3 else e2)) -> StkOk stk d).
        { intros d Hd. apply Hstk. apply in_or_app. right. apply in_or_app. destruct (xv =? 0); auto. }
        pose proof (IHe inp _ _ _ _ _ _ _ _ HI1 Hs2 Hfr1 Hme H) as L2.
        pose proof (Me _ _ _ _ _ _ _ _ H) as M2.
        eapply LogP_trans; eauto.
      - discriminate. }
    assert (Hr : just_repair (S f)).
    { red. intros inp stk c n s s' HI Hstk Hnv H. rewrite crepair_S in H.
      destruct (cget s n) as [i|] eqn:Eg; [|discriminate].
      destruct (cwalk p f n stk (cc_pedantic c) i (c_fwd i) [] [] s) as [[[rc cl] s1]| | |] eqn:Ew;
        try discriminate.
      assert (Hpre : walk_pre inp n i (c_fwd i) [] s).
      { split; [intros d []|]. intros d K. right. destruct (ci_dirty_edge _ _ _ HI _ _ K) as [j [Hj Hd]].
        congruence. }
      destruct (sound_walk f inp n stk _ i Sq Hstk _ _ _ _ _ _ _ HI Eg (fun d Hd => Hd) Hpre Ew)
        as (HI1 & Hi1 & _ & Hwhy).
      pose proof (just_walk f inp n stk _ i IHq Hstk _ _ _ _ _ _ _ HI Eg (fun d Hd => Hd) Ew) as L1.
      pose proof (mono_walk p f n stk _ i Mq _ _ _ _ _ _ _ Ew) as M1.
      destruct (mr_stk _ _ _ M1 n (or_introl eq_refl)) as [K1 _].
      assert (Hnv1 : ~ verified s1 n).
      { intros [j [J1 J2]]. apply Hnv. exists j. rewrite <- K1. split; [exact J1|].
        rewrite <- (mr_ts _ _ _ M1). exact J2. }
      apply MonoR_weaken in M1. destruct rc.
      - assert (L2 : LogP inp s1 s').
        { eapply IHx; eauto. right. exists i. split; [exact Hi1|]. apply Hwhy. reflexivity. }
        assert (M2 : MonoR stk s1 s') by (eapply Mx; eauto; eapply StkOk_notin; eauto).
        eapply LogP_trans; eauto.
      - inversion H. subst s'.
        assert (M2 : MonoR stk s1 (cclean s1 n cl)) by (eapply MonoR_clean; eauto; eapply StkOk_notin; eauto).
        eapply LogP_trans; eauto. apply LogP_samelog. apply cclean_log. }
    auto.
Qed.
End Run.

(** * the rank instance of the stack condition (every stack of a run started by a user) *)
Section RankStack.
Variable p : program.
Variable rk : node -> nat.
Hypothesis Hrk : forall n e d, alookup p n = Some e -> In d (expr_reads e) -> (rk d < rk n)%nat.

Definition RStkOk (stk : list node) (n : node) : Prop := forall m, In m stk -> (rk n < rk m)%nat.

Lemma RStkOk_nil : forall n, RStkOk [] n.
Proof using Type. intros n m []. Qed.
Lemma RStkOk_notin : forall stk n, RStkOk stk n -> ~ In n stk.
Proof using Type. clear Hrk. intros stk n H K. specialize (H n K). lia. Qed.
Lemma RStkOk_push : forall stk n e d,
  RStkOk stk n -> alookup p n = Some e -> In d (expr_reads e) -> RStkOk (n :: stk) d.
Proof.
  intros stk n e d H He Hd m [<-|Hm]; [eapply Hrk; eauto|].
  specialize (H m Hm). specialize (Hrk _ _ _ He Hd). lia.
Qed.

Lemma sound_all_rk : forall f,
  sound_query p RStkOk f /\ sound_execute p RStkOk f /\ sound_eval p RStkOk f /\ sound_repair p RStkOk f.
Proof. exact (sound_all p rk Hrk RStkOk RStkOk_notin RStkOk_push). Qed.
Lemma just_all_rk : forall f,
  just_query p RStkOk f /\ just_execute p RStkOk f /\ just_eval p RStkOk f /\ just_repair p RStkOk f.
Proof. exact (just_all p rk Hrk RStkOk RStkOk_notin RStkOk_push). Qed.
End RankStack.
