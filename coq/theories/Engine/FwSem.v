(** Relational form of the from-scratch evaluator of [Engine/FwSpec.v] ([fsev]) and its
    basic properties: determinism, equivalence with [fsexpr]/[FwSpec], soundness of an oracle
    evaluation ([CoreInvSem.ev]) whose oracle answers with from-scratch values. *)
From QV Require Import Common.Prelude Engine.Model Engine.Core Engine.CoreSpec Engine.CoreInvBase
  Engine.CoreInvSem Engine.Fw Engine.FwSpec.
Open Scope Z_scope.

Section Sem.
Variable p : program.

Inductive fsev (inp : inputs) : expr -> Z -> Prop :=
| fsev_const : forall z, fsev inp (EConst z) z
| fsev_input : forall n v, nkind n = KInput -> input_get inp (nidx n) = Some v -> fsev inp (ERead n) v
| fsev_exec : forall n b v, is_exec_kind (nkind n) = true -> alookup p n = Some b -> fsev inp b v -> fsev inp (ERead n) v
| fsev_add : forall a b x y, fsev inp a x -> fsev inp b y -> fsev inp (EAdd a b) (x + y)
| fsev_mul : forall a b x y, fsev inp a x -> fsev inp b y -> fsev inp (EMul a b) (x * y)
| fsev_lt : forall a b x y, fsev inp a x -> fsev inp b y -> fsev inp (ELt a b) (if x <? y then 1 else 0)
| fsev_mod : forall a m x, fsev inp a x -> fsev inp (EMod a m) (x mod m)
| fsev_if : forall c a b x v, fsev inp c x -> fsev inp (if x =? 0 then b else a) v -> fsev inp (EIf c a b) v.

Definition FSpecI (inp : inputs) (n : node) (v : Z) : Prop := fsev inp (ERead n) v.

Lemma fsev_det : forall inp e v1, fsev inp e v1 -> forall v2, fsev inp e v2 -> v1 = v2.
Proof.
  intros inp e v1 H. induction H; intros v2 H2; inversion H2; subst; try congruence;
    repeat match goal with
    | IH : forall v2, fsev _ ?e v2 -> _ = v2, H : fsev _ ?e _ |- _ => apply IH in H; subst
    end; try reflexivity.
  - match goal with H1 : nkind n = KInput, H2 : is_exec_kind (nkind n) = true |- _ => rewrite H1 in H2; discriminate end.
  - match goal with H1 : nkind n = KInput, H2 : is_exec_kind (nkind n) = true |- _ => rewrite H1 in H2; discriminate end.
  - match goal with H1 : alookup p n = Some ?b1, H2 : alookup p n = Some ?b2 |- _ =>
      assert (b1 = b2) by congruence; subst end.
    auto.
Qed.

Lemma FSpecI_det : forall inp n v1 v2, FSpecI inp n v1 -> FSpecI inp n v2 -> v1 = v2.
Proof. intros. eapply fsev_det; eauto. Qed.

Lemma ev_fsev : forall inp (R : node -> Z -> Prop) e v, ev R e v ->
  (forall d x, In d (expr_reads e) -> R d x -> FSpecI inp d x) -> fsev inp e v.
Proof.
  intros inp R e v H. induction H; intro HR; cbn [expr_reads] in HR.
  - constructor.
  - apply HR; [left; reflexivity|assumption].
  - constructor; [apply IHev1|apply IHev2]; intros; apply HR; auto; apply in_or_app; auto.
  - constructor; [apply IHev1|apply IHev2]; intros; apply HR; auto; apply in_or_app; auto.
  - constructor; [apply IHev1|apply IHev2]; intros; apply HR; auto; apply in_or_app; auto.
  - constructor. apply IHev. exact HR.
  - econstructor.
    + apply IHev1. intros; apply HR; auto; apply in_or_app; auto.
    + apply IHev2. intros d y Hd. apply HR. apply in_or_app. right. apply in_or_app.
      destruct (x =? 0); auto.
Qed.

(** an oracle evaluation is a function of the oracle *)
Lemma ev_det2 : forall (R1 R2 : node -> Z -> Prop) e v1, ev R1 e v1 -> forall v2, ev R2 e v2 ->
  (forall d x y, In d (expr_reads e) -> R1 d x -> R2 d y -> x = y) -> v1 = v2.
Proof.
  intros R1 R2 e v1 H. induction H; intros v2 H2 HR; inversion H2; subst; cbn [expr_reads] in HR.
  - reflexivity.
  - eapply HR; eauto. left. reflexivity.
  - f_equal; [eapply IHev1|eapply IHev2]; eauto; intros; eapply HR; eauto; apply in_or_app; auto.
  - f_equal; [eapply IHev1|eapply IHev2]; eauto; intros; eapply HR; eauto; apply in_or_app; auto.
  - assert (x = x0) by (eapply IHev1; eauto; intros; eapply HR; eauto; apply in_or_app; auto).
    assert (y = y0) by (eapply IHev2; eauto; intros; eapply HR; eauto; apply in_or_app; auto).
    subst. reflexivity.
  - f_equal. eapply IHev; eauto.
  - assert (x = x0) by (eapply IHev1; eauto; intros; eapply HR; eauto; apply in_or_app; auto).
    subst x0. eapply IHev2; eauto. intros d u w Hd. eapply HR. apply in_or_app. right. apply in_or_app.
    destruct (x =? 0); auto.
Qed.

(** ** equivalence with the fuelled evaluator *)
Lemma fsexpr_mono : forall f inp e v, fsexpr f p inp e = Some v ->
  forall f', (f <= f')%nat -> fsexpr f' p inp e = Some v.
Proof.
  induction f as [|f IH]; intros inp e v H f' Hle; [discriminate|].
  destruct f' as [|f']; [lia|]. assert (Hle' : (f <= f')%nat) by lia.
  cbn [fsexpr] in *. destruct e.
  - exact H.
  - destruct (nkind n); try exact H; (destruct (alookup p n) as [b|]; [|discriminate]); eapply IH; eauto.
  - destruct (fsexpr f p inp e1) as [x|] eqn:E1; [|discriminate]. rewrite (IH _ _ _ E1 _ Hle').
    destruct (fsexpr f p inp e2) as [y|] eqn:E2; [|discriminate]. rewrite (IH _ _ _ E2 _ Hle'). exact H.
  - destruct (fsexpr f p inp e1) as [x|] eqn:E1; [|discriminate]. rewrite (IH _ _ _ E1 _ Hle').
    destruct (fsexpr f p inp e2) as [y|] eqn:E2; [|discriminate]. rewrite (IH _ _ _ E2 _ Hle'). exact H.
  - destruct (fsexpr f p inp e) as [x|] eqn:E1; [|discriminate]. rewrite (IH _ _ _ E1 _ Hle'). exact H.
  - destruct (fsexpr f p inp e1) as [x|] eqn:E1; [|discriminate]. rewrite (IH _ _ _ E1 _ Hle').
    destruct (fsexpr f p inp e2) as [y|] eqn:E2; [|discriminate]. rewrite (IH _ _ _ E2 _ Hle'). exact H.
  - destruct (fsexpr f p inp e1) as [x|] eqn:E1; [|discriminate]. rewrite (IH _ _ _ E1 _ Hle').
    eapply IH; eauto.
  - discriminate.
Qed.

Lemma fsexpr_fsev : forall f inp e v, fsexpr f p inp e = Some v -> fsev inp e v.
Proof.
  induction f as [|f IH]; intros inp e v H; [discriminate|]. cbn [fsexpr] in H. destruct e.
  - inversion H. constructor.
  - destruct (nkind n) eqn:K; try discriminate.
    + apply fsev_input; assumption.
    + destruct (alookup p n) as [b|] eqn:B; [|discriminate]. eapply fsev_exec; eauto. rewrite K. reflexivity.
    + destruct (alookup p n) as [b|] eqn:B; [|discriminate]. eapply fsev_exec; eauto. rewrite K. reflexivity.
  - destruct (fsexpr f p inp e1) as [x|] eqn:E1; [|discriminate].
    destruct (fsexpr f p inp e2) as [y|] eqn:E2; [|discriminate]. inversion H. constructor; auto.
  - destruct (fsexpr f p inp e1) as [x|] eqn:E1; [|discriminate].
    destruct (fsexpr f p inp e2) as [y|] eqn:E2; [|discriminate]. inversion H. constructor; auto.
  - destruct (fsexpr f p inp e) as [x|] eqn:E1; [|discriminate]. inversion H. constructor; auto.
  - destruct (fsexpr f p inp e1) as [x|] eqn:E1; [|discriminate].
    destruct (fsexpr f p inp e2) as [y|] eqn:E2; [|discriminate]. inversion H. constructor; auto.
  - destruct (fsexpr f p inp e1) as [x|] eqn:E1; [|discriminate]. econstructor; eauto.
  - discriminate.
Qed.

Lemma fsev_fsexpr : forall inp e v, fsev inp e v -> exists f, fsexpr f p inp e = Some v.
Proof.
  intros inp e v H. induction H.
  - exists 1%nat. reflexivity.
  - exists 1%nat. cbn [fsexpr]. rewrite H. exact H0.
  - destruct IHfsev as [f Hf]. exists (S f). cbn [fsexpr]. rewrite H0.
    destruct (nkind n); try discriminate; exact Hf.
  - destruct IHfsev1 as [f1 H1]. destruct IHfsev2 as [f2 H2]. exists (S (f1 + f2)). cbn [fsexpr].
    rewrite (fsexpr_mono _ _ _ _ H1 (f1 + f2)%nat), (fsexpr_mono _ _ _ _ H2 (f1 + f2)%nat) by lia. reflexivity.
  - destruct IHfsev1 as [f1 H1]. destruct IHfsev2 as [f2 H2]. exists (S (f1 + f2)). cbn [fsexpr].
    rewrite (fsexpr_mono _ _ _ _ H1 (f1 + f2)%nat), (fsexpr_mono _ _ _ _ H2 (f1 + f2)%nat) by lia. reflexivity.
  - destruct IHfsev1 as [f1 H1]. destruct IHfsev2 as [f2 H2]. exists (S (f1 + f2)). cbn [fsexpr].
    rewrite (fsexpr_mono _ _ _ _ H1 (f1 + f2)%nat), (fsexpr_mono _ _ _ _ H2 (f1 + f2)%nat) by lia. reflexivity.
  - destruct IHfsev as [f1 H1]. exists (S f1). cbn [fsexpr]. rewrite H1. reflexivity.
  - destruct IHfsev1 as [f1 H1]. destruct IHfsev2 as [f2 H2]. exists (S (f1 + f2)). cbn [fsexpr].
    rewrite (fsexpr_mono _ _ _ _ H1 (f1 + f2)%nat) by lia. apply (fsexpr_mono _ _ _ _ H2). lia.
Qed.

Lemma FwSpec_FSpecI : forall inp n v, FwSpec p inp n v <-> FSpecI inp n v.
Proof.
  intros inp n v. split.
  - intros [f H]. eapply fsexpr_fsev; eauto.
  - intro H. apply fsev_fsexpr. exact H.
Qed.

Lemma FSpecI_exec : forall inp n b v, is_exec_kind (nkind n) = true -> alookup p n = Some b -> fsev inp b v -> FSpecI inp n v.
Proof. intros. eapply fsev_exec; eauto. Qed.
Lemma FSpecI_input : forall inp n v, nkind n = KInput -> input_get inp (nidx n) = Some v -> FSpecI inp n v.
Proof. intros. eapply fsev_input; eauto. Qed.
Lemma FSpecI_input_inv : forall inp n v, nkind n = KInput -> FSpecI inp n v -> input_get inp (nidx n) = Some v.
Proof. intros inp n v K H. inversion H; subst; [congruence|]. rewrite K in *. discriminate. Qed.
End Sem.
