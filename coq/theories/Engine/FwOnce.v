(** C03 "at most once" for the firewall fragment ([Engine/Fw.v]): in every history of every
    program, with every fuel, no executor runs twice within one request, nor twice between
    two input sessions.  Needs only the monotonicity facts of [Engine/FwMono.v]. *)
From QV Require Import Common.Prelude Engine.Model Engine.Core Engine.CoreSpec Engine.CoreInvBase
  Engine.Fw Engine.FwBase Engine.FwMono.
Open Scope Z_scope.

(** * the session step *)
Definition fsess_step : state * list sres * list node -> N * Z -> state * list sres * list node :=
  fun '(s, rs, batch) '(v, x) =>
    let n := mkNode KInput v in
    let r := match get_info s n with
             | None => SFresh
             | Some i => if i_value i =? x then SUnchanged else SUpdated end in
    (set_computed_input s n x, rs ++ [r], match r with SUpdated => batch ++ [n] | _ => batch end).
Lemma fsess_step_eq : forall s rs batch v x,
  fsess_step (s, rs, batch) (v, x) =
  (set_computed_input s (mkNode KInput v) x,
   rs ++ [match get_info s (mkNode KInput v) with
          | None => SFresh
          | Some i => if i_value i =? x then SUnchanged else SUpdated end],
   match (match get_info s (mkNode KInput v) with
          | None => SFresh
          | Some i => if i_value i =? x then SUnchanged else SUpdated end) with
   | SUpdated => batch ++ [mkNode KInput v] | _ => batch end).
Proof. reflexivity. Qed.

Lemma fstep_session : forall fuel p s sets b,
  fstep_f fuel p s (OSession sets b) =
  let s := set_log s [] in
  let s0 := set_ts s (s_ts s + 1)%N in
  let '(s1, rs, batch) := fold_left fsess_step sets (s0, [], []) in
  let s3 := set_visited (set_stat s1 0%N) [] in
  match propagate (fuel * 10) s3 batch with
  | Ok s4 => (s4, mkRes (RSession rs) [] None)
  | _ => (s3, mkRes RFuel [] None)
  end.
Proof. reflexivity. Qed.

Lemma fstep_session_execs : forall fuel p s sets b s' x,
  fstep_f fuel p s (OSession sets b) = (s', x) -> r_execs x = [].
Proof.
  intros fuel p s sets b s' x H. rewrite fstep_session in H. cbv zeta in H.
  destruct (fold_left fsess_step sets (set_ts (set_log s []) (s_ts (set_log s []) + 1)%N, [], []))
    as [[s1 rs] batch].
  destruct (propagate (fuel * 10) (set_visited (set_stat s1 0%N) []) batch); inversion H; subst; reflexivity.
Qed.

Section Once.
Variable p : program.

Lemma sverified_set_log : forall s l m, sverified (set_log s l) m <-> sverified s m.
Proof. intros. reflexivity. Qed.
Lemma sverified_restart : forall s m, sverified (restart s) m <-> sverified s m.
Proof. intros. reflexivity. Qed.

Lemma fstep_query_mono : forall fuel s n s' x,
  fstep_f fuel p s (OQuery n) = (s', x) ->
  (s' = set_log s [] /\ r_execs x = []) \/
  (MonoR [] (set_log s []) s' /\ r_execs x = rev (s_log s')).
Proof.
  intros fuel s n s' x H. unfold fstep_f in H.
  destruct (fquery_for p fuel [] CUser None n (set_log s [])) as [[[[o fr] ms] s1]| | |] eqn:Eq.
  - right. apply (proj1 (mono_all p fuel)) in Eq. destruct o as [[z|]|]; inversion H; subst; auto.
  - left. inversion H. auto.
  - left. inversion H. auto.
  - left. inversion H. auto.
Qed.

Lemma fstep_execs : forall fuel s o s' x m,
  fstep_f fuel p s o = (s', x) -> In m (r_execs x) -> sverified s' m /\ ~ sverified s m.
Proof.
  intros fuel s o s' x m H Hm. destruct o as [sets b|n|w v|].
  - rewrite (fstep_session_execs _ _ _ _ _ _ _ H) in Hm. destruct Hm.
  - destruct (fstep_query_mono _ _ _ _ _ H) as [[_ E]|[HM E]]; rewrite E in Hm; [destruct Hm|].
    apply in_rev in Hm. destruct (mr_log _ _ _ HM) as [new [L [_ P]]]. cbn [set_log s_log] in L.
    rewrite app_nil_r in L. rewrite L in Hm. destruct (P m Hm) as (_ & A & B). split; [exact B|exact A].
  - cbn in H. inversion H. subst. destruct Hm.
  - cbn in H. inversion H. subst. destruct Hm.
Qed.

Lemma fstep_nodup : forall fuel s o s' x, fstep_f fuel p s o = (s', x) -> NoDup (r_execs x).
Proof.
  intros fuel s o s' x H. destruct o as [sets b|n|w v|].
  - rewrite (fstep_session_execs _ _ _ _ _ _ _ H). constructor.
  - destruct (fstep_query_mono _ _ _ _ _ H) as [[_ E]|[HM E]]; rewrite E; [constructor|].
    destruct (mr_log _ _ _ HM) as [new [L [N _]]]. cbn [set_log s_log] in L.
    rewrite app_nil_r in L. rewrite L. apply NoDup_rev. exact N.
  - cbn in H. inversion H. subst. constructor.
  - cbn in H. inversion H. subst. constructor.
Qed.

Lemma fstep_keeps_verified : forall fuel s o s' x m,
  fstep_f fuel p s o = (s', x) -> (forall sets b, o <> OSession sets b) ->
  sverified s m -> sverified s' m.
Proof.
  intros fuel s o s' x m H Hns Hv. destruct o as [sets b|n|w v|].
  - exfalso. eapply Hns. reflexivity.
  - destruct (fstep_query_mono _ _ _ _ _ H) as [[-> _]|[HM _]]; [exact Hv|].
    eapply sverified_mono; [exact HM|]. exact Hv.
  - cbn in H. inversion H. subst. exact Hv.
  - cbn in H. inversion H. subst. exact Hv.
Qed.

Lemma frun_nodup : forall fuel ops s i r,
  nth_error (frun_history_f fuel p s ops) i = Some r -> NoDup (r_execs r).
Proof.
  intros fuel. induction ops as [|o rest IH]; intros s i r H; [destruct i; discriminate|].
  cbn [frun_history_f] in H. destruct (fstep_f fuel p s o) as [s' x] eqn:Es. destruct i as [|i].
  - cbn in H. inversion H. subst. eapply fstep_nodup; eauto.
  - cbn [nth_error] in H. eapply IH; eauto.
Qed.

Lemma frun_verified_not_executed : forall fuel ops s i m,
  sverified s m ->
  (forall k sets b, (k <= i)%nat -> nth_error ops k <> Some (OSession sets b)) ->
  ~ executed_at (frun_history_f fuel p s ops) i m.
Proof.
  intros fuel. induction ops as [|o rest IH]; intros s i m Hv Hns [r [Hr Hm]]; [destruct i; discriminate|].
  cbn [frun_history_f] in Hr. destruct (fstep_f fuel p s o) as [s' x] eqn:Es. destruct i as [|i].
  - cbn in Hr. inversion Hr. subst. destruct (fstep_execs _ _ _ _ _ _ Es Hm) as [_ K]. contradiction.
  - cbn [nth_error] in Hr. apply (IH s' i m).
    + eapply fstep_keeps_verified; eauto. intros sets b ->. apply (Hns 0%nat sets b); [lia|reflexivity].
    + intros k sets b Hk. apply (Hns (S k) sets b). lia.
    + exists r. auto.
Qed.

Lemma frun_once : forall fuel ops s j i m,
  (j < i)%nat ->
  executed_at (frun_history_f fuel p s ops) i m ->
  executed_at (frun_history_f fuel p s ops) j m ->
  ~ no_session_between ops j i.
Proof.
  intros fuel. induction ops as [|o rest IH]; intros s j i m Hji Hi Hj Hns.
  - destruct Hj as [r [Hr _]]. destruct j; discriminate.
  - destruct Hi as [ri [Hri Hmi]]. destruct Hj as [rj [Hrj Hmj]].
    cbn [frun_history_f] in Hri, Hrj. destruct (fstep_f fuel p s o) as [s' x] eqn:Es.
    destruct i as [|i]; [lia|]. cbn [nth_error] in Hri. destruct j as [|j].
    + cbn in Hrj. inversion Hrj. subst. destruct (fstep_execs _ _ _ _ _ _ Es Hmj) as [Hv _].
      apply (frun_verified_not_executed fuel rest s' i m Hv).
      * intros k sets b Hk. apply (Hns (S k) sets b). lia.
      * exists ri. auto.
    + cbn [nth_error] in Hrj. apply (IH s' j i m); [lia|exists ri; auto|exists rj; auto|].
      intros k sets b Hk. apply (Hns (S k) sets b). lia.
Qed.
End Once.

(** C03 "at most once" on the firewall fragment: every program, every history, every fuel *)
Definition fw_once_statement : Prop :=
  forall fuel p ops i j m r,
    let rs := frun_history_f fuel p init_state ops in
    (nth_error rs i = Some r -> NoDup (r_execs r)) /\
    ((j < i)%nat -> executed_at rs i m -> executed_at rs j m -> ~ no_session_between ops j i).

Theorem fw_once : fw_once_statement.
Proof.
  intros fuel p ops i j m r. cbv zeta. split.
  - apply frun_nodup.
  - intros Hji Hi Hj. eapply frun_once; eauto.
Qed.

Print Assumptions fw_once.
