(** No panic: on a well-formed program whose readable inputs have all been set, a request of
    the core engine model either answers or runs out of fuel.  Uses a purely structural
    invariant (it does not depend on the dirty marks, hence holds even after a session whose
    propagation ran out of fuel). *)
From QV Require Import Common.Prelude Engine.Model Engine.Core Engine.CoreSpec
  Engine.CoreInvBase Engine.CoreInvMono Engine.CoreInvRun Engine.CoreInvCommit.
Open Scope Z_scope.

Section Progress.
Variable p : program.
Hypothesis Hnog : forall n e, alookup p n = Some e -> no_group e = true.
Hypothesis Htargets : forall n e d, alookup p n = Some e -> In d (expr_reads e) ->
  nkind d = KInput \/ (nkind d = KNormal /\ alookup p d <> None).

Record SInv (inp : inputs) (s : cstate) : Prop := {
  sk_kind : forall n i, cget s n = Some i ->
     (nkind n = KInput /\ c_fwd i = []) \/
     (nkind n = KNormal /\ exists e, alookup p n = Some e /\ forall d, In d (c_fwd i) -> In d (expr_reads e));
  sk_obs : forall n i d, cget s n = Some i -> In d (c_fwd i) -> alookup (c_obs i) d <> None;
  sk_target : forall n i d, cget s n = Some i -> In d (c_fwd i) -> cget s d <> None;
  sk_inputs : forall k, input_get inp k <> None -> cget s (mkNode KInput k) <> None;
}.

Lemma SInv_nodes : forall inp s s', cs_nodes s' = cs_nodes s -> SInv inp s -> SInv inp s'.
Proof.
  intros inp s s' E H. assert (G : forall m, cget s' m = cget s m) by (intro; unfold cget; rewrite E; reflexivity).
  destruct H as [A B C D]. split.
  - intros n i Hi. rewrite G in Hi. eauto.
  - intros n i d Hi. rewrite G in Hi. eauto.
  - intros n i d Hi Hd. rewrite G in *. eauto.
  - intros k Hk. rewrite G. eauto.
Qed.

Lemma SInv_init : SInv [] cinit.
Proof. split; try (intros; discriminate). intros k H. exfalso. apply H. reflexivity. Qed.

(** frames whose entries all hold a value of a stored node *)
Definition FrS (s : cstate) (fr : cframe) : Prop :=
  forall d, In d (map fst fr) -> (exists x, alookup fr d = Some (Some x)) /\ cget s d <> None.

Lemma SInv_set_computed : forall inp s n e v fr rc,
  SInv inp s -> nkind n = KNormal -> alookup p n = Some e ->
  (forall d, In d (map fst fr) -> In d (expr_reads e)) -> FrS s fr ->
  SInv inp (cset_computed s n v fr rc).
Proof.
  intros inp s n e v fr rc [A B C D] Hk He Hkeys Hfr.
  assert (Hst : forall m, cget s m <> None -> cget (cset_computed s n v fr rc) m <> None).
  { intros m Hm. rewrite cset_computed_cget. destruct (node_eqb n m); [congruence|exact Hm]. }
  split.
  - intros m i Hi. rewrite cset_computed_cget in Hi. destruct (node_eqb_spec n m) as [<-|Hne]; [|eauto].
    inversion Hi. subst i. cbn [c_fwd]. right. split; [exact Hk|]. exists e. auto.
  - intros m i d Hi Hd. rewrite cset_computed_cget in Hi. destruct (node_eqb_spec n m) as [<-|Hne]; [|eauto].
    inversion Hi. subst i. cbn [c_fwd c_obs] in *. destruct (Hfr d Hd) as [[x Hx] _].
    rewrite (cobserved_lookup _ _ _ Hx). congruence.
  - intros m i d Hi Hd. apply Hst. rewrite cset_computed_cget in Hi.
    destruct (node_eqb_spec n m) as [<-|Hne]; [|eauto].
    inversion Hi. subst i. cbn [c_fwd] in Hd. apply (Hfr d Hd).
  - intros k Hk0. apply Hst. eauto.
Qed.

Lemma SInv_clean : forall inp s n i cl, SInv inp s -> cget s n = Some i -> SInv inp (cclean s n cl).
Proof.
  intros inp s n i cl [A B C D] Hi.
  assert (Hst : forall m, cget s m <> None -> cget (cclean s n cl) m <> None).
  { intros m Hm. rewrite (cclean_cget _ _ _ _ _ Hi). destruct (node_eqb n m); [congruence|exact Hm]. }
  split.
  - intros m j Hj. rewrite (cclean_cget _ _ _ _ _ Hi) in Hj. destruct (node_eqb_spec n m) as [<-|Hne]; [|eauto].
    inversion Hj. cbn [c_fwd]. eauto.
  - intros m j d Hj Hd. rewrite (cclean_cget _ _ _ _ _ Hi) in Hj. destruct (node_eqb_spec n m) as [<-|Hne]; [|eauto].
    inversion Hj. subst j. cbn [c_fwd c_obs] in *. eauto.
  - intros m j d Hj Hd. apply Hst. rewrite (cclean_cget _ _ _ _ _ Hi) in Hj.
    destruct (node_eqb_spec n m) as [<-|Hne]; [|eauto]. inversion Hj. subst j. cbn [c_fwd] in Hd. eauto.
  - intros k Hk. apply Hst. eauto.
Qed.

Lemma SInv_set_input : forall inp s v x, SInv inp s -> SInv (input_set inp v x) (cset_input s (mkNode KInput v) x).
Proof.
  intros inp s v x [A B C D]. set (n := mkNode KInput v).
  assert (Hst : forall m, cget s m <> None -> cget (cset_input s n x) m <> None).
  { intros m Hm. rewrite cset_input_cget. destruct (node_eqb n m); [congruence|exact Hm]. }
  split.
  - intros m i Hi. rewrite cset_input_cget in Hi. destruct (node_eqb_spec n m) as [<-|Hne]; [|eauto].
    inversion Hi. left. split; reflexivity.
  - intros m i d Hi Hd. rewrite cset_input_cget in Hi. destruct (node_eqb_spec n m) as [<-|Hne]; [|eauto].
    inversion Hi. subst i. destruct Hd.
  - intros m i d Hi Hd. apply Hst. rewrite cset_input_cget in Hi. destruct (node_eqb_spec n m) as [<-|Hne]; [|eauto].
    inversion Hi. subst i. destruct Hd.
  - intros k Hk. rewrite input_get_set in Hk. destruct (N.eqb_spec k v) as [E|Hne].
    + rewrite E. rewrite cset_input_cget. fold n. rewrite node_eqb_refl. congruence.
    + apply Hst. eauto.
Qed.

Lemma SInv_sess_fold : forall sets inp cur rs batch cur' rs' batch',
  SInv inp cur -> fold_left sess_step sets (cur, rs, batch) = (cur', rs', batch') ->
  SInv (fold_left (fun a '(i, v) => input_set a i v) sets inp) cur'.
Proof.
  induction sets as [|[v x] r IH]; intros inp cur rs batch cur' rs' batch' HS H; cbn [fold_left] in *.
  - inversion H. subst. exact HS.
  - rewrite sess_step_eq in H. eapply IH; [|exact H]. apply SInv_set_input. exact HS.
Qed.

(** * progress *)
Definition Askable (s : cstate) (d : node) : Prop :=
  cget s d <> None \/ (nkind d = KNormal /\ alookup p d <> None).

Lemma Askable_mono : forall stk s s' d, MonoR stk s s' -> Askable s d -> Askable s' d.
Proof. intros stk s s' d HM [H|H]; [left; eapply mr_stored; eauto|right; exact H]. Qed.

(** the abstract stack condition of [Engine/CoreInvRun.v] *)
Variable StkOk : list node -> node -> Prop.
Hypothesis StkOk_notin : forall stk n, StkOk stk n -> ~ In n stk.
Hypothesis StkOk_push : forall stk n e d,
  StkOk stk n -> alookup p n = Some e -> In d (expr_reads e) -> StkOk (n :: stk) d.

Definition Cov (inp : inputs) : Prop :=
  forall n e d, alookup p n = Some e -> In d (expr_reads e) -> nkind d = KInput ->
    input_get inp (nidx d) <> None.

Section Fixed.
Variable inp : inputs.

Lemma reads_askable : forall s n e d, Cov inp -> SInv inp s -> alookup p n = Some e -> In d (expr_reads e) -> Askable s d.
Proof.
  intros s n e d Hcover HS He Hd. destruct (Htargets n e d He Hd) as [K|K]; [left|right; exact K].
  rewrite (input_node_eta d K). apply (sk_inputs _ _ HS). eapply Hcover; eauto.
Qed.

(** each statement: an [Ok] result satisfies the postcondition; any result other than [Ok] /
    [OutOfFuel] refutes the coverage precondition *)
Definition prog_query (f : nat) : Prop :=
  forall stk c fr n s, SInv inp s -> StkOk stk n ->
    match cquery p f stk c fr n s with
    | Ok (o, fr', s') =>
        SInv inp s' /\ exists i, cget s' n = Some i /\
          (match c with CCRepair _ _ => True | _ => o = CValue (c_value i) end) /\
          (forall b pd prev x, c = CCRead b pd prev -> fr = Some x ->
             fr' = Some (aset (cregister x n) n (Some (c_value i))))
    | OutOfFuel => True
    | _ => ~ (Cov inp /\ Askable s n)
    end.
Definition prog_execute (f : nat) : Prop :=
  forall stk c n rc s, SInv inp s -> StkOk stk n ->
    match cexecute p f stk c n rc s with
    | Ok s' => SInv inp s' /\ cget s' n <> None
    | OutOfFuel => True
    | _ => ~ (Cov inp /\ nkind n = KNormal /\ alookup p n <> None)
    end.
Definition prog_eval (f : nat) : Prop :=
  forall stk me e fr s, SInv inp s ->
    (forall d, In d (expr_reads e) -> StkOk stk d) -> FrS s fr -> is_read me ->
    match ceval p f stk me e fr s with
    | Ok (o, fr', s') =>
        SInv inp s' /\ FrS s' fr' /\
        (forall d, In d (map fst fr') -> In d (map fst fr) \/ In d (expr_reads e)) /\
        exists z, o = CEVal z
    | OutOfFuel => True
    | _ => ~ (Cov inp /\ no_group e = true /\ forall d, In d (expr_reads e) -> Askable s d)
    end.
Definition prog_repair (f : nat) : Prop :=
  forall stk c n s, SInv inp s -> StkOk stk n -> cget s n <> None ->
    match crepair p f stk c n s with
    | Ok s' => SInv inp s' /\ cget s' n <> None
    | OutOfFuel => True
    | _ => ~ Cov inp
    end.

Lemma FrS_mono : forall stk s s' fr, MonoR stk s s' -> FrS s fr -> FrS s' fr.
Proof.
  intros stk s s' fr HM H d Hd. destruct (H d Hd) as [A B]. split; [exact A|]. eapply mr_stored; eauto.
Qed.

Lemma prog_walk : forall f n stk pd i, prog_query f -> StkOk stk n ->
  forall cs cleaned fr s, SInv inp s -> cget s n = Some i -> (forall d, In d cs -> In d (c_fwd i)) ->
    match cwalk p f n stk pd i cs cleaned fr s with
    | Ok (rc, cl', s1) => SInv inp s1 /\ cget s1 n = Some i
    | OutOfFuel => True
    | _ => ~ Cov inp
    end.
Proof.
  intros f n stk pd i IHq Hstk.
  induction cs as [|cal r IH]; intros cleaned fr s HS Hi Hsub; cbn [cwalk].
  - auto.
  - cbv zeta.
    assert (Hcal : In cal (c_fwd i)) by (apply Hsub; left; reflexivity).
    assert (Hsub' : forall d, In d r -> In d (c_fwd i)) by (intros; apply Hsub; right; assumption).
    destruct (negb (emem (n, cal) (cs_dirty s)) && negb pd); [apply IH; auto|].
    assert (Hov : alookup (c_obs i) cal <> None) by (eapply sk_obs; eauto).
    destruct (kind_eqb (nkind cal) KInput).
    + assert (Hc : cget s cal <> None) by (eapply sk_target; eauto).
      destruct (cget s cal) as [ci|]; [|congruence].
      destruct (alookup (c_obs i) cal) as [ov|]; [|congruence].
      destruct (negb (c_value ci =? ov)); [auto|]. apply IH; auto.
    + assert (Hrkc : StkOk (n :: stk) cal).
      { destruct (sk_kind _ _ HS n i Hi) as [[_ K2]|[_ [e [He Hr]]]].
        - rewrite K2 in Hcal. destruct Hcal.
        - eapply StkOk_push; eauto. }
      assert (Hask : Askable s cal) by (left; eapply sk_target; eauto).
      pose proof (IHq (n :: stk) (CCRepair n pd) (Some fr) cal s HS Hrkc) as P.
      destruct (cquery p f (n :: stk) (CCRepair n pd) (Some fr) cal s) as [[[o fr'] s']| |c0|] eqn:Eq.
      2: exact I.
      2-3: intro Hp; apply P; split; assumption.
      destruct P as [HS' [ci (Hci & _)]].
      assert (HM : MonoR (n :: stk) s s') by (eapply (proj1 (mono_all p f)); eauto).
      destruct (mr_stk _ _ _ HM n (or_introl eq_refl)) as [Hn1 _].
      rewrite Hci. destruct (alookup (c_obs i) cal) as [ov|]; [|congruence].
      destruct (negb (c_value ci =? ov)).
      * split; [exact HS'|congruence].
      * apply IH; auto. congruence.
Qed.

Lemma prog_all : forall f, prog_query f /\ prog_execute f /\ prog_eval f /\ prog_repair f.
Proof.
  induction f as [|f (IHq & IHx & IHe & IHr)].
  - split; [|split; [|split]]; red; intros; exact I.
  - assert (Hq : prog_query (S f)).
    { red. intros stk c fr n s HS Hstk. rewrite cquery_S. cbv zeta.
      destruct (nmem n stk) eqn:Es.
      { apply nmem_In in Es. exfalso. eapply StkOk_notin; eauto. }
      assert (Hmid : forall s1 (Q : Prop), SInv inp s1 -> cget s1 n <> None ->
                match cq_result (cq_caller c n) (cq_frame (cq_caller c n) fr n) n s1 with
                | Ok (o, fr', s') =>
                    SInv inp s' /\ exists i, cget s' n = Some i /\
                      (match c with CCRepair _ _ => True | _ => o = CValue (c_value i) end) /\
                      (forall b pd prev x, c = CCRead b pd prev -> fr = Some x ->
                         fr' = Some (aset (cregister x n) n (Some (c_value i))))
                | OutOfFuel => True
                | _ => Q
                end).
      { intros s1 Q HS1 Hn1. destruct (cget s1 n) as [i|] eqn:Ei; [|congruence].
        destruct (cq_result (cq_caller c n) (cq_frame (cq_caller c n) fr n) n s1) as [[[o fr'] s']| | |] eqn:Er.
        - destruct (cq_result_spec _ _ _ _ _ _ _ _ Ei Er) as (-> & A & B).
          split; [exact HS1|]. exists i. auto.
        - exact I.
        - unfold cq_result in Er. rewrite Ei in Er. destruct (cq_caller c n); destruct (cq_frame _ fr n); discriminate.
        - unfold cq_result in Er. rewrite Ei in Er. destruct (cq_caller c n); destruct (cq_frame _ fr n); discriminate. }
      destruct (cget s n) as [i|] eqn:Eg.
      - destruct (c_verified i =? cs_ts s)%N.
        + apply Hmid; [exact HS|congruence].
        + pose proof (IHr stk (cq_caller c n) n s HS Hstk) as P. rewrite Eg in P. specialize (P ltac:(congruence)).
          destruct (crepair p f stk (cq_caller c n) n s) as [s1| |c0|].
          2: exact I.
          2-3: intros [Hp _]; apply P; exact Hp.
          destruct P as [HS1 Hn1]. apply Hmid; assumption.
      - pose proof (IHx stk (cq_caller c n) n false s HS Hstk) as P.
        destruct (cexecute p f stk (cq_caller c n) n false s) as [s1| |c0|].
        2: exact I.
        2-3: intros [Hp [K|K]]; [congruence|apply P; tauto].
        destruct P as [HS1 Hn1]. apply Hmid; assumption. }
    assert (Hx : prog_execute (S f)).
    { red. intros stk c n rc s HS Hstk. rewrite cexecute_S. cbv zeta.
      destruct (nkind n) eqn:Hk; try (intros (_ & K & _); discriminate).
      destruct (alookup p n) as [e|] eqn:Ee; [|intros (_ & _ & K); congruence].
      assert (Hpre : forall d, In d (expr_reads e) -> StkOk (n :: stk) d).
      { intros d Hd. eapply StkOk_push; eauto. }
      assert (HS0 : SInv inp (cset_log s (n :: cs_log s))) by (eapply SInv_nodes; [|exact HS]; reflexivity).
      assert (Hfr0 : FrS (cset_log s (n :: cs_log s)) []) by (intros d []).
      match goal with |- context [ceval p f ?a ?b ?c ?d ?e] =>
        pose proof (IHe a b c d e HS0 Hpre Hfr0
                      (ex_intro _ n (ex_intro _ _ (ex_intro _ _ eq_refl)))) as P;
        destruct (ceval p f a b c d e) as [[[o fr1] s1]| |c0|] end.
      2: exact I.
      2-3: intros (Hp & _ & _); apply P; split; [exact Hp|]; split; [eapply Hnog; eauto|];
           intros d Hd; apply (reads_askable s n e d Hp HS Ee Hd).
      destruct P as (HS1 & Hfr1 & Hkeys & _). split.
      - eapply SInv_set_computed; eauto. intros d Hd. destruct (Hkeys d Hd) as [[]|K]. exact K.
      - rewrite cset_computed_cget, node_eqb_refl. congruence. }
    assert (He : prog_eval (S f)).
    { assert (Hbin : forall stk me a b op fr s, SInv inp s ->
                (forall d, In d (expr_reads a ++ expr_reads b) -> StkOk stk d) ->
                FrS s fr -> is_read me ->
                match cbin p f stk me a b op fr s with
                | Ok (o, fr', s') =>
                    SInv inp s' /\ FrS s' fr' /\
                    (forall d, In d (map fst fr') -> In d (map fst fr) \/ In d (expr_reads a ++ expr_reads b)) /\
                    exists z, o = CEVal z
                | OutOfFuel => True
                | _ => ~ (Cov inp /\ (no_group a && no_group b = true) /\
                          forall d, In d (expr_reads a ++ expr_reads b) -> Askable s d)
                end).
      { intros stk me a b op fr s HS Hpre Hfr Hme. unfold cbin.
        assert (Hp1 : forall d, In d (expr_reads a) -> StkOk stk d) by (intros; apply Hpre; apply in_or_app; auto).
        assert (Hp2 : forall d, In d (expr_reads b) -> StkOk stk d) by (intros; apply Hpre; apply in_or_app; auto).
        pose proof (IHe stk me a fr s HS Hp1 Hfr Hme) as P.
        destruct (ceval p f stk me a fr s) as [[[x fr1] s1]| |c0|] eqn:E1.
        2: exact I.
        2-3: intros (Hp & Hg & Ha); apply P; apply andb_true_iff in Hg; split; [exact Hp|]; split; [tauto|];
             intros d Hd; apply Ha; apply in_or_app; auto.
        destruct P as (HS1 & Hfr1 & Hk1 & xv & ->).
        assert (M1 : MonoR stk s s1) by (eapply (proj1 (proj2 (proj2 (mono_all p f)))); eauto).
        pose proof (IHe stk me b fr1 s1 HS1 Hp2 Hfr1 Hme) as P.
        destruct (ceval p f stk me b fr1 s1) as [[[y fr2] s2]| |c0|] eqn:E2.
        2: exact I.
        2-3: intros (Hp & Hg & Ha); apply P; apply andb_true_iff in Hg; split; [exact Hp|]; split; [tauto|];
             intros d Hd; eapply Askable_mono; [exact M1|]; apply Ha; apply in_or_app; auto.
        destruct P as (HS2 & Hfr2 & Hk2 & yv & ->).
        split; [exact HS2|]. split; [exact Hfr2|]. split; [|eauto].
        intros d Hd. destruct (Hk2 d Hd) as [K|K].
        - destruct (Hk1 d K) as [K1|K1]; [left; exact K1|right; apply in_or_app; auto].
        - right. apply in_or_app. auto. }
      red. intros stk me e fr s HS Hpre Hfr Hme. rewrite ceval_S. destruct e; cbn [no_group expr_reads] in *.
      - split; [exact HS|]. split; [exact Hfr|]. split; [auto|eauto].
      - pose proof (IHq stk me (Some fr) n s HS (Hpre n (or_introl eq_refl))) as P.
        destruct (cquery p f stk me (Some fr) n s) as [[[o1 fr1] s1]| |c0|] eqn:E1.
        2: exact I.
        2-3: intros (Hp & _ & Ha); apply P; split; [exact Hp|apply Ha; left; reflexivity].
        assert (HM : MonoR stk s s1) by (eapply (proj1 (mono_all p f)); eauto).
        destruct P as (HS1 & i & Hi & Ho & Hfr1).
        destruct Hme as (b & pd & prev & ->). specialize (Hfr1 b pd prev fr eq_refl eq_refl). subst o1 fr1.
        split; [exact HS1|].
        assert (Hlk : forall d, alookup (aset (cregister fr n) n (Some (c_value i))) d =
                  if node_eqb n d then Some (Some (c_value i)) else alookup fr d).
        { intro d. rewrite alookup_aset. destruct (node_eqb_spec n d) as [->|Hne]; [reflexivity|].
          rewrite cregister_lookup. apply node_eqb_neq in Hne. rewrite Hne.
          destruct (alookup fr d); reflexivity. }
        assert (Hks : forall d, In d (map fst (aset (cregister fr n) n (Some (c_value i)))) <->
                                In d (map fst fr) \/ d = n).
        { intro d. rewrite aset_keys_present by apply cregister_present. apply cregister_keys. }
        split; [|split; [|eauto]].
        + intros d Hd. apply Hks in Hd. rewrite Hlk. destruct (node_eqb_spec n d) as [<-|Hne].
          * split; [eauto|congruence].
          * destruct Hd as [Hd|Hd]; [|congruence]. apply (FrS_mono _ _ _ _ HM Hfr d Hd).
        + intros d Hd. apply Hks in Hd. destruct Hd as [Hd| ->]; [left; exact Hd|right; left; reflexivity].
      - apply Hbin; auto.
      - apply Hbin; auto.
      - pose proof (IHe stk me e fr s HS Hpre Hfr Hme) as P.
        destruct (ceval p f stk me e fr s) as [[[x fr1] s1]| |c0|] eqn:E1.
        2: exact I.
        2-3: exact P.
        destruct P as (HS1 & Hfr1 & Hk1 & xv & ->). split; [exact HS1|]. split; [exact Hfr1|]. split; [exact Hk1|eauto].
      - apply Hbin; auto.
      - assert (Hp1 : forall d, In d (expr_reads e1) -> StkOk stk d) by (intros; apply Hpre; apply in_or_app; auto).
        pose proof (IHe stk me e1 fr s HS Hp1 Hfr Hme) as P.
        destruct (ceval p f stk me e1 fr s) as [[[x fr1] s1]| |c0|] eqn:E1.
        2: exact I.
        2-3: intros (Hp & Hg & Ha); apply P; apply andb_true_iff in Hg; destruct Hg as [Hg _];
             apply andb_true_iff in Hg; split; [exact Hp|]; split; [tauto|];
             intros d Hd; apply Ha; apply in_or_app; auto.
        destruct P as (HS1 & Hfr1 & Hk1 & xv & ->).
        assert (M1 : MonoR stk s s1) by (eapply (proj1 (proj2 (proj2 (mono_all p f)))); eauto).
        assert (Hin2 : forall d, In d (expr_reads (if xv =? 0 then e3 else e2)) ->
                         In d (expr_reads e1 ++ expr_reads e2 ++ expr_reads e3)).
        { intros d Hd. apply in_or_app. right. apply in_or_app. destruct (xv =? 0); auto. }
        assert (Hp2 : forall d, In d (expr_reads (if xv =? 0 then e3 else e2)) -> StkOk stk d)
          by (intros d Hd; apply Hpre; apply Hin2; exact Hd).
        pose proof (IHe stk me _ fr1 s1 HS1 Hp2 Hfr1 Hme) as P.
        destruct (ceval p f stk me (if xv =? 0 then e3 else e2) fr1 s1) as [[[y fr2] s2]| |c0|] eqn:E2.
        2: exact I.
        2-3: intros (Hp & Hg & Ha); apply P; apply andb_true_iff in Hg; destruct Hg as [Hg G3];
             apply andb_true_iff in Hg; destruct Hg as [G1 G2]; split; [exact Hp|]; split;
             [destruct (xv =? 0); assumption|];
             intros d Hd; eapply Askable_mono; [exact M1|]; apply Ha; apply Hin2; exact Hd.
        destruct P as (HS2 & Hfr2 & Hk2 & yv & ->).
        split; [exact HS2|]. split; [exact Hfr2|]. split; [|eauto].
        intros d Hd. destruct (Hk2 d Hd) as [K|K].
        + destruct (Hk1 d K) as [K1|K1]; [left; exact K1|right; apply in_or_app; auto].
        + right. apply Hin2. exact K.
      - intros (_ & K & _). discriminate. }
    assert (Hr : prog_repair (S f)).
    { red. intros stk c n s HS Hstk Hn. rewrite crepair_S.
      destruct (cget s n) as [i|] eqn:Eg; [|congruence].
      pose proof (prog_walk f n stk (cc_pedantic c) i IHq Hstk (c_fwd i) [] [] s HS Eg (fun d Hd => Hd)) as P.
      destruct (cwalk p f n stk (cc_pedantic c) i (c_fwd i) [] [] s) as [[[rc cl] s1]| |c0|] eqn:Ew.
      2: exact I.
      2-3: exact P.
      destruct P as [HS1 Hi1]. destruct rc.
      - (* re-execution: the walk found a difference, so [n] has dependencies: it is a normal query *)
        destruct (sk_kind _ _ HS1 n i Hi1) as [[K1 K2]|[K1 [e [Hbody _]]]].
        + exfalso. rewrite K2 in Ew. cbn [cwalk] in Ew. inversion Ew.
        + pose proof (IHx stk c n true s1 HS1 Hstk) as P.
          destruct (cexecute p f stk c n true s1) as [s2| |c0|].
          2: exact I.
          2-3: intro Hp; apply P; split; [exact Hp|]; split; [exact K1|congruence].
          exact P.
      - split; [eapply SInv_clean; eauto|]. rewrite (cclean_cget _ _ _ _ _ Hi1), node_eqb_refl. congruence. }
    auto.
Qed.
End Fixed.
End Progress.
