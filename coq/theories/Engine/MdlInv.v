(** The state invariant of the full engine model ([Engine/Model.v]) on programs with inputs,
    Normal, Firewall and Projection queries, and its consequences.  It is the invariant of the
    firewall fragment ([Engine/FwInv.v]) with paths running through projections (a projection
    is transparent for the transitive firewall callees) and one relaxation: while the backward
    projections of a changed firewall / projection are running, the projections that read it
    and still hold its old value (the list [X]) are excused from the consistency a clean edge
    above them promises ([mi_C] speaks of [MGoodX X]).  Between operations [X] is empty.
    Two clauses are new with respect to the fragment: the recorded transitive firewall callees
    are EXACTLY what the observations contributed ([mi_tfc_ex]) and the recorded callees are
    exactly the reads of an evaluation of the body against the observations ([mi_kind], [evr]);
    they make the unconditional re-execution of a projection by a backward projection
    harmless when nothing below it changed. *)
From QV Require Import Common.Prelude Engine.Model Engine.Core Engine.CoreSpec Engine.CoreInvBase
  Engine.CoreInvSem Engine.Fw Engine.FwBase Engine.FwMono Engine.FwInv Engine.MdlSpec Engine.MdlSem
  Engine.MdlBase.
Open Scope Z_scope.

Definition thru (n : node) : Prop := nkind n <> KFirewall.
Lemma thru_dec : forall n, {thru n} + {~ thru n}.
Proof. intro n. unfold thru. destruct (nkind n); try (left; discriminate). right. intro H. apply H. reflexivity. Qed.
(** kinds that hand their own transitive firewall callees up *)
Definition tkind (d : node) : Prop := nkind d = KNormal \/ nkind d = KProjection.

(** paths through recorded edges whose nodes after the first are not firewalls *)
Inductive tpath (s : state) : node -> node -> Prop :=
| tp_refl : forall n, tpath s n n
| tp_step : forall n d x, In d (old_fwd s n) -> thru d -> tpath s d x -> tpath s n x.

Definition MGoodX (X : list node) (s : state) (n : node) : Prop :=
  forall x, tpath s n x -> In x X \/ forall d, In d (old_fwd s x) -> edgeok s x d.
Definition MGood (s : state) (n : node) : Prop :=
  forall x, tpath s n x -> forall d, In d (old_fwd s x) -> edgeok s x d.
Definition mreach (s : state) (n F : node) : Prop :=
  exists x, tpath s n x /\ In F (old_fwd s x) /\ nkind F = KFirewall.
Definition MSolid (s : state) (d : node) : Prop :=
  MGood s d /\ forall F, mreach s d F -> sverified s F.
Definition MKeeps (s s' : state) : Prop :=
  forall d i, get_info s d = Some i -> MSolid s d -> exists i', get_info s' d = Some i' /\ same_sem i i'.

(** an observation differs from what a callee verified in this epoch records *)
Definition StaleX (s : state) (x : node) : Prop :=
  exists cal i ci v t, get_info s x = Some i /\ alookup (i_obs i) cal = Some (v, t) /\
    get_info s cal = Some ci /\ i_verified ci = s_ts s /\ i_value ci <> v.

Lemma MGood_GoodX : forall X s n, MGood s n -> MGoodX X s n.
Proof. intros X s n H x Hx. right. apply H. exact Hx. Qed.
Lemma MGoodX_nil : forall s n, MGoodX [] s n -> MGood s n.
Proof. intros s n H x Hx. destruct (H x Hx) as [[]|K]. exact K. Qed.

Lemma tpath_trans : forall s a b c, tpath s a b -> tpath s b c -> tpath s a c.
Proof. intros s a b c H. induction H; intro H2; [exact H2|]. econstructor; eauto. Qed.
Lemma tpath_snoc : forall s a b d, tpath s a b -> In d (old_fwd s b) -> thru d -> tpath s a d.
Proof. intros s a b d H Hd Hn. eapply tpath_trans; [exact H|]. econstructor; eauto. constructor. Qed.
Lemma tpath_last : forall s x y, tpath s x y ->
  x = y \/ exists z, tpath s x z /\ In y (old_fwd s z) /\ thru y.
Proof.
  intros s x y H. induction H as [n|n d x Hd Hn Hp IH]; [left; reflexivity|right].
  destruct IH as [->|[z (A & B & C)]].
  - exists n. split; [constructor|auto].
  - exists z. split; [econstructor; eauto|auto].
Qed.

Lemma MGood_step : forall s n d, MGood s n -> In d (old_fwd s n) -> thru d -> MGood s d.
Proof. intros s n d H Hd Hn x Hx. apply H. econstructor; eauto. Qed.
Lemma MGood_path : forall s n x, MGood s n -> tpath s n x -> MGood s x.
Proof. intros s n x H Hp y Hy. apply H. eapply tpath_trans; eauto. Qed.
Lemma MGoodX_path : forall X s n x, MGoodX X s n -> tpath s n x -> MGoodX X s x.
Proof. intros X s n x H Hp y Hy. apply H. eapply tpath_trans; eauto. Qed.
Lemma mreach_step : forall s n d F, In d (old_fwd s n) -> thru d -> mreach s d F -> mreach s n F.
Proof. intros s n d F Hd Hn [x (A & B & C)]. exists x. split; [econstructor; eauto|auto]. Qed.
Lemma mreach_direct : forall s n F, In F (old_fwd s n) -> nkind F = KFirewall -> mreach s n F.
Proof. intros s n F H K. exists n. split; [constructor|auto]. Qed.
Lemma mreach_path : forall s n x F, tpath s n x -> mreach s x F -> mreach s n F.
Proof. intros s n x F Hp [y (A & B & C)]. exists y. split; [eapply tpath_trans; eauto|auto]. Qed.
Lemma MSolid_step : forall s n d, MSolid s n -> In d (old_fwd s n) -> thru d -> MSolid s d.
Proof.
  intros s n d [G R] Hd Hn. split; [eapply MGood_step; eauto|].
  intros F HF. apply R. eapply mreach_step; eauto.
Qed.
Lemma MSolid_path : forall s n x, MSolid s n -> tpath s n x -> MSolid s x.
Proof. intros s n x H Hp. induction Hp; [exact H|]. apply IHHp. eapply MSolid_step; eauto. Qed.

Lemma MGood_intro : forall s n,
  (forall d, In d (old_fwd s n) -> edgeok s n d /\ (thru d -> MGood s d)) -> MGood s n.
Proof.
  intros s n H x Hx. inversion Hx; subst.
  - intros d Hd. exact (proj1 (H d Hd)).
  - intros y Hy. destruct (H d H0) as [_ G]. apply (G H1 x H2 y Hy).
Qed.

(** ** what a state change that leaves the nodes below [b] alone keeps *)
Lemma tpath_frame : forall s s' b x,
  tpath s b x -> (forall y, tpath s b y -> old_fwd s' y = old_fwd s y) -> tpath s' b x.
Proof.
  intros s s' b x H. induction H; intro Hf; [constructor|].
  econstructor.
  - rewrite (Hf n (tp_refl s n)). exact H.
  - exact H0.
  - apply IHtpath. intros y Hy. apply Hf. econstructor; eauto.
Qed.
Lemma tpath_frame_inv : forall s s' b x,
  tpath s' b x -> (forall y, tpath s b y -> old_fwd s' y = old_fwd s y) -> tpath s b x.
Proof.
  intros s s' b x H. induction H; intro Hf; [constructor|].
  assert (Hd : In d (old_fwd s n)) by (rewrite <- (Hf n (tp_refl s n)); exact H).
  econstructor; [exact Hd|exact H0|]. apply IHtpath. intros y Hy. apply Hf. econstructor; eauto.
Qed.
Lemma MGood_frame : forall s s' b,
  MGood s b ->
  (forall y, tpath s b y -> old_fwd s' y = old_fwd s y) ->
  (forall y d, tpath s b y -> In d (old_fwd s y) -> edgeok s y d -> edgeok s' y d) ->
  MGood s' b.
Proof.
  intros s s' b HG Hf He x Hx d Hd.
  assert (Hx0 : tpath s b x) by (eapply tpath_frame_inv; eauto).
  rewrite (Hf x Hx0) in Hd. apply He; auto.
Qed.
Lemma mreach_frame_inv : forall s s' b F,
  mreach s' b F -> (forall y, tpath s b y -> old_fwd s' y = old_fwd s y) -> mreach s b F.
Proof.
  intros s s' b F [x (A & B & C)] Hf.
  assert (Hx0 : tpath s b x) by (eapply tpath_frame_inv; eauto).
  exists x. split; [exact Hx0|]. rewrite (Hf x Hx0) in B. auto.
Qed.

Lemma MKeeps_refl : forall s, MKeeps s s.
Proof. intros s d i Hi _. exists i. split; [exact Hi|repeat split]. Qed.

(** predicates that only look at the node table *)
Section SameNodes.
Variables s s' : state.
Hypothesis Hg : forall m, get_info s' m = get_info s m.

Lemma msn_fwd : forall m, old_fwd s' m = old_fwd s m.
Proof. intro m. unfold old_fwd. rewrite Hg. reflexivity. Qed.
Lemma msn_edgeok : forall a b, edgeok s' a b <-> edgeok s a b.
Proof. intros. unfold edgeok. rewrite !Hg. reflexivity. Qed.
Lemma msn_tpath : forall a b, tpath s' a b <-> tpath s a b.
Proof.
  intros a b. split; intro H; induction H; try constructor; econstructor; eauto;
    [rewrite <- msn_fwd|rewrite msn_fwd]; assumption.
Qed.
Lemma msn_GoodX : forall X a, MGoodX X s' a <-> MGoodX X s a.
Proof.
  intros X a. unfold MGoodX. split; intros H x Hx.
  - destruct (H x (proj2 (msn_tpath a x) Hx)) as [K|K]; [left; exact K|right].
    intros d Hd. apply msn_edgeok. apply K. rewrite msn_fwd. exact Hd.
  - destruct (H x (proj1 (msn_tpath a x) Hx)) as [K|K]; [left; exact K|right].
    intros d Hd. apply msn_edgeok. apply K. rewrite <- msn_fwd. exact Hd.
Qed.
Lemma msn_Good : forall a, MGood s' a <-> MGood s a.
Proof.
  intro a. unfold MGood. split; intros H x Hx d Hdx.
  - apply msn_edgeok. apply H; [apply msn_tpath; exact Hx|rewrite msn_fwd; exact Hdx].
  - apply msn_edgeok. apply H; [apply msn_tpath; exact Hx|rewrite <- msn_fwd; exact Hdx].
Qed.
Lemma msn_reach : forall a F, mreach s' a F <-> mreach s a F.
Proof.
  intros a F. unfold mreach. split; intros [x (A & B & C)]; exists x.
  - split; [apply msn_tpath; exact A|]. rewrite <- msn_fwd. auto.
  - split; [apply msn_tpath; exact A|]. rewrite msn_fwd. auto.
Qed.
Lemma msn_verified : s_ts s' = s_ts s -> forall m, sverified s' m <-> sverified s m.
Proof. intros Ht m. unfold sverified. rewrite Hg, Ht. reflexivity. Qed.
Lemma msn_Solid : s_ts s' = s_ts s -> forall a, MSolid s' a <-> MSolid s a.
Proof.
  intros Ht a. unfold MSolid. rewrite msn_Good. split; intros [A B]; (split; [exact A|]); intros F HF.
  - apply (proj1 (msn_verified Ht F)). apply B. apply (proj2 (msn_reach a F)). exact HF.
  - apply (proj2 (msn_verified Ht F)). apply B. apply (proj1 (msn_reach a F)). exact HF.
Qed.
Lemma msn_StaleX : s_ts s' = s_ts s -> forall x, StaleX s' x <-> StaleX s x.
Proof. intros Ht x. unfold StaleX. rewrite Ht. setoid_rewrite Hg. reflexivity. Qed.
Lemma msn_Stale : forall x, Stale s' x <-> Stale s x.
Proof.
  intro x. unfold Stale. split; intros [cal [A B]]; exists cal.
  - rewrite <- msn_fwd. split; [exact A|]. intro K. apply B. apply msn_edgeok. exact K.
  - rewrite msn_fwd. split; [exact A|]. intro K. apply B. apply msn_edgeok. exact K.
Qed.
End SameNodes.

(** * the invariant *)
Section Inv.
Variable p : program.
Variable rk : node -> nat.

(** the executions of the running operation are justified: a node executed since the state [s0]
    at which the operation started was not stored then, or held an observation that is not the
    from-scratch value any more *)
(** inputs and external inputs: no dependencies, their value is the environment's *)
Definition leaf (n : node) : Prop := nkind n = KInput \/ nkind n = KExternal.
Definition leaf_val (env : menv) (n : node) : option Z :=
  match nkind n with
  | KInput => input_get (fst env) (nidx n)
  | KExternal => snd env (nidx n)
  | _ => None
  end.

Definition JustAt (s0 : state) (inp : menv) (m : node) : Prop :=
  get_info s0 m = None \/
  exists i cal x, get_info s0 m = Some i /\ obsV i cal x /\ ~ MSpecI p inp cal x.

Record MInvE (s0 : state) (Ex : node -> Prop) (X : list node) (inp : menv) (s : state) : Prop := {
  mi_kind : forall n i, get_info s n = Some i ->
     (leaf n /\ i_fwd i = [] /\ i_obs i = [] /\ i_tfc i = [] /\
      leaf_val inp n = Some (i_value i))
     \/ (is_mexec_kind (nkind n) = true /\ exists e l, alookup p n = Some e /\ evr (obsV i) e (i_value i) l /\
          (forall d, In d (all_callees (i_fwd i)) <-> In d l));
  mi_obs : forall n i d, get_info s n = Some i -> In d (all_callees (i_fwd i)) ->
             exists o, alookup (i_obs i) d = Some o;
  mi_obs_fwd : forall n i d o, get_info s n = Some i -> alookup (i_obs i) d = Some o ->
             In d (all_callees (i_fwd i));
  mi_target : forall n d, In d (old_fwd s n) -> get_info s d <> None;
  mi_bwd : forall n d, In n (callers_of s d) <-> In d (old_fwd s n);
  mi_dirty_edge : forall a b, sdirty s a b -> In b (old_fwd s a);
  mi_ts : forall n i, get_info s n = Some i -> (i_verified i <= s_ts s)%N;
  (* the recorded transitive firewall callees are what the callees contributed *)
  mi_tfc : forall n i d v t, get_info s n = Some i -> alookup (i_obs i) d = Some (v, t) ->
             (nkind d = KFirewall -> In d (i_tfc i)) /\
             (tkind d -> forall F, In F t -> In F (i_tfc i));
  mi_tfc_ex : forall n i F, get_info s n = Some i -> In F (i_tfc i) ->
             exists d v t, alookup (i_obs i) d = Some (v, t) /\
               ((nkind d = KFirewall /\ F = d) \/ (tkind d /\ In F t));
  mi_tfc_rk : forall n i F, get_info s n = Some i -> In F (i_tfc i) -> (rk F < rk n)%nat;
  mi_tfc_fw : forall n i F, get_info s n = Some i -> In F (i_tfc i) -> nkind F = KFirewall;
  mi_C : forall n d, In d (old_fwd s n) -> ~ sdirty s n d -> edgeok s n d /\ (thru d -> MGoodX X s d);
  mi_G : forall n, sverified s n -> MGood s n;
  mi_T : forall n F, sverified s n -> mreach s n F -> sverified s F;
  mi_V : forall n i, get_info s n = Some i -> i_verified i = s_ts s -> MSpecI p inp n (i_value i);
  mi_PV : forall x, In x (s_visited s) ->
            Ex x \/ sverified s x \/
            (nkind x <> KInput /\
             forall c, In c (callers_of s x) -> sdirty s c x /\ (thru c -> In c (s_visited s)));
  mi_X : forall x, In x X -> nkind x = KProjection /\ (sverified s x \/ StaleX s x);
  (* bookkeeping relative to the state [s0] at which the running operation started *)
  mi_J : forall m, In m (s_log s) -> JustAt s0 inp m;
  mi_U : forall m, sverified s m \/ get_info s m = get_info s0 m;
  mi_O : forall m i, get_info s m = Some i ->
           In m (s_log s) \/ exists i0, get_info s0 m = Some i0 /\ forall d x, obsV i d x <-> obsV i0 d x;
  (* external inputs: one that is not stored yet would get the world's current answer *)
  mi_W : forall k, get_info s (ext_node k) = None -> snd inp k = Some (world_get s k);
  mi_ext : forall e, In e (s_ext s) -> nkind e = KExternal;
}.

Hypothesis Hrk : forall n e d, alookup p n = Some e -> In d (expr_reads e) -> (rk d < rk n)%nat.

Definition init_env : menv := ([], fun k => Some (world_get init_state k)).
Lemma MInv_init : forall Ex, MInvE init_state Ex [] init_env init_state.
Proof.
  intro Ex. split; try (intros; discriminate); try (intros; contradiction).
  - intros n d. cbn. tauto.
  - intros n [i [H _]]. discriminate.
  - intros n F [i [H _]]. discriminate.
  - intro m. right. reflexivity.
  - intros k _. reflexivity.
Qed.

Lemma MInv_same3 : forall s0 s0' Ex X inp inp' s s',
  s_nodes s' = s_nodes s -> s_bwd s' = s_bwd s -> s_dirty s' = s_dirty s -> s_ts s' = s_ts s ->
  s_ext s' = s_ext s ->
  (s_visited s' = s_visited s \/ s_visited s' = []) ->
  (forall n i, get_info s n = Some i -> leaf n -> leaf_val inp' n = leaf_val inp n) ->
  (forall n i, get_info s n = Some i -> i_verified i = s_ts s -> MSpecI p inp' n (i_value i)) ->
  (forall k, get_info s (ext_node k) = None -> snd inp' k = Some (world_get s' k)) ->
  (forall m, In m (s_log s') -> JustAt s0' inp' m) ->
  (forall m, sverified s' m \/ get_info s' m = get_info s0' m) ->
  (forall m i, get_info s' m = Some i ->
     In m (s_log s') \/ exists i0, get_info s0' m = Some i0 /\ forall d x, obsV i d x <-> obsV i0 d x) ->
  MInvE s0 Ex X inp s -> MInvE s0' Ex X inp' s'.
Proof.
  intros s0 s0' Ex X inp inp' s s' Hn Hb Hd Ht Hxt Hv HK HV HW HJ HU HO HI.
  assert (Hg : forall m, get_info s' m = get_info s m) by (intro m; unfold get_info; rewrite Hn; reflexivity).
  assert (Hf : forall m, old_fwd s' m = old_fwd s m) by (apply msn_fwd; exact Hg).
  assert (Hc : forall m, callers_of s' m = callers_of s m) by (intro m; unfold callers_of; rewrite Hb; reflexivity).
  assert (Hsd : forall a b, sdirty s' a b <-> sdirty s a b) by (intros; unfold sdirty; rewrite Hd; reflexivity).
  assert (Hsv : forall m, sverified s' m <-> sverified s m) by (apply msn_verified; assumption).
  destruct HI. split.
  - intros n i. rewrite Hg. intro Hi. destruct (mi_kind0 n i Hi) as [(K1 & K2 & K3 & K4 & K5)|K]; [left|right; exact K].
    rewrite (HK n i Hi K1). auto.
  - intros n i d. rewrite Hg. apply mi_obs0.
  - intros n i d o. rewrite Hg. apply mi_obs_fwd0.
  - intros n d. rewrite Hf, Hg. apply mi_target0.
  - intros n d. rewrite Hc, Hf. apply mi_bwd0.
  - intros a b. rewrite Hsd, Hf. apply mi_dirty_edge0.
  - intros n i. rewrite Hg, Ht. apply mi_ts0.
  - intros n i d v t. rewrite Hg. apply mi_tfc0.
  - intros n i F. rewrite Hg. apply mi_tfc_ex0.
  - intros n i F. rewrite Hg. apply mi_tfc_rk0.
  - intros n i F. rewrite Hg. apply mi_tfc_fw0.
  - intros n d. rewrite Hf, Hsd, (msn_edgeok _ _ Hg). intros A B. destruct (mi_C0 n d A B) as [C D]. split; [exact C|].
    intro K. apply (msn_GoodX _ _ Hg). auto.
  - intros n. rewrite Hsv, (msn_Good _ _ Hg). apply mi_G0.
  - intros n F. rewrite !Hsv, (msn_reach _ _ Hg). apply mi_T0.
  - intros n i. rewrite Hg, Ht. apply HV.
  - intros x Hx. destruct Hv as [Hv|Hv]; [|rewrite Hv in Hx; destruct Hx].
    rewrite Hv in Hx. destruct (mi_PV0 x Hx) as [K|[K|[K0 K]]].
    + left. exact K.
    + right. left. apply Hsv. exact K.
    + right. right. split; [exact K0|]. intros c Hcx. rewrite Hc in Hcx. destruct (K c Hcx) as [K1 K2]. split; [apply Hsd; exact K1|].
      rewrite Hv. exact K2.
  - intros x Hx. destruct (mi_X0 x Hx) as [K1 K2]. split; [exact K1|].
    destruct K2 as [K2|K2]; [left; apply Hsv; exact K2|right; apply (msn_StaleX _ _ Hg Ht); exact K2].
  - exact HJ.
  - exact HU.
  - exact HO.
  - intros k. rewrite Hg. apply HW.
  - intros e. rewrite Hxt. apply mi_ext0.
Qed.

Lemma MInv_same2 : forall s0 s0' Ex X inp s s',
  s_nodes s' = s_nodes s -> s_bwd s' = s_bwd s -> s_dirty s' = s_dirty s -> s_ts s' = s_ts s ->
  s_world s' = s_world s -> s_ext s' = s_ext s ->
  (s_visited s' = s_visited s \/ s_visited s' = []) ->
  (forall m, In m (s_log s') -> JustAt s0' inp m) ->
  (forall m, sverified s' m \/ get_info s' m = get_info s0' m) ->
  (forall m i, get_info s' m = Some i ->
     In m (s_log s') \/ exists i0, get_info s0' m = Some i0 /\ forall d x, obsV i d x <-> obsV i0 d x) ->
  MInvE s0 Ex X inp s -> MInvE s0' Ex X inp s'.
Proof.
  intros s0 s0' Ex X inp s s' Hn Hb Hd Ht Hw Hxt Hv HJ HU HO HI.
  apply (MInv_same3 s0 s0' Ex X inp inp s s' Hn Hb Hd Ht Hxt Hv); auto.
  - intros n i. apply (mi_V _ _ _ _ _ HI).
  - intros k Hk. unfold world_get. rewrite Hw. apply (mi_W _ _ _ _ _ HI). exact Hk.
Qed.


Lemma MInv_same : forall s0 Ex X inp s s',
  s_nodes s' = s_nodes s -> s_bwd s' = s_bwd s -> s_dirty s' = s_dirty s -> s_ts s' = s_ts s ->
  s_world s' = s_world s -> s_ext s' = s_ext s ->
  (s_visited s' = s_visited s \/ s_visited s' = []) ->
  (forall m, In m (s_log s') -> In m (s_log s) \/ JustAt s0 inp m) ->
  (forall m, In m (s_log s) -> In m (s_log s')) ->
  MInvE s0 Ex X inp s -> MInvE s0 Ex X inp s'.
Proof.
  intros s0 Ex X inp s s' Hn Hb Hd Ht Hw Hx Hv HlJ HlO HI.
  assert (Hg : forall m, get_info s' m = get_info s m) by (intro m; unfold get_info; rewrite Hn; reflexivity).
  apply (MInv_same2 s0 s0 Ex X inp s s' Hn Hb Hd Ht Hw Hx Hv); [| | |exact HI].
  - intros m Hm. destruct (HlJ m Hm) as [K|K]; [eapply mi_J; eauto|exact K].
  - intro m. rewrite Hg. destruct (mi_U _ _ _ _ _ HI m) as [K|K]; [left; apply (msn_verified _ _ Hg Ht); exact K|right; exact K].
  - intros m i. rewrite Hg. intro Hi. destruct (mi_O _ _ _ _ _ HI m i Hi) as [K|K]; [left; apply HlO; exact K|right; exact K].
Qed.

Lemma MInv_log_push : forall s0 Ex X inp s n, MInvE s0 Ex X inp s -> JustAt s0 inp n ->
  MInvE s0 Ex X inp (set_log s (n :: s_log s)).
Proof.
  intros s0 Ex X inp s n H HJ. eapply MInv_same; [| | | | | | | | |exact H]; try reflexivity.
  - left. reflexivity.
  - intros m [<-|Hm]; [right; exact HJ|left; exact Hm].
  - intros m Hm. right. exact Hm.
Qed.

(** a new operation starts: the bookkeeping is relative to the state with the emptied log *)
Lemma MInv_rebase : forall s0 Ex X inp s s',
  s_nodes s' = s_nodes s -> s_bwd s' = s_bwd s -> s_dirty s' = s_dirty s -> s_ts s' = s_ts s ->
  s_world s' = s_world s -> s_ext s' = s_ext s ->
  (s_visited s' = s_visited s \/ s_visited s' = []) -> s_log s' = [] ->
  MInvE s0 Ex X inp s -> MInvE s' Ex X inp s'.
Proof.
  intros s0 Ex X inp s s' Hn Hb Hd Ht Hw Hx Hv Hl HI. apply (MInv_same2 s0 s' Ex X inp s s' Hn Hb Hd Ht Hw Hx Hv); [| | |exact HI].
  - intros m Hm. rewrite Hl in Hm. destruct Hm.
  - intro m. right. reflexivity.
  - intros m i Hi. right. exists i. split; [exact Hi|]. intros. reflexivity.
Qed.

Lemma mfwd_reads : forall s0 Ex X inp s n i e d, MInvE s0 Ex X inp s -> get_info s n = Some i -> alookup p n = Some e ->
  In d (all_callees (i_fwd i)) -> In d (expr_reads e).
Proof.
  intros s0 Ex X inp s n i e d HI Hi He Hd. destruct (mi_kind _ _ _ _ _ HI n i Hi) as [(_ & K & _)|(_ & e0 & l & He0 & Hev & Hl)].
  - rewrite K in Hd. destruct Hd.
  - assert (e0 = e) by congruence. subst e0. eapply evr_reads; eauto. apply Hl. exact Hd.
Qed.
Lemma mfwd_rk : forall s0 Ex X inp s n d, MInvE s0 Ex X inp s -> In d (old_fwd s n) -> (rk d < rk n)%nat.
Proof.
  intros s0 Ex X inp s n d HI Hd. unfold old_fwd in Hd. destruct (get_info s n) as [i|] eqn:Hi; [|destruct Hd].
  destruct (mi_kind _ _ _ _ _ HI n i Hi) as [(_ & K & _)|(_ & e & l & He & Hev & Hl)].
  - rewrite K in Hd. destruct Hd.
  - eapply Hrk; eauto. eapply evr_reads; eauto. apply Hl. exact Hd.
Qed.
Lemma tpath_rk : forall s0 Ex X inp s n x, MInvE s0 Ex X inp s -> tpath s n x -> (rk x <= rk n)%nat.
Proof.
  intros s0 Ex X inp s n x HI H. induction H; [lia|]. pose proof (mfwd_rk _ _ _ _ _ _ _ HI H). lia.
Qed.
Lemma tpath_stored : forall s0 Ex X inp s n x, MInvE s0 Ex X inp s -> get_info s n <> None -> tpath s n x -> get_info s x <> None.
Proof.
  intros s0 Ex X inp s n x HI Hn H. induction H; [exact Hn|]. apply IHtpath. eapply mi_target; eauto.
Qed.
Lemma mleaf_no_fwd : forall s0 Ex X inp s n, MInvE s0 Ex X inp s -> leaf n -> old_fwd s n = [].
Proof.
  intros s0 Ex X inp s n HI K. unfold old_fwd. destruct (get_info s n) as [i|] eqn:Hi; [|reflexivity].
  destruct (mi_kind _ _ _ _ _ HI n i Hi) as [(_ & F & _)|(K2 & _)]; [rewrite F; reflexivity|].
  destruct K as [K|K]; rewrite K in K2; discriminate.
Qed.
Lemma minput_no_fwd : forall s0 Ex X inp s n, MInvE s0 Ex X inp s -> nkind n = KInput -> old_fwd s n = [].
Proof. intros s0 Ex X inp s n HI K. eapply mleaf_no_fwd; eauto. left. exact K. Qed.
Lemma mstored_kind : forall s0 Ex X inp s n i, MInvE s0 Ex X inp s -> get_info s n = Some i ->
  leaf n \/ nkind n = KFirewall \/ tkind n.
Proof.
  intros s0 Ex X inp s n i HI Hi. destruct (mi_kind _ _ _ _ _ HI n i Hi) as [(K & _)|(K & _)]; [auto|].
  unfold tkind. destruct (nkind n); try discriminate; auto.
Qed.
Lemma thru_stored : forall s0 Ex X inp s n i, MInvE s0 Ex X inp s -> get_info s n = Some i -> thru n ->
  leaf n \/ tkind n.
Proof.
  intros s0 Ex X inp s n i HI Hi Hn. destruct (mstored_kind _ _ _ _ _ _ _ HI Hi) as [K|[K|K]]; auto. contradiction.
Qed.
Lemma leaf_thru : forall n, leaf n -> thru n.
Proof. intros n [K|K]; unfold thru; rewrite K; discriminate. Qed.
Lemma MSpecI_leaf : forall env n v, leaf n -> leaf_val env n = Some v -> MSpecI p env n v.
Proof.
  intros env n v [K|K] H; unfold leaf_val in H; rewrite K in H; [apply MSpecI_input|apply MSpecI_ext]; assumption.
Qed.
Lemma tkind_thru : forall n, tkind n -> thru n.
Proof. intros n [K|K]; unfold thru; rewrite K; discriminate. Qed.
Lemma input_thru : forall n, nkind n = KInput -> thru n.
Proof. intros n K. unfold thru. rewrite K. discriminate. Qed.

(** the transitive firewall callees recorded for a consistent node contain every reachable firewall *)
Lemma MGood_tfc : forall s0 Ex X inp s, MInvE s0 Ex X inp s -> forall d x, tpath s d x ->
  MGood s d -> forall F i, In F (old_fwd s x) -> nkind F = KFirewall -> get_info s d = Some i -> In F (i_tfc i).
Proof.
  intros s0 Ex X inp s HI d x H. induction H as [n|n d x Hd Hnf Hp IH]; intros HG F i HF KF Hi.
  - destruct (HG n (tp_refl s n) F HF) as (i0 & j & v & t & A & B & C & _).
    assert (i0 = i) by congruence. subst i0. apply (proj1 (mi_tfc _ _ _ _ _ HI n i F v t Hi C)). exact KF.
  - destruct (HG n (tp_refl s n) d Hd) as (i0 & j & v & t & A & B & C & _ & E).
    assert (i0 = i) by congruence. subst i0.
    assert (Kd : tkind d).
    { destruct (thru_stored _ _ _ _ _ _ _ HI B Hnf) as [K|K]; [|exact K].
      pose proof (mleaf_no_fwd _ _ _ _ _ _ HI K) as E0. inversion Hp; subst; [rewrite E0 in HF; destruct HF|].
      match goal with H : In _ (old_fwd s d) |- _ => rewrite E0 in H; destruct H end. }
    assert (In F (i_tfc j)) by (eapply IH; eauto; eapply MGood_step; eauto).
    apply (proj2 (mi_tfc _ _ _ _ _ HI n i d v t Hi C) Kd). apply (E Hnf). assumption.
Qed.
Lemma MGood_reach_tfc : forall s0 Ex X inp s d i F, MInvE s0 Ex X inp s -> MGood s d -> mreach s d F ->
  get_info s d = Some i -> In F (i_tfc i).
Proof. intros s0 Ex X inp s d i F HI HG [x (A & B & C)] Hi. eapply MGood_tfc; eauto. Qed.

Lemma fw_or_thru : forall n, nkind n = KFirewall \/ thru n.
Proof. intro n. destruct (thru_dec n); auto. left. unfold thru in n0. destruct (nkind n); try (exfalso; apply n0; discriminate). reflexivity. Qed.

(** a consistent node whose reachable firewalls are verified holds its from-scratch value *)
Lemma MSolid_value : forall s0 Ex X inp s, MInvE s0 Ex X inp s -> forall k d i, (rk d < k)%nat ->
  get_info s d = Some i -> MSolid s d -> MSpecI p inp d (i_value i).
Proof.
  intros s0 Ex X inp s HI. induction k as [|k IH]; intros d i Hk Hi [HG HR]; [lia|].
  destruct (mi_kind _ _ _ _ _ HI d i Hi) as [(K1 & _ & _ & _ & K5)|(K1 & e & l & He & Hev & Hl)].
  - apply MSpecI_leaf; assumption.
  - eapply MSpecI_exec; eauto. eapply evr_msev; [exact Hev|].
    intros y v _ [t Ho].
    assert (Hy : In y (old_fwd s d)).
    { unfold old_fwd. rewrite Hi. eapply mi_obs_fwd; eauto. }
    destruct (HG d (tp_refl s d) y Hy) as (i0 & j & v0 & t0 & A & B & C & D & _).
    assert (i0 = i) by congruence. subst i0. assert (v0 = v) by congruence. subst v0. subst v.
    destruct (fw_or_thru y) as [Ky|Ky].
    + destruct (HR y (mreach_direct _ _ _ Hy Ky)) as [j' [B' V']].
      assert (j' = j) by congruence. subst j'. eapply mi_V; eauto.
    + apply IH; auto.
      * pose proof (mfwd_rk _ _ _ _ _ _ _ HI Hy). lia.
      * eapply MSolid_step; eauto. split; assumption.
Qed.

(** a verified node is solid *)
Lemma verified_Solid : forall s0 Ex X inp s n, MInvE s0 Ex X inp s -> sverified s n -> MSolid s n.
Proof.
  intros s0 Ex X inp s n HI Hv. split; [eapply mi_G; eauto|]. intros F HF. eapply mi_T; eauto.
Qed.

(** the from-scratch values of the consistent part of the graph only depend on the inputs and on
    the external inputs that are stored *)
Lemma node_ext_eta : forall n, nkind n = KExternal -> n = ext_node (nidx n).
Proof. intros [k i] K. cbn in K. subst k. reflexivity. Qed.

Lemma respec : forall s0 Ex X env env' s, MInvE s0 Ex X env s -> fst env' = fst env ->
  (forall k i, get_info s (ext_node k) = Some i -> snd env' k = Some (i_value i)) ->
  forall k0 n i, (rk n < k0)%nat -> get_info s n = Some i -> (sverified s n \/ MSolid s n) ->
  MSpecI p env' n (i_value i).
Proof.
  intros s0 Ex X env env' s HI He1 He2. induction k0 as [|k0 IH]; intros n i Hk Hi Hvs; [lia|].
  assert (HS : MSolid s n) by (destruct Hvs as [Hv|HS]; [eapply verified_Solid; eauto|exact HS]).
  destruct HS as [HG HR].
  destruct (mi_kind _ _ _ _ _ HI n i Hi) as [(K1 & _ & _ & _ & K5)|(K1 & e & l & He & Hev & Hl)].
  - apply MSpecI_leaf; [exact K1|]. unfold leaf_val in *. destruct K1 as [K1|K1]; rewrite K1 in *; cbv iota in *.
    + etransitivity; [|exact K5]. f_equal. exact He1.
    + apply He2. rewrite <- (node_ext_eta n K1). exact Hi.
  - eapply MSpecI_exec; eauto. eapply evr_msev; [exact Hev|].
    intros y v Hyl [t Ho].
    assert (Hy : In y (old_fwd s n)) by (unfold old_fwd; rewrite Hi; apply Hl; exact Hyl).
    destruct (HG n (tp_refl s n) y Hy) as (i0 & j & v0 & t0 & A & B & C & D & _).
    assert (i0 = i) by congruence. subst i0. assert (v0 = v) by congruence. subst v0. subst v.
    pose proof (mfwd_rk _ _ _ _ _ _ _ HI Hy) as Hr.
    destruct (fw_or_thru y) as [Ky|Ky].
    + apply IH; [lia|exact B|]. left. apply HR. apply mreach_direct; assumption.
    + apply IH; [lia|exact B|]. right. eapply MSolid_step; eauto. split; assumption.
Qed.

(** a node with an inconsistent edge that is not excused has no clean edge above it *)
Lemma Stale_not_MGood : forall s n x, Stale s n -> tpath s x n -> ~ MGood s x.
Proof. intros s n x [cal [A B]] Hp HG. apply B. apply (HG n Hp cal A). Qed.
Lemma Stale_not_MGoodX : forall X s n x, Stale s n -> ~ In n X -> tpath s x n -> ~ MGoodX X s x.
Proof.
  intros X s n x [cal [A B]] Hn Hp HG. destruct (HG n Hp) as [K|K]; [contradiction|]. apply B. apply K. exact A.
Qed.
Lemma Stale_callers_dirty : forall s0 Ex X inp s n a, MInvE s0 Ex X inp s -> Stale s n -> thru n -> ~ In n X ->
  In n (old_fwd s a) -> sdirty s a n.
Proof.
  intros s0 Ex X inp s n a HI HS Hn HX Ha.
  destruct (in_dec edge_dec (a, n) (s_dirty s)) as [K|K]; [exact K|]. exfalso.
  destruct (mi_C _ _ _ _ _ HI a n Ha K) as [_ G]. eapply Stale_not_MGoodX; eauto. constructor.
Qed.
Lemma StaleX_Stale : forall s0 Ex X inp s n, MInvE s0 Ex X inp s -> StaleX s n -> Stale s n.
Proof.
  intros s0 Ex X inp s n HI (cal & i & ci & v & t & A & B & C & D & E). exists cal. split.
  - unfold old_fwd. rewrite A. eapply mi_obs_fwd; eauto.
  - intros (i0 & j & v0 & t0 & A0 & B0 & C0 & D0 & _). apply E. congruence.
Qed.

(** * closing a window: excused projections that have been verified need no excuse *)
Lemma MInv_close : forall s0 Ex X Y inp s, MInvE s0 Ex (X ++ Y) inp s -> (forall y, In y Y -> sverified s y) -> MInvE s0 Ex X inp s.
Proof.
  intros s0 Ex X Y inp s HI HY. destruct HI. split; auto.
  - intros n d Hd Hc. destruct (mi_C0 n d Hd Hc) as [A B]. split; [exact A|]. intros K x Hx.
    destruct (B K x Hx) as [Kx|Kx]; [|right; exact Kx]. apply in_app_or in Kx. destruct Kx as [Kx|Kx]; [left; exact Kx|right].
    apply (mi_G0 x (HY x Kx) x (tp_refl s x)).
  - intros x Hx. apply mi_X0. apply in_or_app. left. exact Hx.
Qed.
Lemma MInv_open : forall s0 Ex X Y inp s, MInvE s0 Ex X inp s ->
  (forall y, In y Y -> nkind y = KProjection /\ (sverified s y \/ StaleX s y)) -> MInvE s0 Ex (X ++ Y) inp s.
Proof.
  intros s0 Ex X Y inp s HI HY. destruct HI. split; auto.
  - intros n d Hd Hc. destruct (mi_C0 n d Hd Hc) as [A B]. split; [exact A|]. intros K x Hx.
    destruct (B K x Hx) as [Kx|Kx]; [left; apply in_or_app; left; exact Kx|right; exact Kx].
  - intros x Hx. apply in_app_or in Hx. destruct Hx as [Hx|Hx]; [apply mi_X0; exact Hx|apply HY; exact Hx].
Qed.
Hypothesis Hproj : forall n e d, alookup p n = Some e -> nkind n = KProjection -> In d (expr_reads e) ->
  is_fw_or_proj (nkind d) = true.

(** a projection records only firewalls and projections *)
Lemma proj_fwd_kind : forall s0 Ex X inp s n d, MInvE s0 Ex X inp s -> nkind n = KProjection -> In d (old_fwd s n) ->
  is_fw_or_proj (nkind d) = true.
Proof.
  intros s0 Ex X inp s n d HI K Hd. unfold old_fwd in Hd. destruct (get_info s n) as [i|] eqn:Hi; [|destruct Hd].
  destruct (mi_kind _ _ _ _ _ HI n i Hi) as [(K1 & _)|(_ & e & l & He & Hev & Hl)]; [destruct K1; congruence|].
  eapply Hproj; eauto. eapply evr_reads; eauto. apply Hl. exact Hd.
Qed.
Lemma no_proj_caller : forall s0 Ex X inp s x c, MInvE s0 Ex X inp s -> is_fw_or_proj (nkind x) = false ->
  In c (callers_of s x) -> nkind c <> KProjection.
Proof.
  intros s0 Ex X inp s x c HI Kx Hc K. apply (mi_bwd _ _ _ _ _ HI) in Hc.
  rewrite (proj_fwd_kind _ _ _ _ _ _ _ HI K Hc) in Kx. discriminate.
Qed.

End Inv.

Definition noE : node -> Prop := fun _ => False.
Notation MInv p rk s0 := (MInvE p rk s0 noE).

