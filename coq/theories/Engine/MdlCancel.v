(** C05 / C08 on the full engine model: cancellation and crashes never corrupt the engine.
    Publications run in non-cancellable sections and every publication is the last action of a
    (sub-)request, so what a request that is dropped at a suspension point leaves behind is the
    effect of the sub-requests that had completed.  That is modelled by [MPartial]: a request
    with ARBITRARY caller kind, flags, previous-dependency list, frame and computing stack,
    interleaved anywhere in a history, whose outcome is discarded (its state is kept).  The
    side condition [mpartial_ok] says (1) every member of the computing stack reads the
    requested query, directly or indirectly (true of every stack of a real run, which is a chain
    of callers), a root-kind caller has the empty stack; (2) a NON-pedantic sub-request is only
    started where the engine starts one: the transitive firewall callees it relies on
    ([NPn] for a repair on behalf of a walk, the previously observed ones for an executor's read)
    have been repaired in this epoch - they were, by the sub-requests completed before it.
    Nothing is required of the frame. *)
From QV Require Import Common.Prelude Engine.Model Engine.Core Engine.CoreSpec Engine.CoreInvBase
  Engine.CoreInvSem Engine.Fw Engine.FwBase Engine.FwMono Engine.FwOnce Engine.FwInv Engine.FwRun
  Engine.MdlSpec Engine.MdlSem Engine.MdlBase Engine.MdlMono Engine.MdlInv Engine.MdlInvState Engine.MdlInvExec
  Engine.MdlInvClean Engine.MdlRunBase Engine.MdlRun Engine.MdlRunAux Engine.MdlRunAll Engine.MdlCommit
  Engine.MdlWorld Engine.MdlSound.
Open Scope Z_scope.

Inductive mop :=
| MUser (o : op)
| MPartial (stk : list node) (c : caller) (fr : option frame) (n : node).

(** a completed sub-request: its effect on the state stays, its outcome is dropped *)
Definition mpartial_fop (tord bord pord : oracle) (fuel : nat) (p : program) (s : state)
  (stk : list node) (c : caller) (fr : option frame) (n : node) : state :=
  match query_for_o p None tord bord pord fuel stk c fr n (set_log s []) with Ok (_, _, _, s') => s' | _ => set_log s [] end.

Definition mstep_cancel_fop (tord bord pord : oracle) (fuel pfuel : nat) (p : program) (s : state) (o : mop) : state * option opres :=
  match o with
  | MUser o => let '(s', r) := step_f tord bord pord fuel pfuel p s o in (s', Some r)
  | MPartial stk c fr n => (mpartial_fop tord bord pord fuel p s stk c fr n, None)
  end.
Fixpoint mrun_cancel_fop (tord bord pord : oracle) (fuel pfuel : nat) (p : program) (s : state) (ops : list mop) : list (option opres) :=
  match ops with
  | [] => []
  | o :: r => let '(s', x) := mstep_cancel_fop tord bord pord fuel pfuel p s o in x :: mrun_cancel_fop tord bord pord fuel pfuel p s' r
  end.
Fixpoint mstate_cancel_fop (tord bord pord : oracle) (fuel pfuel : nat) (p : program) (s : state) (ops : list mop) : state :=
  match ops with
  | [] => s
  | o :: r => mstate_cancel_fop tord bord pord fuel pfuel p (fst (mstep_cancel_fop tord bord pord fuel pfuel p s o)) r
  end.
(** the executor invocations of every operation (for a partial request: its log) *)
Definition mop_execs_op (tord bord pord : oracle) (fuel pfuel : nat) (p : program) (s : state) (o : mop) : list node :=
  match o with
  | MUser o => r_execs (snd (step_f tord bord pord fuel pfuel p s o))
  | MPartial stk c fr n => rev (s_log (mpartial_fop tord bord pord fuel p s stk c fr n))
  end.
Fixpoint mexecs_cancel_fop (tord bord pord : oracle) (fuel pfuel : nat) (p : program) (s : state) (ops : list mop) : list (list node) :=
  match ops with
  | [] => []
  | o :: r => mop_execs_op tord bord pord fuel pfuel p s o :: mexecs_cancel_fop tord bord pord fuel pfuel p (fst (mstep_cancel_fop tord bord pord fuel pfuel p s o)) r
  end.

Definition mapply_op (inp : inputs) (o : mop) : inputs :=
  match o with MUser o => apply_op inp o | MPartial _ _ _ _ => inp end.
Definition minputs_after (ops : list mop) : inputs := fold_left mapply_op ops [].
Definition mworld_op (w : list (N * Z)) (o : mop) : list (N * Z) :=
  match o with MUser o => world_op w o | MPartial _ _ _ _ => w end.
Definition ext_step_c (acc : xenv * list (N * Z)) (oe : mop * list node) : xenv * list (N * Z) :=
  let '(xe, w) := acc in
  let '(o, ex) := oe in
  let w' := mworld_op w o in
  ((fun k => if nmem (ext_node k) ex then Some (world_val w' k) else xe k), w').
Definition ext_after_c (ops : list mop) (exs : list (list node)) : xenv :=
  fst (fold_left ext_step_c (combine ops exs) (no_ext, [])).

(** the dirty propagation in list order *)
Definition mpartial_fo (tord bord : oracle) := mpartial_fop tord bord ord_id.
Definition mstep_cancel_fo (tord bord : oracle) := mstep_cancel_fop tord bord ord_id.
Definition mrun_cancel_fo (tord bord : oracle) := mrun_cancel_fop tord bord ord_id.
Definition mstate_cancel_fo (tord bord : oracle) := mstate_cancel_fop tord bord ord_id.
Definition mop_execs_o (tord bord : oracle) := mop_execs_op tord bord ord_id.
Definition mexecs_cancel_fo (tord bord : oracle) := mexecs_cancel_fop tord bord ord_id.
(** the schedule in list order *)
Definition mpartial_f := mpartial_fop ord_id ord_id ord_id.
Definition mstep_cancel_f := mstep_cancel_fop ord_id ord_id ord_id.
Definition mrun_cancel_f := mrun_cancel_fop ord_id ord_id ord_id.
Definition mstate_cancel_f := mstate_cancel_fop ord_id ord_id ord_id.
Definition mop_execs := mop_execs_op ord_id ord_id ord_id.
Definition mexecs_cancel_f := mexecs_cancel_fop ord_id ord_id ord_id.

(** * the side condition *)
(** [sreach p m n] ([Engine/MdlRunBase.v]): [m] reads [n], directly or indirectly *)
Definition mpartial_ok (p : program) (s : state) (stk : list node) (c : caller) (n : node) : Prop :=
  (forall m, In m stk -> sreach p m n) /\
  (is_cq c = false -> stk = []) /\
  MNPq c n s.

Definition mcsessions_fuelled_op (tord bord pord : oracle) (fuel pfuel : nat) (p : program) (ops : list mop) (i : nat) : Prop :=
  forall k sets b x, (k < i)%nat -> nth_error ops k = Some (MUser (OSession sets b)) ->
    nth_error (mrun_cancel_fop tord bord pord fuel pfuel p init_state ops) k = Some (Some x) -> r_out x <> RFuel.
Definition mpartials_ok_op (tord bord pord : oracle) (fuel pfuel : nat) (p : program) (ops : list mop) (i : nat) : Prop :=
  forall k stk c fr n, (k < i)%nat -> nth_error ops k = Some (MPartial stk c fr n) ->
    mpartial_ok p (mstate_cancel_fop tord bord pord fuel pfuel p init_state (firstn k ops)) stk c n.

Definition mcsessions_fuelled_o (tord bord : oracle) := mcsessions_fuelled_op tord bord ord_id.
Definition mpartials_ok_o (tord bord : oracle) := mpartials_ok_op tord bord ord_id.
Definition mcsessions_fuelled := mcsessions_fuelled_op ord_id ord_id ord_id.
Definition mpartials_ok := mpartials_ok_op ord_id ord_id ord_id.

Definition model_cancel_sound_x_statement_fop : Prop :=
  forall tord bord pord fuel pfuel p ops i n r z, order_ok tord -> order_ok bord -> order_ok pord ->
    wf_model_x p -> mcsessions_fuelled_op tord bord pord fuel pfuel p ops i -> mpartials_ok_op tord bord pord fuel pfuel p ops i ->
    nth_error ops i = Some (MUser (OQuery n)) ->
    nth_error (mrun_cancel_fop tord bord pord fuel pfuel p init_state ops) i = Some (Some r) -> r_out r = RValue z ->
    MdlSpecX p (minputs_after (firstn i ops),
                ext_after_c (firstn (S i) ops) (firstn (S i) (mexecs_cancel_fop tord bord pord fuel pfuel p init_state ops))) n z.

Section Cancel.
Variable p : program.
Variables tord bord pord : state -> node -> list node -> list node.
Variable rk : node -> nat.
Hypothesis Hrk : forall n e d, alookup p n = Some e -> In d (expr_reads e) -> (rk d < rk n)%nat.
Hypothesis Hproj : forall n e d, alookup p n = Some e -> nkind n = KProjection -> In d (expr_reads e) ->
  is_fw_or_proj (nkind d) = true.
Hypothesis Hkeys : forall n e, alookup p n = Some e -> is_mexec_kind (nkind n) = true.
Hypothesis Htord : forall s x l y, In y (tord s x l) <-> In y l.
Hypothesis Hbord : forall s x l y, In y (bord s x l) <-> In y l.
Hypothesis Hpord : forall s x l y, In y (pord s x l) <-> In y l.

(** a completed sub-request keeps the invariant, whatever the caller, flags, frame *)
Lemma partial_query : forall fuel env s stk c fr n o fr' ms s1,
  BInv p rk env s -> mpartial_ok p s stk c n ->
  query_for_o p None tord bord pord fuel stk c fr n (set_log s []) = Ok (o, fr', ms, s1) ->
  MInv p rk (set_log s []) [] env s1.
Proof.
  intros fuel env s stk c fr n o fr' ms s1 HI0 (Hs & Hroot & Hnp) Eq.
  assert (Hxm : XMode c []) by (destruct c; cbn; auto).
  destruct (proj1 (msound_all p tord bord pord rk (set_log s []) Hrk Hproj Hkeys Htord Hbord Hpord fuel) env [] [] stk c fr n _ o fr' ms s1
              HI0 Hs Hroot Hnp Hxm (or_introl eq_refl) Eq) as (HI1 & _).
  exact HI1.
Qed.

Lemma partial_inv : forall fuel env s stk c fr n,
  BInv p rk env s -> mpartial_ok p s stk c n -> BInv p rk env (mpartial_fop tord bord pord fuel p s stk c fr n).
Proof.
  intros fuel env s stk c fr n HI0 Hok. unfold mpartial_fop.
  destruct (query_for_o p None tord bord pord fuel stk c fr n (set_log s [])) as [[[[o fr'] ms] s1]| | |] eqn:Eq;
    try (eapply (BInv_of p rk); exact HI0).
  eapply (BInv_of p rk). eapply partial_query; eauto.
Qed.

Lemma partial_ri : forall fuel env s stk c fr n acc,
  BInv p rk env s -> mpartial_ok p s stk c n -> RI s acc ->
  RI (mpartial_fop tord bord pord fuel p s stk c fr n) (ext_step_c acc (MPartial stk c fr n, rev (s_log (mpartial_fop tord bord pord fuel p s stk c fr n)))).
Proof.
  intros fuel env s stk c fr n [xe w] HI0 Hok [Rw Rx]. cbn [fst snd] in Rw, Rx. unfold ext_step_c. cbn [mworld_op].
  unfold mpartial_fop. destruct (query_for_o p None tord bord pord fuel stk c fr n (set_log s [])) as [[[[o fr'] ms] s1]| | |] eqn:Eq;
    try (split; [exact Rw|]; cbn [fst set_log s_log rev nmem existsb]; exact Rx).
  pose proof (partial_query _ _ _ _ _ _ _ _ _ _ _ HI0 Hok Eq) as HI1.
  pose proof (proj1 (mworld_all p tord bord pord fuel) _ _ _ _ _ _ _ _ _ Eq) as [HW _]. cbn [set_log s_world] in HW.
  split; [cbn [snd]; congruence|].
  cbn [fst]. intros k i Hi.
  destruct (mi_kind _ _ _ _ _ _ _ HI1 (ext_node k) i Hi) as [(_ & _ & Ko & _ & K5)|(K & _)]; [|discriminate].
  unfold leaf_val in K5. cbn [ext_node nkind nidx] in K5.
  destruct (nmem (ext_node k) (rev (s_log s1))) eqn:Em.
  - apply nmem_In in Em. apply in_rev in Em.
    destruct (mi_J _ _ _ _ _ _ _ HI1 _ Em) as [J|(i0 & cal & x & J1 & [t J2] & _)].
    + change (get_info s (ext_node k) = None) in J. pose proof (mi_W _ _ _ _ _ _ _ HI0 k J) as Wk.
      rewrite Wk in K5. inversion K5. f_equal. symmetry. apply world_get_val. exact Rw.
    + exfalso. change (get_info s (ext_node k) = Some i0) in J1.
      destruct (mi_kind _ _ _ _ _ _ _ HI0 (ext_node k) i0 J1) as [(_ & _ & K3 & _)|(K & _)]; [|discriminate].
      rewrite K3 in J2. discriminate.
  - apply nmem_false in Em. destruct (mi_O _ _ _ _ _ _ _ HI1 _ _ Hi) as [K|[i0 [K1 _]]].
    + exfalso. apply Em. apply in_rev. rewrite rev_involutive. exact K.
    + change (get_info s (ext_node k) = Some i0) in K1. rewrite (Rx k i0 K1).
      destruct (mi_kind _ _ _ _ _ _ _ HI0 (ext_node k) i0 K1) as [(_ & _ & _ & _ & K6)|(K & _)]; [|discriminate].
      unfold leaf_val in K6. cbn [ext_node nkind nidx] in K6. congruence.
Qed.

(** the environment after an operation *)
Definition menv_step (env : menv) (s : state) (o : mop) (s' : state) : menv :=
  match o with MUser o => env_step env s o s' | MPartial _ _ _ _ => env end.

Lemma mrun_cancel_sound : forall fuel pfuel ops s env acc i n r z,
  BInv p rk env s -> RI s acc ->
  (forall k sets b x, (k < i)%nat -> nth_error ops k = Some (MUser (OSession sets b)) ->
     nth_error (mrun_cancel_fop tord bord pord fuel pfuel p s ops) k = Some (Some x) -> r_out x <> RFuel) ->
  (forall k stk c fr m, (k < i)%nat -> nth_error ops k = Some (MPartial stk c fr m) ->
     mpartial_ok p (mstate_cancel_fop tord bord pord fuel pfuel p s (firstn k ops)) stk c m) ->
  nth_error ops i = Some (MUser (OQuery n)) ->
  nth_error (mrun_cancel_fop tord bord pord fuel pfuel p s ops) i = Some (Some r) ->
  r_out r = RValue z ->
  MSpecI p (fold_left mapply_op (firstn i ops) (fst env),
            fst (fold_left ext_step_c (combine (firstn (S i) ops) (firstn (S i) (mexecs_cancel_fop tord bord pord fuel pfuel p s ops))) acc)) n z.
Proof.
  intros fuel pfuel. induction ops as [|o rest IH]; intros s env acc i n r z HI HR Hfuel Hpok Hop Hres Hz.
  - destruct i; discriminate.
  - cbn [mrun_cancel_fop mexecs_cancel_fop] in Hres, Hfuel |- *.
    destruct (mstep_cancel_fop tord bord pord fuel pfuel p s o) as [s' x] eqn:Es.
    destruct i as [|i].
    + cbn in Hop, Hres. inversion Hop. subst o. cbn [mstep_cancel_fop] in Es.
      destruct (step_f tord bord pord fuel pfuel p s (OQuery n)) as [s1 x1] eqn:E1. inversion Es. subst s' x. inversion Hres. subst x1.
      cbn [firstn fold_left combine mop_execs_op]. rewrite E1. cbn [snd].
      pose proof (mrun_sound_x p tord bord pord rk Hrk Hproj Hkeys Htord Hbord Hpord fuel pfuel [OQuery n] s env acc 0%nat n r z HI HR) as Q.
      cbn [run_history_f] in Q. rewrite E1 in Q. cbn [firstn fold_left combine nth_error] in Q.
      apply Q; auto. intros k sets b rk0 Hk. lia.
    + cbn [nth_error firstn fold_left combine] in *.
      destruct o as [o|stk c fr m]; cbn [mstep_cancel_fop] in Es.
      * destruct (step_f tord bord pord fuel pfuel p s o) as [s1 x1] eqn:E1. inversion Es. subst s' x.
        assert (Hf0 : forall sets b, o = OSession sets b -> r_out x1 <> RFuel).
        { intros sets b ->. apply (Hfuel 0%nat sets b x1); [lia|reflexivity|reflexivity]. }
        pose proof (mstep_inv p tord bord pord rk Hrk Hproj Hkeys Htord Hbord Hpord _ _ _ _ _ _ _ HI E1 Hf0) as HI'.
        pose proof (ri_step p tord bord pord rk Hrk Hproj Hkeys Htord Hbord Hpord _ _ _ _ _ _ _ _ HI HR E1 Hf0) as HR'.
        cbn [mop_execs_op mapply_op]. rewrite E1. cbn [snd fst]. rewrite <- (env_step_inputs env s o s1).
        change (ext_step_c acc (MUser o, r_execs x1)) with (ext_step acc (o, x1)).
        eapply (IH s1 (env_step env s o s1) (ext_step acc (o, x1)) i n r z HI' HR'); eauto.
        -- intros k sets b x0 Hk Hk1 Hk2. apply (Hfuel (S k) sets b x0); [lia|exact Hk1|exact Hk2].
        -- intros k stk c fr m Hk Hk1. pose proof (Hpok (S k) stk c fr m) as Q. cbn [firstn mstate_cancel_fop mstep_cancel_fop nth_error] in Q.
           rewrite E1 in Q. cbn [fst] in Q. apply Q; [lia|exact Hk1].
      * inversion Es. subst s' x.
        assert (Hok : mpartial_ok p s stk c m).
        { apply (Hpok 0%nat stk c fr m); [lia|reflexivity]. }
        pose proof (partial_inv fuel env s stk c fr m HI Hok) as HI'.
        pose proof (partial_ri fuel env s stk c fr m acc HI Hok HR) as HR'.
        cbn [mop_execs_op mapply_op fst].
        eapply (IH _ env _ i n r z HI' HR'); eauto.
        -- intros k sets b x0 Hk Hk1 Hk2. apply (Hfuel (S k) sets b x0); [lia|exact Hk1|exact Hk2].
        -- intros k stk0 c0 fr0 m0 Hk Hk1. pose proof (Hpok (S k) stk0 c0 fr0 m0) as Q. cbn [firstn mstate_cancel_fop mstep_cancel_fop nth_error fst] in Q.
           apply Q; [lia|exact Hk1].
Qed.
End Cancel.

Theorem model_cancel_sound_x_fop : model_cancel_sound_x_statement_fop.
Proof.
  intros tord bord pord fuel pfuel p ops i n r z Ht Hb Hp Hwf Hfuel Hpok Hop Hres Hz.
  destruct (wf_model_x_facts p Hwf) as (rk & Hrk & Hproj & Hkeys). apply MdlSpecX_MSpecI.
  unfold minputs_after, ext_after_c.
  apply (mrun_cancel_sound p tord bord pord rk Hrk Hproj Hkeys (order_ok_In _ Ht) (order_ok_In _ Hb) (order_ok_In _ Hp)
           fuel pfuel ops init_state init_env (no_ext, []) i n r z); auto.
  - apply (MInv_init p rk noE).
  - split; [reflexivity|]. intros k j Hj. discriminate.
Qed.

(** the schedule in list order *)
Definition model_cancel_sound_x_statement_f : Prop :=
  forall fuel pfuel p ops i n r z,
    wf_model_x p -> mcsessions_fuelled fuel pfuel p ops i -> mpartials_ok fuel pfuel p ops i ->
    nth_error ops i = Some (MUser (OQuery n)) ->
    nth_error (mrun_cancel_f fuel pfuel p init_state ops) i = Some (Some r) -> r_out r = RValue z ->
    MdlSpecX p (minputs_after (firstn i ops),
                ext_after_c (firstn (S i) ops) (firstn (S i) (mexecs_cancel_f fuel pfuel p init_state ops))) n z.
Theorem model_cancel_sound_x_f : model_cancel_sound_x_statement_f.
Proof.
  intros fuel pfuel p ops i n r z.
  exact (model_cancel_sound_x_fop ord_id ord_id ord_id fuel pfuel p ops i n r z ord_id_ok ord_id_ok ord_id_ok).
Qed.

(** every order, the fuel the model fixes ([MUser] operations are then [Model.step_o]) *)
Definition model_cancel_sound_x_statement_op : Prop :=
  forall tord bord pord p ops i n r z, order_ok tord -> order_ok bord -> order_ok pord ->
    wf_model_x p -> mcsessions_fuelled_op tord bord pord fuel0 4000 p ops i -> mpartials_ok_op tord bord pord fuel0 4000 p ops i ->
    nth_error ops i = Some (MUser (OQuery n)) ->
    nth_error (mrun_cancel_fop tord bord pord fuel0 4000 p init_state ops) i = Some (Some r) -> r_out r = RValue z ->
    MdlSpecX p (minputs_after (firstn i ops),
                ext_after_c (firstn (S i) ops) (firstn (S i) (mexecs_cancel_fop tord bord pord fuel0 4000 p init_state ops))) n z.
Theorem model_cancel_sound_x_op : model_cancel_sound_x_statement_op.
Proof. intros tord bord pord p ops i n r z. apply (model_cancel_sound_x_fop tord bord pord fuel0 4000%nat). Qed.
Lemma mstep_cancel_user_op : forall tord bord pord p s o,
  mstep_cancel_fop tord bord pord fuel0 4000 p s (MUser o) = (let '(s', r) := step_op tord bord pord p s o in (s', Some r)).
Proof. intros. cbn [mstep_cancel_fop]. rewrite <- step_op_is_step_f. reflexivity. Qed.

(** the dirty propagation in list order *)
Definition model_cancel_sound_x_statement_o : Prop :=
  forall tord bord p ops i n r z, order_ok tord -> order_ok bord ->
    wf_model_x p -> mcsessions_fuelled_o tord bord fuel0 4000 p ops i -> mpartials_ok_o tord bord fuel0 4000 p ops i ->
    nth_error ops i = Some (MUser (OQuery n)) ->
    nth_error (mrun_cancel_fo tord bord fuel0 4000 p init_state ops) i = Some (Some r) -> r_out r = RValue z ->
    MdlSpecX p (minputs_after (firstn i ops),
                ext_after_c (firstn (S i) ops) (firstn (S i) (mexecs_cancel_fo tord bord fuel0 4000 p init_state ops))) n z.
Theorem model_cancel_sound_x_o : model_cancel_sound_x_statement_o.
Proof.
  intros tord bord p ops i n r z Ht Hb.
  exact (model_cancel_sound_x_op tord bord ord_id p ops i n r z Ht Hb ord_id_ok).
Qed.
Lemma mstep_cancel_user_o : forall tord bord p s o,
  mstep_cancel_fo tord bord fuel0 4000 p s (MUser o) = (let '(s', r) := step_o tord bord p s o in (s', Some r)).
Proof. intros. exact (mstep_cancel_user_op tord bord ord_id p s o). Qed.

(** with the fuel the model fixes *)
Definition model_cancel_sound_x_statement : Prop :=
  forall p ops i n r z,
    wf_model_x p -> mcsessions_fuelled fuel0 4000 p ops i -> mpartials_ok fuel0 4000 p ops i ->
    nth_error ops i = Some (MUser (OQuery n)) ->
    nth_error (mrun_cancel_f fuel0 4000 p init_state ops) i = Some (Some r) -> r_out r = RValue z ->
    MdlSpecX p (minputs_after (firstn i ops),
                ext_after_c (firstn (S i) ops) (firstn (S i) (mexecs_cancel_f fuel0 4000 p init_state ops))) n z.
Theorem model_cancel_sound_x : model_cancel_sound_x_statement.
Proof. intros p ops i n r z. apply (model_cancel_sound_x_f fuel0 4000%nat). Qed.
Lemma mstep_cancel_user : forall p s o, mstep_cancel_f fuel0 4000 p s (MUser o) = (let '(s', r) := step p s o in (s', Some r)).
Proof. intros. unfold mstep_cancel_f. cbn [mstep_cancel_fop]. rewrite <- step_is_step_f. reflexivity. Qed.

(** without external inputs *)
Definition mop_in_scope (o : mop) : Prop := match o with MUser o => op_in_scope o | MPartial _ _ _ _ => True end.
Definition model_cancel_sound_g_statement_f : Prop :=
  forall tord bord pord fuel pfuel p ops i n r z, order_ok tord -> order_ok bord -> order_ok pord ->
    wf_model_g p -> Forall mop_in_scope ops ->
    mcsessions_fuelled_op tord bord pord fuel pfuel p ops i -> mpartials_ok_op tord bord pord fuel pfuel p ops i ->
    nth_error ops i = Some (MUser (OQuery n)) ->
    nth_error (mrun_cancel_fop tord bord pord fuel pfuel p init_state ops) i = Some (Some r) -> r_out r = RValue z ->
    MdlSpec p (minputs_after (firstn i ops)) n z.
Theorem model_cancel_sound_g_f : model_cancel_sound_g_statement_f.
Proof.
  intros tord bord pord fuel pfuel p ops i n r z Ht Hb Hp Hwf Hsc Hfuel Hpok Hop Hres Hz.
  pose proof (model_cancel_sound_x_fop tord bord pord fuel pfuel p ops i n r z Ht Hb Hp (wf_model_x_of p Hwf) Hfuel Hpok Hop Hres Hz) as H.
  apply MdlSpecX_MSpecI in H. apply MdlSpec_MSpecI.
  apply (msev_noext p _ no_ext (wf_model_g_noext p Hwf)) in H; [exact H|].
  intros d [<-|[]]. assert (Hn : mop_in_scope (MUser (OQuery n))).
  { rewrite Forall_forall in Hsc. apply Hsc. eapply nth_error_In; eauto. }
  exact Hn.
Qed.

(** * C08: the engine after a crash.  [before] is the history up to the crash, [partial] the
    completed sub-requests of the request in flight; the process restarts (volatile fields are
    lost) and [after] follows *)
Definition model_sound_after_crash_x_statement_op : Prop :=
  forall tord bord pord fuel pfuel p before partial after i n r z, order_ok tord -> order_ok bord -> order_ok pord ->
    let ops := map MUser before ++ partial ++ [MUser ORestart] ++ map MUser after in
    wf_model_x p -> mcsessions_fuelled_op tord bord pord fuel pfuel p ops i -> mpartials_ok_op tord bord pord fuel pfuel p ops i ->
    nth_error ops i = Some (MUser (OQuery n)) ->
    nth_error (mrun_cancel_fop tord bord pord fuel pfuel p init_state ops) i = Some (Some r) -> r_out r = RValue z ->
    MdlSpecX p (minputs_after (firstn i ops),
                ext_after_c (firstn (S i) ops) (firstn (S i) (mexecs_cancel_fop tord bord pord fuel pfuel p init_state ops))) n z.
Theorem model_sound_after_crash_x_op : model_sound_after_crash_x_statement_op.
Proof.
  intros tord bord pord fuel pfuel p before partial after i n r z Ht Hb Hp ops.
  exact (model_cancel_sound_x_fop tord bord pord fuel pfuel p ops i n r z Ht Hb Hp).
Qed.
Definition model_sound_after_crash_x_statement_o : Prop :=
  forall tord bord fuel pfuel p before partial after i n r z, order_ok tord -> order_ok bord ->
    let ops := map MUser before ++ partial ++ [MUser ORestart] ++ map MUser after in
    wf_model_x p -> mcsessions_fuelled_o tord bord fuel pfuel p ops i -> mpartials_ok_o tord bord fuel pfuel p ops i ->
    nth_error ops i = Some (MUser (OQuery n)) ->
    nth_error (mrun_cancel_fo tord bord fuel pfuel p init_state ops) i = Some (Some r) -> r_out r = RValue z ->
    MdlSpecX p (minputs_after (firstn i ops),
                ext_after_c (firstn (S i) ops) (firstn (S i) (mexecs_cancel_fo tord bord fuel pfuel p init_state ops))) n z.
Theorem model_sound_after_crash_x_o : model_sound_after_crash_x_statement_o.
Proof.
  intros tord bord fuel pfuel p before partial after i n r z Ht Hb.
  exact (model_sound_after_crash_x_op tord bord ord_id fuel pfuel p before partial after i n r z Ht Hb ord_id_ok).
Qed.
Definition model_sound_after_crash_x_statement : Prop :=
  forall fuel pfuel p before partial after i n r z,
    let ops := map MUser before ++ partial ++ [MUser ORestart] ++ map MUser after in
    wf_model_x p -> mcsessions_fuelled fuel pfuel p ops i -> mpartials_ok fuel pfuel p ops i ->
    nth_error ops i = Some (MUser (OQuery n)) ->
    nth_error (mrun_cancel_f fuel pfuel p init_state ops) i = Some (Some r) -> r_out r = RValue z ->
    MdlSpecX p (minputs_after (firstn i ops),
                ext_after_c (firstn (S i) ops) (firstn (S i) (mexecs_cancel_f fuel pfuel p init_state ops))) n z.
Theorem model_sound_after_crash_x : model_sound_after_crash_x_statement.
Proof. intros fuel pfuel p before partial after i n r z ops. exact (model_cancel_sound_x_f fuel pfuel p ops i n r z). Qed.

(** a sub-request that does not complete (panic, fuel) leaves the persisted state untouched *)
Lemma mpartial_unchanged_op : forall tord bord pord fuel p s stk c fr n,
  (forall o fr' ms s', query_for_o p None tord bord pord fuel stk c fr n (set_log s []) <> Ok (o, fr', ms, s')) ->
  mpartial_fop tord bord pord fuel p s stk c fr n = set_log s [].
Proof.
  intros tord bord pord fuel p s stk c fr n H. unfold mpartial_fop.
  destruct (query_for_o p None tord bord pord fuel stk c fr n (set_log s [])) as [[[[o fr'] ms] s']| | |]; try reflexivity.
  exfalso. eapply H. reflexivity.
Qed.
Lemma mpartial_unchanged_o : forall tord bord fuel p s stk c fr n,
  (forall o fr' ms s', query_for_o p None tord bord ord_id fuel stk c fr n (set_log s []) <> Ok (o, fr', ms, s')) ->
  mpartial_fo tord bord fuel p s stk c fr n = set_log s [].
Proof. intros tord bord. exact (mpartial_unchanged_op tord bord ord_id). Qed.
Lemma mpartial_unchanged : forall fuel p s stk c fr n,
  (forall o fr' ms s', query_for p None fuel stk c fr n (set_log s []) <> Ok (o, fr', ms, s')) ->
  mpartial_f fuel p s stk c fr n = set_log s [].
Proof. intros fuel p s stk c fr n. exact (mpartial_unchanged_op ord_id ord_id ord_id fuel p s stk c fr n). Qed.

(** * examples: a cancelled repair whose completed part is reused, and the need for the side
    condition (a NON-pedantic sub-request started before the transitive firewall callees it
    relies on were repaired publishes a stale value) *)
Definition mcx_I (k : N) := mkNode KInput k.
Definition mcx_N (k : N) := mkNode KNormal k.
Definition mcx_F (k : N) := mkNode KFirewall k.
Definition mcx_prog : program :=
  [ (mcx_F 0, ERead (mcx_I 0)); (mcx_N 0, ERead (mcx_F 0)); (mcx_N 1, ERead (mcx_N 0)) ].
Definition mcx_hist (pd : bool) : list mop :=
  [ MUser (OSession [(0%N, 1)] false); MUser (OQuery (mcx_N 1)); MUser (OSession [(0%N, 2)] false);
    MPartial [mcx_N 1] (CQuery (mcx_N 1) false pd []) (Some empty_frame) (mcx_N 0); MUser (OQuery (mcx_N 0)) ].

Example mcx_run_ok :
  map (option_map r_out) (mrun_cancel_f fuel0 4000 mcx_prog init_state (mcx_hist true)) =
  [Some (RSession [SFresh]); Some (RValue 1); Some (RSession [SUpdated]); None; Some (RValue 2)] /\
  mexecs_cancel_f fuel0 4000 mcx_prog init_state (mcx_hist true) =
  [[]; [mcx_N 1; mcx_N 0; mcx_F 0]; []; [mcx_F 0; mcx_N 0]; []].
Proof. split; vm_compute; reflexivity. Qed.

Example mcx_prog_wf : wf_model_x mcx_prog.
Proof.
  split.
  - intros n e H. repeat (destruct H as [H|H]; [inversion H; subst; reflexivity|]). destruct H.
  - intros n e d H Hd. repeat (destruct H as [H|H]; [inversion H; subst; clear H|]); try destruct H;
      destruct Hd as [<-|[]]; (left; reflexivity) || (right; split; [reflexivity|discriminate]).
  - intros n e d H K. repeat (destruct H as [H|H]; [inversion H; subst; discriminate K|]). destruct H.
  - exists (fun n => match nkind n with KFirewall => 1%nat | KNormal => (2 + N.to_nat (nidx n))%nat | _ => 0%nat end).
    intros n e d H Hd K. repeat (destruct H as [H|H]; [inversion H; subst; clear H|]); try destruct H;
      destruct Hd as [<-|[]]; try discriminate K; cbn; lia.
Qed.

Definition model_cancel_sound_unguarded : Prop :=
  forall p ops i n r z, wf_model_x p ->
    nth_error ops i = Some (MUser (OQuery n)) ->
    nth_error (mrun_cancel_f fuel0 4000 p init_state ops) i = Some (Some r) -> r_out r = RValue z ->
    MdlSpecX p (minputs_after (firstn i ops),
                ext_after_c (firstn (S i) ops) (firstn (S i) (mexecs_cancel_f fuel0 4000 p init_state ops))) n z.
Theorem model_cancel_side_condition_needed : ~ model_cancel_sound_unguarded.
Proof.
  intro H.
  assert (Hrun : exists r, nth_error (mrun_cancel_f fuel0 4000 mcx_prog init_state (mcx_hist false)) 4 = Some (Some r) /\ r_out r = RValue 1).
  { eexists. split; [vm_compute; reflexivity|reflexivity]. }
  destruct Hrun as [r [Hr Hz]].
  specialize (H mcx_prog (mcx_hist false) 4%nat (mcx_N 0) r 1 mcx_prog_wf eq_refl Hr Hz).
  destruct H as [f H]. 
  assert (H2 : MdlSpecX mcx_prog (minputs_after (firstn 4 (mcx_hist false)),
                 ext_after_c (firstn 5 (mcx_hist false)) (firstn 5 (mexecs_cancel_f fuel0 4000 mcx_prog init_state (mcx_hist false)))) (mcx_N 0) 2).
  { exists 5%nat. vm_compute. reflexivity. }
  apply MdlSpecX_MSpecI in H2.
  assert (H1 : MSpecI mcx_prog (minputs_after (firstn 4 (mcx_hist false)),
                 ext_after_c (firstn 5 (mcx_hist false)) (firstn 5 (mexecs_cancel_f fuel0 4000 mcx_prog init_state (mcx_hist false)))) (mcx_N 0) 1).
  { apply MdlSpecX_MSpecI. exists f. exact H. }
  pose proof (MSpecI_det _ _ _ _ _ H1 H2). discriminate.
Qed.

Print Assumptions model_cancel_sound_x_fop.
Print Assumptions model_cancel_sound_x_o.
Print Assumptions model_cancel_sound_x_op.
Print Assumptions model_sound_after_crash_x_op.
Print Assumptions model_cancel_sound_x_f.
Print Assumptions model_cancel_sound_x.
Print Assumptions model_cancel_sound_g_f.
Print Assumptions model_sound_after_crash_x.
Print Assumptions model_cancel_side_condition_needed.
