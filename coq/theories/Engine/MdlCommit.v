(** Commit of an input session on the full model (no refresh): writing the inputs and the
    dirty propagation (which stops at firewalls and projections) take a state satisfying
    [MInv] (outside any window) for the old inputs to a state satisfying it for the new
    inputs. *)
From QV Require Import Common.Prelude Engine.Model Engine.Core Engine.CoreSpec Engine.CoreInvBase
  Engine.CoreInvSem Engine.CoreInvCommit Engine.Fw Engine.FwBase Engine.FwMono Engine.FwOnce Engine.FwInv
  Engine.FwCommit Engine.MdlSpec Engine.MdlSem Engine.MdlBase Engine.MdlInv Engine.MdlInvState.
Open Scope Z_scope.

Section Commit.
Variable p : program.
Variable rk : node -> nat.
Hypothesis Hrk : forall n e d, alookup p n = Some e -> In d (expr_reads e) -> (rk d < rk n)%nat.
Hypothesis Hproj : forall n e d, alookup p n = Some e -> nkind n = KProjection -> In d (expr_reads e) ->
  is_fw_or_proj (nkind d) = true.

Lemma MSessInv_init : forall sA inp s, MInv p rk sA [] inp s -> SessInv s (set_ts s (s_ts s + 1)%N) inp [].
Proof.
  intros sA inp s HI.
  split; try reflexivity.
  - intros m i Hm Hi. change (get_info s m = Some i) in Hi.
    destruct (mi_kind _ _ _ _ _ _ _ HI m i Hi) as [(K1 & K2 & K3 & K4 & K5)|[K1 _]]; [|rewrite Hm in K1; discriminate].
    repeat (split; [assumption|]). pose proof (mi_ts _ _ _ _ _ _ _ HI m i Hi). lia.
  - intros m i0 Hm Hi0. exists i0. split; [exact Hi0|reflexivity].
  - intros m [].
Qed.

Lemma sess_fold_log : forall sets cur rs batch cur' rs' batch',
  fold_left fsess_step sets (cur, rs, batch) = (cur', rs', batch') -> s_log cur' = s_log cur.
Proof.
  induction sets as [|[v x] r IH]; intros cur rs batch cur' rs' batch' H; cbn [fold_left] in H.
  - inversion H. reflexivity.
  - rewrite fsess_step_eq in H. apply IH in H. rewrite H. apply set_input_log.
Qed.

Lemma MInv_commit : forall sA inp s sets fuel s1 rs batch s4,
  MInv p rk sA [] inp s -> s_log s = [] ->
  fold_left fsess_step sets (set_ts s (s_ts s + 1)%N, [], []) = (s1, rs, batch) ->
  propagate fuel (set_visited (set_stat s1 0%N) []) batch = Ok s4 ->
  MInv p rk s4 [] (fold_left (fun a '(i, v) => input_set a i v) sets inp) s4.
Proof.
  intros sA inp s sets fuel s1 rs batch s4 HI Hlog Hfold Hprop.
  set (inp' := fold_left (fun a '(i, v) => input_set a i v) sets inp).
  pose proof (MSessInv_init sA inp s HI) as HS0.
  pose proof (sess_fold_inv p rk Hrk _ _ _ _ _ _ _ _ _ HS0 Hfold) as HS. fold inp' in HS.
  destruct HS as [A B C D E F G].
  set (s3 := set_visited (set_stat s1 0%N) []) in *.
  assert (HP0 : PVp push_p (fun _ => False) s3 batch) by (intros x []).
  destruct (propagate_spec_p _ _ _ _ _ Hprop HP0) as (N1 & N2 & N3 & N4 & N5 & N6 & _ & N8 & N9 & N10).
  cbn [s3 set_visited set_stat s_nodes s_bwd s_ts s_log] in N1, N2, N3, N4.
  assert (Hget : forall m, get_info s4 m = get_info s1 m) by (intro m; unfold get_info; rewrite N1; reflexivity).
  assert (Hcal : forall y, callers_of s4 y = callers_of s y) by (intro y; unfold callers_of; rewrite N2, A; reflexivity).
  assert (Hts : s_ts s4 = (s_ts s + 1)%N) by congruence.
  assert (Hd_mono : forall a b, sdirty s a b -> sdirty s4 a b).
  { intros a b K. apply N5. unfold sdirty in *. cbn. rewrite B. exact K. }
  assert (Hd_new : forall a b, sdirty s4 a b -> sdirty s a b \/ In a (callers_of s b)).
  { intros a b K. apply N6 in K. destruct K as [K|K].
    - left. unfold sdirty in *. cbn in K. rewrite B in K. exact K.
    - right. unfold callers_of in *. cbn in K. rewrite A in K. exact K. }
  (* a node expanded by the session's propagation is an input or neither firewall nor projection *)
  assert (Hvkind : forall x, In x (s_visited s4) -> is_fw_or_proj (nkind x) = false).
  { intros x Hx. destruct (N10 x Hx) as [[]|[K|[K _]]].
    - destruct (G x K) as [Kx _]. rewrite Kx. reflexivity.
    - apply negb_true_iff. exact K. }
  (* expanded nodes: all edges into them are dirty, their non-firewall callers are expanded *)
  assert (HV : forall x, In x (s_visited s4) -> forall c, In c (callers_of s x) ->
                 sdirty s4 c x /\ (thru c -> In c (s_visited s4))).
  { intros x Hx c Hc. destruct (N9 x Hx) as [[]|K]. assert (Hc4 : In c (callers_of s4 x)) by (rewrite Hcal; exact Hc).
    destruct (K c Hc4) as [K1 K2]. split; [exact K1|]. intro Ht.
    assert (Hcp : push_p c = true).
    { apply push_p_nonfw. unfold nonfw. destruct (nkind c) eqn:Kc; try reflexivity.
      - exfalso. apply Ht. exact Kc.
      - exfalso. eapply (no_proj_caller p rk Hproj _ _ _ _ _ x c HI (Hvkind x Hx) Hc). exact Kc. }
    destruct (K2 Hcp) as [K3|[]]. exact K3. }
  (* stored entries of s4: inputs written or kept, other nodes untouched *)
  assert (Hcases : forall m i, get_info s4 m = Some i ->
            (nkind m = KInput /\ i_fwd i = [] /\ i_obs i = [] /\ i_tfc i = [] /\
             input_get inp' (nidx m) = Some (i_value i) /\ (i_verified i <= s_ts s + 1)%N)
            \/ (nkind m <> KInput /\ get_info s m = Some i)).
  { intros m i Hi. rewrite Hget in Hi. destruct (kind_eqb (nkind m) KInput) eqn:Ek.
    - apply kind_eqb_eq in Ek. left. split; [exact Ek|]. apply (E m i Ek Hi).
    - right. assert (nkind m <> KInput) by (intro K; apply kind_eqb_eq in K; congruence).
      split; [assumption|]. rewrite <- D; assumption. }
  assert (Hfwd : forall m, old_fwd s4 m = old_fwd s m).
  { intro m. unfold old_fwd. destruct (get_info s4 m) as [i|] eqn:Hi.
    - destruct (Hcases m i Hi) as [(K & K2 & _)|[_ K]].
      + rewrite K2. cbn. symmetry. apply (minput_no_fwd _ _ _ _ _ _ _ _ HI K).
      + rewrite K. reflexivity.
    - destruct (get_info s m) as [i0|] eqn:Hi0; [|reflexivity]. exfalso.
      rewrite Hget in Hi. destruct (kind_eqb (nkind m) KInput) eqn:Ek.
      + apply kind_eqb_eq in Ek. destruct (F m i0 Ek Hi0) as [i [K _]]. congruence.
      + rewrite D in Hi; [congruence|]. intro K. apply kind_eqb_eq in K. congruence. }
  assert (Hnoninput : forall m d, In d (old_fwd s m) -> nkind m <> KInput).
  { intros m d Hd K. rewrite (minput_no_fwd _ _ _ _ _ _ _ _ HI K) in Hd. destruct Hd. }
  assert (Hsame : forall m, nkind m <> KInput -> get_info s4 m = get_info s m).
  { intros m K. rewrite Hget. apply D. exact K. }
  assert (Hstored : forall m, get_info s m <> None -> get_info s4 m <> None).
  { intros m Hm. rewrite Hget. destruct (get_info s m) as [i0|] eqn:Ei0; [|congruence].
    destruct (kind_eqb (nkind m) KInput) eqn:Ek.
    - apply kind_eqb_eq in Ek. destruct (F m i0 Ek Ei0) as [i [Hi _]]. congruence.
    - rewrite D; [congruence|]. intro K. apply kind_eqb_eq in K. congruence. }
  assert (Hpath : forall a b, tpath s4 a b <-> tpath s a b).
  { intros a b. split; intro K.
    - eapply tpath_frame_inv; [exact K|]. intros; apply Hfwd.
    - eapply tpath_frame; [exact K|]. intros; apply Hfwd. }
  (* an input whose value changed was expanded *)
  assert (Hchanged : forall z j0 j, nkind z = KInput -> get_info s z = Some j0 -> get_info s4 z = Some j ->
             i_value j <> i_value j0 -> In z (s_visited s4)).
  { intros z j0 j Kz H0 H4 Hne. apply N8. destruct (F z j0 Kz H0) as [j' [Hj' Hv]].
    rewrite Hget in H4. assert (j' = j) by congruence. subst j'.
    destruct (in_dec node_eq_dec z batch) as [K|K]; [exact K|]. exfalso. apply Hne. apply Hv. exact K. }
  (* an edge whose target saw a change is dirty *)
  assert (Hedge : forall y z, In z (old_fwd s y) -> edgeok s y z -> ~ In z (s_visited s4) -> edgeok s4 y z).
  { intros y z Hz (iy & jz & v & t & A1 & A2 & A3 & A4 & A5) Hnv.
    assert (Ky : nkind y <> KInput) by (eapply Hnoninput; eauto).
    destruct (kind_eqb (nkind z) KInput) eqn:Ek.
    - apply kind_eqb_eq in Ek. destruct (F z jz Ek A2) as [j [Hj _]].
      assert (Hj4 : get_info s4 z = Some j) by (rewrite Hget; exact Hj).
      destruct (Z.eq_dec (i_value j) (i_value jz)) as [Ev|Ev].
      + exists iy, j, v, t. split; [rewrite (Hsame y Ky); exact A1|]. split; [exact Hj4|].
        split; [exact A3|]. split; [congruence|]. intros Kn x.
        destruct (E z j Ek Hj) as (_ & _ & T & _). rewrite T.
        destruct (mi_kind _ _ _ _ _ _ _ HI z jz A2) as [(_ & _ & _ & T0 & _)|(K & _)]; [|rewrite Ek in K; discriminate].
        rewrite <- (A5 Kn x), T0. reflexivity.
      + exfalso. apply Hnv. eapply Hchanged; eauto.
    - assert (Kz : nkind z <> KInput) by (intro K; apply kind_eqb_eq in K; congruence).
      exists iy, jz, v, t. rewrite (Hsame y Ky), (Hsame z Kz). auto. }
  (* the non-firewall nodes above an expanded node are expanded *)
  assert (Hup : forall d y, tpath s d y -> thru d -> In y (s_visited s4) -> In d (s_visited s4)).
  { intros d y Hp. induction Hp as [d|d d' y Hd Hn Hp IH]; intros Hnd Hy; [exact Hy|].
    specialize (IH Hn Hy). apply (proj2 (HV d' IH d (proj2 (mi_bwd _ _ _ _ _ _ _ HI d d') Hd))). exact Hnd. }
  assert (HGood : forall d, thru d -> MGood s d -> ~ In d (s_visited s4) -> MGood s4 d).
  { intros d Hnd HG Hnv. eapply MGood_frame; [exact HG|intros; apply Hfwd|].
    intros y z Hy Hz Hyz. apply Hedge; auto. intro Kz. apply Hnv.
    assert (Hny : thru y).
    { destruct (tpath_last _ _ _ Hy) as [<-|[w (_ & _ & K)]]; assumption. }
    apply (Hup d y Hy Hnd). apply (proj2 (HV z Kz y (proj2 (mi_bwd _ _ _ _ _ _ _ HI y z) Hz))). exact Hny. }
  assert (Hnotver : forall m i, get_info s4 m = Some i -> i_verified i = s_ts s4 -> nkind m = KInput).
  { intros m i Hi Hv. destruct (Hcases m i Hi) as [(K & _)|[_ K]]; [exact K|].
    pose proof (mi_ts _ _ _ _ _ _ _ HI m i K). lia. }
  assert (Hinput_leaf : forall m, nkind m = KInput -> forall x, tpath s m x -> old_fwd s x = []).
  { intros m K x Hx. pose proof (minput_no_fwd _ _ _ _ _ _ _ _ HI K) as E0.
    inversion Hx; subst; [exact E0|].
    match goal with H : In _ (old_fwd s m) |- _ => rewrite E0 in H; destruct H end. }
  split.
  - intros m i Hi. destruct (Hcases m i Hi) as [(K1 & K2 & K3 & K4 & K5 & _)|[K1 K2]].
    + left. auto.
    + destruct (mi_kind _ _ _ _ _ _ _ HI m i K2) as [(K & _)|K]; [congruence|]. right. exact K.
  - intros m i d Hi Hdi. destruct (Hcases m i Hi) as [(_ & K & _)|[_ K]].
    + rewrite K in Hdi. destruct Hdi.
    + eapply mi_obs; eauto.
  - intros m i d v Hi Hv. destruct (Hcases m i Hi) as [(_ & _ & K & _)|[_ K]].
    + rewrite K in Hv. discriminate.
    + eapply mi_obs_fwd; eauto.
  - intros m d Hd. rewrite Hfwd in Hd. apply Hstored. eapply mi_target; eauto.
  - intros m d. rewrite Hcal, Hfwd. apply (mi_bwd _ _ _ _ _ _ _ HI).
  - intros a b K. rewrite Hfwd. destruct (Hd_new a b K) as [K1|K1].
    + eapply mi_dirty_edge; eauto.
    + apply (mi_bwd _ _ _ _ _ _ _ HI). exact K1.
  - intros m i Hi. rewrite Hts. destruct (Hcases m i Hi) as [(_ & _ & _ & _ & _ & K)|[_ K]]; [exact K|].
    pose proof (mi_ts _ _ _ _ _ _ _ HI m i K). lia.
  - intros m i d v t Hi Ho. destruct (Hcases m i Hi) as [(_ & _ & K & _)|[_ K]].
    + rewrite K in Ho. discriminate.
    + eapply mi_tfc; eauto.
  - intros m i F0 Hi HF. destruct (Hcases m i Hi) as [(_ & _ & _ & K & _)|[_ K]].
    + rewrite K in HF. destruct HF.
    + eapply mi_tfc_ex; eauto.
  - intros m i F0 Hi HF. destruct (Hcases m i Hi) as [(_ & _ & _ & K & _)|[_ K]].
    + rewrite K in HF. destruct HF.
    + eapply mi_tfc_rk; eauto.
  - intros m i F0 Hi HF. destruct (Hcases m i Hi) as [(_ & _ & _ & K & _)|[_ K]].
    + rewrite K in HF. destruct HF.
    + eapply mi_tfc_fw; eauto.
  - (* mi_C *)
    intros m d Hd Hcl. rewrite Hfwd in Hd.
    assert (Hcl0 : ~ sdirty s m d) by (intro K; apply Hcl; apply Hd_mono; exact K).
    destruct (mi_C _ _ _ _ _ _ _ HI m d Hd Hcl0) as [Em Gd].
    assert (Hdv : ~ In d (s_visited s4)).
    { intro K. apply Hcl. apply (proj1 (HV d K m (proj2 (mi_bwd _ _ _ _ _ _ _ HI m d) Hd))). }
    split; [apply Hedge; assumption|]. intro Hn. apply MGood_GoodX. apply HGood; auto. apply MGoodX_nil. auto.
  - (* mi_G *)
    intros m [i [Hi Hv]]. pose proof (Hnotver m i Hi Hv) as K.
    intros x Hx d Hd. apply Hpath in Hx. rewrite Hfwd in Hd. rewrite (Hinput_leaf m K x Hx) in Hd. destruct Hd.
  - (* mi_T *)
    intros m F0 [i [Hi Hv]] [x (P1 & P2 & _)]. pose proof (Hnotver m i Hi Hv) as K. exfalso.
    apply Hpath in P1. rewrite Hfwd in P2. rewrite (Hinput_leaf m K x P1) in P2. destruct P2.
  - (* mi_V *)
    intros m i Hi Hv. pose proof (Hnotver m i Hi Hv) as K.
    destruct (Hcases m i Hi) as [(_ & _ & _ & _ & K5 & _)|[K1 _]]; [|contradiction].
    apply MSpecI_input; assumption.
  - (* mi_PV *)
    intros x Hx. right. destruct (N10 x Hx) as [[]|[K|[_ [y K]]]].
    + left. destruct (G x K) as [_ [i [Gi Gv]]]. exists i. rewrite Hget, Hts. auto.
    + right. split.
      * cbn [s3 set_visited set_stat callers_of s_bwd] in K.
        assert (K' : In x (callers_of s y)) by (unfold callers_of in *; cbn in K; rewrite A in K; exact K).
        apply (mi_bwd _ _ _ _ _ _ _ HI) in K'. eapply Hnoninput; eauto.
      * intros c Hc. rewrite Hcal in Hc. apply HV; assumption.
  - intros x [].
  - intros m Hm. exfalso. rewrite N4, (sess_fold_log _ _ _ _ _ _ _ Hfold) in Hm. cbn [set_ts s_log] in Hm. rewrite Hlog in Hm. destruct Hm.
  - intro m. right. reflexivity.
  - intros m i Hi. right. exists i. split; [exact Hi|]. intros. reflexivity.
Qed.

(** the entries of the queries are not touched by a session *)
Lemma commit_other : forall s sets fuel s1 rs batch s4 m,
  fold_left fsess_step sets (set_ts s (s_ts s + 1)%N, [], []) = (s1, rs, batch) ->
  propagate fuel (set_visited (set_stat s1 0%N) []) batch = Ok s4 ->
  nkind m <> KInput -> get_info s4 m = get_info s m.
Proof.
  intros s sets fuel s1 rs batch s4 m Hfold Hprop Hk.
  apply propagate_same in Hprop. destruct Hprop as (N1 & _).
  assert (E : get_info s4 m = get_info s1 m) by (unfold get_info; rewrite N1; reflexivity). rewrite E. clear E N1.
  assert (G : forall sets cur rs batch cur' rs' batch',
            fold_left fsess_step sets (cur, rs, batch) = (cur', rs', batch') -> get_info cur' m = get_info cur m).
  { clear Hfold. induction sets0 as [|[v x] r IH]; intros cur rs0 batch0 cur' rs' batch' H; cbn [fold_left] in H.
    - inversion H. reflexivity.
    - rewrite fsess_step_eq in H. apply IH in H. rewrite H. rewrite set_input_get.
      destruct (node_eqb_spec (mkNode KInput v) m) as [<-|Hne]; [exfalso; apply Hk; reflexivity|reflexivity]. }
  rewrite (G _ _ _ _ _ _ _ Hfold). reflexivity.
Qed.
End Commit.
