(** Commit of an input session on the full model: writing the inputs, re-running the external
    inputs (refresh) and the dirty propagation (which stops at firewalls and projections) take a
    state satisfying [MInv] (outside any window) for the old environment to a state satisfying
    it for the new one. *)
From QV Require Import Common.Prelude Engine.Model Engine.Core Engine.CoreSpec Engine.CoreInvBase
  Engine.CoreInvSem Engine.CoreInvCommit Engine.Fw Engine.FwBase Engine.FwMono Engine.FwOnce Engine.FwInv
  Engine.MdlSpec Engine.MdlSem Engine.MdlBase Engine.MdlInv Engine.MdlInvState.
Open Scope Z_scope.

(** the refresh of the external inputs computed so far *)
Definition refresh_step : state * list node -> node -> state * list node :=
  fun '(s, batch) e =>
    let v := world_get s (nidx e) in
    let changed := match get_info s e with Some i => negb (i_value i =? v) | None => false end in
    (set_computed_input (set_log s (e :: s_log s)) e v, if changed then batch ++ [e] else batch).
Definition xref (s : state) (l : list node) (xe : xenv) : xenv :=
  fold_left (fun xe e => fun k => if (k =? nidx e)%N then Some (world_get s (nidx e)) else xe k) l xe.

Lemma sess_fold_log : forall sets cur rs batch cur' rs' batch',
  fold_left fsess_step sets (cur, rs, batch) = (cur', rs', batch') -> s_log cur' = s_log cur.
Proof.
  induction sets as [|[v x] r IH]; intros cur rs batch cur' rs' batch' H; cbn [fold_left] in H.
  - inversion H. reflexivity.
  - rewrite fsess_step_eq in H. apply IH in H. rewrite H. apply set_input_log.
Qed.

Section Commit.
Variable p : program.
Variable rk : node -> nat.
Hypothesis Hrk : forall n e d, alookup p n = Some e -> In d (expr_reads e) -> (rk d < rk n)%nat.
Hypothesis Hproj : forall n e d, alookup p n = Some e -> nkind n = KProjection -> In d (expr_reads e) ->
  is_fw_or_proj (nkind d) = true.

(** what the writes of a session keep, relative to the state [s] before the session *)
Record MSess (s cur : state) (env' : menv) (batch : list node) : Prop := {
  ms_bwd : s_bwd cur = s_bwd s;
  ms_dirty : s_dirty cur = s_dirty s;
  ms_ts : s_ts cur = (s_ts s + 1)%N;
  ms_world : s_world cur = s_world s;
  ms_ext : s_ext cur = s_ext s;
  ms_other : forall m, ~ leaf m -> get_info cur m = get_info s m;
  ms_leaf : forall m i, leaf m -> get_info cur m = Some i ->
     i_fwd i = [] /\ i_obs i = [] /\ i_tfc i = [] /\
     leaf_val env' m = Some (i_value i) /\ (i_verified i <= s_ts s + 1)%N;
  ms_keep : forall m i0, leaf m -> get_info s m = Some i0 ->
     exists i, get_info cur m = Some i /\ (~ In m batch -> i_value i = i_value i0);
  ms_batch : forall m, In m batch -> leaf m /\
     exists i, get_info cur m = Some i /\ i_verified i = (s_ts s + 1)%N;
  ms_W : forall k, get_info cur (ext_node k) = None -> snd env' k = Some (world_get s k);
}.

Lemma MSess_init : forall sA env s, MInv p rk sA [] env s -> MSess s (set_ts s (s_ts s + 1)%N) env [].
Proof.
  intros sA env s HI. split; try reflexivity.
  - intros m i Hm Hi. change (get_info s m = Some i) in Hi.
    destruct (mi_kind _ _ _ _ _ _ _ HI m i Hi) as [(K1 & K2 & K3 & K4 & K5)|[K1 _]].
    + repeat (split; [assumption|]). pose proof (mi_ts _ _ _ _ _ _ _ HI m i Hi). lia.
    + destruct Hm as [Hm|Hm]; rewrite Hm in K1; discriminate.
  - intros m i0 Hm Hi0. exists i0. split; [exact Hi0|reflexivity].
  - intros m [].
  - intros k Hk. apply (mi_W _ _ _ _ _ _ _ HI). exact Hk.
Qed.

Lemma set_input_we : forall s n v, s_world (set_computed_input s n v) = s_world s /\ s_ext (set_computed_input s n v) = s_ext s.
Proof.
  intros. unfold set_computed_input, put_info. cbn [set_nodes s_world s_ext].
  destruct (get_info s n); [split; [apply (sg_world _ _ (unwire_sbg _ _ _ _))|apply (sg_ext _ _ (unwire_sbg _ _ _ _))]|auto].
Qed.
Lemma sess_fold_ext : forall sets cur rs batch cur' rs' batch',
  fold_left fsess_step sets (cur, rs, batch) = (cur', rs', batch') -> s_ext cur' = s_ext cur.
Proof.
  induction sets as [|[v x] r IH]; intros cur rs batch cur' rs' batch' H; cbn [fold_left] in H.
  - inversion H. reflexivity.
  - rewrite fsess_step_eq in H. apply IH in H. rewrite H. apply (proj2 (set_input_we _ _ _)).
Qed.
Lemma refresh_fold_ext0 : forall l cur batch cur' batch',
  fold_left refresh_step l (cur, batch) = (cur', batch') -> s_ext cur' = s_ext cur.
Proof.
  induction l as [|e r IH]; intros cur batch cur' batch' H; cbn [fold_left] in H.
  - inversion H. reflexivity.
  - unfold refresh_step at 2 in H. cbv zeta in H. apply IH in H. rewrite H. rewrite (proj2 (set_input_we _ _ _)). reflexivity.
Qed.

Lemma set_input_nofwd : forall s n v, old_fwd s n = [] ->
  s_bwd (set_computed_input s n v) = s_bwd s /\ s_dirty (set_computed_input s n v) = s_dirty s.
Proof.
  intros s n v H. unfold set_computed_input, old_fwd in *. destruct (get_info s n) as [i|].
  - unfold unwire. rewrite H. cbn. auto.
  - cbn. auto.
Qed.

(** one write of a leaf *)
Lemma MSess_step : forall s cur env1 env2 batch n x l,
  MSess s cur env1 batch -> leaf n ->
  (forall m, leaf m -> m <> n -> leaf_val env2 m = leaf_val env1 m) ->
  leaf_val env2 n = Some x ->
  (forall k, ext_node k <> n -> snd env2 k = snd env1 k) ->
  MSess s (set_computed_input (set_log cur l) n x) env2
        (if match get_info cur n with Some i => negb (i_value i =? x) | None => false end then batch ++ [n] else batch).
Proof.
  intros s cur env1 env2 batch n x l [A B C Dw Dx D E F G W] Hn He1 He2 He3.
  set (cur0 := set_log cur l).
  set (chg := match get_info cur n with Some i => negb (i_value i =? x) | None => false end).
  assert (Hof : old_fwd cur0 n = []).
  { unfold old_fwd. change (get_info cur0 n) with (get_info cur n). destruct (get_info cur n) as [i|] eqn:Ei; [|reflexivity].
    destruct (E n i Hn Ei) as (K & _). rewrite K. reflexivity. }
  destruct (set_input_nofwd cur0 n x Hof) as [K1 K2]. destruct (set_input_we cur0 n x) as [K3 K4].
  split.
  - rewrite K1. exact A.
  - rewrite K2. exact B.
  - rewrite set_input_ts. exact C.
  - rewrite K3. exact Dw.
  - rewrite K4. exact Dx.
  - intros m Hm. rewrite set_input_get. destruct (node_eqb_spec n m) as [<-|Hne]; [contradiction|]. apply D. exact Hm.
  - intros m i Hm Hi. rewrite set_input_get in Hi. destruct (node_eqb_spec n m) as [<-|Hne].
    + inversion Hi. subst i. cbn [i_fwd i_obs i_tfc i_value i_verified]. repeat (split; [reflexivity|]).
      split; [exact He2|]. change (s_ts cur0) with (s_ts cur). rewrite C. lia.
    + destruct (E m i Hm Hi) as (E1 & E2 & E3 & E4 & E5). repeat (split; [assumption|]). split; [|exact E5].
      rewrite He1; auto.
  - intros m i0 Hm Hi0. destruct (F m i0 Hm Hi0) as [i [Hi Hv]]. rewrite set_input_get.
    destruct (node_eqb_spec n m) as [<-|Hne].
    + eexists. split; [reflexivity|]. cbn [i_value]. intro Hnb. unfold chg in Hnb. rewrite Hi in Hnb.
      destruct (i_value i =? x) eqn:Ex; cbn [negb] in Hnb.
      * apply Z.eqb_eq in Ex. rewrite <- Ex. apply Hv. exact Hnb.
      * exfalso. apply Hnb. apply in_or_app. right. left. reflexivity.
    + exists i. split; [exact Hi|]. intro Hnb. apply Hv. intro K. apply Hnb.
      destruct chg; auto. apply in_or_app. auto.
  - intros m Hm.
    assert (Hm' : In m batch \/ m = n).
    { destruct chg; auto. apply in_app_or in Hm. destruct Hm as [Hm|[<-|[]]]; auto. }
    destruct Hm' as [Hm'| ->].
    + destruct (G m Hm') as [Gk [i [Gi Gv]]]. split; [exact Gk|]. rewrite set_input_get.
      destruct (node_eqb_spec n m) as [<-|Hne].
      * eexists. split; [reflexivity|]. cbn [i_verified]. exact C.
      * exists i. auto.
    + split; [exact Hn|]. rewrite set_input_get, node_eqb_refl. eexists. split; [reflexivity|].
      cbn [i_verified]. exact C.
  - intros k Hk. rewrite set_input_get in Hk. destruct (node_eqb_spec n (ext_node k)) as [Ek|Hne]; [discriminate|].
    rewrite He3; [|intro K; apply Hne; symmetry; exact K]. apply W. exact Hk.
Qed.

Lemma leaf_val_input_set : forall env v x m, leaf m -> m <> mkNode KInput v ->
  leaf_val (input_set (fst env) v x, snd env) m = leaf_val env m.
Proof.
  intros env v x m Hm Hne. unfold leaf_val. cbn [fst snd]. destruct (nkind m) eqn:K; try reflexivity.
  rewrite input_get_set. destruct (N.eqb_spec (nidx m) v) as [Ev|Ev]; [|reflexivity].
  exfalso. apply Hne. rewrite (input_node_eta m K). congruence.
Qed.

Lemma sess_fold_MSess : forall s sets cur env1 rs batch cur' rs' batch',
  MSess s cur env1 batch ->
  fold_left fsess_step sets (cur, rs, batch) = (cur', rs', batch') ->
  MSess s cur' (fold_left (fun a '(i, v) => input_set a i v) sets (fst env1), snd env1) batch'.
Proof.
  intros s. induction sets as [|[v x] r IH]; intros cur env1 rs batch cur' rs' batch' HS H; cbn [fold_left] in *.
  - inversion H. subst. destruct env1. exact HS.
  - rewrite fsess_step_eq in H.
    assert (HS' : MSess s (set_computed_input cur (mkNode KInput v) x) (input_set (fst env1) v x, snd env1)
                    (match (match get_info cur (mkNode KInput v) with
                            | None => SFresh
                            | Some i => if i_value i =? x then SUnchanged else SUpdated end) with
                     | SUpdated => batch ++ [mkNode KInput v] | _ => batch end)).
    { pose proof (MSess_step s cur env1 (input_set (fst env1) v x, snd env1) batch (mkNode KInput v) x (s_log cur) HS) as Q.
      assert (Ec : set_log cur (s_log cur) = cur) by (destruct cur; reflexivity). rewrite Ec in Q.
      assert (Eb : (if match get_info cur (mkNode KInput v) with Some i => negb (i_value i =? x) | None => false end
                    then batch ++ [mkNode KInput v] else batch) =
                   match (match get_info cur (mkNode KInput v) with
                          | None => SFresh
                          | Some i => if i_value i =? x then SUnchanged else SUpdated end) with
                   | SUpdated => batch ++ [mkNode KInput v] | _ => batch end).
      { destruct (get_info cur (mkNode KInput v)) as [i|]; [|reflexivity]. destruct (i_value i =? x); reflexivity. }
      rewrite <- Eb. apply Q.
      - left. reflexivity.
      - intros m Hm Hne. apply leaf_val_input_set; assumption.
      - unfold leaf_val. cbn [nkind nidx fst]. rewrite input_get_set, N.eqb_refl. reflexivity.
      - intros k _. reflexivity. }
    specialize (IH _ _ _ _ _ _ _ HS' H). cbn [fst snd] in IH. exact IH.
Qed.

Lemma refresh_fold_MSess : forall s l cur env1 batch cur' batch',
  MSess s cur env1 batch -> (forall e, In e l -> nkind e = KExternal) ->
  fold_left refresh_step l (cur, batch) = (cur', batch') ->
  MSess s cur' (fst env1, xref s l (snd env1)) batch'.
Proof.
  intros s. induction l as [|e r IH]; intros cur env1 batch cur' batch' HS Hk H; cbn [fold_left] in *.
  - inversion H. subst. destruct env1. exact HS.
  - unfold refresh_step at 2 in H. cbv zeta in H.
    assert (Ke : nkind e = KExternal) by (apply Hk; left; reflexivity).
    assert (Ew : world_get cur (nidx e) = world_get s (nidx e)) by (unfold world_get; rewrite (ms_world _ _ _ _ HS); reflexivity).
    set (env2 := (fst env1, (fun k => if (k =? nidx e)%N then Some (world_get s (nidx e)) else snd env1 k) : xenv)).
    assert (HS' : MSess s (set_computed_input (set_log cur (e :: s_log cur)) e (world_get cur (nidx e))) env2
                    (if match get_info cur e with Some i => negb (i_value i =? world_get cur (nidx e)) | None => false end
                     then batch ++ [e] else batch)).
    { apply (MSess_step s cur env1 env2 batch e (world_get cur (nidx e)) (e :: s_log cur) HS).
      - right. exact Ke.
      - intros m Hm Hne. unfold leaf_val, env2. cbn [fst snd]. destruct (nkind m) eqn:Km; try reflexivity.
        destruct (N.eqb_spec (nidx m) (nidx e)) as [Ev|Ev]; [|reflexivity].
        exfalso. apply Hne. rewrite (node_ext_eta m Km), (node_ext_eta e Ke). congruence.
      - unfold leaf_val, env2. rewrite Ke. cbn [snd]. rewrite N.eqb_refl, Ew. reflexivity.
      - intros k Hne. unfold env2. cbn [snd]. destruct (N.eqb_spec k (nidx e)) as [Ev|Ev]; [|reflexivity].
        exfalso. apply Hne. rewrite (node_ext_eta e Ke). congruence. }
    specialize (IH _ _ _ _ _ HS' (fun x Hx => Hk x (or_intror Hx)) H). cbn [fst snd env2] in IH. exact IH.
Qed.

Variable pord : state -> node -> list node -> list node.
Hypothesis Hpord : forall s x l y, In y (pord s x l) <-> In y l.

(** the dirty propagation from the changed leaves *)
Lemma MInv_of_MSess : forall sA env env' s s2 batch fuel s4,
  MInv p rk sA [] env s -> MSess s s2 env' batch ->
  propagate_o pord fuel (set_visited (set_stat s2 0%N) []) batch = Ok s4 ->
  MInv p rk (set_log s4 []) [] env' (set_log s4 []).
Proof.
  intros sA env env' s s1 batch fuel s40 HI HS Hprop.
  destruct HS as [A B C Dw Dx D E F G W].
  set (s3 := set_visited (set_stat s1 0%N) []) in *.
  assert (HP0 : PVp push_p (fun _ => False) s3 batch) by (intros x []).
  destruct (propagate_spec_p pord Hpord _ _ _ _ _ Hprop HP0) as (N1 & N2 & N3 & N4 & N5 & N6 & _ & N8 & N9 & N10).
  destruct (propagate_o_we _ _ _ _ _ Hprop) as [Nw Nx].
  cbn [s3 set_visited set_stat s_nodes s_bwd s_ts s_log s_world s_ext] in N1, N2, N3, N4, Nw, Nx.
  set (s4 := set_log s40 []).
  assert (Hget : forall m, get_info s4 m = get_info s1 m) by (intro m; unfold s4, get_info; cbn [set_log s_nodes]; rewrite N1; reflexivity).
  assert (Hcal : forall y, callers_of s4 y = callers_of s y) by (intro y; unfold s4, callers_of; cbn [set_log s_bwd]; rewrite N2, A; reflexivity).
  assert (Hts : s_ts s4 = (s_ts s + 1)%N) by (unfold s4; cbn [set_log s_ts]; congruence).
  assert (Hd_mono : forall a b, sdirty s a b -> sdirty s4 a b).
  { intros a b K. unfold s4. change (sdirty s40 a b). apply N5. unfold sdirty in *. cbn. rewrite B. exact K. }
  assert (Hd_new : forall a b, sdirty s4 a b -> sdirty s a b \/ In a (callers_of s b)).
  { intros a b K. change (sdirty s40 a b) in K. apply N6 in K. destruct K as [K|K].
    - left. unfold sdirty in *. cbn in K. rewrite B in K. exact K.
    - right. unfold callers_of in *. cbn in K. rewrite A in K. exact K. }
  assert (leaf_dec : forall m, leaf m \/ ~ leaf m).
  { intro m. unfold leaf. destruct (nkind m); try (left; auto; fail); right; intros [K|K]; discriminate. }
  assert (leaf_nfp : forall m, leaf m -> is_fw_or_proj (nkind m) = false).
  { intros m [K|K]; rewrite K; reflexivity. }
  (* a node expanded by the session's propagation is a leaf or neither firewall nor projection *)
  assert (Hvkind : forall x, In x (s_visited s4) -> is_fw_or_proj (nkind x) = false).
  { intros x Hx. destruct (N10 x Hx) as [[]|[K|[K _]]].
    - apply leaf_nfp. apply (G x K).
    - apply negb_true_iff. exact K. }
  (* expanded nodes: all edges into them are dirty, their non-firewall callers are expanded *)
  assert (HV : forall x, In x (s_visited s4) -> forall c, In c (callers_of s x) ->
                 sdirty s4 c x /\ (thru c -> In c (s_visited s4))).
  { intros x Hx c Hc. destruct (N9 x Hx) as [[]|K].
    assert (Hc4 : In c (callers_of s40 x)) by (unfold callers_of; rewrite N2; cbn; rewrite A; exact Hc).
    destruct (K c Hc4) as [K1 K2]. split; [exact K1|]. intro Ht.
    assert (Hcp : push_p c = true).
    { apply push_p_nonfw. unfold nonfw. destruct (nkind c) eqn:Kc; try reflexivity.
      - exfalso. apply Ht. exact Kc.
      - exfalso. eapply (no_proj_caller p rk Hproj _ _ _ _ _ x c HI (Hvkind x Hx) Hc). exact Kc. }
    destruct (K2 Hcp) as [K3|[]]. exact K3. }
  (* stored entries of s4: leaves written or kept, other nodes untouched *)
  assert (Hcases : forall m i, get_info s4 m = Some i ->
            (leaf m /\ i_fwd i = [] /\ i_obs i = [] /\ i_tfc i = [] /\
             leaf_val env' m = Some (i_value i) /\ (i_verified i <= s_ts s + 1)%N)
            \/ (~ leaf m /\ get_info s m = Some i)).
  { intros m i Hi. rewrite Hget in Hi. destruct (leaf_dec m) as [Ek|Ek].
    - left. split; [exact Ek|]. apply (E m i Ek Hi).
    - right. split; [exact Ek|]. rewrite <- D; assumption. }
  assert (Hfwd : forall m, old_fwd s4 m = old_fwd s m).
  { intro m. unfold old_fwd. destruct (get_info s4 m) as [i|] eqn:Hi.
    - destruct (Hcases m i Hi) as [(K & K2 & _)|[_ K]].
      + rewrite K2. cbn. symmetry. apply (mleaf_no_fwd _ _ _ _ _ _ _ _ HI K).
      + rewrite K. reflexivity.
    - destruct (get_info s m) as [i0|] eqn:Hi0; [|reflexivity]. exfalso.
      rewrite Hget in Hi. destruct (leaf_dec m) as [Ek|Ek].
      + destruct (F m i0 Ek Hi0) as [i [K _]]. congruence.
      + rewrite D in Hi; [congruence|exact Ek]. }
  assert (Hnonleaf : forall m d, In d (old_fwd s m) -> ~ leaf m).
  { intros m d Hd K. rewrite (mleaf_no_fwd _ _ _ _ _ _ _ _ HI K) in Hd. destruct Hd. }
  assert (Hsame : forall m, ~ leaf m -> get_info s4 m = get_info s m).
  { intros m K. rewrite Hget. apply D. exact K. }
  assert (Hstored : forall m, get_info s m <> None -> get_info s4 m <> None).
  { intros m Hm. rewrite Hget. destruct (get_info s m) as [i0|] eqn:Ei0; [|congruence].
    destruct (leaf_dec m) as [Ek|Ek].
    - destruct (F m i0 Ek Ei0) as [i [Hi _]]. congruence.
    - rewrite D; [congruence|exact Ek]. }
  assert (Hpath : forall a b, tpath s4 a b <-> tpath s a b).
  { intros a b. split; intro K.
    - eapply tpath_frame_inv; [exact K|]. intros; apply Hfwd.
    - eapply tpath_frame; [exact K|]. intros; apply Hfwd. }
  (* a leaf whose value changed was expanded *)
  assert (Hchanged : forall z j0 j, leaf z -> get_info s z = Some j0 -> get_info s4 z = Some j ->
             i_value j <> i_value j0 -> In z (s_visited s4)).
  { intros z j0 j Kz H0 H4 Hne. apply N8. destruct (F z j0 Kz H0) as [j' [Hj' Hv]].
    rewrite Hget in H4. assert (j' = j) by congruence. subst j'.
    destruct (in_dec node_eq_dec z batch) as [K|K]; [exact K|]. exfalso. apply Hne. apply Hv. exact K. }
  (* an edge whose target saw a change is dirty *)
  assert (Hedge : forall y z, In z (old_fwd s y) -> edgeok s y z -> ~ In z (s_visited s4) -> edgeok s4 y z).
  { intros y z Hz (iy & jz & v & t & A1 & A2 & A3 & A4 & A5) Hnv.
    assert (Ky : ~ leaf y) by (eapply Hnonleaf; eauto).
    destruct (leaf_dec z) as [Ek|Ek].
    - destruct (F z jz Ek A2) as [j [Hj _]].
      assert (Hj4 : get_info s4 z = Some j) by (rewrite Hget; exact Hj).
      destruct (Z.eq_dec (i_value j) (i_value jz)) as [Ev|Ev].
      + exists iy, j, v, t. split; [rewrite (Hsame y Ky); exact A1|]. split; [exact Hj4|].
        split; [exact A3|]. split; [congruence|]. intros Kn x.
        destruct (E z j Ek Hj) as (_ & _ & T & _). rewrite T.
        destruct (mi_kind _ _ _ _ _ _ _ HI z jz A2) as [(_ & _ & _ & T0 & _)|(K & _)].
        * rewrite <- (A5 Kn x), T0. reflexivity.
        * destruct Ek as [Ek|Ek]; rewrite Ek in K; discriminate.
      + exfalso. apply Hnv. eapply Hchanged; eauto.
    - exists iy, jz, v, t. rewrite (Hsame y Ky), (Hsame z Ek). auto. }
  (* the non-firewall nodes above an expanded node are expanded *)
  assert (Hup : forall d y, tpath s d y -> thru d -> In y (s_visited s4) -> In d (s_visited s4)).
  { intros d y Hp. induction Hp as [d|d d' y Hd Hn Hp IH]; intros Hnd Hy; [exact Hy|].
    specialize (IH Hn Hy). apply (proj2 (HV d' IH d (proj2 (mi_bwd _ _ _ _ _ _ _ HI d d') Hd))). exact Hnd. }
  assert (HGood : forall d, thru d -> MGood s d -> ~ In d (s_visited s4) -> MGood s4 d).
  { intros d Hnd HG Hnv. eapply MGood_frame; [exact HG|intros; apply Hfwd|].
    intros y z Hy Hz Hyz. apply Hedge; auto. intro Kz. apply Hnv.
    assert (Hny : thru y).
    { destruct (tpath_last _ _ _ Hy) as [<-|[w (_ & _ & K)]]; assumption. }
    apply (Hup d y Hy Hnd). apply (proj2 (HV z Kz y (proj2 (mi_bwd _ _ _ _ _ _ _ HI y z) Hz))). exact Hny. }
  assert (Hnotver : forall m i, get_info s4 m = Some i -> i_verified i = s_ts s4 -> leaf m).
  { intros m i Hi Hv. destruct (Hcases m i Hi) as [(K & _)|[_ K]]; [exact K|].
    pose proof (mi_ts _ _ _ _ _ _ _ HI m i K). lia. }
  assert (Hleaf_end : forall m, leaf m -> forall x, tpath s m x -> old_fwd s x = []).
  { intros m K x Hx. pose proof (mleaf_no_fwd _ _ _ _ _ _ _ _ HI K) as E0.
    inversion Hx; subst; [exact E0|].
    match goal with H : In _ (old_fwd s m) |- _ => rewrite E0 in H; destruct H end. }
  split.
  - intros m i Hi. destruct (Hcases m i Hi) as [(K1 & K2 & K3 & K4 & K5 & _)|[K1 K2]].
    + left. auto.
    + destruct (mi_kind _ _ _ _ _ _ _ HI m i K2) as [(K & _)|K]; [contradiction|]. right. exact K.
  - intros m i d Hi Hdi. destruct (Hcases m i Hi) as [(_ & K & _)|[_ K]].
    + rewrite K in Hdi. destruct Hdi.
    + eapply mi_obs; eauto.
  - intros m i d v Hi Hv. destruct (Hcases m i Hi) as [(_ & _ & K & _)|[_ K]].
    + rewrite K in Hv. discriminate.
    + eapply mi_obs_fwd; eauto.
  - intros m d Hd. rewrite Hfwd in Hd. apply Hstored. eapply mi_target; eauto.
  - intros m d. rewrite Hcal, Hfwd. apply (mi_bwd _ _ _ _ _ _ _ HI).
  - intros a b K. rewrite Hfwd. destruct (Hd_new a b K) as [K1|K1].
    + eapply mi_dirty_edge; eauto.
    + apply (mi_bwd _ _ _ _ _ _ _ HI). exact K1.
  - intros m i Hi. rewrite Hts. destruct (Hcases m i Hi) as [(_ & _ & _ & _ & _ & K)|[_ K]]; [exact K|].
    pose proof (mi_ts _ _ _ _ _ _ _ HI m i K). lia.
  - intros m i d v t Hi Ho. destruct (Hcases m i Hi) as [(_ & _ & K & _)|[_ K]].
    + rewrite K in Ho. discriminate.
    + eapply mi_tfc; eauto.
  - intros m i F0 Hi HF. destruct (Hcases m i Hi) as [(_ & _ & _ & K & _)|[_ K]].
    + rewrite K in HF. destruct HF.
    + eapply mi_tfc_ex; eauto.
  - intros m i F0 Hi HF. destruct (Hcases m i Hi) as [(_ & _ & _ & K & _)|[_ K]].
    + rewrite K in HF. destruct HF.
    + eapply mi_tfc_rk; eauto.
  - intros m i F0 Hi HF. destruct (Hcases m i Hi) as [(_ & _ & _ & K & _)|[_ K]].
    + rewrite K in HF. destruct HF.
    + eapply mi_tfc_fw; eauto.
  - (* mi_C *)
    intros m d Hd Hcl. rewrite Hfwd in Hd.
    assert (Hcl0 : ~ sdirty s m d) by (intro K; apply Hcl; apply Hd_mono; exact K).
    destruct (mi_C _ _ _ _ _ _ _ HI m d Hd Hcl0) as [Em Gd].
    assert (Hdv : ~ In d (s_visited s4)).
    { intro K. apply Hcl. apply (proj1 (HV d K m (proj2 (mi_bwd _ _ _ _ _ _ _ HI m d) Hd))). }
    split; [apply Hedge; assumption|]. intro Hn. apply MGood_GoodX. apply HGood; auto. apply MGoodX_nil. auto.
  - (* mi_G *)
    intros m [i [Hi Hv]]. pose proof (Hnotver m i Hi Hv) as K.
    intros x Hx d Hd. apply Hpath in Hx. rewrite Hfwd in Hd. rewrite (Hleaf_end m K x Hx) in Hd. destruct Hd.
  - (* mi_T *)
    intros m F0 [i [Hi Hv]] [x (P1 & P2 & _)]. pose proof (Hnotver m i Hi Hv) as K. exfalso.
    apply Hpath in P1. rewrite Hfwd in P2. rewrite (Hleaf_end m K x P1) in P2. destruct P2.
  - (* mi_V *)
    intros m i Hi Hv. pose proof (Hnotver m i Hi Hv) as K.
    destruct (Hcases m i Hi) as [(_ & _ & _ & _ & K5 & _)|[K1 _]]; [|contradiction].
    apply MSpecI_leaf; assumption.
  - (* mi_PV *)
    intros x Hx. right. destruct (N10 x Hx) as [[]|[K|[_ [y K]]]].
    + left. destruct (G x K) as [_ [i [Gi Gv]]]. exists i. rewrite Hget, Hts. auto.
    + right. split.
      * cbn [s3 set_visited set_stat callers_of s_bwd] in K.
        assert (K' : In x (callers_of s y)) by (unfold callers_of in *; cbn in K; rewrite A in K; exact K).
        apply (mi_bwd _ _ _ _ _ _ _ HI) in K'. intro Ki. apply (Hnonleaf x y K'). left. exact Ki.
      * intros c Hc. rewrite Hcal in Hc. apply HV; assumption.
  - intros x [].
  - intros m [].
  - intro m. right. reflexivity.
  - intros m i Hi. right. exists i. split; [exact Hi|]. intros. reflexivity.
  - (* mi_W *)
    intros k Hk. rewrite Hget in Hk. unfold s4, world_get. cbn [set_log s_world]. rewrite Nw, Dw. apply W. exact Hk.
  - (* mi_ext *)
    intros e He. unfold s4 in He. cbn [set_log s_ext] in He. rewrite Nx, Dx in He. eapply mi_ext; eauto.
Qed.

(** the entries of the queries are not touched by a session *)
Lemma MSess_other : forall s s2 env' batch fuel s4 m, MSess s s2 env' batch ->
  propagate_o pord fuel (set_visited (set_stat s2 0%N) []) batch = Ok s4 -> ~ leaf m -> get_info s4 m = get_info s m.
Proof.
  intros s s2 env' batch fuel s4 m HS Hprop Hk. apply propagate_o_same in Hprop. destruct Hprop as (N1 & _).
  unfold get_info at 1. rewrite N1. apply (ms_other _ _ _ _ HS). exact Hk.
Qed.
Lemma MSess_stored : forall s s2 env' batch fuel s4 m, MSess s s2 env' batch ->
  propagate_o pord fuel (set_visited (set_stat s2 0%N) []) batch = Ok s4 -> get_info s m <> None -> get_info s4 m <> None.
Proof.
  intros s s2 env' batch fuel s4 m HS Hprop Hm. apply propagate_o_same in Hprop. destruct Hprop as (N1 & _).
  unfold get_info at 1. rewrite N1. change (get_info s2 m <> None).
  destruct (get_info s m) as [i0|] eqn:Ei; [|congruence].
  assert (Hd : leaf m \/ ~ leaf m).
  { unfold leaf. destruct (nkind m); try (left; auto; fail); right; intros [K|K]; discriminate. }
  destruct Hd as [K|K].
  - destruct (ms_keep _ _ _ _ HS m i0 K Ei) as [i [Hi _]]. congruence.
  - rewrite (ms_other _ _ _ _ HS m K). congruence.
Qed.
End Commit.
